(** C12 -- the scores respect the symmetries of the model.

    Y1  shift invariance      (x |-> x + c)   of the optimal-parameter costs and of CUSUM
    Y2  scale equivariance    (x |-> a * x)   of the Gaussian cost, invariance of its scores
    Y3  reversal              (x_i |-> x_{n-1-i}, interval [s,e) |-> [n-e,n-s))
    Y4  column permutation    (per-column outputs are permuted, their sum is unchanged)

    Architecture.  The generated kernels (Gen/KernelsR.v) are functions of prefix-sum
    functions.  Section "slice forms" is the ONLY place that looks inside them: each
    kernel, applied to the prefix sums of a column [xs], is shown equal to a list-level
    statistic of the slice [slice s e xs] that depends on the slice only through its
    length, its sum and its sum of squares.  The proofs there do not rely on the
    syntactic shape of the kernel: every prefix value is rewritten as
    "prefix at s + sum of a slice" and the remaining goal is closed by algebra
    ([field]/[lra]), descending through non-algebraic heads ([ln], [sqrt], [Rabs],
    [Rmax]) by congruence only when algebra alone cannot see through them.
    All symmetry statements are then proved on the list-level statistics. *)
From Coq Require Import Reals Lra Lia List Arith Psatz Permutation.
From SK Require Import Gen.KernelsR Proofs.RealLib.
Import ListNotations.
Open Scope R_scope.

(* ------------------------------------------------------------------------- *)
(** * Vocabulary *)

Definition P1 (xs : list R) : nat -> R := prefix xs.
Definition P2 (xs : list R) : nat -> R := prefix (sq xs).
Definition shift (c : R) (xs : list R) : list R := map (fun x => x + c) xs.
Definition scale (a : R) (xs : list R) : list R := map (fun x => a * x) xs.

(** list-level statistics (functions of length, sum, sum of squares only) *)
Definition uvar (l : list R) : R :=                       (* un-floored ML variance *)
  sumR (sq l) / INR (length l) - (sumR l / INR (length l)) ^ 2.
Definition varL (l : list R) : R := Rmax (uvar l) floor_var.
Definition l2L (l : list R) : R := sumR (sq l) - (sumR l) ^ 2 / INR (length l).
Definition l2fixL (mu : R) (l : list R) : R :=
  sumR (sq l) - 2 * mu * sumR l + INR (length l) * mu ^ 2.
Definition gvarL (l : list R) : R :=
  INR (length l) * ln (2 * PI * varL l) + INR (length l).
Definition gfixL (mu v : R) (l : list R) : R :=
  INR (length l) * ln (2 * PI * v) + l2fixL mu l / v.
Definition savingL (l : list R) : R := (sumR l) ^ 2 / INR (length l).
Definition cusumL (la lb : list R) : R :=
  Rabs (sqrt (INR (length lb) / ((INR (length la) + INR (length lb)) * INR (length la))) * sumR la
        - sqrt (INR (length la) / ((INR (length la) + INR (length lb)) * INR (length lb))) * sumR lb).

(** un-floored variance of the slice [s,e) of a column *)
Definition uvar_se (xs : list R) (s e : nat) : R := uvar (slice s e xs).

(** generic scores built from an interval cost *)
Definition change_score (C : nat -> nat -> R) (s k e : nat) : R := C s e - C s k - C k e.
(** local (4-point) anomaly score of a list cost [F], the pooled surroundings
    (before ++ after) being treated as one list *)
Definition local_listscore (F : list R -> R) (whole inner before after : list R) : R :=
  F whole - F inner - F (before ++ after).

(* ------------------------------------------------------------------------- *)
(** * Tactics *)

Ltac nz := repeat split; first [assumption | lra | nra | (apply not_0_INR; lia)].
(** close an equation by algebra, going under a function head only when needed *)
Ltac fin := solve [ reflexivity | lra | (unfold Rdiv; ring) | field; nz | progress f_equal; fin ].
(** make the argument of a non-algebraic head ([Rmax], [sqrt], [ln], [Rabs]) on the
    left literally equal to a provably equal one on the right (inner heads first) *)
Ltac align_head :=
  match goal with |- ?L = ?R =>
    match L with
    | context [Rmax ?B _] => match R with context [Rmax ?A _] =>
        tryif constr_eq A B then fail else replace B with A by fin end
    | context [sqrt ?B] => match R with context [sqrt ?A] =>
        tryif constr_eq A B then fail else replace B with A by fin end
    | context [ln ?B] => match R with context [ln ?A] =>
        tryif constr_eq A B then fail else replace B with A by fin end
    | context [Rabs ?B] => match R with context [Rabs ?A] =>
        tryif constr_eq A B then fail else replace B with A by fin end
    end
  end.
Ltac kern_eq0 := do 8 (try align_head); fin.
(** also when the two terms of a difference under Rabs were written in the other order *)
Ltac kern_eq := first [ kern_eq0 | rewrite Rabs_minus_sym; kern_eq0 ].

(* ------------------------------------------------------------------------- *)
(** * Basic list facts *)

Lemma shift_length c l : length (shift c l) = length l.
Proof. unfold shift. apply map_length. Qed.
Lemma scale_length a l : length (scale a l) = length l.
Proof. unfold scale. apply map_length. Qed.
Lemma sq_length l : length (sq l) = length l.
Proof. unfold sq. apply map_length. Qed.

Lemma sumR_shift c l : sumR (shift c l) = sumR l + INR (length l) * c.
Proof.
  unfold shift. induction l as [|x t IH]; [simpl; lra|].
  change (length (x :: t)) with (S (length t)). rewrite S_INR. cbn [map sumR]. rewrite IH. ring.
Qed.

Lemma sumR_sq_shift c l :
  sumR (sq (shift c l)) = sumR (sq l) + 2 * c * sumR l + INR (length l) * c ^ 2.
Proof.
  unfold shift, sq. induction l as [|x t IH]; [simpl; lra|].
  change (length (x :: t)) with (S (length t)). rewrite S_INR. cbn [map sumR]. rewrite IH. ring.
Qed.

Lemma sumR_scale a l : sumR (scale a l) = a * sumR l.
Proof. unfold scale. induction l as [|x t IH]; cbn [map sumR]; [lra | rewrite IH; ring]. Qed.

Lemma sumR_sq_scale a l : sumR (sq (scale a l)) = a ^ 2 * sumR (sq l).
Proof. unfold scale, sq. induction l as [|x t IH]; cbn [map sumR]; [lra | rewrite IH; ring]. Qed.

Lemma slice_shift c s e l : slice s e (shift c l) = shift c (slice s e l).
Proof. unfold shift. symmetry. apply map_slice. Qed.
Lemma slice_scale a s e l : slice s e (scale a l) = scale a (slice s e l).
Proof. unfold scale. symmetry. apply map_slice. Qed.
Lemma slice_sq s e l : slice s e (sq l) = sq (slice s e l).
Proof. unfold sq. symmetry. apply map_slice. Qed.

Lemma shift_app c l1 l2 : shift c (l1 ++ l2) = shift c l1 ++ shift c l2.
Proof. unfold shift. apply map_app. Qed.
Lemma scale_app a l1 l2 : scale a (l1 ++ l2) = scale a l1 ++ scale a l2.
Proof. unfold scale. apply map_app. Qed.

Lemma sumR_rev l : sumR (rev l) = sumR l.
Proof. induction l as [|x t IH]; [reflexivity|]. cbn [rev]. rewrite sumR_app, IH. simpl. lra. Qed.
Lemma sq_rev l : sq (rev l) = rev (sq l).
Proof. unfold sq. apply map_rev. Qed.
Lemma sumR_sq_rev l : sumR (sq (rev l)) = sumR (sq l).
Proof. rewrite sq_rev. apply sumR_rev. Qed.

Lemma slice_rev (xs : list R) s e :
  (s <= e <= length xs)%nat ->
  slice (length xs - e) (length xs - s) (rev xs) = rev (slice s e xs).
Proof.
  intros H. unfold slice.
  rewrite skipn_rev.
  replace (length xs - (length xs - e))%nat with e by lia.
  replace (length xs - s - (length xs - e))%nat with (e - s)%nat by lia.
  rewrite firstn_rev. f_equal.
  rewrite firstn_length. replace (Nat.min e (length xs) - (e - s))%nat with s by lia.
  apply skipn_firstn_comm.
Qed.

Lemma sumR_perm l l' : Permutation l l' -> sumR l = sumR l'.
Proof. intros H. induction H as [| x l l' _ IH | x y l | l l' l'' _ IH1 _ IH2]; simpl; lra. Qed.

Lemma prefix_split l s e : (s <= e)%nat -> prefix l e = prefix l s + sumR (slice s e l).
Proof. intros H. pose proof (prefix_diff l s e H). lra. Qed.

Lemma INR_len_pos (l : list R) : (0 < length l)%nat -> 0 < INR (length l).
Proof. intros H. apply lt_0_INR. exact H. Qed.

Lemma uvar_varR l : (0 < length l)%nat -> uvar l = varR l.
Proof.
  intros H. unfold uvar, varR. rewrite (rss_expand l H).
  pose proof (INR_len_pos l H) as Hn. field. lra.
Qed.

(* ------------------------------------------------------------------------- *)
(** * Slice forms of the generated kernels *)

Section SliceForms.
Variable xs : list R.

(** rewrite all prefix values at [e] as (value at [s]) + (sum over the slice) *)
Ltac split_at s e :=
  rewrite ?(prefix_split xs s e), ?(prefix_split (sq xs) s e) by lia;
  rewrite ?slice_sq.

Lemma l2_optim_slice s e : (s < e <= length xs)%nat ->
  l2_cost_optim_R (P1 xs) (P2 xs) s e = l2L (slice s e xs).
Proof.
  intros H. unfold l2_cost_optim_R, l2L, P1, P2. split_at s e.
  rewrite slice_length by lia.
  assert (Hn : 0 < INR (e - s)) by (apply lt_0_INR; lia). kern_eq.
Qed.

Lemma l2_fixed_slice mu s e : (s < e <= length xs)%nat ->
  l2_cost_fixed_R (P1 xs) (P2 xs) mu s e = l2fixL mu (slice s e xs).
Proof.
  intros H. unfold l2_cost_fixed_R, l2fixL, P1, P2. split_at s e.
  rewrite slice_length by lia.
  assert (Hn : 0 < INR (e - s)) by (apply lt_0_INR; lia). kern_eq.
Qed.

Lemma var_slice s e : (s < e <= length xs)%nat ->
  var_from_sums_R (P1 xs) (P2 xs) s e = varL (slice s e xs).
Proof.
  intros H. unfold var_from_sums_R, varL, uvar, floor_var, P1, P2. split_at s e.
  rewrite slice_length by lia.
  assert (Hn : 0 < INR (e - s)) by (apply lt_0_INR; lia). kern_eq.
Qed.

Lemma gvar_optim_slice s e : (s < e <= length xs)%nat ->
  gaussian_var_cost_optim_R (P1 xs) (P2 xs) s e = gvarL (slice s e xs).
Proof.
  intros H. unfold gaussian_var_cost_optim_R, gvarL, varL, uvar, floor_var, P1, P2. split_at s e.
  rewrite slice_length by lia.
  assert (Hn : 0 < INR (e - s)) by (apply lt_0_INR; lia).
  kern_eq.
Qed.

Lemma gvar_fixed_slice mu v s e : (s < e <= length xs)%nat ->
  gaussian_var_cost_fixed_R (P1 xs) (P2 xs) mu v s e = gfixL mu v (slice s e xs).
Proof.
  intros H. unfold gaussian_var_cost_fixed_R, gfixL, l2fixL, P1, P2. split_at s e.
  rewrite slice_length by lia.
  assert (Hn : 0 < INR (e - s)) by (apply lt_0_INR; lia). kern_eq.
Qed.

Lemma saving_slice s e : (s < e <= length xs)%nat ->
  l2_saving_R (P1 xs) s e = savingL (slice s e xs).
Proof.
  intros H. unfold l2_saving_R, savingL, P1. split_at s e.
  rewrite slice_length by lia.
  assert (Hn : 0 < INR (e - s)) by (apply lt_0_INR; lia). kern_eq.
Qed.

Lemma cusum_slice s k e : (s < k < e)%nat -> (e <= length xs)%nat ->
  cusum_score_R (P1 xs) s k e = cusumL (slice s k xs) (slice k e xs).
Proof.
  intros H He. unfold cusum_score_R, cusumL, P1.
  split_at k e. split_at s k.
  rewrite !slice_length by lia.
  replace (e - s)%nat with ((k - s) + (e - k))%nat by lia.
  rewrite ?mult_INR, ?plus_INR.
  assert (Hna : 0 < INR (k - s)) by (apply lt_0_INR; lia).
  assert (Hnb : 0 < INR (e - k)) by (apply lt_0_INR; lia).
  kern_eq.
Qed.

End SliceForms.

(* ------------------------------------------------------------------------- *)
(** * Y1 -- shift invariance *)

Lemma uvar_shift c l : (0 < length l)%nat -> uvar (shift c l) = uvar l.
Proof.
  intros H. pose proof (INR_len_pos l H) as Hn. unfold uvar.
  rewrite sumR_sq_shift, sumR_shift, shift_length. field. lra.
Qed.

Lemma l2L_shift c l : (0 < length l)%nat -> l2L (shift c l) = l2L l.
Proof.
  intros H. pose proof (INR_len_pos l H) as Hn. unfold l2L.
  rewrite sumR_sq_shift, sumR_shift, shift_length. field. lra.
Qed.

Lemma varL_shift c l : (0 < length l)%nat -> varL (shift c l) = varL l.
Proof. intros H. unfold varL. now rewrite uvar_shift. Qed.

Lemma gvarL_shift c l : (0 < length l)%nat -> gvarL (shift c l) = gvarL l.
Proof. intros H. unfold gvarL. now rewrite varL_shift, shift_length. Qed.

(** the two CUSUM weights, multiplied by the length of their own side, coincide:
    sqrt(nb/(n na)) * na = sqrt(na/(n nb)) * nb  ( = sqrt(na nb / n) ) *)
Lemma cusum_weights na nb : 0 < na -> 0 < nb ->
  sqrt (nb / ((na + nb) * na)) * na = sqrt (na / ((na + nb) * nb)) * nb.
Proof.
  intros Ha Hb.
  assert (Hq1 : 0 <= nb / ((na + nb) * na)).
  { apply Rlt_le, Rdiv_lt_0_compat; nra. }
  assert (Hq2 : 0 <= na / ((na + nb) * nb)).
  { apply Rlt_le, Rdiv_lt_0_compat; nra. }
  assert (E : forall q x, 0 <= q -> 0 <= x -> sqrt q * x = sqrt (q * (x * x))).
  { intros q x Hq Hx. rewrite sqrt_mult by nra. rewrite sqrt_square by lra. reflexivity. }
  rewrite (E _ na Hq1) by lra. rewrite (E _ nb Hq2) by lra.
  f_equal. field. nz.
Qed.

Lemma cusumL_shift c la lb : (0 < length la)%nat -> (0 < length lb)%nat ->
  cusumL (shift c la) (shift c lb) = cusumL la lb.
Proof.
  intros Ha Hb. pose proof (INR_len_pos la Ha) as Hna. pose proof (INR_len_pos lb Hb) as Hnb.
  unfold cusumL. rewrite !sumR_shift, !shift_length.
  pose proof (cusum_weights _ _ Hna Hnb) as Hw.
  set (wa := sqrt (INR (length lb) / _)) in *. set (wb := sqrt (INR (length la) / _)) in *.
  apply (f_equal Rabs).
  replace (wa * (sumR la + INR (length la) * c) - wb * (sumR lb + INR (length lb) * c))
    with (wa * sumR la - wb * sumR lb + c * (wa * INR (length la) - wb * INR (length lb))) by ring.
  rewrite Hw. ring.
Qed.

Section Shift.
Variables (c : R) (xs : list R).

Theorem l2_optim_shift s e : (s < e <= length xs)%nat ->
  l2_cost_optim_R (P1 (shift c xs)) (P2 (shift c xs)) s e = l2_cost_optim_R (P1 xs) (P2 xs) s e.
Proof.
  intros H. rewrite !l2_optim_slice by (rewrite ?shift_length; lia).
  rewrite slice_shift. apply l2L_shift. rewrite slice_length; lia.
Qed.

(** the un-floored variance of every slice is shift invariant *)
Theorem var_shift s e : (s < e <= length xs)%nat ->
  uvar_se (shift c xs) s e = uvar_se xs s e.
Proof.
  intros H. unfold uvar_se. rewrite slice_shift. apply uvar_shift. rewrite slice_length; lia.
Qed.

Theorem var_from_sums_shift s e : (s < e <= length xs)%nat ->
  var_from_sums_R (P1 (shift c xs)) (P2 (shift c xs)) s e = var_from_sums_R (P1 xs) (P2 xs) s e.
Proof.
  intros H. rewrite !var_slice by (rewrite ?shift_length; lia).
  rewrite slice_shift. apply varL_shift. rewrite slice_length; lia.
Qed.

Theorem gvar_optim_shift s e : (s < e <= length xs)%nat ->
  gaussian_var_cost_optim_R (P1 (shift c xs)) (P2 (shift c xs)) s e
  = gaussian_var_cost_optim_R (P1 xs) (P2 xs) s e.
Proof.
  intros H. rewrite !gvar_optim_slice by (rewrite ?shift_length; lia).
  rewrite slice_shift. apply gvarL_shift. rewrite slice_length; lia.
Qed.

Theorem cusum_shift s k e : (s < k < e)%nat -> (e <= length xs)%nat ->
  cusum_score_R (P1 (shift c xs)) s k e = cusum_score_R (P1 xs) s k e.
Proof.
  intros H He. rewrite !cusum_slice by (rewrite ?shift_length; lia).
  rewrite !slice_shift. apply cusumL_shift; rewrite slice_length; lia.
Qed.

(** the saving is NOT shift invariant in general (it is the baseline-mean-0 saving);
    it is only when the shift is applied to the baseline as well -- not stated. *)

End Shift.

(** any score that is a combination of costs over sub-intervals inherits the invariance *)
Lemma change_score_ext (C C' : nat -> nat -> R) n s k e :
  (forall a b, (a < b <= n)%nat -> C' a b = C a b) ->
  (s < k < e)%nat -> (e <= n)%nat ->
  change_score C' s k e = change_score C s k e.
Proof.
  intros HC H He. unfold change_score. rewrite !HC by lia. reflexivity.
Qed.

(** local anomaly score of any shift-invariant list cost *)
Lemma local_listscore_shift (F : list R -> R) c whole inner before after :
  (forall l, (0 < length l)%nat -> F (shift c l) = F l) ->
  (0 < length whole)%nat -> (0 < length inner)%nat -> (0 < length (before ++ after))%nat ->
  local_listscore F (shift c whole) (shift c inner) (shift c before) (shift c after)
  = local_listscore F whole inner before after.
Proof.
  intros HF Hw Hi Ho. unfold local_listscore. rewrite <- shift_app.
  now rewrite !HF by assumption.
Qed.

Corollary l2_local_score_shift c whole inner before after :
  (0 < length whole)%nat -> (0 < length inner)%nat -> (0 < length (before ++ after))%nat ->
  local_listscore l2L (shift c whole) (shift c inner) (shift c before) (shift c after)
  = local_listscore l2L whole inner before after.
Proof. apply local_listscore_shift. intros l Hl. now apply l2L_shift. Qed.

Corollary gvar_local_score_shift c whole inner before after :
  (0 < length whole)%nat -> (0 < length inner)%nat -> (0 < length (before ++ after))%nat ->
  local_listscore gvarL (shift c whole) (shift c inner) (shift c before) (shift c after)
  = local_listscore gvarL whole inner before after.
Proof. apply local_listscore_shift. intros l Hl. now apply gvarL_shift. Qed.

Corollary l2_change_score_shift c xs s k e : (s < k < e)%nat -> (e <= length xs)%nat ->
  change_score (l2_cost_optim_R (P1 (shift c xs)) (P2 (shift c xs))) s k e
  = change_score (l2_cost_optim_R (P1 xs) (P2 xs)) s k e.
Proof.
  intros H He. apply (change_score_ext _ _ (length xs)); try assumption.
  intros a b Hab. now apply l2_optim_shift.
Qed.

Corollary gvar_change_score_shift c xs s k e : (s < k < e)%nat -> (e <= length xs)%nat ->
  change_score (gaussian_var_cost_optim_R (P1 (shift c xs)) (P2 (shift c xs))) s k e
  = change_score (gaussian_var_cost_optim_R (P1 xs) (P2 xs)) s k e.
Proof.
  intros H He. apply (change_score_ext _ _ (length xs)); try assumption.
  intros a b Hab. now apply gvar_optim_shift.
Qed.

(* ------------------------------------------------------------------------- *)
(** * Y3 -- reversal *)

Lemma uvar_rev l : uvar (rev l) = uvar l.
Proof. unfold uvar. now rewrite sumR_sq_rev, sumR_rev, rev_length. Qed.
Lemma varL_rev l : varL (rev l) = varL l.
Proof. unfold varL. now rewrite uvar_rev. Qed.
Lemma l2L_rev l : l2L (rev l) = l2L l.
Proof. unfold l2L. now rewrite sumR_sq_rev, sumR_rev, rev_length. Qed.
Lemma l2fixL_rev mu l : l2fixL mu (rev l) = l2fixL mu l.
Proof. unfold l2fixL. now rewrite sumR_sq_rev, sumR_rev, rev_length. Qed.
Lemma gvarL_rev l : gvarL (rev l) = gvarL l.
Proof. unfold gvarL. now rewrite varL_rev, rev_length. Qed.
Lemma gfixL_rev mu v l : gfixL mu v (rev l) = gfixL mu v l.
Proof. unfold gfixL. now rewrite l2fixL_rev, rev_length. Qed.
Lemma savingL_rev l : savingL (rev l) = savingL l.
Proof. unfold savingL. now rewrite sumR_rev, rev_length. Qed.

(** mirrored cut: the two sides swap, and |x - y| = |y - x| *)
Lemma cusumL_rev la lb : cusumL (rev lb) (rev la) = cusumL la lb.
Proof.
  unfold cusumL. rewrite !sumR_rev, !rev_length. rewrite Rabs_minus_sym.
  rewrite (Rplus_comm (INR (length lb)) (INR (length la))). reflexivity.
Qed.

Section Reversal.
Variable xs : list R.
Local Notation n := (length xs).

Ltac mirror := rewrite ?rev_length; lia.

Theorem l2_optim_rev s e : (s < e <= n)%nat ->
  l2_cost_optim_R (P1 (rev xs)) (P2 (rev xs)) (n - e) (n - s) = l2_cost_optim_R (P1 xs) (P2 xs) s e.
Proof.
  intros H. rewrite !l2_optim_slice by mirror.
  rewrite slice_rev by mirror. apply l2L_rev.
Qed.

Theorem l2_fixed_rev mu s e : (s < e <= n)%nat ->
  l2_cost_fixed_R (P1 (rev xs)) (P2 (rev xs)) mu (n - e) (n - s)
  = l2_cost_fixed_R (P1 xs) (P2 xs) mu s e.
Proof.
  intros H. rewrite !l2_fixed_slice by mirror.
  rewrite slice_rev by mirror. apply l2fixL_rev.
Qed.

Theorem var_from_sums_rev s e : (s < e <= n)%nat ->
  var_from_sums_R (P1 (rev xs)) (P2 (rev xs)) (n - e) (n - s) = var_from_sums_R (P1 xs) (P2 xs) s e.
Proof.
  intros H. rewrite !var_slice by mirror.
  rewrite slice_rev by mirror. apply varL_rev.
Qed.

Theorem gvar_optim_rev s e : (s < e <= n)%nat ->
  gaussian_var_cost_optim_R (P1 (rev xs)) (P2 (rev xs)) (n - e) (n - s)
  = gaussian_var_cost_optim_R (P1 xs) (P2 xs) s e.
Proof.
  intros H. rewrite !gvar_optim_slice by mirror.
  rewrite slice_rev by mirror. apply gvarL_rev.
Qed.

Theorem gvar_fixed_rev mu v s e : (s < e <= n)%nat ->
  gaussian_var_cost_fixed_R (P1 (rev xs)) (P2 (rev xs)) mu v (n - e) (n - s)
  = gaussian_var_cost_fixed_R (P1 xs) (P2 xs) mu v s e.
Proof.
  intros H. rewrite !gvar_fixed_slice by mirror.
  rewrite slice_rev by mirror. apply gfixL_rev.
Qed.

Theorem l2_saving_rev s e : (s < e <= n)%nat ->
  l2_saving_R (P1 (rev xs)) (n - e) (n - s) = l2_saving_R (P1 xs) s e.
Proof.
  intros H. rewrite !saving_slice by mirror.
  rewrite slice_rev by mirror. apply savingL_rev.
Qed.

Theorem cusum_rev s k e : (s < k < e)%nat -> (e <= n)%nat ->
  cusum_score_R (P1 (rev xs)) (n - e) (n - k) (n - s) = cusum_score_R (P1 xs) s k e.
Proof.
  intros H He. rewrite !cusum_slice by mirror.
  rewrite !slice_rev by mirror. apply cusumL_rev.
Qed.

(** for ANY interval cost that is mirror-symmetric, the change score of the mirrored
    cut (n-e, n-k, n-s) equals that of (s,k,e) *)
Theorem change_score_rev (C C' : nat -> nat -> R) s k e :
  (forall a b, (a < b <= n)%nat -> C' (n - b)%nat (n - a)%nat = C a b) ->
  (s < k < e)%nat -> (e <= n)%nat ->
  change_score C' (n - e) (n - k) (n - s) = change_score C s k e.
Proof.
  intros HC H He. unfold change_score. rewrite !HC by lia. ring.
Qed.

Corollary l2_change_score_rev s k e : (s < k < e)%nat -> (e <= n)%nat ->
  change_score (l2_cost_optim_R (P1 (rev xs)) (P2 (rev xs))) (n - e) (n - k) (n - s)
  = change_score (l2_cost_optim_R (P1 xs) (P2 xs)) s k e.
Proof. intros H He. apply change_score_rev; try assumption. intros a b Hab. now apply l2_optim_rev. Qed.

Corollary gvar_change_score_rev s k e : (s < k < e)%nat -> (e <= n)%nat ->
  change_score (gaussian_var_cost_optim_R (P1 (rev xs)) (P2 (rev xs))) (n - e) (n - k) (n - s)
  = change_score (gaussian_var_cost_optim_R (P1 xs) (P2 xs)) s k e.
Proof. intros H He. apply change_score_rev; try assumption. intros a b Hab. now apply gvar_optim_rev. Qed.

End Reversal.

(* ------------------------------------------------------------------------- *)
(** * Y4 -- column permutation *)

(** a per-column kernel evaluated on a p-column input, column by column *)
Definition per_column (kern : (nat -> R) -> (nat -> R) -> nat -> nat -> R)
           (cols : list (list R)) (s e : nat) : list R :=
  map (fun col => kern (P1 col) (P2 col) s e) cols.
Definition per_column_cut (kern : (nat -> R) -> nat -> nat -> nat -> R)
           (cols : list (list R)) (s k e : nat) : list R :=
  map (fun col => kern (P1 col) s k e) cols.

Theorem per_column_perm kern cols cols' s e :
  Permutation cols cols' -> Permutation (per_column kern cols s e) (per_column kern cols' s e).
Proof. intros H. unfold per_column. now apply Permutation_map. Qed.

Theorem per_column_cut_perm kern cols cols' s k e :
  Permutation cols cols' ->
  Permutation (per_column_cut kern cols s k e) (per_column_cut kern cols' s k e).
Proof. intros H. unfold per_column_cut. now apply Permutation_map. Qed.

(** the aggregated (summed over columns) score is invariant *)
Theorem aggregated_perm kern cols cols' s e :
  Permutation cols cols' -> sumR (per_column kern cols s e) = sumR (per_column kern cols' s e).
Proof. intros H. apply sumR_perm. now apply per_column_perm. Qed.

Theorem aggregated_cut_perm kern cols cols' s k e :
  Permutation cols cols' ->
  sumR (per_column_cut kern cols s k e) = sumR (per_column_cut kern cols' s k e).
Proof. intros H. apply sumR_perm. now apply per_column_cut_perm. Qed.

(** any function of the columns applied column-wise, in general *)
Theorem columnwise_perm {A} (f : A -> R) cols cols' :
  Permutation cols cols' ->
  Permutation (map f cols) (map f cols') /\ sumR (map f cols) = sumR (map f cols').
Proof. intros H. split; [|apply sumR_perm]; now apply Permutation_map. Qed.

(* ------------------------------------------------------------------------- *)
(** * Y2 -- scale *)

Lemma uvar_scale a l : (0 < length l)%nat -> uvar (scale a l) = a ^ 2 * uvar l.
Proof.
  intros H. pose proof (INR_len_pos l H) as Hn. unfold uvar.
  rewrite sumR_sq_scale, sumR_scale, scale_length. field. lra.
Qed.

Lemma l2L_scale a l : l2L (scale a l) = a ^ 2 * l2L l.
Proof.
  unfold l2L. rewrite sumR_sq_scale, sumR_scale, scale_length. unfold Rdiv. ring.
Qed.

Lemma floor_var_pos : 0 < floor_var.
Proof. unfold floor_var. lra. Qed.

Lemma ln_2PI_scale a v : a <> 0 -> 0 < v ->
  ln (2 * PI * (a ^ 2 * v)) = ln (2 * PI * v) + ln (a ^ 2).
Proof.
  intros Ha Hv. pose proof PI_RGT_0 as Hpi.
  assert (Ha2 : 0 < a ^ 2) by nra.
  replace (2 * PI * (a ^ 2 * v)) with ((2 * PI * v) * a ^ 2) by ring.
  apply ln_mult; nra.
Qed.

Lemma gvarL_scale a l : a <> 0 -> (0 < length l)%nat ->
  floor_var <= uvar l -> floor_var <= uvar (scale a l) ->
  gvarL (scale a l) = gvarL l + INR (length l) * ln (a ^ 2).
Proof.
  intros Ha Hl Hf Hf'. unfold gvarL, varL.
  rewrite (Rmax_left _ _ Hf), (Rmax_left _ _ Hf').
  rewrite uvar_scale by assumption. rewrite scale_length.
  pose proof floor_var_pos as Hfp.
  rewrite ln_2PI_scale by (try assumption; lra). ring.
Qed.

(** cost functional on lists, direct definition through [varR] *)
Definition gcost (l : list R) : R := INR (length l) * ln (2 * PI * varR l) + INR (length l).

Lemma varR_pos_nonempty l : 0 < varR l -> (0 < length l)%nat.
Proof.
  intros H. destruct l as [|x t]; [|simpl; lia].
  exfalso. unfold varR, rss, sse in H. simpl in H. unfold Rdiv in H. rewrite Rmult_0_l in H. lra.
Qed.

Lemma varR_scale a l : (0 < length l)%nat -> varR (scale a l) = a ^ 2 * varR l.
Proof.
  intros H. rewrite <- !uvar_varR by (rewrite ?scale_length; assumption).
  now apply uvar_scale.
Qed.

Lemma gcost_scale_nz a l : a <> 0 -> 0 < varR l ->
  gcost (scale a l) = gcost l + INR (length l) * ln (a ^ 2).
Proof.
  intros Ha Hv. pose proof (varR_pos_nonempty l Hv) as Hl. unfold gcost.
  rewrite varR_scale by assumption. rewrite scale_length.
  rewrite ln_2PI_scale by assumption. ring.
Qed.

Lemma gcost_shift c l : gcost (shift c l) = gcost l.
Proof.
  destruct l as [|x t]; [reflexivity|].
  assert (Hl : (0 < length (x :: t))%nat) by (simpl; lia).
  unfold gcost. rewrite <- !uvar_varR by (rewrite ?shift_length; assumption).
  now rewrite uvar_shift, shift_length.
Qed.

Theorem gcost_scale a l : 0 < a -> 0 < varR l ->
  gcost (scale a l) = gcost l + INR (length l) * ln (a ^ 2).
Proof. intros Ha Hv. apply gcost_scale_nz; [lra | assumption]. Qed.

(** [gcost] of a slice is the generated Gaussian cost whenever the floor is inactive *)
Lemma gvarL_gcost l : (0 < length l)%nat -> floor_var <= uvar l -> gvarL l = gcost l.
Proof.
  intros Hl Hf. unfold gvarL, gcost, varL. rewrite (Rmax_left _ _ Hf).
  now rewrite uvar_varR.
Qed.

Theorem gvar_optim_gcost xs s e : (s < e <= length xs)%nat -> floor_var <= uvar_se xs s e ->
  gaussian_var_cost_optim_R (P1 xs) (P2 xs) s e = gcost (slice s e xs).
Proof.
  intros H Hf. rewrite gvar_optim_slice by assumption. apply gvarL_gcost; [|exact Hf].
  rewrite slice_length; lia.
Qed.

(** local (4-point) anomaly score with the pooled surroundings treated as a list *)
Definition local_gcost (whole inner before after : list R) : R :=
  local_listscore gcost whole inner before after.

Theorem local_gcost_scale a whole inner before after :
  0 < a ->
  length whole = (length inner + length (before ++ after))%nat ->
  0 < varR whole -> 0 < varR inner -> 0 < varR (before ++ after) ->
  local_gcost (scale a whole) (scale a inner) (scale a before) (scale a after)
  = local_gcost whole inner before after.
Proof.
  intros Ha Hlen Hw Hi Ho. unfold local_gcost, local_listscore.
  rewrite <- scale_app. rewrite !gcost_scale by assumption.
  rewrite Hlen, plus_INR. ring.
Qed.

Theorem local_gcost_shift c whole inner before after :
  local_gcost (shift c whole) (shift c inner) (shift c before) (shift c after)
  = local_gcost whole inner before after.
Proof. unfold local_gcost, local_listscore. rewrite <- shift_app. now rewrite !gcost_shift. Qed.

(** same statement on the slices of a column: whole = [s,e), inner = [i,j),
    before = [s,i), after = [j,e) *)
Corollary local_gcost_scale_slices a xs s i j e :
  0 < a -> (s <= i)%nat -> (i <= j)%nat -> (j <= e)%nat -> (e <= length xs)%nat ->
  0 < varR (slice s e xs) -> 0 < varR (slice i j xs) ->
  0 < varR (slice s i xs ++ slice j e xs) ->
  local_gcost (slice s e (scale a xs)) (slice i j (scale a xs))
              (slice s i (scale a xs)) (slice j e (scale a xs))
  = local_gcost (slice s e xs) (slice i j xs) (slice s i xs) (slice j e xs).
Proof.
  intros Ha H1 H2 H3 H4 Hw Hi Ho. rewrite !slice_scale.
  apply local_gcost_scale; try assumption.
  rewrite app_length, !slice_length by lia. lia.
Qed.

Section Scale.
Variables (a : R) (xs : list R).

(** the L2 cost is NOT scale invariant: it is homogeneous of degree 2 (any [a]) *)
Theorem l2_optim_scale s e : (s < e <= length xs)%nat ->
  l2_cost_optim_R (P1 (scale a xs)) (P2 (scale a xs)) s e
  = a ^ 2 * l2_cost_optim_R (P1 xs) (P2 xs) s e.
Proof.
  intros H. rewrite !l2_optim_slice by (rewrite ?scale_length; lia).
  rewrite slice_scale. apply l2L_scale.
Qed.

(** the un-floored variance is homogeneous of degree 2 *)
Theorem var_scale s e : (s < e <= length xs)%nat ->
  uvar_se (scale a xs) s e = a ^ 2 * uvar_se xs s e.
Proof.
  intros H. unfold uvar_se. rewrite slice_scale. apply uvar_scale. rewrite slice_length; lia.
Qed.

(** CUSUM is homogeneous of degree 1 (any [a]) *)
Theorem cusum_scale s k e : (s < k < e)%nat -> (e <= length xs)%nat ->
  cusum_score_R (P1 (scale a xs)) s k e = Rabs a * cusum_score_R (P1 xs) s k e.
Proof.
  intros H He. rewrite !cusum_slice by (rewrite ?scale_length; lia).
  rewrite !slice_scale. unfold cusumL. rewrite !sumR_scale, !scale_length.
  rewrite <- Rabs_mult. apply (f_equal Rabs). ring.
Qed.

Theorem gvar_optim_scale s e : 0 < a -> (s < e <= length xs)%nat ->
  floor_var <= uvar_se xs s e -> floor_var <= uvar_se (scale a xs) s e ->
  gaussian_var_cost_optim_R (P1 (scale a xs)) (P2 (scale a xs)) s e
  = gaussian_var_cost_optim_R (P1 xs) (P2 xs) s e + INR (e - s) * ln (a ^ 2).
Proof.
  intros Ha H Hf Hf'. unfold uvar_se in Hf, Hf'. rewrite slice_scale in Hf'.
  rewrite !gvar_optim_slice by (rewrite ?scale_length; lia).
  rewrite slice_scale.
  rewrite gvarL_scale; try assumption; try lra; try (rewrite slice_length; lia).
  rewrite slice_length by lia. reflexivity.
Qed.

(** the Gaussian change score is scale invariant: the n ln(a^2) terms cancel *)
Theorem gvar_change_score_scale s k e : 0 < a -> (s < k < e)%nat -> (e <= length xs)%nat ->
  floor_var <= uvar_se xs s e -> floor_var <= uvar_se (scale a xs) s e ->
  floor_var <= uvar_se xs s k -> floor_var <= uvar_se (scale a xs) s k ->
  floor_var <= uvar_se xs k e -> floor_var <= uvar_se (scale a xs) k e ->
  let C  := gaussian_var_cost_optim_R (P1 xs) (P2 xs) in
  let C' := gaussian_var_cost_optim_R (P1 (scale a xs)) (P2 (scale a xs)) in
  C' s e - (C' s k + C' k e) = C s e - (C s k + C k e).
Proof.
  intros Ha H He F1 F1' F2 F2' F3 F3' C C'. unfold C, C'.
  rewrite !gvar_optim_scale by (try assumption; lia).
  replace (e - s)%nat with ((k - s) + (e - k))%nat by lia. rewrite plus_INR. ring.
Qed.

Corollary gvar_change_score_scale' s k e : 0 < a -> (s < k < e)%nat -> (e <= length xs)%nat ->
  floor_var <= uvar_se xs s e -> floor_var <= uvar_se (scale a xs) s e ->
  floor_var <= uvar_se xs s k -> floor_var <= uvar_se (scale a xs) s k ->
  floor_var <= uvar_se xs k e -> floor_var <= uvar_se (scale a xs) k e ->
  change_score (gaussian_var_cost_optim_R (P1 (scale a xs)) (P2 (scale a xs))) s k e
  = change_score (gaussian_var_cost_optim_R (P1 xs) (P2 xs)) s k e.
Proof.
  intros Ha H He F1 F1' F2 F2' F3 F3'.
  pose proof (gvar_change_score_scale s k e Ha H He F1 F1' F2 F2' F3 F3') as G.
  cbv zeta in G. unfold change_score. lra.
Qed.

End Scale.

(** the floor condition for the scaled data follows from the one for the original
    data as soon as the scaling does not shrink:  1 <= a^2 *)
Lemma above_floor_scale a xs s e : (s < e <= length xs)%nat -> 1 <= a ^ 2 ->
  floor_var <= uvar_se xs s e -> floor_var <= uvar_se (scale a xs) s e.
Proof.
  intros H Ha Hf. rewrite var_scale by assumption. pose proof floor_var_pos. nra.
Qed.

(* ------------------------------------------------------------------------- *)
(** NOTE on axioms.  In Coq 8.16.1 the standard-library function [ln] itself depends on
    [Classical_Prop.classic] (through [Rpower]/IVT), so every statement that mentions the
    generated Gaussian kernels inherits it from its STATEMENT, not from the proofs here
    (see the first two lines printed below).  The theorems about kernels without [ln]
    (L2, CUSUM, permutation) use only the axioms of the classical real numbers. *)
Print Assumptions ln.
Print Assumptions gaussian_var_cost_optim_R.
Print Assumptions l2_optim_shift.
Print Assumptions gvar_optim_shift.
Print Assumptions cusum_shift.
Print Assumptions gvar_change_score_scale.
Print Assumptions l2_optim_rev.
Print Assumptions cusum_rev.
Print Assumptions sumR_perm.
