(** Robustness of CAPA under inexact arithmetic.

    Model/CapaA.v is the transcription of run_base_capa in which every arithmetic step
    ([opt[a] + penalised saving], [opt[t] + point saving], the left-hand side [cand + K] of
    the prune test) is an uninterpreted function [Vc] / [Vp] / [Wk].  This file proves that
    if each of these steps is within [eps] of the exact real operation -- and this is only
    required AT THE VALUES THE RUN ITSELF PRODUCES -- then

    - the reported anomalies are a valid anomaly set                ([capaA_wellformed], no
      hypothesis on [Vc] / [Vp] / [Wk] at all);
    - the reported final score is within [n * eps] of the TRUE total penalised saving of
      the reported anomalies                                        ([capaA_final_close]);
    - the TRUE total penalised saving of the reported anomalies is within [3 * n * eps] of
      the optimum over ALL valid anomaly sets                       ([capaA_near_optimal]).

    The [_run] versions take the hypotheses at realised values only; the plain versions
    (hypotheses for all [g] / [c]) are corollaries.  Pruning (delay >= m - 1, sub-additive
    [pc]) is covered: a start that is pruned because its computed candidate looked too low
    loses at most [2 * eps] per hop of the chain of starts that replace it.

    Structure: Section StructA ports the structural invariant [WInvR] of Proofs/CapaReal.v
    (value-independent); Section ApproxA generalises [condemnedC] / [OInvR] with slack. *)
From Coq Require Import Reals Lra ZArith List Lia Bool Arith.
From SK Require Import Lib.Base Proofs.RealLib Proofs.CapaSpec Proofs.CapaDP
                       Proofs.PeltReal Model.PeltR Model.Capa Model.CapaR Proofs.CapaReal
                       Model.CapaA.
Import ListNotations.
Open Scope R_scope.

Lemma Rabs_bounds x e : Rabs x <= e -> - e <= x <= e.
Proof. unfold Rabs. destruct (Rcase_abs x); lra. Qed.

(* ================================================================== *)
(** * Structure: independent of the computed values                      *)
(* ================================================================== *)
Section StructA.
Variable Vc : nat -> nat -> R -> R.
Variable Vp : nat -> R -> R.
Variable Wk : nat -> nat -> R -> R.
Variables (m M delay : nat).
Hypothesis Hm2 : (2 <= m)%nat.
Hypothesis HmM : (m <= M)%nat.

Notation stepM := (stepA Vc Vp Wk m M delay).
Notation runM := (runA Vc Vp Wk m M delay).
Notation capaM := (capaA Vc Vp Wk m M delay).

(** the pieces of one iteration *)
Definition starts1A (s : stC) (t : nat) : list nat :=
  if (m <=? S t)%nat then startsC s ++ [S t - m]%nat else startsC s.
Definition candsA (s : stC) (t : nat) : list R :=
  map (fun a => Vc a (S t) (nthR (optC s) a)) (starts1A s t).
Definition chooseA (s : stC) (t : nat) : option nat * R :=
  let ot := nthR (optC s) t in
  let optp := Vp t ot in
  match argmaxR (candsA s t) with
  | None => if Rltb ot optp then (Some t, optp) else (None, ot)
  | Some (i, oc) =>
      if Rltb ot oc then (if Rltb oc optp then (Some t, optp) else (Some (nthN (starts1A s t) i), oc))
      else (if Rltb ot optp then (Some t, optp) else (None, ot))
  end.
Definition lowA (s : stC) (t : nat) (best : R) : list nat :=
  map fst (filter (fun ac0 => Rltb (Wk (fst ac0) (S t) (snd ac0)) best) (combine (starts1A s t) (candsA s t))).
Definition poppedA (s : stC) (lw : list nat) : list nat * list (list nat) :=
  let pend := pendingC s ++ [lw] in
  if (delay <? length pend)%nat then (hd [] pend, tl pend) else ([], pend).
Definition keepA (s : stC) (t : nat) (now : list nat) : list nat :=
  filter (fun a => negb (memb a now) && negb (a + M <? S t + 1)%nat) (starts1A s t).

Lemma stepA_eq s t :
  stepM s t =
  let '(choice, best) := chooseA s t in
  let '(now, pend') := poppedA s (lowA s t best) in
  {| optC := optC s ++ [best]; astartC := astartC s ++ [choice];
     startsC := keepA s t now; pendingC := pend' |}.
Proof. reflexivity. Qed.

Lemma optC_stepA s t : optC (stepM s t) = optC s ++ [snd (chooseA s t)].
Proof.
  rewrite stepA_eq. destruct (chooseA s t) as [choice best].
  destruct (poppedA s (lowA s t best)) as [now pend']. reflexivity.
Qed.

Lemma runA_S n : runM (S n) = stepM (runM n) n.
Proof.
  unfold runA. rewrite seq_S, fold_left_app. reflexivity.
Qed.

Lemma chooseA_spec s t choice best : chooseA s t = (choice, best) ->
  nthR (optC s) t <= best /\ Vp t (nthR (optC s) t) <= best /\
  (forall x, In x (candsA s t) -> x <= best) /\
  match choice with
  | None => best = nthR (optC s) t
  | Some a => (a = t /\ best = Vp t (nthR (optC s) t)) \/
              (exists i, (i < length (starts1A s t))%nat /\ a = nthN (starts1A s t) i /\
                         best = nthR (candsA s t) i)
  end.
Proof.
  unfold chooseA. cbv zeta.
  destruct (argmaxR (candsA s t)) as [[i oc]|] eqn:E.
  - apply argmaxR_spec_in in E as (Hi & Hv & Hmax).
    assert (Hi' : (i < length (starts1A s t))%nat)
      by (unfold candsA in Hi; now rewrite map_length in Hi).
    destruct (Rltb (nthR (optC s) t) oc) eqn:E1;
      [apply Rltb_true in E1|apply Rltb_false in E1].
    + destruct (Rltb oc (Vp t (nthR (optC s) t))) eqn:E2;
        [apply Rltb_true in E2|apply Rltb_false in E2];
        intros E'; inversion E'; subst choice best.
      * split; [lra|]. split; [lra|]. split; [|now left].
        intros x Hx. specialize (Hmax x Hx). lra.
      * split; [lra|]. split; [lra|]. split; [exact Hmax|].
        right. exists i. auto.
    + destruct (Rltb (nthR (optC s) t) (Vp t (nthR (optC s) t))) eqn:E2;
        [apply Rltb_true in E2|apply Rltb_false in E2];
        intros E'; inversion E'; subst choice best.
      * split; [lra|]. split; [lra|]. split; [|now left].
        intros x Hx. specialize (Hmax x Hx). lra.
      * split; [lra|]. split; [lra|]. split; [|reflexivity].
        intros x Hx. specialize (Hmax x Hx). lra.
  - apply argmaxR_none in E. rewrite E.
    destruct (Rltb (nthR (optC s) t) (Vp t (nthR (optC s) t))) eqn:E2;
      [apply Rltb_true in E2|apply Rltb_false in E2];
      intros E'; inversion E'; subst choice best.
    + split; [lra|]. split; [lra|]. split; [intros ? []|now left].
    + split; [lra|]. split; [lra|]. split; [intros ? []|reflexivity].
Qed.

(** structural invariant after T iterations: every back-pointer records which COMPUTED
    option the stored value is *)
Definition as_okA (o : list R) (i : nat) (ch : option nat) : Prop :=
  match ch with
  | None => nthR o (S i) = nthR o i
  | Some a => (a = i /\ nthR o (S i) = Vp i (nthR o i)) \/
              ((a + m <= S i)%nat /\ (S i <= a + M)%nat /\
               nthR o (S i) = Vc a (S i) (nthR o a))
  end.

Record WInvA (T : nat) (s : stC) : Prop := {
  wA_len_opt : length (optC s) = S T;
  wA_len_as : length (astartC s) = T;
  wA_opt0 : nthR (optC s) 0 = 0;
  wA_mono : forall i, (i < T)%nat -> nthR (optC s) i <= nthR (optC s) (S i);
  wA_as : forall i, (i < T)%nat -> as_okA (optC s) i (nth i (astartC s) None);
  wA_starts : forall a, In a (startsC s) -> (a + m <= T)%nat /\ (S T <= a + M)%nat }.

Lemma as_okA_ext o o' i ch :
  (forall j, (j <= S i)%nat -> nthR o' j = nthR o j) -> as_okA o i ch -> as_okA o' i ch.
Proof.
  intros H. unfold as_okA. destruct ch as [a|].
  - intros [[-> E]|(H1 & H2 & E)].
    + left. split; [reflexivity|]. rewrite !H by lia. exact E.
    + right. split; [exact H1|]. split; [exact H2|]. rewrite !H by lia. exact E.
  - intros E. rewrite !H by lia. exact E.
Qed.

Lemma starts1A_range t s : WInvA t s ->
  forall a, In a (starts1A s t) -> (a + m <= S t)%nat /\ (S t <= a + M)%nat.
Proof.
  intros W a Ha. unfold starts1A in Ha.
  destruct (m <=? S t)%nat eqn:E.
  - apply Nat.leb_le in E. apply in_app_or in Ha as [Ha|[<-|[]]].
    + destruct (wA_starts _ _ W a Ha). lia.
    + lia.
  - destruct (wA_starts _ _ W a Ha). lia.
Qed.

Lemma startsC_sub_starts1A s t a : In a (startsC s) -> In a (starts1A s t).
Proof.
  intros H. unfold starts1A. destruct (m <=? S t)%nat; [apply in_or_app; now left|exact H].
Qed.

Lemma candsA_nth t s i : (i < length (starts1A s t))%nat ->
  nthR (candsA s t) i =
  Vc (nthN (starts1A s t) i) (S t) (nthR (optC s) (nthN (starts1A s t) i)).
Proof.
  intros Hi. unfold candsA.
  now rewrite (nthR_map_lt (fun a => Vc a (S t) (nthR (optC s) a))).
Qed.

Lemma initC_WInvA : WInvA 0 initC.
Proof.
  constructor; cbn [initC optC astartC startsC pendingC length]; try reflexivity;
    try (intros; lia); try (intros a []).
Qed.

Lemma stepA_WInv t s : WInvA t s -> WInvA (S t) (stepM s t).
Proof.
  intros W. pose proof W as [Hlo Hla H0 Hmono Has Hst].
  rewrite stepA_eq. destruct (chooseA s t) as [choice best] eqn:Ech.
  destruct (poppedA s (lowA s t best)) as [now pend'] eqn:Epop.
  apply chooseA_spec in Ech as (Hb1 & Hb2 & Hb3 & Hch).
  assert (Hold : forall j, (j <= t)%nat -> nthR (optC s ++ [best]) j = nthR (optC s) j)
    by (intros j Hj; apply app_nthR_lt; lia).
  assert (Hnew : nthR (optC s ++ [best]) (S t) = best) by now apply app_nthR_last.
  constructor; cbn [optC astartC startsC pendingC].
  - rewrite app_length, Hlo. cbn [length]. lia.
  - rewrite app_length, Hla. cbn [length]. lia.
  - rewrite Hold by lia. exact H0.
  - intros i Hi. destruct (Nat.eq_dec i t) as [->|Hne].
    + rewrite Hnew, Hold by lia. exact Hb1.
    + rewrite !Hold by lia. apply Hmono. lia.
  - intros i Hi. destruct (Nat.eq_dec i t) as [->|Hne].
    + rewrite app_nth2 by lia. rewrite Hla, Nat.sub_diag. cbn [nth].
      unfold as_okA. destruct choice as [a|].
      * destruct Hch as [[-> E]|(i0 & Hi0 & Ea & E)].
        -- left. split; [reflexivity|]. now rewrite Hnew, Hold by lia.
        -- right. assert (Hin : In a (starts1A s t)) by (subst a; now apply nth_In).
           destruct (starts1A_range t s W a Hin) as [R1 R2].
           split; [exact R1|]. split; [exact R2|].
           rewrite Hnew, Hold by lia. rewrite E, (candsA_nth t s i0 Hi0), <- Ea. reflexivity.
      * now rewrite Hnew, Hold by lia.
    + rewrite app_nth1 by lia. apply as_okA_ext with (o := optC s).
      * intros j Hj. apply Hold. lia.
      * apply Has. lia.
  - intros a Ha. unfold keepA in Ha. apply filter_In in Ha as [Hin Hf].
    apply andb_true_iff in Hf as [_ Hf]. apply negb_true_iff, Nat.ltb_ge in Hf.
    destruct (starts1A_range t s W a Hin). lia.
Qed.

Lemma runA_WInv n : WInvA n (runM n).
Proof.
  induction n as [|n IH]; [exact initC_WInvA|]. rewrite runA_S. now apply stepA_WInv.
Qed.

(** the stored values: [Gv i] is opt[i], read in the run of length [i]; every longer run
    has the same value at index [i] (the table only grows by appending) *)
Definition Gv (i : nat) : R := nthR (optC (runM i)) i.

Lemma optC_run_nth n : forall i, (i <= n)%nat -> nthR (optC (runM n)) i = Gv i.
Proof.
  induction n as [|n IH]; intros i Hi.
  - replace i with 0%nat by lia. reflexivity.
  - destruct (Nat.eq_dec i (S n)) as [->|Hne]; [reflexivity|].
    rewrite runA_S, optC_stepA.
    rewrite app_nthR_lt by (rewrite (wA_len_opt _ _ (runA_WInv n)); lia).
    apply IH. lia.
Qed.

Lemma Gv_0 : Gv 0 = 0.
Proof. reflexivity. Qed.

Lemma Gv_S t : Gv (S t) = snd (chooseA (runM t) t).
Proof.
  unfold Gv. rewrite runA_S, optC_stepA.
  apply app_nthR_last. apply (wA_len_opt _ _ (runA_WInv t)).
Qed.

(** the stored values are non-decreasing EXACTLY (the "no anomaly" option is not rounded) *)
Lemma Gv_mono t : Gv t <= Gv (S t).
Proof.
  pose proof (wA_mono _ _ (runA_WInv (S t)) t ltac:(lia)) as H.
  rewrite !optC_run_nth in H by lia. exact H.
Qed.

(** the chain from any [e <= T] is a valid anomaly set for [0,e) *)
Lemma chainA_valid T s : WInvA T s -> forall fuel e, (e <= fuel)%nat -> (e <= T)%nat ->
  valid_from m M 0 (map to_anom (chain fuel (astartC s) e)) e.
Proof.
  intros W. induction fuel as [|f IH]; intros e Hf HT.
  - replace e with 0%nat by lia. cbn [chain map valid_from]. lia.
  - destruct e as [|i].
    + cbn [chain map valid_from]. lia.
    + cbn [chain]. pose proof (wA_as _ _ W i ltac:(lia)) as Hok. unfold as_okA in Hok.
      destruct (nth i (astartC s) None) as [a|].
      * destruct Hok as [[-> E]|(H1 & H2 & E)].
        -- rewrite Nat.ltb_irrefl, Nat.eqb_refl.
           pose proof (IH i ltac:(lia) ltac:(lia)) as V.
           rewrite map_app. cbn [map]. rewrite to_anom_pt.
           apply valid_from_snoc. cbn [a_start a_end a_ok].
           split; [exact V|]. split; [exact I|lia].
        -- replace (a <? i)%nat with true by (symmetry; apply Nat.ltb_lt; lia).
           pose proof (IH a ltac:(lia) ltac:(lia)) as V.
           rewrite map_app. cbn [map]. rewrite to_anom_coll by lia.
           apply valid_from_snoc. cbn [a_start a_end a_ok].
           split; [exact V|]. split; [lia|lia].
      * pose proof (IH i ltac:(lia) ltac:(lia)) as V.
        apply valid_from_weaken with (T := i); [exact V|lia].
Qed.

Lemma capaA_eq n scores c p : capaM n = (scores, c, p) ->
  scores = tl (optC (runM n)) /\ get_anoms n (astartC (runM n)) n = (c, p).
Proof.
  unfold capaA. destruct (get_anoms n (astartC (runM n)) n) as [c' p'].
  intros H. inversion H; subst. auto.
Qed.

Lemma optC_consA T s : WInvA T s -> optC s = 0 :: tl (optC s).
Proof.
  intros W. pose proof (wA_len_opt _ _ W) as Hl. pose proof (wA_opt0 _ _ W) as H0.
  destruct (optC s) as [|x l]; [discriminate|]. cbn [tl]. unfold nthR in H0. cbn [nth] in H0.
  now subst.
Qed.

Lemma capaA_predict_chain n scores c p : capaM n = (scores, c, p) ->
  capa_predict false c p = chain n (astartC (runM n)) n.
Proof.
  intros Hc. apply capaA_eq in Hc as [_ Hg].
  apply get_anoms_chain in Hg as (H1 & _ & _). unfold capa_predict. exact H1.
Qed.

(** the reported score at index t is the stored value opt[t+1] *)
Lemma scoresA_nth n scores c p t : capaM n = (scores, c, p) -> (t < n)%nat ->
  nthR scores t = Gv (S t).
Proof.
  intros Hc Ht. apply capaA_eq in Hc as [-> _].
  rewrite <- (optC_run_nth n (S t)) by lia.
  rewrite (optC_consA n _ (runA_WInv n)) at 2. reflexivity.
Qed.

Theorem capaA_scores_length n scores c p : capaM n = (scores, c, p) -> length scores = n.
Proof.
  intros Hc. apply capaA_eq in Hc as [-> _].
  pose proof (wA_len_opt _ _ (runA_WInv n)) as Hl.
  destruct (optC (runM n)); cbn [length tl] in *; lia.
Qed.

(** the reported anomalies are a valid anomaly set, WHATEVER the arithmetic does *)
Theorem capaA_wellformed n scores c p : capaM n = (scores, c, p) ->
  Valid m M (map to_anom (capa_predict false c p)) n.
Proof.
  intros Hc. rewrite (capaA_predict_chain n scores c p Hc).
  apply (chainA_valid n _ (runA_WInv n)); lia.
Qed.

Theorem capaA_ignore_points n scores c p : capaM n = (scores, c, p) ->
  capa_predict true c p = filter (fun se => negb (is_point se)) (capa_predict false c p).
Proof.
  intros Hc. apply capaA_eq in Hc as [_ Hg]. now apply predict_ignore_points in Hg.
Qed.

(** the scores are non-decreasing exactly, hence non-negative *)
Theorem capaA_scores_monotone n scores c p : capaM n = (scores, c, p) ->
  forall t, (S t < n)%nat -> nthR scores t <= nthR scores (S t).
Proof.
  intros Hc t Ht. rewrite !(scoresA_nth n scores c p) by (try exact Hc; lia).
  apply Gv_mono.
Qed.

End StructA.

(** accumulated error budget after i steps *)
Definition Eb (eps : R) (i : nat) : R := INR i * eps.

Lemma Eb_0 eps : Eb eps 0 = 0.
Proof. unfold Eb. simpl. lra. Qed.
Lemma Eb_S eps i : Eb eps (S i) = Eb eps i + eps.
Proof. unfold Eb. rewrite S_INR. lra. Qed.
Lemma Eb_mono eps i j : 0 <= eps -> (i <= j)%nat -> Eb eps i <= Eb eps j.
Proof.
  intros Heps H. unfold Eb. apply Rmult_le_compat_r; [exact Heps|]. now apply le_INR.
Qed.
Lemma Eb_lt eps i j : 0 <= eps -> (i < j)%nat -> Eb eps i + eps <= Eb eps j.
Proof. intros Heps H. rewrite <- Eb_S. apply Eb_mono; [exact Heps|lia]. Qed.

(* ================================================================== *)
(** * Values: every arithmetic step within eps AT THE REALISED VALUES     *)
(* ================================================================== *)
Section ApproxA.
Variable Vc : nat -> nat -> R -> R.
Variable Vp : nat -> R -> R.
Variable Wk : nat -> nat -> R -> R.
Variables (m M delay : nat).
Variable pc : nat -> nat -> R.    (* TRUE penalised saving of the collective anomaly [s,e) *)
Variable pp : nat -> R.           (* TRUE penalised saving of the point anomaly at t *)
Variable K : R.                   (* the prune constant alpha + sum beta *)
Variable eps : R.
Variable N : nat.                 (* length of the run *)
Hypothesis Hm2 : (2 <= m)%nat.
Hypothesis HmM : (m <= M)%nat.

Notation stepM := (stepA Vc Vp Wk m M delay).
Notation runM := (runA Vc Vp Wk m M delay).
Notation capaM := (capaA Vc Vp Wk m M delay).
Notation G := (Gv Vc Vp Wk m M delay).
Notation GG := (GR pc pp m M).
Notation ValidM := (Valid m M).
Notation totalM := (totalR pc pp).
Notation starts1M := (starts1A m).
Notation candsM := (candsA Vc m).
Notation chooseM := (chooseA Vc Vp m).
Notation lowM := (lowA Vc Wk m).
Notation poppedM := (poppedA delay).
Notation keepM := (keepA m M).
Notation WInvM := (WInvA Vc Vp m M).

Hypothesis Heps : 0 <= eps.
(** the three kinds of arithmetic steps, at the values the run itself produces *)
Hypothesis Vc_ok : forall a T, (a < T <= N)%nat -> Rabs (Vc a T (G a) - (G a + pc a T)) <= eps.
Hypothesis Vp_ok : forall t, (t < N)%nat -> Rabs (Vp t (G t) - (G t + pp t)) <= eps.

Notation Eb := (Eb eps).

Lemma Hm1A : (1 <= m)%nat.
Proof using Hm2. clear - Hm2. lia. Qed.

(** ---------- (a) the stored value is close to the TRUE value of its own chain ---------- *)
Lemma chainA_close n : (n <= N)%nat -> forall fuel e, (e <= fuel)%nat -> (e <= n)%nat ->
  G e - Eb e <= totalM (map to_anom (chain fuel (astartC (runM n)) e)) <= G e + Eb e.
Proof.
  intros HnN.
  pose proof (runA_WInv Vc Vp Wk m M delay Hm2 HmM n) as W.
  assert (Hg : forall j, (j <= n)%nat -> nthR (optC (runM n)) j = G j)
    by (intros j Hj; now apply optC_run_nth).
  induction fuel as [|f IH]; intros e Hf HT.
  - replace e with 0%nat by lia. cbn [chain map]. unfold totalR. cbn [map sumR].
    rewrite Gv_0, Eb_0. lra.
  - destruct e as [|i].
    + cbn [chain map]. unfold totalR. cbn [map sumR]. rewrite Gv_0, Eb_0. lra.
    + cbn [chain]. pose proof (wA_as _ _ _ _ _ _ W i ltac:(lia)) as Hok. unfold as_okA in Hok.
      destruct (nth i (astartC (runM n)) None) as [a|].
      * destruct Hok as [[-> E]|(H1 & H2 & E)].
        -- rewrite Nat.ltb_irrefl, Nat.eqb_refl.
           pose proof (IH i ltac:(lia) ltac:(lia)) as P.
           rewrite map_app. cbn [map]. rewrite to_anom_pt.
           rewrite totalR_snoc. cbn [a_valR].
           rewrite !Hg in E by lia.
           pose proof (Rabs_bounds _ _ (Vp_ok i ltac:(lia))) as B.
           rewrite Eb_S. lra.
        -- replace (a <? i)%nat with true by (symmetry; apply Nat.ltb_lt; lia).
           pose proof (IH a ltac:(lia) ltac:(lia)) as P.
           rewrite map_app. cbn [map]. rewrite to_anom_coll by lia.
           rewrite totalR_snoc. cbn [a_valR].
           rewrite !Hg in E by lia.
           pose proof (Rabs_bounds _ _ (Vc_ok a (S i) ltac:(lia))) as B.
           pose proof (Eb_lt eps a (S i) Heps ltac:(lia)) as Hb.
           lra.
      * pose proof (IH i ltac:(lia) ltac:(lia)) as P.
        rewrite !Hg in Hok by lia. rewrite Eb_S. lra.
Qed.

(** the reported final score against the TRUE total penalised saving of the reported set *)
Lemma capaA_reported_close scores c p : capaM N = (scores, c, p) ->
  G N - Eb N <= totalM (map to_anom (capa_predict false c p)) <= G N + Eb N.
Proof.
  intros Hc. rewrite (capaA_predict_chain Vc Vp Wk m M delay N scores c p Hc).
  apply chainA_close; lia.
Qed.

Theorem capaA_final_close_N scores c p : capaM N = (scores, c, p) -> (1 <= N)%nat ->
  Rabs (nthR scores (N - 1) - totalM (map to_anom (capa_predict false c p))) <= INR N * eps.
Proof.
  intros Hc HN. pose proof (capaA_reported_close scores c p Hc) as H.
  rewrite (scoresA_nth Vc Vp Wk m M delay Hm2 HmM N scores c p (N - 1) Hc) by lia.
  replace (S (N - 1)) with N by lia.
  apply Rabs_le. unfold CapaApprox.Eb in H. lra.
Qed.

(** ---------------------------------------------------------------------- *)
(** ** (b) Near-optimality of the pruned programme                           *)
(** ---------------------------------------------------------------------- *)
Hypothesis Hd : (m <= delay + 1)%nat.
Hypothesis Hsub : forall s k e, (s + m <= k)%nat -> (k + m <= e)%nat -> (e <= s + M)%nat ->
  pc s e <= pc s k + K + pc k e.
Hypothesis Wk_ok : forall a T, (a < T <= N)%nat ->
  Rabs (Wk a T (Vc a T (G a)) - (Vc a T (G a) + K)) <= eps.

(** start [a] was found too low at end [tau], by the COMPUTED prune test: in exact terms
    this only says "too low up to 2 eps" *)
Definition condemnedA (a tau : nat) : Prop :=
  (a + m <= tau)%nat /\ G a + pc a tau + K < G tau + 2 * eps.

(** replacing a condemned start [a] by [tau] loses less than 2 eps at any later end *)
Lemma condemnedA_worse a tau T' :
  condemnedA a tau -> (tau + m <= T')%nat -> (T' <= a + M)%nat ->
  G a + pc a T' < G tau + pc tau T' + 2 * eps.
Proof.
  intros [H1 H2] H3 H4.
  pose proof (Hsub a tau T' H1 H3 H4) as Hs. lra.
Qed.

Record OInvA (T : nat) (s : stC) : Prop := {
  oA_low : forall i, (i <= T)%nat -> GG i <= G i + 2 * Eb i;
  oA_missing : forall a, (a + m <= T)%nat -> (S T <= a + M)%nat -> ~ In a (startsC s) ->
      exists tau, condemnedA a tau /\ (tau + m <= S T)%nat;
  oA_pend_len : (length (pendingC s) <= delay)%nat;
  oA_pend : forall i D, nth_error (pendingC s) i = Some D ->
      forall a, In a D -> condemnedA a (T + 1 + i - length (pendingC s))%nat }.

Lemma poppedA_spec s lw now pend' : poppedM s lw = (now, pend') ->
  (delay < length (pendingC s ++ [lw]) /\ now = hd [] (pendingC s ++ [lw]) /\
     pend' = tl (pendingC s ++ [lw]))%nat \/
  (length (pendingC s ++ [lw]) <= delay /\ now = [] /\ pend' = pendingC s ++ [lw])%nat.
Proof.
  unfold poppedA. cbv zeta. destruct (delay <? length (pendingC s ++ [lw]))%nat eqn:E.
  - apply Nat.ltb_lt in E. intros H. inversion H; subst. left. auto.
  - apply Nat.ltb_ge in E. intros H. inversion H; subst. right. auto.
Qed.

Lemma initC_OInvA : OInvA 0 initC.
Proof.
  constructor; cbn [optC astartC startsC pendingC initC].
  - intros i Hi. replace i with 0%nat by lia. rewrite Gv_0, Eb_0.
    change (GG 0) with 0. lra.
  - intros a H. lia.
  - cbn [length]. lia.
  - intros i D H. destruct i; discriminate.
Qed.

Lemma stepA_OInv t : (S t <= N)%nat -> OInvA t (runM t) -> OInvA (S t) (runM (S t)).
Proof.
  intros HtN O.
  pose proof (runA_WInv Vc Vp Wk m M delay Hm2 HmM t) as W.
  assert (Hg : forall j, (j <= t)%nat -> nthR (optC (runM t)) j = G j)
    by (intros j Hj; now apply optC_run_nth).
  pose proof (Gv_S Vc Vp Wk m M delay Hm2 HmM t) as HGS.
  rewrite runA_S. set (s := runM t) in *.
  pose proof W as [Hlo Hla H0 Hmono Has Hst].
  pose proof O as [Hlow Hmiss Hplen Hpend].
  rewrite stepA_eq. destruct (chooseM s t) as [choice best] eqn:Ech.
  cbn [snd] in HGS.
  apply chooseA_spec in Ech as (Hb1 & Hb2 & Hb3 & Hch).
  rewrite Hg in Hb1, Hb2 by lia.
  (* every current start contributes its computed candidate *)
  assert (Hb3' : forall a, In a (starts1M s t) -> Vc a (S t) (G a) <= best).
  { intros a Ha. destruct (starts1A_range Vc Vp m M Hm2 HmM t s W a Ha).
    apply Hb3. unfold candsA. apply in_map_iff. exists a. split; [|exact Ha].
    rewrite Hg by lia. reflexivity. }
  (* admissible starts absent from the list were condemned long enough ago *)
  assert (Hmiss0 : forall a, (a + m <= S t)%nat -> (S t <= a + M)%nat ->
            ~ In a (starts1M s t) -> exists tau, condemnedA a tau /\ (tau + m <= S t)%nat).
  { intros a A1 A2 Hn.
    assert (Hne : a <> (S t - m)%nat).
    { intros ->. apply Hn. unfold starts1A.
      replace (m <=? S t)%nat with true by (symmetry; apply Nat.leb_le; lia).
      apply in_or_app; right; now left. }
    assert (Hn' : ~ In a (startsC s)) by (intros Hin; apply Hn; now apply startsC_sub_starts1A).
    apply Hmiss; [lia|lia|exact Hn']. }
  (* ( * ) every admissible start is represented in the current list up to 2 eps per hop *)
  assert (Hstar : forall k a, (S t - a <= k)%nat -> (a + m <= S t)%nat -> (S t <= a + M)%nat ->
            exists s', In s' (starts1M s t) /\ (a <= s')%nat /\
              G a + pc a (S t) <= G s' + pc s' (S t) + 2 * (Eb s' - Eb a)).
  { induction k as [|k IHk]; intros a Hk A1 A2; [lia|].
    destruct (in_dec Nat.eq_dec a (starts1M s t)) as [Hin|Hn].
    - exists a. split; [exact Hin|]. split; [lia|]. lra.
    - destruct (Hmiss0 a A1 A2 Hn) as (tau & Hc & Htau).
      pose proof Hc as [Hc1 _].
      destruct (IHk tau ltac:(lia) Htau ltac:(lia)) as (s' & Hs' & Hle & Hv).
      exists s'. split; [exact Hs'|]. split; [lia|].
      pose proof (condemnedA_worse a tau (S t) Hc Htau A2) as Hw.
      pose proof (Eb_lt eps a tau Heps ltac:(lia)) as Hb.
      lra. }
  (* the pruned, rounded maximum is within 2 (t+1) eps of the unpruned exact one *)
  assert (Hbest : GG (S t) <= best + 2 * Eb (S t)).
  { pose proof (Hlow t ltac:(lia)) as Ht.
    destruct (GR_attained_step pc pp m M Hm1A t) as [E|[E|(a & A1 & A2 & E)]].
    - rewrite E, Eb_S. lra.
    - pose proof (Rabs_bounds _ _ (Vp_ok t ltac:(lia))) as B.
      rewrite E, Eb_S. lra.
    - destruct (Hstar (S t) a ltac:(lia) A1 A2) as (s' & Hs' & Hle & Hv).
      destruct (starts1A_range Vc Vp m M Hm2 HmM t s W s' Hs') as [R1 R2].
      pose proof (Hb3' s' Hs') as Hc.
      pose proof (Rabs_bounds _ _ (Vc_ok s' (S t) ltac:(lia))) as B.
      pose proof (Hlow a ltac:(lia)) as Ha.
      pose proof (Eb_lt eps s' (S t) Heps ltac:(lia)) as Hb.
      rewrite E. lra. }
  (* starts recorded as too low at this end are condemned at S t *)
  assert (Hlw : forall a, In a (lowM s t best) -> condemnedA a (S t)).
  { intros a Ha. unfold lowA in Ha. apply in_map_iff in Ha as ([a' c0] & Ea & Hin).
    cbn [fst] in Ea. subst a'. apply filter_In in Hin as [Hin Hc].
    unfold candsA in Hin. apply in_combine_mapR in Hin as [Hin ->]. cbn [fst snd] in Hc.
    apply Rltb_true in Hc.
    destruct (starts1A_range Vc Vp m M Hm2 HmM t s W a Hin) as [R1 R2].
    rewrite Hg in Hc by lia.
    pose proof (Rabs_bounds _ _ (Vc_ok a (S t) ltac:(lia))) as B1.
    pose proof (Rabs_bounds _ _ (Wk_ok a (S t) ltac:(lia))) as B2.
    split; [lia|]. rewrite HGS. lra. }
  set (lw := lowM s t best) in *.
  destruct (poppedM s lw) as [now pend'] eqn:Epop.
  apply poppedA_spec in Epop.
  set (pend := pendingC s ++ [lw]) in *.
  assert (Hlen : length pend = S (length (pendingC s)))
    by (unfold pend; rewrite app_length; cbn [length]; lia).
  assert (Hpend1 : forall i D, nth_error pend i = Some D ->
            forall a, In a D -> condemnedA a (S t + 1 + i - length pend)%nat).
  { intros i D Hi a Ha. rewrite Hlen.
    destruct (lt_dec i (length (pendingC s))) as [Hlt|Hge].
    - unfold pend in Hi. rewrite nth_error_app1 in Hi by exact Hlt.
      specialize (Hpend i D Hi a Ha).
      replace (S t + 1 + i - S (length (pendingC s)))%nat
        with (t + 1 + i - length (pendingC s))%nat by lia. exact Hpend.
    - unfold pend in Hi. rewrite nth_error_app2 in Hi by lia.
      destruct (i - length (pendingC s))%nat as [|j] eqn:Ej; cbn [nth_error] in Hi;
        [|destruct j; discriminate].
      inversion Hi; subst D.
      replace (S t + 1 + i - S (length (pendingC s)))%nat with (S t) by lia.
      now apply Hlw. }
  assert (Hlow' : forall i, (i <= S t)%nat -> GG i <= G i + 2 * Eb i).
  { intros i Hi. destruct (Nat.eq_dec i (S t)) as [->|Hne].
    - rewrite HGS. exact Hbest.
    - apply Hlow. lia. }
  destruct Epop as [(Hcmp & -> & ->)|(Hcmp & -> & ->)].
  - (* the oldest pending decision is applied *)
    assert (Hk : length (pendingC s) = delay) by lia.
    destruct pend as [|D0 ptl] eqn:Ep; [cbn [length] in Hlen; lia|]. cbn [hd tl].
    assert (HD0 : forall a, In a D0 -> condemnedA a (S t - delay)%nat).
    { intros a Ha. specialize (Hpend1 0%nat D0 eq_refl a Ha).
      replace (S t + 1 + 0 - length (D0 :: ptl))%nat with (S t - delay)%nat in Hpend1
        by (rewrite Hlen; lia). exact Hpend1. }
    constructor; cbn [optC astartC startsC pendingC].
    + exact Hlow'.
    + intros a A1 A2 Hn.
      destruct (in_dec Nat.eq_dec a (starts1M s t)) as [Hin|Hnin].
      * assert (Hnow : In a D0).
        { destruct (in_dec Nat.eq_dec a D0) as [i|ni]; [exact i|]. exfalso. apply Hn.
          unfold keepA. apply filter_In. split; [exact Hin|]. apply andb_true_iff. split.
          - apply negb_true_iff. destruct (memb a D0) eqn:Em; [|reflexivity].
            apply in_memb in Em. contradiction.
          - apply negb_true_iff, Nat.ltb_ge. lia. }
        exists (S t - delay)%nat. split; [now apply HD0|].
        destruct (HD0 a Hnow) as [Hm' _]. lia.
      * destruct (Hmiss0 a A1 ltac:(lia) Hnin) as (tau & Hc & Htau).
        exists tau. split; [exact Hc|lia].
    + cbn [length] in Hlen. lia.
    + intros i D Hi a Ha. specialize (Hpend1 (S i) D Hi a Ha).
      replace (S t + 1 + i - length ptl)%nat
        with (S t + 1 + S i - length (D0 :: ptl))%nat by (cbn [length]; lia).
      exact Hpend1.
  - (* nothing is applied yet *)
    constructor; cbn [optC astartC startsC pendingC].
    + exact Hlow'.
    + intros a A1 A2 Hn.
      assert (Hnin : ~ In a (starts1M s t)).
      { intros Hin. apply Hn. unfold keepA. apply filter_In. split; [exact Hin|].
        apply andb_true_iff. split; [reflexivity|]. apply negb_true_iff, Nat.ltb_ge. lia. }
      destruct (Hmiss0 a A1 ltac:(lia) Hnin) as (tau & Hc & Htau).
      exists tau. split; [exact Hc|lia].
    + exact Hcmp.
    + exact Hpend1.
Qed.

Lemma runA_OInv n : (n <= N)%nat -> OInvA n (runM n).
Proof.
  induction n as [|n IH]; intros Hn; [exact initC_OInvA|].
  apply stepA_OInv; [exact Hn|]. apply IH. lia.
Qed.

(** the stored value is within 2 i eps of the exact optimum, from below *)
Lemma Gv_lower i : (i <= N)%nat -> GG i <= G i + 2 * Eb i.
Proof. intros Hi. apply (oA_low _ _ (runA_OInv N (le_n N))). exact Hi. Qed.

Theorem capaA_near_optimal_N scores c p : capaM N = (scores, c, p) ->
  forall l, ValidM l N ->
    totalM l <= totalM (map to_anom (capa_predict false c p)) + 3 * INR N * eps.
Proof.
  intros Hc l Hl.
  pose proof (capaA_reported_close scores c p Hc) as H.
  pose proof (Gv_lower N (le_n N)) as HL.
  pose proof (GR_upper pc pp m M Hm1A N l Hl) as HU.
  unfold CapaApprox.Eb in *. lra.
Qed.

End ApproxA.

(* ================================================================== *)
(** * The theorems in closed form                                        *)
(* ================================================================== *)

(** the run's own stored value opt[a] (optC of a shorter run is a prefix of the longer one,
    [optC_run_nth]) *)
Definition Grun (Vc : nat -> nat -> R -> R) (Vp : nat -> R -> R) (Wk : nat -> nat -> R -> R)
           (m M delay n a : nat) : R :=
  nthR (optC (runA Vc Vp Wk m M delay n)) a.

Lemma Grun_Gv Vc Vp Wk m M delay n a : (2 <= m)%nat -> (m <= M)%nat -> (a <= n)%nat ->
  Grun Vc Vp Wk m M delay n a = Gv Vc Vp Wk m M delay a.
Proof. intros Hm2 HmM Ha. unfold Grun. now apply optC_run_nth. Qed.

(** hypotheses only at REALISED values: [Vc] / [Vp] / [Wk] may be tables of the binary64
    values the run produced, ignoring their real argument *)
Theorem capaA_final_close_run
  (Vc : nat -> nat -> R -> R) (Vp : nat -> R -> R) (Wk : nat -> nat -> R -> R)
  (m M delay : nat) (pc : nat -> nat -> R) (pp : nat -> R) (eps : R) (n : nat)
  (scores : list R) (c p : list (nat * nat)) :
  (2 <= m)%nat -> (m <= M)%nat -> 0 <= eps ->
  (forall a T, (a < T <= n)%nat ->
     Rabs (Vc a T (Grun Vc Vp Wk m M delay n a) - (Grun Vc Vp Wk m M delay n a + pc a T)) <= eps) ->
  (forall t, (t < n)%nat ->
     Rabs (Vp t (Grun Vc Vp Wk m M delay n t) - (Grun Vc Vp Wk m M delay n t + pp t)) <= eps) ->
  capaA Vc Vp Wk m M delay n = (scores, c, p) -> (1 <= n)%nat ->
  Rabs (nthR scores (n - 1) - totalR pc pp (map to_anom (capa_predict false c p))) <= INR n * eps.
Proof.
  intros Hm2 HmM Heps HVc HVp Hc Hn.
  apply (capaA_final_close_N Vc Vp Wk m M delay pc pp eps n Hm2 HmM Heps); try assumption.
  - intros a T HT. rewrite <- (Grun_Gv Vc Vp Wk m M delay n a) by (try assumption; lia).
    now apply HVc.
  - intros t Ht. rewrite <- (Grun_Gv Vc Vp Wk m M delay n t) by (try assumption; lia).
    now apply HVp.
Qed.

Theorem capaA_near_optimal_run
  (Vc : nat -> nat -> R -> R) (Vp : nat -> R -> R) (Wk : nat -> nat -> R -> R)
  (m M delay : nat) (pc : nat -> nat -> R) (pp : nat -> R) (K eps : R) (n : nat)
  (scores : list R) (c p : list (nat * nat)) :
  (2 <= m)%nat -> (m <= M)%nat -> (m <= delay + 1)%nat -> 0 <= eps ->
  (forall s k e, (s + m <= k)%nat -> (k + m <= e)%nat -> (e <= s + M)%nat ->
     pc s e <= pc s k + K + pc k e) ->
  (forall a T, (a < T <= n)%nat ->
     Rabs (Vc a T (Grun Vc Vp Wk m M delay n a) - (Grun Vc Vp Wk m M delay n a + pc a T)) <= eps) ->
  (forall t, (t < n)%nat ->
     Rabs (Vp t (Grun Vc Vp Wk m M delay n t) - (Grun Vc Vp Wk m M delay n t + pp t)) <= eps) ->
  (forall a T, (a < T <= n)%nat ->
     Rabs (Wk a T (Vc a T (Grun Vc Vp Wk m M delay n a))
           - (Vc a T (Grun Vc Vp Wk m M delay n a) + K)) <= eps) ->
  capaA Vc Vp Wk m M delay n = (scores, c, p) ->
  forall l, Valid m M l n ->
    totalR pc pp l <= totalR pc pp (map to_anom (capa_predict false c p)) + 3 * INR n * eps.
Proof.
  intros Hm2 HmM Hd Heps Hsub HVc HVp HWk Hc.
  apply (capaA_near_optimal_N Vc Vp Wk m M delay pc pp K eps n Hm2 HmM Heps) with (scores := scores);
    try assumption.
  - intros a T HT. rewrite <- (Grun_Gv Vc Vp Wk m M delay n a) by (try assumption; lia).
    now apply HVc.
  - intros t Ht. rewrite <- (Grun_Gv Vc Vp Wk m M delay n t) by (try assumption; lia).
    now apply HVp.
  - intros a T HT. rewrite <- (Grun_Gv Vc Vp Wk m M delay n a) by (try assumption; lia).
    now apply HWk.
Qed.

(** hypotheses for ALL arguments: every arithmetic step is within eps of the real one *)
Section MainA.
Variable Vc : nat -> nat -> R -> R.
Variable Vp : nat -> R -> R.
Variable Wk : nat -> nat -> R -> R.
Variables (m M delay : nat).
Variable pc : nat -> nat -> R.
Variable pp : nat -> R.
Variables (K eps : R).
Hypothesis Hm2 : (2 <= m)%nat.
Hypothesis HmM : (m <= M)%nat.
Hypothesis Hd : (m <= delay + 1)%nat.
Hypothesis Hsub : forall s k e, (s + m <= k)%nat -> (k + m <= e)%nat -> (e <= s + M)%nat ->
  pc s e <= pc s k + K + pc k e.
Hypothesis Heps : 0 <= eps.
Hypothesis Vc_ok : forall a T g, Rabs (Vc a T g - (g + pc a T)) <= eps.
Hypothesis Vp_ok : forall t g, Rabs (Vp t g - (g + pp t)) <= eps.
Hypothesis Wk_ok : forall a T c, Rabs (Wk a T c - (c + K)) <= eps.

Theorem capaA_final_close n scores c p :
  capaA Vc Vp Wk m M delay n = (scores, c, p) -> (1 <= n)%nat ->
  Rabs (nthR scores (n - 1) - totalR pc pp (map to_anom (capa_predict false c p))) <= INR n * eps.
Proof using Hm2 HmM Heps Vc_ok Vp_ok.
  intros Hc Hn.
  apply (capaA_final_close_run Vc Vp Wk m M delay pc pp eps n scores c p); auto.
Qed.

Theorem capaA_near_optimal n scores c p :
  capaA Vc Vp Wk m M delay n = (scores, c, p) ->
  forall l, Valid m M l n ->
    totalR pc pp l <= totalR pc pp (map to_anom (capa_predict false c p)) + 3 * INR n * eps.
Proof using Hm2 HmM Hd Hsub Heps Vc_ok Vp_ok Wk_ok.
  intros Hc.
  apply (capaA_near_optimal_run Vc Vp Wk m M delay pc pp K eps n scores c p); auto.
Qed.

(** every intermediate score is within 2 (t+1) eps below / (t+1) eps above the exact
    optimum of its prefix *)
Theorem capaA_scores_near_optimal n scores c p :
  capaA Vc Vp Wk m M delay n = (scores, c, p) ->
  forall t, (t < n)%nat ->
    GR pc pp m M (S t) - 2 * INR (S t) * eps <= nthR scores t
      <= GR pc pp m M (S t) + INR (S t) * eps.
Proof using Hm2 HmM Hd Hsub Heps Vc_ok Vp_ok Wk_ok.
  intros Hc t Ht.
  rewrite (scoresA_nth Vc Vp Wk m M delay Hm2 HmM n scores c p t Hc Ht).
  assert (Hm1 : (1 <= m)%nat) by lia.
  split.
  - pose proof (Gv_lower Vc Vp Wk m M delay pc pp K eps n Hm2 HmM Heps
                  ltac:(intros; apply Vc_ok) ltac:(intros; apply Vp_ok) Hd Hsub
                  ltac:(intros; apply Wk_ok) (S t) Ht) as H.
    unfold Eb in H. lra.
  - pose proof (chainA_close Vc Vp Wk m M delay pc pp eps n Hm2 HmM Heps
                  ltac:(intros; apply Vc_ok) ltac:(intros; apply Vp_ok) n (le_n n)
                  (S t) (S t) (le_n _) Ht) as [H _].
    pose proof (chainA_valid Vc Vp m M Hm2 HmM n _ (runA_WInv Vc Vp Wk m M delay Hm2 HmM n)
                  (S t) (S t) (le_n _) Ht) as V.
    pose proof (GR_upper pc pp m M Hm1 (S t) _ V) as HU.
    unfold Eb in H. lra.
Qed.
End MainA.

(* ================================================================== *)
(** * Non-vacuity                                                        *)
(* ================================================================== *)

(** (1) the exact arithmetic meets the hypotheses with any eps >= 0 ... *)
Lemma exact_steps_ok (pc : nat -> nat -> R) (pp : nat -> R) (K eps : R) : 0 <= eps ->
  (forall a T g, Rabs ((fun a T g => g + pc a T) a T g - (g + pc a T)) <= eps) /\
  (forall t g, Rabs ((fun t g => g + pp t) t g - (g + pp t)) <= eps) /\
  (forall (a T : nat) c, Rabs ((fun (_ _ : nat) c => c + K) a T c - (c + K)) <= eps).
Proof.
  intros Heps. repeat split; intros; cbv beta;
    match goal with |- Rabs ?x <= _ => replace x with 0 by lra end;
    rewrite Rabs_R0; exact Heps.
Qed.

(** ... and with eps = 0 the robustness theorem gives back the exact optimality theorem
    [capaR_optimal] of Proofs/CapaReal.v *)
Corollary capaR_optimal_from_approx
  (Sc : nat -> nat -> list R) (Sp : nat -> list R) (ac : R) (bc : list R) (ap : R) (bp : list R)
  (m M delay n : nat) (scores : list R) (c p : list (nat * nat)) :
  (2 <= m)%nat -> (m <= M)%nat -> (m <= delay + 1)%nat ->
  (forall s k e, (s + m <= k)%nat -> (k + m <= e)%nat -> (e <= s + M)%nat ->
     PcR Sc ac bc s e <= PcR Sc ac bc s k + (ac + sumR bc) + PcR Sc ac bc k e) ->
  capaR Sc Sp ac bc ap bp m M delay n = (scores, c, p) ->
  forall l, Valid m M l n ->
    totalR (PcR Sc ac bc) (PpR Sp ap bp) l
    <= totalR (PcR Sc ac bc) (PpR Sp ap bp) (map to_anom (capa_predict false c p)).
Proof.
  intros Hm2 HmM Hd Hsub Hc l Hl. rewrite <- capaA_exact in Hc.
  destruct (exact_steps_ok (PcR Sc ac bc) (PpR Sp ap bp) (ac + sumR bc) 0 (Rle_refl 0))
    as (H1 & H2 & H3).
  pose proof (capaA_near_optimal _ _ _ m M delay (PcR Sc ac bc) (PpR Sp ap bp) (ac + sumR bc) 0
                Hm2 HmM Hd Hsub (Rle_refl 0) H1 H2 H3 n scores c p Hc l Hl) as H.
  lra.
Qed.

(** (2) a genuinely perturbed arithmetic: every candidate is off by exactly eps (the sign
    alternates with a + T), every point option by eps / 2, every prune sum by eps *)
Section Perturbed.
Variable pc : nat -> nat -> R.
Variable pp : nat -> R.
Variables (K eps : R).
Hypothesis Heps : 0 <= eps.

Definition VcP (a T : nat) (g : R) : R :=
  g + pc a T + (if Nat.even (a + T) then eps else - eps).
Definition VpP (t : nat) (g : R) : R := g + pp t - eps / 2.
Definition WkP (a T : nat) (c : R) : R := c + K + eps.

Lemma VcP_ok a T g : Rabs (VcP a T g - (g + pc a T)) <= eps.
Proof. unfold VcP. apply Rabs_le. destruct (Nat.even (a + T)); lra. Qed.
Lemma VpP_ok t g : Rabs (VpP t g - (g + pp t)) <= eps.
Proof. unfold VpP. apply Rabs_le. lra. Qed.
Lemma WkP_ok a T c : Rabs (WkP a T c - (c + K)) <= eps.
Proof. unfold WkP. apply Rabs_le. lra. Qed.

(** the perturbation is real: no computed candidate equals the exact one *)
Lemma VcP_perturbed : 0 < eps -> forall a T g, VcP a T g <> g + pc a T.
Proof. intros H a T g. unfold VcP. destruct (Nat.even (a + T)); lra. Qed.

Theorem capaA_perturbed_near_optimal m M delay n scores c p :
  (2 <= m)%nat -> (m <= M)%nat -> (m <= delay + 1)%nat ->
  (forall s k e, (s + m <= k)%nat -> (k + m <= e)%nat -> (e <= s + M)%nat ->
     pc s e <= pc s k + K + pc k e) ->
  capaA VcP VpP WkP m M delay n = (scores, c, p) ->
  forall l, Valid m M l n ->
    totalR pc pp l <= totalR pc pp (map to_anom (capa_predict false c p)) + 3 * INR n * eps.
Proof.
  intros Hm2 HmM Hd Hsub.
  exact (capaA_near_optimal VcP VpP WkP m M delay pc pp K eps Hm2 HmM Hd Hsub Heps
           VcP_ok VpP_ok WkP_ok n scores c p).
Qed.
End Perturbed.

(** (3) all hypotheses at once, on concrete data: m = 2, M = 4, delay = 1, a saving
    that grows with the length, K = 3, eps = 1/1024, the perturbed arithmetic above *)
Definition pc_ex (s e : nat) : R := INR (e - s) - 3.
Definition pp_ex (t : nat) : R := -1.

Lemma pc_ex_subadditive s k e : (s + 2 <= k)%nat -> (k + 2 <= e)%nat -> (e <= s + 4)%nat ->
  pc_ex s e <= pc_ex s k + 3 + pc_ex k e.
Proof.
  intros H1 H2 H3. unfold pc_ex.
  replace (e - s)%nat with ((k - s) + (e - k))%nat by lia. rewrite plus_INR. lra.
Qed.

Theorem capaA_concrete_instance n scores c p :
  capaA (VcP pc_ex (/ 1024)) (VpP pp_ex (/ 1024)) (WkP 3 (/ 1024)) 2 4 1 n = (scores, c, p) ->
  forall l, Valid 2 4 l n ->
    totalR pc_ex pp_ex l
    <= totalR pc_ex pp_ex (map to_anom (capa_predict false c p)) + 3 * INR n * / 1024.
Proof.
  apply (capaA_perturbed_near_optimal pc_ex pp_ex 3 (/ 1024)); try lia.
  - lra.
  - exact pc_ex_subadditive.
Qed.

Print Assumptions capaA_near_optimal.
Print Assumptions capaA_final_close.
Print Assumptions capaA_near_optimal_run.
Print Assumptions capaA_final_close_run.
Print Assumptions capaA_wellformed.
