(** The generic CAPA / MVCAPA (Model/GenericCapa.v) at the instance of the real numbers ([Rn] of
    Proofs/GenericR.v) IS the real-valued model Model/CapaR.v: the theorems of Proofs/CapaReal.v are
    theorems about the same definition that is run on integer tables (Proofs/GenericCapaZ.v) and on
    binary64 tables ([F64]).

    The "negligible beta" test is [gtiny_le Rn 0] (beta <= 0), by computation the test [all_tinyR].
    (A strict test "beta < c" cannot coincide with "beta <= 0" on all reals, so there is no real
    twin of [gcapa_Z_lt].)  The derived maximum and equality test are bridged by [gmax_R] (on a tie
    [gmax] returns its first and [Rmax] its second argument: the same real) and [geqb_R]. *)
From Coq Require Import Reals List Bool Arith Lia Lra.
From SK Require Import Lib.Base Model.Capa Model.PeltR Proofs.RealLib Model.CapaR
                       Model.Generic Model.GenericCapa Proofs.GenericR.
Import ListNotations.
Open Scope R_scope.

Lemma gargmax_from_R l : forall bi b i, gargmax_from Rn bi b i l = argmaxR_from bi b i l.
Proof.
  induction l as [|x t IH]; intros bi b i; cbn [gargmax_from argmaxR_from]; [reflexivity|].
  cbn [T ltb Rn]. destruct (Rltb b x); apply IH.
Qed.

Lemma gargmax_R l : gargmax Rn l = argmaxR l.
Proof. destruct l as [|x t]; cbn [gargmax argmaxR]; [reflexivity|]. rewrite gargmax_from_R. reflexivity. Qed.

Lemma nthV_R (l : list R) i : nthV Rn l i = nthR l i.
Proof. reflexivity. Qed.

(** ---- derived operations ---- *)
Lemma gsub_R x y : gsub Rn x y = x - y.
Proof. reflexivity. Qed.

Lemma gmax_R a b : gmax Rn a b = Rmax a b.
Proof.
  unfold gmax, Rmax. cbn [ltb Rn]. unfold Rltb.
  destruct (Rlt_dec a b) as [H1|H1]; destruct (Rle_dec a b) as [H2|H2]; try reflexivity; lra.
Qed.

Lemma geqb_R a b : geqb Rn a b = Reqb a b.
Proof.
  unfold geqb, Reqb. cbn [ltb Rn]. unfold Rltb.
  destruct (Rlt_dec a b) as [H1|H1]; destruct (Rlt_dec b a) as [H2|H2];
    destruct (Req_EM_T a b) as [H3|H3]; cbn; try reflexivity; lra.
Qed.

Lemma gtiny_le_R b : gtiny_le Rn 0 b = Rleb b 0.
Proof. reflexivity. Qed.

(** [gsum] is the left fold from the first element (NumPy's order); over R it is [sumR] (a right fold
    ending in 0) by associativity and commutativity of the addition. *)
Lemma fold_left_add_R (t : list R) (acc : R) : fold_left (add Rn) t acc = acc + sumR t.
Proof.
  revert acc. induction t as [|y t IH]; intros acc; cbn [fold_left sumR].
  - lra.
  - rewrite IH. change (add Rn acc y) with (acc + y). lra.
Qed.

Lemma gsum_R (l : list R) : gsum Rn l = sumR l.
Proof. destruct l as [|x t]; cbn [gsum sumR]; [reflexivity|]. apply fold_left_add_R. Qed.

(** ---- penalise_savings ---- *)
Lemma ginsert_desc_R (x : R) (l : list R) : ginsert_desc Rn x l = insert_descR x l.
Proof.
  induction l as [|y t IH]; cbn [ginsert_desc insert_descR]; [reflexivity|].
  change (ltb Rn y x) with (Rltb y x). destruct (Rltb y x); [reflexivity|]. rewrite IH. reflexivity.
Qed.

Lemma gsort_desc_R (l : list R) : gsort_desc Rn l = sort_descR l.
Proof.
  induction l as [|x t IH]; cbn [gsort_desc sort_descR]; [reflexivity|].
  rewrite IH. apply ginsert_desc_R.
Qed.

Lemma gcumsum_from_R (l : list R) : forall acc, gcumsum_from Rn acc l = cumsumR_from acc l.
Proof.
  induction l as [|x t IH]; intros acc; cbn [gcumsum_from cumsumR_from]; [reflexivity|].
  rewrite IH. reflexivity.
Qed.

Lemma gcumsum_R (l : list R) : gcumsum Rn l = cumsumR l.
Proof. unfold gcumsum, cumsumR. apply gcumsum_from_R. Qed.

Lemma gsub_lists_R (a b : list R) : gsub_lists Rn a b = sub_listsR a b.
Proof. reflexivity. Qed.

Lemma gall_tiny_R (betas : list R) : gall_tiny Rn (gtiny_le Rn 0) betas = all_tinyR betas.
Proof. reflexivity. Qed.

Lemma forallb_geqb_R b0 (l : list R) : forallb (fun b => geqb Rn b b0) l = forallb (fun b => Reqb b b0) l.
Proof.
  induction l as [|b t IH]; cbn [forallb]; [reflexivity|]. rewrite geqb_R, IH. reflexivity.
Qed.

Lemma gall_equal_R (betas : list R) : gall_equal Rn betas = all_equalR betas.
Proof.
  unfold gall_equal, all_equalR. destruct betas as [|b0 t]; [reflexivity|]. apply forallb_geqb_R.
Qed.

Lemma map_gmax_R c (sav : list R) :
  map (fun s => gmax Rn (gsub Rn s c) (zero Rn)) sav = map (fun s => Rmax (s - c) 0) sav.
Proof. apply map_ext. intros s. rewrite gmax_R. reflexivity. Qed.

Theorem gpenalise_R (sav : list R) (alpha : R) (betas : list R) :
  gpenalise Rn (gtiny_le Rn 0) sav alpha betas = penaliseR sav alpha betas.
Proof.
  unfold gpenalise, penaliseR.
  rewrite gall_tiny_R, gall_equal_R.
  destruct (all_tinyR betas).
  - rewrite gsum_R. reflexivity.
  - destruct (all_equalR betas).
    + rewrite gsum_R. change (hd (zero Rn) betas) with (hd 0 betas). rewrite map_gmax_R. reflexivity.
    + rewrite gargmax_R, gsort_desc_R, gsub_lists_R, gcumsum_R. reflexivity.
Qed.

(** ---- find_affected_components ---- *)
Lemma ginsert_idx_R (sav : list R) j l : ginsert_idx Rn sav j l = insert_idxR sav j l.
Proof.
  induction l as [|k t IH]; cbn [ginsert_idx insert_idxR]; [reflexivity|].
  change (ltb Rn (nthV Rn sav k) (nthV Rn sav j)) with (Rltb (nthR sav k) (nthR sav j)).
  destruct (Rltb (nthR sav k) (nthR sav j)); [reflexivity|]. rewrite IH. reflexivity.
Qed.

Lemma gargsort_desc_R (sav : list R) : gargsort_desc Rn sav = argsort_descR sav.
Proof.
  unfold gargsort_desc, argsort_descR.
  change (@length (T Rn) sav) with (@length R sav).
  induction (seq 0 (length sav)) as [|j t IH]; cbn [fold_right]; [reflexivity|].
  rewrite IH. apply ginsert_idx_R.
Qed.

Theorem gaffected_R (sav : list R) (alpha : R) (betas : list R) :
  gaffected Rn sav alpha betas = affectedR sav alpha betas.
Proof.
  unfold gaffected, affectedR. cbv zeta.
  rewrite gargmax_R, gargsort_desc_R, gsub_lists_R, gcumsum_R. reflexivity.
Qed.

(** ---- run_base_capa ---- *)
Section Run.
Variable Sc : nat -> nat -> list R.
Variable Sp : nat -> list R.
Variables (ac : R) (bc : list R) (ap : R) (bp : list R).
Variables (m M delay : nat).
Notation tinyR := (gtiny_le Rn 0).

Lemma gPc_R s e : gPc Rn tinyR Sc ac bc s e = PcR Sc ac bc s e.
Proof. unfold gPc, PcR. apply gpenalise_R. Qed.

Lemma gPp_R t : gPp Rn tinyR Sp ap bp t = PpR Sp ap bp t.
Proof. unfold gPp, PpR. apply gpenalise_R. Qed.

Definition cst_relR (g : gcst Rn) (s : stC) : Prop :=
  gcopt Rn g = optC s /\ gcastart Rn g = astartC s /\
  gcstarts Rn g = startsC s /\ gcpending Rn g = pendingC s.

Lemma gcinit_R : cst_relR (gcinit Rn) initC.
Proof. repeat split. Qed.

Lemma gcstep_R g s t : cst_relR g s ->
  cst_relR (gcstep Rn tinyR Sc Sp ac bc ap bp m M delay g t) (stepC Sc Sp ac bc ap bp m M delay s t).
Proof.
  intros (Ho & Ha & Hs & Hq). unfold gcstep, stepC. rewrite Ho, Ha, Hs, Hq.
  cbv zeta. rewrite gargmax_R, gsum_R, gPp_R.
  rewrite (map_ext (fun a => add Rn (nthV Rn (optC s) a) (gPc Rn tinyR Sc ac bc a (S t)))
                   (fun a => nthR (optC s) a + PcR Sc ac bc a (S t)))
    by (intros a; rewrite gPc_R; reflexivity).
  rewrite !nthV_R. cbn [T ltb leb add neg zero Rn].
  set (starts1 := if (m <=? S t)%nat then startsC s ++ [(S t - m)%nat] else startsC s).
  set (cands := map (fun a => nthR (optC s) a + PcR Sc ac bc a (S t)) starts1).
  set (ot := nthR (optC s) t). set (optp := ot + PpR Sp ap bp t).
  destruct (match argmaxR cands with
            | Some (i, oc) =>
                if Rltb ot oc
                then if Rltb oc optp then (Some t, optp) else (Some (nthN starts1 i), oc)
                else if Rltb ot optp then (Some t, optp) else (None, ot)
            | None => if Rltb ot optp then (Some t, optp) else (None, ot)
            end) as [choice best].
  destruct (Nat.ltb delay _); unfold cst_relR; cbn; repeat split; reflexivity.
Qed.

Lemma gcrun_R n :
  cst_relR (gcrun Rn tinyR Sc Sp ac bc ap bp m M delay n) (runC Sc Sp ac bc ap bp m M delay n).
Proof.
  unfold gcrun, runC. generalize (seq 0 n) as ts.
  generalize gcinit_R. generalize (gcinit Rn) as g, initC as s.
  intros g s Hrel ts. revert g s Hrel.
  induction ts as [|t ts IH]; intros g s Hrel; cbn [fold_left]; [exact Hrel|].
  apply IH. apply gcstep_R. exact Hrel.
Qed.

Theorem gcapa_R n :
  gcapa Rn (gtiny_le Rn 0) Sc Sp ac bc ap bp m M delay n = capaR Sc Sp ac bc ap bp m M delay n.
Proof.
  unfold gcapa, capaR. cbv zeta. destruct (gcrun_R n) as (Ho & Ha & _ & _).
  rewrite Ho, Ha. reflexivity.
Qed.
End Run.

Print Assumptions gpenalise_R.
Print Assumptions gaffected_R.
Print Assumptions gcapa_R.
