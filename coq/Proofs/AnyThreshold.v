(** The fixed greedy loops (Model/GenericAny.v): any threshold.

    Part I   (no law on the instance at all, ANY threshold):
             the selection loops never run out of fuel, [gsbs_any] / [gcbs_any] are total, their
             results are well-formed; the changepoints of [gmw_any] lie in [b, n-b] and increase.
    Part II  (strict weak order on the admissible values, NON-NEGATIVE threshold):
             [gsbs_any] = [gsbs], [gcbs_any] = [gcbs]; [gmw_any] = [gmw] (this one needs no order
             law, only that zero does not exceed the threshold).  Corollaries at the Z instance.
    Part III the option type as an instance of [num] ("T N with -infinity"): the fixed loops ARE the
             original loops at that instance. *)
From Coq Require Import ZArith List Bool Arith Lia Permutation Sorted.
From SK Require Import Lib.Base Model.Mw Model.Sbs Model.Capa Model.Cbs Model.Generic Model.GenericAny.
From SK Require Import Proofs.ArgmaxLemmas Proofs.MwProofs Proofs.SbsProofs Proofs.CbsProofs.
From SK Require Import Proofs.GenericRank Proofs.GenericOrder Proofs.GenericZ Proofs.GenericSpec.
Import ListNotations.
Local Close Scope Z_scope.
Local Open Scope nat_scope.

(** ====================================================================== *)
(** * Part I: any threshold, no law *)
Section AnyThr.
Variable N : num.
Notation V := (T N).
Notation OV := (option (T N)).
Notation "x <! y" := (ltb N x y) (at level 70).

(** ---------- [oargmax] reports a position holding a proper score ---------- *)
Lemma oargmax_from_shape : forall (l : list OV) bi b i,
  oargmax_from N bi b i l = (bi, b) \/
  exists j, j < length l /\ oargmax_from N bi b i l = (i + j, nth j l None).
Proof.
  induction l as [|x t IH]; intros bi b i; cbn [oargmax_from]; [left; reflexivity|].
  destruct (oltb N b x).
  - right. destruct (IH i x (S i)) as [E | (j & Hj & E)].
    + exists 0. cbn [length nth]. split; [lia|]. rewrite E. f_equal. lia.
    + exists (S j). cbn [length nth]. split; [lia|]. rewrite E. f_equal. lia.
  - destruct (IH bi b (S i)) as [E | (j & Hj & E)]; [left; exact E|].
    right. exists (S j). cbn [length nth]. split; [lia|]. rewrite E. f_equal. lia.
Qed.

Lemma oargmax_nth : forall (l : list OV) i v,
  oargmax N l = Some (i, v) -> i < length l /\ nth i l None = Some v.
Proof.
  intros [|x t] i v H; cbn [oargmax] in H; [discriminate|].
  destruct (oargmax_from_shape t 0 x 1) as [E | (j & Hj & E)]; rewrite E in H.
  - destruct x as [x|]; [|discriminate]. inversion H; subst. cbn [length nth]. split; [lia | reflexivity].
  - destruct (nth j t None) as [w|] eqn:En; [|discriminate]. inversion H; subst.
    cbn [length]. split; [lia|]. exact En.
Qed.

(** ---------- the number of candidates still selectable: the termination measure ---------- *)
Definition alive (osc : list OV) (j : nat) : Prop := nth j osc None <> None.

Lemma alive_lt : forall osc j, alive osc j -> j < length osc.
Proof.
  intros osc j H. destruct (Nat.lt_ge_cases j (length osc)) as [L | L]; [exact L|].
  exfalso. apply H. apply nth_overflow. exact L.
Qed.

Fixpoint ocount (l : list OV) : nat :=
  match l with [] => 0 | Some _ :: t => S (ocount t) | None :: t => ocount t end.

Lemma ocount_le_length : forall l, ocount l <= length l.
Proof. induction l as [|[x|] t IH]; cbn [ocount length]; lia. Qed.

Lemma ocount_le_gen : forall l l' : list OV, length l = length l' ->
  (forall j, alive l' j -> alive l j) -> ocount l' <= ocount l.
Proof.
  induction l as [|x t IH]; intros [|x' t'] Hlen H; cbn [length] in Hlen; try discriminate;
    cbn [ocount]; [lia|].
  assert (IH' : ocount t' <= ocount t).
  { apply IH; [lia|]. intros j Hj. apply (H (S j)). exact Hj. }
  destruct x' as [x'|]; destruct x as [x|]; try lia.
  exfalso. apply (H 0); [discriminate | reflexivity].
Qed.

Lemma ocount_lt_gen : forall l l' : list OV, length l = length l' ->
  (forall j, alive l' j -> alive l j) ->
  forall i, alive l i -> ~ alive l' i -> ocount l' < ocount l.
Proof.
  induction l as [|x t IH]; intros [|x' t'] Hlen H i Hi Hni; cbn [length] in Hlen; try discriminate.
  - apply alive_lt in Hi. cbn [length] in Hi. lia.
  - assert (H' : forall j, alive t' j -> alive t j) by (intros j Hj; apply (H (S j)); exact Hj).
    destruct i as [|i].
    + pose proof (ocount_le_gen t t' ltac:(lia) H') as Hle.
      unfold alive in Hi, Hni. cbn [nth] in Hi, Hni.
      destruct x as [x|]; [|contradiction]. destruct x' as [x'|]; [exfalso; apply Hni; discriminate|].
      cbn [ocount]. lia.
    + assert (IH' : ocount t' < ocount t) by (apply (IH t' ltac:(lia) H' i); assumption).
      cbn [ocount]. destruct x' as [x'|]; destruct x as [x|]; try lia.
      exfalso. apply (H 0); [discriminate | reflexivity].
Qed.

Lemma existsb_gabove_alive : forall thr (osc : list OV),
  existsb (gabove N thr) osc = true -> exists j, alive osc j.
Proof.
  intros thr osc H. apply existsb_exists in H. destruct H as (o & Hin & Ho).
  destruct (In_nth _ _ None Hin) as (j & Hj & Ej). exists j. unfold alive. rewrite Ej.
  destruct o; [discriminate | discriminate Ho].
Qed.

Lemma alive_ocount_pos : forall (osc : list OV) j, alive osc j -> 1 <= ocount osc.
Proof.
  induction osc as [|x t IH]; intros j H.
  - apply alive_lt in H. cbn [length] in H. lia.
  - destruct j as [|j]; unfold alive in H; cbn [nth] in H.
    + destruct x; [cbn [ocount]; lia | contradiction].
    + specialize (IH j H). destruct x; cbn [ocount]; lia.
Qed.

(** ---------- the selection loop over indices ----------
    [K i j = true]: picking index [i] removes index [j]. *)
Definition okill (K : nat -> nat -> bool) (i : nat) (osc : list OV) : list OV :=
  map (fun j => if K i j then None else nth j osc None) (seq 0 (length osc)).

Fixpoint ogreedy (fuel : nat) (thr : V) (K : nat -> nat -> bool) (osc : list OV) : option (list nat) :=
  if negb (existsb (gabove N thr) osc) then Some [] else
  match fuel with
  | O => None
  | S f =>
    match oargmax N osc with
    | None => Some []
    | Some (i, _) =>
      match ogreedy f thr K (okill K i osc) with
      | Some r => Some (i :: r)
      | None => None
      end
    end
  end.

Lemma okill_length : forall K i osc, length (okill K i osc) = length osc.
Proof. intros. unfold okill. rewrite map_length, seq_length. reflexivity. Qed.

Lemma okill_nth : forall K i osc j, j < length osc ->
  nth j (okill K i osc) None = if K i j then None else nth j osc None.
Proof. intros K i osc j H. unfold okill. rewrite nth_map_seq by exact H. reflexivity. Qed.

Lemma okill_alive : forall K i osc j, alive (okill K i osc) j -> K i j = false /\ alive osc j.
Proof.
  intros K i osc j H. pose proof (alive_lt _ _ H) as Hj. rewrite okill_length in Hj.
  unfold alive in H. rewrite okill_nth in H by exact Hj.
  destruct (K i j); [contradiction H; reflexivity | split; [reflexivity | exact H]].
Qed.

Lemma okill_self : forall K i osc, K i i = true -> ~ alive (okill K i osc) i.
Proof. intros K i osc HK H. apply okill_alive in H. destruct H as [H _]. congruence. Qed.

(** inversion of one iteration *)
Lemma ogreedy_step : forall fuel thr K osc p,
  ogreedy fuel thr K osc = Some p ->
  p = [] \/
  exists f i v r, fuel = S f /\ oargmax N osc = Some (i, v) /\
    ogreedy f thr K (okill K i osc) = Some r /\ p = i :: r.
Proof.
  intros fuel thr K osc p H. destruct fuel as [|f]; cbn [ogreedy] in H;
    destruct (negb (existsb (gabove N thr) osc)); try (inversion H; left; reflexivity); try discriminate.
  destruct (oargmax N osc) as [[i v]|] eqn:A; [|inversion H; left; reflexivity].
  destruct (ogreedy f thr K (okill K i osc)) as [r|] eqn:G; [|discriminate].
  inversion H; subst p. right. exists f, i, v, r. repeat split; assumption.
Qed.

(** every pick was selectable when the loop started *)
Theorem ogreedy_supported : forall thr K p fuel osc,
  ogreedy fuel thr K osc = Some p -> forall i, In i p -> alive osc i.
Proof.
  intros thr K. induction p as [|i0 r IH]; intros fuel osc H i Hin; [contradiction|].
  apply ogreedy_step in H. destruct H as [H | (f & i1 & v & r1 & _ & Ha & Hrec & Hp)]; [discriminate|].
  inversion Hp; subst i1 r1. destruct Hin as [<- | Hin].
  - unfold alive. destruct (oargmax_nth _ _ _ Ha) as [_ E]. rewrite E. discriminate.
  - apply (okill_alive K i0 osc i). exact (IH _ _ Hrec i Hin).
Qed.

(** an earlier pick never removes a later pick *)
Theorem ogreedy_fop : forall thr K p fuel osc,
  ogreedy fuel thr K osc = Some p -> ForallOrdPairs (fun i j => K i j = false) p.
Proof.
  intros thr K. induction p as [|i0 r IH]; intros fuel osc H; [constructor|].
  apply ogreedy_step in H. destruct H as [H | (f & i1 & v & r1 & _ & Ha & Hrec & Hp)]; [discriminate|].
  inversion Hp; subst i1 r1. constructor; [|exact (IH _ _ Hrec)].
  rewrite Forall_forall. intros j Hj.
  exact (proj1 (okill_alive K i0 osc j (ogreedy_supported thr K _ _ _ Hrec j Hj))).
Qed.

(** the loop stops before the fuel does: every iteration removes at least the chosen candidate *)
Theorem ogreedy_terminates : forall thr K fuel osc,
  (forall i, alive osc i -> K i i = true) -> ocount osc <= fuel ->
  exists p, ogreedy fuel thr K osc = Some p /\ length p <= ocount osc.
Proof.
  intros thr K. induction fuel as [|f IH]; intros osc Hsk Hc; cbn [ogreedy];
    destruct (existsb (gabove N thr) osc) eqn:E; cbn [negb];
    try (exists []; split; [reflexivity | cbn [length]; lia]).
  - exfalso. destruct (existsb_gabove_alive _ _ E) as (j & Hj).
    pose proof (alive_ocount_pos _ _ Hj). lia.
  - destruct (oargmax N osc) as [[i v]|] eqn:A; [|exists []; split; [reflexivity | cbn [length]; lia]].
    assert (Hi : alive osc i).
    { unfold alive. destruct (oargmax_nth _ _ _ A) as [_ En]. rewrite En. discriminate. }
    assert (Hdec : ocount (okill K i osc) < ocount osc).
    { apply (ocount_lt_gen osc (okill K i osc)) with (i := i).
      - rewrite okill_length. reflexivity.
      - intros j Hj. exact (proj2 (okill_alive K i osc j Hj)).
      - exact Hi.
      - apply okill_self. apply Hsk. exact Hi. }
    destruct (IH (okill K i osc)) as (p & Hp & Hl).
    + intros j Hj. apply Hsk. exact (proj2 (okill_alive K i osc j Hj)).
    + lia.
    + rewrite Hp. exists (i :: p). split; [reflexivity | cbn [length]; lia].
Qed.

(** ---------- seeded binary segmentation ---------- *)
Lemma ggreedy_cpts_any_gen : forall thr ivs maxs fuel (osc : list OV),
  length ivs = length osc ->
  ggreedy_cpts_any N fuel thr ivs maxs osc =
  option_map (map (nthN maxs)) (ogreedy fuel thr (Ksbs ivs maxs) osc).
Proof.
  intros thr ivs maxs. induction fuel as [|f IH]; intros osc Hlen; cbn [ggreedy_cpts_any ogreedy];
    destruct (negb (existsb (gabove N thr) osc)); cbn [option_map map]; try reflexivity.
  destruct (oargmax N osc) as [[i v]|]; [|reflexivity].
  assert (E : map (fun sv : nat * nat * OV => if contains (fst sv) (nthN maxs i) then None else snd sv)
                  (combine ivs osc) = okill (Ksbs ivs maxs) i osc).
  { rewrite (map_combine_seq _ ivs osc (0, 0) None Hlen). reflexivity. }
  rewrite E. rewrite IH by (rewrite okill_length; exact Hlen).
  destruct (ogreedy f thr (Ksbs ivs maxs) (okill (Ksbs ivs maxs) i osc)); reflexivity.
Qed.

(** never out of fuel, for ANY threshold: it suffices that every interval contains its maximiser *)
Theorem ggreedy_cpts_any_terminates : forall thr ivs maxs (osc : list OV) fuel,
  length osc = length ivs ->
  (forall i, i < length ivs -> contains (nth i ivs (0, 0)) (nthN maxs i) = true) ->
  length ivs <= fuel ->
  exists picks, ggreedy_cpts_any N fuel thr ivs maxs osc = Some picks /\ length picks <= length ivs.
Proof.
  intros thr ivs maxs osc fuel Hlen Hin Hf.
  pose proof (ocount_le_length osc) as Hc.
  destruct (ogreedy_terminates thr (Ksbs ivs maxs) fuel osc) as (p & Hp & Hl).
  - intros i Hi. apply alive_lt in Hi. unfold Ksbs. apply Hin. lia.
  - lia.
  - exists (map (nthN maxs) p). rewrite ggreedy_cpts_any_gen by lia. rewrite Hp. cbn [option_map].
    split; [reflexivity | rewrite map_length; lia].
Qed.

Lemma ggreedy_cpts_any_idx : forall thr ivs maxs (osc : list OV) fuel picks,
  length ivs = length osc -> ggreedy_cpts_any N fuel thr ivs maxs osc = Some picks ->
  exists idx, ogreedy fuel thr (Ksbs ivs maxs) osc = Some idx /\ picks = map (nthN maxs) idx.
Proof.
  intros thr ivs maxs osc fuel picks Hlen H. rewrite ggreedy_cpts_any_gen in H by exact Hlen.
  destruct (ogreedy fuel thr (Ksbs ivs maxs) osc) as [idx|]; cbn [option_map] in H; inversion H.
  exists idx. split; reflexivity.
Qed.

(** every pick is the maximiser of a candidate interval *)
Theorem ggreedy_cpts_any_supported : forall thr ivs maxs (osc : list OV) fuel picks,
  length ivs = length osc -> ggreedy_cpts_any N fuel thr ivs maxs osc = Some picks ->
  forall c, In c picks -> exists i, i < length ivs /\ nthN maxs i = c /\ alive osc i.
Proof.
  intros thr ivs maxs osc fuel picks Hlen H c Hc.
  destruct (ggreedy_cpts_any_idx _ _ _ _ _ _ Hlen H) as (idx & Hg & ->).
  apply in_map_iff in Hc. destruct Hc as (i & Hci & Hidx).
  pose proof (ogreedy_supported _ _ _ _ _ Hg i Hidx) as Ha.
  exists i. split; [apply alive_lt in Ha; lia|]. split; assumption.
Qed.

Lemma ggreedy_cpts_any_sep : forall m thr ivs maxs (osc : list OV) fuel picks,
  length ivs = length osc ->
  (forall i, i < length ivs -> contains (nth i ivs (0, 0)) (nthN maxs i) = true) ->
  maxs_inside m ivs maxs (length ivs) ->
  ggreedy_cpts_any N fuel thr ivs maxs osc = Some picks ->
  ForallOrdPairs (sep m) picks.
Proof.
  intros m thr ivs maxs osc fuel picks Hlen Hin Hins H.
  destruct (ggreedy_cpts_any_idx _ _ _ _ _ _ Hlen H) as (idx & Hg & ->).
  apply FOP_map.
  apply FOP_impl_Forall with (R := fun i j => Ksbs ivs maxs i j = false) (P := fun i => i < length ivs).
  - exact (ogreedy_fop _ _ _ _ _ Hg).
  - rewrite Forall_forall. intros i Hidx.
    pose proof (alive_lt _ _ (ogreedy_supported _ _ _ _ _ Hg i Hidx)). lia.
  - intros i j HiN HjN HK. unfold Ksbs in HK.
    specialize (Hin j HjN). specialize (Hins j HjN).
    unfold contains in *. destruct (nth j ivs (0, 0)) as [s e]. cbn [fst snd] in *.
    apply andb_true_iff in Hin. destruct Hin as [A B].
    apply Nat.leb_le in A. apply Nat.ltb_lt in B.
    apply andb_false_iff in HK. unfold sep.
    destruct HK as [C | C]; [apply Nat.leb_gt in C | apply Nat.ltb_ge in C]; lia.
Qed.

(** what [gamocs] guarantees for candidate intervals of length >= 2m *)
Lemma gamocs_any_facts : forall CS m n ivs am,
  1 <= m -> (forall s e, In (s, e) ivs -> s + 2 * m <= e /\ e <= n) ->
  gamocs N CS m ivs = Some am ->
  length am = length ivs /\
  (forall i, i < length ivs -> contains (nth i ivs (0, 0)) (nthN (map fst am) i) = true) /\
  maxs_inside m ivs (map fst am) (length ivs) /\
  (forall i, i < length ivs -> snd (nth i ivs (0, 0)) <= n).
Proof.
  intros CS m n ivs am Hm Hivs A. destruct (gamocs_inv N CS m ivs am A) as [Hl Hn].
  assert (Hins : forall i, i < length ivs ->
            fst (nth i ivs (0, 0)) + m <= nthN (map fst am) i /\
            nthN (map fst am) i + m <= snd (nth i ivs (0, 0)) /\
            snd (nth i ivs (0, 0)) <= n).
  { intros i Hi. specialize (Hn i (0, 0) (0, zero N) Hi). unfold nthN.
    rewrite (nth_map_lt fst am i (0, zero N) 0) by lia.
    assert (Hin : In (nth i ivs (0, 0)) ivs) by (apply nth_In; exact Hi).
    destruct (nth i ivs (0, 0)) as [s e]. destruct (nth i am (0, zero N)) as [k v].
    apply gamoc_inv in Hn. apply Hivs in Hin. cbn [fst snd]. lia. }
  split; [exact Hl|]. split; [|split].
  - intros i Hi. destruct (Hins i Hi) as (A1 & A2 & A3). unfold contains.
    apply andb_true_iff. split; [apply Nat.leb_le | apply Nat.ltb_lt]; lia.
  - intros i Hi. destruct (Hins i Hi) as (A1 & A2 & A3). split; assumption.
  - intros i Hi. destruct (Hins i Hi) as (A1 & A2 & A3). exact A3.
Qed.

Lemma gsbs_any_inv : forall CS m thr ivs cpts am, gsbs_any N CS m thr ivs = Some (cpts, am) ->
  gamocs N CS m ivs = Some am /\
  exists picks, ggreedy_cpts_any N (length ivs) thr ivs (map fst am) (map Some (map snd am)) = Some picks /\
                cpts = sort_nat picks.
Proof.
  intros CS m thr ivs cpts am H. unfold gsbs_any in H.
  destruct (gamocs N CS m ivs) as [am'|]; [|discriminate].
  destruct (ggreedy_cpts_any N (length ivs) thr ivs (map fst am') (map Some (map snd am'))) as [picks|] eqn:G;
    [|discriminate].
  inversion H; subst. split; [reflexivity|]. exists picks. split; [exact G | reflexivity].
Qed.

(** [gsbs_any] is total, for ANY threshold and ANY instance *)
Theorem gsbs_any_total : forall CS m thr n ivs,
  1 <= m -> (forall s e, In (s, e) ivs -> s + 2 * m <= e /\ e <= n) ->
  exists r, gsbs_any N CS m thr ivs = Some r.
Proof.
  intros CS m thr n ivs Hm Hivs. unfold gsbs_any.
  destruct (gamocs N CS m ivs) as [am|] eqn:A.
  - destruct (gamocs_any_facts CS m n ivs am Hm Hivs A) as (Hl & Hin & _ & _).
    destruct (ggreedy_cpts_any_terminates thr ivs (map fst am) (map Some (map snd am)) (length ivs))
      as (picks & G & _); [rewrite !map_length; exact Hl | exact Hin | lia |].
    rewrite G. eauto.
  - exfalso. revert A. clear -Hm Hivs. induction ivs as [|[s e] t IH]; cbn [gamocs]; [discriminate|].
    destruct (gamoc N CS m (s, e)) as [x|] eqn:E.
    + destruct (gamocs N CS m t) as [r|]; [discriminate|]. intros _. apply IH; [|reflexivity].
      intros s' e' Hin. apply Hivs. right. exact Hin.
    + intros _. unfold gamoc in E.
      destruct (gargmax N (map (fun k => CS s k e) (seq (s + m) (e - m + 1 - (s + m))))) as [[i v]|] eqn:G;
        [discriminate|].
      apply gargmax_none in G. apply (f_equal (@length _)) in G. rewrite map_length, seq_length in G.
      cbn [length] in G. specialize (Hivs s e (or_introl eq_refl)). lia.
Qed.

(** the changepoints are well-formed, for ANY threshold and ANY instance *)
Theorem gsbs_any_wellformed : forall CS m thr n ivs cpts am,
  1 <= m -> (forall s e, In (s, e) ivs -> s + 2 * m <= e /\ e <= n) ->
  gsbs_any N CS m thr ivs = Some (cpts, am) ->
  (forall i, S i < length cpts ->
     nthN cpts i < nthN cpts (S i) /\ nthN cpts i + m <= nthN cpts (S i)) /\
  (forall c, In c cpts -> m <= c /\ c + m <= n) /\
  (forall c, In c cpts -> exists i, i < length ivs /\ fst (nth i am (0, zero N)) = c /\
                                    contains (nth i ivs (0, 0)) c = true) /\
  gamocs N CS m ivs = Some am.
Proof.
  intros CS m thr n ivs cpts am Hm Hivs H.
  destruct (gsbs_any_inv _ _ _ _ _ _ H) as (A & picks & G & ->).
  destruct (gamocs_any_facts CS m n ivs am Hm Hivs A) as (Hl & Hin & Hins & Hn).
  assert (Hlen : length ivs = length (map Some (map snd am))) by (rewrite !map_length; lia).
  pose proof (ggreedy_cpts_any_sep m _ _ _ _ _ _ Hlen Hin Hins G) as F.
  destruct (FOP_sym_In (sep m) picks F) as [ND Hall].
  { intros x y [A1 B1]. split; [congruence | lia]. }
  { intros x _ [A1 _]. congruence. }
  assert (Hsep : forall c c', In c picks -> In c' picks -> c <> c' -> c + m <= c' \/ c' + m <= c).
  { intros c c' Hc Hc' Hne. destruct (Hall c c' Hc Hc' Hne) as [_ S]. exact S. }
  pose proof (sort_nat_perm picks) as P.
  assert (Hsup : forall c, In c (sort_nat picks) ->
            exists i, i < length ivs /\ nthN (map fst am) i = c).
  { intros c Hc. assert (Hc' : In c picks) by (eapply Permutation_in; [exact P | exact Hc]).
    destruct (ggreedy_cpts_any_supported _ _ _ _ _ _ Hlen G c Hc') as (i & Hi & E & _). eauto. }
  split; [|split; [|split]].
  - intros i Hi. pose proof (sort_nat_sorted picks i Hi) as Hle.
    assert (Hne : nthN (sort_nat picks) i <> nthN (sort_nat picks) (S i)).
    { intro E. assert (ND' : NoDup (sort_nat picks))
        by (eapply Permutation_NoDup; [apply Permutation_sym; exact P | exact ND]).
      rewrite (NoDup_nth _ 0) in ND'. specialize (ND' i (S i) ltac:(lia) Hi E). lia. }
    assert (I1 : In (nthN (sort_nat picks) i) picks)
      by (eapply Permutation_in; [exact P | apply nth_In; lia]).
    assert (I2 : In (nthN (sort_nat picks) (S i)) picks)
      by (eapply Permutation_in; [exact P | apply nth_In; lia]).
    specialize (Hsep _ _ I1 I2 Hne). lia.
  - intros c Hc. destruct (Hsup c Hc) as (i & Hi & <-).
    destruct (Hins i Hi) as [A1 A2]. specialize (Hn i Hi). lia.
  - intros c Hc. destruct (Hsup c Hc) as (i & Hi & E). exists i. split; [exact Hi|]. split.
    + rewrite <- E. unfold nthN. rewrite (nth_map_lt fst am i (0, zero N) 0) by lia. reflexivity.
    + rewrite <- E. apply Hin. exact Hi.
  - exact A.
Qed.

(** ---------- circular binary segmentation ---------- *)
Lemma ggreedy_anoms_any_gen : forall thr ivs inner fuel (osc : list OV),
  length ivs = length osc ->
  ggreedy_anoms_any N fuel thr ivs inner osc =
  option_map (map (nthP inner)) (ogreedy fuel thr (Kcbs ivs inner) osc).
Proof.
  intros thr ivs inner. induction fuel as [|f IH]; intros osc Hlen; cbn [ggreedy_anoms_any ogreedy];
    destruct (negb (existsb (gabove N thr) osc)); cbn [option_map map]; try reflexivity.
  destruct (oargmax N osc) as [[i v]|]; [|reflexivity].
  assert (E : map (fun sv : nat * nat * OV => if overlaps (nth i inner (0, 0)) (fst sv) then None else snd sv)
                  (combine ivs osc) = okill (Kcbs ivs inner) i osc).
  { rewrite (map_combine_seq _ ivs osc (0, 0) None Hlen). reflexivity. }
  rewrite E. rewrite IH by (rewrite okill_length; exact Hlen).
  destruct (ogreedy f thr (Kcbs ivs inner) (okill (Kcbs ivs inner) i osc)); reflexivity.
Qed.

Lemma ggreedy_anoms_any_idx : forall thr ivs inner (osc : list OV) fuel picks,
  length ivs = length osc -> ggreedy_anoms_any N fuel thr ivs inner osc = Some picks ->
  exists idx, ogreedy fuel thr (Kcbs ivs inner) osc = Some idx /\ picks = map (nthP inner) idx.
Proof.
  intros thr ivs inner osc fuel picks Hlen H. rewrite ggreedy_anoms_any_gen in H by exact Hlen.
  destruct (ogreedy fuel thr (Kcbs ivs inner) osc) as [idx|]; cbn [option_map] in H; inversion H.
  exists idx. split; reflexivity.
Qed.

(** the standing fact of the anomaly loop: every candidate still selectable has an admissible inner
    interval (the others are removed before the loop starts) *)
Definition inner_adm (m : nat) (ivs inner : list (nat * nat)) (osc : list OV) : Prop :=
  forall i, alive osc i ->
    In (nthP inner i) (anomaly_intervals (fst (nthP ivs i)) (snd (nthP ivs i)) m).

Lemma inner_adm_bounds : forall m ivs inner osc i, inner_adm m ivs inner osc -> alive osc i ->
  fst (nthP ivs i) < fst (nthP inner i) /\ fst (nthP inner i) + m <= snd (nthP inner i) /\
  snd (nthP inner i) < snd (nthP ivs i).
Proof.
  intros m ivs inner osc i H Hi. specialize (H i Hi).
  destruct (nthP ivs i) as [s e]. destruct (nthP inner i) as [a z].
  apply anomaly_intervals_spec in H. cbn [fst snd] in *. lia.
Qed.

Theorem ggreedy_anoms_any_terminates : forall m thr ivs inner (osc : list OV) fuel,
  length osc = length ivs -> inner_adm m ivs inner osc -> length ivs <= fuel ->
  exists picks, ggreedy_anoms_any N fuel thr ivs inner osc = Some picks /\ length picks <= length ivs.
Proof.
  intros m thr ivs inner osc fuel Hlen Hadm Hf.
  pose proof (ocount_le_length osc) as Hc.
  destruct (ogreedy_terminates thr (Kcbs ivs inner) fuel osc) as (p & Hp & Hl).
  - intros i Hi. destruct (inner_adm_bounds _ _ _ _ _ Hadm Hi) as (A & B & C).
    unfold Kcbs, overlaps. fold (nthP inner i). fold (nthP ivs i).
    apply andb_true_iff. split; apply Nat.ltb_lt; lia.
  - lia.
  - exists (map (nthP inner) p). rewrite ggreedy_anoms_any_gen by lia. rewrite Hp. cbn [option_map].
    split; [reflexivity | rewrite map_length; lia].
Qed.

Theorem ggreedy_anoms_any_supported : forall thr ivs inner (osc : list OV) fuel picks,
  length ivs = length osc -> ggreedy_anoms_any N fuel thr ivs inner osc = Some picks ->
  forall ab, In ab picks -> exists i, i < length ivs /\ nthP inner i = ab /\ alive osc i.
Proof.
  intros thr ivs inner osc fuel picks Hlen H ab Hab.
  destruct (ggreedy_anoms_any_idx _ _ _ _ _ _ Hlen H) as (idx & Hg & ->).
  apply in_map_iff in Hab. destruct Hab as (i & Hci & Hidx).
  pose proof (ogreedy_supported _ _ _ _ _ Hg i Hidx) as Ha.
  exists i. split; [apply alive_lt in Ha; lia|]. split; assumption.
Qed.

Lemma ggreedy_anoms_any_fop : forall m thr ivs inner (osc : list OV) fuel picks,
  length ivs = length osc -> inner_adm m ivs inner osc ->
  ggreedy_anoms_any N fuel thr ivs inner osc = Some picks ->
  ForallOrdPairs sepd picks.
Proof.
  intros m thr ivs inner osc fuel picks Hlen Hadm H.
  destruct (ggreedy_anoms_any_idx _ _ _ _ _ _ Hlen H) as (idx & Hg & ->).
  apply FOP_map.
  apply FOP_impl_Forall with (R := fun i j => Kcbs ivs inner i j = false) (P := alive osc).
  - exact (ogreedy_fop _ _ _ _ _ Hg).
  - rewrite Forall_forall. intros i Hidx. exact (ogreedy_supported _ _ _ _ _ Hg i Hidx).
  - intros i j Hi Hj HK. unfold Kcbs in HK.
    pose proof (inner_adm_bounds _ _ _ _ _ Hadm Hi) as (A1 & A2 & A3).
    pose proof (inner_adm_bounds _ _ _ _ _ Hadm Hj) as (B1 & B2 & B3).
    unfold nthP in *. unfold overlaps in HK.
    destruct (nth i inner (0, 0)) as [a z]. destruct (nth j inner (0, 0)) as [a' z'].
    destruct (nth j ivs (0, 0)) as [s' e']. destruct (nth i ivs (0, 0)) as [s e].
    cbn [fst snd] in *. apply andb_false_iff in HK. unfold sepd, disj. cbn [fst snd].
    destruct HK as [C | C]; apply Nat.ltb_ge in C.
    + split; [intro E; inversion E; lia | lia].
    + split; [intro E; inversion E; lia | lia].
Qed.

(** the table of [gcbs_any]: the candidates that start selectable have an admissible inner interval *)
Lemma cbs_any_table_facts : forall LS m ivs,
  let am := map (ginner_or_zero N LS m) ivs in
  length (map fst am) = length ivs /\ length (map (cbs_initial N) am) = length ivs /\
  inner_adm m ivs (map fst am) (map (cbs_initial N) am).
Proof.
  intros LS m ivs am. unfold am. rewrite !map_length.
  split; [reflexivity|]. split; [reflexivity|].
  intros i Hi. pose proof (alive_lt _ _ Hi) as HiL. rewrite !map_length in HiL.
  unfold alive in Hi. unfold nthP.
  rewrite (nth_map_lt (cbs_initial N) _ i ((0, 0), zero N) None) in Hi by (rewrite map_length; exact HiL).
  rewrite (nth_map_lt fst _ i ((0, 0), zero N) (0, 0)) by (rewrite map_length; exact HiL).
  rewrite (nth_map_lt (ginner_or_zero N LS m) ivs i (0, 0)) in * by exact HiL.
  destruct (nth i ivs (0, 0)) as [s e]. unfold ginner_or_zero in *.
  destruct (gbest_inner N LS m (s, e)) as [[[a z] v]|] eqn:B; cbn [fst snd] in *.
  - apply gbest_inner_inv in B. exact (proj1 B).
  - exfalso. apply Hi. reflexivity.
Qed.

Lemma gcbs_any_inv : forall LS m thr ivs anoms am, gcbs_any N LS m thr ivs = Some (anoms, am) ->
  am = map (ginner_or_zero N LS m) ivs /\
  exists picks, ggreedy_anoms_any N (length ivs) thr ivs (map fst am) (map (cbs_initial N) am) = Some picks /\
                anoms = sort_pairs picks.
Proof.
  intros LS m thr ivs anoms am H. unfold gcbs_any in H.
  destruct (ggreedy_anoms_any N (length ivs) thr ivs _ _) as [picks|] eqn:G; [|discriminate].
  inversion H; subst. split; [reflexivity|]. exists picks. split; [exact G | reflexivity].
Qed.

(** [gcbs_any] is total: ANY threshold, ANY instance, ANY candidate intervals *)
Theorem gcbs_any_total : forall LS m thr ivs, exists r, gcbs_any N LS m thr ivs = Some r.
Proof.
  intros LS m thr ivs. unfold gcbs_any.
  destruct (cbs_any_table_facts LS m ivs) as (L1 & L2 & Hadm).
  destruct (ggreedy_anoms_any_terminates m thr ivs _ _ (length ivs) L2 Hadm (le_n _)) as (picks & G & _).
  rewrite G. eauto.
Qed.

(** the anomalies are well-formed, for ANY threshold and ANY instance *)
Theorem gcbs_any_wellformed : forall LS m thr n ivs anoms am,
  1 <= m -> (forall s e, In (s, e) ivs -> e <= n) ->
  gcbs_any N LS m thr ivs = Some (anoms, am) ->
  (forall i, S i < length anoms ->
     fst (nthP anoms i) < fst (nthP anoms (S i)) /\ snd (nthP anoms i) <= fst (nthP anoms (S i))) /\
  (forall a z, In (a, z) anoms -> 1 <= a /\ a + m <= z /\ z <= n - 1) /\
  (forall ab, In ab anoms -> exists i, i < length ivs /\ fst (nth i am ((0, 0), zero N)) = ab /\
     In ab (anomaly_intervals (fst (nthP ivs i)) (snd (nthP ivs i)) m)) /\
  am = map (ginner_or_zero N LS m) ivs.
Proof.
  intros LS m thr n ivs anoms am Hm Hivs H.
  destruct (gcbs_any_inv _ _ _ _ _ _ H) as (-> & picks & G & ->).
  set (am0 := map (ginner_or_zero N LS m) ivs) in *.
  destruct (cbs_any_table_facts LS m ivs) as (L1 & L2 & Hadm). fold am0 in L1, L2, Hadm.
  assert (Hlen : length ivs = length (map (cbs_initial N) am0)) by lia.
  pose proof (ggreedy_anoms_any_fop m _ _ _ _ _ _ Hlen Hadm G) as F.
  destruct (FOP_sym_In sepd picks F) as [ND Hall].
  { intros x y [A B]. split; [congruence | unfold disj in *; lia]. }
  { intros x _ [A _]. congruence. }
  assert (Hdis : forall p q, In p picks -> In q picks -> p <> q -> disj p q).
  { intros p q Hp Hq Hne. destruct (Hall p q Hp Hq Hne) as [_ S]. exact S. }
  pose proof (sort_pairs_perm picks) as P.
  assert (Hsup : forall p, In p picks -> exists i, i < length ivs /\ nthP (map fst am0) i = p /\
            In p (anomaly_intervals (fst (nthP ivs i)) (snd (nthP ivs i)) m) /\ snd (nthP ivs i) <= n).
  { intros p Hp. destruct (ggreedy_anoms_any_supported _ _ _ _ _ _ Hlen G p Hp) as (i & Hi & E & Ha).
    exists i. split; [exact Hi|]. split; [exact E|]. split; [rewrite <- E; apply Hadm; exact Ha|].
    assert (Hin : In (nthP ivs i) ivs) by (apply nth_In; exact Hi).
    destruct (nthP ivs i) as [s e]. apply Hivs in Hin. exact Hin. }
  assert (Hpick : forall p, In p picks -> 1 <= fst p /\ fst p + m <= snd p /\ snd p <= n - 1).
  { intros p Hp. destruct (Hsup p Hp) as (i & Hi & E & Hin & Hn).
    destruct p as [a z]. destruct (nthP ivs i) as [s e].
    apply anomaly_intervals_spec in Hin. cbn [fst snd] in *. lia. }
  split; [|split; [|split]].
  - intros i Hi. pose proof (sort_pairs_sorted picks i Hi) as Hle.
    assert (Hne : nthP (sort_pairs picks) i <> nthP (sort_pairs picks) (S i)).
    { intro E. assert (ND' : NoDup (sort_pairs picks))
        by (eapply Permutation_NoDup; [apply Permutation_sym; exact P | exact ND]).
      rewrite (NoDup_nth _ (0, 0)) in ND'. specialize (ND' i (S i) ltac:(lia) Hi E). lia. }
    assert (I1 : In (nthP (sort_pairs picks) i) picks)
      by (eapply Permutation_in; [exact P | apply nth_In; lia]).
    assert (I2 : In (nthP (sort_pairs picks) (S i)) picks)
      by (eapply Permutation_in; [exact P | apply nth_In; lia]).
    specialize (Hdis _ _ I1 I2 Hne). unfold disj in Hdis.
    pose proof (Hpick _ I1) as Q1. pose proof (Hpick _ I2) as Q2. lia.
  - intros a z Hc. assert (Hc' : In (a, z) picks) by (eapply Permutation_in; [exact P | exact Hc]).
    apply Hpick in Hc'. cbn [fst snd] in Hc'. exact Hc'.
  - intros ab Hc. assert (Hc' : In ab picks) by (eapply Permutation_in; [exact P | exact Hc]).
    destruct (Hsup ab Hc') as (i & Hi & E & Hin & _). exists i. split; [exact Hi|]. split; [|exact Hin].
    rewrite <- E. unfold nthP.
    rewrite (nth_map_lt fst am0 i ((0, 0), zero N) (0, 0)) by (unfold am0; rewrite map_length; exact Hi).
    reflexivity.
  - reflexivity.
Qed.

(** ---------- moving window ---------- *)
Definition gpick_run (scores : list V) (mdi : nat) (se : nat * nat) : list nat :=
  let '(s, e) := se in
  if mdi <=? e - s then
    match gargmax N (slice s e scores) with Some (i, _) => [s + i] | None => [] end
  else [].

Lemma gmw_cpts_unfold : forall scores thr mdi,
  gmw_cpts N scores thr mdi =
  flat_map (gpick_run scores mdi) (where_runs (map (fun v => thr <! v) scores)).
Proof. reflexivity. Qed.

Lemma gpick_run_in : forall scores mdi a z c, a < z <= length scores ->
  In c (gpick_run scores mdi (a, z)) -> a <= c < z.
Proof.
  intros scores mdi a z c Haz H. unfold gpick_run in H.
  destruct (mdi <=? z - a); [|contradiction].
  destruct (gargmax N (slice a z scores)) as [[i v]|] eqn:A; [|contradiction].
  destruct H as [<- | []]. destruct (gargmax_nth N v _ _ _ A) as [Hi _].
  rewrite slice_length in Hi by lia. lia.
Qed.

Lemma gpick_run_cases : forall scores mdi se,
  gpick_run scores mdi se = [] \/ exists c, gpick_run scores mdi se = [c].
Proof.
  intros scores mdi [s e]. unfold gpick_run.
  destruct (mdi <=? e - s); [|left; reflexivity].
  destruct (gargmax N (slice s e scores)) as [[i v]|]; [right; eauto | left; reflexivity].
Qed.

Lemma gruns_in_range : forall (scores : list V) thr a z,
  In (a, z) (where_runs (map (fun v => thr <! v) scores)) -> a < z <= length scores.
Proof.
  intros scores thr a z H. apply where_runs_spec in H. rewrite map_length in H. tauto.
Qed.

Lemma flat_gpick_sorted : forall scores mdi runs,
  StronglySorted run_lt runs ->
  (forall a z, In (a, z) runs -> a < z <= length scores) ->
  StronglySorted lt (flat_map (gpick_run scores mdi) runs).
Proof.
  intros scores mdi runs H. induction H as [|[a z] l HS IH HF]; intros Hr.
  - constructor.
  - change (flat_map (gpick_run scores mdi) ((a, z) :: l))
      with (gpick_run scores mdi (a, z) ++ flat_map (gpick_run scores mdi) l).
    assert (IH' : StronglySorted lt (flat_map (gpick_run scores mdi) l))
      by (apply IH; intros a' z' Hin; apply Hr; right; exact Hin).
    destruct (gpick_run_cases scores mdi (a, z)) as [E | (c & E)].
    + rewrite E. exact IH'.
    + assert (Hc : In c (gpick_run scores mdi (a, z))) by (rewrite E; left; reflexivity).
      apply gpick_run_in in Hc; [|apply Hr; left; reflexivity].
      rewrite E. cbn [app]. constructor; [exact IH'|].
      rewrite Forall_forall. intros c' Hc'. apply in_flat_map in Hc'.
      destruct Hc' as ([a' z'] & Hin' & Hc').
      apply gpick_run_in in Hc'; [|apply Hr; right; exact Hin'].
      rewrite Forall_forall in HF. specialize (HF _ Hin'). unfold run_lt in HF. cbn [fst snd] in HF. lia.
Qed.

(** for ANY instance (no law) and ANY threshold the changepoints are strictly increasing positions *)
Theorem gmw_cpts_sorted_any : forall scores thr mdi, StronglySorted lt (gmw_cpts N scores thr mdi).
Proof.
  intros scores thr mdi. rewrite gmw_cpts_unfold. apply flat_gpick_sorted.
  - apply where_runs_sorted.
  - intros a z. apply gruns_in_range.
Qed.

Theorem gmw_cpts_lt_length : forall scores thr mdi c,
  In c (gmw_cpts N scores thr mdi) -> c < length scores.
Proof.
  intros scores thr mdi c H. rewrite gmw_cpts_unfold in H. apply in_flat_map in H.
  destruct H as ([a z] & Hin & Hc). pose proof (gruns_in_range _ _ _ _ Hin) as Hr.
  apply (gpick_run_in _ _ _ _ _ Hr) in Hc. lia.
Qed.

Lemma StronglySorted_shift : forall b l,
  StronglySorted lt l -> StronglySorted lt (map (fun c => c + b) l).
Proof.
  intros b l H. induction H as [|x l HS IH HF]; cbn [map]; constructor; [exact IH|].
  rewrite Forall_forall in *. intros y Hy. apply in_map_iff in Hy. destruct Hy as (c & <- & Hc).
  specialize (HF c Hc). lia.
Qed.

Theorem gmw_any_scores : forall CS b n thr mdi,
  fst (gmw_any N CS b n thr mdi) = gmw_scores N CS b n.
Proof. reflexivity. Qed.

(** the changepoints lie in [b, n - b], for ANY threshold *)
Theorem gmw_any_in_range : forall CS b n thr mdi c, 2 * b <= n ->
  In c (snd (gmw_any N CS b n thr mdi)) -> b <= c /\ c + b <= n.
Proof.
  intros CS b n thr mdi c Hb H. unfold gmw_any in H. cbn [snd] in H.
  apply in_map_iff in H. destruct H as (c0 & <- & Hc0).
  apply gmw_cpts_lt_length in Hc0. unfold slice in Hc0.
  rewrite firstn_length, skipn_length, gmw_scores_length in Hc0. lia.
Qed.

Theorem gmw_any_sorted : forall CS b n thr mdi,
  StronglySorted lt (snd (gmw_any N CS b n thr mdi)).
Proof.
  intros CS b n thr mdi. unfold gmw_any. cbn [snd]. apply StronglySorted_shift, gmw_cpts_sorted_any.
Qed.

End AnyThr.

(** ====================================================================== *)
(** * Part II: agreement with Model/Generic.v for a non-negative threshold *)

(** ---------- the first maximum, for a strict weak order ---------- *)
Section FirstMax.
Variable M : num.
Variable ok : T M -> Prop.
Hypothesis Hswo : swo M ok.
Notation "x <! y" := (ltb M x y) (at level 70).

Lemma gargmax_from_max : forall (d : T M) l bi b i ri rv,
  ok b -> Forall ok l -> gargmax_from M bi b i l = (ri, rv) ->
  ok rv /\ rv <! b = false /\ (forall j, j < length l -> rv <! nth j l d = false) /\
  ((ri = bi /\ rv = b) \/
   exists j, ri = i + j /\ j < length l /\ rv = nth j l d /\ b <! rv = true /\
             forall j', j' < j -> nth j' l d <! rv = true).
Proof.
  intros d. induction l as [|x t IH]; intros bi b i ri rv Hb Hl H; cbn [gargmax_from] in H.
  - inversion H; subst ri rv. split; [exact Hb|]. split; [apply (swo_irrefl M ok Hswo); exact Hb|].
    split; [intros j Hj; cbn [length] in Hj; lia|]. left. split; reflexivity.
  - inversion Hl as [|x' t' Hx Ht]; subst x' t'.
    destruct (b <! x) eqn:E.
    + destruct (IH i x (S i) ri rv Hx Ht H) as (Hrv & Hrx & Hall & Hcase).
      assert (Hbrv : b <! rv = true).
      { destruct Hcase as [[_ ->] | (j & _ & _ & _ & Hxrv & _)]; [exact E|].
        exact (swo_trans M ok Hswo b x rv Hb Hx Hrv E Hxrv). }
      split; [exact Hrv|]. split; [exact (swo_asym M ok Hswo b rv Hb Hrv Hbrv)|]. split.
      * intros [|j] Hj; cbn [nth]; [exact Hrx|]. apply Hall. cbn [length] in Hj. lia.
      * right. destruct Hcase as [[-> ->] | (j & -> & Hj & Hn & Hxrv & Hfirst)].
        -- exists 0. cbn [length nth]. split; [lia|]. split; [lia|]. split; [reflexivity|].
           split; [exact E|]. intros j' Hj'. lia.
        -- exists (S j). cbn [length nth]. split; [lia|]. split; [lia|]. split; [exact Hn|].
           split; [exact Hbrv|]. intros [|j'] Hj'; [exact Hxrv|]. apply Hfirst. lia.
    + destruct (IH bi b (S i) ri rv Hb Ht H) as (Hrv & Hrb & Hall & Hcase).
      assert (Hrx : rv <! x = false).
      { destruct Hcase as [[_ ->] | (j & _ & _ & _ & Hbrv & _)]; [exact E|].
        destruct (rv <! x) eqn:E'; [|reflexivity].
        rewrite (swo_trans M ok Hswo b rv x Hb Hrv Hx Hbrv E') in E. discriminate. }
      split; [exact Hrv|]. split; [exact Hrb|]. split.
      * intros [|j] Hj; cbn [nth]; [exact Hrx|]. apply Hall. cbn [length] in Hj. lia.
      * destruct Hcase as [[-> ->] | (j & -> & Hj & Hn & Hbrv & Hfirst)]; [left; split; reflexivity|].
        right. exists (S j). cbn [length nth]. split; [lia|]. split; [lia|]. split; [exact Hn|].
        split; [exact Hbrv|]. intros [|j'] Hj'; [|apply Hfirst; lia].
        destruct (swo_cotrans M ok Hswo b x rv Hb Hx Hrv Hbrv) as [C | C]; [|exact C].
        rewrite C in E. discriminate.
Qed.

(** the reported position holds a maximal element and everything before it is strictly smaller *)
Theorem gargmax_first_max : forall (d : T M) l i v, Forall ok l -> gargmax M l = Some (i, v) ->
  i < length l /\ v = nth i l d /\
  (forall j, j < length l -> v <! nth j l d = false) /\
  (forall j, j < i -> nth j l d <! v = true).
Proof.
  intros d [|x t] i v Hl H; cbn [gargmax] in H; [discriminate|].
  inversion Hl as [|x' t' Hx Ht]; subst x' t'. inversion H as [H0]. clear H.
  destruct (gargmax_nth M d (x :: t) i v) as [Hi Hv]; [cbn [gargmax]; rewrite H0; reflexivity|].
  split; [exact Hi|]. split; [exact Hv|].
  destruct (gargmax_from_max d t 0 x 1 i v Hx Ht H0) as (Hrv & Hrx & Hall & Hcase). split.
  - intros [|j] Hj; cbn [nth]; [exact Hrx|]. apply Hall. cbn [length] in Hj. lia.
  - destruct Hcase as [[-> _] | (j & -> & Hj & Hn & Hxv & Hfirst)]; [intros j Hj; lia|].
    intros [|j'] Hj'; cbn [nth]; [exact Hxv|]. apply Hfirst. lia.
Qed.
End FirstMax.

(** two positions with the first-maximum property coincide (no law needed) *)
Lemma first_max_unique : forall (M : num) (d : T M) (l : list (T M)) i c,
  i < length l -> c < length l ->
  (forall j, j < length l -> ltb M (nth i l d) (nth j l d) = false) ->
  (forall j, j < i -> ltb M (nth j l d) (nth i l d) = true) ->
  (forall j, j < length l -> ltb M (nth c l d) (nth j l d) = false) ->
  (forall j, j < c -> ltb M (nth j l d) (nth c l d) = true) -> c = i.
Proof.
  intros M d l i c Hi Hc Bi Ci Bc Cc.
  destruct (Nat.lt_trichotomy c i) as [L | [E | L]]; [|exact E|]; exfalso.
  - specialize (Ci c L). specialize (Bc i Hi). congruence.
  - specialize (Cc i L). specialize (Bi c Hc). congruence.
Qed.

(** ---------- [option (T N)] as an instance: [T N] with -infinity as its zero ---------- *)
Definition Opt (N : num) : num :=
  {| T := option (T N);
     zero := None;
     add := fun a b => match a, b with Some x, Some y => Some (add N x y) | _, _ => None end;
     neg := option_map (neg N);
     ltb := oltb N;
     leb := fun a b => negb (oltb N b a) |}.

Definition ook {N : num} (ok : T N -> Prop) (o : option (T N)) : Prop :=
  match o with Some x => ok x | None => True end.

Lemma swo_Opt : forall N ok, swo N ok -> swo (Opt N) (ook ok).
Proof.
  intros N ok [H1 H2 H3]. constructor; cbn [ltb Opt T].
  - intros [x|] Hx; cbn [oltb]; [apply H1; exact Hx | reflexivity].
  - intros [x|] [y|] [z|] Hx Hy Hz; cbn [oltb ook] in *; try discriminate; try reflexivity.
    apply H2; assumption.
  - intros [x|] [y|] [z|] Hx Hy Hz; cbn [oltb ook] in *; try discriminate; try reflexivity.
    apply H3; assumption.
Qed.

Lemma oargmax_from_Opt : forall N l bi b i,
  oargmax_from N bi b i l = gargmax_from (Opt N) bi b i l.
Proof.
  intros N. induction l as [|x t IH]; intros bi b i; cbn [oargmax_from gargmax_from]; [reflexivity|].
  cbn [ltb Opt]. destruct (oltb N b x); apply IH.
Qed.

Lemma oargmax_Opt : forall N (l : list (option (T N))),
  oargmax N l = match gargmax (Opt N) l with Some (i, Some v) => Some (i, v) | _ => None end.
Proof.
  intros N [|x t]; cbn [oargmax gargmax]; [reflexivity|]. rewrite oargmax_from_Opt.
  destruct (gargmax_from (Opt N) 0 x 1 t) as [i [v|]]; reflexivity.
Qed.

Section Agree.
Variable N : num.
Notation V := (T N).
Notation OV := (option (T N)).
Notation "x <! y" := (ltb N x y) (at level 70).
Variable ok : V -> Prop.
Hypothesis Hswo : swo N ok.
Hypothesis Hok0 : ok (zero N).
Variable thr : V.
Hypothesis Hokthr : ok thr.
Hypothesis Hthr : thr <! zero N = false.

(** a score of the original loop and the corresponding score of the fixed loop: the same proper
    score, or "removed" on one side and the zero placeholder on the other *)
Definition orel1 (v : V) (o : OV) : Prop := o = Some v \/ (o = None /\ v = zero N).
Definition orel : list V -> list OV -> Prop := Forall2 orel1.

Lemma orel_length : forall sc osc, orel sc osc -> length sc = length osc.
Proof. intros sc osc H. induction H; cbn [length]; [reflexivity | lia]. Qed.

Lemma orel_nth : forall sc osc, orel sc osc -> forall j, j < length sc ->
  orel1 (nth j sc (zero N)) (nth j osc None).
Proof.
  intros sc osc H. induction H as [|v o sc osc Hv Hr IH]; intros j Hj; cbn [length] in Hj; [lia|].
  destruct j as [|j]; cbn [nth]; [exact Hv | apply IH; lia].
Qed.

Lemma orel_Some : forall sc, orel sc (map Some sc).
Proof. induction sc as [|v t IH]; cbn [map]; constructor; [left; reflexivity | exact IH]. Qed.

Lemma orel_map : forall {A} (f : A -> V) (g : A -> OV) l,
  (forall x, In x l -> orel1 (f x) (g x)) -> orel (map f l) (map g l).
Proof.
  intros A f g. induction l as [|x t IH]; intros H; cbn [map]; constructor.
  - apply H. left. reflexivity.
  - apply IH. intros y Hy. apply H. right. exact Hy.
Qed.

Lemma orel_ook : forall sc osc, orel sc osc -> Forall ok sc -> Forall (ook ok) osc.
Proof.
  intros sc osc H. induction H as [|v o sc osc Hv Hr IH]; intros Hok; [constructor|].
  inversion Hok as [|v' sc' Hv' Hsc']; subst. constructor; [|apply IH; exact Hsc'].
  destruct Hv as [-> | [-> _]]; [exact Hv' | exact I].
Qed.

(** "some score exceeds the threshold" is the same question on both sides: the zero placeholder
    does not exceed a non-negative threshold *)
Lemma orel_existsb : forall sc osc, orel sc osc ->
  existsb (gabove N thr) osc = existsb (fun v => thr <! v) sc.
Proof.
  intros sc osc H. induction H as [|v o sc osc Hv Hr IH]; cbn [existsb]; [reflexivity|].
  rewrite IH. destruct Hv as [-> | [-> ->]]; cbn [gabove]; [reflexivity|]. rewrite Hthr. reflexivity.
Qed.

(** ... and then the two argmax calls report the same position and value *)
Lemma orel_argmax : forall sc osc i v, orel sc osc -> Forall ok sc ->
  existsb (fun v => thr <! v) sc = true -> gargmax N sc = Some (i, v) ->
  oargmax N osc = Some (i, v).
Proof.
  intros sc osc i v Hrel Hok Hex A.
  destruct (gargmax_first_max N ok Hswo (zero N) sc i v Hok A) as (Hi & Hv & HB & HC).
  pose proof (orel_length _ _ Hrel) as Hlen.
  (* an element above the threshold is above zero *)
  apply existsb_exists in Hex. destruct Hex as (x & Hx & Hlt).
  destruct (In_nth _ _ (zero N) Hx) as (jx & Hjx & Ejx).
  assert (Hokx : ok x) by (rewrite Forall_forall in Hok; apply Hok; exact Hx).
  assert (H0x : zero N <! x = true).
  { destruct (swo_cotrans N ok Hswo thr (zero N) x Hokthr Hok0 Hokx Hlt) as [C | C]; [|exact C].
    rewrite C in Hthr. discriminate. }
  (* so the maximiser is a proper score on the fixed side *)
  assert (Ei : nth i osc None = Some v).
  { destruct (orel_nth _ _ Hrel i Hi) as [E | [_ E]]; [rewrite E, <- Hv; reflexivity|].
    exfalso. specialize (HB jx Hjx). rewrite Ejx, Hv, E in HB. congruence. }
  rewrite oargmax_Opt.
  destruct (gargmax (Opt N) osc) as [[i' o']|] eqn:A'.
  2:{ apply gargmax_none in A'. subst osc. cbn [length] in Hlen. lia. }
  destruct (gargmax_first_max (Opt N) (ook ok) (swo_Opt N ok Hswo) None osc i' o'
              (orel_ook _ _ Hrel Hok) A') as (Hi' & Hv' & HB' & HC').
  assert (Hio : i < length osc) by lia.
  assert (Eii : i = i').
  { apply (first_max_unique (Opt N) None osc i' i Hi' Hio).
    - intros j Hj. rewrite <- Hv'. apply HB'. exact Hj.
    - intros j Hj. rewrite <- Hv'. apply HC'. exact Hj.
    - intros j Hj. assert (Hjs : j < length sc) by (rewrite Hlen; exact Hj).
      cbn [ltb Opt T]. rewrite Ei.
      destruct (orel_nth _ _ Hrel j Hjs) as [E | [E _]]; rewrite E; cbn [oltb]; [|reflexivity].
      apply HB. exact Hjs.
    - intros j Hj. assert (Hjs : j < length sc) by lia.
      cbn [ltb Opt T]. rewrite Ei.
      destruct (orel_nth _ _ Hrel j Hjs) as [E | [E _]]; rewrite E; cbn [oltb]; [|reflexivity].
      apply HC. exact Hj. }
  subst i'. assert (Eo : o' = Some v) by (rewrite Hv'; exact Ei). rewrite Eo. reflexivity.
Qed.

(** one removal step keeps the two score vectors related *)
Lemma orel_kill : forall (k : nat * nat -> bool) ivs sc osc, orel sc osc ->
  orel (map (fun sv : (nat * nat) * V => if k (fst sv) then zero N else snd sv) (combine ivs sc))
       (map (fun sv : (nat * nat) * OV => if k (fst sv) then None else snd sv) (combine ivs osc)).
Proof.
  intros k. induction ivs as [|iv t IH]; intros sc osc H; cbn [combine map]; [constructor|].
  destruct H as [|v o sc osc Hv Hr]; cbn [map]; constructor.
  - cbn [fst snd]. destruct (k iv); [right; split; reflexivity | exact Hv].
  - apply IH. exact Hr.
Qed.

Lemma gargmax_none_existsb : forall (f : V -> bool) sc,
  gargmax N sc = None -> existsb f sc = true -> False.
Proof. intros f sc H E. apply gargmax_none in H. subst sc. discriminate. Qed.

(** ---------- the selection loops coincide, for every fuel ---------- *)
Lemma ggreedy_cpts_any_agrees : forall ivs maxs fuel sc osc, orel sc osc -> Forall ok sc ->
  ggreedy_cpts_any N fuel thr ivs maxs osc = ggreedy_cpts N fuel thr ivs maxs sc.
Proof.
  intros ivs maxs. induction fuel as [|f IH]; intros sc osc Hrel Hok;
    cbn [ggreedy_cpts_any ggreedy_cpts]; rewrite (orel_existsb _ _ Hrel);
    destruct (existsb (fun v => thr <! v) sc) eqn:E; cbn [negb]; try reflexivity.
  destruct (gargmax N sc) as [[i v]|] eqn:A.
  - rewrite (orel_argmax _ _ _ _ Hrel Hok E A).
    rewrite (IH _ _ (orel_kill (fun iv => contains iv (nthN maxs i)) ivs _ _ Hrel)
                    (kill_ok N ok Hok0 (fun iv => contains iv (nthN maxs i)) ivs sc Hok)).
    reflexivity.
  - exfalso. exact (gargmax_none_existsb _ _ A E).
Qed.

Lemma ggreedy_anoms_any_agrees : forall ivs inner fuel sc osc, orel sc osc -> Forall ok sc ->
  ggreedy_anoms_any N fuel thr ivs inner osc = ggreedy_anoms N fuel thr ivs inner sc.
Proof.
  intros ivs inner. induction fuel as [|f IH]; intros sc osc Hrel Hok;
    cbn [ggreedy_anoms_any ggreedy_anoms]; rewrite (orel_existsb _ _ Hrel);
    destruct (existsb (fun v => thr <! v) sc) eqn:E; cbn [negb]; try reflexivity.
  destruct (gargmax N sc) as [[i v]|] eqn:A.
  - rewrite (orel_argmax _ _ _ _ Hrel Hok E A).
    rewrite (IH _ _ (orel_kill (fun iv => overlaps (nth i inner (0, 0)) iv) ivs _ _ Hrel)
                    (kill_ok N ok Hok0 (fun iv => overlaps (nth i inner (0, 0)) iv) ivs sc Hok)).
    reflexivity.
  - exfalso. exact (gargmax_none_existsb _ _ A E).
Qed.

(** ---------- the detectors coincide ---------- *)
Theorem gsbs_any_agrees : forall CS m ivs, sbs_table_ok N ok CS m ivs ->
  gsbs_any N CS m thr ivs = gsbs N CS m thr ivs.
Proof.
  intros CS m ivs Htab. unfold gsbs_any, gsbs.
  destruct (gamocs N CS m ivs) as [am|] eqn:A; [|reflexivity].
  rewrite (ggreedy_cpts_any_agrees ivs (map fst am) (length ivs) (map snd am) _
             (orel_Some _) (gamocs_ok N ok CS m ivs am Htab A)).
  reflexivity.
Qed.

Lemma cbs_initial_rel : forall LS m se, 1 <= m ->
  orel1 (snd (ginner_or_zero N LS m se)) (cbs_initial N (ginner_or_zero N LS m se)).
Proof.
  intros LS m [s e] Hm. unfold ginner_or_zero.
  destruct (gbest_inner N LS m (s, e)) as [[[a z] v]|] eqn:B.
  - apply gbest_inner_inv in B. destruct B as [B _]. apply anomaly_intervals_spec in B.
    unfold cbs_initial. cbn [fst snd].
    replace (z <=? a) with false by (symmetry; apply Nat.leb_gt; lia). left. reflexivity.
  - right. split; reflexivity.
Qed.

Theorem gcbs_any_agrees : forall LS m ivs, 1 <= m -> cbs_table_ok N ok LS m ivs ->
  gcbs_any N LS m thr ivs = gcbs N LS m thr ivs.
Proof.
  intros LS m ivs Hm Htab. unfold gcbs_any, gcbs. cbv zeta.
  rewrite (ggreedy_anoms_any_agrees ivs _ (length ivs) (map snd (map (ginner_or_zero N LS m) ivs)) _).
  - reflexivity.
  - apply orel_map. intros x Hx. apply in_map_iff in Hx. destruct Hx as (se & <- & _).
    apply cbs_initial_rel. exact Hm.
  - apply (gcbs_table_ok N ok Hok0). exact Htab.
Qed.
End Agree.

(** ---------- moving window: runs never touch the zero placeholders ---------- *)
Section WherePad.
Definition shift_run (k : nat) (se : nat * nat) : nat * nat := (fst se + k, snd se + k).

Lemma where_from_shift : forall k l i cur,
  where_from (i + k) (option_map (fun s => s + k) cur) l = map (shift_run k) (where_from i cur l).
Proof.
  intros k. induction l as [|v t IH]; intros i cur.
  - destruct cur as [s|]; reflexivity.
  - destruct v; destruct cur as [s|]; cbn [where_from option_map map].
    + apply (IH (S i) (Some s)).
    + apply (IH (S i) (Some i)).
    + unfold shift_run at 1. cbn [fst snd]. f_equal. apply (IH (S i) None).
    + apply (IH (S i) None).
Qed.

Definition all_false (l : list bool) : Prop := forall x, In x l -> x = false.

Lemma where_from_false_pre : forall pre l i, all_false pre ->
  where_from i None (pre ++ l) = where_from (i + length pre) None l.
Proof.
  induction pre as [|x pre IH]; intros l i H; cbn [app length].
  - rewrite Nat.add_0_r. reflexivity.
  - rewrite (H x (or_introl eq_refl)). cbn [where_from].
    rewrite IH by (intros y Hy; apply H; right; exact Hy). f_equal. lia.
Qed.

Lemma where_from_all_false : forall l i, all_false l -> where_from i None l = [].
Proof.
  induction l as [|x l IH]; intros i H; [reflexivity|].
  rewrite (H x (or_introl eq_refl)). cbn [where_from]. apply IH. intros y Hy. apply H. right. exact Hy.
Qed.

Lemma where_from_false_suf : forall suf l i cur, all_false suf ->
  where_from i cur (l ++ suf) = where_from i cur l.
Proof.
  intros suf. induction l as [|v t IH]; intros i cur H; cbn [app].
  - destruct cur as [s|]; [|apply where_from_all_false; exact H].
    destruct suf as [|x suf]; [reflexivity|]. rewrite (H x (or_introl eq_refl)). cbn [where_from].
    rewrite where_from_all_false by (intros y Hy; apply H; right; exact Hy). reflexivity.
  - destruct v; destruct cur as [s|]; cbn [where_from]; rewrite IH by exact H; reflexivity.
Qed.

Lemma where_runs_pad : forall pre mid suf, all_false pre -> all_false suf ->
  where_runs (pre ++ mid ++ suf) = map (shift_run (length pre)) (where_runs mid).
Proof.
  intros pre mid suf Hp Hs. unfold where_runs.
  rewrite where_from_false_pre by exact Hp. rewrite where_from_false_suf by exact Hs.
  exact (where_from_shift (length pre) mid 0 None).
Qed.

Lemma skipn_add_app : forall {A} (pre X : list A) s, skipn (s + length pre) (pre ++ X) = skipn s X.
Proof.
  intros A. induction pre as [|x pre IH]; intros X s; cbn [length app].
  - rewrite Nat.add_0_r. reflexivity.
  - rewrite Nat.add_succ_r. cbn [skipn]. apply IH.
Qed.

Lemma slice_pad : forall {A} (pre mid suf : list A) s e, e <= length mid ->
  slice (s + length pre) (e + length pre) (pre ++ mid ++ suf) = slice s e mid.
Proof.
  intros A pre mid suf s e He. unfold slice.
  replace (e + length pre - (s + length pre)) with (e - s) by lia.
  rewrite skipn_add_app.
  destruct (le_lt_dec e s) as [L | L].
  - replace (e - s) with 0 by lia. reflexivity.
  - rewrite skipn_app. replace (s - length mid) with 0 by lia. cbn [skipn].
    rewrite firstn_app. rewrite skipn_length. replace (e - s - (length mid - s)) with 0 by lia.
    cbn [firstn]. apply app_nil_r.
Qed.
End WherePad.

Section AgreeMw.
Variable N : num.
Notation V := (T N).
Notation "x <! y" := (ltb N x y) (at level 70).
Variable thr : V.

Lemma gpick_run_pad : forall (pre mid suf : list V) mdi a z, z <= length mid ->
  gpick_run N (pre ++ mid ++ suf) mdi (shift_run (length pre) (a, z)) =
  map (fun c => c + length pre) (gpick_run N mid mdi (a, z)).
Proof.
  intros pre mid suf mdi a z Hz. unfold gpick_run, shift_run. cbn [fst snd].
  replace (z + length pre - (a + length pre)) with (z - a) by lia.
  rewrite slice_pad by exact Hz.
  destruct (mdi <=? z - a); [|reflexivity].
  destruct (gargmax N (slice a z mid)) as [[i v]|]; cbn [map]; [|reflexivity]. f_equal. lia.
Qed.

Lemma gmw_cpts_pad : forall (pre mid suf : list V) mdi,
  (forall v, In v pre -> thr <! v = false) -> (forall v, In v suf -> thr <! v = false) ->
  gmw_cpts N (pre ++ mid ++ suf) thr mdi =
  map (fun c => c + length pre) (gmw_cpts N mid thr mdi).
Proof.
  intros pre mid suf mdi Hp Hs. rewrite !gmw_cpts_unfold. rewrite !map_app.
  rewrite where_runs_pad.
  2:{ intros x Hx. apply in_map_iff in Hx. destruct Hx as (v & <- & Hv). apply Hp. exact Hv. }
  2:{ intros x Hx. apply in_map_iff in Hx. destruct Hx as (v & <- & Hv). apply Hs. exact Hv. }
  rewrite map_length.
  assert (Hr : forall a z, In (a, z) (where_runs (map (fun v => thr <! v) mid)) -> z <= length mid).
  { intros a z Hin. apply gruns_in_range in Hin. lia. }
  revert Hr. generalize (where_runs (map (fun v => thr <! v) mid)) as runs.
  induction runs as [|[a z] runs IH]; intros Hr; [reflexivity|].
  cbn [map flat_map]. rewrite map_app. f_equal.
  - apply gpick_run_pad. apply (Hr a z). left. reflexivity.
  - apply IH. intros a' z' Hin. apply (Hr a' z'). right. exact Hin.
Qed.

Lemma gmw_scores_split : forall CS b n, 1 <= b -> 2 * b <= n ->
  let h := fun t => if (b <=? t) && (t + b <=? n) then CS (t - b) t (t + b) else zero N in
  gmw_scores N CS b n =
  map h (seq 0 b) ++ map h (seq b (n - 2 * b + 1)) ++ map h (seq (b + (n - 2 * b + 1)) (b - 1)).
Proof.
  intros CS b n Hb Hn h. unfold gmw_scores. fold h. rewrite <- !map_app. f_equal.
  rewrite <- seq_app. pose proof (seq_app b (n - 2 * b + 1 + (b - 1)) 0) as E. cbn [Nat.add] in E.
  rewrite <- E. f_equal. lia.
Qed.

(** [gmw_any] = [gmw] as soon as zero does not exceed the threshold: no order law is needed *)
Theorem gmw_any_agrees : forall CS b n mdi, thr <! zero N = false -> 2 * b <= n ->
  gmw_any N CS b n thr mdi = gmw N CS b n thr mdi.
Proof.
  intros CS b n mdi Hthr Hn. unfold gmw_any, gmw. cbv zeta. f_equal.
  destruct (Nat.eq_dec b 0) as [-> | Hb0].
  - unfold slice. cbn [skipn]. rewrite firstn_all2 by (rewrite gmw_scores_length; lia).
    rewrite (map_ext (fun c => c + 0) (fun c => c)) by (intros c; lia). apply map_id.
  - pose proof (gmw_scores_split CS b n ltac:(lia) Hn) as E. cbv zeta in E.
    set (h := fun t => if (b <=? t) && (t + b <=? n) then CS (t - b) t (t + b) else zero N) in E.
    set (pre := map h (seq 0 b)) in E. set (mid := map h (seq b (n - 2 * b + 1))) in E.
    set (suf := map h (seq (b + (n - 2 * b + 1)) (b - 1))) in E.
    assert (Lp : length pre = b) by (unfold pre; rewrite map_length, seq_length; reflexivity).
    assert (Lm : length mid = n - 2 * b + 1) by (unfold mid; rewrite map_length, seq_length; reflexivity).
    rewrite E.
    assert (Es : slice b (n - b + 1) (pre ++ mid ++ suf) = mid).
    { replace (n - b + 1) with (length mid + length pre) by lia.
      rewrite <- Lp at 1. change (length pre) with (0 + length pre) at 1.
      rewrite slice_pad by lia. unfold slice. cbn [skipn]. rewrite Nat.sub_0_r. apply firstn_all. }
    rewrite Es. rewrite gmw_cpts_pad.
    + rewrite Lp. reflexivity.
    + intros v Hv. unfold pre in Hv. apply in_map_iff in Hv. destruct Hv as (t & <- & Ht).
      apply in_seq in Ht. unfold h.
      replace (b <=? t) with false by (symmetry; apply Nat.leb_gt; lia). exact Hthr.
    + intros v Hv. unfold suf in Hv. apply in_map_iff in Hv. destruct Hv as (t & <- & Ht).
      apply in_seq in Ht. unfold h.
      replace (t + b <=? n) with false by (symmetry; apply Nat.leb_gt; lia).
      rewrite andb_false_r. exact Hthr.
Qed.
End AgreeMw.

(** ---------- the Z instance: the fixed loops are the Z models for [0 <= thr] ---------- *)
Lemma swo_Z : swo Zn (fun _ => True).
Proof.
  constructor; cbn [ltb Zn T].
  - intros x _. apply Z.ltb_irrefl.
  - intros x y z _ _ _. rewrite !Z.ltb_lt. lia.
  - intros x y z _ _ _. rewrite !Z.ltb_ge. lia.
Qed.

Lemma thr_Z : forall thr : Z, (0 <= thr)%Z -> ltb Zn thr (zero Zn) = false.
Proof. intros thr H. cbn [ltb zero Zn]. apply Z.ltb_ge. exact H. Qed.

Theorem sbs_any_Z : forall CS m (thr : Z) ivs, (0 <= thr)%Z ->
  gsbs_any Zn CS m thr ivs = sbs CS m thr ivs.
Proof.
  intros CS m thr ivs H. rewrite <- gsbs_Z.
  apply (gsbs_any_agrees Zn (fun _ => True) swo_Z I thr I (thr_Z thr H)).
  intros s e k _ _ _. exact I.
Qed.

Theorem cbs_any_Z : forall LS m (thr : Z) ivs, (0 <= thr)%Z -> 1 <= m ->
  gcbs_any Zn LS m thr ivs = cbs LS m thr ivs.
Proof.
  intros LS m thr ivs H Hm. rewrite <- gcbs_Z.
  apply (gcbs_any_agrees Zn (fun _ => True) swo_Z I thr I (thr_Z thr H) LS m ivs Hm).
  intros s e a z _ _. exact I.
Qed.

Theorem mw_any_Z : forall CS b n (thr : Z) mdi, (0 <= thr)%Z -> 2 * b <= n ->
  gmw_any Zn CS b n thr mdi = mw CS b n thr mdi.
Proof.
  intros CS b n thr mdi H Hn. rewrite <- gmw_Z. apply gmw_any_agrees; [apply thr_Z; exact H | exact Hn].
Qed.

(** ====================================================================== *)
(** * Part III: the fixed loops are the original loops at the instance [Opt N]

    [Opt N] is [T N] with -infinity added as its zero.  At this instance "removed = zero" of
    Model/Generic.v IS "removed = -infinity", and the threshold [Some thr] is never below the zero:
    the hypothesis "non-negative threshold" of every theorem of Proofs/GenericSpec.v holds for EVERY
    threshold.  Hence the full greedy specification (supported / nothing left / monotone in the
    threshold) of the fixed detectors, for any threshold, under a strict weak order. *)
Section OptBridge.
Variable N : num.
Notation V := (T N).
Notation OV := (option (T N)).
Notation "x <! y" := (ltb N x y) (at level 70).

Lemma existsb_gabove_Opt : forall thr (osc : list OV),
  existsb (gabove N thr) osc = existsb (fun v => ltb (Opt N) (Some thr) v) osc.
Proof.
  intros thr. induction osc as [|[x|] t IH]; cbn [existsb]; [reflexivity| |]; rewrite IH; reflexivity.
Qed.

Lemma gargmax_from_Opt_some : forall (l : list OV) bi (b : OV) i,
  b <> None \/ (exists x, In x l /\ x <> None) -> snd (gargmax_from (Opt N) bi b i l) <> None.
Proof.
  induction l as [|x t IH]; intros bi b i H; cbn [gargmax_from].
  - destruct H as [H | (x & [] & _)]. exact H.
  - cbn [ltb Opt]. destruct (oltb N b x) eqn:E.
    + apply IH. left. intros ->. destruct b; discriminate.
    + apply IH. destruct H as [H | (y & [<- | Hy] & Hne)].
      * left. exact H.
      * destruct b as [b|]; [left; discriminate|]. destruct x as [x|]; [discriminate | contradiction].
      * right. exists y. split; assumption.
Qed.

Lemma gargmax_Opt_above : forall thr (osc : list OV) i,
  existsb (gabove N thr) osc = true -> gargmax (Opt N) osc = Some (i, None) -> False.
Proof.
  intros thr osc i E A. apply existsb_exists in E. destruct E as (o & Hin & Ho).
  assert (Hne : o <> None) by (intros ->; discriminate).
  destruct osc as [|x t]; [contradiction|]. cbn [gargmax] in A. inversion A as [A0].
  assert (Hs : snd (gargmax_from (Opt N) 0 x 1 t) <> None).
  { apply gargmax_from_Opt_some. destruct Hin as [<- | Hin]; [left; exact Hne|].
    right. exists o. split; assumption. }
  rewrite A0 in Hs. apply Hs. reflexivity.
Qed.

Theorem ggreedy_cpts_any_Opt : forall fuel thr ivs maxs (osc : list OV),
  ggreedy_cpts_any N fuel thr ivs maxs osc = ggreedy_cpts (Opt N) fuel (Some thr) ivs maxs osc.
Proof.
  induction fuel as [|f IH]; intros thr ivs maxs osc; cbn [ggreedy_cpts_any ggreedy_cpts];
    rewrite <- existsb_gabove_Opt; destruct (existsb (gabove N thr) osc) eqn:E; cbn [negb];
    try reflexivity.
  rewrite oargmax_Opt. destruct (gargmax (Opt N) osc) as [[i [v|]]|] eqn:A.
  - rewrite IH. reflexivity.
  - exfalso. exact (gargmax_Opt_above _ _ _ E A).
  - reflexivity.
Qed.

Theorem ggreedy_anoms_any_Opt : forall fuel thr ivs inner (osc : list OV),
  ggreedy_anoms_any N fuel thr ivs inner osc = ggreedy_anoms (Opt N) fuel (Some thr) ivs inner osc.
Proof.
  induction fuel as [|f IH]; intros thr ivs inner osc; cbn [ggreedy_anoms_any ggreedy_anoms];
    rewrite <- existsb_gabove_Opt; destruct (existsb (gabove N thr) osc) eqn:E; cbn [negb];
    try reflexivity.
  rewrite oargmax_Opt. destruct (gargmax (Opt N) osc) as [[i [v|]]|] eqn:A.
  - rewrite IH. reflexivity.
  - exfalso. exact (gargmax_Opt_above _ _ _ E A).
  - reflexivity.
Qed.

(** ---------- the per-interval tables ---------- *)
Definition lift {A} (x : A * V) : A * OV := (fst x, Some (snd x)).

Lemma gargmax_from_lift : forall (l : list V) bi b i,
  gargmax_from (Opt N) bi (Some b) i (map Some l) = lift (gargmax_from N bi b i l).
Proof.
  induction l as [|x t IH]; intros bi b i; cbn [map gargmax_from]; [reflexivity|].
  cbn [ltb Opt oltb]. destruct (b <! x); apply IH.
Qed.

Lemma gargmax_lift : forall (l : list V),
  gargmax (Opt N) (map Some l) = option_map lift (gargmax N l).
Proof.
  intros [|x t]; cbn [map gargmax option_map]; [reflexivity|]. rewrite gargmax_from_lift. reflexivity.
Qed.

Lemma gamoc_lift : forall CS m se,
  gamoc (Opt N) (fun s k e => Some (CS s k e)) m se = option_map lift (gamoc N CS m se).
Proof.
  intros CS m [s e]. unfold gamoc. rewrite <- (map_map (fun k => CS s k e) Some).
  rewrite gargmax_lift. destruct (gargmax N _) as [[i v]|]; reflexivity.
Qed.

Lemma gamocs_lift : forall CS m ivs,
  gamocs (Opt N) (fun s k e => Some (CS s k e)) m ivs = option_map (map lift) (gamocs N CS m ivs).
Proof.
  intros CS m. induction ivs as [|se t IH]; cbn [gamocs option_map map]; [reflexivity|].
  rewrite gamoc_lift, IH. destruct (gamoc N CS m se) as [x|]; cbn [option_map]; [|reflexivity].
  destruct (gamocs N CS m t) as [r|]; reflexivity.
Qed.

Lemma map_fst_lift : forall {A} (l : list (A * V)), map fst (map lift l) = map fst l.
Proof. intros A l. rewrite map_map. apply map_ext. intros [a v]. reflexivity. Qed.

Lemma map_snd_lift : forall {A} (l : list (A * V)), map snd (map lift l) = map Some (map snd l).
Proof. intros A l. rewrite !map_map. apply map_ext. intros [a v]. reflexivity. Qed.

Definition lift_run {A B} (r : A * list (B * V)) : A * list (B * OV) := (fst r, map lift (snd r)).

(** seeded binary segmentation as fixed = the original model on [T N] with -infinity *)
Theorem gsbs_any_Opt : forall CS m thr ivs,
  gsbs (Opt N) (fun s k e => Some (CS s k e)) m (Some thr) ivs =
  option_map lift_run (gsbs_any N CS m thr ivs).
Proof.
  intros CS m thr ivs. unfold gsbs, gsbs_any. rewrite gamocs_lift.
  destruct (gamocs N CS m ivs) as [am|]; cbn [option_map]; [|reflexivity].
  rewrite map_fst_lift, map_snd_lift, <- ggreedy_cpts_any_Opt.
  destruct (ggreedy_cpts_any N (length ivs) thr ivs (map fst am) (map Some (map snd am))); reflexivity.
Qed.

Lemma gbest_inner_lift : forall LS m se,
  gbest_inner (Opt N) (fun s a z e => Some (LS s a z e)) m se = option_map lift (gbest_inner N LS m se).
Proof.
  intros LS m [s e]. unfold gbest_inner.
  rewrite <- (map_map (fun ab => LS s (fst ab) (snd ab) e) Some).
  rewrite gargmax_lift. destruct (gargmax N _) as [[i v]|]; reflexivity.
Qed.

Definition lift_cbs (x : (nat * nat) * V) : (nat * nat) * OV := (fst x, cbs_initial N x).

Lemma ginner_or_zero_lift : forall LS m se, 1 <= m ->
  ginner_or_zero (Opt N) (fun s a z e => Some (LS s a z e)) m se = lift_cbs (ginner_or_zero N LS m se).
Proof.
  intros LS m [s e] Hm. unfold ginner_or_zero. rewrite gbest_inner_lift.
  destruct (gbest_inner N LS m (s, e)) as [[[a z] v]|] eqn:B; cbn [option_map]; [|reflexivity].
  apply gbest_inner_inv in B. destruct B as [B _]. apply anomaly_intervals_spec in B.
  unfold lift, lift_cbs, cbs_initial. cbn [fst snd].
  replace (z <=? a) with false by (symmetry; apply Nat.leb_gt; lia). reflexivity.
Qed.

(** circular binary segmentation as fixed = the original model on [T N] with -infinity: a candidate
    without inner interval gets the zero of the instance, which IS -infinity *)
Theorem gcbs_any_Opt : forall LS m thr ivs, 1 <= m ->
  gcbs (Opt N) (fun s a z e => Some (LS s a z e)) m (Some thr) ivs =
  option_map (fun r => (fst r, map lift_cbs (snd r))) (gcbs_any N LS m thr ivs).
Proof.
  intros LS m thr ivs Hm. unfold gcbs, gcbs_any. cbv zeta.
  rewrite (map_ext _ _ (fun se => ginner_or_zero_lift LS m se Hm)).
  rewrite <- (map_map (ginner_or_zero N LS m) lift_cbs).
  set (am := map (ginner_or_zero N LS m) ivs). cbn [T Opt].
  assert (E1 : map fst (map lift_cbs am) = map fst am)
    by (rewrite map_map; apply map_ext; intros x; reflexivity).
  assert (E2 : map snd (map lift_cbs am) = map (cbs_initial N) am)
    by (rewrite map_map; apply map_ext; intros x; reflexivity).
  rewrite E1, E2, <- ggreedy_anoms_any_Opt.
  destruct (ggreedy_anoms_any N (length ivs) thr ivs (map fst am) (map (cbs_initial N) am)); reflexivity.
Qed.
End OptBridge.

(** ---------- the greedy specification for ANY threshold (strict weak order) ---------- *)
Section AnySpec.
Variable N : num.
Notation V := (T N).
Notation "x <! y" := (ltb N x y) (at level 70).
Variable ok : V -> Prop.
Hypothesis Hswo : swo N ok.

Section SbsAny.
Variables (CS : nat -> nat -> nat -> V) (m n : nat) (thr : V) (ivs : list (nat * nat)).
Hypothesis Htab : sbs_table_ok N ok CS m ivs.
Hypothesis Hokthr : ok thr.
Hypothesis Hm : 1 <= m.
Hypothesis Hivs : forall s e, In (s, e) ivs -> s + 2 * m <= e <= n.
Variables (cpts : list nat) (am : list (nat * V)).
Hypothesis Hrun : gsbs_any N CS m thr ivs = Some (cpts, am).

Let CS' := fun s k e => Some (CS s k e).

Lemma sbs_table_lift : sbs_table_ok (Opt N) (ook ok) CS' m ivs.
Proof. intros s e k Hin H1 H2. exact (Htab s e k Hin H1 H2). Qed.

Lemma sbs_run_Opt : gsbs (Opt N) CS' m (Some thr) ivs = Some (cpts, map (lift N) am).
Proof. unfold CS'. rewrite gsbs_any_Opt, Hrun. reflexivity. Qed.

Lemma nth_lift : forall i, nth i (map (lift N) am) (0, None) = lift N (nth i am (0, zero N)) \/
                           length am <= i.
Proof.
  intros i. destruct (Nat.lt_ge_cases i (length am)) as [L | L]; [left | right; exact L].
  apply (nth_map_lt (lift N) am i (0, zero N)). exact L.
Qed.

(** every changepoint is the maximiser of an interval that contains it and scores above the threshold *)
Theorem gsbs_any_supported : forall c, In c cpts ->
  exists i, i < length ivs /\ fst (nth i am (0, zero N)) = c /\
            thr <! snd (nth i am (0, zero N)) = true /\ contains (nth i ivs (0, 0)) c = true.
Proof.
  intros c Hc.
  destruct (G07_changepoints_supported (Opt N) (ook ok) (swo_Opt N ok Hswo) I CS' m n (Some thr) ivs
              sbs_table_lift Hokthr eq_refl Hm Hivs cpts (map (lift N) am) sbs_run_Opt c Hc)
    as (i & Hi & H1 & H2 & H3).
  exists i. split; [exact Hi|]. cbn [T Opt zero] in H1, H2.
  destruct (nth_lift i) as [E | L].
  - rewrite E in H1, H2. split; [exact H1|]. split; [exact H2 | exact H3].
  - exfalso. rewrite nth_overflow in H2 by (rewrite map_length; exact L). discriminate.
Qed.

(** no interval scoring above the threshold is left without a changepoint inside it *)
Theorem gsbs_any_no_interval_left : forall i, i < length ivs ->
  thr <! snd (nth i am (0, zero N)) = true ->
  exists c, In c cpts /\ contains (nth i ivs (0, 0)) c = true.
Proof.
  intros i Hi Hs.
  apply (G07_no_interval_left (Opt N) (ook ok) (swo_Opt N ok Hswo) I CS' m n (Some thr) ivs
           sbs_table_lift Hokthr eq_refl Hm Hivs cpts (map (lift N) am) sbs_run_Opt i Hi).
  destruct (gsbs_any_inv N _ _ _ _ _ _ Hrun) as (A & _).
  destruct (gamocs_inv N _ _ _ _ A) as [Hl _].
  cbn [T Opt zero]. rewrite (nth_map_lt (lift N) am i (0, zero N)) by lia. exact Hs.
Qed.

(** raising the threshold -- from ANY threshold -- can only remove changepoints *)
Theorem gsbs_any_threshold_monotone : forall thr' cpts' am', ok thr' -> thr' <! thr = false ->
  gsbs_any N CS m thr' ivs = Some (cpts', am') -> incl cpts' cpts.
Proof.
  intros thr' cpts' am' Hok' Hle Hrun'.
  apply (G07_threshold_monotone (Opt N) (ook ok) (swo_Opt N ok Hswo) I CS' m n (Some thr) ivs
           sbs_table_lift Hokthr eq_refl Hm Hivs cpts (map (lift N) am) sbs_run_Opt
           (Some thr') cpts' (map (lift N) am') Hok' Hle).
  unfold CS'. rewrite gsbs_any_Opt, Hrun'. reflexivity.
Qed.
End SbsAny.

Section CbsAny.
Variables (LS : nat -> nat -> nat -> nat -> V) (m : nat) (thr : V) (ivs : list (nat * nat)).
Hypothesis Htab : cbs_table_ok N ok LS m ivs.
Hypothesis Hokthr : ok thr.
Hypothesis Hm : 1 <= m.
Variables (anoms : list (nat * nat)) (am : list ((nat * nat) * V)).
Hypothesis Hrun : gcbs_any N LS m thr ivs = Some (anoms, am).

Let LS' := fun s a z e => Some (LS s a z e).

Lemma cbs_table_lift : cbs_table_ok (Opt N) (ook ok) LS' m ivs.
Proof. intros s e a z Hin Haz. exact (Htab s e a z Hin Haz). Qed.

Lemma cbs_run_Opt : gcbs (Opt N) LS' m (Some thr) ivs = Some (anoms, map (lift_cbs N) am).
Proof. unfold LS'. rewrite (gcbs_any_Opt N LS m thr ivs Hm), Hrun. reflexivity. Qed.

Lemma nth_lift_cbs : forall i,
  nth i (map (lift_cbs N) am) ((0, 0), None) = lift_cbs N (nth i am ((0, 0), zero N)).
Proof. intros i. apply (map_nth (lift_cbs N) am ((0, 0), zero N) i). Qed.

(** every anomaly is the inner interval of an admissible candidate scoring above the threshold; no
    such candidate is left without an overlapping anomaly *)
Theorem gcbs_any_supported_and_complete :
  (forall ab, In ab anoms -> exists i, i < length ivs /\ fst (nth i am ((0, 0), zero N)) = ab /\
     gabove N thr (cbs_initial N (nth i am ((0, 0), zero N))) = true) /\
  (forall i, i < length ivs -> gabove N thr (cbs_initial N (nth i am ((0, 0), zero N))) = true ->
     exists ab, In ab anoms /\ overlaps ab (nthP ivs i) = true).
Proof.
  destruct (G09_anomalies_supported_and_complete (Opt N) (ook ok) (swo_Opt N ok Hswo) I LS' m (Some thr)
              ivs anoms (map (lift_cbs N) am) cbs_table_lift Hokthr eq_refl cbs_run_Opt) as [S C].
  split.
  - intros ab Hab. destruct (S ab Hab) as (i & Hi & H1 & H2). exists i. split; [exact Hi|].
    cbn [T Opt zero] in H1, H2. rewrite nth_lift_cbs in H1, H2. split; [exact H1|].
    cbn [lift_cbs snd ltb Opt] in H2. destruct (cbs_initial N (nth i am ((0, 0), zero N))); exact H2.
  - intros i Hi Hab. apply (C i Hi). cbn [T Opt zero]. rewrite nth_lift_cbs. cbn [lift_cbs snd ltb Opt].
    destruct (cbs_initial N (nth i am ((0, 0), zero N))); exact Hab.
Qed.
End CbsAny.
End AnySpec.

(** ====================================================================== *)
(** * Executable illustration at the Z instance: a NEGATIVE threshold.
    The original models run out of fuel (the real loop did not terminate) or report the zero
    placeholders; the fixed ones terminate with a well-formed result. *)
Section Illustration.
Local Open Scope Z_scope.
Let CSx (s k e : nat) : Z := if Nat.eqb k 5 then 10 else -3.
Let ivsx : list (nat * nat) := [(0, 10); (0, 4); (6, 10); (2, 8)]%nat.

Example sbs_negative_original : gsbs Zn CSx 1 (-5) ivsx = None.
Proof. vm_compute. reflexivity. Qed.
Example sbs_negative_fixed : option_map fst (gsbs_any Zn CSx 1 (-5) ivsx) = Some [1; 5; 7]%nat.
Proof. vm_compute. reflexivity. Qed.
Example sbs_nonnegative_same : gsbs_any Zn CSx 1 2 ivsx = gsbs Zn CSx 1 2 ivsx.
Proof. vm_compute. reflexivity. Qed.

Let LSx (s a z e : nat) : Z := if (Nat.eqb a 3 && Nat.eqb z 6)%bool then 10 else -3.
Let ivsy : list (nat * nat) := [(0, 10); (0, 2); (5, 10); (2, 8)]%nat.

Example cbs_negative_original : gcbs Zn LSx 2 (-1) ivsy = None.
Proof. vm_compute. reflexivity. Qed.
Example cbs_negative_fixed : option_map fst (gcbs_any Zn LSx 2 (-1) ivsy) = Some [(3, 6)]%nat.
Proof. vm_compute. reflexivity. Qed.

Let CSz (s k e : nat) : Z := if Nat.eqb k 4 then 5 else if Nat.eqb k 5 then 2 else -2.

Example mw_negative_original : snd (gmw Zn CSz 2 10 (-1) 1) = [0; 4; 9]%nat.
Proof. vm_compute. reflexivity. Qed.
Example mw_negative_fixed : snd (gmw_any Zn CSz 2 10 (-1) 1) = [4]%nat.
Proof. vm_compute. reflexivity. Qed.
End Illustration.

Print Assumptions ggreedy_cpts_any_terminates.
Print Assumptions gsbs_any_total.
Print Assumptions gsbs_any_wellformed.
Print Assumptions ggreedy_anoms_any_terminates.
Print Assumptions gcbs_any_total.
Print Assumptions gcbs_any_wellformed.
Print Assumptions gmw_any_in_range.
Print Assumptions gmw_any_sorted.
Print Assumptions gargmax_first_max.
Print Assumptions ggreedy_cpts_any_agrees.
Print Assumptions ggreedy_anoms_any_agrees.
Print Assumptions gsbs_any_agrees.
Print Assumptions gcbs_any_agrees.
Print Assumptions gmw_any_agrees.
Print Assumptions sbs_any_Z.
Print Assumptions cbs_any_Z.
Print Assumptions mw_any_Z.
Print Assumptions ggreedy_cpts_any_Opt.
Print Assumptions ggreedy_anoms_any_Opt.
Print Assumptions gsbs_any_Opt.
Print Assumptions gcbs_any_Opt.
Print Assumptions gsbs_any_supported.
Print Assumptions gsbs_any_no_interval_left.
Print Assumptions gsbs_any_threshold_monotone.
Print Assumptions gcbs_any_supported_and_complete.
