(** The link between the executable primitive-float kernel [l2_cost_F]
    (Check/FloatKernelCheck.v, compared bit for bit with the library by the harness)
    and the Flocq model [l2_cost_float53] (Proofs/FloatError.v).

    [FR x] is the real value of a primitive float (0 for infinities and NaN).
      1  [FR_add] [FR_sub] [FR_mul] [FR_div]: when the computed result is finite
         ([PrimFloat.is_finite], a boolean test on the result itself), it is the
         binary64 (FLT) rounding of the exact result; [FR_of_natF]: n < 2^53 converts exactly.
      2  [rnd_binary64_is_rnd53]: FLT rounding = FLX rounding at 0 and from 2^-1022 upwards;
         [rnd_binary64_is_rnd53_plus] / [_minus]: for sums and differences of two binary64
         numbers with NO lower bound (a subnormal-range sum is exact).
         [FR_add53] [FR_sub53] [FR_mul53] [FR_div53]: the operations in the FLX model.
      3  [l2_trace_ok]: the boolean checker.  Products and quotients are accepted when an
         operand that forces an exact zero is zero, or when the computed result is STRICTLY
         above 2^-1022 in magnitude.  (Strictness is necessary: a real just below 2^-1022
         can round to 2^-1022 in binary64 and to something else with unbounded exponents;
         likewise a computed zero does not show that the exact product is zero.)
      4  [l2_cost_F_refines]:  l2_trace_ok l s e = true ->
                               FR (l2_cost_F l s e) = l2_cost_float53 (map FR l) s e.
      5  [l2_cost_F_vs_rss], [l2_cost_F_vs_optim_R], [l2_cost_F_tolerance]: the computed
         number against the exact residual sum of squares of the data.
      6  [demo_trace_ok] and friends: the checker accepts ordinary data and rejects an
         overflowing sum and an underflowing square. *)
From Coq Require Import Reals Lra Lia List Arith ZArith Bool Floats.
From Flocq Require Import Core Plus_error BinarySingleNaN.
From Flocq Require IEEE754.PrimFloat.
From SK Require Import Gen.KernelsR Proofs.RealLib Proofs.CostKernels Proofs.FloatError Check.FloatKernelCheck.
Import ListNotations.
Module FP := Flocq.IEEE754.PrimFloat.

Local Open Scope R_scope.
Notation pfloat := PrimFloat.float (only parsing).
Local Instance prec53_gt_0 : Prec_gt_0 53 := eq_refl.

(* ------------------------------------------------------------------------- *)
(** * 1. Primitive floats as reals; one operation at a time                    *)
(* ------------------------------------------------------------------------- *)

Definition FR (x : pfloat) : R := B2R (FP.Prim2B x).
Definition finF (x : pfloat) : bool := PrimFloat.is_finite x.

Lemma finF_B x : finF x = is_finite (FP.Prim2B x).
Proof. unfold finF. apply FP.is_finite_equiv. Qed.

Lemma rnd_binary64_fexp z :
  round radix2 (fexp prec emax) (round_mode mode_NE) z = rnd_binary64 z.
Proof. reflexivity. Qed.

Lemma inf_not_finite (b : binary_float prec emax) s :
  B2SF b = binary_overflow prec emax mode_NE s -> is_finite b = true -> False.
Proof.
  intros Hb Hf. rewrite <- is_finite_SF_B2SF, Hb in Hf. discriminate Hf.
Qed.

Lemma FR_format x : generic_format radix2 (FLT_exp (-1074) 53) (FR x).
Proof. unfold FR. exact (generic_format_B2R prec emax (FP.Prim2B x)). Qed.

Theorem FR_add x y :
  finF x = true -> finF y = true -> finF (x + y) = true ->
  FR (x + y) = rnd_binary64 (FR x + FR y).
Proof.
  intros Hx Hy Hr. rewrite finF_B in Hx, Hy, Hr. unfold FR.
  rewrite FP.add_equiv in Hr |- *.
  pose proof (Bplus_correct prec emax FP.Hprec FP.Hmax mode_NE _ _ Hx Hy) as H.
  destruct (Rlt_bool _ _).
  - destruct H as [H _]. rewrite H. reflexivity.
  - destruct H as [H _]. exfalso. exact (inf_not_finite _ _ H Hr).
Qed.

Theorem FR_sub x y :
  finF x = true -> finF y = true -> finF (x - y) = true ->
  FR (x - y) = rnd_binary64 (FR x - FR y).
Proof.
  intros Hx Hy Hr. rewrite finF_B in Hx, Hy, Hr. unfold FR.
  rewrite FP.sub_equiv in Hr |- *.
  pose proof (Bminus_correct prec emax FP.Hprec FP.Hmax mode_NE _ _ Hx Hy) as H.
  destruct (Rlt_bool _ _).
  - destruct H as [H _]. rewrite H. reflexivity.
  - destruct H as [H _]. exfalso. exact (inf_not_finite _ _ H Hr).
Qed.

Theorem FR_mul x y :
  finF (x * y) = true ->
  FR (x * y) = rnd_binary64 (FR x * FR y).
Proof.
  intros Hr. rewrite finF_B in Hr. unfold FR.
  rewrite FP.mul_equiv in Hr |- *.
  pose proof (Bmult_correct prec emax FP.Hprec FP.Hmax mode_NE (FP.Prim2B x) (FP.Prim2B y)) as H.
  destruct (Rlt_bool _ _).
  - destruct H as [H _]. rewrite H. reflexivity.
  - exfalso. exact (inf_not_finite _ _ H Hr).
Qed.

Theorem FR_div x y :
  FR y <> 0 -> finF (x / y) = true ->
  FR (x / y) = rnd_binary64 (FR x / FR y).
Proof.
  intros Hy Hr. rewrite finF_B in Hr. unfold FR in *.
  rewrite FP.div_equiv in Hr |- *.
  pose proof (Bdiv_correct prec emax FP.Hprec FP.Hmax mode_NE (FP.Prim2B x) (FP.Prim2B y) Hy) as H.
  destruct (Rlt_bool _ _).
  - destruct H as [H _]. rewrite H. reflexivity.
  - exfalso. exact (inf_not_finite _ _ H Hr).
Qed.

(** conversion of a small natural number: exact *)
Lemma IZR_small_format z :
  (Z.abs z < 2 ^ 53)%Z -> generic_format radix2 (FLT_exp (-1074) 53) (IZR z).
Proof.
  intros Hz. apply generic_format_FLT.
  apply (FLT_spec radix2 (-1074) 53 (IZR z) (Float radix2 z 0)).
  - unfold F2R. cbn [Fnum Fexp bpow]. ring.
  - cbn [Fnum]. exact Hz.
  - cbn [Fexp]. lia.
Qed.

Lemma of_natF_B n :
  (Z.of_nat n < 2 ^ 53)%Z ->
  B2R (FP.Prim2B (of_natF n)) = INR n /\ is_finite (FP.Prim2B (of_natF n)) = true.
Proof.
  intros Hn. unfold of_natF. rewrite FP.of_int63_equiv.
  assert (Hz : Uint63.to_Z (Uint63.of_Z (Z.of_nat n)) = Z.of_nat n).
  { rewrite Uint63.of_Z_spec. apply Z.mod_small. split; [lia|].
    apply Z.lt_trans with (1 := Hn). reflexivity. }
  rewrite Hz.
  pose proof (binary_normalize_correct prec emax FP.Hprec FP.Hmax mode_NE (Z.of_nat n) 0 false) as H.
  cbv zeta in H.
  assert (HF : F2R (Float radix2 (Z.of_nat n) 0) = IZR (Z.of_nat n)).
  { unfold F2R. cbn [Fnum Fexp bpow]. ring. }
  rewrite HF in H.
  assert (Hfmt : generic_format radix2 (fexp prec emax) (IZR (Z.of_nat n))).
  { apply IZR_small_format. lia. }
  rewrite (round_generic radix2 (fexp prec emax) (round_mode mode_NE) _ Hfmt) in H.
  rewrite Rlt_bool_true in H.
  - destruct H as [H1 [H2 _]]. split; [|exact H2]. rewrite H1. symmetry. apply INR_IZR_INZ.
  - rewrite <- abs_IZR. change (bpow radix2 emax) with (IZR (2 ^ 1024)).
    apply IZR_lt. apply Z.lt_trans with (2 ^ 53)%Z; [lia|reflexivity].
Qed.

Theorem FR_of_natF n : (Z.of_nat n < 2 ^ 53)%Z -> FR (of_natF n) = INR n.
Proof. intros Hn. exact (proj1 (of_natF_B n Hn)). Qed.

Theorem finF_of_natF n : (Z.of_nat n < 2 ^ 53)%Z -> finF (of_natF n) = true.
Proof. intros Hn. rewrite finF_B. exact (proj2 (of_natF_B n Hn)). Qed.

(* ------------------------------------------------------------------------- *)
(** * 2. From binary64 rounding (FLT) to the unbounded-exponent model (FLX)   *)
(* ------------------------------------------------------------------------- *)

Theorem rnd_binary64_is_rnd53 z :
  z = 0 \/ bpow radix2 (-1022) <= Rabs z -> rnd_binary64 z = rnd53 z.
Proof.
  intros [Hz|Hz].
  - subst z. exact rnd53_is_binary64_zero.
  - apply rnd53_is_binary64_normal. exact Hz.
Qed.

(** a sum of two binary64 numbers: no lower bound is needed, a sum in the
    subnormal range is exact *)
Theorem rnd_binary64_is_rnd53_plus x y :
  generic_format radix2 (FLT_exp (-1074) 53) x ->
  generic_format radix2 (FLT_exp (-1074) 53) y ->
  rnd_binary64 (x + y) = rnd53 (x + y).
Proof.
  intros Hx Hy.
  destruct (Rle_lt_dec (bpow radix2 (-1022)) (Rabs (x + y))) as [Hbig|Hsmall].
  - apply rnd53_is_binary64_normal. exact Hbig.
  - assert (Hfmt : generic_format radix2 (FLT_exp (-1074) 53) (x + y)).
    { apply FLT_format_plus_small; [reflexivity|exact Hx|exact Hy|].
      apply Rle_trans with (bpow radix2 (-1022)); [lra|].
      apply bpow_le. lia. }
    unfold rnd_binary64, rnd53.
    rewrite (round_generic radix2 (FLT_exp (-1074) 53) ZnearestE _ Hfmt).
    rewrite (round_generic radix2 (FLX_exp 53) ZnearestE _ (generic_format_FLX_FLT _ _ _ _ Hfmt)).
    reflexivity.
Qed.

Theorem rnd_binary64_is_rnd53_minus x y :
  generic_format radix2 (FLT_exp (-1074) 53) x ->
  generic_format radix2 (FLT_exp (-1074) 53) y ->
  rnd_binary64 (x - y) = rnd53 (x - y).
Proof.
  intros Hx Hy. unfold Rminus. apply rnd_binary64_is_rnd53_plus; [exact Hx|].
  apply generic_format_opp. exact Hy.
Qed.

(** a rounded value strictly above 2^-1022 in magnitude comes from a real of
    magnitude at least 2^-1022 *)
Lemma rnd_binary64_big z :
  bpow radix2 (-1022) < Rabs (rnd_binary64 z) -> bpow radix2 (-1022) <= Rabs z.
Proof.
  intros Hr. destruct (Rle_lt_dec (bpow radix2 (-1022)) (Rabs z)) as [H|H]; [exact H|].
  exfalso.
  assert (Hfmt : generic_format radix2 (FLT_exp (-1074) 53) (bpow radix2 (-1022))).
  { apply generic_format_bpow. unfold FLT_exp. lia. }
  pose proof (abs_round_le_generic radix2 (FLT_exp (-1074) 53) ZnearestE z _ Hfmt (Rlt_le _ _ H)) as Hle.
  unfold rnd_binary64 in Hr. lra.
Qed.

(** the FLX-model forms of the four operations *)
Theorem FR_add53 x y :
  finF x = true -> finF y = true -> finF (x + y) = true ->
  FR (x + y) = rnd53 (FR x + FR y).
Proof.
  intros Hx Hy Hr. rewrite (FR_add x y Hx Hy Hr).
  apply rnd_binary64_is_rnd53_plus; apply FR_format.
Qed.

Theorem FR_sub53 x y :
  finF x = true -> finF y = true -> finF (x - y) = true ->
  FR (x - y) = rnd53 (FR x - FR y).
Proof.
  intros Hx Hy Hr. rewrite (FR_sub x y Hx Hy Hr).
  apply rnd_binary64_is_rnd53_minus; apply FR_format.
Qed.

(* ------------------------------------------------------------------------- *)
(** * 3. Boolean tests on computed values                                      *)
(* ------------------------------------------------------------------------- *)

(** the smallest positive normal number 2^-1022 *)
Definition tinyF : pfloat := 0x1p-1022%float.

Lemma FR_tinyF : FR tinyF = bpow radix2 (-1022).
Proof.
  unfold FR, FP.Prim2B. rewrite B2R_SF2B.
  replace (Prim2SF tinyF) with (S754_finite false 4503599627370496 (-1074)) by (vm_compute; reflexivity).
  unfold SF2R, F2R. cbn [cond_Zopp Fnum Fexp].
  change (IZR (Z.pos 4503599627370496)) with (bpow radix2 52).
  rewrite <- bpow_plus. reflexivity.
Qed.

Lemma finF_tinyF : finF tinyF = true.
Proof. vm_compute. reflexivity. Qed.

Lemma is_zero_FR x : is_zero x = true -> FR x = 0.
Proof.
  intros H. rewrite FP.is_zero_equiv in H. unfold FR.
  destruct (FP.Prim2B x); try discriminate H. reflexivity.
Qed.

(** magnitude strictly above 2^-1022 *)
Definition bigF (r : pfloat) : bool := PrimFloat.ltb tinyF (abs r).

Lemma bigF_FR r : finF r = true -> bigF r = true -> bpow radix2 (-1022) < Rabs (FR r).
Proof.
  intros Hf Hb. unfold bigF in Hb. rewrite FP.ltb_equiv in Hb.
  rewrite finF_B in Hf.
  rewrite Bltb_correct in Hb.
  - rewrite FP.abs_equiv, B2R_Babs in Hb. fold (FR tinyF) in Hb. rewrite FR_tinyF in Hb.
    destruct (Rlt_bool_spec (bpow radix2 (-1022)) (Rabs (B2R (FP.Prim2B r)))) as [Hlt|Hge];
      [exact Hlt|discriminate Hb].
  - rewrite <- finF_B. exact finF_tinyF.
  - rewrite FP.abs_equiv, is_finite_Babs. exact Hf.
Qed.

(** test of a product [r = x * y]: finite, and a factor is zero or the result is
    strictly above 2^-1022 in magnitude *)
Definition okP (x y r : pfloat) : bool :=
  finF r && (is_zero x || is_zero y || bigF r).
(** test of a quotient [r = x / y] *)
Definition okD (x r : pfloat) : bool :=
  finF r && (is_zero x || bigF r).

Theorem FR_mul53 x y :
  okP x y (x * y) = true -> FR (x * y) = rnd53 (FR x * FR y).
Proof.
  intros H. unfold okP in H. apply andb_true_iff in H. destruct H as [Hf Hc].
  rewrite (FR_mul x y Hf). apply rnd_binary64_is_rnd53.
  apply orb_true_iff in Hc. destruct Hc as [Hc|Hb].
  - left. apply orb_true_iff in Hc. destruct Hc as [Hz|Hz];
      rewrite (is_zero_FR _ Hz); ring.
  - right. apply rnd_binary64_big. rewrite <- (FR_mul x y Hf).
    exact (bigF_FR _ Hf Hb).
Qed.

Theorem FR_div53 x y :
  FR y <> 0 -> okD x (x / y) = true -> FR (x / y) = rnd53 (FR x / FR y).
Proof.
  intros Hy H. unfold okD in H. apply andb_true_iff in H. destruct H as [Hf Hc].
  rewrite (FR_div x y Hy Hf). apply rnd_binary64_is_rnd53.
  apply orb_true_iff in Hc. destruct Hc as [Hz|Hb].
  - left. rewrite (is_zero_FR _ Hz). unfold Rdiv. ring.
  - right. apply rnd_binary64_big. rewrite <- (FR_div x y Hy Hf).
    exact (bigF_FR _ Hf Hb).
Qed.

(* ------------------------------------------------------------------------- *)
(** * 4. Sequential accumulation                                               *)
(* ------------------------------------------------------------------------- *)

Definition faccF (a : pfloat) (l : list pfloat) : pfloat :=
  fold_left (fun acc y => (acc + y)%float) l a.

(** every partial sum of the accumulation is finite *)
Fixpoint acc_ok (a : pfloat) (l : list pfloat) : bool :=
  match l with
  | [] => true
  | y :: t => finF (a + y) && acc_ok (a + y) t
  end.

Lemma fsumF_faccF l : fsumF l = faccF 0%float l.
Proof. reflexivity. Qed.

Lemma faccF_refines l : forall a,
  finF a = true -> forallb finF l = true -> acc_ok a l = true ->
  finF (faccF a l) = true /\ FR (faccF a l) = facc rnd53 (FR a) (map FR l).
Proof.
  induction l as [|y t IH]; intros a Ha Hl Hok.
  - split; [exact Ha|reflexivity].
  - cbn [forallb] in Hl. apply andb_true_iff in Hl. destruct Hl as [Hy Ht].
    cbn [acc_ok] in Hok. apply andb_true_iff in Hok. destruct Hok as [Hay Hok].
    destruct (IH (a + y)%float Hay Ht Hok) as [IH1 IH2].
    unfold faccF, facc in *. cbn [fold_left map].
    split; [exact IH1|]. rewrite IH2. rewrite (FR_add53 a y Ha Hy Hay). reflexivity.
Qed.

Lemma acc_ok_app l1 : forall a l2, acc_ok a (l1 ++ l2) = true -> acc_ok a l1 = true.
Proof.
  induction l1 as [|y t IH]; intros a l2 H; [reflexivity|].
  cbn [app acc_ok] in H |- *. apply andb_true_iff in H. destruct H as [H1 H2].
  rewrite H1. cbn [andb]. exact (IH _ _ H2).
Qed.

Lemma FR_zero : FR 0%float = 0.
Proof. apply is_zero_FR. vm_compute. reflexivity. Qed.

Lemma finF_zero : finF 0%float = true.
Proof. vm_compute. reflexivity. Qed.

Lemma firstn_split_le {A} (l : list A) i e :
  (i <= e)%nat -> firstn e l = firstn i l ++ skipn i (firstn e l).
Proof.
  intros Hie. rewrite <- (firstn_skipn i (firstn e l)) at 1.
  rewrite firstn_firstn. replace (Nat.min i e) with i by lia. reflexivity.
Qed.

(** one pass over the prefix of length [e] covers every shorter prefix *)
Lemma prefixF_refines l e i :
  (i <= e)%nat -> forallb finF (firstn e l) = true -> acc_ok 0%float (firstn e l) = true ->
  finF (prefixF l i) = true /\ FR (prefixF l i) = fprefix53 (map FR l) i.
Proof.
  intros Hie Hfin Hok. rewrite (firstn_split_le l i e Hie) in Hfin, Hok.
  rewrite forallb_app in Hfin. apply andb_true_iff in Hfin. destruct Hfin as [Hfin _].
  apply acc_ok_app in Hok.
  destruct (faccF_refines (firstn i l) 0%float finF_zero Hfin Hok) as [H1 H2].
  unfold prefixF. rewrite fsumF_faccF. split; [exact H1|].
  rewrite H2, FR_zero. unfold fprefix53, fprefix, fsum. rewrite firstn_map. reflexivity.
Qed.

(** the squares *)
Definition sqF (l : list pfloat) : list pfloat := map (fun x => (x * x)%float) l.
Definition sq_ok (x : pfloat) : bool := okP x x (x * x).

Lemma sqF_refines L :
  forallb sq_ok L = true ->
  forallb finF (sqF L) = true /\ map FR (sqF L) = fsq rnd53 (map FR L).
Proof.
  induction L as [|x t IH]; intros H; [split; reflexivity|].
  cbn [forallb] in H. apply andb_true_iff in H. destruct H as [Hx Ht].
  destruct (IH Ht) as [IH1 IH2]. unfold sqF, fsq in *. cbn [map forallb]. split.
  - rewrite IH1, andb_true_r. unfold sq_ok, okP in Hx.
    apply andb_true_iff in Hx. exact (proj1 Hx).
  - rewrite IH2. rewrite (FR_mul53 x x Hx). reflexivity.
Qed.

Lemma prefixF_sq_refines l e i :
  (i <= e)%nat -> forallb sq_ok (firstn e l) = true ->
  acc_ok 0%float (firstn e (sqF l)) = true ->
  finF (prefixF (sqF l) i) = true /\
  FR (prefixF (sqF l) i) = fprefix53 (fsq rnd53 (map FR l)) i.
Proof.
  intros Hie Hsq Hok.
  assert (Hfe : firstn e (sqF l) = sqF (firstn e l)) by (unfold sqF; apply firstn_map).
  destruct (sqF_refines _ Hsq) as [Hfin _]. rewrite <- Hfe in Hfin.
  destruct (prefixF_refines (sqF l) e i Hie Hfin Hok) as [H1 H2].
  split; [exact H1|]. rewrite H2.
  unfold fprefix53, fprefix. f_equal.
  assert (Hfi : firstn i (sqF l) = sqF (firstn i l)) by (unfold sqF; apply firstn_map).
  rewrite firstn_map, Hfi.
  unfold fsq at 1. rewrite firstn_map. fold (fsq rnd53 (firstn i (map FR l))).
  rewrite firstn_map.
  rewrite (firstn_split_le l i e Hie), forallb_app in Hsq.
  apply andb_true_iff in Hsq. destruct Hsq as [Hsq _].
  exact (proj2 (sqF_refines _ Hsq)).
Qed.

(* ------------------------------------------------------------------------- *)
(** * 5. The checker and the refinement theorem                                *)
(* ------------------------------------------------------------------------- *)

(** [l2_trace_ok l s e] re-runs the computation of [l2_cost_F l s e] and tests
    every intermediate value:
      - s < e <= length l and e - s <= 2^30;
      - the inputs x_0 .. x_{e-1} are finite;
      - every square x_i * x_i (i < e) is finite, and x_i is zero or the square
        is above 2^-1022 in magnitude;
      - every partial sum of both accumulations up to e is finite;
      - the differences a = S1[e] - S1[s], b = S2[e] - S2[s] are finite;
      - a * a is finite and (a is zero or |a * a| > 2^-1022);
      - q = (a * a) / n is finite and (a * a is zero or |q| > 2^-1022);
      - the result b - q is finite. *)
Definition l2_trace_ok (l : list pfloat) (s e : nat) : bool :=
  let a := (prefixF l e - prefixF l s)%float in
  let b := (prefixF (sqF l) e - prefixF (sqF l) s)%float in
  let p := (a * a)%float in
  let q := (p / of_natF (e - s))%float in
  (s <? e)%nat && (e <=? length l)%nat && (Z.of_nat (e - s) <=? 2 ^ 30)%Z
  && forallb finF (firstn e l)
  && forallb sq_ok (firstn e l)
  && acc_ok 0%float (firstn e l)
  && acc_ok 0%float (firstn e (sqF l))
  && finF a && finF b && okP a a p && okD p q && finF (b - q).

Record l2_trace_spec (l : list pfloat) (s e : nat) : Prop := {
  ts_lt : (s < e)%nat;
  ts_len : (e <= length l)%nat;
  ts_n : (Z.of_nat (e - s) <= 2 ^ 30)%Z;
  ts_fin : forallb finF (firstn e l) = true;
  ts_sq : forallb sq_ok (firstn e l) = true;
  ts_acc1 : acc_ok 0%float (firstn e l) = true;
  ts_acc2 : acc_ok 0%float (firstn e (sqF l)) = true;
  ts_a : finF (prefixF l e - prefixF l s) = true;
  ts_b : finF (prefixF (sqF l) e - prefixF (sqF l) s) = true;
  ts_p : let a := (prefixF l e - prefixF l s)%float in okP a a (a * a) = true;
  ts_q : let a := (prefixF l e - prefixF l s)%float in
         okD (a * a) ((a * a) / of_natF (e - s)) = true;
  ts_r : let a := (prefixF l e - prefixF l s)%float in
         let b := (prefixF (sqF l) e - prefixF (sqF l) s)%float in
         finF (b - (a * a) / of_natF (e - s)) = true
}.

Lemma l2_trace_ok_spec l s e : l2_trace_ok l s e = true -> l2_trace_spec l s e.
Proof.
  unfold l2_trace_ok. cbv zeta. intros H.
  repeat (apply andb_true_iff in H; let H' := fresh "H" in destruct H as [H H']).
  constructor; cbv zeta; try assumption.
  - apply Nat.ltb_lt. assumption.
  - apply Nat.leb_le. assumption.
  - apply Z.leb_le. assumption.
Qed.

Theorem l2_cost_F_refines l s e :
  l2_trace_ok l s e = true ->
  FR (l2_cost_F l s e) = l2_cost_float53 (map FR l) s e.
Proof.
  intros Hok. apply l2_trace_ok_spec in Hok.
  destruct Hok as [Hlt Hlen Hn Hfin Hsq Hacc1 Hacc2 Ha Hb Hp Hq Hr].
  cbv zeta in Hp, Hq, Hr.
  assert (Hse : (s <= e)%nat) by lia.
  destruct (prefixF_refines l e e (le_n e) Hfin Hacc1) as [F1e R1e].
  destruct (prefixF_refines l e s Hse Hfin Hacc1) as [F1s R1s].
  destruct (prefixF_sq_refines l e e (le_n e) Hsq Hacc2) as [F2e R2e].
  destruct (prefixF_sq_refines l e s Hse Hsq Hacc2) as [F2s R2s].
  assert (Hn53 : (Z.of_nat (e - s) < 2 ^ 53)%Z).
  { apply Z.le_lt_trans with (1 := Hn). reflexivity. }
  assert (Hnz : FR (of_natF (e - s)) <> 0).
  { rewrite (FR_of_natF _ Hn53). apply not_0_INR. lia. }
  unfold l2_cost_F. cbv zeta. fold (sqF l).
  set (a := (prefixF l e - prefixF l s)%float) in *.
  set (b := (prefixF (sqF l) e - prefixF (sqF l) s)%float) in *.
  set (p := (a * a)%float) in *.
  set (q := (p / of_natF (e - s))%float) in *.
  assert (Fq : finF q = true).
  { unfold okD in Hq. apply andb_true_iff in Hq. exact (proj1 Hq). }
  assert (Ra : FR a = rnd53 (fprefix53 (map FR l) e - fprefix53 (map FR l) s)).
  { unfold a. rewrite (FR_sub53 _ _ F1e F1s Ha), R1e, R1s. reflexivity. }
  assert (Rb : FR b = rnd53 (fprefix53 (fsq rnd53 (map FR l)) e - fprefix53 (fsq rnd53 (map FR l)) s)).
  { unfold b. rewrite (FR_sub53 _ _ F2e F2s Hb), R2e, R2s. reflexivity. }
  assert (Rp : FR p = rnd53 (FR a * FR a)).
  { unfold p. exact (FR_mul53 a a Hp). }
  assert (Rq : FR q = rnd53 (FR p / INR (e - s))).
  { unfold q. rewrite (FR_div53 p _ Hnz Hq), (FR_of_natF _ Hn53). reflexivity. }
  rewrite (FR_sub53 b q Hb Fq Hr), Rq, Rp, Rb, Ra.
  reflexivity.
Qed.

(* ------------------------------------------------------------------------- *)
(** * 6. The computed number against the exact residual sum of squares        *)
(* ------------------------------------------------------------------------- *)

Lemma l2_trace_ok_bounds l s e :
  l2_trace_ok l s e = true -> (s < e <= length l)%nat.
Proof.
  intros Hok. apply l2_trace_ok_spec in Hok. destruct Hok. lia.
Qed.

Theorem l2_cost_F_vs_rss l s e :
  l2_trace_ok l s e = true -> INR e * u53 <= 1 / 100 ->
  Rabs (FR (l2_cost_F l s e) - rss (slice s e (map FR l)))
    <= (42 / 10 * INR e + 6) * u53 * l2_scale (map FR l) s e.
Proof.
  intros Hok Hsmall. rewrite (l2_cost_F_refines l s e Hok).
  apply l2_cost_float53_vs_rss; [|exact Hsmall].
  rewrite map_length. exact (l2_trace_ok_bounds l s e Hok).
Qed.

(** the same against the real-number kernel on exact prefix sums *)
Theorem l2_cost_F_vs_optim_R l s e :
  l2_trace_ok l s e = true -> INR e * u53 <= 1 / 100 ->
  Rabs (FR (l2_cost_F l s e)
        - l2_cost_optim_R (prefix (map FR l)) (prefix (sq (map FR l))) s e)
    <= (42 / 10 * INR e + 6) * u53 * l2_scale (map FR l) s e.
Proof.
  intros Hok Hsmall. rewrite (l2_cost_F_refines l s e Hok).
  apply l2_cost_float53_error; [|exact Hsmall].
  exact (proj1 (l2_trace_ok_bounds l s e Hok)).
Qed.

(** the tests' tolerance shape: at most two million samples in the prefix *)
Corollary l2_cost_F_tolerance l s e :
  l2_trace_ok l s e = true -> INR e <= 2000000 ->
  Rabs (FR (l2_cost_F l s e) - rss (slice s e (map FR l)))
    <= 1 / 1000000000 * l2_scale (map FR l) s e.
Proof.
  intros Hok He. rewrite (l2_cost_F_refines l s e Hok).
  pose proof (l2_trace_ok_bounds l s e Hok) as Hb.
  rewrite <- (l2_optim_is_rss (map FR l) s e) by (rewrite map_length; exact Hb).
  apply l2_cost_float53_tolerance; [exact (proj1 Hb)|exact He].
Qed.

(* ------------------------------------------------------------------------- *)
(** * 7. Non-vacuity                                                           *)
(* ------------------------------------------------------------------------- *)

Definition demo_xs : list pfloat :=
  [1.5; 2.25; -0.75; 3; 10.125; 9.5; 11; 10.25]%float.

Example demo_trace_ok : l2_trace_ok demo_xs 1 7 = true.
Proof. vm_compute. reflexivity. Qed.

(** a zero input and a zero segment sum are accepted (the zero clauses of the tests) *)
Example demo_trace_ok_zero : l2_trace_ok [0; 1; -1; 0.5]%float 0 3 = true.
Proof. vm_compute. reflexivity. Qed.

(** the checker rejects an overflowing accumulation and an underflowing square *)
Example demo_trace_overflow : l2_trace_ok [0x1p1023; 0x1p1023; 1]%float 0 3 = false.
Proof. vm_compute. reflexivity. Qed.

Example demo_trace_underflow : l2_trace_ok [0x1p-600; 1; 2]%float 0 3 = false.
Proof. vm_compute. reflexivity. Qed.

Example demo_refines :
  FR (l2_cost_F demo_xs 1 7) = l2_cost_float53 (map FR demo_xs) 1 7.
Proof. apply l2_cost_F_refines. exact demo_trace_ok. Qed.

Example demo_value : l2_cost_F demo_xs 1 7 = 122.76302083333334%float.
Proof. vm_compute. reflexivity. Qed.

Print Assumptions FR_add.
Print Assumptions FR_sub.
Print Assumptions FR_mul.
Print Assumptions FR_div.
Print Assumptions FR_of_natF.
Print Assumptions rnd_binary64_is_rnd53.
Print Assumptions rnd_binary64_is_rnd53_plus.
Print Assumptions l2_cost_F_refines.
Print Assumptions l2_cost_F_vs_rss.
Print Assumptions demo_trace_ok.
