(** Restricted extensionality: the detector models depend on the score functions only
    through their values at VALID cuts.

    The implementation obtains every score by calling [scorer.evaluate(cuts)], which raises
    when a cut is not increasing with the scorer's minimum spacing or leaves [0, n]
    (Model/Cuts.v, [row_ok]).  A Gallina function cannot observe which arguments of a
    function argument were inspected, so "only valid cuts are queried" is stated as:
    two score functions that agree on all valid cuts give the same detector output.
    Hence the values at invalid cuts are never used.

    Contents
      part 6  [plain2_cut_ok], [plain3_cut_ok], [mw_cut_ok], [local_cut_ok]
              the cuts named in the hypotheses below are accepted by [row_ok]
      part 2  [mw_ext_valid]
      part 3  [sbs_ext_valid]
      part 4  [cbs_ext_valid], [cbs_ext_valid_arith], [anomaly_intervals_valid]
      part 1  [pelt_ext_valid_delay], [pelt_ext_valid]
      part 5  [capa_ext_valid_gen], [capa_ext_valid], [capa_ext_valid_maxlen]
      part 7  non-vacuity examples *)
From Coq Require Import ZArith List Lia Bool Arith.
From SK Require Import Lib.Base Model.Cuts Model.Pelt Model.Mw Model.Sbs Model.Capa Model.Cbs.
From SK Require Import Proofs.CbsProofs.
Import ListNotations.
Open Scope Z_scope.

(* ====================================================================== *)
(** * Part 6: the cuts of the hypotheses are accepted by the validation model *)

Ltac solve_row_ok :=
  cbn [row_ok diffs forallb in_bounds nthZ nth];
  repeat (apply andb_true_iff; split); try reflexivity; apply Z.leb_le; lia.

(** costs and savings: an interval [s, e) of length >= m inside [0, n] *)
Lemma plain2_cut_ok : forall ms m s e n,
  ms <= Z.of_nat m -> (s + m <= e)%nat -> (e <= n)%nat -> (1 <= m)%nat ->
  row_ok (Plain 2 ms) (Z.of_nat n) [Z.of_nat s; Z.of_nat e] = true.
Proof. intros ms m s e n Hms Hse Hen Hm. solve_row_ok. Qed.

(** change scores: (s, k, e) with both sides of the split of length >= m *)
Lemma plain3_cut_ok : forall ms m s k e n,
  ms <= Z.of_nat m -> (s + m <= k)%nat -> (k + m <= e)%nat -> (e <= n)%nat -> (1 <= m)%nat ->
  row_ok (Plain 3 ms) (Z.of_nat n) [Z.of_nat s; Z.of_nat k; Z.of_nat e] = true.
Proof. intros ms m s k e n Hms Hsk Hke Hen Hm. solve_row_ok. Qed.

(** the moving-window cut (t - b, t, t + b) *)
Lemma mw_cut_ok : forall ms b t n,
  ms <= Z.of_nat b -> (b <= t)%nat -> (t + b <= n)%nat -> (1 <= b)%nat ->
  row_ok (Plain 3 ms) (Z.of_nat n) [Z.of_nat (t - b); Z.of_nat t; Z.of_nat (t + b)] = true.
Proof. intros ms b t n Hms Hbt Htn Hb. solve_row_ok. Qed.

(** local anomaly scores: (s, a, z, e), inner part [a, z) of length >= m, surroundings
    non-empty on both sides and of total length >= m *)
Lemma local_cut_ok : forall ms m s a z e n,
  ms <= Z.of_nat m -> (s < a)%nat -> (a + m <= z)%nat -> (z < e)%nat ->
  (m <= (a - s) + (e - z))%nat -> (e <= n)%nat -> (1 <= m)%nat ->
  row_ok (Local ms) (Z.of_nat n) [Z.of_nat s; Z.of_nat a; Z.of_nat z; Z.of_nat e] = true.
Proof. intros ms m s a z e n Hms Hsa Haz Hze Hsur Hen Hm. solve_row_ok. Qed.

(** the same four facts through the batch interface [evaluate]: a batch made of such
    rows is scored (no ValueError) *)
Lemma evaluate_plain2_ok : forall {A} (score : list Z -> A) ms m n (ivs : list (nat * nat)),
  ms <= Z.of_nat m -> (1 <= m)%nat ->
  (forall s e, In (s, e) ivs -> (s + m <= e)%nat /\ (e <= n)%nat) ->
  evaluate score (Plain 2 ms) (Z.of_nat n)
           (IntRows 2 (map (fun se => [Z.of_nat (fst se); Z.of_nat (snd se)]) ivs))
  = Some (map score (map (fun se => [Z.of_nat (fst se); Z.of_nat (snd se)]) ivs)).
Proof.
  intros A score ms m n ivs Hms Hm Hiv. cbn [evaluate width_of Nat.eqb andb].
  replace (forallb (row_ok (Plain 2 ms) (Z.of_nat n))
             (map (fun se => [Z.of_nat (fst se); Z.of_nat (snd se)]) ivs)) with true; [reflexivity|].
  symmetry. apply forallb_forall. intros r Hr. apply in_map_iff in Hr as ([s e] & <- & Hin).
  cbn [fst snd]. destruct (Hiv s e Hin) as [H1 H2]. now apply (plain2_cut_ok ms m).
Qed.

(* ====================================================================== *)
(** * Part 2: moving window *)

Theorem mw_ext_valid : forall CS1 CS2 b n thr mdi,
  (forall t, (b <= t)%nat -> (t + b <= n)%nat ->
     CS1 (t - b)%nat t (t + b)%nat = CS2 (t - b)%nat t (t + b)%nat) ->
  mw CS1 b n thr mdi = mw CS2 b n thr mdi.
Proof.
  intros CS1 CS2 b n thr mdi H. unfold mw.
  assert (E : mw_scores CS1 b n = mw_scores CS2 b n).
  { unfold mw_scores. apply map_ext_in. intros t _.
    destruct (b <=? t)%nat eqn:E1; [|reflexivity].
    destruct (t + b <=? n)%nat eqn:E2; [|reflexivity].
    cbn [andb]. apply Nat.leb_le in E1, E2. now apply H. }
  rewrite E. reflexivity.
Qed.

(* ====================================================================== *)
(** * Part 3: seeded binary segmentation *)

Lemma amoc_ext_valid : forall CS1 CS2 m s e,
  (forall k, (s + m <= k)%nat -> (k + m <= e)%nat -> CS1 s k e = CS2 s k e) ->
  amoc CS1 m (s, e) = amoc CS2 m (s, e).
Proof.
  intros CS1 CS2 m s e H. unfold amoc.
  assert (E : map (fun k => CS1 s k e) (seq (s + m) (e - m + 1 - (s + m)))
            = map (fun k => CS2 s k e) (seq (s + m) (e - m + 1 - (s + m)))).
  { apply map_ext_in. intros k Hk. apply in_seq in Hk. apply H; lia. }
  rewrite E. reflexivity.
Qed.

Lemma amocs_ext_valid : forall CS1 CS2 m ivs,
  (forall s e k, In (s, e) ivs -> (s + m <= k)%nat -> (k + m <= e)%nat -> CS1 s k e = CS2 s k e) ->
  amocs CS1 m ivs = amocs CS2 m ivs.
Proof.
  intros CS1 CS2 m ivs. induction ivs as [|[s e] t IH]; intros H; [reflexivity|].
  cbn [amocs].
  rewrite (amoc_ext_valid CS1 CS2 m s e) by (intros k H1 H2; apply H; [left; reflexivity|lia|lia]).
  rewrite IH by (intros s' e' k Hin H1 H2; apply H; [right; exact Hin|lia|lia]).
  reflexivity.
Qed.

Theorem sbs_ext_valid : forall CS1 CS2 m thr ivs,
  (forall s e k, In (s, e) ivs -> (s + m <= k)%nat -> (k + m <= e)%nat -> CS1 s k e = CS2 s k e) ->
  sbs CS1 m thr ivs = sbs CS2 m thr ivs.
Proof.
  intros CS1 CS2 m thr ivs H. unfold sbs. rewrite (amocs_ext_valid CS1 CS2 m ivs H). reflexivity.
Qed.

(* ====================================================================== *)
(** * Part 4: circular binary segmentation *)

Lemma best_inner_ext_valid : forall LS1 LS2 m s e,
  (forall a z, In (a, z) (anomaly_intervals s e m) -> LS1 s a z e = LS2 s a z e) ->
  best_inner LS1 m (s, e) = best_inner LS2 m (s, e).
Proof.
  intros LS1 LS2 m s e H. unfold best_inner.
  assert (E : map (fun ab => LS1 s (fst ab) (snd ab) e) (anomaly_intervals s e m)
            = map (fun ab => LS2 s (fst ab) (snd ab) e) (anomaly_intervals s e m)).
  { apply map_ext_in. intros [a z] Hin. cbn [fst snd]. now apply H. }
  rewrite E. reflexivity.
Qed.

Theorem cbs_ext_valid : forall LS1 LS2 m thr ivs,
  (forall s e a z, In (s, e) ivs -> In (a, z) (anomaly_intervals s e m) ->
     LS1 s a z e = LS2 s a z e) ->
  cbs LS1 m thr ivs = cbs LS2 m thr ivs.
Proof.
  intros LS1 LS2 m thr ivs H. unfold cbs.
  assert (E : map (inner_or_zero LS1 m) ivs = map (inner_or_zero LS2 m) ivs).
  { apply map_ext_in. intros [s e] Hin. unfold inner_or_zero.
    rewrite (best_inner_ext_valid LS1 LS2 m s e) by (intros a z Haz; now apply H).
    reflexivity. }
  rewrite E. reflexivity.
Qed.

(** the candidate inner intervals are valid local cuts (restating
    [anomaly_intervals_spec]) *)
Corollary anomaly_intervals_valid : forall s e m a z,
  In (a, z) (anomaly_intervals s e m) ->
  (s < a)%nat /\ (a + m <= z)%nat /\ (z < e)%nat /\ (m <= (a - s) + (e - z))%nat.
Proof. intros s e m a z H. apply anomaly_intervals_spec in H. lia. Qed.

(** ... and every one of them is accepted by the local-score validation *)
Corollary anomaly_intervals_cut_ok : forall ms m s e n a z,
  ms <= Z.of_nat m -> (1 <= m)%nat -> (e <= n)%nat ->
  In (a, z) (anomaly_intervals s e m) ->
  row_ok (Local ms) (Z.of_nat n) [Z.of_nat s; Z.of_nat a; Z.of_nat z; Z.of_nat e] = true.
Proof.
  intros ms m s e n a z Hms Hm Hen H. apply anomaly_intervals_valid in H as (H1 & H2 & H3 & H4).
  now apply (local_cut_ok ms m).
Qed.

(** the arithmetic form of [cbs_ext_valid] *)
Theorem cbs_ext_valid_arith : forall LS1 LS2 m thr ivs,
  (forall s e a z, In (s, e) ivs ->
     (s < a)%nat -> (a + m <= z)%nat -> (z < e)%nat -> (m <= (a - s) + (e - z))%nat ->
     LS1 s a z e = LS2 s a z e) ->
  cbs LS1 m thr ivs = cbs LS2 m thr ivs.
Proof.
  intros LS1 LS2 m thr ivs H. apply cbs_ext_valid. intros s e a z Hin Haz.
  apply anomaly_intervals_valid in Haz as (H1 & H2 & H3 & H4). now apply H.
Qed.

(* ====================================================================== *)
(** * A fold over [seq] with a state invariant indexed by the position *)

Lemma fold_left_seq_ext_inv {St} (P : nat -> St -> Prop) (f g : St -> nat -> St) :
  forall k a,
  (forall T s, (a <= T)%nat -> (T < a + k)%nat -> P T s -> f s T = g s T /\ P (S T) (f s T)) ->
  forall s0, P a s0 -> fold_left f (seq a k) s0 = fold_left g (seq a k) s0.
Proof.
  induction k as [|k IH]; intros a Hstep s0 H0; [reflexivity|].
  cbn [seq fold_left].
  destruct (Hstep a s0 (le_n a) ltac:(lia) H0) as [E HP].
  rewrite <- E. apply IH; [|exact HP].
  intros T s H1 H2 HPs. apply Hstep; [lia|lia|exact HPs].
Qed.

(* ====================================================================== *)
(** * Part 1: PELT *)

Section PeltValid.
Variables (C1 C2 : nat -> nat -> Z) (pen : Z) (m delay n : nat).
Hypothesis m_pos : (1 <= m)%nat.
Hypothesis HC : forall s e, (s + m <= e)%nat -> (e <= n)%nat -> C1 s e = C2 s e.

(** state before the iteration for observation index [T]: every retained start leaves
    room for a segment of length >= m ending at [T + 1] *)
Definition PInv (T : nat) (s : Pelt.st) : Prop :=
  forall a, In a (Pelt.starts s) -> (a + m <= S T)%nat.

Lemma pelt_step_starts_incl : forall C s t a,
  In a (Pelt.starts (Pelt.step C pen m delay s t)) ->
  In a (Pelt.starts s ++ [t - (m - 1)]%nat).
Proof.
  intros C s t a. unfold Pelt.step. cbv zeta.
  destruct (argmin _) as [[i b]|].
  - destruct (delay <? _)%nat; cbn [Pelt.starts]; unfold removeall; intros H;
      apply filter_In in H; apply H.
  - intros H. apply in_or_app. left. exact H.
Qed.

Lemma pelt_step_ext_valid : forall T s,
  (m - 1 <= T)%nat -> (T < n)%nat -> PInv T s ->
  Pelt.step C1 pen m delay s T = Pelt.step C2 pen m delay s T /\
  PInv (S T) (Pelt.step C1 pen m delay s T).
Proof.
  intros T s HT HTn HP.
  assert (H1 : forall a, In a (Pelt.starts s ++ [T - (m - 1)]%nat) -> (a + m <= S T)%nat).
  { intros a Ha. apply in_app_or in Ha as [Ha|[<-|[]]]; [now apply HP|lia]. }
  split.
  - unfold Pelt.step.
    assert (E : map (fun a => nthZ (Pelt.opt s) a + C1 a (S T) + pen)
                    (Pelt.starts s ++ [(T - (m - 1))%nat])
              = map (fun a => nthZ (Pelt.opt s) a + C2 a (S T) + pen)
                    (Pelt.starts s ++ [(T - (m - 1))%nat])).
    { apply map_ext_in. intros a Ha. rewrite HC; [reflexivity|now apply H1|lia]. }
    cbv zeta. rewrite E. reflexivity.
  - intros a Ha. apply pelt_step_starts_incl in Ha. apply H1 in Ha. lia.
Qed.

Lemma pelt_init_ext_valid : (2 * m - 1 <= n)%nat -> Pelt.init C1 pen m = Pelt.init C2 pen m.
Proof.
  intros Hn. unfold Pelt.init. f_equal. f_equal. apply map_ext_in. intros e He.
  apply in_seq in He. apply HC; lia.
Qed.

Lemma pelt_run_ext_valid : (2 * m - 1 <= n)%nat ->
  Pelt.run C1 pen m delay n = Pelt.run C2 pen m delay n.
Proof.
  intros Hn. unfold Pelt.run. rewrite (pelt_init_ext_valid Hn).
  apply (fold_left_seq_ext_inv PInv).
  - intros T s H1 H2 HP. apply pelt_step_ext_valid; [lia|lia|exact HP].
  - intros a Ha. unfold Pelt.init in Ha. cbn [Pelt.starts] in Ha. destruct Ha as [<-|[]]. lia.
Qed.
End PeltValid.

(** any pruning delay; [2m - 1 <= n] is enough (for [n = 2m - 1] the loop is empty and
    only the initial block [C 0 e], m <= e <= 2m - 1, is read) *)
Theorem pelt_ext_valid_delay : forall C1 C2 pen m delay n,
  (1 <= m)%nat -> (2 * m - 1 <= n)%nat ->
  (forall s e, (s + m <= e)%nat -> (e <= n)%nat -> C1 s e = C2 s e) ->
  pelt C1 pen m delay n = pelt C2 pen m delay n.
Proof.
  intros C1 C2 pen m delay n Hm Hn H. unfold pelt.
  rewrite (pelt_run_ext_valid C1 C2 pen m delay n Hm H Hn). reflexivity.
Qed.

Theorem pelt_ext_valid : forall C1 C2 pen m n,
  (1 <= m)%nat -> (2 * m <= n)%nat ->
  (forall s e, (s + m <= e)%nat -> (e <= n)%nat -> C1 s e = C2 s e) ->
  pelt C1 pen m (m - 1) n = pelt C2 pen m (m - 1) n.
Proof.
  intros C1 C2 pen m n Hm Hn H. apply pelt_ext_valid_delay; [exact Hm|lia|exact H].
Qed.

(* ====================================================================== *)
(** * Part 5: CAPA *)

Section CapaValid.
Variables (Sc1 Sc2 : nat -> nat -> list Z) (Sp1 Sp2 : nat -> list Z).
Variables (ac : Z) (bc : list Z) (ap : Z) (bp : list Z) (m M delay n : nat).
(** collective savings: intervals of length >= m inside [0, n]; when the configuration is
    consistent (m <= M) also of length <= M *)
Hypothesis HSc : forall s e, (s + m <= e)%nat -> (e <= n)%nat -> ((m <= M)%nat -> (e <= s + M)%nat) ->
  Sc1 s e = Sc2 s e.
Hypothesis HSp : forall t, (t < n)%nat -> Sp1 t = Sp2 t.

(** state before the iteration for time index [t] (prefix end t + 1) *)
Definition CInv (t : nat) (s : Capa.st) : Prop :=
  forall a, In a (Capa.starts s) -> (a + m <= t)%nat /\ ((m <= M)%nat -> (S t <= a + M)%nat).

Definition capa_starts1 (s : Capa.st) (t : nat) : list nat :=
  if (m <=? S t)%nat then Capa.starts s ++ [S t - m]%nat else Capa.starts s.

Lemma capa_starts1_valid : forall t s, CInv t s ->
  forall a, In a (capa_starts1 s t) -> (a + m <= S t)%nat /\ ((m <= M)%nat -> (S t <= a + M)%nat).
Proof.
  intros t s HP a Ha. unfold capa_starts1 in Ha.
  destruct (m <=? S t)%nat eqn:E.
  - apply Nat.leb_le in E. apply in_app_or in Ha as [Ha|[<-|[]]].
    + destruct (HP a Ha) as [H1 H2]. split; [lia|exact H2].
    + split; lia.
  - destruct (HP a Ha) as [H1 H2]. split; [lia|exact H2].
Qed.

Lemma capa_step_starts : forall Sc Sp s t a,
  In a (Capa.starts (Capa.step Sc Sp ac bc ap bp m M delay s t)) ->
  In a (capa_starts1 s t) /\ (S t + 1 <= a + M)%nat.
Proof.
  intros Sc Sp s t a. unfold Capa.step. cbv zeta. fold (capa_starts1 s t).
  destruct (argmax _) as [[i oc]|].
  - destruct (_ <? oc); destruct (_ <? _); destruct (delay <? _)%nat; cbn [Capa.starts];
      intros H; apply filter_In in H as [H1 H2]; apply andb_true_iff in H2 as [_ H2];
      apply negb_true_iff, Nat.ltb_ge in H2; (split; [exact H1|lia]).
  - destruct (_ <? _); destruct (delay <? _)%nat; cbn [Capa.starts];
      intros H; apply filter_In in H as [H1 H2]; apply andb_true_iff in H2 as [_ H2];
      apply negb_true_iff, Nat.ltb_ge in H2; (split; [exact H1|lia]).
Qed.

Lemma capa_step_ext_valid : forall t s, (t < n)%nat -> CInv t s ->
  Capa.step Sc1 Sp1 ac bc ap bp m M delay s t = Capa.step Sc2 Sp2 ac bc ap bp m M delay s t /\
  CInv (S t) (Capa.step Sc1 Sp1 ac bc ap bp m M delay s t).
Proof.
  intros t s Ht HP. pose proof (capa_starts1_valid t s HP) as H1. split.
  - unfold Capa.step. cbv zeta. fold (capa_starts1 s t).
    assert (E : map (fun a => nthZ (Capa.opt s) a + Pc Sc1 ac bc a (S t)) (capa_starts1 s t)
              = map (fun a => nthZ (Capa.opt s) a + Pc Sc2 ac bc a (S t)) (capa_starts1 s t)).
    { apply map_ext_in. intros a Ha. destruct (H1 a Ha) as [Ha1 Ha2]. unfold Pc.
      rewrite HSc; [reflexivity|exact Ha1|lia|exact Ha2]. }
    assert (Ep : Pp Sp1 ap bp t = Pp Sp2 ap bp t) by (unfold Pp; rewrite HSp by exact Ht; reflexivity).
    rewrite E, Ep. reflexivity.
  - intros a Ha. apply capa_step_starts in Ha as [Ha Hk]. destruct (H1 a Ha) as [Ha1 _].
    split; [exact Ha1|intros _; lia].
Qed.

Lemma capa_run_ext_valid :
  Capa.run Sc1 Sp1 ac bc ap bp m M delay n = Capa.run Sc2 Sp2 ac bc ap bp m M delay n.
Proof.
  unfold Capa.run. apply (fold_left_seq_ext_inv CInv).
  - intros t s _ Ht HP. apply capa_step_ext_valid; [lia|exact HP].
  - intros a Ha. unfold Capa.init in Ha. cbn [Capa.starts] in Ha. destruct Ha.
Qed.

Lemma capa_ext_valid_sec :
  capa Sc1 Sp1 ac bc ap bp m M delay n = capa Sc2 Sp2 ac bc ap bp m M delay n.
Proof. unfold capa. rewrite capa_run_ext_valid. reflexivity. Qed.
End CapaValid.

(** general form: no assumption on m, M; the length bound [e <= s + M] is available
    whenever the configuration is consistent (m <= M) *)
Theorem capa_ext_valid_gen : forall Sc1 Sc2 Sp1 Sp2 ac bc ap bp m M delay n,
  (forall s e, (s + m <= e)%nat -> (e <= n)%nat -> ((m <= M)%nat -> (e <= s + M)%nat) ->
     Sc1 s e = Sc2 s e) ->
  (forall t, (t < n)%nat -> Sp1 t = Sp2 t) ->
  capa Sc1 Sp1 ac bc ap bp m M delay n = capa Sc2 Sp2 ac bc ap bp m M delay n.
Proof.
  intros Sc1 Sc2 Sp1 Sp2 ac bc ap bp m M delay n HSc HSp.
  now apply capa_ext_valid_sec.
Qed.

Theorem capa_ext_valid : forall Sc1 Sc2 Sp1 Sp2 ac bc ap bp m M delay n,
  (1 <= m)%nat ->
  (forall s e, (s + m <= e)%nat -> (e <= n)%nat -> Sc1 s e = Sc2 s e) ->
  (forall t, (t < n)%nat -> Sp1 t = Sp2 t) ->
  capa Sc1 Sp1 ac bc ap bp m M delay n = capa Sc2 Sp2 ac bc ap bp m M delay n.
Proof.
  intros Sc1 Sc2 Sp1 Sp2 ac bc ap bp m M delay n _ HSc HSp.
  apply capa_ext_valid_gen; [|exact HSp]. intros s e H1 H2 _. now apply HSc.
Qed.

(** stronger: only segments of length between m and M matter *)
Theorem capa_ext_valid_maxlen : forall Sc1 Sc2 Sp1 Sp2 ac bc ap bp m M delay n,
  (1 <= m)%nat -> (m <= M)%nat ->
  (forall s e, (s + m <= e)%nat -> (e <= s + M)%nat -> (e <= n)%nat -> Sc1 s e = Sc2 s e) ->
  (forall t, (t < n)%nat -> Sp1 t = Sp2 t) ->
  capa Sc1 Sp1 ac bc ap bp m M delay n = capa Sc2 Sp2 ac bc ap bp m M delay n.
Proof.
  intros Sc1 Sc2 Sp1 Sp2 ac bc ap bp m M delay n _ HmM HSc HSp.
  apply capa_ext_valid_gen; [|exact HSp]. intros s e H1 H2 H3. apply HSc; [exact H1|now apply H3|exact H2].
Qed.

(* ====================================================================== *)
(** * Part 7: non-vacuity *)

(** squared-length toy cost with a bonus at position 6, against a version that
    returns 1000 on every cut that [evaluate] would reject *)
Definition ex_cost (s e : nat) : Z :=
  let d := Z.of_nat (e - s) in d * d + (if (s <=? 6)%nat && (6 <? e)%nat then 17 else 0).
Definition ex_cost_bad (m n : nat) (s e : nat) : Z :=
  if (e <? s + m)%nat || (n <? e)%nat then 1000 else ex_cost s e.

Example ex_cost_differs : ex_cost 3 4 <> ex_cost_bad 2 12 3 4.
Proof. vm_compute. discriminate. Qed.

Example pelt_invalid_cuts_unused :
  pelt ex_cost 5 2 1 12 = pelt (ex_cost_bad 2 12) 5 2 1 12.
Proof. vm_compute. reflexivity. Qed.

(** the same through the theorem *)
Example pelt_invalid_cuts_unused' :
  pelt ex_cost 5 2 (2 - 1) 12 = pelt (ex_cost_bad 2 12) 5 2 (2 - 1) 12.
Proof.
  apply pelt_ext_valid; [lia|lia|]. intros s e H1 H2. unfold ex_cost_bad.
  replace (e <? s + 2)%nat with false by (symmetry; apply Nat.ltb_ge; lia).
  replace (12 <? e)%nat with false by (symmetry; apply Nat.ltb_ge; lia). reflexivity.
Qed.

Definition ex_score (s k e : nat) : Z :=
  Z.of_nat ((k - s) * (e - k)) - (if (k =? 7)%nat then 0 else 3).
Definition ex_score_bad (m : nat) (s k e : nat) : Z :=
  if (k <? s + m)%nat || (e <? k + m)%nat then 1000 else ex_score s k e.
Definition ex_ivs : list (nat * nat) := seeded_intervals 12 4 [(4, 2); (8, 4); (12, 6)]%nat.

Example ex_score_differs : ex_score 0 1 4 <> ex_score_bad 2 0 1 4.
Proof. vm_compute. discriminate. Qed.

Example sbs_invalid_cuts_unused :
  sbs ex_score 2 4 ex_ivs = sbs (ex_score_bad 2) 2 4 ex_ivs /\ sbs ex_score 2 4 ex_ivs <> None.
Proof. vm_compute. split; [reflexivity|discriminate]. Qed.

Example mw_invalid_cuts_unused :
  mw ex_score 3 12 5 2 =
  mw (fun s k e => if (k <? 3)%nat || (12 <? k + 3)%nat then 1000 else ex_score s k e) 3 12 5 2.
Proof. vm_compute. reflexivity. Qed.

(** CAPA: savings that are huge on every interval shorter than m, longer than M or
    reaching beyond n, and point savings that are huge beyond n *)
Definition ex_sav (s e : nat) : list Z :=
  [Z.of_nat (e - s) * (if (4 <=? s)%nat && (e <=? 8)%nat then 3 else -1); 1].
Definition ex_sav_bad (m M n : nat) (s e : nat) : list Z :=
  if (e <? s + m)%nat || (s + M <? e)%nat || (n <? e)%nat then [1000; 1000] else ex_sav s e.
Definition ex_pt (t : nat) : list Z := [if (t =? 1)%nat then 9 else -2; 0].
Definition ex_pt_bad (n : nat) (t : nat) : list Z := if (n <=? t)%nat then [1000; 1000] else ex_pt t.

Example capa_invalid_cuts_unused :
  capa ex_sav ex_pt 2 [1; 1] 2 [1; 1] 2 5 1 12
  = capa (ex_sav_bad 2 5 12) (ex_pt_bad 12) 2 [1; 1] 2 [1; 1] 2 5 1 12
  /\ capa ex_sav ex_pt 2 [1; 1] 2 [1; 1] 2 5 1 12
     = ([0; 6; 6; 6; 6; 9; 12; 15; 15; 15; 15; 15], [(4, 8)%nat], [(1, 2)%nat]).
Proof. vm_compute. split; reflexivity. Qed.

(** the length condition of [pelt_ext_valid_delay] cannot be dropped: for n < 2m - 1 the
    initial block reads the cost of [0, 2m - 1), which reaches beyond n *)
Example pelt_short_series_reads_beyond_n :
  pelt (fun s e => 0) 1 2 1 2 <> pelt (fun s e => if (2 <? e)%nat then 1000 else 0) 1 2 1 2.
Proof. vm_compute. discriminate. Qed.

Print Assumptions plain2_cut_ok.
Print Assumptions plain3_cut_ok.
Print Assumptions mw_cut_ok.
Print Assumptions local_cut_ok.
Print Assumptions evaluate_plain2_ok.
Print Assumptions mw_ext_valid.
Print Assumptions sbs_ext_valid.
Print Assumptions cbs_ext_valid.
Print Assumptions anomaly_intervals_valid.
Print Assumptions anomaly_intervals_cut_ok.
Print Assumptions cbs_ext_valid_arith.
Print Assumptions pelt_ext_valid_delay.
Print Assumptions pelt_ext_valid.
Print Assumptions capa_ext_valid_gen.
Print Assumptions capa_ext_valid.
Print Assumptions capa_ext_valid_maxlen.
Print Assumptions pelt_invalid_cuts_unused.
Print Assumptions sbs_invalid_cuts_unused.
Print Assumptions capa_invalid_cuts_unused.
