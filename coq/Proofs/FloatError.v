(** Rounding-error analysis of the prefix-sum evaluation of the squared-error cost.

    The library evaluates the L2 cost of a segment x_s .. x_{e-1} from two running
    sums computed in binary64 (np.cumsum: S[0] = 0, S[i+1] = fl (S[i] + y_i)):

        S1 = fl-cumsum of x             S2 = fl-cumsum of fl (x_i * x_i)
        a    = fl (S1[e] - S1[s])
        cost = fl ( fl (S2[e] - S2[s]) - fl ( fl (a * a) / n ) )        n = e - s

    Over the reals this is [l2_cost_optim_R] (Gen/KernelsR.v), shown equal to the
    residual sum of squares in Proofs/CostKernels.v.  This file bounds the distance
    between the floating-point value and the real one.

    MODEL OF FLOATING POINT (the assumption of every theorem of Part B):
    Flocq's format FLX with precision 53 (radix 2, UNBOUNDED exponent range) and
    rounding to nearest, ties to even:
        rnd53 x = round radix2 (FLX_exp 53) ZnearestE x          u53 = 2^-53.
    This is binary64 arithmetic as long as no operation overflows and no
    multiplication / division result falls into the subnormal range; overflow and
    underflow are NOT modelled.  Every basic operation is "round the exact result",
    as IEEE-754 prescribes for + - * /.

    Part A is independent of Flocq: it is carried out for ANY function [rnd] with
        forall x, Rabs (rnd x - x) <= u * Rabs x        and   0 <= u
    (the standard model of floating-point arithmetic).  The data x_i are arbitrary
    reals (they need not be representable), the length n = e - s enters only as a
    real divisor.

    Results (Part B, instantiated with rnd53 / u53; M1 = sum of |x_i|, M2 = sum of
    x_i^2, both over the WHOLE prefix 0 .. e-1, n = e - s):
      T1  [fsum53_error]         |fsum l - sum l| <= ((1+u)^(length l) - 1) * sum |l_i|
          [fsum53_error_small]   ... <= 1.02 * length l * u * sum |l_i|   if length l * u <= 1/100
      T2  [fdiff53_error]        |fl (S[e] - S[s]) - (segment sum)| <= (2.04 e + 2.04) u M1
                                 if s <= e and e * u <= 1/100
      T3  [l2_cost_float53_error]  |cost_float - cost_real| <= (4.2 e + 6) u (M2 + M1^2 / n)
                                 if s < e and e * u <= 1/100   (e <= length l is not needed)
          [l2_cost_float53_vs_rss] the same against rss (slice s e l), s < e <= length l
      T4  [l2_cost_float53_tolerance]       e <= 2 000 000     ==>  error <= 1e-9    * (M2 + M1^2 / n)
          [l2_cost_float53_tolerance_wide]  e * u <= 2^-20     ==>  error <= 4.01e-6 * (M2 + M1^2 / n)
    Sharp forms (no smallness hypothesis, in powers of 1+u) are [fdiff_error_sharp]
    and [l2_cost_float_error_sharp].  The constants are first-order tight for this
    style of analysis (2e for the two prefix sums, 4e for the squared one); the
    cancellation S[e] - S[s] is the reason the error scales with the prefix and not
    with the segment.  [rnd53_is_binary64_normal] relates the model to binary64. *)
From Coq Require Import Reals Lra Lia List Arith Psatz ZArith.
From Flocq Require Import Core Relative.
From SK Require Import Gen.KernelsR Proofs.RealLib Proofs.CostKernels.
Import ListNotations.
Open Scope R_scope.

(* ------------------------------------------------------------------------- *)
(** * Part 0: exact sums                                                      *)
(* ------------------------------------------------------------------------- *)

Lemma sumR_map_nonneg (f : R -> R) (l : list R) :
  (forall x, 0 <= f x) -> 0 <= sumR (map f l).
Proof.
  intros Hf. induction l as [|a t IH]; cbn [map sumR]; [lra|].
  pose proof (Hf a) as Ha. lra.
Qed.

Lemma sumR_abs_nonneg l : 0 <= sumR (map Rabs l).
Proof. apply sumR_map_nonneg. exact Rabs_pos. Qed.

Lemma sumR_abs_le l : Rabs (sumR l) <= sumR (map Rabs l).
Proof.
  induction l as [|a t IH]; cbn [map sumR].
  - rewrite Rabs_R0. lra.
  - pose proof (Rabs_triang a (sumR t)) as Ht. lra.
Qed.

Lemma sqr_nonneg x : 0 <= x * x.
Proof. nra. Qed.

(** the sum of a non-negative function over a slice is at most its sum over the
    whole prefix *)
Lemma sumR_slice_le_prefix (f : R -> R) s e l :
  (forall x, 0 <= f x) -> (s <= e)%nat ->
  sumR (map f (slice s e l)) <= sumR (map f (firstn e l)).
Proof.
  intros Hf Hse.
  pose proof (prefix_diff (map f l) s e Hse) as HD.
  unfold prefix in HD. rewrite <- map_slice in HD. rewrite !firstn_map in HD.
  pose proof (sumR_map_nonneg f (firstn s l) Hf) as H0. lra.
Qed.

Lemma sumR_firstn_mono (f : R -> R) s e l :
  (forall x, 0 <= f x) -> (s <= e)%nat ->
  sumR (map f (firstn s l)) <= sumR (map f (firstn e l)).
Proof.
  intros Hf Hse.
  pose proof (prefix_diff (map f l) s e Hse) as HD.
  unfold prefix in HD. rewrite <- map_slice in HD. rewrite !firstn_map in HD.
  pose proof (sumR_map_nonneg f (slice s e l) Hf) as H0. lra.
Qed.

Lemma sq_as_mult l : sq l = map (fun x => x * x) l.
Proof. unfold sq. apply map_ext. intros a. ring. Qed.

(** [Rabs] goals to linear form *)
Lemma Rabs_le_both x y : Rabs x <= y -> - y <= x <= y.
Proof. intros H. unfold Rabs in H. destruct (Rcase_abs x); lra. Qed.

Lemma Rabs_le_of x y : - y <= x <= y -> Rabs x <= y.
Proof. intros H. unfold Rabs. destruct (Rcase_abs x); lra. Qed.

(* ------------------------------------------------------------------------- *)
(** * Part A: the standard model, for an arbitrary rounding function          *)
(* ------------------------------------------------------------------------- *)

Section Abstract.
  Variable rnd : R -> R.
  Variable u : R.
  Hypothesis u_nonneg : 0 <= u.
  Hypothesis rnd_rel : forall x, Rabs (rnd x - x) <= u * Rabs x.

  (** sequential accumulation from a starting value, as np.cumsum does *)
  Definition facc (a : R) (l : list R) : R := fold_left (fun acc y => rnd (acc + y)) l a.
  Definition fsum (l : list R) : R := facc 0 l.
  Definition fprefix (l : list R) (i : nat) : R := fsum (firstn i l).

  (** g n = (1+u)^n - 1, the classical accumulated relative error of n roundings *)
  Definition g (n : nat) : R := (1 + u) ^ n - 1.

  Lemma pow1u_ge1 n : 1 <= (1 + u) ^ n.
  Proof. apply pow_R1_Rle. lra. Qed.

  Lemma g_nonneg n : 0 <= g n.
  Proof. unfold g. pose proof (pow1u_ge1 n). lra. Qed.

  Lemma g_mono s e : (s <= e)%nat -> g s <= g e.
  Proof.
    intros Hse. unfold g.
    assert (H : (1 + u) ^ s <= (1 + u) ^ e) by (apply Rle_pow; [lra|exact Hse]). lra.
  Qed.

  Lemma rnd_abs_le x : Rabs (rnd x) <= (1 + u) * Rabs x.
  Proof.
    pose proof (rnd_rel x) as H.
    pose proof (Rabs_triang (rnd x - x) x) as Ht.
    replace (rnd x - x + x) with (rnd x) in Ht by ring. lra.
  Qed.

  (** one rounding on top of an absolute error E:  the work-horse of Part A *)
  Lemma rnd_abs_err x X E M :
    Rabs (x - X) <= E -> Rabs X <= M ->
    Rabs (rnd x - X) <= E * (1 + u) + u * M.
  Proof.
    intros HE HM.
    pose proof (rnd_rel x) as Hr.
    pose proof (Rabs_triang (x - X) X) as Ht.
    replace (x - X + X) with x in Ht by ring.
    assert (Hux : u * Rabs x <= u * (E + M)).
    { apply Rmult_le_compat_l; [exact u_nonneg|lra]. }
    pose proof (Rabs_triang (rnd x - x) (x - X)) as Ht2.
    replace (rnd x - x + (x - X)) with (rnd x - X) in Ht2 by ring.
    lra.
  Qed.

  (** ... and on top of a relative error eps (relative to a bound M of the exact value) *)
  Lemma rnd_rel_err x X eps M :
    Rabs (x - X) <= eps * M -> Rabs X <= M ->
    Rabs (rnd x - X) <= ((1 + eps) * (1 + u) - 1) * M.
  Proof.
    intros HE HM. pose proof (rnd_abs_err x X (eps * M) M HE HM) as H.
    replace (((1 + eps) * (1 + u) - 1) * M) with (eps * M * (1 + u) + u * M) by ring.
    exact H.
  Qed.

  (* ----------------------------------------------------------------------- *)
  (** ** 1. Sequential summation                                              *)
  (* ----------------------------------------------------------------------- *)

  Lemma facc_error l : forall a,
    Rabs (facc a l - (a + sumR l)) <= g (length l) * (Rabs a + sumR (map Rabs l)).
  Proof.
    induction l as [|y t IH]; intros a.
    - unfold facc, g. cbn [fold_left sumR length map pow].
      replace (a - (a + 0)) with 0 by ring. rewrite Rabs_R0. lra.
    - unfold facc. cbn [fold_left]. fold (facc (rnd (a + y)) t).
      set (a' := rnd (a + y)).
      pose proof (IH a') as IHa. cbn [sumR length map].
      pose proof (rnd_rel (a + y)) as Hr. fold a' in Hr.
      pose proof (Rabs_triang a y) as Hay.
      pose proof (rnd_abs_le (a + y)) as Hra. fold a' in Hra.
      pose proof (sumR_abs_nonneg t) as HT.
      pose proof (g_nonneg (length t)) as Hg.
      pose proof (Rabs_pos a) as Ha0. pose proof (Rabs_pos y) as Hy0.
      set (A := Rabs a + Rabs y) in *.
      set (T := sumR (map Rabs t)) in *.
      assert (HuA : u * Rabs (a + y) <= u * A).
      { apply Rmult_le_compat_l; [exact u_nonneg|exact Hay]. }
      assert (Ha' : Rabs a' <= (1 + u) * A).
      { assert ((1 + u) * Rabs (a + y) <= (1 + u) * A)
          by (apply Rmult_le_compat_l; [lra|exact Hay]). lra. }
      assert (H1 : g (length t) * (Rabs a' + T) <= g (length t) * ((1 + u) * A + T)).
      { apply Rmult_le_compat_l; [exact Hg|lra]. }
      pose proof (Rabs_triang (facc a' t - (a' + sumR t)) (a' - (a + y))) as Ht.
      replace (facc a' t - (a' + sumR t) + (a' - (a + y)))
        with (facc a' t - (a + (y + sumR t))) in Ht by ring.
      unfold g in *. cbn [pow].
      set (p := (1 + u) ^ length t) in *.
      assert (HupT : 0 <= u * p * T).
      { apply Rmult_le_pos; [apply Rmult_le_pos; [exact u_nonneg|lra]|exact HT]. }
      replace (Rabs a + (Rabs y + T)) with (A + T) by (unfold A; ring).
      nra.
  Qed.

  (** T1 (abstract) *)
  Theorem fsum_error l :
    Rabs (fsum l - sumR l) <= ((1 + u) ^ length l - 1) * sumR (map Rabs l).
  Proof.
    pose proof (facc_error l 0) as H. rewrite Rabs_R0 in H. unfold fsum.
    replace (0 + sumR l) with (sumR l) in H by ring.
    replace (0 + sumR (map Rabs l)) with (sumR (map Rabs l)) in H by ring.
    exact H.
  Qed.

  (* ----------------------------------------------------------------------- *)
  (** ** 2. Prefix sums and their differences                                 *)
  (* ----------------------------------------------------------------------- *)

  Lemma fprefix_error l i :
    Rabs (fprefix l i - prefix l i) <= g i * sumR (map Rabs (firstn i l)).
  Proof.
    unfold fprefix, prefix.
    pose proof (fsum_error (firstn i l)) as H. fold (g (length (firstn i l))) in H.
    assert (Hlen : (length (firstn i l) <= i)%nat) by apply firstn_le_length.
    pose proof (g_mono _ _ Hlen) as Hg.
    pose proof (sumR_abs_nonneg (firstn i l)) as HA.
    assert (g (length (firstn i l)) * sumR (map Rabs (firstn i l))
            <= g i * sumR (map Rabs (firstn i l)))
      by (apply Rmult_le_compat_r; assumption).
    lra.
  Qed.

  (** relative error of a rounded difference of two prefix sums: 1 + hh e = (1+u)(2(1+u)^e - 1) *)
  Definition hh (e : nat) : R := (1 + 2 * g e) * (1 + u) - 1.

  Lemma hh_nonneg e : 0 <= hh e.
  Proof. unfold hh. pose proof (g_nonneg e) as Hg. nra. Qed.

  (** T2, sharp form: no smallness hypothesis; note that [e <= length l] is not needed *)
  Theorem fdiff_error_sharp l s e :
    (s <= e)%nat ->
    Rabs (rnd (fprefix l e - fprefix l s) - sumR (slice s e l))
      <= hh e * sumR (map Rabs (firstn e l)).
  Proof.
    intros Hse. unfold hh.
    apply rnd_rel_err.
    - rewrite <- (prefix_diff l s e Hse).
      pose proof (fprefix_error l e) as He.
      pose proof (fprefix_error l s) as Hs.
      pose proof (g_mono s e Hse) as Hg.
      pose proof (g_nonneg s) as Hgs.
      pose proof (sumR_firstn_mono Rabs s e l Rabs_pos Hse) as HA.
      pose proof (sumR_abs_nonneg (firstn s l)) as HAs.
      assert (H1 : g s * sumR (map Rabs (firstn s l)) <= g e * sumR (map Rabs (firstn e l))).
      { apply Rmult_le_compat; assumption. }
      apply Rabs_le_both in He. apply Rabs_le_both in Hs. apply Rabs_le_of. lra.
    - pose proof (sumR_abs_le (slice s e l)) as H1.
      pose proof (sumR_slice_le_prefix Rabs s e l Rabs_pos Hse) as H2. lra.
  Qed.

  (** (1+u)^k - 1 <= (1 + 2c) k u  as long as  n u <= c <= 1/2  and  k <= n *)
  Lemma g_small_gen c n :
    0 <= c <= 1 / 2 -> INR n * u <= c ->
    forall k, (k <= n)%nat -> g k <= (1 + 2 * c) * (INR k * u).
  Proof.
    intros Hc Hn. induction k as [|k IH]; intros Hk.
    - unfold g. cbn [pow INR]. lra.
    - assert (Hk' : (k <= n)%nat) by lia. specialize (IH Hk').
      assert (Hkn : INR k <= INR n) by (apply le_INR; exact Hk').
      pose proof (pos_INR k) as Hk0.
      assert (Hku : INR k * u <= c).
      { assert (INR k * u <= INR n * u) by (apply Rmult_le_compat_r; assumption). lra. }
      assert (Hku0 : 0 <= INR k * u) by (apply Rmult_le_pos; assumption).
      rewrite S_INR. unfold g in *. cbn [pow].
      set (p := (1 + u) ^ k) in *. set (t := INR k * u) in *.
      assert (Htu : t * u <= c * u) by (apply Rmult_le_compat_r; assumption).
      assert (Hcu : 0 <= c * u) by (apply Rmult_le_pos; lra).
      assert (Hcc : c * (c * u) <= 1 / 2 * (c * u)) by (apply Rmult_le_compat_r; lra).
      assert (Htu0 : 0 <= t * u) by (apply Rmult_le_pos; assumption).
      assert (Hctu : c * (t * u) <= c * (c * u)) by (apply Rmult_le_compat_l; lra).
      replace ((INR k + 1) * u) with (t + u) by (unfold t; ring).
      (* (1+u) p - 1 = (p - 1)(1+u) + u <= (1+2c) t (1+u) + u *)
      assert (Hp : (p - 1) * (1 + u) <= (1 + 2 * c) * t * (1 + u))
        by (apply Rmult_le_compat_r; lra).
      nra.
  Qed.

  Lemma g_small n : INR n * u <= 1 / 100 -> g n <= 102 / 100 * (INR n * u).
  Proof.
    intros Hn.
    pose proof (g_small_gen (1 / 100) n ltac:(lra) Hn n (le_n n)) as H. lra.
  Qed.

  Lemma u_le_eu e : (0 < e)%nat -> u <= INR e * u.
  Proof.
    intros He. assert (1 <= INR e) by (change 1 with (INR 1); apply le_INR; lia).
    assert (1 * u <= INR e * u) by (apply Rmult_le_compat_r; assumption). lra.
  Qed.

  Lemma hh_small e :
    INR e * u <= 1 / 100 -> hh e <= (204 / 100 * INR e + 204 / 100) * u.
  Proof.
    intros Hsmall. destruct e as [|e'].
    - unfold hh, g. cbn [pow INR]. lra.
    - set (e := S e') in *.
      pose proof (g_small e Hsmall) as Hg. pose proof (g_nonneg e) as Hg0.
      pose proof (u_le_eu e ltac:(unfold e; lia)) as Hu.
      unfold hh. set (t := INR e * u) in *. set (G := g e) in *.
      assert (HGu : G * u <= (102 / 100 * (1 / 100)) * u)
        by (apply Rmult_le_compat_r; lra).
      replace ((204 / 100 * INR e + 204 / 100) * u) with (204 / 100 * t + 204 / 100 * u)
        by (unfold t; ring).
      nra.
  Qed.

  (** T2 (abstract): K1 = 2.04 e + 2.04 *)
  Theorem fdiff_error l s e :
    (s <= e)%nat -> INR e * u <= 1 / 100 ->
    Rabs (rnd (fprefix l e - fprefix l s) - sumR (slice s e l))
      <= (204 / 100 * INR e + 204 / 100) * u * sumR (map Rabs (firstn e l)).
  Proof.
    intros Hse Hsmall.
    pose proof (fdiff_error_sharp l s e Hse) as H.
    pose proof (hh_small e Hsmall) as Hh.
    pose proof (sumR_abs_nonneg (firstn e l)) as HA.
    assert (hh e * sumR (map Rabs (firstn e l))
            <= (204 / 100 * INR e + 204 / 100) * u * sumR (map Rabs (firstn e l)))
      by (apply Rmult_le_compat_r; assumption).
    lra.
  Qed.

  (* ----------------------------------------------------------------------- *)
  (** ** 3. The squared-error cost                                            *)
  (* ----------------------------------------------------------------------- *)

  (** the rounded squares fl (x_i * x_i) that are accumulated into S2 *)
  Definition fsq (l : list R) : list R := map (fun x => rnd (x * x)) l.

  (** the cost, in exactly the operation order of the library *)
  Definition l2_cost_float (l : list R) (s e : nat) : R :=
    let a := rnd (fprefix l e - fprefix l s) in
    let b := rnd (fprefix (fsq l) e - fprefix (fsq l) s) in
    rnd (b - rnd (rnd (a * a) / INR (e - s))).

  Lemma fsq_abs_sum X :
    sumR (map Rabs (fsq X)) <= (1 + u) * sumR (map (fun x => x * x) X).
  Proof.
    unfold fsq. induction X as [|x t IH]; cbn [map sumR]; [lra|].
    pose proof (rnd_abs_le (x * x)) as H. pose proof (sqr_nonneg x) as Hx.
    rewrite (Rabs_pos_eq (x * x) Hx) in H. lra.
  Qed.

  Lemma fsq_sum_err X :
    Rabs (sumR (fsq X) - sumR (map (fun x => x * x) X)) <= u * sumR (map (fun x => x * x) X).
  Proof.
    unfold fsq. induction X as [|x t IH]; cbn [map sumR].
    - replace (0 - 0) with 0 by ring. rewrite Rabs_R0. lra.
    - pose proof (rnd_rel (x * x)) as H. pose proof (sqr_nonneg x) as Hx.
      rewrite (Rabs_pos_eq (x * x) Hx) in H.
      apply Rabs_le_both in H. apply Rabs_le_both in IH. apply Rabs_le_of. lra.
  Qed.

  (** the S2 difference against the exact sum of squares of the segment *)
  Lemma fdiff_sq_error_sharp l s e :
    (s <= e)%nat ->
    Rabs (rnd (fprefix (fsq l) e - fprefix (fsq l) s) - sumR (map (fun x => x * x) (slice s e l)))
      <= ((1 + hh e) * (1 + u) - 1) * sumR (map (fun x => x * x) (firstn e l)).
  Proof.
    intros Hse.
    pose proof (fdiff_error_sharp (fsq l) s e Hse) as H1.
    pose proof (fsq_abs_sum (firstn e l)) as H2.
    unfold fsq in H2 at 1. rewrite <- firstn_map in H2. fold (fsq l) in H2.
    pose proof (fsq_sum_err (slice s e l)) as H3.
    unfold fsq in H3 at 1. rewrite map_slice in H3. fold (fsq l) in H3.
    pose proof (sumR_slice_le_prefix (fun x => x * x) s e l sqr_nonneg Hse) as H4.
    pose proof (sumR_map_nonneg (fun x => x * x) (slice s e l) sqr_nonneg) as H5.
    pose proof (hh_nonneg e) as Hh.
    set (M2 := sumR (map (fun x => x * x) (firstn e l))) in *.
    set (B := sumR (map (fun x => x * x) (slice s e l))) in *.
    assert (H6 : hh e * sumR (map Rabs (firstn e (fsq l))) <= hh e * ((1 + u) * M2))
      by (apply Rmult_le_compat_l; assumption).
    assert (H7 : u * B <= u * M2) by (apply Rmult_le_compat_l; assumption).
    apply Rabs_le_both in H1. apply Rabs_le_both in H3. apply Rabs_le_of. lra.
  Qed.

  (** squaring a perturbed value *)
  Lemma sq_err a A h M :
    0 <= h -> Rabs (a - A) <= h * M -> Rabs A <= M ->
    Rabs (a * a - A * A) <= ((1 + h) ^ 2 - 1) * (M * M) /\ Rabs (A * A) <= M * M.
  Proof.
    intros Hh Ha HA.
    pose proof (Rabs_pos A) as HA0. pose proof (Rabs_pos (a - A)) as Ha0.
    assert (HM : 0 <= M) by lra.
    split.
    - replace (a * a - A * A) with ((a - A) * (a + A)) by ring. rewrite Rabs_mult.
      pose proof (Rabs_triang (a - A) (2 * A)) as Ht.
      replace (a - A + 2 * A) with (a + A) in Ht by ring.
      rewrite (Rabs_mult 2 A), (Rabs_pos_eq 2) in Ht by lra.
      assert (H1 : Rabs (a + A) <= (h + 2) * M) by lra.
      assert (H2 : Rabs (a - A) * Rabs (a + A) <= (h * M) * ((h + 2) * M)).
      { apply Rmult_le_compat; [exact Ha0|apply Rabs_pos|exact Ha|exact H1]. }
      replace (((1 + h) ^ 2 - 1) * (M * M)) with ((h * M) * ((h + 2) * M)) by ring.
      exact H2.
    - rewrite Rabs_mult. apply Rmult_le_compat; assumption.
  Qed.

  (** fl ( fl (a * a) / n ) against A^2 / n *)
  Lemma sq_div_error a A h M n :
    0 <= h -> 0 < n -> Rabs (a - A) <= h * M -> Rabs A <= M ->
    Rabs (rnd (rnd (a * a) / n) - A * A / n) <= ((1 + h) ^ 2 * (1 + u) ^ 2 - 1) * (M * M / n)
    /\ Rabs (A * A / n) <= M * M / n.
  Proof.
    intros Hh Hn Ha HA.
    destruct (sq_err a A h M Hh Ha HA) as [H1 H2].
    pose proof (rnd_rel_err (a * a) (A * A) ((1 + h) ^ 2 - 1) (M * M) H1 H2) as H3.
    set (eps2 := (1 + ((1 + h) ^ 2 - 1)) * (1 + u) - 1) in *.
    assert (Hi : 0 < / n) by (apply Rinv_0_lt_compat; exact Hn).
    assert (H4 : Rabs (rnd (a * a) / n - A * A / n) <= eps2 * (M * M / n)).
    { replace (rnd (a * a) / n - A * A / n) with ((rnd (a * a) - A * A) * / n)
        by (unfold Rdiv; ring).
      rewrite Rabs_mult, (Rabs_pos_eq (/ n)) by lra.
      replace (eps2 * (M * M / n)) with (eps2 * (M * M) * / n) by (unfold Rdiv; ring).
      apply Rmult_le_compat_r; lra. }
    assert (H5 : Rabs (A * A / n) <= M * M / n).
    { unfold Rdiv. rewrite Rabs_mult, (Rabs_pos_eq (/ n)) by lra.
      apply Rmult_le_compat_r; lra. }
    split; [|exact H5].
    pose proof (rnd_rel_err (rnd (a * a) / n) (A * A / n) eps2 (M * M / n) H4 H5) as H6.
    replace ((1 + h) ^ 2 * (1 + u) ^ 2 - 1) with ((1 + eps2) * (1 + u) - 1)
      by (unfold eps2; ring).
    exact H6.
  Qed.

  (** T3, sharp form: the two relative errors are
        (1+u)^3 (2(1+u)^e - 1) - 1      on the sum of squares of the prefix, and
        (1+u)^5 (2(1+u)^e - 1)^2 - 1    on (sum of |x_i| over the prefix)^2 / n       *)
  Theorem l2_cost_float_error_sharp l s e :
    (s < e)%nat ->
    Rabs (l2_cost_float l s e - l2_cost_optim_R (prefix l) (prefix (sq l)) s e)
      <= ((1 + hh e) * (1 + u) ^ 2 - 1) * sumR (map (fun x => x * x) (firstn e l))
         + ((1 + hh e) ^ 2 * (1 + u) ^ 3 - 1)
           * ((sumR (map Rabs (firstn e l))) ^ 2 / INR (e - s)).
  Proof.
    intros Hlt. assert (Hse : (s <= e)%nat) by lia.
    assert (Hn : 0 < INR (e - s)) by (apply lt_0_INR; lia).
    (* the exact value, in terms of the segment sums A and B *)
    set (A := sumR (slice s e l)).
    set (B := sumR (map (fun x => x * x) (slice s e l))).
    assert (Hexact : l2_cost_optim_R (prefix l) (prefix (sq l)) s e = B - A * A / INR (e - s)).
    { unfold l2_cost_optim_R.
      rewrite (prefix_diff l s e Hse), (prefix_diff (sq l) s e Hse).
      rewrite sq_as_mult, <- map_slice. fold A B. unfold Rdiv. ring. }
    rewrite Hexact. clear Hexact.
    set (M1 := sumR (map Rabs (firstn e l))).
    set (M2 := sumR (map (fun x => x * x) (firstn e l))).
    pose proof (hh_nonneg e) as Hh.
    (* a *)
    pose proof (fdiff_error_sharp l s e Hse) as Ha. fold A M1 in Ha.
    assert (HA : Rabs A <= M1).
    { pose proof (sumR_abs_le (slice s e l)) as H1.
      pose proof (sumR_slice_le_prefix Rabs s e l Rabs_pos Hse) as H2.
      unfold A, M1. lra. }
    (* b *)
    pose proof (fdiff_sq_error_sharp l s e Hse) as Hb. fold B M2 in Hb.
    assert (HB : Rabs B <= M2).
    { pose proof (sumR_map_nonneg (fun x => x * x) (slice s e l) sqr_nonneg) as H1.
      pose proof (sumR_slice_le_prefix (fun x => x * x) s e l sqr_nonneg Hse) as H2.
      fold B in H1, H2. fold M2 in H2. rewrite (Rabs_pos_eq B H1). exact H2. }
    (* q *)
    unfold l2_cost_float.
    set (a := rnd (fprefix l e - fprefix l s)) in *.
    set (b := rnd (fprefix (fsq l) e - fprefix (fsq l) s)) in *.
    destruct (sq_div_error a A (hh e) M1 (INR (e - s)) Hh Hn Ha HA) as [Hq HQ].
    set (q := rnd (rnd (a * a) / INR (e - s))) in *.
    set (Q := A * A / INR (e - s)) in *.
    replace (M1 ^ 2 / INR (e - s)) with (M1 * M1 / INR (e - s)) by (unfold Rdiv; ring).
    set (W := M1 * M1 / INR (e - s)) in *.
    set (eb := (1 + hh e) * (1 + u) - 1) in *.
    set (eq := (1 + hh e) ^ 2 * (1 + u) ^ 2 - 1) in *.
    (* the final subtraction *)
    assert (HE : Rabs ((b - q) - (B - Q)) <= eb * M2 + eq * W).
    { apply Rabs_le_both in Hb. apply Rabs_le_both in Hq. apply Rabs_le_of. lra. }
    assert (HM : Rabs (B - Q) <= M2 + W).
    { apply Rabs_le_both in HB. apply Rabs_le_both in HQ. apply Rabs_le_of. lra. }
    pose proof (rnd_abs_err (b - q) (B - Q) _ _ HE HM) as Hfin.
    replace (((1 + hh e) * (1 + u) ^ 2 - 1) * M2 + ((1 + hh e) ^ 2 * (1 + u) ^ 3 - 1) * W)
      with ((eb * M2 + eq * W) * (1 + u) + u * (M2 + W)) by (unfold eb, eq; ring).
    exact Hfin.
  Qed.

  (** the two relative errors under the smallness hypothesis *)
  Lemma cost_consts_small e :
    (0 < e)%nat -> INR e * u <= 1 / 100 ->
    (1 + hh e) * (1 + u) ^ 2 - 1 <= (42 / 10 * INR e + 6) * u /\
    (1 + hh e) ^ 2 * (1 + u) ^ 3 - 1 <= (42 / 10 * INR e + 6) * u.
  Proof.
    intros He Hsmall.
    pose proof (g_small e Hsmall) as Hg. pose proof (g_nonneg e) as Hg0.
    pose proof (u_le_eu e He) as Hu.
    assert (H5u : INR 5 * u <= 5 / 100) by (cbn [INR]; lra).
    pose proof (g_small_gen (5 / 100) 5 ltac:(lra) H5u 5 ltac:(lia)) as Hg5.
    pose proof (g_small_gen (5 / 100) 5 ltac:(lra) H5u 3 ltac:(lia)) as Hg3.
    pose proof (g_nonneg 5) as Hg50. pose proof (g_nonneg 3) as Hg30.
    cbn [INR] in Hg5, Hg3.
    replace ((1 + hh e) * (1 + u) ^ 2) with ((1 + 2 * g e) * (1 + g 3))
      by (unfold hh, g; ring).
    replace ((1 + hh e) ^ 2 * (1 + u) ^ 3) with ((1 + 2 * g e) ^ 2 * (1 + g 5))
      by (unfold hh, g; ring).
    replace ((42 / 10 * INR e + 6) * u) with (42 / 10 * (INR e * u) + 6 * u) by ring.
    set (t := INR e * u) in *. set (G := g e) in *.
    set (G3 := g 3) in *. set (G5 := g 5) in *.
    assert (HG : G <= 102 / 10000) by lra.
    assert (HGG : G * G <= 102 / 10000 * G) by (apply Rmult_le_compat_r; lra).
    assert (HQ2 : (1 + 2 * G) ^ 2 <= 1 + 41217 / 10000 * t) by nra.
    assert (HQ20 : 1 <= (1 + 2 * G) ^ 2) by nra.
    assert (Htu : t * u <= 1 / 100 * u) by (apply Rmult_le_compat_r; lra).
    assert (Htu0 : 0 <= t * u) by (apply Rmult_le_pos; lra).
    split.
    - assert (H1 : (1 + 2 * G) * (1 + G3) <= (1 + 204 / 100 * t) * (1 + 33 / 10 * u)).
      { apply Rmult_le_compat; lra. }
      nra.
    - assert (H1 : (1 + 2 * G) ^ 2 * (1 + G5) <= (1 + 41217 / 10000 * t) * (1 + 55 / 10 * u)).
      { apply Rmult_le_compat; lra. }
      nra.
  Qed.

  (** T3 (abstract): K = 4.2 e + 6.  [e <= length l] is not needed. *)
  Theorem l2_cost_float_error l s e :
    (s < e)%nat -> INR e * u <= 1 / 100 ->
    Rabs (l2_cost_float l s e - l2_cost_optim_R (prefix l) (prefix (sq l)) s e)
      <= (42 / 10 * INR e + 6) * u
         * (sumR (map (fun x => x * x) (firstn e l))
            + (sumR (map Rabs (firstn e l))) ^ 2 / INR (e - s)).
  Proof.
    intros Hlt Hsmall.
    pose proof (l2_cost_float_error_sharp l s e Hlt) as H.
    destruct (cost_consts_small e ltac:(lia) Hsmall) as [H1 H2].
    pose proof (sumR_map_nonneg (fun x => x * x) (firstn e l) sqr_nonneg) as HM2.
    assert (HW : 0 <= (sumR (map Rabs (firstn e l))) ^ 2 / INR (e - s)).
    { apply Rmult_le_pos; [apply pow2_ge_0|].
      left. apply Rinv_0_lt_compat. apply lt_0_INR. lia. }
    set (M2 := sumR (map (fun x => x * x) (firstn e l))) in *.
    set (W := (sumR (map Rabs (firstn e l))) ^ 2 / INR (e - s)) in *.
    set (K := (42 / 10 * INR e + 6) * u) in *.
    assert (Ha : ((1 + hh e) * (1 + u) ^ 2 - 1) * M2 <= K * M2)
      by (apply Rmult_le_compat_r; assumption).
    assert (Hb : ((1 + hh e) ^ 2 * (1 + u) ^ 3 - 1) * W <= K * W)
      by (apply Rmult_le_compat_r; assumption).
    lra.
  Qed.

End Abstract.

(* ------------------------------------------------------------------------- *)
(** * Part B: binary64 without overflow / underflow  (Flocq FLX, precision 53) *)
(* ------------------------------------------------------------------------- *)

(** round to nearest, ties to even, 53-bit significand, unbounded exponent *)
Definition rnd53 (x : R) : R := round radix2 (FLX_exp 53) ZnearestE x.
(** unit roundoff 2^-53 *)
Definition u53 : R := bpow radix2 (-53).

Lemma u53_nonneg : 0 <= u53.
Proof. apply bpow_ge_0. Qed.

Lemma u53_value : u53 = / 9007199254740992.
Proof.
  unfold u53. change (bpow radix2 (-53)) with (/ IZR (Z.pow_pos 2 53)).
  replace (Z.pow_pos 2 53) with 9007199254740992%Z by reflexivity. reflexivity.
Qed.

Lemma rnd53_rel x : Rabs (rnd53 x - x) <= u53 * Rabs x.
Proof.
  pose proof (relative_error_N_FLX radix2 53 ltac:(lia) (fun n => negb (Z.even n)) x) as H.
  unfold rnd53, u53.
  replace (/ 2 * bpow radix2 (- (53) + 1)) with (bpow radix2 (-53)) in H.
  - exact H.
  - change (- (53) + 1)%Z with (-53 + 1)%Z. rewrite bpow_plus.
    change (bpow radix2 1) with 2. field.
Qed.

(** the library's computation in this model *)
Definition fsum53 : list R -> R := fsum rnd53.
Definition fprefix53 : list R -> nat -> R := fprefix rnd53.
Definition l2_cost_float53 : list R -> nat -> nat -> R := l2_cost_float rnd53.

(** the definitions, spelled out (so that the statements below can be read without Part A) *)
Lemma fsum53_unfold l : fsum53 l = fold_left (fun acc y => rnd53 (acc + y)) l 0.
Proof. reflexivity. Qed.

Lemma fprefix53_unfold l i : fprefix53 l i = fsum53 (firstn i l).
Proof. reflexivity. Qed.

Lemma l2_cost_float53_unfold l s e :
  l2_cost_float53 l s e =
    let S1 := fprefix53 l in
    let S2 := fprefix53 (map (fun x => rnd53 (x * x)) l) in
    let a := rnd53 (S1 e - S1 s) in
    rnd53 (rnd53 (S2 e - S2 s) - rnd53 (rnd53 (a * a) / INR (e - s))).
Proof. reflexivity. Qed.

(** T1: sequential summation *)
Theorem fsum53_error l :
  Rabs (fsum53 l - sumR l) <= ((1 + u53) ^ length l - 1) * sumR (map Rabs l).
Proof. apply fsum_error; [exact u53_nonneg|exact rnd53_rel]. Qed.

(** T1, explicit form: at most 1.02 n u (sum of |terms|) for n u <= 1/100 *)
Corollary fsum53_error_small l :
  INR (length l) * u53 <= 1 / 100 ->
  Rabs (fsum53 l - sumR l) <= 102 / 100 * INR (length l) * u53 * sumR (map Rabs l).
Proof.
  intros Hsmall. pose proof (fsum53_error l) as H.
  pose proof (g_small u53 u53_nonneg (length l) Hsmall) as Hg. unfold g in Hg.
  pose proof (sumR_abs_nonneg l) as HA.
  assert (((1 + u53) ^ length l - 1) * sumR (map Rabs l)
          <= 102 / 100 * (INR (length l) * u53) * sumR (map Rabs l))
    by (apply Rmult_le_compat_r; assumption).
  lra.
Qed.

(** T2: the rounded difference of two rounded prefix sums, against the exact segment
    sum.  The error is relative to the size of the WHOLE prefix 0 .. e-1. *)
Theorem fdiff53_error l s e :
  (s <= e)%nat -> INR e * u53 <= 1 / 100 ->
  Rabs (rnd53 (fprefix53 l e - fprefix53 l s) - sumR (slice s e l))
    <= (204 / 100 * INR e + 204 / 100) * u53 * sumR (map Rabs (firstn e l)).
Proof. apply fdiff_error; [exact u53_nonneg|exact rnd53_rel]. Qed.

(** T3: the cost.  K = 4.2 e + 6. *)
Theorem l2_cost_float53_error l s e :
  (s < e)%nat -> INR e * u53 <= 1 / 100 ->
  Rabs (l2_cost_float53 l s e - l2_cost_optim_R (prefix l) (prefix (sq l)) s e)
    <= (42 / 10 * INR e + 6) * u53
       * (sumR (map (fun x => x * x) (firstn e l))
          + (sumR (map Rabs (firstn e l))) ^ 2 / INR (e - s)).
Proof. apply l2_cost_float_error; [exact u53_nonneg|exact rnd53_rel]. Qed.

(** the scale of the tolerance: sum of squares of the prefix + (sum of |x_i|)^2 / n *)
Definition l2_scale (l : list R) (s e : nat) : R :=
  sumR (map (fun x => x * x) (firstn e l)) + (sumR (map Rabs (firstn e l))) ^ 2 / INR (e - s).

Lemma l2_scale_nonneg l s e : (s < e)%nat -> 0 <= l2_scale l s e.
Proof.
  intros Hlt. unfold l2_scale.
  pose proof (sumR_map_nonneg (fun x => x * x) (firstn e l) sqr_nonneg) as HM2.
  assert (HW : 0 <= (sumR (map Rabs (firstn e l))) ^ 2 / INR (e - s)).
  { apply Rmult_le_pos; [apply pow2_ge_0|].
    left. apply Rinv_0_lt_compat. apply lt_0_INR. lia. }
  lra.
Qed.

(** T4: the tests' tolerance shape.  For a prefix of at most two million samples the
    absolute error of the cost is at most 1e-9 times the scale.  (The bound on e is
    stated on [INR e]: a unary [nat] literal of that size cannot be parsed.) *)
Theorem l2_cost_float53_tolerance l s e :
  (s < e)%nat -> INR e <= 2000000 ->
  Rabs (l2_cost_float53 l s e - l2_cost_optim_R (prefix l) (prefix (sq l)) s e)
    <= 1 / 1000000000 * l2_scale l s e.
Proof.
  intros Hlt HeR.
  pose proof (pos_INR e) as He0.
  assert (Hsmall : INR e * u53 <= 1 / 100) by (rewrite u53_value; lra).
  pose proof (l2_cost_float53_error l s e Hlt Hsmall) as H. fold (l2_scale l s e) in H.
  pose proof (l2_scale_nonneg l s e Hlt) as HS.
  assert (HK : (42 / 10 * INR e + 6) * u53 <= 1 / 1000000000) by (rewrite u53_value; lra).
  assert ((42 / 10 * INR e + 6) * u53 * l2_scale l s e <= 1 / 1000000000 * l2_scale l s e)
    by (apply Rmult_le_compat_r; assumption).
  lra.
Qed.

(** T4, wide range: e * 2^-53 <= 2^-20 (e up to 2^33, about 8.6e9 samples) gives 4.01e-6 *)
Theorem l2_cost_float53_tolerance_wide l s e :
  (s < e)%nat -> INR e * u53 <= bpow radix2 (-20) ->
  Rabs (l2_cost_float53 l s e - l2_cost_optim_R (prefix l) (prefix (sq l)) s e)
    <= 401 / 100000000 * l2_scale l s e.
Proof.
  intros Hlt He.
  assert (H20 : bpow radix2 (-20) = / 1048576).
  { change (bpow radix2 (-20)) with (/ IZR (Z.pow_pos 2 20)).
    replace (Z.pow_pos 2 20) with 1048576%Z by reflexivity. reflexivity. }
  rewrite H20 in He.
  assert (Hsmall : INR e * u53 <= 1 / 100) by lra.
  pose proof (l2_cost_float53_error l s e Hlt Hsmall) as H. fold (l2_scale l s e) in H.
  pose proof (l2_scale_nonneg l s e Hlt) as HS.
  assert (HK : (42 / 10 * INR e + 6) * u53 <= 401 / 100000000).
  { pose proof u53_value as Hu. replace ((42 / 10 * INR e + 6) * u53)
      with (42 / 10 * (INR e * u53) + 6 * u53) by ring. rewrite Hu at 2. lra. }
  assert ((42 / 10 * INR e + 6) * u53 * l2_scale l s e <= 401 / 100000000 * l2_scale l s e)
    by (apply Rmult_le_compat_r; assumption).
  lra.
Qed.

(** T3 against the statistic itself: the floating-point cost and the residual sum of
    squares of the segment ([l2_optim_is_rss], Proofs/CostKernels.v) *)
Corollary l2_cost_float53_vs_rss l s e :
  (s < e <= length l)%nat -> INR e * u53 <= 1 / 100 ->
  Rabs (l2_cost_float53 l s e - rss (slice s e l))
    <= (42 / 10 * INR e + 6) * u53 * l2_scale l s e.
Proof.
  intros Hse Hsmall. rewrite <- (l2_optim_is_rss l s e Hse).
  apply l2_cost_float53_error; [lia|exact Hsmall].
Qed.

(** Remark on the model.  binary64 is Flocq's FLT format with emin = -1074, prec = 53.
    Its rounding coincides with [rnd53] on every real of magnitude at least 2^-1022
    (the normal range; and trivially at 0), so the theorems above describe the IEEE
    computation whenever no intermediate result overflows and no non-zero intermediate
    result is below 2^-1022 in magnitude. *)
Definition rnd_binary64 (x : R) : R := round radix2 (FLT_exp (-1074) 53) ZnearestE x.

Lemma rnd53_is_binary64_normal x :
  bpow radix2 (-1022) <= Rabs x -> rnd_binary64 x = rnd53 x.
Proof. intros Hx. unfold rnd_binary64, rnd53. apply round_FLT_FLX. exact Hx. Qed.

Lemma rnd53_is_binary64_zero : rnd_binary64 0 = rnd53 0.
Proof. unfold rnd_binary64, rnd53. now rewrite !round_0 by auto with typeclass_instances. Qed.

Print Assumptions fsum53_error.
Print Assumptions fdiff53_error.
Print Assumptions l2_cost_float53_error.
Print Assumptions l2_cost_float53_vs_rss.
Print Assumptions l2_cost_float53_tolerance.
Print Assumptions l2_cost_float53_tolerance_wide.
