(** Circular binary segmentation: properties of Model/Cbs.v.
    1. inner (anomaly) intervals of a candidate interval,
    2. per-interval first-argmax [best_inner],
    3. greedy anomaly selection,
    4. the assembled detector [cbs]. *)
From Coq Require Import ZArith List Lia Bool Arith Permutation Sorted.
From SK Require Import Lib.Base Model.Sbs Model.Capa Model.Cbs Proofs.ArgmaxLemmas.
Import ListNotations.
Open Scope Z_scope.

(** ====================================================================== *)
(** * 1. Inner intervals *)

(** (no assumption on [m] is needed) *)
Theorem anomaly_intervals_spec : forall s e m a z,
  In (a, z) (anomaly_intervals s e m) <->
  (s < a /\ a + m <= z /\ z < e /\ m <= (e - z) + (a - s))%nat.
Proof.
  intros s e m a z. unfold anomaly_intervals. rewrite in_flat_map. split.
  - intros (i & Hi & H). apply in_seq in Hi. apply in_flat_map in H.
    destruct H as (j & Hj & H). apply in_seq in Hj.
    destruct (m <=? e - j + (i - s))%nat eqn:E; [|contradiction].
    destruct H as [H | []]. inversion H; subst. apply Nat.leb_le in E. lia.
  - intros (H1 & H2 & H3 & H4). exists a. split; [apply in_seq; lia|].
    apply in_flat_map. exists z. split; [apply in_seq; lia|].
    replace (m <=? e - z + (a - s))%nat with true by (symmetry; apply Nat.leb_le; lia).
    left; reflexivity.
Qed.

Theorem anomaly_intervals_nonempty : forall s e m,
  (1 <= m)%nat -> (s + 2 * m <= e)%nat -> (s + m + 2 <= e)%nat ->
  anomaly_intervals s e m <> [].
Proof.
  intros s e m Hm H1 H2 E.
  assert (Hin : In (s + 1, s + 1 + m)%nat (anomaly_intervals s e m))
    by (apply anomaly_intervals_spec; lia).
  rewrite E in Hin. contradiction.
Qed.

Theorem anomaly_intervals_empty : forall s e m,
  (e < s + m + 2 \/ e < s + 2 * m)%nat -> anomaly_intervals s e m = [].
Proof.
  intros s e m H. destruct (anomaly_intervals s e m) as [|[a z] t] eqn:E; [reflexivity|].
  assert (Hin : In (a, z) (anomaly_intervals s e m)) by (rewrite E; left; reflexivity).
  apply anomaly_intervals_spec in Hin. lia.
Qed.

(** ====================================================================== *)
(** * 2. Per-interval maximisation *)
Theorem best_inner_spec : forall LS m s e a z v,
  best_inner LS m (s, e) = Some ((a, z), v) ->
  In (a, z) (anomaly_intervals s e m) /\ v = LS s a z e /\
  forall a' z', In (a', z') (anomaly_intervals s e m) -> LS s a' z' e <= v.
Proof.
  intros LS m s e a z v H. unfold best_inner in H.
  set (cands := anomaly_intervals s e m) in *.
  destruct (argmax (map (fun ab => LS s (fst ab) (snd ab) e) cands)) as [[i w]|] eqn:A;
    [|discriminate].
  inversion H as [[Hn Hw]]. subst w. apply argmax_spec in A.
  destruct A as (Hi & Hv & Hle & _). rewrite map_length in Hi, Hle.
  rewrite (nth_map_lt _ cands i (0, 0)%nat 0) in Hv by exact Hi. rewrite Hn in Hv. simpl in Hv.
  split; [try rewrite <- Hn; apply nth_In; exact Hi|]. split; [symmetry; exact Hv|].
  intros a' z' Hin. destruct (In_nth _ _ (0, 0)%nat Hin) as (j & Hj & Hnj).
  specialize (Hle j Hj). rewrite (nth_map_lt _ cands j (0, 0)%nat 0) in Hle by exact Hj.
  rewrite Hnj in Hle. exact Hle.
Qed.

Lemma best_inner_none : forall LS m s e,
  best_inner LS m (s, e) = None <-> anomaly_intervals s e m = [].
Proof.
  intros LS m s e. unfold best_inner.
  destruct (argmax (map (fun ab => LS s (fst ab) (snd ab) e) (anomaly_intervals s e m)))
    as [[i w]|] eqn:A.
  - split; [discriminate|]. intros E. rewrite E in A. simpl in A. discriminate.
  - apply argmax_none in A. split; [intros _ | reflexivity].
    destruct (anomaly_intervals s e m); [reflexivity | discriminate].
Qed.

(** ====================================================================== *)
(** * 3. Greedy anomaly selection *)
Definition Kcbs (ivs inner : list (nat * nat)) (i j : nat) : bool :=
  overlaps (nth i inner (0, 0)%nat) (nth j ivs (0, 0)%nat).

Definition nthP (l : list (nat * nat)) (i : nat) : nat * nat := nth i l (0, 0)%nat.

Lemma greedy_anoms_gen : forall thr ivs inner fuel scores,
  length ivs = length scores ->
  greedy_anoms fuel thr ivs inner scores =
  option_map (map (nthP inner)) (ggreedy fuel thr (Kcbs ivs inner) scores).
Proof.
  intros thr ivs inner. induction fuel as [|f IH]; intros scores Hlen; simpl;
    destruct (existsb (fun v => thr <? v) scores); simpl; try reflexivity.
  destruct (argmax scores) as [[i v]|]; [|reflexivity].
  assert (E : map (fun sv : nat * nat * Z =>
                     if overlaps (nth i inner (0, 0)%nat) (fst sv) then 0 else snd sv)
                  (combine ivs scores) = kill_scores (Kcbs ivs inner) i scores).
  { rewrite (map_combine_seq _ ivs scores (0, 0)%nat 0 Hlen). reflexivity. }
  rewrite E. rewrite IH by (rewrite kill_length; exact Hlen).
  destruct (ggreedy f thr (Kcbs ivs inner) (kill_scores (Kcbs ivs inner) i scores));
    reflexivity.
Qed.

(** standing assumptions: three parallel lists of length [N], a non-negative
    threshold, and every above-threshold candidate overlaps its own inner interval.
    Candidates without inner interval (inner (0,0), score 0) are unconstrained. *)
Definition anoms_pre (thr : Z) (ivs inner : list (nat * nat)) (scores : list Z) (N : nat) : Prop :=
  length ivs = N /\ length inner = N /\ length scores = N /\ 0 <= thr /\
  (forall i, (i < N)%nat -> thr < nthZ scores i ->
     overlaps (nthP inner i) (nthP ivs i) = true).

(** the stronger, natural hypothesis: the inner interval of every above-threshold
    candidate is non-empty and lies strictly inside it *)
Definition inner_inside (thr : Z) (ivs inner : list (nat * nat)) (scores : list Z) (N : nat) : Prop :=
  forall i, (i < N)%nat -> thr < nthZ scores i ->
    (fst (nthP ivs i) < fst (nthP inner i) /\ fst (nthP inner i) < snd (nthP inner i) /\
     snd (nthP inner i) < snd (nthP ivs i))%nat.

Lemma inner_inside_pre : forall thr ivs inner scores N,
  length ivs = N -> length inner = N -> length scores = N -> 0 <= thr ->
  inner_inside thr ivs inner scores N -> anoms_pre thr ivs inner scores N.
Proof.
  intros thr ivs inner scores N H1 H2 H3 H4 H. repeat (split; [assumption|]).
  intros i Hi Hlt. destruct (H i Hi Hlt) as (A & B & C). unfold overlaps.
  apply andb_true_iff. split; apply Nat.ltb_lt; lia.
Qed.

Lemma greedy_anoms_idx : forall thr ivs inner scores fuel picks,
  length ivs = length scores ->
  greedy_anoms fuel thr ivs inner scores = Some picks ->
  exists idx, ggreedy fuel thr (Kcbs ivs inner) scores = Some idx /\
              picks = map (nthP inner) idx.
Proof.
  intros thr ivs inner scores fuel picks Hlen H. rewrite greedy_anoms_gen in H by exact Hlen.
  destruct (ggreedy fuel thr (Kcbs ivs inner) scores) as [idx|]; simpl in H; inversion H.
  exists idx. split; reflexivity.
Qed.

Lemma anoms_pre_self_kill : forall thr ivs inner scores N,
  anoms_pre thr ivs inner scores N -> self_kill thr (Kcbs ivs inner) scores.
Proof.
  intros thr ivs inner scores N (Hi & Hm & Hs & Ht & Hin) i Hlt Hgt. unfold Kcbs.
  apply Hin; [lia | exact Hgt].
Qed.

Theorem greedy_anoms_terminates : forall thr ivs inner scores N fuel,
  anoms_pre thr ivs inner scores N -> (N <= fuel)%nat ->
  exists picks, greedy_anoms fuel thr ivs inner scores = Some picks /\
                (length picks <= N)%nat.
Proof.
  intros thr ivs inner scores N fuel Hpre HN.
  pose proof (anoms_pre_self_kill _ _ _ _ _ Hpre) as Hsk.
  destruct Hpre as (Hi & Hm & Hs & Ht & Hin).
  pose proof (cnt_le_length thr scores) as Hc.
  destruct (ggreedy_terminates thr (Kcbs ivs inner) Ht fuel scores Hsk) as (p & Hp & Hl);
    [lia|].
  exists (map (nthP inner) p). rewrite greedy_anoms_gen by lia. rewrite Hp. simpl.
  split; [reflexivity| rewrite map_length; lia].
Qed.

Theorem greedy_anoms_supported : forall thr ivs inner scores N fuel picks,
  anoms_pre thr ivs inner scores N ->
  greedy_anoms fuel thr ivs inner scores = Some picks ->
  forall ab, In ab picks ->
  exists i, (i < N)%nat /\ nthP inner i = ab /\ thr < nthZ scores i.
Proof.
  intros thr ivs inner scores N fuel picks (Hi & Hm & Hs & Ht & Hin) H ab Hab.
  assert (Hlen : length ivs = length scores) by lia.
  destruct (greedy_anoms_idx _ _ _ _ _ _ Hlen H) as (idx & Hg & ->).
  apply in_map_iff in Hab. destruct Hab as (i & Hci & Hidx).
  destruct (ggreedy_supported thr _ Ht _ _ _ Hg i Hidx) as [Hl Hlt].
  exists i. split; [lia|]. split; assumption.
Qed.

(** every above-threshold candidate interval overlaps some picked anomaly *)
Theorem greedy_anoms_complete : forall thr ivs inner scores N fuel picks,
  anoms_pre thr ivs inner scores N ->
  greedy_anoms fuel thr ivs inner scores = Some picks ->
  forall i, (i < N)%nat -> thr < nthZ scores i ->
  exists ab, In ab picks /\ overlaps ab (nthP ivs i) = true.
Proof.
  intros thr ivs inner scores N fuel picks (Hi & Hm & Hs & Ht & Hin) H i HiN Hlt.
  assert (Hlen : length ivs = length scores) by lia.
  destruct (greedy_anoms_idx _ _ _ _ _ _ Hlen H) as (idx & Hg & ->).
  assert (HiL : (i < length scores)%nat) by lia.
  destruct (ggreedy_complete thr _ Ht _ _ _ Hg i HiL Hlt) as (i0 & Hin0 & HK).
  exists (nthP inner i0). split; [apply in_map; exact Hin0 | exact HK].
Qed.

Theorem greedy_anoms_threshold_mono : forall thr thr' ivs inner scores fuel fuel' picks picks',
  length ivs = length scores -> thr <= thr' ->
  greedy_anoms fuel thr ivs inner scores = Some picks ->
  greedy_anoms fuel' thr' ivs inner scores = Some picks' ->
  exists rest, picks = picks' ++ rest.
Proof.
  intros thr thr' ivs inner scores fuel fuel' picks picks' Hlen Hle H H'.
  destruct (greedy_anoms_idx _ _ _ _ _ _ Hlen H) as (idx & Hg & ->).
  destruct (greedy_anoms_idx _ _ _ _ _ _ Hlen H') as (idx' & Hg' & ->).
  destruct (ggreedy_threshold_mono thr thr' _ Hle _ _ _ _ _ Hg Hg') as (rest & ->).
  exists (map (nthP inner) rest). apply map_app.
Qed.

Corollary greedy_anoms_threshold_incl : forall thr thr' ivs inner scores fuel fuel' picks picks',
  length ivs = length scores -> thr <= thr' ->
  greedy_anoms fuel thr ivs inner scores = Some picks ->
  greedy_anoms fuel' thr' ivs inner scores = Some picks' ->
  incl picks' picks.
Proof.
  intros thr thr' ivs inner scores fuel fuel' picks picks' Hlen Hle H H'.
  destruct (greedy_anoms_threshold_mono _ _ _ _ _ _ _ _ _ Hlen Hle H H') as (rest & ->).
  apply incl_appl, incl_refl.
Qed.

(** disjointness of half-open intervals (and distinctness) *)
Definition disj (p q : nat * nat) : Prop := (snd p <= fst q \/ snd q <= fst p)%nat.
Definition sepd (p q : nat * nat) : Prop := p <> q /\ disj p q.

Lemma greedy_anoms_fop : forall thr ivs inner scores N fuel picks,
  length ivs = N -> length inner = N -> length scores = N -> 0 <= thr ->
  inner_inside thr ivs inner scores N ->
  greedy_anoms fuel thr ivs inner scores = Some picks ->
  ForallOrdPairs sepd picks.
Proof.
  intros thr ivs inner scores N fuel picks Hi Hm Hs Ht Hins H.
  assert (Hlen : length ivs = length scores) by lia.
  destruct (greedy_anoms_idx _ _ _ _ _ _ Hlen H) as (idx & Hg & ->).
  apply FOP_map.
  apply FOP_impl_Forall with (R := fun i j => Kcbs ivs inner i j = false)
                             (P := fun i => (i < N)%nat /\ thr < nthZ scores i).
  - eapply ggreedy_fop; eassumption.
  - rewrite Forall_forall. intros i Hidx.
    destruct (ggreedy_supported thr _ Ht _ _ _ Hg i Hidx) as [Hl Hlt]. split; [lia | exact Hlt].
  - intros i j [HiN Hti] [HjN Htj] HK. unfold Kcbs in HK.
    pose proof (Hins i HiN Hti) as (A1 & A2 & A3).
    pose proof (Hins j HjN Htj) as (B1 & B2 & B3).
    unfold nthP in *. unfold overlaps in HK.
    destruct (nth i inner (0, 0)%nat) as [a z]. destruct (nth j inner (0, 0)%nat) as [a' z'].
    destruct (nth j ivs (0, 0)%nat) as [s' e']. destruct (nth i ivs (0, 0)%nat) as [s e].
    simpl in *. apply andb_false_iff in HK. unfold sepd, disj. simpl.
    destruct HK as [C | C]; apply Nat.ltb_ge in C.
    + split; [intro E; inversion E; lia | lia].
    + split; [intro E; inversion E; lia | lia].
Qed.

Theorem greedy_anoms_disjoint : forall thr ivs inner scores N fuel picks,
  length ivs = N -> length inner = N -> length scores = N -> 0 <= thr ->
  inner_inside thr ivs inner scores N ->
  greedy_anoms fuel thr ivs inner scores = Some picks ->
  NoDup picks /\
  (forall i j, (i < length picks)%nat -> (j < length picks)%nat -> i <> j ->
     disj (nthP picks i) (nthP picks j)) /\
  (forall p q, In p picks -> In q picks -> p <> q -> disj p q).
Proof.
  intros thr ivs inner scores N fuel picks Hi Hm Hs Ht Hins H.
  pose proof (greedy_anoms_fop _ _ _ _ _ _ _ Hi Hm Hs Ht Hins H) as F.
  destruct (FOP_sym_In sepd picks F) as [ND Hall].
  - intros x y [A B]. split; [congruence | unfold disj in *; lia].
  - intros x _ [A _]. congruence.
  - split; [exact ND|]. split.
    + intros i j Hil Hjl Hij. unfold nthP.
      destruct (Nat.lt_trichotomy i j) as [L | [E | L]]; [| contradiction |].
      * destruct (FOP_nth sepd picks (0, 0)%nat F i j ltac:(lia)) as [_ S]. exact S.
      * destruct (FOP_nth sepd picks (0, 0)%nat F j i ltac:(lia)) as [_ S].
        unfold disj in *; lia.
    + intros p q Hp Hq Hne. destruct (Hall p q Hp Hq Hne) as [_ S]. exact S.
Qed.

(** ====================================================================== *)
(** * 4. The assembled detector *)
Lemma insert_pair_ins : forall x l, insert_pair x l = ins pair_ltb x l.
Proof.
  intros x. induction l as [|y t IH]; simpl; [reflexivity|]. rewrite IH. reflexivity.
Qed.

Lemma sort_pairs_isort : forall l, sort_pairs l = isort pair_ltb l.
Proof.
  unfold sort_pairs, isort. induction l as [|x t IH]; simpl; [reflexivity|].
  rewrite IH, insert_pair_ins. reflexivity.
Qed.

Lemma sort_pairs_perm : forall l, Permutation (sort_pairs l) l.
Proof. intros l. rewrite sort_pairs_isort. apply isort_perm. Qed.

Lemma pair_ltb_true : forall x y, pair_ltb x y = true <->
  (fst x < fst y \/ (fst x = fst y /\ snd x < snd y))%nat.
Proof.
  intros x y. unfold pair_ltb.
  rewrite orb_true_iff, andb_true_iff, !Nat.ltb_lt, Nat.eqb_eq. reflexivity.
Qed.

(** consecutive elements are in (non-strict) lexicographic order *)
Lemma sort_pairs_sorted : forall l i, (S i < length (sort_pairs l))%nat ->
  (fst (nthP (sort_pairs l) i) < fst (nthP (sort_pairs l) (S i)) \/
   (fst (nthP (sort_pairs l) i) = fst (nthP (sort_pairs l) (S i)) /\
    snd (nthP (sort_pairs l) i) <= snd (nthP (sort_pairs l) (S i))))%nat.
Proof.
  intros l i Hi. rewrite sort_pairs_isort in *. unfold nthP.
  pose proof (Sorted_nth _ _ (0, 0)%nat (isort_sorted pair_ltb l) i Hi) as [H | H].
  - apply pair_ltb_true in H. lia.
  - destruct (pair_ltb (nth (S i) (isort pair_ltb l) (0, 0)%nat)
                       (nth i (isort pair_ltb l) (0, 0)%nat)) eqn:E; [discriminate|].
    assert (N : ~ (fst (nth (S i) (isort pair_ltb l) (0, 0)%nat)
                   < fst (nth i (isort pair_ltb l) (0, 0)%nat) \/
                   (fst (nth (S i) (isort pair_ltb l) (0, 0)%nat)
                    = fst (nth i (isort pair_ltb l) (0, 0)%nat) /\
                    snd (nth (S i) (isort pair_ltb l) (0, 0)%nat)
                    < snd (nth i (isort pair_ltb l) (0, 0)%nat)))%nat).
    { intro C. apply pair_ltb_true in C. congruence. }
    lia.
Qed.

(** facts about the per-interval table [map (inner_or_zero LS m) ivs] *)
Lemma cbs_table_facts : forall LS m thr ivs,
  0 <= thr ->
  let am := map (inner_or_zero LS m) ivs in
  length (map fst am) = length ivs /\ length (map snd am) = length ivs /\
  forall i, (i < length ivs)%nat -> thr < nthZ (map snd am) i ->
    In (nthP (map fst am) i)
       (anomaly_intervals (fst (nthP ivs i)) (snd (nthP ivs i)) m).
Proof.
  intros LS m thr ivs Hthr am. unfold am. rewrite !map_length.
  split; [reflexivity|]. split; [reflexivity|].
  intros i Hi Hlt. unfold nthZ, nthP in *.
  rewrite (nth_map_lt snd _ i ((0, 0)%nat, 0) 0) in Hlt by (rewrite map_length; exact Hi).
  rewrite (nth_map_lt fst _ i ((0, 0)%nat, 0) (0, 0)%nat) by (rewrite map_length; exact Hi).
  rewrite (nth_map_lt (inner_or_zero LS m) ivs i (0, 0)%nat) in * by exact Hi.
  destruct (nth i ivs (0, 0)%nat) as [s e]. unfold inner_or_zero in *.
  destruct (best_inner LS m (s, e)) as [[[a z] v]|] eqn:B; simpl in *; [|lia].
  apply best_inner_spec in B. destruct B as [B _]. exact B.
Qed.

Theorem cbs_wellformed : forall LS m thr n ivs anoms am,
  0 <= thr -> (1 <= m)%nat ->
  (forall s e, In (s, e) ivs -> (e <= n)%nat) ->
  cbs LS m thr ivs = Some (anoms, am) ->
  (forall i, (S i < length anoms)%nat ->
     (fst (nthP anoms i) < fst (nthP anoms (S i)) /\
      snd (nthP anoms i) <= fst (nthP anoms (S i)))%nat) /\
  (forall a z, In (a, z) anoms -> (1 <= a /\ a + m <= z /\ z <= n - 1)%nat) /\
  am = map (inner_or_zero LS m) ivs /\
  exists picks,
    greedy_anoms (length ivs) thr ivs (map fst am) (map snd am) = Some picks /\
    anoms = sort_pairs picks /\ Permutation anoms picks.
Proof.
  intros LS m thr n ivs anoms am Hthr Hm Hivs H. unfold cbs in H.
  set (am0 := map (inner_or_zero LS m) ivs) in *.
  destruct (greedy_anoms (length ivs) thr ivs (map fst am0) (map snd am0)) as [picks|] eqn:G;
    [|discriminate].
  inversion H; subst anoms am. clear H.
  destruct (cbs_table_facts LS m thr ivs Hthr) as (L1 & L2 & Hcand). fold am0 in L1, L2, Hcand.
  assert (Hfull : forall i, (i < length ivs)%nat -> thr < nthZ (map snd am0) i ->
            (fst (nthP ivs i) < fst (nthP (map fst am0) i) /\
             fst (nthP (map fst am0) i) + m <= snd (nthP (map fst am0) i) /\
             snd (nthP (map fst am0) i) < snd (nthP ivs i) /\
             snd (nthP ivs i) <= n)%nat).
  { intros i Hi Hlt. specialize (Hcand i Hi Hlt).
    assert (Hin : In (nthP ivs i) ivs) by (apply nth_In; exact Hi).
    destruct (nthP ivs i) as [s e]. destruct (nthP (map fst am0) i) as [a z].
    apply anomaly_intervals_spec in Hcand. apply Hivs in Hin. simpl in *. lia. }
  assert (Hins : inner_inside thr ivs (map fst am0) (map snd am0) (length ivs)).
  { intros i Hi Hlt. destruct (Hfull i Hi Hlt) as (A & B & C & D). lia. }
  pose proof (inner_inside_pre _ _ _ _ _ eq_refl L1 L2 Hthr Hins) as Hpre.
  destruct (greedy_anoms_disjoint _ _ _ _ _ _ _ eq_refl L1 L2 Hthr Hins G) as (ND & _ & Hdis).
  pose proof (sort_pairs_perm picks) as P.
  assert (Hpick : forall p, In p picks ->
            (1 <= fst p /\ fst p + m <= snd p /\ snd p <= n - 1)%nat).
  { intros p Hp.
    destruct (greedy_anoms_supported _ _ _ _ _ _ _ Hpre G p Hp) as (i & Hi & <- & Hlt).
    destruct (Hfull i Hi Hlt) as (A & B & C & D). lia. }
  split; [|split; [|split]].
  - intros i Hi. pose proof (sort_pairs_sorted picks i Hi) as Hle.
    assert (Hne : nthP (sort_pairs picks) i <> nthP (sort_pairs picks) (S i)).
    { intro E. assert (ND' : NoDup (sort_pairs picks))
        by (eapply Permutation_NoDup; [apply Permutation_sym; exact P | exact ND]).
      rewrite (NoDup_nth _ (0, 0)%nat) in ND'.
      specialize (ND' i (S i) ltac:(lia) Hi E). lia. }
    assert (I1 : In (nthP (sort_pairs picks) i) picks)
      by (eapply Permutation_in; [exact P | apply nth_In; lia]).
    assert (I2 : In (nthP (sort_pairs picks) (S i)) picks)
      by (eapply Permutation_in; [exact P | apply nth_In; lia]).
    specialize (Hdis _ _ I1 I2 Hne). unfold disj in Hdis.
    pose proof (Hpick _ I1) as Q1. pose proof (Hpick _ I2) as Q2. lia.
  - intros a z Hc. assert (Hc' : In (a, z) picks)
      by (eapply Permutation_in; [exact P | exact Hc]).
    apply Hpick in Hc'. simpl in Hc'. exact Hc'.
  - reflexivity.
  - exists picks. split; [exact G|]. split; [reflexivity | exact P].
Qed.

Theorem cbs_total : forall LS m thr ivs, 0 <= thr -> exists r, cbs LS m thr ivs = Some r.
Proof.
  intros LS m thr ivs Hthr. unfold cbs.
  set (am0 := map (inner_or_zero LS m) ivs).
  destruct (cbs_table_facts LS m thr ivs Hthr) as (L1 & L2 & Hcand). fold am0 in L1, L2, Hcand.
  assert (Hpre : anoms_pre thr ivs (map fst am0) (map snd am0) (length ivs)).
  { split; [reflexivity|]. split; [exact L1|]. split; [exact L2|]. split; [exact Hthr|].
    intros i Hi Hlt. specialize (Hcand i Hi Hlt).
    destruct (nthP ivs i) as [s e]. destruct (nthP (map fst am0) i) as [a z].
    apply anomaly_intervals_spec in Hcand. simpl in Hcand. unfold overlaps. simpl.
    apply andb_true_iff. split; apply Nat.ltb_lt; lia. }
  destruct (greedy_anoms_terminates _ _ _ _ _ (length ivs) Hpre (le_n _)) as (picks & G & _).
  rewrite G. eauto.
Qed.

Lemma best_inner_ext : forall LS1 LS2 m se,
  (forall s a z e, LS1 s a z e = LS2 s a z e) -> best_inner LS1 m se = best_inner LS2 m se.
Proof.
  intros LS1 LS2 m [s e] H. unfold best_inner.
  rewrite (map_ext (fun ab => LS1 s (fst ab) (snd ab) e) (fun ab => LS2 s (fst ab) (snd ab) e))
    by (intros; apply H).
  reflexivity.
Qed.

Theorem cbs_ext : forall LS1 LS2 m thr ivs,
  (forall s a z e, LS1 s a z e = LS2 s a z e) -> cbs LS1 m thr ivs = cbs LS2 m thr ivs.
Proof.
  intros LS1 LS2 m thr ivs H. unfold cbs.
  rewrite (map_ext (inner_or_zero LS1 m) (inner_or_zero LS2 m)); [reflexivity|].
  intros se. unfold inner_or_zero. rewrite (best_inner_ext LS1 LS2 m se H). reflexivity.
Qed.

Print Assumptions anomaly_intervals_spec.
Print Assumptions anomaly_intervals_nonempty.
Print Assumptions anomaly_intervals_empty.
Print Assumptions best_inner_spec.
Print Assumptions greedy_anoms_terminates.
Print Assumptions greedy_anoms_supported.
Print Assumptions greedy_anoms_complete.
Print Assumptions greedy_anoms_threshold_mono.
Print Assumptions greedy_anoms_threshold_incl.
Print Assumptions greedy_anoms_disjoint.
Print Assumptions cbs_wellformed.
Print Assumptions cbs_total.
Print Assumptions cbs_ext.
