(** C12, end to end over the reals: the symmetries of the score kernels (Proofs/Symmetry.v)
    carried through the search loops of the detectors.

    Data: one column [xs : list R], prefix sums [P1 xs = prefix xs], [P2 xs = prefix (sq xs)]
    (Proofs/Symmetry.v), [n = length xs].

      part 1  [peltR_ext_valid_delay], [peltR_ext_valid]: the real PELT model reads its cost only
              at the intervals [s, e) with s + m <= e <= n;
              [peltR_potential]: adding a potential difference [h e - h s] to the cost leaves
              the changepoints unchanged and moves the optimal values by [h t];
      part 2  SHIFT, PELT (L2 cost, Gaussian mean-and-variance cost, several columns);
      part 3  SHIFT, moving window / seeded binary segmentation / circular binary segmentation
              at the instance [Rn] of the generic loops (CUSUM, change scores, local scores);
      part 4  SCALE by a > 0 for the Gaussian versions of parts 2 and 3;
      part 5  REVERSAL: PELT's optimal penalised cost, and the final score of the run;
      part 6  a concrete instance. *)
From Coq Require Import Reals Lra ZArith List Lia Bool Arith.
From SK Require Import Lib.Base Model.Pelt Model.PeltR Model.Cbs Model.Generic.
From SK Require Import Proofs.PeltSpec Proofs.PeltLemmas Proofs.PeltRefine Proofs.CbsProofs.
From SK Require Import Gen.KernelsR Proofs.RealLib Proofs.CostKernels Proofs.ScoreKernels.
From SK Require Import Proofs.PeltReal Proofs.GenericR Proofs.GenericOrder Proofs.GenericSpec.
From SK Require Import Proofs.ValidCuts Proofs.Symmetry.
Import ListNotations.
Open Scope R_scope.

(* ====================================================================== *)
(** * Part 1: the real PELT model only reads valid cuts *)

Section PeltRValid.
Variables (C1 C2 : nat -> nat -> R) (pen : R) (m delay n : nat).
Hypothesis m_pos : (1 <= m)%nat.
Hypothesis HC : forall s e, (s + m <= e)%nat -> (e <= n)%nat -> C1 s e = C2 s e.

(** state before the iteration for observation index [T]: every retained start leaves
    room for a segment of length >= m ending at [T + 1] *)
Definition PInvR (T : nat) (s : stR) : Prop :=
  forall a, In a (startsR s) -> (a + m <= S T)%nat.

Lemma stepR_starts_incl : forall C s t a,
  In a (startsR (stepR C pen m delay s t)) ->
  In a (startsR s ++ [t - (m - 1)]%nat).
Proof.
  intros C s t a. unfold stepR. cbv zeta.
  destruct (argminR _) as [[i b]|].
  - destruct (delay <? _)%nat; cbn [startsR]; unfold removeall; intros H;
      apply filter_In in H; apply H.
  - intros H. apply in_or_app. left. exact H.
Qed.

Lemma stepR_ext_valid : forall T s,
  (m - 1 <= T)%nat -> (T < n)%nat -> PInvR T s ->
  stepR C1 pen m delay s T = stepR C2 pen m delay s T /\
  PInvR (S T) (stepR C1 pen m delay s T).
Proof.
  intros T s HT HTn HP.
  assert (H1 : forall a, In a (startsR s ++ [T - (m - 1)]%nat) -> (a + m <= S T)%nat).
  { intros a Ha. apply in_app_or in Ha as [Ha|[<-|[]]]; [now apply HP|lia]. }
  split.
  - unfold stepR.
    assert (E : map (fun a => nthR (optR s) a + C1 a (S T) + pen)
                    (startsR s ++ [(T - (m - 1))%nat])
              = map (fun a => nthR (optR s) a + C2 a (S T) + pen)
                    (startsR s ++ [(T - (m - 1))%nat])).
    { apply map_ext_in. intros a Ha. rewrite HC; [reflexivity|now apply H1|lia]. }
    cbv zeta. rewrite E. reflexivity.
  - intros a Ha. apply stepR_starts_incl in Ha. apply H1 in Ha. lia.
Qed.

Lemma initR_ext_valid : (2 * m - 1 <= n)%nat -> initR C1 pen m = initR C2 pen m.
Proof.
  intros Hn. unfold initR. f_equal. f_equal. apply map_ext_in. intros e He.
  apply in_seq in He. apply HC; lia.
Qed.

Lemma runR_ext_valid : (2 * m - 1 <= n)%nat ->
  runR C1 pen m delay n = runR C2 pen m delay n.
Proof.
  intros Hn. unfold runR. rewrite (initR_ext_valid Hn).
  apply (fold_left_seq_ext_inv PInvR).
  - intros T s H1 H2 HP. apply stepR_ext_valid; [lia|lia|exact HP].
  - intros a Ha. unfold initR in Ha. cbn [startsR] in Ha. destruct Ha as [<-|[]]. lia.
Qed.
End PeltRValid.

(** any pruning delay; [2m - 1 <= n] is needed: the initial block reads [C 0 e] for
    m <= e <= 2m - 1 *)
Theorem peltR_ext_valid_delay : forall (C1 C2 : nat -> nat -> R) pen m delay n,
  (1 <= m)%nat -> (2 * m - 1 <= n)%nat ->
  (forall s e, (s + m <= e)%nat -> (e <= n)%nat -> C1 s e = C2 s e) ->
  peltR C1 pen m delay n = peltR C2 pen m delay n.
Proof.
  intros C1 C2 pen m delay n Hm Hn H. unfold peltR.
  rewrite (runR_ext_valid C1 C2 pen m delay n Hm H Hn). reflexivity.
Qed.

Theorem peltR_ext_valid : forall (C1 C2 : nat -> nat -> R) pen m n,
  (1 <= m)%nat -> (2 * m - 1 <= n)%nat ->
  (forall s e, (s + m <= e)%nat -> (e <= n)%nat -> C1 s e = C2 s e) ->
  peltR C1 pen m (m - 1) n = peltR C2 pen m (m - 1) n.
Proof. intros C1 C2 pen m n. apply peltR_ext_valid_delay. Qed.

(** the same on the generic loop at the instance of the reals *)
Corollary gpelt_Rn_ext_valid : forall (C1 C2 : nat -> nat -> R) pen m delay n,
  (1 <= m)%nat -> (2 * m - 1 <= n)%nat ->
  (forall s e, (s + m <= e)%nat -> (e <= n)%nat -> C1 s e = C2 s e) ->
  gpelt Rn C1 pen m delay n = gpelt Rn C2 pen m delay n.
Proof.
  intros C1 C2 pen m delay n Hm Hn H. rewrite !gpelt_R. now apply peltR_ext_valid_delay.
Qed.

(* ====================================================================== *)
(** * Part 1b: a potential added to the cost

    If [C2 s e = C1 s e + (h e - h s)] on the valid cuts, every candidate value of an
    iteration moves by the same amount [h (T+1) - h 0]: the comparisons, hence the
    selected start, the pruned starts and the changepoints are unchanged, and the
    optimal value at [t] moves by [h t - h 0]. *)

Lemma Rltb_add k x y : Rltb (x + k) (y + k) = Rltb x y.
Proof. unfold Rltb. destruct (Rlt_dec (x + k) (y + k)) as [H|H], (Rlt_dec x y) as [H'|H']; try reflexivity; exfalso; lra. Qed.

Lemma Rleb_add k x y : Rleb (x + k) (y + k) = Rleb x y.
Proof. unfold Rleb. destruct (Rle_dec (x + k) (y + k)) as [H|H], (Rle_dec x y) as [H'|H']; try reflexivity; exfalso; lra. Qed.

Definition addsnd (k : R) (p : nat * R) : nat * R := (fst p, snd p + k).

Lemma argminR_from_add k l : forall bi b i,
  argminR_from bi (b + k) i (map (fun x => x + k) l) = addsnd k (argminR_from bi b i l).
Proof.
  induction l as [|x t IH]; intros bi b i; cbn [map argminR_from]; [reflexivity|].
  rewrite Rltb_add. destruct (Rltb x b); apply IH.
Qed.

Lemma argminR_add k l :
  argminR (map (fun x => x + k) l) = option_map (addsnd k) (argminR l).
Proof.
  destruct l as [|x t]; cbn [map argminR option_map]; [reflexivity|].
  now rewrite argminR_from_add.
Qed.

Lemma argminR_none l : argminR l = None -> l = [].
Proof. destruct l; [reflexivity|discriminate]. Qed.

Lemma drop_add (k b pen : R) (l1 : list nat) : forall cz : list R,
  map fst (filter (fun ac : nat * R => negb (Rleb (snd ac) (b + k + pen)))
                  (combine l1 (map (fun x => x + k) cz)))
  = map fst (filter (fun ac : nat * R => negb (Rleb (snd ac) (b + pen))) (combine l1 cz)).
Proof.
  induction l1 as [|a l1 IH]; intros cz; [reflexivity|].
  destruct cz as [|c cz]; [reflexivity|].
  cbn [map combine filter snd].
  replace (b + k + pen) with (b + pen + k) by ring. rewrite Rleb_add.
  destruct (Rleb c (b + pen)); cbn [negb map fst];
    (replace (b + pen + k) with (b + k + pen) by ring); now rewrite IH.
Qed.

Lemma fold_left_seq_rel2 {St} (P : nat -> St -> St -> Prop) (f g : St -> nat -> St) :
  forall k a,
  (forall T s1 s2, (a <= T)%nat -> (T < a + k)%nat -> P T s1 s2 -> P (S T) (f s1 T) (g s2 T)) ->
  forall s1 s2, P a s1 s2 ->
  P (a + k)%nat (fold_left f (seq a k) s1) (fold_left g (seq a k) s2).
Proof.
  induction k as [|k IH]; intros a Hstep s1 s2 H0.
  - cbn [seq fold_left]. now rewrite Nat.add_0_r.
  - cbn [seq fold_left]. replace (a + S k)%nat with (S a + k)%nat by lia.
    apply IH.
    + intros T t1 t2 H1 H2 HP. apply Hstep; [lia|lia|exact HP].
    + apply Hstep; [lia|lia|exact H0].
Qed.

Section PeltRPotential.
Variables (C1 C2 : nat -> nat -> R) (h : nat -> R) (pen : R) (m delay n : nat).
Hypothesis m_pos : (1 <= m)%nat.
Hypothesis HC : forall s e, (s + m <= e)%nat -> (e <= n)%nat -> C2 s e = C1 s e + (h e - h s).

Record PRel (T : nat) (s1 s2 : stR) : Prop := {
  pr_prev : prevR s2 = prevR s1;
  pr_starts : startsR s2 = startsR s1;
  pr_pend : pendingR s2 = pendingR s1;
  pr_len1 : length (optR s1) = S T;
  pr_len2 : length (optR s2) = S T;
  pr_valid : forall a, In a (startsR s1) -> (a = 0 \/ m <= a)%nat /\ (a + m <= S T)%nat;
  pr_opt : forall i, (i <= T)%nat -> (i = 0 \/ m <= i)%nat ->
             nthR (optR s2) i = nthR (optR s1) i + (h i - h 0%nat) }.

Lemma initR_PRel : (2 * m - 1 <= n)%nat -> PRel (2 * m - 1) (initR C1 pen m) (initR C2 pen m).
Proof.
  intros Hn. constructor.
  - reflexivity.
  - reflexivity.
  - reflexivity.
  - apply initR_len_opt; exact m_pos.
  - apply initR_len_opt; exact m_pos.
  - unfold initR. cbn [startsR]. intros a [<-|[]]. split; [now left|lia].
  - intros i Hi [->|Hm].
    + rewrite !initR_opt_small by lia. ring.
    + rewrite !initR_opt_mid by lia. apply HC; lia.
Qed.

Lemma stepR_PRel T s1 s2 : (2 * m - 1 <= T)%nat -> (T < n)%nat ->
  PRel T s1 s2 -> PRel (S T) (stepR C1 pen m delay s1 T) (stepR C2 pen m delay s2 T).
Proof.
  intros HT HTn [Hp Hs Hq Hl1 Hl2 Hv Ho].
  destruct s1 as [o1 p1 st1 q1], s2 as [o2 p2 st2 q2]. cbn [optR prevR startsR pendingR] in *.
  subst p2 st2 q2.
  unfold stepR. cbn [optR prevR startsR pendingR]. cbv zeta.
  set (starts1 := st1 ++ [(T - (m - 1))%nat]).
  assert (Hv1 : forall a, In a starts1 -> (a = 0 \/ m <= a)%nat /\ (a + m <= S T)%nat).
  { intros a Ha. unfold starts1 in Ha. apply in_app_or in Ha as [Ha|[<-|[]]].
    - destruct (Hv a Ha) as [H1 H2]. split; [exact H1|lia].
    - split; [right; lia|lia]. }
  set (k := h (S T) - h 0%nat).
  assert (E : map (fun a => nthR o2 a + C2 a (S T) + pen) starts1
            = map (fun x => x + k) (map (fun a => nthR o1 a + C1 a (S T) + pen) starts1)).
  { rewrite map_map. apply map_ext_in. intros a Ha. destruct (Hv1 a Ha) as [H1 H2].
    rewrite Ho by (try exact H1; lia). rewrite HC by lia. unfold k. ring. }
  rewrite E, argminR_add.
  destruct (argminR (map (fun a => nthR o1 a + C1 a (S T) + pen) starts1)) as [[i b]|] eqn:Harg.
  - cbn [option_map addsnd fst snd]. rewrite drop_add.
    set (drop := map fst (filter _ _)).
    assert (Hnew : forall j, (j <= S T)%nat -> (j = 0 \/ m <= j)%nat ->
              nthR (o2 ++ [b + k]) j = nthR (o1 ++ [b]) j + (h j - h 0%nat)).
    { intros j Hj Hjm. unfold nthR. destruct (Nat.eq_dec j (S T)) as [->|Hne].
      - rewrite !app_nth2 by lia. rewrite Hl1, Hl2, Nat.sub_diag. cbn [nth]. unfold k. ring.
      - rewrite !app_nth1 by lia. apply Ho; [lia|exact Hjm]. }
    destruct (delay <? length (q1 ++ [drop]))%nat;
      constructor; cbn [optR prevR startsR pendingR];
      try reflexivity; try (rewrite app_length; cbn [length]; lia); try exact Hnew.
    + intros a Ha. apply in_removeall in Ha as [Ha _]. destruct (Hv1 a Ha) as [H1 H2].
      split; [exact H1|lia].
    + intros a Ha. apply in_removeall in Ha as [Ha _]. destruct (Hv1 a Ha) as [H1 H2].
      split; [exact H1|lia].
  - exfalso. apply argminR_none, map_eq_nil in Harg. unfold starts1 in Harg.
    destruct st1; discriminate.
Qed.

Lemma runR_PRel : (2 * m - 1 <= n)%nat ->
  PRel n (runR C1 pen m delay n) (runR C2 pen m delay n).
Proof.
  intros Hn. unfold runR.
  replace n with (2 * m - 1 + (n - (2 * m - 1)))%nat at 1 by lia.
  apply (fold_left_seq_rel2 PRel).
  - intros T s1 s2 H1 H2 HP. apply stepR_PRel; [lia|lia|exact HP].
  - now apply initR_PRel.
Qed.
End PeltRPotential.

Theorem peltR_potential : forall (C1 C2 : nat -> nat -> R) (h : nat -> R) pen m delay n,
  (1 <= m)%nat -> (2 * m - 1 <= n)%nat ->
  (forall s e, (s + m <= e)%nat -> (e <= n)%nat -> C2 s e = C1 s e + (h e - h s)) ->
  snd (peltR C2 pen m delay n) = snd (peltR C1 pen m delay n) /\
  forall t, (m <= t <= n)%nat ->
    nth (t - 1) (fst (peltR C2 pen m delay n)) 0
    = nth (t - 1) (fst (peltR C1 pen m delay n)) 0 + (h t - h 0%nat).
Proof.
  intros C1 C2 h pen m delay n Hm Hn HC.
  destruct (runR_PRel C1 C2 h pen m delay n Hm HC Hn) as [Hp _ _ _ _ _ Ho].
  unfold peltR. cbn [fst snd]. split.
  - now rewrite Hp.
  - intros t Ht. rewrite !nth_tl. replace (S (t - 1)) with t by lia.
    apply Ho; [lia|right; lia].
Qed.

(* ====================================================================== *)
(** * Part 2: SHIFT, PELT *)

(** the two built-in costs of a column (squared error around the fitted mean; Gaussian
    likelihood at the fitted mean and variance) *)
Definition l2_of (xs : list R) : nat -> nat -> R :=
  l2_cost_optim_R (prefix xs) (prefix (sq xs)).
Definition gvar_of (xs : list R) : nat -> nat -> R :=
  gaussian_var_cost_optim_R (prefix xs) (prefix (sq xs)).

Lemma l2_of_shift c xs s e : (s < e <= length xs)%nat -> l2_of (shift c xs) s e = l2_of xs s e.
Proof. intros H. exact (l2_optim_shift c xs s e H). Qed.

Lemma l2_of_slice xs s e : (s < e <= length xs)%nat -> l2_of xs s e = l2L (slice s e xs).
Proof. intros H. exact (l2_optim_slice xs s e H). Qed.

Lemma gvar_of_slice xs s e : (s < e <= length xs)%nat -> gvar_of xs s e = gvarL (slice s e xs).
Proof. intros H. exact (gvar_optim_slice xs s e H). Qed.

Lemma gvar_of_shift c xs s e : (s < e <= length xs)%nat -> gvar_of (shift c xs) s e = gvar_of xs s e.
Proof. intros H. exact (gvar_optim_shift c xs s e H). Qed.

(** any pruning delay *)
Theorem pelt_l2_shift_delay (c : R) (xs : list R) (pen : R) (m delay : nat) :
  (1 <= m)%nat -> (2 * m - 1 <= length xs)%nat ->
  peltR (l2_cost_optim_R (prefix (shift c xs)) (prefix (sq (shift c xs)))) pen m delay (length xs)
  = peltR (l2_cost_optim_R (prefix xs) (prefix (sq xs))) pen m delay (length xs).
Proof.
  intros Hm Hn. apply peltR_ext_valid_delay; [exact Hm|exact Hn|].
  intros s e H1 H2. apply (l2_of_shift c xs s e). lia.
Qed.

Theorem pelt_l2_shift (c : R) (xs : list R) (pen : R) (m : nat) :
  (1 <= m)%nat -> (2 * m - 1 <= length xs)%nat ->
  peltR (l2_cost_optim_R (prefix (shift c xs)) (prefix (sq (shift c xs)))) pen m (m - 1) (length xs)
  = peltR (l2_cost_optim_R (prefix xs) (prefix (sq xs))) pen m (m - 1) (length xs).
Proof. apply pelt_l2_shift_delay. Qed.

Theorem pelt_gvar_shift_delay (c : R) (xs : list R) (pen : R) (m delay : nat) :
  (1 <= m)%nat -> (2 * m - 1 <= length xs)%nat ->
  peltR (gaussian_var_cost_optim_R (prefix (shift c xs)) (prefix (sq (shift c xs)))) pen m delay (length xs)
  = peltR (gaussian_var_cost_optim_R (prefix xs) (prefix (sq xs))) pen m delay (length xs).
Proof.
  intros Hm Hn. apply peltR_ext_valid_delay; [exact Hm|exact Hn|].
  intros s e H1 H2. apply (gvar_of_shift c xs s e). lia.
Qed.

Theorem pelt_gvar_shift (c : R) (xs : list R) (pen : R) (m : nat) :
  (1 <= m)%nat -> (2 * m - 1 <= length xs)%nat ->
  peltR (gaussian_var_cost_optim_R (prefix (shift c xs)) (prefix (sq (shift c xs)))) pen m (m - 1) (length xs)
  = peltR (gaussian_var_cost_optim_R (prefix xs) (prefix (sq xs))) pen m (m - 1) (length xs).
Proof. apply pelt_gvar_shift_delay. Qed.

(** the same on the generic loop at the instance of the reals (the definition that is
    executed on binary64 tables) *)
Corollary gpelt_l2_shift (c : R) (xs : list R) (pen : R) (m : nat) :
  (1 <= m)%nat -> (2 * m - 1 <= length xs)%nat ->
  gpelt Rn (l2_cost_optim_R (prefix (shift c xs)) (prefix (sq (shift c xs)))) pen m (m - 1) (length xs)
  = gpelt Rn (l2_cost_optim_R (prefix xs) (prefix (sq xs))) pen m (m - 1) (length xs).
Proof. intros Hm Hn. rewrite !gpelt_R. now apply pelt_l2_shift. Qed.

Corollary gpelt_gvar_shift (c : R) (xs : list R) (pen : R) (m : nat) :
  (1 <= m)%nat -> (2 * m - 1 <= length xs)%nat ->
  gpelt Rn (gaussian_var_cost_optim_R (prefix (shift c xs)) (prefix (sq (shift c xs)))) pen m (m - 1) (length xs)
  = gpelt Rn (gaussian_var_cost_optim_R (prefix xs) (prefix (sq xs))) pen m (m - 1) (length xs).
Proof. intros Hm Hn. rewrite !gpelt_R. now apply pelt_gvar_shift. Qed.

(** several columns, each shifted by its own constant: [cxs] lists (constant, column);
    the aggregated cost is the sum over the columns ([l2_multi] of Proofs/PeltReal.v) *)
Definition shift_cols (cxs : list (R * list R)) : list (list R) :=
  map (fun cx => shift (fst cx) (snd cx)) cxs.

Lemma l2_multi_shift (cxs : list (R * list R)) (n s e : nat) :
  (forall cx, In cx cxs -> length (snd cx) = n) -> (s < e <= n)%nat ->
  l2_multi (shift_cols cxs) s e = l2_multi (map snd cxs) s e.
Proof.
  intros Hlen H. unfold l2_multi, shift_cols. rewrite !map_map. f_equal.
  apply map_ext_in. intros [c xs] Hin. cbn [fst snd].
  apply (l2_of_shift c xs s e). pose proof (Hlen (c, xs) Hin) as Hl. cbn [snd] in Hl. rewrite Hl. exact H.
Qed.

Theorem pelt_l2_multicolumn_shift (cxs : list (R * list R)) (pen : R) (m delay n : nat) :
  (1 <= m)%nat -> (2 * m - 1 <= n)%nat ->
  (forall cx, In cx cxs -> length (snd cx) = n) ->
  peltR (l2_multi (shift_cols cxs)) pen m delay n = peltR (l2_multi (map snd cxs)) pen m delay n.
Proof.
  intros Hm Hn Hlen. apply peltR_ext_valid_delay; [exact Hm|exact Hn|].
  intros s e H1 H2. apply (l2_multi_shift cxs n); [exact Hlen|lia].
Qed.

(* ====================================================================== *)
(** * Part 3: SHIFT, the greedy detectors at the instance of the reals *)

Local Notation cscore := ScoreKernels.change_score.

Lemma cscore_ext (C C' : nat -> nat -> R) n s k e :
  (forall a b, (a < b <= n)%nat -> C' a b = C a b) ->
  (s < k < e)%nat -> (e <= n)%nat -> cscore C' s k e = cscore C s k e.
Proof. intros HC H He. unfold ScoreKernels.change_score. rewrite !HC by lia. reflexivity. Qed.

Lemma cusum_prefix_shift c xs s k e : (s < k < e)%nat -> (e <= length xs)%nat ->
  cusum_score_R (prefix (shift c xs)) s k e = cusum_score_R (prefix xs) s k e.
Proof. intros H He. exact (cusum_shift c xs s k e H He). Qed.

Lemma l2_cscore_shift c xs s k e : (s < k < e)%nat -> (e <= length xs)%nat ->
  cscore (l2_of (shift c xs)) s k e = cscore (l2_of xs) s k e.
Proof.
  intros H He. apply (cscore_ext _ _ (length xs)); [|exact H|exact He].
  intros a b Hab. now apply l2_of_shift.
Qed.

Lemma gvar_cscore_shift c xs s k e : (s < k < e)%nat -> (e <= length xs)%nat ->
  cscore (gvar_of (shift c xs)) s k e = cscore (gvar_of xs) s k e.
Proof.
  intros H He. apply (cscore_ext _ _ (length xs)); [|exact H|exact He].
  intros a b Hab. now apply gvar_of_shift.
Qed.

(** ** moving window: bandwidth [b >= 1], the cuts read are (t - b, t, t + b) inside [0, n] *)
Theorem mw_cusum_shift (c : R) (xs : list R) (b : nat) (thr : R) (mdi : nat) :
  (1 <= b)%nat ->
  gmw Rn (cusum_score_R (prefix (shift c xs))) b (length xs) thr mdi
  = gmw Rn (cusum_score_R (prefix xs)) b (length xs) thr mdi.
Proof.
  intros Hb. apply G08_only_valid_cuts_matter. intros t H1 H2.
  apply cusum_prefix_shift; lia.
Qed.

Theorem mw_l2_shift (c : R) (xs : list R) (b : nat) (thr : R) (mdi : nat) :
  (1 <= b)%nat ->
  gmw Rn (ScoreKernels.change_score (l2_cost_optim_R (prefix (shift c xs)) (prefix (sq (shift c xs)))))
      b (length xs) thr mdi
  = gmw Rn (ScoreKernels.change_score (l2_cost_optim_R (prefix xs) (prefix (sq xs))))
      b (length xs) thr mdi.
Proof.
  intros Hb. apply G08_only_valid_cuts_matter. intros t H1 H2.
  apply (l2_cscore_shift c xs); lia.
Qed.

Theorem mw_gvar_shift (c : R) (xs : list R) (b : nat) (thr : R) (mdi : nat) :
  (1 <= b)%nat ->
  gmw Rn (ScoreKernels.change_score (gaussian_var_cost_optim_R (prefix (shift c xs)) (prefix (sq (shift c xs)))))
      b (length xs) thr mdi
  = gmw Rn (ScoreKernels.change_score (gaussian_var_cost_optim_R (prefix xs) (prefix (sq xs))))
      b (length xs) thr mdi.
Proof.
  intros Hb. apply G08_only_valid_cuts_matter. intros t H1 H2.
  apply (gvar_cscore_shift c xs); lia.
Qed.

(** ** seeded binary segmentation: any list of intervals inside [0, n], minimum size [m >= 1] *)
Definition ivs_inside (ivs : list (nat * nat)) (n : nat) : Prop :=
  forall s e, In (s, e) ivs -> (e <= n)%nat.

Theorem sbs_cusum_shift (c : R) (xs : list R) (m : nat) (thr : R) (ivs : list (nat * nat)) :
  (1 <= m)%nat -> ivs_inside ivs (length xs) ->
  gsbs Rn (cusum_score_R (prefix (shift c xs))) m thr ivs
  = gsbs Rn (cusum_score_R (prefix xs)) m thr ivs.
Proof.
  intros Hm Hiv. apply G07_only_valid_cuts_matter. intros s e k Hin H1 H2.
  pose proof (Hiv s e Hin) as He. apply cusum_prefix_shift; lia.
Qed.

Theorem sbs_l2_shift (c : R) (xs : list R) (m : nat) (thr : R) (ivs : list (nat * nat)) :
  (1 <= m)%nat -> ivs_inside ivs (length xs) ->
  gsbs Rn (ScoreKernels.change_score (l2_cost_optim_R (prefix (shift c xs)) (prefix (sq (shift c xs))))) m thr ivs
  = gsbs Rn (ScoreKernels.change_score (l2_cost_optim_R (prefix xs) (prefix (sq xs)))) m thr ivs.
Proof.
  intros Hm Hiv. apply G07_only_valid_cuts_matter. intros s e k Hin H1 H2.
  pose proof (Hiv s e Hin) as He. apply (l2_cscore_shift c xs); lia.
Qed.

Theorem sbs_gvar_shift (c : R) (xs : list R) (m : nat) (thr : R) (ivs : list (nat * nat)) :
  (1 <= m)%nat -> ivs_inside ivs (length xs) ->
  gsbs Rn (ScoreKernels.change_score (gaussian_var_cost_optim_R (prefix (shift c xs)) (prefix (sq (shift c xs))))) m thr ivs
  = gsbs Rn (ScoreKernels.change_score (gaussian_var_cost_optim_R (prefix xs) (prefix (sq xs)))) m thr ivs.
Proof.
  intros Hm Hiv. apply G07_only_valid_cuts_matter. intros s e k Hin H1 H2.
  pose proof (Hiv s e Hin) as He. apply (gvar_cscore_shift c xs); lia.
Qed.

(** ** circular binary segmentation

    The local anomaly score of the cut (s, i, j, e) compares the cost of the whole
    interval [s, e) with the cost of the inner part [i, j) plus the cost of the
    surroundings [s, i) and [j, e) POOLED into one sample.  The pooled sample is not an
    interval of the column, so its cost is not a value of the prefix-sum kernel at two
    indices; it is the list-level statistic of Proofs/Symmetry.v ([l2L], [gvarL]: the
    same function of length, sum and sum of squares, [l2_optim_slice] /
    [gvar_optim_slice]) of the concatenated slices, plugged into the adapter
    [local_score] of Proofs/ScoreKernels.v. *)
Definition pooled (xs : list R) (s i j e : nat) : list R := slice s i xs ++ slice j e xs.

Definition l2_local (xs : list R) (s i j e : nat) : R :=
  local_score (l2_of xs) (l2L (pooled xs s i j e)) s i j e.
Definition gvar_local (xs : list R) (s i j e : nat) : R :=
  local_score (gvar_of xs) (gvarL (pooled xs s i j e)) s i j e.

Lemma pooled_shift c xs s i j e : pooled (shift c xs) s i j e = shift c (pooled xs s i j e).
Proof. unfold pooled. now rewrite !slice_shift, shift_app. Qed.

Lemma pooled_length xs s i j e : (s <= i)%nat -> (i <= j)%nat -> (j <= e)%nat -> (e <= length xs)%nat ->
  length (pooled xs s i j e) = ((i - s) + (e - j))%nat.
Proof. intros H1 H2 H3 H4. unfold pooled. rewrite app_length, !slice_length by lia. reflexivity. Qed.

(** on valid cuts these are the list-level local scores of Proofs/Symmetry.v *)
Lemma l2_local_is_listscore xs s i j e : (s < i)%nat -> (i < j)%nat -> (j < e)%nat -> (e <= length xs)%nat ->
  l2_local xs s i j e
  = local_listscore l2L (slice s e xs) (slice i j xs) (slice s i xs) (slice j e xs).
Proof.
  intros H1 H2 H3 H4. unfold l2_local, local_score, local_listscore, pooled.
  rewrite (l2_of_slice xs s e) by lia. rewrite (l2_of_slice xs i j) by lia. ring.
Qed.

Lemma gvar_local_is_listscore xs s i j e : (s < i)%nat -> (i < j)%nat -> (j < e)%nat -> (e <= length xs)%nat ->
  gvar_local xs s i j e
  = local_listscore gvarL (slice s e xs) (slice i j xs) (slice s i xs) (slice j e xs).
Proof.
  intros H1 H2 H3 H4. unfold gvar_local, local_score, local_listscore, pooled.
  rewrite (gvar_of_slice xs s e) by lia. rewrite (gvar_of_slice xs i j) by lia. ring.
Qed.

Lemma l2_local_shift c xs s i j e : (s < i)%nat -> (i < j)%nat -> (j < e)%nat -> (e <= length xs)%nat ->
  l2_local (shift c xs) s i j e = l2_local xs s i j e.
Proof.
  intros H1 H2 H3 H4. unfold l2_local, local_score.
  rewrite pooled_shift, l2L_shift by (rewrite pooled_length; lia).
  rewrite !l2_of_shift by lia. reflexivity.
Qed.

Lemma gvar_local_shift c xs s i j e : (s < i)%nat -> (i < j)%nat -> (j < e)%nat -> (e <= length xs)%nat ->
  gvar_local (shift c xs) s i j e = gvar_local xs s i j e.
Proof.
  intros H1 H2 H3 H4. unfold gvar_local, local_score.
  rewrite pooled_shift, gvarL_shift by (rewrite pooled_length; lia).
  rewrite !gvar_of_shift by lia. reflexivity.
Qed.

Theorem cbs_l2_shift (c : R) (xs : list R) (m : nat) (thr : R) (ivs : list (nat * nat)) :
  (1 <= m)%nat -> ivs_inside ivs (length xs) ->
  gcbs Rn (l2_local (shift c xs)) m thr ivs = gcbs Rn (l2_local xs) m thr ivs.
Proof.
  intros Hm Hiv. apply G09_only_valid_cuts_matter. intros s e i j Hin Hij.
  pose proof (Hiv s e Hin) as He. apply anomaly_intervals_valid in Hij as (A1 & A2 & A3 & A4).
  apply l2_local_shift; lia.
Qed.

Theorem cbs_gvar_shift (c : R) (xs : list R) (m : nat) (thr : R) (ivs : list (nat * nat)) :
  (1 <= m)%nat -> ivs_inside ivs (length xs) ->
  gcbs Rn (gvar_local (shift c xs)) m thr ivs = gcbs Rn (gvar_local xs) m thr ivs.
Proof.
  intros Hm Hiv. apply G09_only_valid_cuts_matter. intros s e i j Hin Hij.
  pose proof (Hiv s e Hin) as He. apply anomaly_intervals_valid in Hij as (A1 & A2 & A3 & A4).
  apply gvar_local_shift; lia.
Qed.

(* ====================================================================== *)
(** * Part 4: SCALE by a > 0, Gaussian mean-and-variance cost

    The generated Gaussian cost clips the variance estimate at [floor_var] = 1e-16, so
    the kernel identity [gvar_optim_scale] needs the un-floored variance [uvar_se] of
    the segment to be at least the floor both before and after scaling (with a floor
    that is active on one side only the identity is false).  [floor_ok a xs s e] is
    that pair of conditions for the segment [s, e); every theorem below asks for it
    exactly on the segments the search reads. *)

Definition floor_ok (a : R) (xs : list R) (s e : nat) : Prop :=
  floor_var <= uvar_se xs s e /\ floor_var <= uvar_se (scale a xs) s e.

(** scaling up never takes a variance below the floor *)
Lemma floor_ok_scale_up a xs s e : 1 <= a -> (s < e <= length xs)%nat ->
  floor_var <= uvar_se xs s e -> floor_ok a xs s e.
Proof.
  intros Ha H Hf. split; [exact Hf|]. apply above_floor_scale; [exact H|nra|exact Hf].
Qed.

Lemma gvar_of_scale a xs s e : 0 < a -> (s < e <= length xs)%nat -> floor_ok a xs s e ->
  gvar_of (scale a xs) s e = gvar_of xs s e + INR (e - s) * ln (a ^ 2).
Proof. intros Ha H [F F']. exact (gvar_optim_scale a xs s e Ha H F F'). Qed.

Lemma gvar_cscore_scale a xs s k e : 0 < a -> (s < k < e)%nat -> (e <= length xs)%nat ->
  floor_ok a xs s e -> floor_ok a xs s k -> floor_ok a xs k e ->
  cscore (gvar_of (scale a xs)) s k e = cscore (gvar_of xs) s k e.
Proof.
  intros Ha H He [F1 F1'] [F2 F2'] [F3 F3'].
  pose proof (gvar_change_score_scale a xs s k e Ha H He F1 F1' F2 F2' F3 F3') as G.
  cbv zeta in G. unfold ScoreKernels.change_score. exact G.
Qed.

(** ** PELT: the cost of [s, e) moves by (e - s) ln a^2, a potential difference: the
       changepoints are unchanged and the optimal value at [t] moves by t ln a^2 *)
Theorem pelt_gvar_scale_delay (a : R) (xs : list R) (pen : R) (m delay : nat) :
  0 < a -> (1 <= m)%nat -> (2 * m - 1 <= length xs)%nat ->
  (forall s e, (s + m <= e)%nat -> (e <= length xs)%nat -> floor_ok a xs s e) ->
  let out  := peltR (gaussian_var_cost_optim_R (prefix xs) (prefix (sq xs))) pen m delay (length xs) in
  let out' := peltR (gaussian_var_cost_optim_R (prefix (scale a xs)) (prefix (sq (scale a xs))))
                    pen m delay (length xs) in
  snd out' = snd out /\
  forall t, (m <= t <= length xs)%nat ->
    nth (t - 1) (fst out') 0 = nth (t - 1) (fst out) 0 + INR t * ln (a ^ 2).
Proof.
  intros Ha Hm Hn Hf out out'.
  destruct (peltR_potential (gvar_of xs) (gvar_of (scale a xs)) (fun i => INR i * ln (a ^ 2))
              pen m delay (length xs) Hm Hn) as [Hc Hs].
  - intros s e H1 H2. rewrite gvar_of_scale by (try exact Ha; try (apply Hf; lia); lia).
    rewrite minus_INR by lia. ring.
  - split; [exact Hc|]. intros t Ht. unfold out, out'. fold (gvar_of xs). fold (gvar_of (scale a xs)).
    rewrite (Hs t Ht). cbn [INR]. ring.
Qed.

Theorem pelt_gvar_scale (a : R) (xs : list R) (pen : R) (m : nat) :
  0 < a -> (1 <= m)%nat -> (2 * m - 1 <= length xs)%nat ->
  (forall s e, (s + m <= e)%nat -> (e <= length xs)%nat -> floor_ok a xs s e) ->
  snd (peltR (gaussian_var_cost_optim_R (prefix (scale a xs)) (prefix (sq (scale a xs))))
             pen m (m - 1) (length xs))
  = snd (peltR (gaussian_var_cost_optim_R (prefix xs) (prefix (sq xs))) pen m (m - 1) (length xs)).
Proof.
  intros Ha Hm Hn Hf. exact (proj1 (pelt_gvar_scale_delay a xs pen m (m - 1) Ha Hm Hn Hf)).
Qed.

(** for a >= 1 the condition on the original data is enough *)
Corollary pelt_gvar_scale_up (a : R) (xs : list R) (pen : R) (m : nat) :
  1 <= a -> (1 <= m)%nat -> (2 * m - 1 <= length xs)%nat ->
  (forall s e, (s + m <= e)%nat -> (e <= length xs)%nat -> floor_var <= uvar_se xs s e) ->
  snd (peltR (gaussian_var_cost_optim_R (prefix (scale a xs)) (prefix (sq (scale a xs))))
             pen m (m - 1) (length xs))
  = snd (peltR (gaussian_var_cost_optim_R (prefix xs) (prefix (sq xs))) pen m (m - 1) (length xs)).
Proof.
  intros Ha Hm Hn Hf. apply pelt_gvar_scale; [lra|exact Hm|exact Hn|].
  intros s e H1 H2. apply floor_ok_scale_up; [exact Ha|lia|now apply Hf].
Qed.

(** ** moving window *)
Theorem mw_gvar_scale (a : R) (xs : list R) (b : nat) (thr : R) (mdi : nat) :
  0 < a -> (1 <= b)%nat ->
  (forall t, (b <= t)%nat -> (t + b <= length xs)%nat ->
     floor_ok a xs (t - b) (t + b) /\ floor_ok a xs (t - b) t /\ floor_ok a xs t (t + b)) ->
  gmw Rn (ScoreKernels.change_score (gaussian_var_cost_optim_R (prefix (scale a xs)) (prefix (sq (scale a xs)))))
      b (length xs) thr mdi
  = gmw Rn (ScoreKernels.change_score (gaussian_var_cost_optim_R (prefix xs) (prefix (sq xs))))
      b (length xs) thr mdi.
Proof.
  intros Ha Hb Hf. apply G08_only_valid_cuts_matter. intros t H1 H2.
  destruct (Hf t H1 H2) as (F1 & F2 & F3).
  apply (gvar_cscore_scale a xs); try assumption; lia.
Qed.

(** ** seeded binary segmentation *)
Theorem sbs_gvar_scale (a : R) (xs : list R) (m : nat) (thr : R) (ivs : list (nat * nat)) :
  0 < a -> (1 <= m)%nat -> ivs_inside ivs (length xs) ->
  (forall s e k, In (s, e) ivs -> (s + m <= k)%nat -> (k + m <= e)%nat ->
     floor_ok a xs s e /\ floor_ok a xs s k /\ floor_ok a xs k e) ->
  gsbs Rn (ScoreKernels.change_score (gaussian_var_cost_optim_R (prefix (scale a xs)) (prefix (sq (scale a xs))))) m thr ivs
  = gsbs Rn (ScoreKernels.change_score (gaussian_var_cost_optim_R (prefix xs) (prefix (sq xs)))) m thr ivs.
Proof.
  intros Ha Hm Hiv Hf. apply G07_only_valid_cuts_matter. intros s e k Hin H1 H2.
  pose proof (Hiv s e Hin) as He. destruct (Hf s e k Hin H1 H2) as (F1 & F2 & F3).
  apply (gvar_cscore_scale a xs); try assumption; lia.
Qed.

(** ** circular binary segmentation: the pooled surroundings are a sample of their own *)
Definition pooled_floor_ok (a : R) (xs : list R) (s i j e : nat) : Prop :=
  floor_var <= uvar (pooled xs s i j e) /\ floor_var <= uvar (pooled (scale a xs) s i j e).

Lemma pooled_scale a xs s i j e : pooled (scale a xs) s i j e = scale a (pooled xs s i j e).
Proof. unfold pooled. now rewrite !slice_scale, scale_app. Qed.

Lemma gvar_local_scale a xs s i j e :
  0 < a -> (s < i)%nat -> (i < j)%nat -> (j < e)%nat -> (e <= length xs)%nat ->
  floor_ok a xs s e -> floor_ok a xs i j -> pooled_floor_ok a xs s i j e ->
  gvar_local (scale a xs) s i j e = gvar_local xs s i j e.
Proof.
  intros Ha H1 H2 H3 H4 Fw Fi [Fp Fp']. unfold gvar_local, local_score.
  rewrite pooled_scale in Fp' |- *.
  rewrite (gvarL_scale a (pooled xs s i j e)); [|lra|rewrite pooled_length; lia|exact Fp|exact Fp'].
  rewrite !gvar_of_scale by (try assumption; lia).
  rewrite pooled_length by lia.
  replace (e - s)%nat with ((j - i) + ((i - s) + (e - j)))%nat by lia.
  rewrite (plus_INR (j - i)). ring.
Qed.

Theorem cbs_gvar_scale (a : R) (xs : list R) (m : nat) (thr : R) (ivs : list (nat * nat)) :
  0 < a -> (1 <= m)%nat -> ivs_inside ivs (length xs) ->
  (forall s e i j, In (s, e) ivs -> In (i, j) (anomaly_intervals s e m) ->
     floor_ok a xs s e /\ floor_ok a xs i j /\ pooled_floor_ok a xs s i j e) ->
  gcbs Rn (gvar_local (scale a xs)) m thr ivs = gcbs Rn (gvar_local xs) m thr ivs.
Proof.
  intros Ha Hm Hiv Hf. apply G09_only_valid_cuts_matter. intros s e i j Hin Hij.
  pose proof (Hiv s e Hin) as He. destruct (Hf s e i j Hin Hij) as (F1 & F2 & F3).
  apply anomaly_intervals_valid in Hij as (A1 & A2 & A3 & A4).
  apply gvar_local_scale; try assumption; lia.
Qed.

(* ====================================================================== *)
(** * Part 5: REVERSAL, PELT's optimal penalised cost *)

(** the cost of the mirrored interval (twin of [Crev] of Proofs/PeltRefine.v) *)
Definition CrevR (C : nat -> nat -> R) (n : nat) : nat -> nat -> R :=
  fun s e => C (n - e)%nat (n - s)%nat.

Section ReverseR.
Variable C : nat -> nat -> R.
Variable pen : R.
Variable m n : nat.
Hypothesis m_pos : (1 <= m)%nat.

Lemma segcostR_rev : forall c p T, admseg m p c T -> (T <= n)%nat ->
  segcostR (CrevR C n) (n - T) (revc n c) (n - p) = segcostR C p c T.
Proof.
  induction c as [|a l IH]; intros p T H HT.
  - cbn [admseg] in H. unfold revc. cbn [map rev segcostR].
    unfold CrevR. f_equal; lia.
  - cbn [admseg] in H. destruct H as [H1 H2].
    pose proof (admseg_ge m m_pos a l T H2) as Hge.
    rewrite revc_cons, segcostR_snoc, (IH a T H2 HT). cbn [segcostR].
    unfold CrevR. replace (n - (n - p))%nat with p by lia. replace (n - (n - a))%nat with a by lia.
    lra.
Qed.

Lemma admsegR_rev : forall c p T, admseg m p c T -> (T <= n)%nat ->
  admseg m (n - T) (revc n c) (n - p).
Proof.
  induction c as [|a l IH]; intros p T H HT.
  - cbn [admseg] in H. unfold revc. cbn [map rev admseg]. lia.
  - cbn [admseg] in H. destruct H as [H1 H2].
    pose proof (admseg_ge m m_pos a l T H2) as Hge.
    rewrite revc_cons. apply admsegN_snoc. split; [now apply IH|lia].
Qed.

Lemma pencostR_rev c : Adm m c n ->
  Adm m (revc n c) n /\ pencostR (CrevR C n) pen (revc n c) n = pencostR C pen c n.
Proof.
  intros A. unfold Adm in *. split.
  - pose proof (admsegR_rev c 0%nat n A (le_n n)) as H.
    now rewrite Nat.sub_diag, Nat.sub_0_r in H.
  - unfold pencostR. rewrite revc_length.
    pose proof (segcostR_rev c 0%nat n A (le_n n)) as H.
    rewrite Nat.sub_diag, Nat.sub_0_r in H. now rewrite H.
Qed.

Theorem FR_reverse : FR (CrevR C n) pen m n = FR C pen m n.
Proof.
  destruct (lt_dec n m) as [Hlt|Hge].
  - rewrite !FR_small by assumption. reflexivity.
  - assert (Hmn : (m <= n)%nat) by lia. apply Rle_antisym.
    + destruct (FR_upper C pen m n m_pos Hmn) as (c & A & P). rewrite <- P.
      destruct (pencostR_rev c A) as [A' P']. rewrite <- P'. now apply FR_lower.
    + destruct (FR_upper (CrevR C n) pen m n m_pos Hmn) as (c & A & P). rewrite <- P.
      destruct (pencostR_rev c A) as [A' _].
      assert (Hinv : revc n (revc n c) = c).
      { apply (revc_invol m n m_pos). intros x Hx.
        destruct (admseg_in m m_pos c 0%nat n x A Hx). lia. }
      (* the cost of [c] under the mirrored cost is the cost of its mirror image *)
      assert (P'' : pencostR (CrevR C n) pen c n = pencostR C pen (revc n c) n).
      { unfold pencostR. rewrite revc_length.
        pose proof (segcostR_rev (revc n c) 0%nat n A' (le_n n)) as H.
        rewrite Nat.sub_diag, Nat.sub_0_r, Hinv in H. now rewrite H. }
      rewrite P''. now apply FR_lower.
Qed.
End ReverseR.

(** the recursion [FR] reads the cost only at valid cuts *)
Lemma FR_ext_valid (C1 C2 : nat -> nat -> R) (pen : R) (m n : nat) : (1 <= m)%nat ->
  (forall s e, (s + m <= e)%nat -> (e <= n)%nat -> C1 s e = C2 s e) ->
  forall t, (t <= n)%nat -> FR C1 pen m t = FR C2 pen m t.
Proof.
  intros Hm HC t. induction t as [t IH] using lt_wf_ind. intros Ht.
  destruct (lt_dec t m) as [Hlt|Hge].
  - rewrite !FR_small by assumption. reflexivity.
  - rewrite !FR_unfold by lia. f_equal.
    + unfold candFR. rewrite !FR0. rewrite HC by lia. reflexivity.
    + apply map_ext_in. intros s Hs. apply in_admN in Hs. unfold candFR.
      rewrite (IH s) by lia. rewrite HC by lia. reflexivity.
Qed.

Section ReversalEndToEnd.
Variable xs : list R.
Local Notation n := (length xs).

(** the optimal penalised cost of the optimal-partitioning recursion is the same for the
    reversed column: squared-error cost ... *)
Theorem FR_l2_rev (pen : R) (m : nat) : (1 <= m)%nat ->
  FR (l2_cost_optim_R (prefix (rev xs)) (prefix (sq (rev xs)))) pen m n
  = FR (l2_cost_optim_R (prefix xs) (prefix (sq xs))) pen m n.
Proof.
  intros Hm. transitivity (FR (CrevR (l2_of (rev xs)) n) pen m n).
  - symmetry. exact (FR_reverse (l2_of (rev xs)) pen m n Hm).
  - apply (FR_ext_valid _ _ pen m n Hm); [|lia].
    intros s e H1 H2. unfold CrevR. apply (l2_optim_rev xs s e). lia.
Qed.

(** ... and Gaussian mean-and-variance cost (no condition on the data: the floor is
    applied to the same variance on both sides) *)
Theorem FR_gvar_rev (pen : R) (m : nat) : (1 <= m)%nat ->
  FR (gaussian_var_cost_optim_R (prefix (rev xs)) (prefix (sq (rev xs)))) pen m n
  = FR (gaussian_var_cost_optim_R (prefix xs) (prefix (sq xs))) pen m n.
Proof.
  intros Hm. transitivity (FR (CrevR (gvar_of (rev xs)) n) pen m n).
  - symmetry. exact (FR_reverse (gvar_of (rev xs)) pen m n Hm).
  - apply (FR_ext_valid _ _ pen m n Hm); [|lia].
    intros s e H1 H2. unfold CrevR. apply (gvar_optim_rev xs s e). lia.
Qed.

(** hence the final score of the PELT run (its optimal penalised cost) ... *)
Theorem pelt_l2_rev_final_score (pen : R) (m : nat) :
  (1 <= m)%nat -> (2 * m <= n)%nat -> 0 <= pen ->
  nth (n - 1) (fst (peltR (l2_cost_optim_R (prefix (rev xs)) (prefix (sq (rev xs)))) pen m (m - 1) n)) 0
  = nth (n - 1) (fst (peltR (l2_cost_optim_R (prefix xs) (prefix (sq xs))) pen m (m - 1) n)) 0.
Proof.
  intros Hm Hn Hp.
  rewrite (peltR_scores_optimal _ pen m (m - 1) n Hm Hn Hp ltac:(lia) (l2_kernel_split (rev xs) m Hm) n)
    by lia.
  rewrite (peltR_scores_optimal _ pen m (m - 1) n Hm Hn Hp ltac:(lia) (l2_kernel_split xs m Hm) n)
    by lia.
  now apply FR_l2_rev.
Qed.

(** ... and the penalised cost of the segmentation returned for the reversed column,
    measured on the reversed column, is that of the segmentation returned for the
    original one *)
Corollary pelt_l2_rev_pencost (pen : R) (m : nat) :
  (1 <= m)%nat -> (2 * m <= n)%nat -> 0 <= pen ->
  let Cr := l2_cost_optim_R (prefix (rev xs)) (prefix (sq (rev xs))) in
  let Co := l2_cost_optim_R (prefix xs) (prefix (sq xs)) in
  pencostR Cr pen (snd (peltR Cr pen m (m - 1) n)) n
  = pencostR Co pen (snd (peltR Co pen m (m - 1) n)) n.
Proof.
  intros Hm Hn Hp Cr Co. unfold Cr, Co.
  rewrite <- !peltR_final_is_pencost by assumption.
  now apply pelt_l2_rev_final_score.
Qed.
End ReversalEndToEnd.

(* ====================================================================== *)
(** * Part 5b: REVERSAL, Gaussian cost: final score of the run

    The optimality theorem for the Gaussian cost needs the variance of every segment of
    length >= m to be above the floor ([var_above_floor] of Proofs/PeltReal.v); the
    condition is mirror symmetric. *)

Lemma varR_rev (l : list R) : varR (rev l) = varR l.
Proof.
  destruct l as [|x t]; [reflexivity|].
  assert (Hl : (0 < length (x :: t))%nat) by (cbn [length]; lia).
  rewrite <- !uvar_varR by (rewrite ?rev_length; exact Hl). apply uvar_rev.
Qed.

Lemma var_above_floor_rev (xs : list R) (m : nat) :
  var_above_floor xs m -> var_above_floor (rev xs) m.
Proof.
  intros Hv s e H1 H2. rewrite rev_length in H2.
  pose proof (slice_rev xs (length xs - e) (length xs - s) ltac:(lia)) as E.
  replace (length xs - (length xs - s))%nat with s in E by lia.
  replace (length xs - (length xs - e))%nat with e in E by lia.
  rewrite E, varR_rev. apply Hv; lia.
Qed.

Theorem pelt_gvar_rev_final_score (xs : list R) (pen : R) (m : nat) :
  (1 <= m)%nat -> (2 * m <= length xs)%nat -> 0 <= pen -> var_above_floor xs m ->
  nth (length xs - 1)
      (fst (peltR (gaussian_var_cost_optim_R (prefix (rev xs)) (prefix (sq (rev xs)))) pen m (m - 1) (length xs))) 0
  = nth (length xs - 1)
      (fst (peltR (gaussian_var_cost_optim_R (prefix xs) (prefix (sq xs))) pen m (m - 1) (length xs))) 0.
Proof.
  intros Hm Hn Hp Hv.
  assert (Hsr : forall s k e, (s + m <= k)%nat -> (k + m <= e)%nat -> (e <= length xs)%nat ->
            gvar_of (rev xs) s k + gvar_of (rev xs) k e <= gvar_of (rev xs) s e).
  { intros s k e H1 H2 H3. apply (gvar_kernel_split (rev xs) m Hm (var_above_floor_rev xs m Hv)); try assumption.
    rewrite rev_length. exact H3. }
  change (nth (length xs - 1) (fst (peltR (gvar_of (rev xs)) pen m (m - 1) (length xs))) 0
          = nth (length xs - 1) (fst (peltR (gvar_of xs) pen m (m - 1) (length xs))) 0).
  rewrite (peltR_scores_optimal_bounded _ pen m (m - 1) (length xs) Hm Hn Hp ltac:(lia) Hsr (length xs)) by lia.
  rewrite (peltR_scores_optimal_bounded (gvar_of xs) pen m (m - 1) (length xs) Hm Hn Hp ltac:(lia)
             (gvar_kernel_split xs m Hm Hv) (length xs)) by lia.
  now apply FR_gvar_rev.
Qed.

(* ====================================================================== *)
(** * Part 3b: several columns, each shifted by its own constant

    The detectors read the SUM over the columns of the per-column scores
    (np.sum(..., axis=1) in the code).  [cxs] lists (constant, column) as in
    [pelt_l2_multicolumn_shift]. *)

Definition sum_cols (F : list R -> R) (xss : list (list R)) : R :=
  fold_right Rplus 0 (map F xss).

Lemma sum_cols_shift (F G : list R -> R) (cxs : list (R * list R)) :
  (forall c xs, In (c, xs) cxs -> F (shift c xs) = G xs) ->
  sum_cols F (shift_cols cxs) = sum_cols G (map snd cxs).
Proof.
  intros H. unfold sum_cols, shift_cols. rewrite !map_map. f_equal.
  apply map_ext_in. intros [c xs] Hin. cbn [fst snd]. now apply H.
Qed.

(** summed CUSUM score, summed L2 change score, summed L2 local score *)
Definition cusum_multi (xss : list (list R)) (s k e : nat) : R :=
  sum_cols (fun xs => cusum_score_R (prefix xs) s k e) xss.
Definition l2_cscore_multi (xss : list (list R)) (s k e : nat) : R :=
  sum_cols (fun xs => ScoreKernels.change_score (l2_cost_optim_R (prefix xs) (prefix (sq xs))) s k e) xss.
Definition l2_local_multi (xss : list (list R)) (s i j e : nat) : R :=
  sum_cols (fun xs => l2_local xs s i j e) xss.

Section MultiShift.
Variables (cxs : list (R * list R)) (n : nat).
Hypothesis Hlen : forall cx, In cx cxs -> length (snd cx) = n.

Lemma col_len c xs : In (c, xs) cxs -> length xs = n.
Proof. intros Hin. exact (Hlen (c, xs) Hin). Qed.

Lemma cusum_multi_shift s k e : (s < k < e)%nat -> (e <= n)%nat ->
  cusum_multi (shift_cols cxs) s k e = cusum_multi (map snd cxs) s k e.
Proof.
  intros H He. unfold cusum_multi. apply sum_cols_shift. intros c xs Hin.
  apply cusum_prefix_shift; [exact H|]. rewrite (col_len c xs Hin). exact He.
Qed.

Lemma l2_cscore_multi_shift s k e : (s < k < e)%nat -> (e <= n)%nat ->
  l2_cscore_multi (shift_cols cxs) s k e = l2_cscore_multi (map snd cxs) s k e.
Proof.
  intros H He. unfold l2_cscore_multi. apply sum_cols_shift. intros c xs Hin.
  apply (l2_cscore_shift c xs); [exact H|]. rewrite (col_len c xs Hin). exact He.
Qed.

Lemma l2_local_multi_shift s i j e : (s < i)%nat -> (i < j)%nat -> (j < e)%nat -> (e <= n)%nat ->
  l2_local_multi (shift_cols cxs) s i j e = l2_local_multi (map snd cxs) s i j e.
Proof.
  intros H1 H2 H3 He. unfold l2_local_multi. apply sum_cols_shift. intros c xs Hin.
  apply l2_local_shift; try assumption. rewrite (col_len c xs Hin). exact He.
Qed.

Theorem mw_cusum_multicolumn_shift (b : nat) (thr : R) (mdi : nat) : (1 <= b)%nat ->
  gmw Rn (cusum_multi (shift_cols cxs)) b n thr mdi = gmw Rn (cusum_multi (map snd cxs)) b n thr mdi.
Proof.
  intros Hb. apply G08_only_valid_cuts_matter. intros t H1 H2. apply cusum_multi_shift; lia.
Qed.

Theorem mw_l2_multicolumn_shift (b : nat) (thr : R) (mdi : nat) : (1 <= b)%nat ->
  gmw Rn (l2_cscore_multi (shift_cols cxs)) b n thr mdi
  = gmw Rn (l2_cscore_multi (map snd cxs)) b n thr mdi.
Proof.
  intros Hb. apply G08_only_valid_cuts_matter. intros t H1 H2. apply l2_cscore_multi_shift; lia.
Qed.

Theorem sbs_cusum_multicolumn_shift (m : nat) (thr : R) (ivs : list (nat * nat)) :
  (1 <= m)%nat -> ivs_inside ivs n ->
  gsbs Rn (cusum_multi (shift_cols cxs)) m thr ivs = gsbs Rn (cusum_multi (map snd cxs)) m thr ivs.
Proof.
  intros Hm Hiv. apply G07_only_valid_cuts_matter. intros s e k Hin H1 H2.
  pose proof (Hiv s e Hin) as He. apply cusum_multi_shift; lia.
Qed.

Theorem sbs_l2_multicolumn_shift (m : nat) (thr : R) (ivs : list (nat * nat)) :
  (1 <= m)%nat -> ivs_inside ivs n ->
  gsbs Rn (l2_cscore_multi (shift_cols cxs)) m thr ivs
  = gsbs Rn (l2_cscore_multi (map snd cxs)) m thr ivs.
Proof.
  intros Hm Hiv. apply G07_only_valid_cuts_matter. intros s e k Hin H1 H2.
  pose proof (Hiv s e Hin) as He. apply l2_cscore_multi_shift; lia.
Qed.

Theorem cbs_l2_multicolumn_shift (m : nat) (thr : R) (ivs : list (nat * nat)) :
  (1 <= m)%nat -> ivs_inside ivs n ->
  gcbs Rn (l2_local_multi (shift_cols cxs)) m thr ivs
  = gcbs Rn (l2_local_multi (map snd cxs)) m thr ivs.
Proof.
  intros Hm Hiv. apply G09_only_valid_cuts_matter. intros s e i j Hin Hij.
  pose proof (Hiv s e Hin) as He. apply anomaly_intervals_valid in Hij as (A1 & A2 & A3 & A4).
  apply l2_local_multi_shift; lia.
Qed.
End MultiShift.

(* ====================================================================== *)
(** * Part 6: a concrete instance *)

Definition sym_ex_xs : list R := [1; 2; 0; 7; 8; 6].
Definition sym_ex_ivs : list (nat * nat) := [(0, 6); (0, 4); (2, 6)]%nat.

Lemma sym_ex_shifted : shift 5 sym_ex_xs = [6; 7; 5; 12; 13; 11].
Proof. unfold shift, sym_ex_xs. cbn [map]. repeat (f_equal; try lra). Qed.

Lemma sym_ex_ivs_inside : ivs_inside sym_ex_ivs (length sym_ex_xs).
Proof.
  intros s e [H|[H|[H|[]]]]; inversion H; subst; cbn [length sym_ex_xs]; lia.
Qed.

(** the moving window run (bandwidth 2, threshold 1, minimum detection interval 1) on
    the CUSUM scores of 1 2 0 7 8 6 and of 6 7 5 12 13 11 is the same run *)
Example mw_cusum_shift_example :
  gmw Rn (cusum_score_R (prefix [6; 7; 5; 12; 13; 11])) 2 6 1 1
  = gmw Rn (cusum_score_R (prefix [1; 2; 0; 7; 8; 6])) 2 6 1 1.
Proof.
  rewrite <- sym_ex_shifted. exact (mw_cusum_shift 5 sym_ex_xs 2 1 1%nat ltac:(lia)).
Qed.

Example mw_l2_shift_example :
  gmw Rn (ScoreKernels.change_score
            (l2_cost_optim_R (prefix [6; 7; 5; 12; 13; 11]) (prefix (sq [6; 7; 5; 12; 13; 11])))) 2 6 1 1
  = gmw Rn (ScoreKernels.change_score
            (l2_cost_optim_R (prefix [1; 2; 0; 7; 8; 6]) (prefix (sq [1; 2; 0; 7; 8; 6])))) 2 6 1 1.
Proof.
  rewrite <- sym_ex_shifted. exact (mw_l2_shift 5 sym_ex_xs 2 1 1%nat ltac:(lia)).
Qed.

Example sbs_cusum_shift_example :
  gsbs Rn (cusum_score_R (prefix [6; 7; 5; 12; 13; 11])) 1 1 sym_ex_ivs
  = gsbs Rn (cusum_score_R (prefix [1; 2; 0; 7; 8; 6])) 1 1 sym_ex_ivs.
Proof.
  rewrite <- sym_ex_shifted. exact (sbs_cusum_shift 5 sym_ex_xs 1 1 sym_ex_ivs ltac:(lia) sym_ex_ivs_inside).
Qed.

Example cbs_l2_shift_example :
  gcbs Rn (l2_local [6; 7; 5; 12; 13; 11]) 1 1 sym_ex_ivs
  = gcbs Rn (l2_local [1; 2; 0; 7; 8; 6]) 1 1 sym_ex_ivs.
Proof.
  rewrite <- sym_ex_shifted. exact (cbs_l2_shift 5 sym_ex_xs 1 1 sym_ex_ivs ltac:(lia) sym_ex_ivs_inside).
Qed.

Example pelt_l2_shift_example :
  peltR (l2_cost_optim_R (prefix [6; 7; 5; 12; 13; 11]) (prefix (sq [6; 7; 5; 12; 13; 11]))) 3 2 1 6
  = peltR (l2_cost_optim_R (prefix [1; 2; 0; 7; 8; 6]) (prefix (sq [1; 2; 0; 7; 8; 6]))) 3 2 1 6.
Proof.
  rewrite <- sym_ex_shifted.
  exact (pelt_l2_shift 5 sym_ex_xs 3 2 ltac:(lia) ltac:(cbn [length sym_ex_xs]; lia)).
Qed.

(** the hypotheses used above are satisfiable and the scores are not constant: the cut
    (0, 2, 4) of the example has CUSUM score 2 on both columns *)
Example sym_ex_cusum_value : cusum_score_R (prefix [1; 2; 0; 7; 8; 6]) 0 2 4 = 2.
Proof.
  unfold cusum_score_R, prefix. cbn [firstn sumR Nat.sub Nat.mul Nat.add INR].
  replace ((1 + 1) / (1 + 1 + 1 + 1 + 1 + 1 + 1 + 1)) with ((1 / 2) * (1 / 2)) by field.
  rewrite sqrt_square by lra. rewrite <- (Rabs_Ropp). rewrite Rabs_pos_eq; lra.
Qed.

(* ====================================================================== *)
Print Assumptions peltR_ext_valid_delay.
Print Assumptions peltR_ext_valid.
Print Assumptions peltR_potential.
Print Assumptions pelt_l2_shift.
Print Assumptions pelt_gvar_shift.
Print Assumptions gpelt_l2_shift.
Print Assumptions pelt_l2_multicolumn_shift.
Print Assumptions mw_cusum_shift.
Print Assumptions mw_l2_shift.
Print Assumptions mw_gvar_shift.
Print Assumptions sbs_cusum_shift.
Print Assumptions sbs_l2_shift.
Print Assumptions sbs_gvar_shift.
Print Assumptions cbs_l2_shift.
Print Assumptions cbs_gvar_shift.
Print Assumptions pelt_gvar_scale_delay.
Print Assumptions pelt_gvar_scale.
Print Assumptions mw_gvar_scale.
Print Assumptions sbs_gvar_scale.
Print Assumptions cbs_gvar_scale.
Print Assumptions FR_reverse.
Print Assumptions FR_l2_rev.
Print Assumptions FR_gvar_rev.
Print Assumptions pelt_l2_rev_final_score.
Print Assumptions pelt_l2_rev_pencost.
Print Assumptions pelt_gvar_rev_final_score.
Print Assumptions mw_cusum_multicolumn_shift.
Print Assumptions mw_l2_multicolumn_shift.
Print Assumptions sbs_cusum_multicolumn_shift.
Print Assumptions sbs_l2_multicolumn_shift.
Print Assumptions cbs_l2_multicolumn_shift.
Print Assumptions mw_cusum_shift_example.
Print Assumptions sbs_cusum_shift_example.
Print Assumptions cbs_l2_shift_example.
Print Assumptions pelt_l2_shift_example.
