(** Symmetry / extensionality of the executable CAPA model (Model/Capa.v).

    S1  sort_desc_unique     the decreasing sort depends only on the multiset
    S2  penalise_perm        penalise_savings ignores the order of the columns
    S3  Pbest_perm           the same for the set-level optimum Pbest
    S4  capa_ext             capa depends on the savings only pointwise
        capa_P_ext           ... and in fact only through the penalised savings Pc / Pp
        capa_column_perm     permuting the data columns leaves the detector output unchanged
    S5  affected_perm        tie-free row: the affected columns are permuted accordingly
        affected_perm_values (ties allowed) the savings of the affected columns agree
        argsort_desc_unique  tie-free row: the decreasing argsort is unique
    S6  examples by vm_compute, including a row with a tie where S5 fails *)
From Coq Require Import ZArith List Lia Bool Arith Permutation Sorted.
From SK Require Import Lib.Base Model.Capa Proofs.Penalise.
Import ListNotations.
Open Scope Z_scope.

(** ---------- S1: a decreasing list is determined by its multiset ---------- *)

Lemma desc_inv x t : desc (x :: t) -> desc t /\ forall y, In y t -> y <= x.
Proof.
  unfold desc. intros HS. apply StronglySorted_inv in HS. destruct HS as [HS HF].
  split; [exact HS|]. rewrite Forall_forall in HF. exact HF.
Qed.

Lemma desc_head_max x t : desc (x :: t) -> forall y, In y (x :: t) -> y <= x.
Proof.
  intros HD y Hy. destruct (desc_inv x t HD) as [_ HF].
  destruct Hy as [Hy|Hy]; [lia|apply HF; exact Hy].
Qed.

Lemma desc_perm_eq : forall l l', desc l -> desc l' -> Permutation l l' -> l = l'.
Proof.
  induction l as [|x t IH]; intros l' HD HD' HP.
  - apply Permutation_nil in HP. symmetry; exact HP.
  - destruct l' as [|y t'].
    + apply Permutation_sym, Permutation_nil in HP. discriminate.
    + assert (Hxy : x <= y).
      { apply (desc_head_max y t' HD'). apply (Permutation_in _ HP). left; reflexivity. }
      assert (Hyx : y <= x).
      { apply (desc_head_max x t HD).
        apply (Permutation_in _ (Permutation_sym HP)). left; reflexivity. }
      assert (E : x = y) by lia. subst y.
      f_equal. apply IH.
      * apply (desc_inv x t HD).
      * apply (desc_inv x t' HD').
      * eapply Permutation_cons_inv; exact HP.
Qed.

Theorem sort_desc_unique : forall l l', Permutation l l' -> sort_desc l = sort_desc l'.
Proof.
  intros l l' HP. apply desc_perm_eq; [apply sort_desc_sorted|apply sort_desc_sorted|].
  eapply Permutation_trans; [apply sort_desc_perm|].
  eapply Permutation_trans; [exact HP|]. apply Permutation_sym, sort_desc_perm.
Qed.

(** the sort is the only decreasing rearrangement *)
Corollary sort_desc_char l s : desc s -> Permutation s l -> s = sort_desc l.
Proof.
  intros HD HP. apply desc_perm_eq; [exact HD|apply sort_desc_sorted|].
  eapply Permutation_trans; [exact HP|]. apply Permutation_sym, sort_desc_perm.
Qed.

(** ---------- S3, S2: Pbest and penalise ignore the order of the columns ---------- *)

Theorem Pbest_perm : forall sav sav' alpha betas,
  Permutation sav sav' -> Pbest sav alpha betas = Pbest sav' alpha betas.
Proof.
  intros sav sav' alpha betas HP. unfold Pbest.
  rewrite (sort_desc_unique sav sav' HP). reflexivity.
Qed.

Theorem penalise_perm : forall sav sav' alpha betas,
  Permutation sav sav' -> penalise sav alpha betas = penalise sav' alpha betas.
Proof.
  intros sav sav' alpha betas HP. unfold penalise.
  destruct (all_tiny betas).
  - rewrite (sumZ_perm sav sav' HP). reflexivity.
  - destruct (all_equal betas).
    + change (posum (hd 0 betas) sav - alpha = posum (hd 0 betas) sav' - alpha).
      rewrite (posum_perm (hd 0 betas) sav sav' HP). reflexivity.
    + rewrite (sort_desc_unique sav sav' HP). reflexivity.
Qed.

(** ---------- S4: extensionality of the CAPA recursion ---------- *)

Section Ext.
Variables (Sc1 Sc2 : nat -> nat -> list Z) (Sp1 Sp2 : nat -> list Z).
Variables (ac : Z) (bc : list Z) (ap : Z) (bp : list Z) (m M delay : nat).
Hypothesis HPc : forall s e, Pc Sc1 ac bc s e = Pc Sc2 ac bc s e.
Hypothesis HPp : forall t, Pp Sp1 ap bp t = Pp Sp2 ap bp t.

Lemma step_P_ext (s : st) (t : nat) :
  step Sc1 Sp1 ac bc ap bp m M delay s t = step Sc2 Sp2 ac bc ap bp m M delay s t.
Proof.
  unfold step. cbv zeta.
  rewrite (map_ext (fun a => nthZ (opt s) a + Pc Sc1 ac bc a (S t))
                   (fun a => nthZ (opt s) a + Pc Sc2 ac bc a (S t)))
    by (intros a; rewrite HPc; reflexivity).
  rewrite HPp. reflexivity.
Qed.

Lemma fold_step_P_ext : forall (ts : list nat) (s : st),
  fold_left (step Sc1 Sp1 ac bc ap bp m M delay) ts s =
  fold_left (step Sc2 Sp2 ac bc ap bp m M delay) ts s.
Proof.
  induction ts as [|t ts IH]; intros s; cbn [fold_left]; [reflexivity|].
  rewrite step_P_ext. apply IH.
Qed.

Lemma run_P_ext (n : nat) :
  run Sc1 Sp1 ac bc ap bp m M delay n = run Sc2 Sp2 ac bc ap bp m M delay n.
Proof. unfold run. apply fold_step_P_ext. Qed.

(** the detector output depends on the savings only through Pc / Pp *)
Theorem capa_P_ext (n : nat) :
  capa Sc1 Sp1 ac bc ap bp m M delay n = capa Sc2 Sp2 ac bc ap bp m M delay n.
Proof. unfold capa. rewrite run_P_ext. reflexivity. Qed.
End Ext.

Theorem capa_ext : forall Sc1 Sc2 Sp1 Sp2 ac bc ap bp m M delay n,
  (forall s e, Sc1 s e = Sc2 s e) -> (forall t, Sp1 t = Sp2 t) ->
  capa Sc1 Sp1 ac bc ap bp m M delay n = capa Sc2 Sp2 ac bc ap bp m M delay n.
Proof.
  intros Sc1 Sc2 Sp1 Sp2 ac bc ap bp m M delay n HSc HSp.
  apply capa_P_ext.
  - intros s e. unfold Pc. rewrite HSc. reflexivity.
  - intros t. unfold Pp. rewrite HSp. reflexivity.
Qed.

Theorem run_column_perm : forall Sc1 Sc2 Sp1 Sp2 ac bc ap bp m M delay n,
  (forall s e, Permutation (Sc1 s e) (Sc2 s e)) -> (forall t, Permutation (Sp1 t) (Sp2 t)) ->
  run Sc1 Sp1 ac bc ap bp m M delay n = run Sc2 Sp2 ac bc ap bp m M delay n.
Proof.
  intros Sc1 Sc2 Sp1 Sp2 ac bc ap bp m M delay n HSc HSp.
  apply run_P_ext.
  - intros s e. unfold Pc. apply penalise_perm, HSc.
  - intros t. unfold Pp. apply penalise_perm, HSp.
Qed.

Theorem capa_column_perm : forall Sc1 Sc2 Sp1 Sp2 ac bc ap bp m M delay n,
  (forall s e, Permutation (Sc1 s e) (Sc2 s e)) -> (forall t, Permutation (Sp1 t) (Sp2 t)) ->
  capa Sc1 Sp1 ac bc ap bp m M delay n = capa Sc2 Sp2 ac bc ap bp m M delay n.
Proof.
  intros Sc1 Sc2 Sp1 Sp2 ac bc ap bp m M delay n HSc HSp.
  apply capa_P_ext.
  - intros s e. unfold Pc. apply penalise_perm, HSc.
  - intros t. unfold Pp. apply penalise_perm, HSp.
Qed.

(** the form with an explicit column permutation [sigma]: column j of the permuted
    data is column [sigma j] of the original *)
Definition permute_cols (sigma : list nat) (sav : list Z) : list Z :=
  map (fun j => nthZ sav (nth j sigma 0%nat)) (seq 0 (length sigma)).

Lemma map_nth_seq {A} (l : list A) (d : A) :
  map (fun j => nth j l d) (seq 0 (length l)) = l.
Proof.
  apply (nth_ext _ _ d d).
  - rewrite map_length, seq_length. reflexivity.
  - intros n Hn. rewrite map_length, seq_length in Hn.
    rewrite (nth_map_lt (fun j => nth j l d) _ _ d 0%nat) by (rewrite seq_length; exact Hn).
    rewrite seq_nth by exact Hn. reflexivity.
Qed.

Lemma permute_cols_map sigma sav : permute_cols sigma sav = map (nthZ sav) sigma.
Proof.
  unfold permute_cols.
  rewrite <- (map_map (fun j => nth j sigma 0%nat) (nthZ sav)).
  rewrite map_nth_seq. reflexivity.
Qed.

Lemma permute_cols_perm sigma sav :
  Permutation sigma (seq 0 (length sav)) -> Permutation (permute_cols sigma sav) sav.
Proof.
  intros HP. rewrite permute_cols_map.
  rewrite <- (map_nthZ_seq sav) at 2. apply Permutation_map. exact HP.
Qed.

Corollary capa_sigma_perm (p : nat) (sigma : list nat) :
  Permutation sigma (seq 0 p) ->
  forall Sc Sp ac bc ap bp m M delay n,
  (forall s e, length (Sc s e) = p) -> (forall t, length (Sp t) = p) ->
  capa (fun s e => permute_cols sigma (Sc s e)) (fun t => permute_cols sigma (Sp t))
       ac bc ap bp m M delay n
  = capa Sc Sp ac bc ap bp m M delay n.
Proof.
  intros HP Sc Sp ac bc ap bp m M delay n HLc HLp.
  apply capa_column_perm.
  - intros s e. apply permute_cols_perm. rewrite HLc. exact HP.
  - intros t. apply permute_cols_perm. rewrite HLp. exact HP.
Qed.

(** ---------- S5: affected columns under a column permutation ---------- *)

Lemma map_inj_on {A B} (f : A -> B) : forall l1 l2 : list A,
  (forall x y, In x l1 -> In y l2 -> f x = f y -> x = y) ->
  map f l1 = map f l2 -> l1 = l2.
Proof.
  induction l1 as [|x t IH]; intros l2 Hinj HE; destruct l2 as [|y t2];
    cbn [map] in HE; try discriminate; [reflexivity|].
  inversion HE as [[Hxy Ht]]. f_equal.
  - apply Hinj; [left; reflexivity|left; reflexivity|exact Hxy].
  - apply IH; [|exact Ht].
    intros a b Ha Hb. apply Hinj; right; assumption.
Qed.

Lemma nthZ_inj sav i j : NoDup sav -> (i < length sav)%nat -> (j < length sav)%nat ->
  nthZ sav i = nthZ sav j -> i = j.
Proof.
  intros HN Hi Hj HE. unfold nthZ in HE.
  exact (proj1 (NoDup_nth sav 0) HN i j Hi Hj HE).
Qed.

(** tie-free row: the decreasing argsort is the unique decreasing ordering of the columns *)
Theorem argsort_desc_unique sav o :
  NoDup sav -> Permutation o (seq 0 (length sav)) -> desc (map (nthZ sav) o) ->
  o = argsort_desc sav.
Proof.
  intros HN HP HD. apply (map_inj_on (nthZ sav)).
  - intros x y Hx Hy. apply nthZ_inj; [exact HN| |].
    + apply (Permutation_in _ HP) in Hx. apply in_seq in Hx. lia.
    + apply argsort_desc_In. exact Hy.
  - rewrite argsort_desc_values. apply sort_desc_char; [exact HD|].
    rewrite <- (map_nthZ_seq sav) at 2. apply Permutation_map. exact HP.
Qed.

Section Affected.
Variables (p : nat) (sigma : list nat) (sav : list Z).
Hypothesis Hsigma : Permutation sigma (seq 0 p).
Hypothesis Hlen : length sav = p.

Let sg (j : nat) : nat := nth j sigma 0%nat.
Let sav' : list Z := map (fun j => nthZ sav (nth j sigma 0%nat)) (seq 0 p).

Lemma sigma_length : length sigma = p.
Proof. rewrite (Permutation_length Hsigma). apply seq_length. Qed.

Lemma sav'_permute : sav' = permute_cols sigma sav.
Proof. unfold sav', permute_cols. rewrite sigma_length. reflexivity. Qed.

Lemma sav'_length : length sav' = p.
Proof. unfold sav'. rewrite map_length, seq_length. reflexivity. Qed.

Lemma sav'_perm : Permutation sav' sav.
Proof. rewrite sav'_permute. apply permute_cols_perm. rewrite Hlen. exact Hsigma. Qed.

Lemma sav'_sort : sort_desc sav' = sort_desc sav.
Proof. apply sort_desc_unique, sav'_perm. Qed.

Lemma sg_lt j : (j < p)%nat -> (sg j < p)%nat.
Proof.
  intros Hj. unfold sg.
  assert (Hin : In (nth j sigma 0%nat) sigma) by (apply nth_In; rewrite sigma_length; exact Hj).
  apply (Permutation_in _ Hsigma) in Hin. apply in_seq in Hin. lia.
Qed.

Lemma sav'_nth j : (j < p)%nat -> nthZ sav' j = nthZ sav (sg j).
Proof.
  intros Hj. unfold sav', sg. unfold nthZ at 1.
  rewrite (nth_map_lt (fun j => nthZ sav (nth j sigma 0%nat)) _ _ 0 0%nat)
    by (rewrite seq_length; exact Hj).
  rewrite seq_nth by exact Hj. reflexivity.
Qed.

(** the values along [map sigma (argsort sav')] are the sorted savings *)
Lemma argsort_sigma_values :
  map (nthZ sav) (map sg (argsort_desc sav')) = sort_desc sav.
Proof.
  rewrite map_map. rewrite <- sav'_sort, <- argsort_desc_values.
  apply map_ext_in. intros j Hj. symmetry. apply sav'_nth.
  apply argsort_desc_In in Hj. rewrite sav'_length in Hj. exact Hj.
Qed.

Lemma argsort_sigma_In j : In j (map sg (argsort_desc sav')) -> (j < p)%nat.
Proof.
  intros Hj. apply in_map_iff in Hj. destruct Hj as (i & <- & Hi).
  apply sg_lt. apply argsort_desc_In in Hi. rewrite sav'_length in Hi. exact Hi.
Qed.

(** the argmax position is the same for both rows *)
Lemma affected_same_k alpha betas :
  argmax (pensav (sort_desc sav') alpha betas) = argmax (pensav (sort_desc sav) alpha betas).
Proof. rewrite sav'_sort. reflexivity. Qed.

(** ties allowed: the savings of the affected columns agree, in order *)
Theorem affected_perm_values alpha betas :
  map (nthZ sav') (affected sav' alpha betas) = map (nthZ sav) (affected sav alpha betas).
Proof.
  rewrite !affected_unfold, affected_same_k.
  destruct (argmax (pensav (sort_desc sav) alpha betas)) as [[k v]|]; [|reflexivity].
  rewrite <- !firstn_map, !argsort_desc_values, sav'_sort. reflexivity.
Qed.

Theorem affected_perm_length alpha betas :
  length (affected sav' alpha betas) = length (affected sav alpha betas).
Proof.
  rewrite <- (map_length (nthZ sav')), affected_perm_values, map_length. reflexivity.
Qed.

Hypothesis Hnodup : NoDup sav.

Theorem argsort_desc_sigma : map sg (argsort_desc sav') = argsort_desc sav.
Proof.
  apply (map_inj_on (nthZ sav)).
  - intros x y Hx Hy. apply nthZ_inj; [exact Hnodup| |].
    + rewrite Hlen. apply argsort_sigma_In. exact Hx.
    + apply argsort_desc_In. exact Hy.
  - rewrite argsort_sigma_values, argsort_desc_values. reflexivity.
Qed.

Theorem affected_perm alpha betas :
  map (fun j => nth j sigma 0%nat) (affected sav' alpha betas) = affected sav alpha betas.
Proof.
  change (map sg (affected sav' alpha betas) = affected sav alpha betas).
  rewrite !affected_unfold, affected_same_k.
  destruct (argmax (pensav (sort_desc sav) alpha betas)) as [[k v]|]; [|reflexivity].
  rewrite <- firstn_map, argsort_desc_sigma. reflexivity.
Qed.
End Affected.

Check affected_perm :
  forall (p : nat) (sigma : list nat) (sav : list Z),
    Permutation sigma (seq 0 p) -> length sav = p -> NoDup sav ->
    forall alpha betas,
      map (fun j => nth j sigma 0%nat)
          (affected (map (fun j => nthZ sav (nth j sigma 0%nat)) (seq 0 p)) alpha betas)
      = affected sav alpha betas.

Check affected_perm_values :
  forall (p : nat) (sigma : list nat) (sav : list Z),
    Permutation sigma (seq 0 p) -> length sav = p ->
    forall alpha betas,
      let sav' := map (fun j => nthZ sav (nth j sigma 0%nat)) (seq 0 p) in
      map (nthZ sav') (affected sav' alpha betas) = map (nthZ sav) (affected sav alpha betas).

(** ---------- S6: non-vacuity ---------- *)

(** S2: all three branches of [penalise], p = 3, columns rotated *)
Example penalise_perm_tiny :
  penalise [3; 10; 7] 4 [0; 0; 0] = 16 /\ penalise [7; 3; 10] 4 [0; 0; 0] = 16.
Proof. split; vm_compute; reflexivity. Qed.

Example penalise_perm_equal :
  penalise [3; 10; 7] 4 [5; 5; 5] = 3 /\ penalise [7; 3; 10] 4 [5; 5; 5] = 3.
Proof. split; vm_compute; reflexivity. Qed.

Example penalise_perm_general :
  penalise [3; 10; 7] 4 [1; 5; 9] = 7 /\ penalise [7; 3; 10] 4 [1; 5; 9] = 7.
Proof. split; vm_compute; reflexivity. Qed.

Example penalise_perm_inst :
  penalise [3; 10; 7] 4 [1; 5; 9] = penalise [7; 3; 10] 4 [1; 5; 9].
Proof.
  apply penalise_perm.
  apply (Permutation_trans (perm_skip 3 (perm_swap 7 10 []))).
  apply (Permutation_trans (perm_swap 7 3 [10])). apply Permutation_refl.
Qed.

(** S4: p = 2, n = 8; the saving of column c on [s,e) is the squared sum of x_c there *)
Definition ex_x0 : list Z := [0; 1; 0; 6; 7; 6; 0; 1].
Definition ex_x1 : list Z := [1; 0; 0; 0; 5; 0; 0; 0].
Definition seg_sum (x : list Z) (s e : nat) : Z := sumZ (firstn (e - s) (skipn s x)).
Definition ex_sav (x : list Z) (s e : nat) : Z := seg_sum x s e * seg_sum x s e.
Definition ex_Sc (s e : nat) : list Z := [ex_sav ex_x0 s e; ex_sav ex_x1 s e].
Definition ex_Sp (t : nat) : list Z := [ex_sav ex_x0 t (S t); ex_sav ex_x1 t (S t)].
Definition ex_Sc_sw (s e : nat) : list Z := [ex_sav ex_x1 s e; ex_sav ex_x0 s e].
Definition ex_Sp_sw (t : nat) : list Z := [ex_sav ex_x1 t (S t); ex_sav ex_x0 t (S t)].

Example capa_swap_run :
  capa ex_Sc ex_Sp 20 [3; 8] 30 [3; 8] 2 4 1 8 =
  capa ex_Sc_sw ex_Sp_sw 20 [3; 8] 30 [3; 8] 2 4 1 8.
Proof. vm_compute. reflexivity. Qed.

(** the run is not trivial: one collective anomaly [2,6) *)
Example capa_swap_value :
  capa ex_Sc ex_Sp 20 [3; 8] 30 [3; 8] 2 4 1 8 =
  ([0; 0; 0; 26; 190; 355; 355; 355], [(2, 6)]%nat, []).
Proof. vm_compute. reflexivity. Qed.

Example capa_swap_inst :
  capa ex_Sc ex_Sp 20 [3; 8] 30 [3; 8] 2 4 1 8 =
  capa ex_Sc_sw ex_Sp_sw 20 [3; 8] 30 [3; 8] 2 4 1 8.
Proof.
  apply capa_column_perm.
  - intros s e. apply perm_swap.
  - intros t. apply perm_swap.
Qed.

(** S5: p = 3, sigma = [2;0;1], sav = [3;10;7], permuted row = [7;3;10] *)
Example affected_perm_run :
  map (fun j => nthZ [3; 10; 7] (nth j [2; 0; 1]%nat 0%nat)) (seq 0 3) = [7; 3; 10] /\
  affected [3; 10; 7] 4 [1; 5; 9] = [1; 2]%nat /\
  affected [7; 3; 10] 4 [1; 5; 9] = [2; 0]%nat /\
  map (fun j => nth j [2; 0; 1]%nat 0%nat) (affected [7; 3; 10] 4 [1; 5; 9]) = [1; 2]%nat.
Proof. repeat split; vm_compute; reflexivity. Qed.

Lemma ex_sigma_perm : Permutation [2; 0; 1]%nat (seq 0 3).
Proof.
  cbn [seq].
  apply (Permutation_trans (perm_swap 0 2 [1]))%nat.
  apply perm_skip. apply perm_swap.
Qed.

Lemma ex_sav_nodup : NoDup [3; 10; 7].
Proof.
  repeat constructor; cbn [In]; intros H;
    repeat (destruct H as [H|H]; [discriminate H|]); exact H.
Qed.

Example affected_perm_inst :
  map (fun j => nth j [2; 0; 1]%nat 0%nat)
      (affected (map (fun j => nthZ [3; 10; 7] (nth j [2; 0; 1]%nat 0%nat)) (seq 0 3)) 4 [1; 5; 9])
  = affected [3; 10; 7] 4 [1; 5; 9].
Proof.
  apply (affected_perm 3 [2; 0; 1]%nat [3; 10; 7] ex_sigma_perm eq_refl ex_sav_nodup).
Qed.

(** the tie-free hypothesis of S5 is needed: with a tie the model's argsort puts the
    larger column first, whichever data column that is *)
Example affected_perm_tie_fails :
  map (fun j => nth j [1; 0]%nat 0%nat)
      (affected (map (fun j => nthZ [5; 5] (nth j [1; 0]%nat 0%nat)) (seq 0 2)) 0 [1; 9])
  = [0]%nat /\
  affected [5; 5] 0 [1; 9] = [1]%nat.
Proof. split; vm_compute; reflexivity. Qed.

Print Assumptions sort_desc_unique.
Print Assumptions penalise_perm.
Print Assumptions Pbest_perm.
Print Assumptions capa_ext.
Print Assumptions capa_P_ext.
Print Assumptions capa_column_perm.
Print Assumptions capa_sigma_perm.
Print Assumptions argsort_desc_unique.
Print Assumptions affected_perm.
Print Assumptions affected_perm_values.
Print Assumptions affected_perm_length.
Print Assumptions capa_swap_inst.
Print Assumptions affected_perm_inst.
