(** Specification level for CAPA / MVCAPA (property C03).

    Layer 0: anomaly sets -- lists of pairwise disjoint collective anomalies [s,e)
             with m <= e - s <= M and point anomalies [t,t+1), in increasing order,
             inside the prefix [0,T) -- and their total penalised saving.
    Layer 1: the unpruned dynamic programme G (optimal value for every prefix).
    Definitions only (plus the statement-level notions used by Properties/C03.v);
    proofs live in Proofs/CapaDP.v. *)
From Coq Require Import ZArith List Lia Bool Arith.
From SK Require Import Lib.Base.
Import ListNotations.
Open Scope Z_scope.

Inductive anom := Coll (s e : nat) | Pt (t : nat).
Definition a_start (a : anom) : nat := match a with Coll s _ => s | Pt t => t end.
Definition a_end (a : anom) : nat := match a with Coll _ e => e | Pt t => S t end.

Section Spec.
Variable Pc : nat -> nat -> Z.   (* penalised saving of the collective anomaly [s,e) *)
Variable Pp : nat -> Z.          (* penalised saving of the point anomaly at t *)
Variables m M : nat.

Definition a_ok (a : anom) : Prop :=
  match a with Coll s e => (s + m <= e /\ e <= s + M)%nat | Pt _ => True end.
Definition a_val (a : anom) : Z := match a with Coll s e => Pc s e | Pt t => Pp t end.

(** anomalies listed in increasing order, pairwise disjoint, each admissible,
    all inside [lo, T) *)
Fixpoint valid_from (lo : nat) (l : list anom) (T : nat) : Prop :=
  match l with
  | [] => (lo <= T)%nat
  | a :: t => (lo <= a_start a)%nat /\ a_ok a /\ valid_from (a_end a) t T
  end.
Definition Valid (l : list anom) (T : nat) : Prop := valid_from 0 l T.
Definition value (l : list anom) : Z := sumZ (map a_val l).

(** unpruned recursion: G 0 = 0,
    G (S t) = max (G t) (G t + Pp t) (max_{s : m <= S t - s <= M} G s + Pc s (S t)) *)
Definition coll_starts (T : nat) : list nat :=
  filter (fun s => (s + m <=? T)%nat && (T <=? s + M)%nat) (seq 0 T).
Definition gnext (tab : list Z) (T : nat) : Z :=
  let gt := nthZ tab (T - 1) in
  maxl (Z.max gt (gt + Pp (T - 1)))
       (map (fun s => nthZ tab s + Pc s T) (coll_starts T)).
Fixpoint Gtab (t : nat) : list Z :=
  match t with O => [0] | S t' => Gtab t' ++ [gnext (Gtab t') (S t')] end.
Definition G (t : nat) : Z := nthZ (Gtab t) t.
End Spec.

(** reading a predicted interval list back as anomalies: with m >= 2 an interval of
    length 1 can only be a point anomaly *)
Definition to_anom (se : nat * nat) : anom :=
  if (snd se =? S (fst se))%nat then Pt (fst se) else Coll (fst se) (snd se).
Definition is_point (se : nat * nat) : bool := (snd se =? S (fst se))%nat.
