(** Proofs about the adapter object-state model [Model/Adapters.v] (property C10, adapters that
    SHARE their inner cost object) and soundness of the checker [Check/AdaptersCheck.v].

    Every statement below is proved for ALL heaps / histories (unbounded lists of operations);
    nothing is bounded, nothing is assumed. *)
From Coq Require Import List Arith Bool Lia.
Import ListNotations.
From SK Require Import Model.Adapters Check.AdaptersCheck.

(* ------------------------------------------------------------------ *)
(** * List helpers: [aupd]                                              *)
(* ------------------------------------------------------------------ *)

Lemma nth_error_map_combine_seq_a :
  forall (A B : Type) (f : nat * A -> B) (l : list A) (s j : nat),
    nth_error (map f (combine (seq s (length l)) l)) j =
    option_map (fun v => f (s + j, v)) (nth_error l j).
Proof.
  intros A B f l. induction l as [|x l IH]; intros s j.
  - destruct j; reflexivity.
  - destruct j as [|j]; simpl.
    + rewrite Nat.add_0_r. reflexivity.
    + rewrite IH. rewrite Nat.add_succ_comm. reflexivity.
Qed.

Lemma nth_error_aupd :
  forall (A : Type) (l : list A) (i : nat) (v : A) (j : nat),
    nth_error (aupd l i v) j =
    option_map (fun x => if j =? i then v else x) (nth_error l j).
Proof.
  intros A l i v j. unfold aupd. rewrite nth_error_map_combine_seq_a. reflexivity.
Qed.

Lemma nth_error_aupd_same :
  forall (A : Type) (l : list A) (i : nat) (v x : A),
    nth_error l i = Some x -> nth_error (aupd l i v) i = Some v.
Proof.
  intros A l i v x Hn. rewrite nth_error_aupd, Hn. simpl. rewrite Nat.eqb_refl. reflexivity.
Qed.

Lemma nth_error_aupd_other :
  forall (A : Type) (l : list A) (i : nat) (v : A) (j : nat),
    j <> i -> nth_error (aupd l i v) j = nth_error l j.
Proof.
  intros A l i v j Hne. rewrite nth_error_aupd.
  apply Nat.eqb_neq in Hne. rewrite Hne. destruct (nth_error l j); reflexivity.
Qed.

Lemma length_aupd :
  forall (A : Type) (l : list A) (i : nat) (v : A), length (aupd l i v) = length l.
Proof.
  intros A l i v. unfold aupd.
  rewrite map_length, combine_length, seq_length, Nat.min_id. reflexivity.
Qed.

Lemma nth_error_lt_some :
  forall (A : Type) (l : list A) (i : nat), i < length l -> exists x, nth_error l i = Some x.
Proof.
  intros A l i Hlt. destruct (nth_error l i) as [x|] eqn:Hn.
  - exists x. reflexivity.
  - apply nth_error_None in Hn. lia.
Qed.

Lemma nth_error_some_lt :
  forall (A : Type) (l : list A) (i : nat) (x : A), nth_error l i = Some x -> i < length l.
Proof.
  intros A l i x Hn. apply nth_error_Some. rewrite Hn. discriminate.
Qed.

(* ------------------------------------------------------------------ *)
(** * [astep] unfolded on each operation, [arun]                        *)
(* ------------------------------------------------------------------ *)

(** the adapter record written by [FitA] *)
Definition fitted_adapter (ad : adapter) (co : cost) (D : nat) : adapter :=
  {| a_kind := a_kind ad; a_cost := a_cost ad;
     a_clone_param := match a_kind ad with KLocal => c_param co | _ => a_clone_param ad end;
     a_clone_fit := match a_kind ad with KSaving => Some D | _ => a_clone_fit ad end;
     a_fit := Some D |}.

Lemma astep_FitA :
  forall h a D ad co,
    nth_error (adapters h) a = Some ad ->
    nth_error (costs h) (a_cost ad) = Some co ->
    astep h (FitA a D) =
    ({| costs := aupd (costs h) (a_cost ad) {| c_param := c_param co; c_fit := Some D |};
        adapters := aupd (adapters h) a (fitted_adapter ad co D) |}, ANone).
Proof.
  intros h a D ad co Ha Hc. cbn [astep]. rewrite Ha, Hc. reflexivity.
Qed.

Lemma astep_FitC :
  forall h c D co,
    nth_error (costs h) c = Some co ->
    astep h (FitC c D) =
    ({| costs := aupd (costs h) c {| c_param := c_param co; c_fit := Some D |};
        adapters := adapters h |}, ANone).
Proof.
  intros h c D co Hc. cbn [astep]. rewrite Hc. reflexivity.
Qed.

Lemma astep_SetC :
  forall h c p,
    c < length (costs h) ->
    astep h (SetC c p) =
    ({| costs := aupd (costs h) c {| c_param := p; c_fit := None |};
        adapters := adapters h |}, ANone).
Proof.
  intros h c p Hlt. cbn [astep]. apply Nat.ltb_lt in Hlt. rewrite Hlt. reflexivity.
Qed.

Lemma astep_EvalA_fst : forall h a, fst (astep h (EvalA a)) = h.
Proof.
  intros h a. cbn [astep].
  destruct (nth_error (adapters h) a) as [ad|]; [|reflexivity].
  destruct (a_fit ad); destruct (nth_error (costs h) (a_cost ad)) as [co|]; try reflexivity.
  destruct (c_fit co); reflexivity.
Qed.

(** what [EvalA] returns, as a function of the adapter record and of the cost cell it points to *)
Definition eval_of (ad : adapter) (oc : option cost) : aout :=
  match a_fit ad, oc with
  | Some own, Some co =>
      match c_fit co with
      | Some cd => AVal (a_kind ad) (c_param co) cd (a_clone_param ad) (a_clone_fit ad) own
      | None => ANotFitted
      end
  | None, Some _ => ANotFitted
  | _, None => ABadRef
  end.

Lemma eval_spec :
  forall h a ad,
    nth_error (adapters h) a = Some ad ->
    snd (astep h (EvalA a)) = eval_of ad (nth_error (costs h) (a_cost ad)).
Proof.
  intros h a ad Ha. cbn [astep]. rewrite Ha. unfold eval_of.
  destruct (a_fit ad); destruct (nth_error (costs h) (a_cost ad)) as [co|]; try reflexivity.
  destruct (c_fit co); reflexivity.
Qed.

Lemma arun_nil : forall h, arun h [] = (h, []).
Proof. reflexivity. Qed.

Lemma arun_cons_fst :
  forall h o t, fst (arun h (o :: t)) = fst (arun (fst (astep h o)) t).
Proof.
  intros h o t. cbn [arun]. destruct (astep h o) as [h1 r]. cbn [fst].
  destruct (arun h1 t) as [h2 rs]. reflexivity.
Qed.

Lemma arun_cons_snd :
  forall h o t, snd (arun h (o :: t)) = snd (astep h o) :: snd (arun (fst (astep h o)) t).
Proof.
  intros h o t. cbn [arun]. destruct (astep h o) as [h1 r]. cbn [fst snd].
  destruct (arun h1 t) as [h2 rs]. reflexivity.
Qed.

Lemma arun_app_fst :
  forall x y h, fst (arun h (x ++ y)) = fst (arun (fst (arun h x)) y).
Proof.
  induction x as [|o x IH]; intros y h.
  - reflexivity.
  - rewrite <- app_comm_cons. rewrite !arun_cons_fst. apply IH.
Qed.

Lemma arun_snoc_fst :
  forall ops o h, fst (arun h (ops ++ [o])) = fst (astep (fst (arun h ops)) o).
Proof.
  intros ops o h. rewrite arun_app_fst. rewrite arun_cons_fst. reflexivity.
Qed.

(* ------------------------------------------------------------------ *)
(** * 1. Heap well-formedness, reachability                             *)
(* ------------------------------------------------------------------ *)

(** [n] = number of cost objects on the heap.  The cost reference is valid; the private clone of a
    Saving always has hyperparam 0 (= None, the optimised cost); only a Saving ever fits its clone
    on stored data. *)
Definition adapter_ok (n : nat) (ad : adapter) : Prop :=
  a_cost ad < n /\
  (a_kind ad = KSaving -> a_clone_param ad = 0) /\
  (a_kind ad <> KSaving -> a_clone_fit ad = None).

Definition aheap_ok (h : aheap) : Prop :=
  forall a ad, nth_error (adapters h) a = Some ad -> adapter_ok (length (costs h)) ad.

Lemma aheap_ok_cost_lt :
  forall h a ad, aheap_ok h -> nth_error (adapters h) a = Some ad -> a_cost ad < length (costs h).
Proof. intros h a ad Hok Ha. exact (proj1 (Hok a ad Ha)). Qed.

Lemma adapter_ok_mono : forall n m ad, n <= m -> adapter_ok n ad -> adapter_ok m ad.
Proof.
  intros n m ad Hle [Hlt [Hs Hf]]. split; [lia | split; assumption].
Qed.

Lemma aheap_ok_empty : aheap_ok aempty.
Proof. intros a ad Ha. destruct a; discriminate Ha. Qed.

Lemma aheap_ok_same_adapters :
  forall h cs, aheap_ok h -> length (costs h) <= length cs ->
               aheap_ok {| costs := cs; adapters := adapters h |}.
Proof.
  intros h cs Hok Hle a ad Ha. cbn [costs adapters] in *.
  apply (adapter_ok_mono (length (costs h))); [exact Hle | exact (Hok a ad Ha)].
Qed.

Lemma adapter_ok_fitted :
  forall n ad co D, adapter_ok n ad -> adapter_ok n (fitted_adapter ad co D).
Proof.
  intros n ad co D [Hlt [Hs Hf]]. unfold adapter_ok, fitted_adapter. cbn.
  split; [exact Hlt | split].
  - intros K. rewrite K. apply Hs. exact K.
  - intros K. destruct (a_kind ad) eqn:E.
    + apply Hf. discriminate.
    + exfalso. apply K. reflexivity.
    + apply Hf. discriminate.
Qed.

Theorem astep_aheap_ok : forall h o, aheap_ok h -> aheap_ok (fst (astep h o)).
Proof.
  intros h o Hok. destruct o as [p | k c | c p | c D | a D | a].
  - (* NewC *)
    cbn [astep fst]. apply aheap_ok_same_adapters; [exact Hok|].
    rewrite app_length. lia.
  - (* NewA *)
    cbn [astep]. destruct (nth_error (costs h) c) as [co|] eqn:Hc; [|exact Hok].
    cbn [fst]. intros a ad Ha. cbn [costs adapters] in *.
    destruct (Nat.lt_ge_cases a (length (adapters h))) as [Hlt|Hge].
    + rewrite nth_error_app1 in Ha by exact Hlt. exact (Hok a ad Ha).
    + rewrite nth_error_app2 in Ha by exact Hge.
      destruct (a - length (adapters h)) as [|m].
      * cbn in Ha. injection Ha as Hx. subst ad. unfold adapter_ok. cbn.
        split; [exact (nth_error_some_lt _ _ _ _ Hc) | split].
        -- intros K. rewrite K. reflexivity.
        -- intros _. reflexivity.
      * destruct m; discriminate Ha.
  - (* SetC *)
    cbn [astep]. destruct (c <? length (costs h)); [|exact Hok].
    cbn [fst]. apply aheap_ok_same_adapters; [exact Hok|]. rewrite length_aupd. lia.
  - (* FitC *)
    cbn [astep]. destruct (nth_error (costs h) c) as [co|]; [|exact Hok].
    cbn [fst]. apply aheap_ok_same_adapters; [exact Hok|]. rewrite length_aupd. lia.
  - (* FitA *)
    cbn [astep]. destruct (nth_error (adapters h) a) as [ad|] eqn:Ha; [|exact Hok].
    destruct (nth_error (costs h) (a_cost ad)) as [co|] eqn:Hc; [|exact Hok].
    cbn [fst]. intros j xd Hj. cbn [costs adapters] in *.
    rewrite length_aupd. rewrite nth_error_aupd in Hj.
    destruct (nth_error (adapters h) j) as [yd|] eqn:Hy; [|discriminate Hj].
    cbn in Hj. injection Hj as Hx.
    destruct (j =? a) eqn:Hja.
    + apply Nat.eqb_eq in Hja. subst j. subst xd.
      apply adapter_ok_fitted. exact (Hok a ad Ha).
    + subst xd. exact (Hok j yd Hy).
  - (* EvalA *)
    rewrite astep_EvalA_fst. exact Hok.
Qed.

Lemma arun_aheap_ok : forall ops h, aheap_ok h -> aheap_ok (fst (arun h ops)).
Proof.
  induction ops as [|o ops IH]; intros h Hok.
  - exact Hok.
  - rewrite arun_cons_fst. apply IH. apply astep_aheap_ok. exact Hok.
Qed.

Definition areachable (h : aheap) : Prop := exists ops, fst (arun aempty ops) = h.

Lemma areachable_empty : areachable aempty.
Proof. exists []. reflexivity. Qed.

Lemma areachable_step : forall h o, areachable h -> areachable (fst (astep h o)).
Proof.
  intros h o [ops Hops]. exists (ops ++ [o]). rewrite arun_snoc_fst, Hops. reflexivity.
Qed.

Theorem areachable_aheap_ok : forall h, areachable h -> aheap_ok h.
Proof.
  intros h [ops Hops]. subst h. apply arun_aheap_ok. exact aheap_ok_empty.
Qed.

(* ------------------------------------------------------------------ *)
(** * 2. fit followed at once by evaluate                               *)
(* ------------------------------------------------------------------ *)

(** A ChangeScore has no private clone: its [a_clone_param] field only remembers the hyperparam the
    cost had when the adapter was built, no number is computed from it.  [aout_norm] sets this unused
    field of a KChange value to the cost's hyperparam (what [fresh_val] puts there). *)
Definition aout_norm (o : aout) : aout :=
  match o with
  | AVal KChange p d _ cd own => AVal KChange p d p cd own
  | _ => o
  end.

Lemma aout_norm_fresh : forall k p D, aout_norm (fresh_val k p D) = fresh_val k p D.
Proof. intros k p D. destruct k; reflexivity. Qed.

Lemma aout_norm_not_change :
  forall o, (forall p d cp cd own, o <> AVal KChange p d cp cd own) -> aout_norm o = o.
Proof.
  intros o H. destruct o as [| | | |k p d cp cd own]; try reflexivity.
  destruct k; try reflexivity. exfalso. exact (H p d cp cd own eq_refl).
Qed.

(** the evaluation right after [FitA a D], for ANY heap *)
Lemma fit_then_eval_val :
  forall h a D ad co,
    nth_error (adapters h) a = Some ad ->
    nth_error (costs h) (a_cost ad) = Some co ->
    snd (astep (fst (astep h (FitA a D))) (EvalA a)) =
    AVal (a_kind ad) (c_param co) D
         (match a_kind ad with KLocal => c_param co | _ => a_clone_param ad end)
         (match a_kind ad with KSaving => Some D | _ => a_clone_fit ad end) D.
Proof.
  intros h a D ad co Ha Hc.
  rewrite (astep_FitA h a D ad co Ha Hc). cbn [fst].
  rewrite (eval_spec _ a (fitted_adapter ad co D)).
  - cbn [costs fitted_adapter a_cost].
    rewrite (nth_error_aupd_same _ _ _ _ _ Hc). reflexivity.
  - cbn [adapters]. exact (nth_error_aupd_same _ _ _ _ _ Ha).
Qed.

(** exact form: for a ChangeScore the (unused) clone hyperparam has to agree with the cost's *)
Theorem fit_then_eval_is_fresh :
  forall h a D ad co,
    aheap_ok h ->
    nth_error (adapters h) a = Some ad ->
    nth_error (costs h) (a_cost ad) = Some co ->
    (a_kind ad = KChange -> a_clone_param ad = c_param co) ->
    snd (astep (fst (astep h (FitA a D))) (EvalA a)) = fresh_val (a_kind ad) (c_param co) D.
Proof.
  intros h a D ad co Hok Ha Hc Hch.
  rewrite (fit_then_eval_val h a D ad co Ha Hc).
  destruct (Hok a ad Ha) as [Hlt [Hs Hf]]. unfold fresh_val.
  destruct (a_kind ad) eqn:K.
  - rewrite (Hch eq_refl). rewrite Hf by discriminate. reflexivity.
  - rewrite (Hs eq_refl). reflexivity.
  - rewrite Hf by discriminate. reflexivity.
Qed.

(** without the side condition, up to the unused field of a ChangeScore *)
Theorem fit_then_eval_is_fresh_norm :
  forall h a D ad co,
    aheap_ok h ->
    nth_error (adapters h) a = Some ad ->
    nth_error (costs h) (a_cost ad) = Some co ->
    aout_norm (snd (astep (fst (astep h (FitA a D))) (EvalA a))) = fresh_val (a_kind ad) (c_param co) D.
Proof.
  intros h a D ad co Hok Ha Hc.
  rewrite (fit_then_eval_val h a D ad co Ha Hc).
  destruct (Hok a ad Ha) as [Hlt [Hs Hf]]. unfold fresh_val.
  destruct (a_kind ad) eqn:K; cbn [aout_norm].
  - rewrite Hf by discriminate. reflexivity.
  - rewrite (Hs eq_refl). reflexivity.
  - rewrite Hf by discriminate. reflexivity.
Qed.

(** Saving and LocalAnomalyScore need no side condition *)
Corollary fit_then_eval_is_fresh_clone_kinds :
  forall h a D ad co,
    aheap_ok h ->
    nth_error (adapters h) a = Some ad ->
    nth_error (costs h) (a_cost ad) = Some co ->
    a_kind ad <> KChange ->
    snd (astep (fst (astep h (FitA a D))) (EvalA a)) = fresh_val (a_kind ad) (c_param co) D.
Proof.
  intros h a D ad co Hok Ha Hc Hk.
  apply fit_then_eval_is_fresh; try assumption.
  intros K. exfalso. exact (Hk K).
Qed.

(* ------------------------------------------------------------------ *)
(** * 3. The fresh adapter                                              *)
(* ------------------------------------------------------------------ *)

Theorem fresh_adapter_val :
  forall k p D,
    snd (arun aempty [NewC p; NewA k 0; FitA 0 D; EvalA 0]) = [ANew 0; ANew 0; ANone; fresh_val k p D].
Proof. intros k p D. destruct k; reflexivity. Qed.

(* ------------------------------------------------------------------ *)
(** * 4. Aliasing: evaluate reads the LAST fit of the shared cost        *)
(* ------------------------------------------------------------------ *)

Theorem eval_reads_last_cost_fit :
  forall h a ad co own D',
    nth_error (adapters h) a = Some ad ->
    nth_error (costs h) (a_cost ad) = Some co ->
    a_fit ad = Some own ->
    snd (astep (fst (astep h (FitC (a_cost ad) D'))) (EvalA a)) =
    AVal (a_kind ad) (c_param co) D' (a_clone_param ad) (a_clone_fit ad) own.
Proof.
  intros h a ad co own D' Ha Hc Hf.
  rewrite (astep_FitC h (a_cost ad) D' co Hc). cbn [fst].
  rewrite (eval_spec _ a ad) by (cbn [adapters]; exact Ha).
  cbn [costs]. rewrite (nth_error_aupd_same _ _ _ _ _ Hc).
  unfold eval_of. rewrite Hf. reflexivity.
Qed.

Theorem eval_reads_last_adapter_fit :
  forall h a b ad bd co own D',
    nth_error (adapters h) a = Some ad ->
    nth_error (adapters h) b = Some bd ->
    b <> a ->
    a_cost bd = a_cost ad ->
    nth_error (costs h) (a_cost ad) = Some co ->
    a_fit ad = Some own ->
    snd (astep (fst (astep h (FitA b D'))) (EvalA a)) =
    AVal (a_kind ad) (c_param co) D' (a_clone_param ad) (a_clone_fit ad) own.
Proof.
  intros h a b ad bd co own D' Ha Hb Hne Hcost Hc Hf.
  assert (Hcb : nth_error (costs h) (a_cost bd) = Some co) by (rewrite Hcost; exact Hc).
  rewrite (astep_FitA h b D' bd co Hb Hcb). cbn [fst].
  rewrite (eval_spec _ a ad).
  - cbn [costs]. rewrite Hcost. rewrite (nth_error_aupd_same _ _ _ _ _ Hc).
    unfold eval_of. rewrite Hf. reflexivity.
  - cbn [adapters]. rewrite nth_error_aupd_other by (intro E; apply Hne; symmetry; exact E).
    exact Ha.
Qed.

(* ------------------------------------------------------------------ *)
(** * 5. Non-interference                                               *)
(* ------------------------------------------------------------------ *)

(** does [o], run on [h], write adapter [a] or the cost object [c]? *)
Definition touches (c a : nat) (h : aheap) (o : aop) : bool :=
  match o with
  | SetC c' _ => c' =? c
  | FitC c' _ => c' =? c
  | FitA b _ =>
      (b =? a) || match nth_error (adapters h) b with
                  | Some bd => a_cost bd =? c
                  | None => false
                  end
  | NewC _ | NewA _ _ | EvalA _ => false
  end.

Lemma untouched_state :
  forall h o a ad,
    aheap_ok h ->
    nth_error (adapters h) a = Some ad ->
    touches (a_cost ad) a h o = false ->
    nth_error (adapters (fst (astep h o))) a = Some ad /\
    nth_error (costs (fst (astep h o))) (a_cost ad) = nth_error (costs h) (a_cost ad).
Proof.
  intros h o a ad Hok Ha Ht.
  destruct o as [p | k c | c p | c D | b D | b]; cbn [touches] in Ht.
  - (* NewC *)
    cbn [astep fst costs adapters]. split; [exact Ha|].
    apply nth_error_app1. exact (aheap_ok_cost_lt h a ad Hok Ha).
  - (* NewA *)
    cbn [astep]. destruct (nth_error (costs h) c) as [co|]; [|split; [exact Ha | reflexivity]].
    cbn [fst costs adapters]. split; [|reflexivity].
    rewrite nth_error_app1 by exact (nth_error_some_lt _ _ _ _ Ha). exact Ha.
  - (* SetC *)
    apply Nat.eqb_neq in Ht.
    cbn [astep]. destruct (c <? length (costs h)); [|split; [exact Ha | reflexivity]].
    cbn [fst costs adapters]. split; [exact Ha|].
    apply nth_error_aupd_other. intro E. apply Ht. symmetry. exact E.
  - (* FitC *)
    apply Nat.eqb_neq in Ht.
    cbn [astep]. destruct (nth_error (costs h) c) as [co|]; [|split; [exact Ha | reflexivity]].
    cbn [fst costs adapters]. split; [exact Ha|].
    apply nth_error_aupd_other. intro E. apply Ht. symmetry. exact E.
  - (* FitA *)
    apply orb_false_iff in Ht as [Hba Hm]. apply Nat.eqb_neq in Hba.
    cbn [astep]. destruct (nth_error (adapters h) b) as [bd|] eqn:Hb; [|split; [exact Ha | reflexivity]].
    apply Nat.eqb_neq in Hm.
    destruct (nth_error (costs h) (a_cost bd)) as [co|]; [|split; [exact Ha | reflexivity]].
    cbn [fst costs adapters]. split.
    + rewrite nth_error_aupd_other by (intro E; apply Hba; symmetry; exact E). exact Ha.
    + apply nth_error_aupd_other. intro E. apply Hm. symmetry. exact E.
  - (* EvalA *)
    rewrite astep_EvalA_fst. split; [exact Ha | reflexivity].
Qed.

Theorem eval_unaffected :
  forall h o a ad,
    aheap_ok h ->
    nth_error (adapters h) a = Some ad ->
    touches (a_cost ad) a h o = false ->
    snd (astep (fst (astep h o)) (EvalA a)) = snd (astep h (EvalA a)).
Proof.
  intros h o a ad Hok Ha Ht.
  destruct (untouched_state h o a ad Hok Ha Ht) as [Ha' Hc'].
  rewrite (eval_spec _ a ad Ha'), (eval_spec _ a ad Ha), Hc'. reflexivity.
Qed.

(** a whole sequence of operations none of which touches [a] or [c] (each judged on the heap it runs on) *)
Fixpoint untouching (c a : nat) (h : aheap) (ops : list aop) : bool :=
  match ops with
  | [] => true
  | o :: t => negb (touches c a h o) && untouching c a (fst (astep h o)) t
  end.

Theorem untouched_state_run :
  forall ops h a ad,
    aheap_ok h ->
    nth_error (adapters h) a = Some ad ->
    untouching (a_cost ad) a h ops = true ->
    nth_error (adapters (fst (arun h ops))) a = Some ad /\
    nth_error (costs (fst (arun h ops))) (a_cost ad) = nth_error (costs h) (a_cost ad).
Proof.
  induction ops as [|o ops IH]; intros h a ad Hok Ha Hu.
  - split; [exact Ha | reflexivity].
  - cbn [untouching] in Hu. apply andb_true_iff in Hu as [Ht Hu].
    apply negb_true_iff in Ht.
    destruct (untouched_state h o a ad Hok Ha Ht) as [Ha' Hc'].
    rewrite arun_cons_fst.
    destruct (IH (fst (astep h o)) a ad (astep_aheap_ok h o Hok) Ha' Hu) as [Ha'' Hc''].
    split; [exact Ha'' | rewrite Hc''; exact Hc'].
Qed.

Theorem eval_unaffected_run :
  forall ops h a ad,
    aheap_ok h ->
    nth_error (adapters h) a = Some ad ->
    untouching (a_cost ad) a h ops = true ->
    snd (astep (fst (arun h ops)) (EvalA a)) = snd (astep h (EvalA a)).
Proof.
  intros ops h a ad Hok Ha Hu.
  destruct (untouched_state_run ops h a ad Hok Ha Hu) as [Ha' Hc'].
  rewrite (eval_spec _ a ad Ha'), (eval_spec _ a ad Ha), Hc'. reflexivity.
Qed.

(* ------------------------------------------------------------------ *)
(** * 6. set_params behind the adapter's back                           *)
(* ------------------------------------------------------------------ *)

Theorem set_behind_back_refuses :
  forall h a ad p,
    nth_error (adapters h) a = Some ad ->
    a_cost ad < length (costs h) ->
    a_fit ad <> None ->
    snd (astep (fst (astep h (SetC (a_cost ad) p))) (EvalA a)) = ANotFitted.
Proof.
  intros h a ad p Ha Hlt Hf.
  rewrite (astep_SetC h (a_cost ad) p Hlt). cbn [fst].
  rewrite (eval_spec _ a ad) by (cbn [adapters]; exact Ha).
  cbn [costs]. destruct (nth_error_lt_some _ _ _ Hlt) as [co Hc].
  rewrite (nth_error_aupd_same _ _ _ _ _ Hc).
  unfold eval_of. destruct (a_fit ad); reflexivity.
Qed.

(** state right after [SetC (a_cost ad) p] *)
Lemma set_state :
  forall h a ad p,
    nth_error (adapters h) a = Some ad ->
    a_cost ad < length (costs h) ->
    nth_error (adapters (fst (astep h (SetC (a_cost ad) p)))) a = Some ad /\
    nth_error (costs (fst (astep h (SetC (a_cost ad) p)))) (a_cost ad) =
      Some {| c_param := p; c_fit := None |}.
Proof.
  intros h a ad p Ha Hlt.
  rewrite (astep_SetC h (a_cost ad) p Hlt). cbn [fst costs adapters].
  split; [exact Ha|].
  destruct (nth_error_lt_some _ _ _ Hlt) as [co Hc].
  exact (nth_error_aupd_same _ _ _ _ _ Hc).
Qed.

Theorem refit_recovers :
  forall h a ad p D,
    aheap_ok h ->
    nth_error (adapters h) a = Some ad ->
    (a_kind ad = KChange -> a_clone_param ad = p) ->
    snd (astep (fst (astep (fst (astep h (SetC (a_cost ad) p))) (FitA a D))) (EvalA a)) =
    fresh_val (a_kind ad) p D.
Proof.
  intros h a ad p D Hok Ha Hch.
  assert (Hlt : a_cost ad < length (costs h)) by exact (aheap_ok_cost_lt h a ad Hok Ha).
  destruct (set_state h a ad p Ha Hlt) as [Ha' Hc'].
  exact (fit_then_eval_is_fresh _ a D ad {| c_param := p; c_fit := None |}
           (astep_aheap_ok h _ Hok) Ha' Hc' Hch).
Qed.

Theorem refit_recovers_norm :
  forall h a ad p D,
    aheap_ok h ->
    nth_error (adapters h) a = Some ad ->
    aout_norm (snd (astep (fst (astep (fst (astep h (SetC (a_cost ad) p))) (FitA a D))) (EvalA a))) =
    fresh_val (a_kind ad) p D.
Proof.
  intros h a ad p D Hok Ha.
  assert (Hlt : a_cost ad < length (costs h)) by exact (aheap_ok_cost_lt h a ad Hok Ha).
  destruct (set_state h a ad p Ha Hlt) as [Ha' Hc'].
  exact (fit_then_eval_is_fresh_norm _ a D ad {| c_param := p; c_fit := None |}
           (astep_aheap_ok h _ Hok) Ha' Hc').
Qed.

(** LocalAnomalyScore: the private clone is re-cloned at fit and so carries the NEW hyperparam *)
Theorem refit_reclones_local :
  forall h a ad p D,
    nth_error (adapters h) a = Some ad ->
    a_cost ad < length (costs h) ->
    a_kind ad = KLocal ->
    option_map a_clone_param
      (nth_error (adapters (fst (astep (fst (astep h (SetC (a_cost ad) p))) (FitA a D)))) a) = Some p.
Proof.
  intros h a ad p D Ha Hlt K.
  destruct (set_state h a ad p Ha Hlt) as [Ha' Hc'].
  rewrite (astep_FitA _ a D ad _ Ha' Hc'). cbn [fst adapters].
  rewrite (nth_error_aupd_same _ _ _ _ _ Ha'). cbn. rewrite K. reflexivity.
Qed.

(* ------------------------------------------------------------------ *)
(** * 7. An adapter that was never fitted refuses                       *)
(* ------------------------------------------------------------------ *)

Theorem unfitted_adapter_refuses :
  forall h a ad,
    nth_error (adapters h) a = Some ad ->
    a_cost ad < length (costs h) ->
    a_fit ad = None ->
    snd (astep h (EvalA a)) = ANotFitted.
Proof.
  intros h a ad Ha Hlt Hf.
  rewrite (eval_spec h a ad Ha).
  destruct (nth_error_lt_some _ _ _ Hlt) as [co Hc]. rewrite Hc.
  unfold eval_of. rewrite Hf. reflexivity.
Qed.

(* ------------------------------------------------------------------ *)
(** * 8. Soundness of the checker [Check/AdaptersCheck.v]               *)
(* ------------------------------------------------------------------ *)

Lemma akind_eqb_true : forall x y, akind_eqb x y = true -> x = y.
Proof. intros x y H. destruct x, y; try reflexivity; discriminate H. Qed.

Lemma optnat_eqb_true : forall x y, optnat_eqb x y = true -> x = y.
Proof.
  intros [x|] [y|] H; cbn in H; try discriminate H; [|reflexivity].
  apply Nat.eqb_eq in H. subst y. reflexivity.
Qed.

Theorem aout_eqb_true : forall x y, aout_eqb x y = true -> x = y.
Proof.
  intros x y H.
  destruct x as [| i | | | k p d cp cd own]; destruct y as [| j | | | k' p' d' cp' cd' own'];
    cbn in H; try discriminate H; try reflexivity.
  - apply Nat.eqb_eq in H. subst j. reflexivity.
  - apply andb_true_iff in H as [H Hown]. apply andb_true_iff in H as [H Hcd].
    apply andb_true_iff in H as [H Hcp]. apply andb_true_iff in H as [H Hd].
    apply andb_true_iff in H as [Hk Hp].
    apply akind_eqb_true in Hk. apply Nat.eqb_eq in Hp. apply Nat.eqb_eq in Hd.
    apply Nat.eqb_eq in Hcp. apply optnat_eqb_true in Hcd. apply Nat.eqb_eq in Hown.
    subst. reflexivity.
Qed.

Lemma aouts_eqb_true : forall x y, aouts_eqb x y = true -> x = y.
Proof.
  induction x as [|u x IH]; intros [|v y] H; cbn in H; try discriminate H; [reflexivity|].
  apply andb_true_iff in H as [Huv Hxy]. apply aout_eqb_true in Huv. apply IH in Hxy.
  subst. reflexivity.
Qed.

Lemma anb_eqb_true : forall x y, anb_eqb x y = true -> x = y.
Proof.
  induction x as [|[n b] x IH]; intros [|[m c] y] H; cbn in H; try discriminate H; [reflexivity|].
  apply andb_true_iff in H as [H Hxy]. apply andb_true_iff in H as [Hn Hb].
  apply Nat.eqb_eq in Hn. apply Bool.eqb_prop in Hb. apply IH in Hxy. subst. reflexivity.
Qed.

Lemma abools_eqb_true : forall x y, abools_eqb x y = true -> x = y.
Proof.
  induction x as [|b x IH]; intros [|c y] H; cbn in H; try discriminate H; [reflexivity|].
  apply andb_true_iff in H as [Hb Hxy]. apply Bool.eqb_prop in Hb. apply IH in Hxy.
  subst. reflexivity.
Qed.

Theorem ahist_ok_sound :
  forall (ops : list aop) (outs : list aout) (sc : list (nat * bool)) (sa : list bool),
    ahist_ok (ops, outs, (sc, sa)) = true ->
    snd (arun aempty ops) = outs /\ asummary (fst (arun aempty ops)) = (sc, sa).
Proof.
  intros ops outs sc sa H. unfold ahist_ok in H.
  destruct (arun aempty ops) as [h o]. cbn [fst snd] in *.
  apply andb_true_iff in H as [H Hs]. apply andb_true_iff in H as [Ho Hc].
  apply aouts_eqb_true in Ho. apply anb_eqb_true in Hc. apply abools_eqb_true in Hs.
  split; [exact Ho|].
  rewrite (surjective_pairing (asummary h)). rewrite Hc, Hs. reflexivity.
Qed.

(** the checker is also complete: it accepts exactly the model's own outputs and summary *)
Lemma akind_eqb_refl : forall k, akind_eqb k k = true.
Proof. destruct k; reflexivity. Qed.

Lemma optnat_eqb_refl : forall x, optnat_eqb x x = true.
Proof. destruct x as [x|]; cbn; [apply Nat.eqb_refl | reflexivity]. Qed.

Lemma aout_eqb_refl : forall x, aout_eqb x x = true.
Proof.
  destruct x as [| i | | | k p d cp cd own]; cbn; try reflexivity.
  - apply Nat.eqb_refl.
  - rewrite akind_eqb_refl, !Nat.eqb_refl, optnat_eqb_refl. reflexivity.
Qed.

Lemma aouts_eqb_refl : forall x, aouts_eqb x x = true.
Proof. induction x as [|u x IH]; cbn; [reflexivity | rewrite aout_eqb_refl, IH; reflexivity]. Qed.

Lemma anb_eqb_refl : forall x, anb_eqb x x = true.
Proof.
  induction x as [|[n b] x IH]; cbn; [reflexivity|].
  rewrite Nat.eqb_refl, Bool.eqb_reflx, IH. reflexivity.
Qed.

Lemma abools_eqb_refl : forall x, abools_eqb x x = true.
Proof.
  induction x as [|b x IH]; cbn; [reflexivity | rewrite Bool.eqb_reflx, IH; reflexivity].
Qed.

Theorem ahist_ok_complete :
  forall ops, ahist_ok (ops, snd (arun aempty ops), asummary (fst (arun aempty ops))) = true.
Proof.
  intros ops. unfold ahist_ok.
  destruct (arun aempty ops) as [h o]. cbn [fst snd].
  destruct (asummary h) as [sc sa] eqn:Es. cbn [fst snd].
  rewrite aouts_eqb_refl, anb_eqb_refl, abools_eqb_refl. reflexivity.
Qed.

(* ------------------------------------------------------------------ *)
(** * 9. Worked histories                                               *)
(* ------------------------------------------------------------------ *)

(** One cost (hyperparam 7) shared by a ChangeScore (adapter 0) and a Saving (adapter 1).
    Adapter 0 is fitted on data 100, then adapter 1 on data 200: evaluating adapter 0 now computes
    from the cost fitted on 200 while its bounds still come from 100 (the aliasing output); adapter 1
    gives the fresh value.  Refitting adapter 0 gives the fresh value again. *)
Example shared_cost_interleaved_fits :
  snd (arun aempty [NewC 7; NewA KChange 0; NewA KSaving 0;
                    FitA 0 100; FitA 1 200; EvalA 0; EvalA 1;
                    FitA 0 100; EvalA 0; EvalA 1]) =
  [ANew 0; ANew 0; ANew 1;
   ANone; ANone; AVal KChange 7 200 7 None 100; fresh_val KSaving 7 200;
   ANone; fresh_val KChange 7 100; AVal KSaving 7 100 0 (Some 200) 200].
Proof. vm_compute. reflexivity. Qed.

(** set_params behind the back of two adapters (Local and Saving) sharing the cost: both refuse;
    refitting the Local one gives the fresh value with the NEW hyperparam 9, and the Saving one now
    computes from hyperparam 9 and data 300 for the baseline but 200 for its optimised clone. *)
Example shared_cost_set_params :
  snd (arun aempty [NewC 7; NewA KLocal 0; NewA KSaving 0;
                    FitA 0 100; FitA 1 200; SetC 0 9; EvalA 0; EvalA 1;
                    FitA 0 300; EvalA 0; EvalA 1]) =
  [ANew 0; ANew 0; ANew 1;
   ANone; ANone; ANone; ANotFitted; ANotFitted;
   ANone; fresh_val KLocal 9 300; AVal KSaving 9 300 0 (Some 200) 200].
Proof. vm_compute. reflexivity. Qed.

Example shared_cost_checker :
  ahist_ok ([NewC 7; NewA KChange 0; NewA KSaving 0; FitA 0 100; FitA 1 200; EvalA 0; SetC 0 9; EvalA 1],
            [ANew 0; ANew 0; ANew 1; ANone; ANone; AVal KChange 7 200 7 None 100; ANone; ANotFitted],
            ([(9, false)], [true; true])) = true.
Proof. vm_compute. reflexivity. Qed.

(* ------------------------------------------------------------------ *)
(** * Closed under the global context                                  *)
(* ------------------------------------------------------------------ *)
Print Assumptions astep_aheap_ok.
Print Assumptions areachable_aheap_ok.
Print Assumptions fit_then_eval_is_fresh.
Print Assumptions fit_then_eval_is_fresh_norm.
Print Assumptions fit_then_eval_is_fresh_clone_kinds.
Print Assumptions fresh_adapter_val.
Print Assumptions eval_reads_last_cost_fit.
Print Assumptions eval_reads_last_adapter_fit.
Print Assumptions eval_unaffected.
Print Assumptions untouched_state_run.
Print Assumptions eval_unaffected_run.
Print Assumptions set_behind_back_refuses.
Print Assumptions refit_recovers.
Print Assumptions refit_recovers_norm.
Print Assumptions refit_reclones_local.
Print Assumptions unfitted_adapter_refuses.
Print Assumptions aout_eqb_true.
Print Assumptions ahist_ok_sound.
Print Assumptions ahist_ok_complete.
Print Assumptions shared_cost_interleaved_fits.
Print Assumptions shared_cost_set_params.
Print Assumptions shared_cost_checker.
