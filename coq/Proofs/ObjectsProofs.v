(** Proofs about the object-state model [Model/Objects.v] (property C10).

    Every statement below is proved for ALL histories (unbounded lists of operations),
    by induction over [run]; nothing is bounded, nothing is assumed. *)
From Coq Require Import List Arith Bool Lia.
Import ListNotations.
From SK Require Import Model.Objects.

(* ------------------------------------------------------------------ *)
(** * List helpers: [upd], [set_sfit], [sparams_of]                     *)
(* ------------------------------------------------------------------ *)

Lemma nth_error_map_combine_seq :
  forall (A B : Type) (f : nat * A -> B) (l : list A) (s j : nat),
    nth_error (map f (combine (seq s (length l)) l)) j =
    option_map (fun v => f (s + j, v)) (nth_error l j).
Proof.
  intros A B f l. induction l as [|a l IH]; intros s j.
  - destruct j; reflexivity.
  - destruct j as [|j]; simpl.
    + rewrite Nat.add_0_r. reflexivity.
    + rewrite IH. rewrite Nat.add_succ_comm. reflexivity.
Qed.

Lemma nth_error_upd :
  forall (A : Type) (l : list A) (i : nat) (v : A) (j : nat),
    nth_error (upd l i v) j =
    option_map (fun x => if j =? i then v else x) (nth_error l j).
Proof.
  intros A l i v j. unfold upd. rewrite nth_error_map_combine_seq. reflexivity.
Qed.

Lemma nth_error_upd_bool :
  forall (A : Type) (l : list A) (i : nat) (v : A) (j : nat),
    nth_error (upd l i v) j =
    if j =? i then (if j <? length l then Some v else None) else nth_error l j.
Proof.
  intros A l i v j. rewrite nth_error_upd.
  destruct (j =? i) eqn:Hji.
  - destruct (j <? length l) eqn:Hlt.
    + apply Nat.ltb_lt in Hlt. destruct (nth_error l j) eqn:Hn; [reflexivity|].
      apply nth_error_None in Hn. lia.
    + apply Nat.ltb_ge in Hlt. apply nth_error_None in Hlt. rewrite Hlt. reflexivity.
  - destruct (nth_error l j); reflexivity.
Qed.

Lemma nth_error_upd_same :
  forall (A : Type) (l : list A) (i : nat) (v x : A),
    nth_error l i = Some x -> nth_error (upd l i v) i = Some v.
Proof.
  intros A l i v x Hn. rewrite nth_error_upd, Hn. simpl. rewrite Nat.eqb_refl. reflexivity.
Qed.

Lemma nth_error_upd_other :
  forall (A : Type) (l : list A) (i : nat) (v : A) (j : nat),
    j <> i -> nth_error (upd l i v) j = nth_error l j.
Proof.
  intros A l i v j Hne. rewrite nth_error_upd.
  apply Nat.eqb_neq in Hne. rewrite Hne. destruct (nth_error l j); reflexivity.
Qed.

Lemma length_upd :
  forall (A : Type) (l : list A) (i : nat) (v : A), length (upd l i v) = length l.
Proof.
  intros A l i v. unfold upd.
  rewrite map_length, combine_length, seq_length, Nat.min_id. reflexivity.
Qed.

Lemma nth_error_set_sfit :
  forall (ss : list scorer) (refs : list nat) (D : dterm) (j : nat),
    nth_error (set_sfit ss refs D) j =
    option_map (fun s => if existsb (Nat.eqb j) refs
                         then {| s_param := s_param s; s_fit := Some D |} else s)
               (nth_error ss j).
Proof.
  intros ss refs D j. unfold set_sfit. rewrite nth_error_map_combine_seq. reflexivity.
Qed.

Lemma length_set_sfit :
  forall (ss : list scorer) (refs : list nat) (D : dterm),
    length (set_sfit ss refs D) = length ss.
Proof.
  intros ss refs D. unfold set_sfit.
  rewrite map_length, combine_length, seq_length, Nat.min_id. reflexivity.
Qed.

Lemma existsb_eqb_In :
  forall (r : nat) (refs : list nat), existsb (Nat.eqb r) refs = true <-> In r refs.
Proof.
  intros r refs. rewrite existsb_exists. split.
  - intros [y [Hin Hy]]. apply Nat.eqb_eq in Hy. subst y. exact Hin.
  - intros Hin. exists r. split; [exact Hin | apply Nat.eqb_refl].
Qed.

Lemma existsb_eqb_notIn :
  forall (r : nat) (refs : list nat), existsb (Nat.eqb r) refs = false <-> ~ In r refs.
Proof.
  intros r refs. split; intro H.
  - intro Hin. apply existsb_eqb_In in Hin. congruence.
  - destruct (existsb (Nat.eqb r) refs) eqn:E; [|reflexivity].
    apply existsb_eqb_In in E. contradiction.
Qed.

(** the scorer not referenced is left alone by [set_sfit] *)
Lemma nth_error_set_sfit_notin :
  forall ss refs D j, ~ In j refs -> nth_error (set_sfit ss refs D) j = nth_error ss j.
Proof.
  intros ss refs D j Hni. rewrite nth_error_set_sfit.
  apply existsb_eqb_notIn in Hni. rewrite Hni. destruct (nth_error ss j); reflexivity.
Qed.

(** hyperparam of scorer [r] ([None] = no such scorer) *)
Definition sparam_at (ss : list scorer) (r : nat) : option nat :=
  option_map s_param (nth_error ss r).

Lemma sparam_at_set_sfit :
  forall ss refs D r, sparam_at (set_sfit ss refs D) r = sparam_at ss r.
Proof.
  intros ss refs D r. unfold sparam_at. rewrite nth_error_set_sfit.
  destruct (nth_error ss r) as [s|]; simpl; [|reflexivity].
  destruct (existsb (Nat.eqb r) refs); reflexivity.
Qed.

Lemma sparam_at_app :
  forall ss ext r, r < length ss -> sparam_at (ss ++ ext) r = sparam_at ss r.
Proof.
  intros ss ext r Hlt. unfold sparam_at. rewrite nth_error_app1 by exact Hlt. reflexivity.
Qed.

Lemma sparam_at_upd_other :
  forall ss r0 v r, r <> r0 -> sparam_at (upd ss r0 v) r = sparam_at ss r.
Proof.
  intros ss r0 v r Hne. unfold sparam_at. rewrite nth_error_upd_other by exact Hne. reflexivity.
Qed.

Lemma sparam_at_upd_keep :
  forall ss r0 v s r,
    nth_error ss r0 = Some s -> s_param v = s_param s ->
    sparam_at (upd ss r0 v) r = sparam_at ss r.
Proof.
  intros ss r0 v s r Hn Hp. destruct (Nat.eq_dec r r0) as [He|Hne].
  - subst r. unfold sparam_at. rewrite (nth_error_upd_same _ _ _ _ _ Hn), Hn. simpl.
    rewrite Hp. reflexivity.
  - apply sparam_at_upd_other. exact Hne.
Qed.

Lemma sparams_of_ext :
  forall ss ss' refs,
    (forall r, In r refs -> sparam_at ss' r = sparam_at ss r) ->
    sparams_of ss' refs = sparams_of ss refs.
Proof.
  intros ss ss' refs H. unfold sparams_of. apply map_ext_in. intros r Hin.
  specialize (H r Hin). unfold sparam_at in H.
  destruct (nth_error ss' r), (nth_error ss r); simpl in H; congruence.
Qed.

Lemma sparams_of_set_sfit :
  forall ss refs D r, sparams_of (set_sfit ss refs D) r = sparams_of ss r.
Proof.
  intros ss refs D r. apply sparams_of_ext. intros r0 _. apply sparam_at_set_sfit.
Qed.

Lemma length_sparams_of : forall ss refs, length (sparams_of ss refs) = length refs.
Proof. intros ss refs. unfold sparams_of. apply map_length. Qed.

Definition mk_scorer (p : nat) : scorer := {| s_param := p; s_fit := None |}.

(** fresh scorers appended to a heap and referenced by consecutive ids *)
Lemma sparams_of_app_seq :
  forall (SP : list nat) (pre : list scorer),
    sparams_of (pre ++ map mk_scorer SP) (seq (length pre) (length SP)) = SP.
Proof.
  induction SP as [|p SP IH]; intros pre.
  - reflexivity.
  - simpl. unfold sparams_of in *. simpl. f_equal.
    + rewrite nth_error_app2 by lia. rewrite Nat.sub_diag. reflexivity.
    + specialize (IH (pre ++ [mk_scorer p])).
      rewrite app_length in IH. simpl in IH. rewrite Nat.add_1_r in IH.
      rewrite <- app_assoc in IH. simpl in IH. exact IH.
Qed.

Lemma sparams_of_mk_seq :
  forall SP, sparams_of (map mk_scorer SP) (seq 0 (length SP)) = SP.
Proof. intros SP. exact (sparams_of_app_seq SP []). Qed.

Lemma forallb_ltb_seq :
  forall n m, n <= m -> forallb (fun r => r <? m) (seq 0 n) = true.
Proof.
  intros n m Hle. apply forallb_forall. intros r Hin. apply in_seq in Hin.
  apply Nat.ltb_lt. lia.
Qed.

(* ------------------------------------------------------------------ *)
(** * [run], reachability                                              *)
(* ------------------------------------------------------------------ *)

Lemma run_nil : forall h, run h [] = (h, []).
Proof. reflexivity. Qed.

Lemma run_cons_fst :
  forall h o t, fst (run h (o :: t)) = fst (run (fst (step h o)) t).
Proof.
  intros h o t. cbn [run]. destruct (step h o) as [h1 r]. cbn [fst].
  destruct (run h1 t) as [h2 rs]. reflexivity.
Qed.

Lemma run_cons_snd :
  forall h o t, snd (run h (o :: t)) = snd (step h o) :: snd (run (fst (step h o)) t).
Proof.
  intros h o t. cbn [run]. destruct (step h o) as [h1 r]. cbn [fst snd].
  destruct (run h1 t) as [h2 rs]. reflexivity.
Qed.

Lemma run_app_fst :
  forall a b h, fst (run h (a ++ b)) = fst (run (fst (run h a)) b).
Proof.
  induction a as [|o a IH]; intros b h.
  - reflexivity.
  - rewrite <- app_comm_cons. rewrite !run_cons_fst. apply IH.
Qed.

Lemma run_snoc_fst :
  forall ops o h, fst (run h (ops ++ [o])) = fst (step (fst (run h ops)) o).
Proof.
  intros ops o h. rewrite run_app_fst. rewrite run_cons_fst. reflexivity.
Qed.

Definition reachable (h : heap) : Prop := exists ops, fst (run empty ops) = h.

Lemma reachable_empty : reachable empty.
Proof. exists []. reflexivity. Qed.

Lemma reachable_step : forall h o, reachable h -> reachable (fst (step h o)).
Proof.
  intros h o [ops Hops]. exists (ops ++ [o]). rewrite run_snoc_fst, Hops. reflexivity.
Qed.

Lemma reachable_run : forall ops h, reachable h -> reachable (fst (run h ops)).
Proof.
  induction ops as [|o ops IH]; intros h Hr.
  - exact Hr.
  - rewrite run_cons_fst. apply IH. apply reachable_step. exact Hr.
Qed.

Theorem reachable_ind' :
  forall P : heap -> Prop,
    P empty ->
    (forall h o, reachable h -> P h -> P (fst (step h o))) ->
    forall h, reachable h -> P h.
Proof.
  intros P Hempty Hstep h [ops Hops]. subst h.
  induction ops as [|o ops IH] using rev_ind.
  - exact Hempty.
  - rewrite run_snoc_fst. apply Hstep; [exists ops; reflexivity | exact IH].
Qed.

(* ------------------------------------------------------------------ *)
(** * Heap well-formedness                                             *)
(* ------------------------------------------------------------------ *)

(** [n] = number of scorer objects on the heap *)
Definition det_ok (n : nat) (d : detector) : Prop :=
  (forall r, In r (d_scorers d) -> r < n) /\
  match d_fit d with
  | Some fr => f_params fr = d_params d /\ d_X d = Some (f_data fr) /\
               length (f_sparams fr) = length (d_scorers d)
  | None => d_X d = None /\ d_scores d = None
  end /\
  (forall p x, d_scores d = Some (p, x) -> p = d_params d).

Definition heap_ok (h : heap) : Prop :=
  forall i d, nth_error (detectors h) i = Some d -> det_ok (length (scorers h)) d.

Lemma det_ok_mono : forall n m d, n <= m -> det_ok n d -> det_ok m d.
Proof.
  intros n m d Hle [Hrefs Hrest]. split; [|exact Hrest].
  intros r Hin. specialize (Hrefs r Hin). lia.
Qed.

Lemma heap_ok_empty : heap_ok empty.
Proof. intros i d Hn. destruct i; discriminate Hn. Qed.

Lemma heap_ok_same_dets :
  forall h ss', heap_ok h -> length (scorers h) <= length ss' ->
    heap_ok {| scorers := ss'; detectors := detectors h |}.
Proof.
  intros h ss' Hok Hle i d Hn. simpl in *.
  apply (det_ok_mono (length (scorers h))); [exact Hle | exact (Hok i d Hn)].
Qed.

Lemma heap_ok_upd :
  forall h ss' i v, heap_ok h -> length (scorers h) <= length ss' ->
    det_ok (length ss') v ->
    heap_ok {| scorers := ss'; detectors := upd (detectors h) i v |}.
Proof.
  intros h ss' i v Hok Hle Hv j d Hn. simpl in *.
  rewrite nth_error_upd in Hn.
  destruct (nth_error (detectors h) j) as [x|] eqn:Hx; simpl in Hn; [|discriminate].
  destruct (j =? i); inversion Hn; subst d.
  - exact Hv.
  - apply (det_ok_mono (length (scorers h))); [exact Hle | exact (Hok j x Hx)].
Qed.

Lemma heap_ok_app :
  forall h ss' v, heap_ok h -> length (scorers h) <= length ss' ->
    det_ok (length ss') v ->
    heap_ok {| scorers := ss'; detectors := detectors h ++ [v] |}.
Proof.
  intros h ss' v Hok Hle Hv j d Hn. simpl in *.
  destruct (Nat.lt_ge_cases j (length (detectors h))) as [Hlt|Hge].
  - rewrite nth_error_app1 in Hn by exact Hlt.
    apply (det_ok_mono (length (scorers h))); [exact Hle | exact (Hok j d Hn)].
  - rewrite nth_error_app2 in Hn by exact Hge.
    destruct (j - length (detectors h)) as [|k]; simpl in Hn.
    + inversion Hn; subst d. exact Hv.
    + destruct k; discriminate Hn.
Qed.

Lemma det_ok_reset :
  forall n d p tn, det_ok n d -> det_ok n (reset_d d p tn).
Proof.
  intros n d p tn [Hrefs _]. split; [exact Hrefs|]. simpl. split; [split; reflexivity|].
  intros p0 x Hs. discriminate Hs.
Qed.

Lemma det_ok_fit :
  forall n d ss D, det_ok n d ->
    det_ok n {| d_params := d_params d; d_tunes := d_tunes d; d_scorers := d_scorers d;
                d_fit := Some {| f_params := d_params d;
                                 f_sparams := sparams_of ss (d_scorers d);
                                 f_data := D |};
                d_X := Some D; d_scores := d_scores d |}.
Proof.
  intros n d ss D [Hrefs [_ Hsc]]. split; [exact Hrefs|]. simpl. split.
  - split; [reflexivity|]. split; [reflexivity|]. apply length_sparams_of.
  - exact Hsc.
Qed.

Lemma heap_ok_do_fit :
  forall h i d D, heap_ok h -> nth_error (detectors h) i = Some d -> heap_ok (do_fit h i d D).
Proof.
  intros h i d D Hok Hn. unfold do_fit. apply heap_ok_upd; [exact Hok | | ].
  - destruct (d_tunes d); [rewrite length_set_sfit|]; lia.
  - assert (Hlen : length (if d_tunes d then set_sfit (scorers h) (d_scorers d) D else scorers h)
                   = length (scorers h)).
    { destruct (d_tunes d); [apply length_set_sfit | reflexivity]. }
    rewrite Hlen. apply det_ok_fit. exact (Hok i d Hn).
Qed.

Theorem step_heap_ok : forall h o, heap_ok h -> heap_ok (fst (step h o)).
Proof.
  intros h o Hok. destruct o as [p|p tn refs|i p tn|i k p|r p|i|r|r D|r c|i D|i D|ob i x]; simpl.
  - (* NewS *) apply heap_ok_same_dets; [exact Hok|]. rewrite app_length. lia.
  - (* NewD *)
    destruct (forallb (fun r => r <? length (scorers h)) refs) eqn:Hfa; simpl; [|exact Hok].
    apply heap_ok_app; [exact Hok | lia |]. split; simpl.
    + intros r Hin. rewrite forallb_forall in Hfa. apply Nat.ltb_lt. exact (Hfa r Hin).
    + split; [split; reflexivity|]. intros p0 x Hs. discriminate Hs.
  - (* SetD *)
    destruct (nth_error (detectors h) i) as [d|] eqn:Hn; simpl; [|exact Hok].
    apply heap_ok_upd; [exact Hok | lia |]. apply det_ok_reset. exact (Hok i d Hn).
  - (* SetNested *)
    destruct (nth_error (detectors h) i) as [d|] eqn:Hn; simpl; [|exact Hok].
    destruct (nth_error (d_scorers d) k) as [r|] eqn:Hk; simpl; [|exact Hok].
    apply heap_ok_upd; [exact Hok | rewrite length_upd; lia |].
    rewrite length_upd. apply det_ok_reset. exact (Hok i d Hn).
  - (* SetS *)
    destruct (r <? length (scorers h)); simpl; [|exact Hok].
    apply heap_ok_same_dets; [exact Hok | rewrite length_upd; lia].
  - (* CloneD *)
    destruct (nth_error (detectors h) i) as [d|] eqn:Hn; simpl; [|exact Hok].
    apply heap_ok_app; [exact Hok | rewrite app_length; lia |].
    rewrite app_length, map_length, length_sparams_of. split; simpl.
    + intros r Hin. apply in_seq in Hin. lia.
    + split; [split; reflexivity|]. intros p0 x Hs. discriminate Hs.
  - (* CloneS *)
    destruct (nth_error (scorers h) r) as [s|] eqn:Hn; simpl; [|exact Hok].
    apply heap_ok_same_dets; [exact Hok | rewrite app_length; lia].
  - (* FitS *)
    destruct (nth_error (scorers h) r) as [s|] eqn:Hn; simpl; [|exact Hok].
    apply heap_ok_same_dets; [exact Hok | rewrite length_upd; lia].
  - (* EvalS *)
    destruct (nth_error (scorers h) r) as [s|] eqn:Hn; simpl; [|exact Hok].
    destruct (s_fit s); exact Hok.
  - (* FitD *)
    destruct (nth_error (detectors h) i) as [d|] eqn:Hn; simpl; [|exact Hok].
    apply heap_ok_do_fit; assumption.
  - (* UpdateD *)
    destruct (nth_error (detectors h) i) as [d|] eqn:Hn; simpl; [|exact Hok].
    destruct (d_fit d) as [fr|]; [|exact Hok].
    destruct (d_X d) as [old|]; [|exact Hok].
    simpl. apply heap_ok_do_fit; assumption.
  - (* Observe *)
    destruct (nth_error (detectors h) i) as [d|] eqn:Hn; simpl; [|exact Hok].
    destruct (d_fit d) as [fr|] eqn:Hf; simpl; [|exact Hok].
    apply heap_ok_upd; [exact Hok | rewrite length_set_sfit; lia |].
    rewrite length_set_sfit. destruct (Hok i d Hn) as [Hrefs [Hfit Hsc]].
    split; [exact Hrefs|]. simpl. rewrite Hf in *. split; [exact Hfit|].
    intros p0 x0 Hs. inversion Hs. reflexivity.
Qed.

Theorem reachable_heap_ok : forall h, reachable h -> heap_ok h.
Proof.
  apply reachable_ind'.
  - exact heap_ok_empty.
  - intros h o _ Hok. apply step_heap_ok. exact Hok.
Qed.

Lemma run_heap_ok : forall ops h, heap_ok h -> heap_ok (fst (run h ops)).
Proof.
  induction ops as [|o ops IH]; intros h Hok.
  - exact Hok.
  - rewrite run_cons_fst. apply IH. apply step_heap_ok. exact Hok.
Qed.

(* ------------------------------------------------------------------ *)
(** * T1: what the observing operations read                           *)
(* ------------------------------------------------------------------ *)

Lemma observe_out :
  forall h ob i x,
    snd (step h (Observe ob i x)) =
    match nth_error (detectors h) i with
    | Some d => match d_fit d with
                | Some fr => ODet ob (d_params d) (sparams_of (scorers h) (d_scorers d)) fr x
                | None => ONotFitted
                end
    | None => OBadRef
    end.
Proof.
  intros h ob i x. simpl. destruct (nth_error (detectors h) i) as [d|]; [|reflexivity].
  destruct (d_fit d); reflexivity.
Qed.

Theorem observe_reads :
  forall h ob i x d fr,
    nth_error (detectors h) i = Some d -> d_fit d = Some fr ->
    snd (step h (Observe ob i x)) =
    ODet ob (d_params d) (sparams_of (scorers h) (d_scorers d)) fr x.
Proof.
  intros h ob i x d fr Hn Hf. rewrite observe_out, Hn, Hf. reflexivity.
Qed.

Theorem observe_unfitted :
  forall h ob i x d,
    nth_error (detectors h) i = Some d -> d_fit d = None ->
    snd (step h (Observe ob i x)) = ONotFitted /\ fst (step h (Observe ob i x)) = h.
Proof.
  intros h ob i x d Hn Hf. simpl. rewrite Hn, Hf. split; reflexivity.
Qed.

Lemma eval_out :
  forall h r c,
    step h (EvalS r c) =
    (h, match nth_error (scorers h) r with
        | Some s => match s_fit s with Some D => OEval (s_param s) D c | None => ONotFitted end
        | None => OBadRef
        end).
Proof.
  intros h r c. simpl. destruct (nth_error (scorers h) r) as [s|]; [|reflexivity].
  destruct (s_fit s); reflexivity.
Qed.

Theorem eval_reads :
  forall h r c s,
    nth_error (scorers h) r = Some s ->
    step h (EvalS r c) =
    (h, match s_fit s with Some D => OEval (s_param s) D c | None => ONotFitted end).
Proof.
  intros h r c s Hn. rewrite eval_out, Hn. reflexivity.
Qed.

Corollary eval_reads_fitted :
  forall h r c s D,
    nth_error (scorers h) r = Some s -> s_fit s = Some D ->
    snd (step h (EvalS r c)) = OEval (s_param s) D c.
Proof. intros h r c s D Hn Hf. rewrite (eval_reads h r c s Hn), Hf. reflexivity. Qed.

Corollary eval_reads_unfitted :
  forall h r c s,
    nth_error (scorers h) r = Some s -> s_fit s = None ->
    snd (step h (EvalS r c)) = ONotFitted.
Proof. intros h r c s Hn Hf. rewrite (eval_reads h r c s Hn), Hf. reflexivity. Qed.

(* ------------------------------------------------------------------ *)
(** * T2: the fitted attributes belong to the current hyperparams *)
(* ------------------------------------------------------------------ *)

Theorem fitted_params_current :
  forall h i d fr,
    reachable h -> nth_error (detectors h) i = Some d -> d_fit d = Some fr ->
    f_params fr = d_params d /\ d_X d = Some (f_data fr).
Proof.
  intros h i d fr Hr Hn Hf.
  destruct (reachable_heap_ok h Hr i d Hn) as [_ [Hfit _]].
  rewrite Hf in Hfit. destruct Hfit as [H1 [H2 _]]. split; assumption.
Qed.

Theorem unfitted_has_no_state :
  forall h i d,
    reachable h -> nth_error (detectors h) i = Some d -> d_fit d = None ->
    d_X d = None /\ d_scores d = None.
Proof.
  intros h i d Hr Hn Hf.
  destruct (reachable_heap_ok h Hr i d Hn) as [_ [Hfit _]].
  rewrite Hf in Hfit. exact Hfit.
Qed.

(* ------------------------------------------------------------------ *)
(** * Frame lemmas                                                     *)
(* ------------------------------------------------------------------ *)

(** does [o] assign the detector's own hyperparams / drop or recompute
    the fitted attributes of detector [i]? *)
Definition touches_params (i : nat) (o : op) : bool :=
  match o with SetD j _ _ => i =? j | _ => false end.

Definition touches_fit (i : nat) (o : op) : bool :=
  match o with
  | SetD j _ _ | SetNested j _ _ | FitD j _ | UpdateD j _ => i =? j
  | _ => false
  end.

(** the scorer object whose hyperparam [o] assigns, if any *)
Definition param_target (h : heap) (o : op) : option nat :=
  match o with
  | SetS r _ => Some r
  | SetNested i k _ =>
      match nth_error (detectors h) i with
      | Some d => nth_error (d_scorers d) k
      | None => None
      end
  | _ => None
  end.

Lemma upd_lookup :
  forall (A : Type) (l : list A) (j : nat) (v : A) (i : nat) (x : A),
    nth_error l i = Some x -> nth_error (upd l j v) i = Some (if i =? j then v else x).
Proof. intros A l j v i x Hn. rewrite nth_error_upd, Hn. reflexivity. Qed.

Definition fit_relation (h : heap) (d d' : detector) : Prop :=
  d_fit d' = d_fit d \/ d_fit d' = None \/
  exists D, d_fit d' = Some {| f_params := d_params d;
                               f_sparams := sparams_of (scorers h) (d_scorers d);
                               f_data := D |}.

Ltac frame_same d Hn :=
  exists d; split; [exact Hn|]; split; [reflexivity|]; split; [intros _; split; reflexivity|];
  split; [intros _; split; reflexivity | left; reflexivity].

Lemma step_det_frame :
  forall h o i d,
    nth_error (detectors h) i = Some d ->
    exists d',
      nth_error (detectors (fst (step h o))) i = Some d' /\
      d_scorers d' = d_scorers d /\
      (touches_params i o = false -> d_params d' = d_params d /\ d_tunes d' = d_tunes d) /\
      (touches_fit i o = false -> d_fit d' = d_fit d /\ d_X d' = d_X d) /\
      fit_relation h d d'.
Proof.
  intros h o i d Hn.
  assert (Hlt : i < length (detectors h)) by (apply nth_error_Some; congruence).
  destruct o as [p|p tn refs|j p tn|j k p|r p|j|r|r D|r c|j D|j D|ob j x];
    unfold touches_params, touches_fit.
  - (* NewS *) simpl. frame_same d Hn.
  - (* NewD *) simpl. destruct (forallb _ refs); simpl; [|frame_same d Hn].
    rewrite nth_error_app1 by exact Hlt. frame_same d Hn.
  - (* SetD *) simpl. destruct (nth_error (detectors h) j) as [dj|] eqn:Hj; simpl; [|frame_same d Hn].
    eexists; split; [apply upd_lookup; exact Hn|].
    destruct (i =? j) eqn:E; simpl.
    + split; [apply Nat.eqb_eq in E; subst; rewrite Hn in Hj; inversion Hj; reflexivity|].
      split; [intros HH; discriminate HH|]. split; [intros HH; discriminate HH|].
      right; left; reflexivity.
    + split; [reflexivity|]. split; [intros _; split; reflexivity|].
      split; [intros _; split; reflexivity | left; reflexivity].
  - (* SetNested *) simpl. destruct (nth_error (detectors h) j) as [dj|] eqn:Hj; simpl; [|frame_same d Hn].
    destruct (nth_error (d_scorers dj) k) as [r|]; simpl; [|frame_same d Hn].
    eexists; split; [apply upd_lookup; exact Hn|].
    destruct (i =? j) eqn:E; simpl.
    + apply Nat.eqb_eq in E; subst; rewrite Hn in Hj; inversion Hj; subst.
      split; [reflexivity|]. split; [intros _; split; reflexivity|].
      split; [intros HH; discriminate HH|]. right; left; reflexivity.
    + split; [reflexivity|]. split; [intros _; split; reflexivity|].
      split; [intros _; split; reflexivity | left; reflexivity].
  - (* SetS *) simpl. destruct (r <? length (scorers h)); simpl; frame_same d Hn.
  - (* CloneD *) simpl. destruct (nth_error (detectors h) j) as [dj|] eqn:Hj; simpl; [|frame_same d Hn].
    rewrite nth_error_app1 by exact Hlt. frame_same d Hn.
  - (* CloneS *) simpl. destruct (nth_error (scorers h) r); simpl; frame_same d Hn.
  - (* FitS *) simpl. destruct (nth_error (scorers h) r); simpl; frame_same d Hn.
  - (* EvalS *) rewrite eval_out. simpl. frame_same d Hn.
  - (* FitD *) simpl. destruct (nth_error (detectors h) j) as [dj|] eqn:Hj; simpl; [|frame_same d Hn].
    eexists; split; [apply upd_lookup; exact Hn|].
    destruct (i =? j) eqn:E; simpl.
    + apply Nat.eqb_eq in E; subst; rewrite Hn in Hj; inversion Hj; subst.
      split; [reflexivity|]. split; [intros _; split; reflexivity|].
      split; [intros HH; discriminate HH|]. right; right. exists D. reflexivity.
    + split; [reflexivity|]. split; [intros _; split; reflexivity|].
      split; [intros _; split; reflexivity | left; reflexivity].
  - (* UpdateD *) simpl. destruct (nth_error (detectors h) j) as [dj|] eqn:Hj; simpl; [|frame_same d Hn].
    destruct (d_fit dj) as [frj|]; [|simpl; frame_same d Hn].
    destruct (d_X dj) as [old|]; [|simpl; frame_same d Hn].
    simpl. eexists; split; [apply upd_lookup; exact Hn|].
    destruct (i =? j) eqn:E; simpl.
    + apply Nat.eqb_eq in E; subst; rewrite Hn in Hj; inversion Hj; subst.
      split; [reflexivity|]. split; [intros _; split; reflexivity|].
      split; [intros HH; discriminate HH|]. right; right. eexists. reflexivity.
    + split; [reflexivity|]. split; [intros _; split; reflexivity|].
      split; [intros _; split; reflexivity | left; reflexivity].
  - (* Observe *) simpl. destruct (nth_error (detectors h) j) as [dj|] eqn:Hj; simpl; [|frame_same d Hn].
    destruct (d_fit dj) as [frj|] eqn:Hfj; [|simpl; frame_same d Hn].
    simpl. eexists; split; [apply upd_lookup; exact Hn|].
    destruct (i =? j) eqn:E; simpl.
    + apply Nat.eqb_eq in E; subst; rewrite Hn in Hj; inversion Hj; subst.
      split; [reflexivity|]. split; [intros _; split; reflexivity|].
      split; [intros _; split; [symmetry; exact Hfj | reflexivity] | left; symmetry; exact Hfj].
    + split; [reflexivity|]. split; [intros _; split; reflexivity|].
      split; [intros _; split; reflexivity | left; reflexivity].
Qed.

Lemma step_detectors_length :
  forall h o, length (detectors h) <= length (detectors (fst (step h o))).
Proof.
  intros h o. destruct (length (detectors h)) as [|n] eqn:Hlen; [lia|].
  assert (Hlt : n < length (detectors h)) by lia.
  destruct (nth_error (detectors h) n) as [d|] eqn:Hn; [|apply nth_error_None in Hn; lia].
  destruct (step_det_frame h o n d Hn) as [d' [Hn' _]].
  assert (n < length (detectors (fst (step h o)))) by (apply nth_error_Some; congruence). lia.
Qed.

Lemma sparam_frame :
  forall h o r,
    r < length (scorers h) -> param_target h o <> Some r ->
    sparam_at (scorers (fst (step h o))) r = sparam_at (scorers h) r.
Proof.
  intros h o r Hlt Ht.
  destruct o as [p|p tn refs|j p tn|j k p|r0 p|j|r0|r0 D|r0 c|j D|j D|ob j x]; simpl in *.
  - apply sparam_at_app. exact Hlt.
  - destruct (forallb _ refs); reflexivity.
  - destruct (nth_error (detectors h) j); reflexivity.
  - destruct (nth_error (detectors h) j) as [dj|]; [|reflexivity].
    destruct (nth_error (d_scorers dj) k) as [r1|]; [|reflexivity]. simpl.
    apply sparam_at_upd_other. congruence.
  - destruct (r0 <? length (scorers h)); [|reflexivity]. simpl.
    apply sparam_at_upd_other. congruence.
  - destruct (nth_error (detectors h) j); [|reflexivity]. simpl.
    apply sparam_at_app. exact Hlt.
  - destruct (nth_error (scorers h) r0); [|reflexivity]. simpl.
    apply sparam_at_app. exact Hlt.
  - destruct (nth_error (scorers h) r0) as [s|] eqn:Hs; [|reflexivity]. simpl.
    apply (sparam_at_upd_keep _ _ _ s); [exact Hs | reflexivity].
  - destruct (nth_error (scorers h) r0) as [s|]; [|reflexivity]. destruct (s_fit s); reflexivity.
  - destruct (nth_error (detectors h) j) as [dj|]; [|reflexivity]. simpl.
    destruct (d_tunes dj); [apply sparam_at_set_sfit | reflexivity].
  - destruct (nth_error (detectors h) j) as [dj|]; [|reflexivity].
    destruct (d_fit dj); [|reflexivity]. destruct (d_X dj); [|reflexivity]. simpl.
    destruct (d_tunes dj); [apply sparam_at_set_sfit | reflexivity].
  - destruct (nth_error (detectors h) j) as [dj|]; [|reflexivity].
    destruct (d_fit dj); [|reflexivity]. simpl. apply sparam_at_set_sfit.
Qed.

Lemma step_scorers_length :
  forall h o, length (scorers h) <= length (scorers (fst (step h o))).
Proof.
  intros h o.
  destruct o as [p|p tn refs|j p tn|j k p|r0 p|j|r0|r0 D|r0 c|j D|j D|ob j x]; simpl.
  - rewrite app_length. lia.
  - destruct (forallb _ refs); simpl; lia.
  - destruct (nth_error (detectors h) j); simpl; lia.
  - destruct (nth_error (detectors h) j) as [dj|]; [|simpl; lia].
    destruct (nth_error (d_scorers dj) k) as [r1|]; simpl; [rewrite length_upd|]; lia.
  - destruct (r0 <? length (scorers h)); simpl; [rewrite length_upd|]; lia.
  - destruct (nth_error (detectors h) j); simpl; [rewrite app_length|]; lia.
  - destruct (nth_error (scorers h) r0); simpl; [rewrite app_length|]; lia.
  - destruct (nth_error (scorers h) r0); simpl; [rewrite length_upd|]; lia.
  - destruct (nth_error (scorers h) r0) as [s|]; [|simpl; lia]. destruct (s_fit s); simpl; lia.
  - destruct (nth_error (detectors h) j) as [dj|]; [|simpl; lia]. simpl.
    destruct (d_tunes dj); [rewrite length_set_sfit|]; lia.
  - destruct (nth_error (detectors h) j) as [dj|]; [|simpl; lia].
    destruct (d_fit dj); [|simpl; lia]. destruct (d_X dj); [|simpl; lia]. simpl.
    destruct (d_tunes dj); [rewrite length_set_sfit|]; lia.
  - destruct (nth_error (detectors h) j) as [dj|]; [|simpl; lia].
    destruct (d_fit dj); [|simpl; lia]. simpl. rewrite length_set_sfit. lia.
Qed.

(** the nested hyperparams seen through the references of a detector *)
Lemma sparams_of_step :
  forall h o refs,
    (forall r, In r refs -> r < length (scorers h)) ->
    (forall r, param_target h o = Some r -> ~ In r refs) ->
    sparams_of (scorers (fst (step h o))) refs = sparams_of (scorers h) refs.
Proof.
  intros h o refs Hrefs Ht. apply sparams_of_ext. intros r Hin.
  apply sparam_frame; [exact (Hrefs r Hin)|].
  intros Heq. exact (Ht r Heq Hin).
Qed.

(* ------------------------------------------------------------------ *)
(** * T3: non-interference                                             *)
(* ------------------------------------------------------------------ *)

(** Operations that must not change what a later predict / transform on detector [i]
    returns: creating and cloning objects, fitting / evaluating scorer objects
    directly (including scorers shared with detector [i]), predict / transform on ANY
    detector (including [i] itself, on other data), and fit / update / set_params of
    OTHER detectors (including detectors sharing scorer objects with [i]). *)
Definition benign (i : nat) (o : op) : bool :=
  match o with
  | NewS _ | NewD _ _ _ | CloneD _ | CloneS _ | FitS _ _ | EvalS _ _ | Observe _ _ _ => true
  | FitD j _ | UpdateD j _ | SetD j _ _ => negb (j =? i)
  | SetS _ _ | SetNested _ _ _ => false
  end.

Lemma benign_touches_params : forall i o, benign i o = true -> touches_params i o = false.
Proof.
  intros i o Hb. destruct o; simpl in *; try reflexivity.
  rewrite Nat.eqb_sym. apply negb_true_iff. exact Hb.
Qed.

Lemma benign_touches_fit : forall i o, benign i o = true -> touches_fit i o = false.
Proof.
  intros i o Hb. destruct o; simpl in *; try reflexivity; try discriminate Hb;
    rewrite Nat.eqb_sym; apply negb_true_iff; exact Hb.
Qed.

Lemma benign_param_target : forall h i o, benign i o = true -> param_target h o = None.
Proof. intros h i o Hb. destruct o; simpl in *; try reflexivity; discriminate Hb. Qed.

Theorem benign_preserves_observation :
  forall h o i ob x,
    benign i o = true -> heap_ok h -> i < length (detectors h) ->
    snd (step (fst (step h o)) (Observe ob i x)) = snd (step h (Observe ob i x)).
Proof.
  intros h o i ob x Hb Hok Hlt.
  destruct (nth_error (detectors h) i) as [d|] eqn:Hn; [|apply nth_error_None in Hn; lia].
  destruct (step_det_frame h o i d Hn) as [d' [Hn' [Hsc [Hp [Hf _]]]]].
  destruct (Hp (benign_touches_params i o Hb)) as [Hp1 _].
  destruct (Hf (benign_touches_fit i o Hb)) as [Hf1 _].
  rewrite !observe_out, Hn, Hn', Hf1, Hp1, Hsc.
  rewrite sparams_of_step; [reflexivity | |].
  - exact (proj1 (Hok i d Hn)).
  - intros r Ht. rewrite (benign_param_target h i o Hb) in Ht. discriminate Ht.
Qed.

Theorem benign_seq_preserves_observation :
  forall ops h i ob x,
    forallb (benign i) ops = true -> heap_ok h -> i < length (detectors h) ->
    snd (step (fst (run h ops)) (Observe ob i x)) = snd (step h (Observe ob i x)).
Proof.
  induction ops as [|o ops IH]; intros h i ob x Hall Hok Hlt.
  - reflexivity.
  - simpl in Hall. apply andb_true_iff in Hall. destruct Hall as [Hb Hall].
    rewrite run_cons_fst. rewrite IH.
    + apply benign_preserves_observation; assumption.
    + exact Hall.
    + apply step_heap_ok. exact Hok.
    + pose proof (step_detectors_length h o). lia.
Qed.

(** the same, for histories starting from the empty heap *)
Corollary benign_suffix_irrelevant :
  forall pre ops i ob x,
    forallb (benign i) ops = true ->
    i < length (detectors (fst (run empty pre))) ->
    snd (step (fst (run empty (pre ++ ops))) (Observe ob i x)) =
    snd (step (fst (run empty pre)) (Observe ob i x)).
Proof.
  intros pre ops i ob x Hall Hlt. rewrite run_app_fst.
  apply benign_seq_preserves_observation; [exact Hall | | exact Hlt].
  apply run_heap_ok. exact heap_ok_empty.
Qed.

(** ** scorer objects *)

(** does [o], executed in heap [h], refit or reset scorer object [r]?  A detector
    operation refits [r] only if [r] is among the detector's scorer references;
    fit / update only when the threshold is tuned; predict / update only when fitted. *)
Definition refits (h : heap) (o : op) (r : nat) : bool :=
  match o with
  | FitS s _ | SetS s _ => r =? s
  | SetNested i k _ =>
      match nth_error (detectors h) i with
      | Some d => match nth_error (d_scorers d) k with Some s => r =? s | None => false end
      | None => false
      end
  | FitD i _ =>
      match nth_error (detectors h) i with
      | Some d => d_tunes d && existsb (Nat.eqb r) (d_scorers d)
      | None => false
      end
  | UpdateD i _ =>
      match nth_error (detectors h) i with
      | Some d => match d_fit d, d_X d with
                  | Some _, Some _ => d_tunes d && existsb (Nat.eqb r) (d_scorers d)
                  | _, _ => false
                  end
      | None => false
      end
  | Observe _ i _ =>
      match nth_error (detectors h) i with
      | Some d => match d_fit d with
                  | Some _ => existsb (Nat.eqb r) (d_scorers d)
                  | None => false
                  end
      | None => false
      end
  | _ => false
  end.

Definition eval_benign (h : heap) (r : nat) (o : op) : bool := negb (refits h o r).

Lemma scorer_frame :
  forall h o r,
    r < length (scorers h) -> refits h o r = false ->
    nth_error (scorers (fst (step h o))) r = nth_error (scorers h) r.
Proof.
  intros h o r Hlt Hr.
  destruct o as [p|p tn refs|j p tn|j k p|r0 p|j|r0|r0 D|r0 c|j D|j D|ob j x]; simpl in *.
  - apply nth_error_app1. exact Hlt.
  - destruct (forallb _ refs); reflexivity.
  - destruct (nth_error (detectors h) j); reflexivity.
  - destruct (nth_error (detectors h) j) as [dj|]; [|reflexivity].
    destruct (nth_error (d_scorers dj) k) as [r1|]; [|reflexivity]. simpl.
    apply nth_error_upd_other. apply Nat.eqb_neq. exact Hr.
  - destruct (r0 <? length (scorers h)); [|reflexivity]. simpl.
    apply nth_error_upd_other. apply Nat.eqb_neq. exact Hr.
  - destruct (nth_error (detectors h) j); [|reflexivity]. simpl.
    apply nth_error_app1. exact Hlt.
  - destruct (nth_error (scorers h) r0); [|reflexivity]. simpl.
    apply nth_error_app1. exact Hlt.
  - destruct (nth_error (scorers h) r0) as [s|]; [|reflexivity]. simpl.
    apply nth_error_upd_other. apply Nat.eqb_neq. exact Hr.
  - destruct (nth_error (scorers h) r0) as [s|]; [|reflexivity]. destruct (s_fit s); reflexivity.
  - destruct (nth_error (detectors h) j) as [dj|]; [|reflexivity]. simpl.
    destruct (d_tunes dj); [|reflexivity]. simpl in Hr.
    apply nth_error_set_sfit_notin. apply existsb_eqb_notIn. exact Hr.
  - destruct (nth_error (detectors h) j) as [dj|]; [|reflexivity].
    destruct (d_fit dj); [|reflexivity]. destruct (d_X dj); [|reflexivity]. simpl.
    destruct (d_tunes dj); [|reflexivity]. simpl in Hr.
    apply nth_error_set_sfit_notin. apply existsb_eqb_notIn. exact Hr.
  - destruct (nth_error (detectors h) j) as [dj|]; [|reflexivity].
    destruct (d_fit dj); [|reflexivity]. simpl.
    apply nth_error_set_sfit_notin. apply existsb_eqb_notIn. exact Hr.
Qed.

Theorem eval_preserved :
  forall h o r c,
    eval_benign h r o = true -> r < length (scorers h) ->
    snd (step (fst (step h o)) (EvalS r c)) = snd (step h (EvalS r c)).
Proof.
  intros h o r c Hb Hlt. unfold eval_benign in Hb. apply negb_true_iff in Hb.
  rewrite !eval_out. simpl. rewrite (scorer_frame h o r Hlt Hb). reflexivity.
Qed.

(** heap-independent sufficient condition, and its lift to sequences *)
Definition eval_benign_static (r : nat) (o : op) : bool :=
  match o with
  | NewS _ | NewD _ _ _ | SetD _ _ _ | CloneD _ | CloneS _ | EvalS _ _ => true
  | FitS s _ | SetS s _ => negb (s =? r)
  | SetNested _ _ _ | FitD _ _ | UpdateD _ _ | Observe _ _ _ => false
  end.

Lemma eval_benign_static_sound :
  forall h r o, eval_benign_static r o = true -> eval_benign h r o = true.
Proof.
  intros h r o Hs. unfold eval_benign.
  destruct o; simpl in *; try reflexivity; try discriminate Hs;
    rewrite Nat.eqb_sym; exact Hs.
Qed.

Theorem eval_seq_preserved :
  forall ops h r c,
    forallb (eval_benign_static r) ops = true -> r < length (scorers h) ->
    snd (step (fst (run h ops)) (EvalS r c)) = snd (step h (EvalS r c)).
Proof.
  induction ops as [|o ops IH]; intros h r c Hall Hlt.
  - reflexivity.
  - simpl in Hall. apply andb_true_iff in Hall. destruct Hall as [Hb Hall].
    rewrite run_cons_fst. rewrite IH.
    + apply eval_preserved; [apply eval_benign_static_sound; exact Hb | exact Hlt].
    + exact Hall.
    + pose proof (step_scorers_length h o). lia.
Qed.

(* ------------------------------------------------------------------ *)
(** * T4: equality with a freshly constructed object                   *)
(* ------------------------------------------------------------------ *)

(** construct fresh scorers with hyperparams [SP], a fresh detector with
    hyperparams [P] on them, and fit it on [D]; nothing else ever happens *)
Definition fresh_history (P : nat) (tn : bool) (SP : list nat) (D : dterm) : list op :=
  map NewS SP ++ [NewD P tn (seq 0 (length SP)); FitD 0 D].

Lemma run_news :
  forall SP h,
    fst (run h (map NewS SP)) =
    {| scorers := scorers h ++ map mk_scorer SP; detectors := detectors h |}.
Proof.
  induction SP as [|p SP IH]; intros h.
  - simpl. rewrite app_nil_r. destruct h; reflexivity.
  - cbn [map]. rewrite run_cons_fst. rewrite IH. simpl. rewrite <- app_assoc. reflexivity.
Qed.

Definition fresh_heap (P : nat) (tn : bool) (SP : list nat) (D : dterm) : heap :=
  {| scorers := if tn then set_sfit (map mk_scorer SP) (seq 0 (length SP)) D
                else map mk_scorer SP;
     detectors := [ {| d_params := P; d_tunes := tn; d_scorers := seq 0 (length SP);
                       d_fit := Some {| f_params := P; f_sparams := SP; f_data := D |};
                       d_X := Some D; d_scores := None |} ] |}.

Lemma run_fresh_history :
  forall P tn SP D, fst (run empty (fresh_history P tn SP D)) = fresh_heap P tn SP D.
Proof.
  intros P tn SP D. unfold fresh_history. rewrite run_app_fst, run_news.
  rewrite run_cons_fst. cbn [empty scorers detectors app].
  assert (Hfa : forallb (fun r => r <? length (map mk_scorer SP)) (seq 0 (length SP)) = true).
  { apply forallb_ltb_seq. rewrite map_length. lia. }
  cbn [step scorers detectors]. rewrite Hfa. cbn [fst app].
  rewrite run_cons_fst. cbn [step detectors nth_error fst run].
  unfold do_fit, fresh_heap. cbn [scorers detectors d_tunes d_params d_scorers d_scores].
  rewrite sparams_of_mk_seq. reflexivity.
Qed.

Theorem fresh_observation :
  forall P tn SP D ob x,
    snd (step (fst (run empty (fresh_history P tn SP D))) (Observe ob 0 x)) =
    ODet ob P SP {| f_params := P; f_sparams := SP; f_data := D |} x.
Proof.
  intros P tn SP D ob x. rewrite run_fresh_history, observe_out. unfold fresh_heap.
  cbn [detectors nth_error d_fit d_params d_scorers scorers].
  destruct tn; rewrite ?sparams_of_set_sfit, sparams_of_mk_seq; reflexivity.
Qed.

(** MAIN THEOREM.  In any heap reachable by any history, what predict / transform /
    transform_scores of a fitted detector reads equals what the same call reads on a
    freshly constructed detector with the same hyperparams, fresh scorers with the
    same hyperparams, fitted once on the data of the last fit (+ updates). *)
Theorem observe_equals_fresh :
  forall h i d fr ob x,
    reachable h -> nth_error (detectors h) i = Some d -> d_fit d = Some fr ->
    f_sparams fr = sparams_of (scorers h) (d_scorers d) ->
    snd (step h (Observe ob i x)) =
    snd (step (fst (run empty (fresh_history (d_params d) (d_tunes d)
                                 (sparams_of (scorers h) (d_scorers d)) (f_data fr))))
              (Observe ob 0 x)).
Proof.
  intros h i d fr ob x Hr Hn Hf Hsp.
  destruct (fitted_params_current h i d fr Hr Hn Hf) as [Hp _].
  rewrite fresh_observation, (observe_reads h ob i x d fr Hn Hf).
  destruct fr as [fp fs fd]. simpl in *. subst fp fs. reflexivity.
Qed.

(** two fitted detectors anywhere (same or different heaps, arbitrary histories) with
    equal hyperparams, equal nested hyperparams and equal training data give
    equal results on equal input *)
Corollary observations_agree :
  forall h1 h2 i1 i2 d1 d2 fr1 fr2 ob x,
    reachable h1 -> reachable h2 ->
    nth_error (detectors h1) i1 = Some d1 -> nth_error (detectors h2) i2 = Some d2 ->
    d_fit d1 = Some fr1 -> d_fit d2 = Some fr2 ->
    f_sparams fr1 = sparams_of (scorers h1) (d_scorers d1) ->
    f_sparams fr2 = sparams_of (scorers h2) (d_scorers d2) ->
    d_params d1 = d_params d2 ->
    sparams_of (scorers h1) (d_scorers d1) = sparams_of (scorers h2) (d_scorers d2) ->
    f_data fr1 = f_data fr2 ->
    snd (step h1 (Observe ob i1 x)) = snd (step h2 (Observe ob i2 x)).
Proof.
  intros h1 h2 i1 i2 d1 d2 fr1 fr2 ob x Hr1 Hr2 Hn1 Hn2 Hf1 Hf2 Hs1 Hs2 Hp Hsp Hd.
  rewrite (observe_equals_fresh h1 i1 d1 fr1 ob x Hr1 Hn1 Hf1 Hs1).
  rewrite (observe_equals_fresh h2 i2 d2 fr2 ob x Hr2 Hn2 Hf2 Hs2).
  rewrite !fresh_observation, Hp, Hsp, Hd. reflexivity.
Qed.

(** the side condition of the main theorem is necessary: assigning a hyperparam of
    the user's scorer object directly does not reset the detectors holding it *)
Definition stale_history : list op := [NewS 0; NewD 0 true [0]; FitD 0 (Raw 0); SetS 0 1].

Theorem stale_sparams_possible :
  exists ops i d fr,
    nth_error (detectors (fst (run empty ops))) i = Some d /\
    d_fit d = Some fr /\
    f_sparams fr <> sparams_of (scorers (fst (run empty ops))) (d_scorers d).
Proof.
  exists stale_history, 0,
    {| d_params := 0; d_tunes := true; d_scorers := [0];
       d_fit := Some {| f_params := 0; f_sparams := [0]; f_data := Raw 0 |};
       d_X := Some (Raw 0); d_scores := None |},
    {| f_params := 0; f_sparams := [0]; f_data := Raw 0 |}.
  split; [vm_compute; reflexivity|]. split; [reflexivity|].
  vm_compute. intros H. discriminate H.
Qed.

(** ... and the condition is preserved by every operation that does not assign a
    hyperparam of one of the detector's own scorer objects *)
Theorem sparams_fresh_preserved :
  forall h o i d d',
    heap_ok h ->
    nth_error (detectors h) i = Some d ->
    nth_error (detectors (fst (step h o))) i = Some d' ->
    (forall r, param_target h o = Some r -> ~ In r (d_scorers d)) ->
    (forall fr, d_fit d = Some fr -> f_sparams fr = sparams_of (scorers h) (d_scorers d)) ->
    forall fr', d_fit d' = Some fr' ->
      f_sparams fr' = sparams_of (scorers (fst (step h o))) (d_scorers d').
Proof.
  intros h o i d d' Hok Hn Hn' Ht Hfresh fr' Hf'.
  destruct (step_det_frame h o i d Hn) as [d2 [Hn2 [Hsc [_ [_ Hrel]]]]].
  rewrite Hn' in Hn2. inversion Hn2; subst d2. clear Hn2.
  rewrite Hsc. rewrite sparams_of_step; [| exact (proj1 (Hok i d Hn)) | exact Ht].
  destruct Hrel as [Heq | [Hnone | [D HD]]].
  - apply Hfresh. rewrite <- Heq. exact Hf'.
  - rewrite Hnone in Hf'. discriminate Hf'.
  - rewrite HD in Hf'. inversion Hf'. reflexivity.
Qed.

Definition is_sset (o : op) : bool :=
  match o with SetS _ _ | SetNested _ _ _ => true | _ => false end.

Lemma not_sset_param_target : forall h o, is_sset o = false -> param_target h o = None.
Proof. intros h o Hs. destruct o; simpl in *; try reflexivity; discriminate Hs. Qed.

(** every fitted detector carries up-to-date nested hyperparams *)
Definition sp_fresh (h : heap) : Prop :=
  forall i d fr, nth_error (detectors h) i = Some d -> d_fit d = Some fr ->
                 f_sparams fr = sparams_of (scorers h) (d_scorers d).

Lemma sp_fresh_step :
  forall h o, heap_ok h -> sp_fresh h -> is_sset o = false -> sp_fresh (fst (step h o)).
Proof.
  intros h o Hok Hfr Hs i d' fr' Hn' Hf'.
  destruct (nth_error (detectors h) i) as [d|] eqn:Hn.
  - apply (sparams_fresh_preserved h o i d d' Hok Hn Hn'); [| | exact Hf'].
    + intros r Ht. rewrite (not_sset_param_target h o Hs) in Ht. discriminate Ht.
    + intros fr Hf. exact (Hfr i d fr Hn Hf).
  - (* detector [i] was created by [o]: it is unfitted *)
    exfalso. destruct o as [p|p tn refs|j p tn|j k p|r0 p|j|r0|r0 D|r0 c|j D|j D|ob j x];
      simpl in Hn'; try discriminate Hs.
    + rewrite Hn in Hn'. discriminate Hn'.
    + destruct (forallb _ refs); simpl in Hn'; [|rewrite Hn in Hn'; discriminate Hn'].
      apply nth_error_None in Hn. rewrite nth_error_app2 in Hn' by exact Hn.
      destruct (i - length (detectors h)) as [|m]; simpl in Hn';
        [inversion Hn'; subst d'; discriminate Hf' | destruct m; discriminate Hn'].
    + destruct (nth_error (detectors h) j); simpl in Hn';
        [rewrite nth_error_upd, Hn in Hn' | rewrite Hn in Hn']; discriminate Hn'.
    + destruct (nth_error (detectors h) j); simpl in Hn'; [|rewrite Hn in Hn'; discriminate Hn'].
      apply nth_error_None in Hn. rewrite nth_error_app2 in Hn' by exact Hn.
      destruct (i - length (detectors h)) as [|m]; simpl in Hn';
        [inversion Hn'; subst d'; discriminate Hf' | destruct m; discriminate Hn'].
    + destruct (nth_error (scorers h) r0); simpl in Hn'; rewrite Hn in Hn'; discriminate Hn'.
    + destruct (nth_error (scorers h) r0); simpl in Hn'; rewrite Hn in Hn'; discriminate Hn'.
    + destruct (nth_error (scorers h) r0) as [s|]; [destruct (s_fit s)|];
        simpl in Hn'; rewrite Hn in Hn'; discriminate Hn'.
    + destruct (nth_error (detectors h) j); simpl in Hn';
        [rewrite nth_error_upd, Hn in Hn' | rewrite Hn in Hn']; discriminate Hn'.
    + destruct (nth_error (detectors h) j) as [dj|]; [|simpl in Hn'; rewrite Hn in Hn'; discriminate Hn'].
      destruct (d_fit dj); [|simpl in Hn'; rewrite Hn in Hn'; discriminate Hn'].
      destruct (d_X dj); simpl in Hn';
        [rewrite nth_error_upd, Hn in Hn' | rewrite Hn in Hn']; discriminate Hn'.
    + destruct (nth_error (detectors h) j) as [dj|]; [|simpl in Hn'; rewrite Hn in Hn'; discriminate Hn'].
      destruct (d_fit dj); simpl in Hn';
        [rewrite nth_error_upd, Hn in Hn' | rewrite Hn in Hn']; discriminate Hn'.
Qed.

Theorem sp_fresh_without_sets :
  forall ops, forallb (fun o => negb (is_sset o)) ops = true -> sp_fresh (fst (run empty ops)).
Proof.
  induction ops as [|o ops IH] using rev_ind; intros Hall.
  - intros i d fr Hn. destruct i; discriminate Hn.
  - rewrite forallb_app in Hall. apply andb_true_iff in Hall. destruct Hall as [Hall Ho].
    simpl in Ho. rewrite andb_true_r in Ho. apply negb_true_iff in Ho.
    rewrite run_snoc_fst. apply sp_fresh_step; [| exact (IH Hall) | exact Ho].
    apply run_heap_ok. exact heap_ok_empty.
Qed.

(** the main theorem without side condition, for histories in which nobody assigns a
    hyperparam of a scorer object after construction *)
Corollary observe_equals_fresh_no_sets :
  forall ops i d fr ob x,
    forallb (fun o => negb (is_sset o)) ops = true ->
    let h := fst (run empty ops) in
    nth_error (detectors h) i = Some d -> d_fit d = Some fr ->
    snd (step h (Observe ob i x)) =
    snd (step (fst (run empty (fresh_history (d_params d) (d_tunes d)
                                 (sparams_of (scorers h) (d_scorers d)) (f_data fr))))
              (Observe ob 0 x)).
Proof.
  intros ops i d fr ob x Hall h Hn Hf.
  apply observe_equals_fresh; [exists ops; reflexivity | exact Hn | exact Hf |].
  exact (sp_fresh_without_sets ops Hall i d fr Hn Hf).
Qed.

(* ------------------------------------------------------------------ *)
(** * T5: update = fit on the combined data                            *)
(* ------------------------------------------------------------------ *)

Theorem update_is_fit_on_combined :
  forall h i d fr old D,
    nth_error (detectors h) i = Some d -> d_fit d = Some fr -> d_X d = Some old ->
    step h (UpdateD i D) = step h (FitD i (Comb (Raw D) old)).
Proof.
  intros h i d fr old D Hn Hf HX. simpl. rewrite Hn, Hf, HX. reflexivity.
Qed.

(** in reachable heaps [_X] is the data of the last fit *)
Corollary update_is_fit_on_combined_reachable :
  forall h i d fr D,
    reachable h -> nth_error (detectors h) i = Some d -> d_fit d = Some fr ->
    step h (UpdateD i D) = step h (FitD i (Comb (Raw D) (f_data fr))).
Proof.
  intros h i d fr D Hr Hn Hf.
  destruct (fitted_params_current h i d fr Hr Hn Hf) as [_ HX].
  exact (update_is_fit_on_combined h i d fr (f_data fr) D Hn Hf HX).
Qed.

Theorem update_unfitted :
  forall h i d D,
    nth_error (detectors h) i = Some d -> d_fit d = None ->
    snd (step h (UpdateD i D)) = ONotFitted /\ fst (step h (UpdateD i D)) = h.
Proof.
  intros h i d D Hn Hf. simpl. rewrite Hn, Hf. split; reflexivity.
Qed.

(* ------------------------------------------------------------------ *)
(** * T6: sktime semantics as modelled                                 *)
(* ------------------------------------------------------------------ *)

Lemma observe_step_unfitted :
  forall h ob i x d,
    nth_error (detectors h) i = Some d -> d_fit d = None ->
    step h (Observe ob i x) = (h, ONotFitted).
Proof. intros h ob i x d Hn Hf. simpl. rewrite Hn, Hf. reflexivity. Qed.

Lemma update_step_unfitted :
  forall h i D d,
    nth_error (detectors h) i = Some d -> d_fit d = None ->
    step h (UpdateD i D) = (h, ONotFitted).
Proof. intros h i D d Hn Hf. simpl. rewrite Hn, Hf. reflexivity. Qed.

(** set_params on the detector's own hyperparams: assign + reset *)
Theorem set_params_unfits :
  forall h i d p tn,
    nth_error (detectors h) i = Some d ->
    nth_error (detectors (fst (step h (SetD i p tn)))) i = Some (reset_d d p tn) /\
    (forall ob x, step (fst (step h (SetD i p tn))) (Observe ob i x) =
                  (fst (step h (SetD i p tn)), ONotFitted)) /\
    (forall D, step (fst (step h (SetD i p tn))) (UpdateD i D) =
               (fst (step h (SetD i p tn)), ONotFitted)).
Proof.
  intros h i d p tn Hn.
  assert (Hn' : nth_error (detectors (fst (step h (SetD i p tn)))) i = Some (reset_d d p tn)).
  { simpl. rewrite Hn. simpl. apply (nth_error_upd_same _ _ _ _ d). exact Hn. }
  split; [exact Hn'|]. split.
  - intros ob x. exact (observe_step_unfitted _ ob i x _ Hn' eq_refl).
  - intros D. exact (update_step_unfitted _ i D _ Hn' eq_refl).
Qed.

(** nested set_params: the user's scorer object is mutated and reset, the detector is
    reset and keeps its own hyperparams *)
Theorem set_nested_unfits :
  forall h i k p d r,
    heap_ok h ->
    nth_error (detectors h) i = Some d -> nth_error (d_scorers d) k = Some r ->
    let h' := fst (step h (SetNested i k p)) in
    nth_error (detectors h') i = Some (reset_d d (d_params d) (d_tunes d)) /\
    nth_error (scorers h') r = Some {| s_param := p; s_fit := None |} /\
    (forall ob x, step h' (Observe ob i x) = (h', ONotFitted)).
Proof.
  intros h i k p d r Hok Hn Hk h'.
  assert (Hn' : nth_error (detectors h') i = Some (reset_d d (d_params d) (d_tunes d))).
  { unfold h'. simpl. rewrite Hn, Hk. simpl. apply (nth_error_upd_same _ _ _ _ d). exact Hn. }
  split; [exact Hn'|]. split.
  - unfold h'. simpl. rewrite Hn, Hk. simpl.
    assert (Hr : r < length (scorers h)).
    { apply (proj1 (Hok i d Hn)). apply nth_error_In with k. exact Hk. }
    destruct (nth_error (scorers h) r) as [s|] eqn:Hs; [|apply nth_error_None in Hs; lia].
    apply (nth_error_upd_same _ _ _ _ s). exact Hs.
  - intros ob x. exact (observe_step_unfitted _ ob i x _ Hn' eq_refl).
Qed.

(** clone: a new unfitted detector with equal hyperparams on fresh, unfitted,
    pairwise distinct scorer objects with equal hyperparams *)
Theorem clone_is_unfitted_copy :
  forall h i d,
    nth_error (detectors h) i = Some d ->
    let h' := fst (step h (CloneD i)) in
    snd (step h (CloneD i)) = ONew (length (detectors h)) /\
    exists d',
      nth_error (detectors h') (length (detectors h)) = Some d' /\
      d_params d' = d_params d /\ d_tunes d' = d_tunes d /\
      d_fit d' = None /\ d_X d' = None /\ d_scores d' = None /\
      length (d_scorers d') = length (d_scorers d) /\
      NoDup (d_scorers d') /\
      (forall r, In r (d_scorers d') ->
                 length (scorers h) <= r /\
                 exists s, nth_error (scorers h') r = Some s /\ s_fit s = None) /\
      sparams_of (scorers h') (d_scorers d') = sparams_of (scorers h) (d_scorers d).
Proof.
  intros h i d Hn h'. unfold h'. simpl. rewrite Hn. simpl. split; [reflexivity|].
  eexists. split.
  { rewrite nth_error_app2 by lia. rewrite Nat.sub_diag. reflexivity. }
  simpl. repeat (split; [reflexivity|]).
  split; [apply seq_length|]. split; [apply seq_NoDup|]. split.
  - intros r Hin. apply in_seq in Hin. split; [lia|].
    rewrite nth_error_app2 by lia.
    set (l := sparams_of (scorers h) (d_scorers d)).
    assert (Hl : r - length (scorers h) < length l).
    { unfold l. rewrite length_sparams_of. lia. }
    destruct (nth_error l (r - length (scorers h))) as [p|] eqn:Hp;
      [|apply nth_error_None in Hp; lia].
    eexists. split; [apply map_nth_error; exact Hp | reflexivity].
  - pose proof (sparams_of_app_seq (sparams_of (scorers h) (d_scorers d)) (scorers h)) as H.
    rewrite length_sparams_of in H. exact H.
Qed.

(** no operation ever removes or renumbers an object; clone in particular leaves every
    existing object exactly as it was *)
Theorem clone_does_not_touch_original :
  forall h i,
    exists ss ds,
      scorers (fst (step h (CloneD i))) = scorers h ++ ss /\
      detectors (fst (step h (CloneD i))) = detectors h ++ ds.
Proof.
  intros h i. simpl. destruct (nth_error (detectors h) i) as [d|]; simpl.
  - eexists. eexists. split; reflexivity.
  - exists [], []. rewrite !app_nil_r. split; reflexivity.
Qed.

Corollary clone_keeps_objects :
  forall h i,
    (forall j d, nth_error (detectors h) j = Some d ->
                 nth_error (detectors (fst (step h (CloneD i)))) j = Some d) /\
    (forall r s, nth_error (scorers h) r = Some s ->
                 nth_error (scorers (fst (step h (CloneD i)))) r = Some s).
Proof.
  intros h i. destruct (clone_does_not_touch_original h i) as [ss [ds [Hs Hd]]].
  rewrite Hs, Hd. split.
  - intros j d Hn. rewrite nth_error_app1; [exact Hn | apply nth_error_Some; congruence].
  - intros r s Hn. rewrite nth_error_app1; [exact Hn | apply nth_error_Some; congruence].
Qed.

Theorem clone_scorer_is_unfitted_copy :
  forall h r s,
    nth_error (scorers h) r = Some s ->
    step h (CloneS r) =
    ({| scorers := scorers h ++ [{| s_param := s_param s; s_fit := None |}];
        detectors := detectors h |}, ONew (length (scorers h))).
Proof. intros h r s Hn. simpl. rewrite Hn. reflexivity. Qed.

(** hyperparams change only through set_params: the detector's own ones only by
    [SetD] on that detector; a scorer's only by [SetS] on it or a nested set_params
    resolving to it.  In particular fit, update, predict, transform and evaluate never
    modify a hyperparam. *)
Theorem hyperparams_only_by_set :
  forall h o,
    (forall i d, nth_error (detectors h) i = Some d -> touches_params i o = false ->
       exists d', nth_error (detectors (fst (step h o))) i = Some d' /\
                  d_params d' = d_params d /\ d_tunes d' = d_tunes d /\
                  d_scorers d' = d_scorers d) /\
    (forall r s, nth_error (scorers h) r = Some s -> param_target h o <> Some r ->
       exists s', nth_error (scorers (fst (step h o))) r = Some s' /\
                  s_param s' = s_param s).
Proof.
  intros h o. split.
  - intros i d Hn Ht. destruct (step_det_frame h o i d Hn) as [d' [Hn' [Hsc [Hp _]]]].
    destruct (Hp Ht) as [Hp1 Hp2]. exists d'. repeat split; assumption.
  - intros r s Hn Ht.
    assert (Hlt : r < length (scorers h)) by (apply nth_error_Some; congruence).
    pose proof (sparam_frame h o r Hlt Ht) as Hfr. unfold sparam_at in Hfr.
    rewrite Hn in Hfr. simpl in Hfr.
    destruct (nth_error (scorers (fst (step h o))) r) as [s'|]; simpl in Hfr; [|discriminate Hfr].
    exists s'. split; [reflexivity|]. congruence.
Qed.

Definition is_set (o : op) : bool :=
  match o with SetD _ _ _ | SetNested _ _ _ | SetS _ _ => true | _ => false end.

Corollary non_set_ops_keep_hyperparams :
  forall h o,
    is_set o = false ->
    (forall i d, nth_error (detectors h) i = Some d ->
       exists d', nth_error (detectors (fst (step h o))) i = Some d' /\
                  d_params d' = d_params d /\ d_tunes d' = d_tunes d /\
                  d_scorers d' = d_scorers d) /\
    (forall r s, nth_error (scorers h) r = Some s ->
       exists s', nth_error (scorers (fst (step h o))) r = Some s' /\
                  s_param s' = s_param s).
Proof.
  intros h o Hs. destruct (hyperparams_only_by_set h o) as [H1 H2]. split.
  - intros i d Hn. apply H1; [exact Hn|]. destruct o; simpl in *; try reflexivity; discriminate Hs.
  - intros r s Hn. apply H2; [exact Hn|]. destruct o; simpl in *; try discriminate; discriminate Hs.
Qed.

(** the detector's scorer references are never rebound by anything *)
Theorem scorer_refs_never_change :
  forall h o i d,
    nth_error (detectors h) i = Some d ->
    exists d', nth_error (detectors (fst (step h o))) i = Some d' /\ d_scorers d' = d_scorers d.
Proof.
  intros h o i d Hn. destruct (step_det_frame h o i d Hn) as [d' [Hn' [Hsc _]]].
  exists d'. split; assumption.
Qed.

(* ------------------------------------------------------------------ *)
(** * T7: non-vacuity                                                  *)
(* ------------------------------------------------------------------ *)

(** two detectors share scorer object 0; predict / transform on different data are
    interleaved, the scorer is evaluated directly in between (it carries the data of
    the LAST detector call, 21, not its own), detector 1 is updated, detector 0 gets
    new hyperparams (and is unfitted afterwards), detector 1 is cloned (the clone
    is unfitted) and the clone fitted on the combined data answers like detector 1 *)
Definition shared_history : list op :=
  [NewS 7; NewD 1 true [0]; NewD 2 false [0];
   FitD 0 (Raw 10); FitD 1 (Raw 11);
   Observe Predict 0 20; Observe Transform 1 21; EvalS 0 5;
   Observe Predict 0 22; Observe TransformScores 0 20;
   UpdateD 1 12; Observe Transform 1 21;
   SetD 0 3 true; Observe Predict 0 20;
   CloneD 1; Observe Predict 2 20; FitD 2 (Comb (Raw 12) (Raw 11)); Observe Transform 2 21].

Example shared_history_outputs :
  snd (run empty shared_history) =
  [ONew 0; ONew 0; ONew 1; ONone; ONone;
   ODet Predict 1 [7] {| f_params := 1; f_sparams := [7]; f_data := Raw 10 |} 20;
   ODet Transform 2 [7] {| f_params := 2; f_sparams := [7]; f_data := Raw 11 |} 21;
   OEval 7 (Raw 21) 5;
   ODet Predict 1 [7] {| f_params := 1; f_sparams := [7]; f_data := Raw 10 |} 22;
   ODet TransformScores 1 [7] {| f_params := 1; f_sparams := [7]; f_data := Raw 10 |} 20;
   ONone;
   ODet Transform 2 [7]
        {| f_params := 2; f_sparams := [7]; f_data := Comb (Raw 12) (Raw 11) |} 21;
   ONone; ONotFitted; ONew 2; ONotFitted; ONone;
   ODet Transform 2 [7]
        {| f_params := 2; f_sparams := [7]; f_data := Comb (Raw 12) (Raw 11) |} 21].
Proof. vm_compute. reflexivity. Qed.

Example shared_history_reachable : reachable (fst (run empty shared_history)).
Proof. exists shared_history. reflexivity. Qed.

(** the hypotheses of the main theorem are satisfiable: detector 1 of the heap after
    the first seven operations, observed on 21 *)
Example main_theorem_instance :
  let h := fst (run empty (firstn 7 shared_history)) in
  snd (step h (Observe Transform 1 21)) =
  snd (step (fst (run empty (fresh_history 2 false [7] (Raw 11)))) (Observe Transform 0 21)).
Proof. vm_compute. reflexivity. Qed.

(** the stale witness: after [SetS] behind the fitted detector's back, predict reads
    nested hyperparams [1] while the fitted attributes were computed under [0] *)
Example stale_history_outputs :
  snd (run empty (stale_history ++ [Observe Predict 0 9])) =
  [ONew 0; ONew 0; ONone; ONone;
   ODet Predict 0 [1] {| f_params := 0; f_sparams := [0]; f_data := Raw 0 |} 9].
Proof. vm_compute. reflexivity. Qed.

Example stale_differs_from_fresh :
  snd (step (fst (run empty stale_history)) (Observe Predict 0 9)) <>
  snd (step (fst (run empty (fresh_history 0 true [1] (Raw 0)))) (Observe Predict 0 9)).
Proof. vm_compute. intros H. discriminate H. Qed.

(** [heap_ok] in [benign_preserves_observation] cannot be dropped: in an (unreachable)
    heap whose detector holds a dangling scorer reference, creating a scorer object
    changes what the detector reads *)
Example benign_needs_heap_ok :
  let h := {| scorers := [];
              detectors := [ {| d_params := 0; d_tunes := false; d_scorers := [0];
                                d_fit := Some {| f_params := 0; f_sparams := [0]; f_data := Raw 0 |};
                                d_X := Some (Raw 0); d_scores := None |} ] |} in
  benign 0 (NewS 5) = true /\ 0 < length (detectors h) /\
  snd (step (fst (step h (NewS 5))) (Observe Predict 0 1)) <> snd (step h (Observe Predict 0 1)).
Proof.
  split; [reflexivity|]. split; [vm_compute; lia|]. vm_compute. intros H. discriminate H.
Qed.

(* ------------------------------------------------------------------ *)
(** * Audit                                                            *)
(* ------------------------------------------------------------------ *)

Print Assumptions reachable_ind'.
Print Assumptions step_heap_ok.
Print Assumptions reachable_heap_ok.
Print Assumptions observe_reads.
Print Assumptions observe_unfitted.
Print Assumptions eval_reads.
Print Assumptions eval_reads_fitted.
Print Assumptions eval_reads_unfitted.
Print Assumptions fitted_params_current.
Print Assumptions unfitted_has_no_state.
Print Assumptions benign_preserves_observation.
Print Assumptions benign_seq_preserves_observation.
Print Assumptions benign_suffix_irrelevant.
Print Assumptions eval_preserved.
Print Assumptions eval_seq_preserved.
Print Assumptions fresh_observation.
Print Assumptions observe_equals_fresh.
Print Assumptions observations_agree.
Print Assumptions stale_sparams_possible.
Print Assumptions sparams_fresh_preserved.
Print Assumptions sp_fresh_without_sets.
Print Assumptions observe_equals_fresh_no_sets.
Print Assumptions update_is_fit_on_combined.
Print Assumptions update_is_fit_on_combined_reachable.
Print Assumptions update_unfitted.
Print Assumptions set_params_unfits.
Print Assumptions set_nested_unfits.
Print Assumptions clone_is_unfitted_copy.
Print Assumptions clone_does_not_touch_original.
Print Assumptions clone_keeps_objects.
Print Assumptions clone_scorer_is_unfitted_copy.
Print Assumptions hyperparams_only_by_set.
Print Assumptions non_set_ops_keep_hyperparams.
Print Assumptions scorer_refs_never_change.
Print Assumptions shared_history_outputs.
Print Assumptions main_theorem_instance.
Print Assumptions stale_history_outputs.
Print Assumptions stale_differs_from_fresh.
Print Assumptions benign_needs_heap_ok.
