(** The generic CAPA / MVCAPA (Model/GenericCapa.v) at the Z instance IS the Z model Model/Capa.v:
    every theorem about [capa] / [penalise] / [affected] is a theorem about the generic definitions.

    The "negligible beta" test is the argument [tiny]; two instantiations are covered:
      - [gtiny_le Zn 0]  (beta <= 0)  -- by computation the test [all_tiny] of the Z model;
      - [gtiny_lt Zn 1]  (beta <  1)  -- the shape of the code's test "beta < 1e-8"; on integers it is
                                          the same test ([Z.ltb b 1 = Z.leb b 0]).
    The derived maximum and equality test are not syntactically [Z.max] / [Z.eqb]: bridged by
    [gmax_Z] and [geqb_Z]. *)
From Coq Require Import ZArith List Bool Arith Lia.
From SK Require Import Lib.Base Model.Capa Model.Generic Model.GenericCapa Proofs.GenericZ.
Import ListNotations.
Open Scope Z_scope.

(** ---- derived operations ---- *)
Lemma gsub_Z (x y : Z) : gsub Zn x y = x - y.
Proof. reflexivity. Qed.

Lemma gmax_Z (a b : Z) : gmax Zn a b = Z.max a b.
Proof.
  unfold gmax, Z.max. cbn [ltb Zn]. unfold Z.ltb. destruct (a ?= b); reflexivity.
Qed.

Lemma geqb_Z (a b : Z) : geqb Zn a b = (a =? b).
Proof.
  unfold geqb. cbn [ltb Zn].
  destruct (Z.ltb_spec a b) as [H1|H1]; destruct (Z.ltb_spec b a) as [H2|H2];
    destruct (Z.eqb_spec a b) as [H3|H3]; cbn; try reflexivity; lia.
Qed.

Lemma gtiny_le_Z (b : Z) : gtiny_le Zn 0 b = (b <=? 0).
Proof. reflexivity. Qed.

Lemma gtiny_lt_Z (b : Z) : gtiny_lt Zn 1 b = (b <=? 0).
Proof.
  unfold gtiny_lt. cbn [ltb Zn].
  destruct (Z.ltb_spec b 1) as [H1|H1]; destruct (Z.leb_spec b 0) as [H2|H2]; try reflexivity; lia.
Qed.

(** [gsum] is the left fold from the first element (NumPy's order); over Z it is [sumZ] (a right fold
    ending in 0) by associativity and commutativity of the addition. *)
Lemma fold_left_add_Z (t : list Z) (acc : Z) : fold_left (add Zn) t acc = acc + sumZ t.
Proof.
  revert acc. induction t as [|y t IH]; intros acc; cbn [fold_left sumZ].
  - lia.
  - rewrite IH. change (add Zn acc y) with (acc + y). lia.
Qed.

Lemma gsum_Z (l : list Z) : gsum Zn l = sumZ l.
Proof. destruct l as [|x t]; cbn [gsum sumZ]; [reflexivity|]. apply fold_left_add_Z. Qed.

(** ---- penalise_savings ---- *)
Lemma ginsert_desc_Z (x : Z) (l : list Z) : ginsert_desc Zn x l = insert_desc x l.
Proof.
  induction l as [|y t IH]; cbn [ginsert_desc insert_desc]; [reflexivity|].
  change (ltb Zn y x) with (y <? x). destruct (y <? x); [reflexivity|]. rewrite IH. reflexivity.
Qed.

Lemma gsort_desc_Z (l : list Z) : gsort_desc Zn l = sort_desc l.
Proof.
  induction l as [|x t IH]; cbn [gsort_desc sort_desc]; [reflexivity|].
  rewrite IH. apply ginsert_desc_Z.
Qed.

Lemma gcumsum_from_Z (l : list Z) : forall acc, gcumsum_from Zn acc l = cumsum_from acc l.
Proof.
  induction l as [|x t IH]; intros acc; cbn [gcumsum_from cumsum_from]; [reflexivity|].
  rewrite IH. reflexivity.
Qed.

Lemma gcumsum_Z (l : list Z) : gcumsum Zn l = cumsum l.
Proof. unfold gcumsum, cumsum. apply gcumsum_from_Z. Qed.

Lemma gsub_lists_Z (a b : list Z) : gsub_lists Zn a b = sub_lists a b.
Proof. reflexivity. Qed.

Lemma gall_tiny_Z (tiny : Z -> bool) (betas : list Z) : (forall b, tiny b = (b <=? 0)) -> gall_tiny Zn tiny betas = all_tiny betas.
Proof.
  intros Ht. unfold gall_tiny, all_tiny.
  induction betas as [|b t IH]; cbn [forallb]; [reflexivity|]. rewrite Ht, IH. reflexivity.
Qed.

Lemma forallb_geqb_Z (b0 : Z) (l : list Z) : forallb (fun b => geqb Zn b b0) l = forallb (fun b => b =? b0) l.
Proof.
  induction l as [|b t IH]; cbn [forallb]; [reflexivity|]. rewrite geqb_Z, IH. reflexivity.
Qed.

Lemma gall_equal_Z (betas : list Z) : gall_equal Zn betas = all_equal betas.
Proof.
  unfold gall_equal, all_equal. destruct betas as [|b0 t]; [reflexivity|]. apply forallb_geqb_Z.
Qed.

Lemma map_gmax_Z (c : Z) (sav : list Z) :
  map (fun s => gmax Zn (gsub Zn s c) (zero Zn)) sav = map (fun s => Z.max (s - c) 0) sav.
Proof. apply map_ext. intros s. rewrite gmax_Z. reflexivity. Qed.

Theorem gpenalise_Z_gen (tiny : Z -> bool) (sav : list Z) (alpha : Z) (betas : list Z) : (forall b, tiny b = (b <=? 0)) ->
  gpenalise Zn tiny sav alpha betas = penalise sav alpha betas.
Proof.
  intros Ht. unfold gpenalise, penalise.
  rewrite (gall_tiny_Z tiny betas Ht), gall_equal_Z.
  destruct (all_tiny betas).
  - rewrite gsum_Z. reflexivity.
  - destruct (all_equal betas).
    + rewrite gsum_Z. change (hd (zero Zn) betas) with (hd 0 betas). rewrite map_gmax_Z. reflexivity.
    + rewrite gargmax_Z, gsort_desc_Z, gsub_lists_Z, gcumsum_Z. reflexivity.
Qed.

Theorem gpenalise_Z (sav : list Z) (alpha : Z) (betas : list Z) :
  gpenalise Zn (gtiny_le Zn 0) sav alpha betas = penalise sav alpha betas.
Proof. apply gpenalise_Z_gen. exact gtiny_le_Z. Qed.

Theorem gpenalise_Z_lt (sav : list Z) (alpha : Z) (betas : list Z) :
  gpenalise Zn (gtiny_lt Zn 1) sav alpha betas = penalise sav alpha betas.
Proof. apply gpenalise_Z_gen. exact gtiny_lt_Z. Qed.

(** ---- find_affected_components ---- *)
Lemma ginsert_idx_Z (sav : list Z) j l : ginsert_idx Zn sav j l = insert_idx sav j l.
Proof.
  induction l as [|k t IH]; cbn [ginsert_idx insert_idx]; [reflexivity|].
  change (ltb Zn (nthV Zn sav k) (nthV Zn sav j)) with (nthZ sav k <? nthZ sav j).
  destruct (nthZ sav k <? nthZ sav j); [reflexivity|]. rewrite IH. reflexivity.
Qed.

Lemma gargsort_desc_Z (sav : list Z) : gargsort_desc Zn sav = argsort_desc sav.
Proof.
  unfold gargsort_desc, argsort_desc.
  change (@length (T Zn) sav) with (@length Z sav).
  induction (seq 0 (length sav)) as [|j t IH]; cbn [fold_right]; [reflexivity|].
  rewrite IH. apply ginsert_idx_Z.
Qed.

Theorem gaffected_Z (sav : list Z) (alpha : Z) (betas : list Z) : gaffected Zn sav alpha betas = affected sav alpha betas.
Proof.
  unfold gaffected, affected. cbv zeta.
  rewrite gargmax_Z, gargsort_desc_Z, gsub_lists_Z, gcumsum_Z. reflexivity.
Qed.

(** ---- run_base_capa ---- *)
Section Run.
Variable tiny : Z -> bool.
Hypothesis Htiny : forall b, tiny b = (b <=? 0).
Variable Sc : nat -> nat -> list Z.
Variable Sp : nat -> list Z.
Variables (ac : Z) (bc : list Z) (ap : Z) (bp : list Z).
Variables (m M delay : nat).

Lemma gPc_Z s e : gPc Zn tiny Sc ac bc s e = Pc Sc ac bc s e.
Proof. unfold gPc, Pc. apply gpenalise_Z_gen. exact Htiny. Qed.

Lemma gPp_Z t : gPp Zn tiny Sp ap bp t = Pp Sp ap bp t.
Proof. unfold gPp, Pp. apply gpenalise_Z_gen. exact Htiny. Qed.

Definition cst_rel (g : gcst Zn) (s : Capa.st) : Prop :=
  gcopt Zn g = Capa.opt s /\ gcastart Zn g = Capa.astart s /\
  gcstarts Zn g = Capa.starts s /\ gcpending Zn g = Capa.pending s.

Lemma gcinit_Z : cst_rel (gcinit Zn) Capa.init.
Proof. repeat split. Qed.

Lemma gcstep_Z g s t : cst_rel g s ->
  cst_rel (gcstep Zn tiny Sc Sp ac bc ap bp m M delay g t) (Capa.step Sc Sp ac bc ap bp m M delay s t).
Proof.
  intros (Ho & Ha & Hs & Hq). unfold gcstep, Capa.step. rewrite Ho, Ha, Hs, Hq.
  cbv zeta. rewrite gargmax_Z, gsum_Z, gPp_Z.
  rewrite (map_ext (fun a => add Zn (nthV Zn (Capa.opt s) a) (gPc Zn tiny Sc ac bc a (S t)))
                   (fun a => nthZ (Capa.opt s) a + Pc Sc ac bc a (S t)))
    by (intros a; rewrite gPc_Z; reflexivity).
  rewrite !nthV_Z. cbn [T ltb leb add neg zero Zn].
  set (starts1 := if (m <=? S t)%nat then Capa.starts s ++ [(S t - m)%nat] else Capa.starts s).
  set (cands := map (fun a => nthZ (Capa.opt s) a + Pc Sc ac bc a (S t)) starts1).
  set (ot := nthZ (Capa.opt s) t). set (optp := ot + Pp Sp ap bp t).
  destruct (match argmax cands with
            | Some (i, oc) =>
                if ot <? oc
                then if oc <? optp then (Some t, optp) else (Some (nthN starts1 i), oc)
                else if ot <? optp then (Some t, optp) else (None, ot)
            | None => if ot <? optp then (Some t, optp) else (None, ot)
            end) as [choice best].
  destruct (Nat.ltb delay _); unfold cst_rel; cbn; repeat split; reflexivity.
Qed.

Lemma gcrun_Z n :
  cst_rel (gcrun Zn tiny Sc Sp ac bc ap bp m M delay n) (Capa.run Sc Sp ac bc ap bp m M delay n).
Proof.
  unfold gcrun, Capa.run. generalize (seq 0 n) as ts.
  generalize gcinit_Z. generalize (gcinit Zn) as g, Capa.init as s.
  intros g s Hrel ts. revert g s Hrel.
  induction ts as [|t ts IH]; intros g s Hrel; cbn [fold_left]; [exact Hrel|].
  apply IH. apply gcstep_Z. exact Hrel.
Qed.

Theorem gcapa_Z_gen n :
  gcapa Zn tiny Sc Sp ac bc ap bp m M delay n = capa Sc Sp ac bc ap bp m M delay n.
Proof.
  unfold gcapa, capa. cbv zeta. destruct (gcrun_Z n) as (Ho & Ha & _ & _).
  rewrite Ho, Ha. reflexivity.
Qed.
End Run.

(** the two instantiations of the test *)
Theorem gcapa_Z (Sc : nat -> nat -> list Z) (Sp : nat -> list Z) (ac : Z) (bc : list Z) (ap : Z) (bp : list Z) m M delay n :
  gcapa Zn (gtiny_le Zn 0) Sc Sp ac bc ap bp m M delay n = capa Sc Sp ac bc ap bp m M delay n.
Proof. apply gcapa_Z_gen. exact gtiny_le_Z. Qed.

Theorem gcapa_Z_lt (Sc : nat -> nat -> list Z) (Sp : nat -> list Z) (ac : Z) (bc : list Z) (ap : Z) (bp : list Z) m M delay n :
  gcapa Zn (gtiny_lt Zn 1) Sc Sp ac bc ap bp m M delay n = capa Sc Sp ac bc ap bp m M delay n.
Proof. apply gcapa_Z_gen. exact gtiny_lt_Z. Qed.

Print Assumptions gpenalise_Z.
Print Assumptions gpenalise_Z_lt.
Print Assumptions gaffected_Z.
Print Assumptions gcapa_Z.
Print Assumptions gcapa_Z_lt.
