(** The generic search loops (Model/Generic.v) at the Z instance ARE the Z models: every theorem about
    Model/Pelt.v, Mw.v, Sbs.v, Cbs.v is a theorem about the generic definitions -- the same definitions
    the harness runs on binary64 score tables (Model/GenericF.v). *)
From Coq Require Import ZArith List Bool Arith Lia.
From SK Require Import Lib.Base Model.Pelt Model.Mw Model.Sbs Model.Capa Model.Cbs Model.Generic.
Import ListNotations.
Open Scope Z_scope.

Lemma gargmin_from_Z l : forall bi b i, gargmin_from Zn bi b i l = argmin_from bi b i l.
Proof.
  induction l as [|x t IH]; intros bi b i; cbn [gargmin_from argmin_from]; [reflexivity|].
  change (ltb Zn x b) with (x <? b). destruct (x <? b); apply IH.
Qed.

Lemma gargmin_Z l : gargmin Zn l = argmin l.
Proof. destruct l as [|x t]; cbn [gargmin argmin]; [reflexivity|]. rewrite gargmin_from_Z. reflexivity. Qed.

Lemma gargmax_from_Z l : forall bi b i, gargmax_from Zn bi b i l = argmax_from bi b i l.
Proof.
  induction l as [|x t IH]; intros bi b i; cbn [gargmax_from argmax_from]; [reflexivity|].
  change (ltb Zn b x) with (b <? x). destruct (b <? x); apply IH.
Qed.

Lemma gargmax_Z l : gargmax Zn l = argmax l.
Proof. destruct l as [|x t]; cbn [gargmax argmax]; [reflexivity|]. rewrite gargmax_from_Z. reflexivity. Qed.

Lemma nthV_Z l i : nthV Zn l i = nthZ l i.
Proof. reflexivity. Qed.

(** ---- moving window ---- *)
Theorem gmw_Z CS b n thr mdi : gmw Zn CS b n thr mdi = mw CS b n thr mdi.
Proof.
  unfold gmw, mw. cbv zeta.
  change (gmw_scores Zn CS b n) with (mw_scores CS b n).
  apply f_equal. unfold gmw_cpts, mw_cpts.
  apply flat_map_ext. intros [s e]. rewrite gargmax_Z. reflexivity.
Qed.

(** ---- seeded binary segmentation ---- *)
Lemma gamoc_Z CS m se : gamoc Zn CS m se = amoc CS m se.
Proof. destruct se as [s e]. unfold gamoc, amoc. rewrite gargmax_Z. reflexivity. Qed.

Lemma gamocs_Z CS m ivs : gamocs Zn CS m ivs = amocs CS m ivs.
Proof.
  induction ivs as [|se t IH]; cbn [gamocs amocs]; [reflexivity|].
  rewrite gamoc_Z, IH. reflexivity.
Qed.

Lemma ggreedy_cpts_Z fuel : forall thr ivs maxs scores,
  ggreedy_cpts Zn fuel thr ivs maxs scores = greedy_cpts fuel thr ivs maxs scores.
Proof.
  induction fuel as [|f IH]; intros thr ivs maxs scores; cbn [ggreedy_cpts greedy_cpts].
  - reflexivity.
  - cbn [T ltb zero Zn] in *.
    destruct (negb (existsb (fun v : Z => thr <? v) scores)); [reflexivity|].
    rewrite gargmax_Z. destruct (argmax scores) as [[i v]|]; [|reflexivity].
    rewrite IH. reflexivity.
Qed.

Theorem gsbs_Z CS m thr ivs : gsbs Zn CS m thr ivs = sbs CS m thr ivs.
Proof.
  unfold gsbs, sbs. rewrite gamocs_Z. destruct (amocs CS m ivs) as [am|]; [|reflexivity].
  rewrite ggreedy_cpts_Z. reflexivity.
Qed.

(** ---- circular binary segmentation ---- *)
Lemma ginner_or_zero_Z LS m se : ginner_or_zero Zn LS m se = inner_or_zero LS m se.
Proof.
  unfold ginner_or_zero, inner_or_zero, gbest_inner, best_inner. destruct se as [s e].
  rewrite gargmax_Z. reflexivity.
Qed.

Lemma ggreedy_anoms_Z fuel : forall thr ivs inner scores,
  ggreedy_anoms Zn fuel thr ivs inner scores = greedy_anoms fuel thr ivs inner scores.
Proof.
  induction fuel as [|f IH]; intros thr ivs inner scores; cbn [ggreedy_anoms greedy_anoms].
  - reflexivity.
  - cbn [T ltb zero Zn] in *.
    destruct (negb (existsb (fun v : Z => thr <? v) scores)); [reflexivity|].
    rewrite gargmax_Z. destruct (argmax scores) as [[i v]|]; [|reflexivity].
    rewrite IH. reflexivity.
Qed.

Theorem gcbs_Z LS m thr ivs : gcbs Zn LS m thr ivs = cbs LS m thr ivs.
Proof.
  unfold gcbs, cbs.
  rewrite (map_ext _ _ (ginner_or_zero_Z LS m)).
  rewrite ggreedy_anoms_Z. reflexivity.
Qed.

(** ---- PELT ---- *)
Definition st_rel (g : gst Zn) (s : Pelt.st) : Prop :=
  gopt Zn g = Pelt.opt s /\ gprev Zn g = Pelt.prev s /\ gstarts Zn g = Pelt.starts s /\ gpending Zn g = Pelt.pending s.

Lemma ginit_Z C pen m : st_rel (ginit Zn C pen m) (Pelt.init C pen m).
Proof. repeat split. Qed.

Lemma gstep_Z C pen m d g s t : st_rel g s -> st_rel (gstep Zn C pen m d g t) (Pelt.step C pen m d s t).
Proof.
  intros (Ho & Hp & Hs & Hq). unfold gstep, Pelt.step. rewrite Ho, Hp, Hs, Hq.
  unfold nthV. cbn [T ltb leb add neg zero Zn].
  rewrite gargmin_Z. unfold nthZ.
  destruct (argmin _) as [[i b]|].
  - destruct (Nat.ltb d _); unfold st_rel; cbn; repeat split; reflexivity.
  - repeat split; assumption.
Qed.

Lemma grun_Z C pen m d n : st_rel (grun Zn C pen m d n) (Pelt.run C pen m d n).
Proof.
  unfold grun, Pelt.run.
  generalize (seq (2 * m - 1) (n - (2 * m - 1))) as ts.
  generalize (ginit_Z C pen m). generalize (ginit Zn C pen m) as g, (Pelt.init C pen m) as s.
  intros g s Hrel ts. revert g s Hrel.
  induction ts as [|t ts IH]; intros g s Hrel; cbn [fold_left]; [exact Hrel|].
  apply IH. apply gstep_Z. exact Hrel.
Qed.

Theorem gpelt_Z C pen m d n : gpelt Zn C pen m d n = Pelt.pelt C pen m d n.
Proof.
  unfold gpelt, Pelt.pelt. destruct (grun_Z C pen m d n) as (Ho & Hp & _ & _).
  rewrite Ho, Hp. reflexivity.
Qed.

Print Assumptions gmw_Z.
Print Assumptions gsbs_Z.
Print Assumptions gcbs_Z.
Print Assumptions gpelt_Z.
