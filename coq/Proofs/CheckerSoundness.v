(** Soundness of the boolean checkers of [Check/]: whenever a checker returns [true] on the
    output of the real implementation, the propositional statement it stands for holds.
    The booleans are reflected into readable [Prop]s; where a lemma file already
    characterises a model function (first argmax, seeded binary segmentation, ...) the
    characterisation is carried over to the implementation's output. *)
From Coq Require Import ZArith List Lia Bool Arith Sorted Permutation.
From SK Require Import Lib.Base.
From SK Require Import Model.Sbs Model.Cbs Model.Mw Model.Capa Model.Convert Model.Anomaliser.
From SK Require Model.Objects.
From SK Require Import Proofs.ArgmaxLemmas Proofs.SbsProofs Proofs.CbsProofs Proofs.MwProofs.
From SK Require Proofs.Penalise Proofs.ConvertProofs.
From SK Require Import Check.Scores.
From SK Require Check.SbsCheck Check.CbsCheck Check.MwCheck Check.ConvertCheck Check.AffectedCheck
                Check.AnomaliserCheck Check.KernelCheck Check.ObjectsCheck Check.CapaCheck
                Check.PeltCheck Model.Pelt.
From Coq Require QArith.
Import SbsCheck CbsCheck MwCheck AffectedCheck AnomaliserCheck ObjectsCheck.
Import ListNotations.
Open Scope Z_scope.

(** * 1. Generic reflection lemmas *)

Lemma forallb_combine_map {A B} (eqb : A -> A -> bool) (f : B -> A)
      (Heqb : forall x y, eqb x y = true -> x = y) :
  forall (a : list A) (b : list B),
    length a = length b ->
    forallb (fun xy => eqb (fst xy) (f (snd xy))) (combine a b) = true ->
    a = map f b.
Proof.
  induction a as [|x a IH]; intros [|y b] Hlen Hall; cbn in *; try discriminate; [reflexivity|].
  apply andb_true_iff in Hall as [Hxy Hall].
  apply Heqb in Hxy. subst x. f_equal. apply IH; [lia | exact Hall].
Qed.

Lemma forallb_combine_eq {A} (eqb : A -> A -> bool)
      (Heqb : forall x y, eqb x y = true -> x = y) :
  forall a b : list A,
    length a = length b ->
    forallb (fun xy => eqb (fst xy) (snd xy)) (combine a b) = true ->
    a = b.
Proof.
  intros a b Hlen Hall.
  rewrite <- (map_id b).
  apply (forallb_combine_map eqb (fun x => x) Heqb a b Hlen Hall).
Qed.

Lemma eqb_listN_true : forall a b : list nat, eqb_listN a b = true -> a = b.
Proof.
  intros a b H. unfold eqb_listN in H.
  apply andb_true_iff in H as [Hlen Hall]. apply Nat.eqb_eq in Hlen.
  apply (forallb_combine_eq Nat.eqb (fun x y Hxy => proj1 (Nat.eqb_eq x y) Hxy) a b Hlen Hall).
Qed.

Lemma eqb_listZ_true : forall a b : list Z, eqb_listZ a b = true -> a = b.
Proof.
  intros a b H. unfold eqb_listZ in H.
  apply andb_true_iff in H as [Hlen Hall]. apply Nat.eqb_eq in Hlen.
  apply (forallb_combine_eq Z.eqb (fun x y Hxy => proj1 (Z.eqb_eq x y) Hxy) a b Hlen Hall).
Qed.

Lemma pair_eqb_true : forall a b : nat * nat, ConvertCheck.pair_eqb a b = true -> a = b.
Proof.
  intros [a1 a2] [b1 b2] H. unfold ConvertCheck.pair_eqb in H. cbn in H.
  apply andb_true_iff in H as [H1 H2].
  apply Nat.eqb_eq in H1. apply Nat.eqb_eq in H2. subst. reflexivity.
Qed.

Lemma sbs_pair_eqb_true : forall a b : nat * nat, SbsCheck.pair_eqb a b = true -> a = b.
Proof. exact pair_eqb_true. Qed.
Lemma cbs_pair_eqb_true : forall a b : nat * nat, CbsCheck.pair_eqb a b = true -> a = b.
Proof. exact pair_eqb_true. Qed.
Lemma capa_pair_eqb_true : forall a b : nat * nat, CapaCheck.pair_eqb a b = true -> a = b.
Proof. exact pair_eqb_true. Qed.

(** [eqb_pairs] of Check/ConvertCheck.v (used by AnomaliserCheck as well) *)
Lemma eqb_pairs_true : forall a b : list (nat * nat), ConvertCheck.eqb_pairs a b = true -> a = b.
Proof.
  intros a b H. unfold ConvertCheck.eqb_pairs in H.
  apply andb_true_iff in H as [Hlen Hall]. apply Nat.eqb_eq in Hlen.
  apply (forallb_combine_eq ConvertCheck.pair_eqb pair_eqb_true a b Hlen Hall).
Qed.
(** the separate (convertible) definitions of Check/CbsCheck.v and Check/CapaCheck.v *)
Lemma cbs_eqb_pairs_true : forall a b : list (nat * nat), CbsCheck.eqb_pairs a b = true -> a = b.
Proof. exact eqb_pairs_true. Qed.
Lemma capa_eqb_pairs_true : forall a b : list (nat * nat), CapaCheck.eqb_pairs a b = true -> a = b.
Proof. exact eqb_pairs_true. Qed.

Lemma eqb_mat_true : forall a b : list (list nat), ConvertCheck.eqb_mat a b = true -> a = b.
Proof.
  intros a b H. unfold ConvertCheck.eqb_mat in H.
  apply andb_true_iff in H as [Hlen Hall]. apply Nat.eqb_eq in Hlen.
  apply (forallb_combine_eq eqb_listN eqb_listN_true a b Hlen Hall).
Qed.

Lemma anom3_eqb_true : forall a b : anom3, ConvertCheck.anom3_eqb a b = true -> a = b.
Proof.
  intros [ai ac] [bi bc] H. unfold ConvertCheck.anom3_eqb in H. cbn in H.
  apply andb_true_iff in H as [H1 H2].
  apply pair_eqb_true in H1. apply eqb_listN_true in H2. subst. reflexivity.
Qed.

Lemma eqb_anoms_true : forall a b : list anom3, ConvertCheck.eqb_anoms a b = true -> a = b.
Proof.
  intros a b H. unfold ConvertCheck.eqb_anoms in H.
  apply andb_true_iff in H as [Hlen Hall]. apply Nat.eqb_eq in Hlen.
  apply (forallb_combine_eq ConvertCheck.anom3_eqb anom3_eqb_true a b Hlen Hall).
Qed.

Lemma memb_true_iff : forall (a : nat) (l : list nat), memb a l = true <-> In a l.
Proof.
  intros a l. unfold memb. rewrite existsb_exists. split.
  - intros [x [Hin Heq]]. apply Nat.eqb_eq in Heq. subst x. exact Hin.
  - intros Hin. exists a. split; [exact Hin | apply Nat.eqb_refl].
Qed.

Lemma memb_false_iff : forall (a : nat) (l : list nat), memb a l = false <-> ~ In a l.
Proof.
  intros a l. rewrite <- memb_true_iff. destruct (memb a l); split; intros H; try congruence;
    try (exfalso; apply H; reflexivity).
Qed.

Lemma existsb_Zeqb_iff : forall (a : Z) (l : list Z), existsb (Z.eqb a) l = true <-> In a l.
Proof.
  intros a l. rewrite existsb_exists. split.
  - intros [x [Hin Heq]]. apply Z.eqb_eq in Heq. subst x. exact Hin.
  - intros Hin. exists a. split; [exact Hin | apply Z.eqb_refl].
Qed.

Lemma nodupb_iff : forall l : list nat, AffectedCheck.nodupb l = true <-> NoDup l.
Proof.
  induction l as [|x t IH]; cbn.
  - split; intros _; [constructor | reflexivity].
  - rewrite andb_true_iff, negb_true_iff, memb_false_iff, IH. split.
    + intros [Hx Ht]. constructor; assumption.
    + intros Hnd. inversion Hnd as [|x' t' Hx Ht]; subst. split; assumption.
Qed.
Lemma nodupb_true : forall l : list nat, AffectedCheck.nodupb l = true -> NoDup l.
Proof. intros l H. apply nodupb_iff. exact H. Qed.

Lemma nodupZb_iff : forall l : list Z, AffectedCheck.nodupZb l = true <-> NoDup l.
Proof.
  induction l as [|x t IH]; cbn.
  - split; intros _; [constructor | reflexivity].
  - rewrite andb_true_iff, negb_true_iff, IH. split.
    + intros [Hx Ht]. constructor; [|exact Ht].
      intros Hin. apply existsb_Zeqb_iff in Hin. congruence.
    + intros Hnd. inversion Hnd as [|x' t' Hx Ht]; subst. split; [|exact Ht].
      destruct (existsb (Z.eqb x) t) eqn:E; [|reflexivity].
      exfalso. apply Hx. apply existsb_Zeqb_iff. exact E.
Qed.
Lemma nodupZb_true : forall l : list Z, AffectedCheck.nodupZb l = true -> NoDup l.
Proof. intros l H. apply nodupZb_iff. exact H. Qed.

(** consecutive elements are non-increasing *)
Lemma noninc_true : forall l : list Z, AffectedCheck.noninc l = true ->
  forall i, (S i < length l)%nat -> nthZ l (S i) <= nthZ l i.
Proof.
  induction l as [|x t IH]; intros H i Hi; [cbn in Hi; lia|].
  destruct t as [|y t']; [cbn in Hi; lia|].
  change (AffectedCheck.noninc (x :: y :: t')) with ((y <=? x) && AffectedCheck.noninc (y :: t')) in H.
  apply andb_true_iff in H as [Hyx Ht]. apply Z.leb_le in Hyx.
  destruct i as [|i].
  - unfold nthZ. cbn. exact Hyx.
  - specialize (IH Ht i). unfold nthZ in *. cbn in Hi.
    change (nth (S (S i)) (x :: y :: t') 0) with (nth (S i) (y :: t') 0).
    change (nth (S i) (x :: y :: t') 0) with (nth i (y :: t') 0).
    apply IH. cbn. lia.
Qed.

(** ... hence any later element is at most any earlier one *)
Lemma noninc_le : forall l : list Z, AffectedCheck.noninc l = true ->
  forall i i', (i <= i')%nat -> (i' < length l)%nat -> nthZ l i' <= nthZ l i.
Proof.
  intros l H i i' Hle. induction Hle as [|i' Hle IH]; intros Hlt; [lia|].
  pose proof (noninc_true l H i' Hlt) as Hstep.
  specialize (IH ltac:(lia)). lia.
Qed.

Lemma noninc_sorted : forall l : list Z, AffectedCheck.noninc l = true ->
  Sorted (fun a b => b <= a) l.
Proof.
  intros l H. apply (nth_Sorted (fun a b : Z => b <= a) l 0).
  intros i Hi. apply (noninc_true l H i Hi).
Qed.

Lemma incl_ok_true : forall small big : list nat, SbsCheck.incl_ok small big = true -> incl small big.
Proof.
  intros small big H x Hx. unfold SbsCheck.incl_ok in H. rewrite forallb_forall in H.
  apply memb_true_iff. apply H. exact Hx.
Qed.

Lemma incl_pairs_ok_true : forall x : list (nat * nat) * list (nat * nat),
  CbsCheck.incl_pairs_ok x = true -> incl (fst x) (snd x).
Proof.
  intros x H ab Hab. unfold CbsCheck.incl_pairs_ok in H. rewrite forallb_forall in H.
  specialize (H ab Hab). apply existsb_exists in H as [y [Hy Heq]].
  apply cbs_pair_eqb_true in Heq. subst y. exact Hy.
Qed.

Lemma dterm_eqb_true : forall a b : Objects.dterm, Objects.dterm_eqb a b = true -> a = b.
Proof.
  induction a as [i | a1 IH1 a2 IH2]; intros [j | b1 b2] H; cbn in H; try discriminate.
  - apply Nat.eqb_eq in H. subst. reflexivity.
  - apply andb_true_iff in H as [H1 H2]. apply IH1 in H1. apply IH2 in H2. subst. reflexivity.
Qed.

Lemma obs_eqb_true : forall a b : Objects.obsop, ObjectsCheck.obs_eqb a b = true -> a = b.
Proof. intros [] [] H; cbn in H; try discriminate; reflexivity. Qed.

Lemma fitrec_eqb_true : forall a b : Objects.fitrec, ObjectsCheck.fitrec_eqb a b = true -> a = b.
Proof.
  intros [ap asp ad] [bp bsp bd] H. unfold ObjectsCheck.fitrec_eqb in H. cbn in H.
  apply andb_true_iff in H as [H Hd]. apply andb_true_iff in H as [Hp Hsp].
  apply Nat.eqb_eq in Hp. apply eqb_listN_true in Hsp. apply dterm_eqb_true in Hd.
  subst. reflexivity.
Qed.

Lemma out_eqb_true : forall a b : Objects.out, ObjectsCheck.out_eqb a b = true -> a = b.
Proof.
  intros a b H. destruct a, b; cbn in H; try discriminate; try reflexivity.
  - apply Nat.eqb_eq in H. subst. reflexivity.
  - apply andb_true_iff in H as [H Hc]. apply andb_true_iff in H as [Hp Hd].
    apply Nat.eqb_eq in Hp. apply Nat.eqb_eq in Hc. apply dterm_eqb_true in Hd.
    subst. reflexivity.
  - apply andb_true_iff in H as [H Hx]. apply andb_true_iff in H as [H Hfr].
    apply andb_true_iff in H as [H Hsp]. apply andb_true_iff in H as [Ho Hp].
    apply obs_eqb_true in Ho. apply Nat.eqb_eq in Hp. apply eqb_listN_true in Hsp.
    apply fitrec_eqb_true in Hfr. apply Nat.eqb_eq in Hx. subst. reflexivity.
Qed.

Lemma outs_eqb_true : forall a b : list Objects.out, ObjectsCheck.outs_eqb a b = true -> a = b.
Proof.
  induction a as [|x a IH]; intros [|y b] H; cbn in H; try discriminate; [reflexivity|].
  apply andb_true_iff in H as [Hxy Hab]. apply out_eqb_true in Hxy. apply IH in Hab.
  subst. reflexivity.
Qed.

Lemma nb_eqb_true : forall a b : list (nat * bool), ObjectsCheck.nb_eqb a b = true -> a = b.
Proof.
  intros a b H. unfold ObjectsCheck.nb_eqb in H.
  apply andb_true_iff in H as [Hlen Hall]. apply Nat.eqb_eq in Hlen.
  apply (forallb_combine_eq
           (fun x y : nat * bool => (fst x =? fst y)%nat && Bool.eqb (snd x) (snd y))); try assumption.
  intros [x1 x2] [y1 y2] Hxy. cbn in Hxy. apply andb_true_iff in Hxy as [H1 H2].
  apply Nat.eqb_eq in H1. apply Bool.eqb_prop in H2. subst. reflexivity.
Qed.

(** * 6. MVCAPA affected columns (Check/AffectedCheck.v) *)

Lemma nthZ_map_nthN : forall (f : nat -> Z) (l : list nat) (i : nat),
  (i < length l)%nat -> nthZ (map f l) i = f (nthN l i).
Proof.
  intros f l i Hi. unfold nthZ, nthN. apply (nth_map_lt f l i 0%nat 0 Hi).
Qed.

Definition af_spec (c : AffectedCheck.af_case) : Prop :=
  let sav := AffectedCheck.af_sav c in
  let cols := AffectedCheck.af_cols c in
  cols <> []
  /\ NoDup cols
  /\ (forall j, In j cols -> (j < length sav)%nat)
  /\ (forall i i', (i <= i')%nat -> (i' < length cols)%nat ->
        nthZ sav (nthN cols i') <= nthZ sav (nthN cols i))
  /\ (forall j, (j < length sav)%nat -> ~ In j cols ->
        forall i, In i cols -> nthZ sav j <= nthZ sav i)
  /\ length cols = length (affected sav (AffectedCheck.af_alpha c) (AffectedCheck.af_betas c)).

Theorem af_spec_ok_sound : forall c : AffectedCheck.af_case,
  AffectedCheck.af_spec_ok c = true ->
  AffectedCheck.af_cols c <> []
  /\ NoDup (AffectedCheck.af_cols c)
  /\ (forall j, In j (AffectedCheck.af_cols c) -> (j < length (AffectedCheck.af_sav c))%nat)
  /\ (forall i i', (i <= i')%nat -> (i' < length (AffectedCheck.af_cols c))%nat ->
        nthZ (AffectedCheck.af_sav c) (nthN (AffectedCheck.af_cols c) i')
        <= nthZ (AffectedCheck.af_sav c) (nthN (AffectedCheck.af_cols c) i))
  /\ (forall j, (j < length (AffectedCheck.af_sav c))%nat -> ~ In j (AffectedCheck.af_cols c) ->
        forall i, In i (AffectedCheck.af_cols c) ->
          nthZ (AffectedCheck.af_sav c) j <= nthZ (AffectedCheck.af_sav c) i)
  /\ length (AffectedCheck.af_cols c)
     = length (affected (AffectedCheck.af_sav c) (AffectedCheck.af_alpha c) (AffectedCheck.af_betas c)).
Proof.
  intros c H. unfold AffectedCheck.af_spec_ok in H. cbn zeta in H.
  apply andb_true_iff in H as [H Hlen]. apply andb_true_iff in H as [H Hexcl].
  apply andb_true_iff in H as [H Hninc]. apply andb_true_iff in H as [H Hrange].
  apply andb_true_iff in H as [Hne Hnd].
  apply negb_true_iff in Hne. apply Nat.eqb_neq in Hne.
  apply nodupb_true in Hnd. rewrite forallb_forall in Hrange. rewrite forallb_forall in Hexcl.
  apply Nat.eqb_eq in Hlen.
  split; [|split; [|split; [|split; [|split]]]].
  - intros Hnil. rewrite Hnil in Hne. cbn in Hne. lia.
  - exact Hnd.
  - intros j Hj. apply Nat.ltb_lt. apply Hrange. exact Hj.
  - intros i i' Hle Hlt.
    pose proof (noninc_le _ Hninc i i' Hle) as Hv. rewrite map_length in Hv. specialize (Hv Hlt).
    rewrite !nthZ_map_nthN in Hv by lia. exact Hv.
  - intros j Hj Hnotin i Hi.
    assert (Hjs : In j (seq 0 (length (AffectedCheck.af_sav c)))) by (apply in_seq; lia).
    specialize (Hexcl j Hjs). apply orb_true_iff in Hexcl as [Hmem | Hall].
    + apply memb_true_iff in Hmem. contradiction.
    + rewrite forallb_forall in Hall. apply Z.leb_le. apply Hall.
      apply in_map. exact Hi.
  - exact Hlen.
Qed.

Corollary af_spec_ok_spec : forall c, AffectedCheck.af_spec_ok c = true -> af_spec c.
Proof. intros c H. exact (af_spec_ok_sound c H). Qed.

(** in addition: with pairwise distinct savings the reported columns ARE the model's *)
Theorem af_case_ok_sound : forall c : AffectedCheck.af_case,
  AffectedCheck.af_case_ok c = true ->
  af_spec c
  /\ (NoDup (AffectedCheck.af_sav c) ->
      AffectedCheck.af_cols c
      = affected (AffectedCheck.af_sav c) (AffectedCheck.af_alpha c) (AffectedCheck.af_betas c)).
Proof.
  intros c H. unfold AffectedCheck.af_case_ok in H.
  apply andb_true_iff in H as [Hspec Heq].
  split; [exact (af_spec_ok_sound c Hspec)|].
  intros Hnd. apply nodupZb_iff in Hnd. rewrite Hnd in Heq.
  apply eqb_listN_true in Heq. symmetry. exact Heq.
Qed.

Theorem af_dense_ok_sound : forall n p anoms dense,
  AffectedCheck.af_dense_ok (n, p, anoms, dense) = true -> sub_s2d n p anoms = dense.
Proof. intros n p anoms dense H. cbn in H. apply eqb_mat_true. exact H. Qed.

(** * 2. Seeded binary segmentation: the property clauses (Check/SbsCheck.v) *)

Lemma contains_true : forall s e c : nat, contains (s, e) c = true <-> (s <= c < e)%nat.
Proof.
  intros s e c. unfold contains. cbn [fst snd].
  rewrite andb_true_iff, Nat.leb_le, Nat.ltb_lt. tauto.
Qed.

(** [gaps_ok] unfolded: every changepoint is at least [m] after [prev] and [m] before [n],
    consecutive changepoints are at least [m] apart *)
Lemma gaps_ok_true : forall (m n : nat) (l : list nat) (prev : nat),
  gaps_ok m prev l n = true ->
  (prev + m <= n)%nat
  /\ (forall c, In c l -> (prev + m <= c /\ c + m <= n)%nat)
  /\ (forall i, (S i < length l)%nat -> (nthN l i + m <= nthN l (S i))%nat).
Proof.
  intros m n. induction l as [|c t IH]; intros prev H; cbn [gaps_ok] in H.
  - apply Nat.leb_le in H. split; [exact H|]. split.
    + intros c Hc. destruct Hc.
    + intros i Hi. cbn in Hi. lia.
  - apply andb_true_iff in H as [Hpc Ht]. apply Nat.leb_le in Hpc.
    destruct (IH c Ht) as [Hcn [Hin Hcons]].
    split; [lia|]. split.
    + intros c' [Hc' | Hc'].
      * subst c'. lia.
      * specialize (Hin c' Hc'). lia.
    + intros i Hi. destruct i as [|i].
      * unfold nthN. cbn [nth]. cbn [length] in Hi.
        assert (Hin0 : In (nth 0 t 0%nat) t) by (apply nth_In; lia).
        specialize (Hin _ Hin0). lia.
      * unfold nthN in *. cbn [nth]. apply Hcons. cbn [length] in Hi. lia.
Qed.

Lemma sbs_intervals_ok_true : forall c : sbs_case,
  sbs_intervals_ok c = true ->
  sc_rows c <> []
  /\ forall s e k v, In (s, e, k, v) (sc_rows c) ->
       (s < e /\ e <= sc_n c /\ 2 * sc_m c <= e - s /\ e - s <= Nat.min (sc_maxlen c) (sc_n c))%nat.
Proof.
  intros c H. unfold sbs_intervals_ok in H.
  apply andb_true_iff in H as [Hne Hall]. split.
  - intros Hnil. rewrite Hnil in Hne. cbn in Hne. discriminate.
  - rewrite forallb_forall in Hall. intros s e k v Hin.
    specialize (Hall _ Hin). cbn in Hall.
    apply andb_true_iff in Hall as [Hall H4]. apply andb_true_iff in Hall as [Hall H3].
    apply andb_true_iff in Hall as [H1 H2].
    apply Nat.ltb_lt in H1. apply Nat.leb_le in H2. apply Nat.leb_le in H3. apply Nat.leb_le in H4.
    repeat split; assumption.
Qed.

(** per row: the reported (argmax, score) is [amoc]'s result, i.e. the score is the maximum of the
    aggregated change score over the admissible splits and the argmax is the FIRST split attaining it *)
Lemma sbs_rows_ok_true : forall c : sbs_case,
  sbs_rows_ok c = true ->
  forall s e k v, In (s, e, k, v) (sc_rows c) ->
    amoc (cs_agg (sc_score c)) (sc_m c) (s, e) = Some (k, v)
    /\ (s + sc_m c <= k /\ k + sc_m c <= e)%nat
    /\ v = cs_agg (sc_score c) s k e
    /\ (forall k', (s + sc_m c <= k' /\ k' + sc_m c <= e)%nat ->
          cs_agg (sc_score c) s k' e <= v
          /\ (cs_agg (sc_score c) s k' e = v -> (k <= k')%nat)).
Proof.
  intros c H s e k v Hin. unfold sbs_rows_ok in H. rewrite forallb_forall in H.
  specialize (H _ Hin). unfold row_iv, row_arg, row_score in H. cbn [fst snd] in H.
  destruct (amoc (cs_agg (sc_score c)) (sc_m c) (s, e)) as [[k0 v0]|] eqn:Ham; [|discriminate].
  apply andb_true_iff in H as [Hk Hv]. apply Nat.eqb_eq in Hk. apply Z.eqb_eq in Hv. subst k0 v0.
  split; [reflexivity|]. exact (amoc_spec _ _ _ _ _ _ Ham).
Qed.

Lemma sbs_supported_ok_true : forall c : sbs_case,
  sbs_supported_ok c = true ->
  forall cp, In cp (sc_cpts c) ->
    exists s e v, In (s, e, cp, v) (sc_rows c) /\ sc_thr c < v /\ (s <= cp < e)%nat.
Proof.
  intros c H cp Hcp. unfold sbs_supported_ok in H. rewrite forallb_forall in H.
  specialize (H cp Hcp). apply existsb_exists in H as [[[[s e] k] v] [Hin Hr]].
  unfold row_iv, row_arg, row_score in Hr. cbn [fst snd] in Hr.
  apply andb_true_iff in Hr as [Hr Hcont]. apply andb_true_iff in Hr as [Hk Hv].
  apply Nat.eqb_eq in Hk. apply Z.ltb_lt in Hv. apply contains_true in Hcont. subst k.
  exists s, e, v. repeat split; try assumption; lia.
Qed.

Lemma sbs_complete_ok_true : forall c : sbs_case,
  sbs_complete_ok c = true ->
  forall s e k v, In (s, e, k, v) (sc_rows c) -> sc_thr c < v ->
    exists cp, In cp (sc_cpts c) /\ (s <= cp < e)%nat.
Proof.
  intros c H s e k v Hin Hthr. unfold sbs_complete_ok in H. rewrite forallb_forall in H.
  specialize (H _ Hin). unfold row_iv, row_score in H. cbn [fst snd] in H.
  apply orb_true_iff in H as [Hneg | Hex].
  - apply negb_true_iff in Hneg. apply Z.ltb_ge in Hneg. lia.
  - apply existsb_exists in Hex as [cp [Hcp Hcont]]. apply contains_true in Hcont.
    exists cp. split; assumption.
Qed.

Lemma sbs_wf_ok_true : forall c : sbs_case,
  sbs_wf_ok c = true ->
  (sc_m c <= sc_n c)%nat
  /\ (forall cp, In cp (sc_cpts c) -> (sc_m c <= cp /\ cp + sc_m c <= sc_n c)%nat)
  /\ (forall i, (S i < length (sc_cpts c))%nat ->
        (nthN (sc_cpts c) i + sc_m c <= nthN (sc_cpts c) (S i))%nat).
Proof.
  intros c H. unfold sbs_wf_ok in H.
  destruct (gaps_ok_true _ _ _ _ H) as [H1 [H2 H3]].
  split; [lia|]. split; [|exact H3].
  intros cp Hcp. specialize (H2 cp Hcp). lia.
Qed.

Theorem sbs_spec_ok_sound : forall c : sbs_case,
  sbs_spec_ok c = true ->
  (* (a) candidate intervals *)
  (sc_rows c <> []
   /\ forall s e k v, In (s, e, k, v) (sc_rows c) ->
        (s < e /\ e <= sc_n c /\ 2 * sc_m c <= e - s /\ e - s <= Nat.min (sc_maxlen c) (sc_n c))%nat)
  (* (b) per-interval maximum and first argmax over the admissible splits *)
  /\ (forall s e k v, In (s, e, k, v) (sc_rows c) ->
        amoc (cs_agg (sc_score c)) (sc_m c) (s, e) = Some (k, v)
        /\ (s + sc_m c <= k /\ k + sc_m c <= e)%nat
        /\ v = cs_agg (sc_score c) s k e
        /\ (forall k', (s + sc_m c <= k' /\ k' + sc_m c <= e)%nat ->
              cs_agg (sc_score c) s k' e <= v
              /\ (cs_agg (sc_score c) s k' e = v -> (k <= k')%nat)))
  (* (c) every changepoint is the argmax of a row above the threshold whose interval contains it *)
  /\ (forall cp, In cp (sc_cpts c) ->
        exists s e v, In (s, e, cp, v) (sc_rows c) /\ sc_thr c < v /\ (s <= cp < e)%nat)
  (* (d) every row above the threshold contains a changepoint *)
  /\ (forall s e k v, In (s, e, k, v) (sc_rows c) -> sc_thr c < v ->
        exists cp, In cp (sc_cpts c) /\ (s <= cp < e)%nat)
  (* (e) segment lengths *)
  /\ ((sc_m c <= sc_n c)%nat
      /\ (forall cp, In cp (sc_cpts c) -> (sc_m c <= cp /\ cp + sc_m c <= sc_n c)%nat)
      /\ (forall i, (S i < length (sc_cpts c))%nat ->
            (nthN (sc_cpts c) i + sc_m c <= nthN (sc_cpts c) (S i))%nat)).
Proof.
  intros c H. unfold sbs_spec_ok in H.
  apply andb_true_iff in H as [H Hwf]. apply andb_true_iff in H as [H Hcomp].
  apply andb_true_iff in H as [H Hsup]. apply andb_true_iff in H as [Hiv Hrows].
  split; [exact (sbs_intervals_ok_true c Hiv)|].
  split; [exact (sbs_rows_ok_true c Hrows)|].
  split; [exact (sbs_supported_ok_true c Hsup)|].
  split; [exact (sbs_complete_ok_true c Hcomp)|].
  exact (sbs_wf_ok_true c Hwf).
Qed.

(** * 3. Seeded binary segmentation: model = implementation *)

Theorem sbs_model_eq_sound : forall c : sbs_case,
  sbs_model_eq c = true ->
  let ivs := seeded_intervals (sc_n c) (2 * sc_m c) (sc_lens c) in
  map row_iv (sc_rows c) = ivs
  /\ exists am,
       sbs (cs_agg (sc_score c)) (sc_m c) (sc_thr c) ivs = Some (sc_cpts c, am)
       /\ map fst am = map row_arg (sc_rows c)
       /\ map snd am = map row_score (sc_rows c).
Proof.
  intros c H ivs. unfold sbs_model_eq in H. fold ivs in H.
  apply andb_true_iff in H as [H Hsbs]. apply andb_true_iff in H as [Hlen Hiv].
  apply Nat.eqb_eq in Hlen.
  split.
  - symmetry. apply (forallb_combine_map SbsCheck.pair_eqb row_iv sbs_pair_eqb_true ivs (sc_rows c) Hlen Hiv).
  - destruct (sbs (cs_agg (sc_score c)) (sc_m c) (sc_thr c) ivs) as [[cpts am]|]; [|discriminate].
    apply andb_true_iff in Hsbs as [Hsbs Hsc]. apply andb_true_iff in Hsbs as [Hcp Harg].
    apply eqb_listN_true in Hcp. apply eqb_listN_true in Harg. apply eqb_listZ_true in Hsc.
    subst cpts. exists am. repeat split; assumption.
Qed.

Theorem sbs_case_ok_sound : forall c : sbs_case,
  sbs_case_ok c = true -> sbs_model_eq c = true /\ sbs_spec_ok c = true.
Proof. intros c H. unfold sbs_case_ok in H. apply andb_true_iff in H. exact H. Qed.

(** * 7. Converters, anomaliser, adapters, object histories *)

Theorem cd_case_ok_sound : forall (n : nat) (cpts dense back : list nat),
  ConvertCheck.cd_case_ok (n, cpts, dense, back) = true ->
  cd_s2d n cpts = dense /\ cd_d2s dense = back /\ back = cpts.
Proof.
  intros n cpts dense back H. unfold ConvertCheck.cd_case_ok in H.
  apply andb_true_iff in H as [H H3]. apply andb_true_iff in H as [H1 H2].
  apply eqb_listN_true in H1. apply eqb_listN_true in H2. apply eqb_listN_true in H3.
  repeat split; assumption.
Qed.

(** hence the round trip through the implementation's dense labels is the identity *)
Corollary cd_case_ok_roundtrip : forall (n : nat) (cpts dense back : list nat),
  ConvertCheck.cd_case_ok (n, cpts, dense, back) = true -> cd_d2s (cd_s2d n cpts) = cpts.
Proof.
  intros n cpts dense back H. destruct (cd_case_ok_sound _ _ _ _ H) as [H1 [H2 H3]]. congruence.
Qed.

Theorem ca_case_ok_sound : forall (n : nat) (ivs : list (nat * nat)) (dense : list nat) (back : list (nat * nat)),
  ConvertCheck.ca_case_ok (n, ivs, dense, back) = true ->
  ca_s2d n ivs = dense /\ ca_d2s dense = back /\ back = ivs.
Proof.
  intros n ivs dense back H. unfold ConvertCheck.ca_case_ok in H.
  apply andb_true_iff in H as [H H3]. apply andb_true_iff in H as [H1 H2].
  apply eqb_listN_true in H1. apply eqb_pairs_true in H2. apply eqb_pairs_true in H3.
  repeat split; assumption.
Qed.

Corollary ca_case_ok_roundtrip : forall n ivs dense back,
  ConvertCheck.ca_case_ok (n, ivs, dense, back) = true -> ca_d2s (ca_s2d n ivs) = ivs.
Proof.
  intros n ivs dense back H. destruct (ca_case_ok_sound _ _ _ _ H) as [H1 [H2 H3]]. congruence.
Qed.

Theorem sub_case_ok_sound : forall (n p : nat) (anoms : list anom3) (dense : list (list nat)) (back : list anom3),
  ConvertCheck.sub_case_ok (n, p, anoms, dense, back) = true ->
  sub_s2d n p anoms = dense
  /\ sub_d2s p dense = map (ConvertCheck.norm_cols p) back
  /\ map (ConvertCheck.norm_cols p) back = map (ConvertCheck.norm_cols p) anoms.
Proof.
  intros n p anoms dense back H. unfold ConvertCheck.sub_case_ok in H.
  apply andb_true_iff in H as [H H3]. apply andb_true_iff in H as [H1 H2].
  apply eqb_mat_true in H1. apply eqb_anoms_true in H2. apply eqb_anoms_true in H3.
  repeat split; assumption.
Qed.

(** [norm_cols] keeps the interval and lists the member columns increasingly: same interval,
    same SET of columns below [p] *)
Lemma norm_cols_spec : forall (p : nat) (a : anom3),
  fst (ConvertCheck.norm_cols p a) = fst a
  /\ forall j, In j (snd (ConvertCheck.norm_cols p a)) <-> ((j < p)%nat /\ In j (snd a)).
Proof.
  intros p a. unfold ConvertCheck.norm_cols. cbn [fst snd]. split; [reflexivity|].
  intros j. rewrite filter_In, in_seq, memb_true_iff. split; intros [H1 H2]; split; try assumption; lia.
Qed.

Theorem an_case_ok_sound : forall c : an_case,
  an_case_ok c = true ->
  let st := stat_eval (ac_stat c) (ac_xs c) in
  ac_impl c = anomalise st (ac_lo c) (ac_hi c) (ac_n c) (ac_cpts c)
  /\ anomalise st (ac_lo c) (ac_hi c) (ac_n c) (ac_cpts c)
     = anomalise_spec st (ac_lo c) (ac_hi c) (ac_n c) (ac_cpts c).
Proof.
  intros c H st. unfold an_case_ok in H. fold st in H.
  apply andb_true_iff in H as [H1 H2].
  apply eqb_pairs_true in H1. apply eqb_pairs_true in H2.
  split; congruence.
Qed.

Theorem ad_ok_sound : forall c : KernelCheck.ad_case,
  KernelCheck.ad_ok c = true ->
  match c with
  | KernelCheck.AdChange c_se c_sk c_ke impl => impl = c_se - (c_sk + c_ke)
  | KernelCheck.AdSaving c_fixed c_optim impl => impl = c_fixed - c_optim
  | KernelCheck.AdLocal c_se c_ab c_pool impl => impl = c_se - (c_ab + c_pool)
  end.
Proof.
  intros [se sk ke impl | f o impl | se ab pool impl] H; cbn in H; apply Z.eqb_eq in H; exact H.
Qed.

Theorem hist_ok_sound : forall (ops : list Objects.op) (outs : list Objects.out)
                               (sd ss : list (nat * bool)),
  hist_ok (ops, outs, (sd, ss)) = true ->
  snd (Objects.run Objects.empty ops) = outs
  /\ summary (fst (Objects.run Objects.empty ops)) = (sd, ss).
Proof.
  intros ops outs sd ss H. unfold hist_ok in H.
  destruct (Objects.run Objects.empty ops) as [h o]. cbn [fst snd] in *.
  apply andb_true_iff in H as [H Hs]. apply andb_true_iff in H as [Ho Hd].
  apply outs_eqb_true in Ho. apply nb_eqb_true in Hd. apply nb_eqb_true in Hs.
  split; [exact Ho|].
  rewrite (surjective_pairing (summary h)). rewrite Hd, Hs. reflexivity.
Qed.

(** * 4. Circular binary segmentation (Check/CbsCheck.v) *)

Lemma overlaps_true : forall a z s e : nat, overlaps (a, z) (s, e) = true <-> (s < z /\ a < e)%nat.
Proof.
  intros a z s e. unfold overlaps. cbn [fst snd].
  rewrite andb_true_iff, !Nat.ltb_lt. tauto.
Qed.

(** per row: the score is the maximum of the aggregated local score over the inner candidates
    and the reported inner interval is a candidate attaining it (score 0 when there is none) *)
Lemma cbs_rows_ok_true : forall c : cbs_case,
  cbs_rows_ok c = true ->
  forall s e a z v, In ((s, e), (a, z), v) (bc_rows c) ->
    (anomaly_intervals s e (bc_m c) = [] /\ v = 0)
    \/ (In (a, z) (anomaly_intervals s e (bc_m c))
        /\ (s < a /\ a + bc_m c <= z /\ z < e /\ bc_m c <= (e - z) + (a - s))%nat
        /\ v = ls_agg (bc_score c) s a z e
        /\ forall a' z', In (a', z') (anomaly_intervals s e (bc_m c)) ->
             ls_agg (bc_score c) s a' z' e <= v).
Proof.
  intros c H s e a z v Hin. unfold cbs_rows_ok in H. rewrite forallb_forall in H.
  specialize (H _ Hin). unfold brow_iv, brow_inner, brow_score in H. cbn [fst snd] in H.
  destruct (best_inner (ls_agg (bc_score c)) (bc_m c) (s, e)) as [[[a0 z0] v0]|] eqn:Hbi.
  - right.
    apply andb_true_iff in H as [H Hatt]. apply andb_true_iff in H as [Hv Hcand].
    apply Z.eqb_eq in Hv. apply Z.eqb_eq in Hatt. subst v0.
    apply existsb_exists in Hcand as [ab [Hab Heq]]. apply cbs_pair_eqb_true in Heq. subst ab.
    destruct (best_inner_spec _ _ _ _ _ _ _ Hbi) as [_ [_ Hmax]].
    split; [exact Hab|]. split; [apply anomaly_intervals_spec; exact Hab|].
    split; [symmetry; exact Hatt | exact Hmax].
  - left. apply best_inner_none in Hbi. apply Z.eqb_eq in H. split; assumption.
Qed.

(** [anoms_wf] unfolded: sorted, disjoint, each of length >= m, strictly inside the data *)
Lemma anoms_wf_true : forall (m n : nat) (l : list (nat * nat)) (lo : nat),
  anoms_wf m lo l n = true ->
  (forall a z, In (a, z) l -> (lo <= a /\ 1 <= a /\ a + m <= z /\ z + 1 <= n)%nat)
  /\ (forall i, (S i < length l)%nat -> (snd (nthP l i) <= fst (nthP l (S i)))%nat).
Proof.
  intros m n. induction l as [|[a z] t IH]; intros lo H.
  - split.
    + intros a z Hin. destruct Hin.
    + intros i Hi. cbn in Hi. lia.
  - cbn [anoms_wf] in H.
    apply andb_true_iff in H as [H Ht]. apply andb_true_iff in H as [H H4].
    apply andb_true_iff in H as [H H3]. apply andb_true_iff in H as [H1 H2].
    apply Nat.leb_le in H1. apply Nat.leb_le in H2. apply Nat.leb_le in H3. apply Nat.leb_le in H4.
    destruct (IH z Ht) as [Hin Hcons]. split.
    + intros a' z' [Heq | Hin'].
      * inversion Heq; subst. lia.
      * specialize (Hin a' z' Hin'). lia.
    + intros i Hi. destruct i as [|i].
      * unfold nthP. cbn [nth fst snd]. cbn [length] in Hi.
        assert (Hin0 : In (nth 0 t (0, 0)%nat) t) by (apply nth_In; lia).
        destruct (nth 0 t (0, 0)%nat) as [a1 z1] eqn:E.
        specialize (Hin a1 z1 Hin0). cbn [fst]. lia.
      * unfold nthP in *. cbn [nth]. apply Hcons. cbn [length] in Hi. lia.
Qed.

Lemma cbs_supported_ok_true : forall c : cbs_case,
  cbs_supported_ok c = true ->
  forall a z, In (a, z) (bc_anoms c) ->
    exists s e v, In ((s, e), (a, z), v) (bc_rows c) /\ bc_thr c < v.
Proof.
  intros c H a z Hin. unfold cbs_supported_ok in H. rewrite forallb_forall in H.
  specialize (H _ Hin). apply existsb_exists in H as [[[[s e] ab] v] [Hr Hb]].
  unfold brow_inner, brow_score in Hb. cbn [fst snd] in Hb.
  apply andb_true_iff in Hb as [Heq Hv]. apply cbs_pair_eqb_true in Heq. apply Z.ltb_lt in Hv.
  subst ab. exists s, e, v. split; assumption.
Qed.

Lemma cbs_complete_ok_true : forall c : cbs_case,
  cbs_complete_ok c = true ->
  forall s e ab v, In ((s, e), ab, v) (bc_rows c) -> bc_thr c < v ->
    exists a z, In (a, z) (bc_anoms c) /\ (s < z /\ a < e)%nat.
Proof.
  intros c H s e ab v Hin Hthr. unfold cbs_complete_ok in H. rewrite forallb_forall in H.
  specialize (H _ Hin). unfold brow_iv, brow_score in H. cbn [fst snd] in H.
  apply orb_true_iff in H as [Hneg | Hex].
  - apply negb_true_iff in Hneg. apply Z.ltb_ge in Hneg. lia.
  - apply existsb_exists in Hex as [[a z] [Haz Hov]]. apply overlaps_true in Hov.
    exists a, z. split; assumption.
Qed.

Theorem cbs_spec_ok_sound : forall c : cbs_case,
  cbs_spec_ok c = true ->
  (* (a) per-interval maximum over the inner candidates, attained by the reported inner interval *)
  (forall s e a z v, In ((s, e), (a, z), v) (bc_rows c) ->
     (anomaly_intervals s e (bc_m c) = [] /\ v = 0)
     \/ (In (a, z) (anomaly_intervals s e (bc_m c))
         /\ (s < a /\ a + bc_m c <= z /\ z < e /\ bc_m c <= (e - z) + (a - s))%nat
         /\ v = ls_agg (bc_score c) s a z e
         /\ forall a' z', In (a', z') (anomaly_intervals s e (bc_m c)) ->
              ls_agg (bc_score c) s a' z' e <= v))
  (* (b) anomalies: start >= 1, length >= m, end <= n - 1; listed in order, pairwise disjoint *)
  /\ ((forall a z, In (a, z) (bc_anoms c) -> (1 <= a /\ a + bc_m c <= z /\ z + 1 <= bc_n c)%nat)
      /\ (forall i, (S i < length (bc_anoms c))%nat ->
            (snd (nthP (bc_anoms c) i) <= fst (nthP (bc_anoms c) (S i)))%nat))
  (* (c) every anomaly is the inner interval of a row above the threshold *)
  /\ (forall a z, In (a, z) (bc_anoms c) ->
        exists s e v, In ((s, e), (a, z), v) (bc_rows c) /\ bc_thr c < v)
  (* (d) every row above the threshold overlaps a reported anomaly *)
  /\ (forall s e ab v, In ((s, e), ab, v) (bc_rows c) -> bc_thr c < v ->
        exists a z, In (a, z) (bc_anoms c) /\ (s < z /\ a < e)%nat).
Proof.
  intros c H. unfold cbs_spec_ok in H.
  apply andb_true_iff in H as [H Hcomp]. apply andb_true_iff in H as [H Hsup].
  apply andb_true_iff in H as [Hrows Hwf].
  split; [exact (cbs_rows_ok_true c Hrows)|].
  split.
  - destruct (anoms_wf_true _ _ _ _ Hwf) as [Hin Hcons]. split; [|exact Hcons].
    intros a z Haz. specialize (Hin a z Haz). lia.
  - split; [exact (cbs_supported_ok_true c Hsup) | exact (cbs_complete_ok_true c Hcomp)].
Qed.

Theorem cbs_model_eq_sound : forall c : cbs_case,
  cbs_model_eq c = true ->
  let ivs := seeded_intervals (bc_n c) (2 * bc_m c) (bc_lens c) in
  map brow_iv (bc_rows c) = ivs
  /\ exists am,
       cbs (ls_agg (bc_score c)) (bc_m c) (bc_thr c) ivs = Some (bc_anoms c, am)
       /\ map fst am = map brow_inner (bc_rows c)
       /\ map snd am = map brow_score (bc_rows c).
Proof.
  intros c H ivs. unfold cbs_model_eq in H. fold ivs in H.
  apply andb_true_iff in H as [Hiv Hcbs]. apply cbs_eqb_pairs_true in Hiv.
  split; [symmetry; exact Hiv|].
  destruct (cbs (ls_agg (bc_score c)) (bc_m c) (bc_thr c) ivs) as [[anoms am]|]; [|discriminate].
  apply andb_true_iff in Hcbs as [Hcbs Hsc]. apply andb_true_iff in Hcbs as [Han Hinner].
  apply cbs_eqb_pairs_true in Han. apply cbs_eqb_pairs_true in Hinner. apply eqb_listZ_true in Hsc.
  subst anoms. exists am. repeat split; assumption.
Qed.

Theorem cbs_case_ok_sound : forall c : cbs_case,
  cbs_case_ok c = true -> cbs_model_eq c = true /\ cbs_spec_ok c = true.
Proof. intros c H. unfold cbs_case_ok in H. apply andb_true_iff in H. exact H. Qed.

(** * 5. Moving window (Check/MwCheck.v) *)

(** the implementation's scores are the two-sided change score on [b, n-b] and 0 elsewhere,
    i.e. exactly the model's score vector *)
Theorem mw_scores_ok_sound : forall c : mw_case,
  mw_scores_ok c = true ->
  length (mc_scores c) = mc_n c
  /\ (forall t, (t < mc_n c)%nat -> (mc_b c <= t)%nat -> (t + mc_b c <= mc_n c)%nat ->
        nthZ (mc_scores c) t = cs_agg (mc_score c) (t - mc_b c) t (t + mc_b c))
  /\ (forall t, (t < mc_b c \/ mc_n c < t + mc_b c)%nat -> nthZ (mc_scores c) t = 0)
  /\ mc_scores c = mw_scores (cs_agg (mc_score c)) (mc_b c) (mc_n c).
Proof.
  intros c H. unfold mw_scores_ok in H.
  apply andb_true_iff in H as [Hlen Hall]. apply Nat.eqb_eq in Hlen.
  rewrite forallb_forall in Hall.
  assert (Hpt : forall t, (t < mc_n c)%nat ->
            nthZ (mc_scores c) t =
            (if (mc_b c <=? t)%nat && (t + mc_b c <=? mc_n c)%nat
             then cs_agg (mc_score c) (t - mc_b c) t (t + mc_b c) else 0)).
  { intros t Ht. apply Z.eqb_eq. apply Hall. apply in_seq. lia. }
  split; [exact Hlen|]. split; [|split].
  - intros t Ht Hb Hn. rewrite (Hpt t Ht).
    replace (mc_b c <=? t)%nat with true by (symmetry; apply Nat.leb_le; lia).
    replace (t + mc_b c <=? mc_n c)%nat with true by (symmetry; apply Nat.leb_le; lia).
    reflexivity.
  - intros t Hout. destruct (Nat.lt_ge_cases t (mc_n c)) as [Ht | Ht].
    + rewrite (Hpt t Ht). destruct Hout as [Hb | Hn].
      * replace (mc_b c <=? t)%nat with false by (symmetry; apply Nat.leb_gt; lia). reflexivity.
      * replace (t + mc_b c <=? mc_n c)%nat with false by (symmetry; apply Nat.leb_gt; lia).
        rewrite andb_false_r. reflexivity.
    + unfold nthZ. apply nth_overflow. lia.
  - apply (nth_ext _ _ 0 0).
    + rewrite mw_scores_length. exact Hlen.
    + intros t Ht. rewrite Hlen in Ht.
      change (nthZ (mc_scores c) t = nthZ (mw_scores (cs_agg (mc_score c)) (mc_b c) (mc_n c)) t).
      rewrite (Hpt t Ht). symmetry. apply mw_scores_nth. exact Ht.
Qed.

Lemma incr_ok_true : forall (l : list nat) (prev : option nat),
  incr_ok prev l = true ->
  (forall p, prev = Some p -> forall x, In x l -> (p < x)%nat) /\ StronglySorted lt l.
Proof.
  induction l as [|x t IH]; intros prev H.
  - split; [intros p _ y Hy; destruct Hy | constructor].
  - cbn [incr_ok] in H. apply andb_true_iff in H as [Hp Ht].
    destruct (IH (Some x) Ht) as [Hgt Hss]. split.
    + intros p Hprev y [Hy | Hy].
      * subst prev y. apply Nat.ltb_lt in Hp. exact Hp.
      * subst prev. apply Nat.ltb_lt in Hp. specialize (Hgt x eq_refl y Hy). lia.
    + constructor; [exact Hss|]. apply Forall_forall. intros y Hy. exact (Hgt x eq_refl y Hy).
Qed.

Lemma StronglySorted_lt_nth : forall l : list nat, StronglySorted lt l ->
  forall i j, (i < j < length l)%nat -> (nthN l i < nthN l j)%nat.
Proof.
  intros l Hss i j Hij. unfold nthN.
  apply (FOP_nth lt l 0%nat (StronglySorted_FOP lt l Hss) i j Hij).
Qed.

(** changepoints strictly increasing, inside [b, n-b], each scoring above the threshold *)
Theorem mw_wf_ok_sound : forall c : mw_case,
  mw_wf_ok c = true ->
  StronglySorted lt (mc_cpts c)
  /\ (forall i j, (i < j < length (mc_cpts c))%nat -> (nthN (mc_cpts c) i < nthN (mc_cpts c) j)%nat)
  /\ (forall cp, In cp (mc_cpts c) ->
        (mc_b c <= cp /\ cp + mc_b c <= mc_n c)%nat /\ mc_thr c < nthZ (mc_scores c) cp).
Proof.
  intros c H. unfold mw_wf_ok in H. apply andb_true_iff in H as [Hincr Hall].
  destruct (incr_ok_true _ _ Hincr) as [_ Hss].
  split; [exact Hss|]. split; [exact (StronglySorted_lt_nth _ Hss)|].
  rewrite forallb_forall in Hall. intros cp Hcp. specialize (Hall cp Hcp).
  apply andb_true_iff in Hall as [Hall Hthr]. apply andb_true_iff in Hall as [Hb Hn].
  apply Nat.leb_le in Hb. apply Nat.leb_le in Hn. apply Z.ltb_lt in Hthr.
  repeat split; assumption.
Qed.

Theorem mw_model_eq_sound : forall c : mw_case,
  mw_model_eq c = true ->
  mw (cs_agg (mc_score c)) (mc_b c) (mc_n c) (mc_thr c) (mc_mdi c) = (mc_scores c, mc_cpts c).
Proof.
  intros c H. unfold mw_model_eq in H.
  destruct (mw (cs_agg (mc_score c)) (mc_b c) (mc_n c) (mc_thr c) (mc_mdi c)) as [sc cp].
  apply andb_true_iff in H as [Hsc Hcp].
  apply eqb_listZ_true in Hsc. apply eqb_listN_true in Hcp. subst. reflexivity.
Qed.

(** hence the implementation's changepoints are exactly the first maximisers of the
    sufficiently long maximal runs of its scores above the threshold *)
Corollary mw_model_eq_cpts : forall c : mw_case,
  mw_model_eq c = true ->
  mc_scores c = mw_scores (cs_agg (mc_score c)) (mc_b c) (mc_n c)
  /\ mc_cpts c = mw_cpts (mc_scores c) (mc_thr c) (mc_mdi c)
  /\ forall cp, In cp (mc_cpts c) <->
       exists a z, In (a, z) (where_runs (map (fun v => mc_thr c <? v) (mc_scores c)))
         /\ (mc_mdi c <= z - a)%nat /\ (a <= cp < z)%nat
         /\ (forall i, (a <= i < z)%nat -> nthZ (mc_scores c) i <= nthZ (mc_scores c) cp)
         /\ (forall i, (a <= i < cp)%nat -> nthZ (mc_scores c) i < nthZ (mc_scores c) cp).
Proof.
  intros c H. apply mw_model_eq_sound in H. unfold mw in H.
  pose proof (f_equal fst H) as Hsc. pose proof (f_equal snd H) as Hcp.
  cbn [fst snd] in Hsc, Hcp. clear H. rewrite Hsc in Hcp.
  split; [symmetry; exact Hsc|]. split; [symmetry; exact Hcp|].
  intros cp. rewrite <- Hcp. apply mw_cpts_spec.
Qed.

Theorem mw_case_ok_sound : forall c : mw_case,
  mw_case_ok c = true ->
  mw (cs_agg (mc_score c)) (mc_b c) (mc_n c) (mc_thr c) (mc_mdi c) = (mc_scores c, mc_cpts c)
  /\ length (mc_scores c) = mc_n c
  /\ (forall t, (t < mc_n c)%nat -> (mc_b c <= t)%nat -> (t + mc_b c <= mc_n c)%nat ->
        nthZ (mc_scores c) t = cs_agg (mc_score c) (t - mc_b c) t (t + mc_b c))
  /\ (forall t, (t < mc_b c \/ mc_n c < t + mc_b c)%nat -> nthZ (mc_scores c) t = 0)
  /\ StronglySorted lt (mc_cpts c)
  /\ (forall cp, In cp (mc_cpts c) ->
        (mc_b c <= cp /\ cp + mc_b c <= mc_n c)%nat /\ mc_thr c < nthZ (mc_scores c) cp).
Proof.
  intros c H. unfold mw_case_ok in H.
  apply andb_true_iff in H as [H Hwf]. apply andb_true_iff in H as [Heq Hsc].
  destruct (mw_scores_ok_sound c Hsc) as [H1 [H2 [H3 _]]].
  destruct (mw_wf_ok_sound c Hwf) as [H4 [_ H5]].
  split; [exact (mw_model_eq_sound c Heq)|].
  repeat split; try assumption; try (apply H5; assumption).
Qed.

Theorem mw_reversal_ok_sound : forall (n : nat) (sc screv : list Z),
  mw_reversal_ok (n, sc, screv) = true ->
  forall t, (1 <= t < n)%nat -> nthZ screv t = nthZ sc (n - t).
Proof.
  intros n sc screv H t Ht. unfold mw_reversal_ok in H. rewrite forallb_forall in H.
  apply Z.eqb_eq. apply H. apply in_seq. lia.
Qed.

(** * Extras: the remaining equality checkers *)

(** Q twin of a kernel: the implementation's bracket contains the twin's value, and the twin
    equals the direct definition on the slice (Check/KernelCheck.v) *)
Theorem kq_ok_sound : forall c : KernelCheck.kq_case,
  KernelCheck.kq_ok c = true ->
  QArith_base.Qle (KernelCheck.kq_lo c) (KernelCheck.kq_value c)
  /\ QArith_base.Qle (KernelCheck.kq_value c) (KernelCheck.kq_hi c)
  /\ QArith_base.Qeq (KernelCheck.kq_value c) (KernelCheck.kq_direct c).
Proof.
  intros c H. unfold KernelCheck.kq_ok in H.
  apply andb_true_iff in H as [H Heq]. apply andb_true_iff in H as [Hlo Hhi].
  apply QArith_base.Qle_bool_iff in Hlo. apply QArith_base.Qle_bool_iff in Hhi.
  apply QArith_base.Qeq_bool_iff in Heq.
  repeat split; assumption.
Qed.

Theorem pelt_model_eq_sound : forall c : PeltCheck.pelt_case,
  PeltCheck.pelt_model_eq c = true ->
  Pelt.pelt (tab2 (PeltCheck.pc_tab c)) (PeltCheck.pc_pen c) (PeltCheck.pc_m c)
            (PeltCheck.pc_m c - 1) (PeltCheck.pc_n c)
  = (PeltCheck.pc_scores c, PeltCheck.pc_cpts c).
Proof.
  intros c H. unfold PeltCheck.pelt_model_eq in H.
  destruct (Pelt.pelt (tab2 (PeltCheck.pc_tab c)) (PeltCheck.pc_pen c) (PeltCheck.pc_m c)
                      (PeltCheck.pc_m c - 1) (PeltCheck.pc_n c)) as [sc cp].
  apply andb_true_iff in H as [Hsc Hcp].
  apply eqb_listZ_true in Hsc. apply eqb_listN_true in Hcp. subst. reflexivity.
Qed.

Theorem capa_model_eq_sound : forall c : CapaCheck.capa_case,
  CapaCheck.capa_model_eq c = true ->
  exists cl pt,
    capa (CapaCheck.cc_Sc c) (CapaCheck.cc_Sp c) (CapaCheck.cc_ac c) (CapaCheck.cc_bc c)
         (CapaCheck.cc_ap c) (CapaCheck.cc_bp c) (CapaCheck.cc_m c) (CapaCheck.cc_M c)
         (CapaCheck.cc_m c - 1) (CapaCheck.cc_n c)
    = (CapaCheck.cc_scores c, cl, pt)
    /\ capa_predict false cl pt = CapaCheck.cc_anoms c
    /\ capa_predict true cl pt = CapaCheck.cc_anoms_ign c.
Proof.
  intros c H. unfold CapaCheck.capa_model_eq in H.
  destruct (capa (CapaCheck.cc_Sc c) (CapaCheck.cc_Sp c) (CapaCheck.cc_ac c) (CapaCheck.cc_bc c)
                 (CapaCheck.cc_ap c) (CapaCheck.cc_bp c) (CapaCheck.cc_m c) (CapaCheck.cc_M c)
                 (CapaCheck.cc_m c - 1) (CapaCheck.cc_n c)) as [[sc cl] pt].
  apply andb_true_iff in H as [H Hign]. apply andb_true_iff in H as [Hsc Han].
  apply eqb_listZ_true in Hsc. apply capa_eqb_pairs_true in Han. apply capa_eqb_pairs_true in Hign.
  subst sc. exists cl, pt. repeat split; assumption.
Qed.

(** * Assumptions *)
Print Assumptions eqb_listN_true.
Print Assumptions eqb_listZ_true.
Print Assumptions eqb_pairs_true.
Print Assumptions cbs_eqb_pairs_true.
Print Assumptions capa_eqb_pairs_true.
Print Assumptions eqb_mat_true.
Print Assumptions eqb_anoms_true.
Print Assumptions nodupb_true.
Print Assumptions nodupZb_true.
Print Assumptions noninc_true.
Print Assumptions noninc_sorted.
Print Assumptions incl_ok_true.
Print Assumptions incl_pairs_ok_true.
Print Assumptions dterm_eqb_true.
Print Assumptions out_eqb_true.
Print Assumptions outs_eqb_true.
Print Assumptions sbs_spec_ok_sound.
Print Assumptions sbs_model_eq_sound.
Print Assumptions sbs_case_ok_sound.
Print Assumptions cbs_spec_ok_sound.
Print Assumptions cbs_model_eq_sound.
Print Assumptions cbs_case_ok_sound.
Print Assumptions mw_scores_ok_sound.
Print Assumptions mw_wf_ok_sound.
Print Assumptions mw_model_eq_sound.
Print Assumptions mw_model_eq_cpts.
Print Assumptions mw_case_ok_sound.
Print Assumptions mw_reversal_ok_sound.
Print Assumptions af_spec_ok_sound.
Print Assumptions af_case_ok_sound.
Print Assumptions af_dense_ok_sound.
Print Assumptions cd_case_ok_sound.
Print Assumptions ca_case_ok_sound.
Print Assumptions sub_case_ok_sound.
Print Assumptions an_case_ok_sound.
Print Assumptions ad_ok_sound.
Print Assumptions hist_ok_sound.
Print Assumptions kq_ok_sound.
Print Assumptions pelt_model_eq_sound.
Print Assumptions capa_model_eq_sound.
