(** The generic PELT loop (Model/Generic.v) at the instance of the real numbers IS Model/PeltR.v: the
    end-to-end optimality theorems for the built-in costs (Proofs/PeltReal.v) are theorems about the same
    definition that is executed on binary64 tables (Model/GenericF.v) and on integer tables (Proofs/GenericZ.v). *)
From Coq Require Import Reals List Bool Arith Lia.
From SK Require Import Lib.Base Model.Pelt Model.PeltR Model.Generic Proofs.PeltSpec Gen.KernelsR Proofs.RealLib Proofs.CostKernels Proofs.PeltReal.
Import ListNotations.
Open Scope R_scope.

Definition Rn : num :=
  {| T := R; zero := 0; add := Rplus; neg := Ropp; ltb := Rltb; leb := Rleb |}.

Lemma gargmin_from_R l : forall bi b i, gargmin_from Rn bi b i l = argminR_from bi b i l.
Proof.
  induction l as [|x t IH]; intros bi b i; cbn [gargmin_from argminR_from]; [reflexivity|].
  cbn [T ltb Rn]. destruct (Rltb x b); apply IH.
Qed.

Lemma gargmin_R l : gargmin Rn l = argminR l.
Proof. destruct l as [|x t]; cbn [gargmin argminR]; [reflexivity|]. rewrite gargmin_from_R. reflexivity. Qed.

Definition st_relR (g : gst Rn) (s : stR) : Prop :=
  gopt Rn g = optR s /\ gprev Rn g = prevR s /\ gstarts Rn g = startsR s /\ gpending Rn g = pendingR s.

Lemma gstep_R C pen m d g s t : st_relR g s -> st_relR (gstep Rn C pen m d g t) (stepR C pen m d s t).
Proof.
  intros (Ho & Hp & Hs & Hq). unfold gstep, stepR. rewrite Ho, Hp, Hs, Hq.
  unfold nthV. cbn [T ltb leb add neg zero Rn].
  rewrite gargmin_R. unfold nthR.
  destruct (argminR _) as [[i b]|].
  - destruct (Nat.ltb d _); unfold st_relR; cbn; repeat split; reflexivity.
  - repeat split; assumption.
Qed.

Lemma grun_R C pen m d n : st_relR (grun Rn C pen m d n) (runR C pen m d n).
Proof.
  unfold grun, runR.
  generalize (seq (2 * m - 1) (n - (2 * m - 1))) as ts.
  assert (Hinit : st_relR (ginit Rn C pen m) (initR C pen m)) by (repeat split).
  revert Hinit. generalize (ginit Rn C pen m) as g, (initR C pen m) as s.
  intros g s Hrel ts. revert g s Hrel.
  induction ts as [|t ts IH]; intros g s Hrel; cbn [fold_left]; [exact Hrel|].
  apply IH. apply gstep_R. exact Hrel.
Qed.

Theorem gpelt_R C pen m d n : gpelt Rn C pen m d n = peltR C pen m d n.
Proof.
  unfold gpelt, peltR. destruct (grun_R C pen m d n) as (Ho & Hp & _ & _).
  rewrite Ho, Hp. reflexivity.
Qed.

(** the end-to-end theorem restated on the generic definition *)
Corollary generic_pelt_l2_optimal (xs : list R) pen m :
  (1 <= m)%nat -> (2 * m <= length xs)%nat -> 0 <= pen ->
  let n := length xs in
  let P1 := prefix xs in let P2 := prefix (sq xs) in
  let cpts := snd (gpelt Rn (l2_cost_optim_R P1 P2) pen m (m - 1) n) in
  Adm m cpts n /\
  forall c, Adm m c n ->
    pencostR (l2_cost_optim_R P1 P2) pen cpts n <= pencostR (l2_cost_optim_R P1 P2) pen c n.
Proof.
  intros Hm Hn Hp. cbv zeta. rewrite gpelt_R. apply (pelt_l2_end_to_end xs pen m Hm Hn Hp).
Qed.

Print Assumptions gpelt_R.
Print Assumptions generic_pelt_l2_optimal.
