(** PELT over REAL-valued costs.

    Model/PeltR.v is the twin of the executable model Model/Pelt.v with a cost
    [C : nat -> nat -> R].  This file ports Proofs/PeltSpec.v, Proofs/PeltLemmas.v and
    the optimality part of Proofs/PeltRefine.v to it (index arithmetic by [lia], value
    arithmetic by [lra]), and then

    - ties the real model to the executable one: running the real model on the
      injection [IZR] of an integer cost is the image of the integer run ([peltR_of_Z]);
    - instantiates the optimality theorem with the built-in squared-error cost
      [l2_cost_optim_R] (one column and several columns) and with the Gaussian
      mean-and-variance cost, using the split inequalities [l2_split] / [gvar_split]
      of Proofs/ScoreKernels.v, so that NO hypothesis on the cost is left.

    The optimality proof only ever uses the split inequality for intervals inside
    [0, n]; it is carried out under that weaker hypothesis ([peltR_optimal_bounded]),
    which is what the Gaussian cost needs (its variance floor is a condition on the
    data, hence only meaningful inside the data). *)
From Coq Require Import Reals Lra ZArith List Lia Bool Arith.
From SK Require Import Lib.Base Model.Pelt Model.PeltR Proofs.PeltSpec Proofs.PeltLemmas
                       Proofs.PeltRefine.
From SK Require Import Gen.KernelsR Proofs.RealLib Proofs.CostKernels Proofs.ScoreKernels.
Import ListNotations.
Open Scope R_scope.

(* ------------------------------------------------------------------ *)
(** * Boolean comparisons *)

Lemma Rltb_true x y : Rltb x y = true <-> x < y.
Proof. unfold Rltb. destruct (Rlt_dec x y) as [H|H]; split; intros H'; [exact H|reflexivity|discriminate|contradiction]. Qed.
Lemma Rltb_false x y : Rltb x y = false <-> y <= x.
Proof. unfold Rltb. destruct (Rlt_dec x y) as [H|H]; split; intros H'; [discriminate|lra|lra|reflexivity]. Qed.
Lemma Rleb_true x y : Rleb x y = true <-> x <= y.
Proof. unfold Rleb. destruct (Rle_dec x y) as [H|H]; split; intros H'; [exact H|reflexivity|discriminate|contradiction]. Qed.
Lemma Rleb_false x y : Rleb x y = false <-> y < x.
Proof. unfold Rleb. destruct (Rle_dec x y) as [H|H]; split; intros H'; [discriminate|lra|lra|reflexivity]. Qed.

(* ------------------------------------------------------------------ *)
(** * List minimum (twin of [min1]) *)

Definition min1R (x : R) (l : list R) : R := fold_left Rmin l x.

Lemma min1R_le_head x l : min1R x l <= x.
Proof.
  unfold min1R. revert x; induction l as [|a l IH]; intros x; cbn [fold_left]; [lra|].
  specialize (IH (Rmin x a)). pose proof (Rmin_l x a) as Hl. lra.
Qed.
Lemma min1R_le_in x l y : In y l -> min1R x l <= y.
Proof.
  revert x; induction l as [|a l IH]; intros x Hin; [destruct Hin|].
  destruct Hin as [E|Hin].
  - subst a. pose proof (min1R_le_head (Rmin x y) l) as Hh. pose proof (Rmin_r x y) as Hr.
    unfold min1R in *. cbn [fold_left]. lra.
  - unfold min1R. cbn [fold_left]. now apply IH.
Qed.
Lemma min1R_in x l : min1R x l = x \/ In (min1R x l) l.
Proof.
  unfold min1R. revert x; induction l as [|a l IH]; intros x; cbn [fold_left]; [now left|].
  destruct (IH (Rmin x a)) as [H|H]; [|now right; right].
  rewrite H. unfold Rmin. destruct (Rle_dec x a) as [Hle|Hgt]; [now left|now right; left].
Qed.

(* ------------------------------------------------------------------ *)
(** * The optimal-partitioning recursion over R (twin of Proofs/PeltSpec.v) *)

Lemma admsegN_snoc m p cpts c T :
  admseg m p (cpts ++ [c]) T <-> admseg m p cpts c /\ (c + m <= T)%nat.
Proof. revert p; induction cpts as [|a l IH]; intros p; cbn; [tauto|]. rewrite IH. tauto. Qed.

Lemma in_admN m T s : In s (adm m T) <-> (m <= s /\ s + m <= T)%nat.
Proof. unfold adm. rewrite in_seq. lia. Qed.

Section SpecR.
Variable C : nat -> nat -> R.
Variable pen : R.
Variable m : nat.

Definition candR (tab : list R) (T s : nat) : R := nth s tab 0 + C s T + pen.
Definition nextR (tab : list R) (T : nat) : R :=
  if (T <? m)%nat then - pen else min1R (candR tab T 0) (map (candR tab T) (adm m T)).
Fixpoint FRtab (t : nat) : list R :=
  match t with O => [- pen] | S t' => FRtab t' ++ [nextR (FRtab t') (S t')] end.
Definition FR (t : nat) : R := nth t (FRtab t) 0.

Lemma FRtab_length t : length (FRtab t) = S t.
Proof. induction t as [|t IHt]; cbn [FRtab]; [easy|]. rewrite app_length, IHt. cbn. lia. Qed.
Lemma FRtab_nth s t : (s <= t)%nat -> nth s (FRtab t) 0 = FR s.
Proof.
  induction t as [|t IH]; intros H.
  - now replace s with 0%nat by lia.
  - destruct (Nat.eq_dec s (S t)) as [->|Hn]; [reflexivity|].
    cbn [FRtab]. rewrite app_nth1 by (rewrite FRtab_length; lia). apply IH. lia.
Qed.

Definition candFR (T s : nat) : R := FR s + C s T + pen.
Lemma FR0 : FR 0 = - pen. Proof. reflexivity. Qed.
Lemma FR_unfold T : (1 <= m)%nat -> (m <= T)%nat ->
  FR T = min1R (candFR T 0) (map (candFR T) (adm m T)).
Proof.
  intros m_pos HT. destruct T as [|T]; [lia|]. unfold FR at 1. cbn [FRtab].
  rewrite app_nth2 by (rewrite FRtab_length; lia). rewrite FRtab_length, Nat.sub_diag. cbn [nth].
  unfold nextR. replace (S T <? m)%nat with false by (symmetry; apply Nat.ltb_ge; lia).
  unfold candR, candFR. rewrite (FRtab_nth 0) by lia.
  f_equal. apply map_ext_in. intros s Hs. apply in_admN in Hs. rewrite FRtab_nth by lia. reflexivity.
Qed.

Lemma FR_le_cand0 T : (1 <= m)%nat -> (m <= T)%nat -> FR T <= candFR T 0.
Proof. intros m_pos HT. rewrite FR_unfold by auto. apply min1R_le_head. Qed.
Lemma FR_le_cand T s : (1 <= m)%nat -> (m <= s)%nat -> (s + m <= T)%nat -> FR T <= candFR T s.
Proof.
  intros m_pos H1 H2. rewrite FR_unfold by lia. apply min1R_le_in. apply in_map. apply in_admN. lia.
Qed.
Lemma FR_attained T : (1 <= m)%nat -> (m <= T)%nat ->
  FR T = candFR T 0 \/ exists s, (m <= s /\ s + m <= T)%nat /\ FR T = candFR T s.
Proof.
  intros m_pos HT. rewrite FR_unfold by auto.
  destruct (min1R_in (candFR T 0) (map (candFR T) (adm m T))) as [H1|H1]; [now left|right].
  apply in_map_iff in H1 as (s & E & Hs). apply in_admN in Hs. exists s. split; [lia|]. now rewrite <- E.
Qed.

(** segmentations: [Adm] / [admseg] of Proofs/PeltSpec.v only talk about nat lists and are
    reused; the cost of a segmentation becomes real *)
Fixpoint segcostR (prev : nat) (cpts : list nat) (T : nat) : R :=
  match cpts with [] => C prev T | c :: tl => C prev c + segcostR c tl T end.
Definition pencostR (cpts : list nat) (T : nat) : R :=
  segcostR 0 cpts T + pen * INR (length cpts).

Lemma segcostR_snoc p cpts c T : segcostR p (cpts ++ [c]) T = segcostR p cpts c + C c T.
Proof. revert p; induction cpts as [|a l IH]; intros p; cbn [app segcostR]; [lra|]. rewrite IH. lra. Qed.

Lemma pencostR_nil T : pencostR [] T = C 0 T.
Proof. unfold pencostR. cbn [segcostR length INR]. lra. Qed.
Lemma pencostR_snoc cpts c T : pencostR (cpts ++ [c]) T = pencostR cpts c + C c T + pen.
Proof.
  unfold pencostR. rewrite segcostR_snoc, app_length, plus_INR. cbn [length INR]. lra.
Qed.

Theorem FR_lower T cpts : (1 <= m)%nat -> Adm m cpts T -> FR T <= pencostR cpts T.
Proof.
  intros m_pos. revert cpts. induction T as [T IH] using lt_wf_ind. intros cpts H.
  assert (HT : (m <= T)%nat) by (apply (admseg_ge m m_pos) in H; lia).
  destruct cpts as [|c0 l0 IHl0] using rev_ind.
  - eapply Rle_trans; [apply FR_le_cand0; auto|]. unfold candFR. rewrite FR0, pencostR_nil. lra.
  - clear IHl0. unfold Adm in H. apply admsegN_snoc in H as [H1 H2].
    assert (Hc : (m <= c0)%nat) by (apply (admseg_ge m m_pos) in H1; lia).
    eapply Rle_trans; [apply (FR_le_cand T c0); lia|]. unfold candFR.
    specialize (IH c0 ltac:(lia) l0 H1). rewrite pencostR_snoc. lra.
Qed.

Theorem FR_upper T : (1 <= m)%nat -> (m <= T)%nat ->
  exists cpts, Adm m cpts T /\ pencostR cpts T = FR T.
Proof.
  intros m_pos. induction T as [T IH] using lt_wf_ind. intros HT.
  destruct (FR_attained T m_pos HT) as [E|(s & Hs & E)].
  - exists []. split; [cbn; lia|]. rewrite E. unfold candFR. rewrite FR0, pencostR_nil. lra.
  - destruct (IH s ltac:(lia) ltac:(lia)) as (l & A & P). exists (l ++ [s]). split.
    + apply admsegN_snoc. split; [exact A|lia].
    + rewrite pencostR_snoc, E, P. unfold candFR. lra.
Qed.
End SpecR.

(* ------------------------------------------------------------------ *)
(** * argminR (twin of Proofs/PeltLemmas.v) *)

Lemma argminR_from_spec l : forall bi b i,
  snd (argminR_from bi b i l) <= b /\
  (forall y, In y l -> snd (argminR_from bi b i l) <= y) /\
  ((fst (argminR_from bi b i l) = bi /\ snd (argminR_from bi b i l) = b) \/
   ((i <= fst (argminR_from bi b i l) < i + length l)%nat /\
    nth (fst (argminR_from bi b i l) - i) l 0 = snd (argminR_from bi b i l) /\
    snd (argminR_from bi b i l) < b /\
    forall j, (j < fst (argminR_from bi b i l) - i)%nat ->
              snd (argminR_from bi b i l) < nth j l 0)).
Proof.
  induction l as [|x t IH]; intros bi b i.
  - cbn. split; [lra|]. split; [intros y []|]. left; split; reflexivity.
  - cbn [argminR_from]. destruct (Rltb x b) eqn:E.
    + apply Rltb_true in E. specialize (IH i x (S i)).
      remember (argminR_from i x (S i) t) as r eqn:Er. clear Er.
      destruct IH as (H1 & H2 & H3).
      split; [lra|]. split.
      * intros y [<-|Hy]; [lra|auto].
      * right. destruct H3 as [[Hf Hs]|(Hr & Hn & Hlt & Hfirst)].
        -- rewrite Hf, Hs, Nat.sub_diag. cbn [length nth].
           split; [lia|]. split; [reflexivity|]. split; [lra|]. intros j Hj; lia.
        -- cbn [length]. replace (fst r - i)%nat with (S (fst r - S i)) by lia. cbn [nth].
           split; [lia|]. split; [exact Hn|]. split; [lra|].
           intros [|j] Hj; [lra|]. apply Hfirst. lia.
    + apply Rltb_false in E. specialize (IH bi b (S i)).
      remember (argminR_from bi b (S i) t) as r eqn:Er. clear Er.
      destruct IH as (H1 & H2 & H3).
      split; [lra|]. split.
      * intros y [<-|Hy]; [lra|auto].
      * destruct H3 as [[Hf Hs]|(Hr & Hn & Hlt & Hfirst)]; [left; auto|right].
        cbn [length]. replace (fst r - i)%nat with (S (fst r - S i)) by lia. cbn [nth].
        split; [lia|]. split; [exact Hn|]. split; [lra|].
        intros [|j] Hj; [lra|]. apply Hfirst. lia.
Qed.

Lemma argminR_spec l : l <> [] ->
  exists i b, argminR l = Some (i, b) /\ (i < length l)%nat /\ nth i l 0 = b /\
              (forall y, In y l -> b <= y) /\
              (forall j, (j < i)%nat -> b < nth j l 0).
Proof.
  destruct l as [|x t]; [congruence|]. intros _.
  unfold argminR. destruct (argminR_from_spec t 0%nat x 1%nat) as (H1 & H2 & H3).
  remember (argminR_from 0 x 1 t) as r eqn:Er. clear Er. destruct r as [i b]. cbn [fst snd] in *.
  exists i, b. split; [reflexivity|].
  destruct H3 as [[Hf Hs]|(Hr & Hn & Hlt & Hfirst)].
  - subst i b. cbn [length nth]. split; [lia|]. split; [reflexivity|]. split.
    + intros y [<-|Hy]; [lra|auto].
    + intros j Hj; lia.
  - cbn [length]. replace i with (S (i - 1)) at 2 by lia. cbn [nth].
    split; [lia|]. split; [exact Hn|]. split.
    + intros y [<-|Hy]; [lra|auto].
    + intros [|j] Hj; cbn [nth]; [lra|]. apply Hfirst. lia.
Qed.

(* ------------------------------------------------------------------ *)
(** * Refinement proof (twin of Proofs/PeltRefine.v) *)

Lemma backtrackR_eq : backtrackR = backtrack.
Proof. reflexivity. Qed.
Lemma changepointsR_eq : changepointsR = changepoints.
Proof. reflexivity. Qed.

Section RefineR.
Variable C : nat -> nat -> R.
Variable pen : R.
Variable m delay : nat.
Hypothesis m_pos : (1 <= m)%nat.

Notation stepM := (stepR C pen m delay).
Notation initM := (initR C pen m).
Notation runM := (runR C pen m delay).
Notation Fn := (FR C pen m).
Notation candFn := (candFR C pen m).
Notation full := (PeltRefine.full m).

Lemma fullR_mono T a : full T a -> full (S T) a.
Proof. unfold PeltRefine.full. lia. Qed.
Lemma fullR_le T a : full T a -> (1 <= T)%nat -> (a < T)%nat.
Proof. unfold PeltRefine.full. lia. Qed.

(** ** Unfolding one step *)

Definition starts1R (s : stR) (t : nat) : list nat := startsR s ++ [t - (m - 1)]%nat.
Definition candvR (s : stR) (t a : nat) : R := nthR (optR s) a + C a (S t) + pen.
Definition candsR (s : stR) (t : nat) : list R := map (candvR s t) (starts1R s t).
Definition droplR (s : stR) (t : nat) (b : R) : list nat :=
  map fst (filter (fun ac => negb (Rleb (snd ac) (b + pen))) (combine (starts1R s t) (candsR s t))).

Lemma starts1R_nonempty s t : starts1R s t <> [].
Proof. unfold starts1R. destruct (startsR s); discriminate. Qed.

Lemma stepR_cases s t :
  exists i b now pend',
    argminR (candsR s t) = Some (i, b) /\
    (i < length (starts1R s t))%nat /\
    b = candvR s t (nthN (starts1R s t) i) /\
    (forall a, In a (starts1R s t) -> b <= candvR s t a) /\
    stepM s t = {| optR := optR s ++ [b];
                   prevR := prevR s ++ [nthN (starts1R s t) i];
                   startsR := removeall now (starts1R s t);
                   pendingR := pend' |} /\
    ( ((delay < length (pendingR s ++ [droplR s t b]))%nat /\
        now = hd [] (pendingR s ++ [droplR s t b]) /\ pend' = tl (pendingR s ++ [droplR s t b]))
      \/
      ((length (pendingR s ++ [droplR s t b]) <= delay)%nat /\
        now = [] /\ pend' = pendingR s ++ [droplR s t b]) ).
Proof.
  assert (Hne : candsR s t <> []).
  { unfold candsR. intros E. apply map_eq_nil in E. now apply starts1R_nonempty in E. }
  destruct (argminR_spec (candsR s t) Hne) as (i & b & Harg & Hi & Hnth & Hmin & _).
  assert (Hlen : length (candsR s t) = length (starts1R s t)) by (unfold candsR; apply map_length).
  assert (Hb : b = candvR s t (nthN (starts1R s t) i)).
  { rewrite <- Hnth. unfold candsR, nthN.
    rewrite (nth_indep _ 0 (candvR s t 0%nat)) by (rewrite map_length; lia).
    apply map_nth. }
  assert (Hmin' : forall a, In a (starts1R s t) -> b <= candvR s t a).
  { intros a Ha. apply Hmin. unfold candsR. now apply in_map. }
  assert (Hstep : stepM s t =
     let pend := pendingR s ++ [droplR s t b] in
     if (delay <? length pend)%nat
     then {| optR := optR s ++ [b]; prevR := prevR s ++ [nthN (starts1R s t) i];
             startsR := removeall (hd [] pend) (starts1R s t); pendingR := tl pend |}
     else {| optR := optR s ++ [b]; prevR := prevR s ++ [nthN (starts1R s t) i];
             startsR := removeall [] (starts1R s t); pendingR := pend |}).
  { unfold stepR.
    change (map (fun a => nthR (optR s) a + C a (S t) + pen) (startsR s ++ [(t - (m - 1))%nat]))
      with (candsR s t).
    change (startsR s ++ [(t - (m - 1))%nat]) with (starts1R s t).
    cbv zeta. rewrite Harg. fold (droplR s t b).
    destruct (delay <? length (pendingR s ++ [droplR s t b]))%nat; reflexivity. }
  cbv zeta in Hstep.
  destruct (delay <? length (pendingR s ++ [droplR s t b]))%nat eqn:Hc.
  - apply Nat.ltb_lt in Hc.
    exists i, b, (hd [] (pendingR s ++ [droplR s t b])), (tl (pendingR s ++ [droplR s t b])).
    rewrite Hlen in Hi. repeat split; auto.
  - apply Nat.ltb_ge in Hc.
    exists i, b, [], (pendingR s ++ [droplR s t b]).
    rewrite Hlen in Hi. repeat split; auto.
Qed.

Lemma in_droplR s t b a :
  In a (droplR s t b) -> In a (starts1R s t) /\ candvR s t a > b + pen.
Proof.
  unfold droplR. intros Ha. apply in_map_iff in Ha as ([a' c] & Ea & Hin). cbn [fst] in Ea. subst a'.
  apply filter_In in Hin as [Hin Hc]. cbn [snd] in Hc.
  unfold candsR in Hin. apply in_combine_map in Hin as [Hin Ec]. subst c.
  apply negb_true_iff in Hc. apply Rleb_false in Hc. split; [exact Hin|lra].
Qed.

(** ** Structural invariant (arbitrary C, pen, delay) *)

Record SInvR (T : nat) (s : stR) : Prop := {
  siR_len_opt : length (optR s) = S T;
  siR_len_prev : length (prevR s) = T;
  siR_starts : forall a, In a (startsR s) -> full T a;
  siR_small : forall e, (e < m)%nat -> nthR (optR s) e = - pen;
  siR_bp : forall e, (m <= e <= T)%nat ->
      full e (nthN (prevR s) (e - 1)) /\
      nthR (optR s) e = nthR (optR s) (nthN (prevR s) (e - 1)) + C (nthN (prevR s) (e - 1)) e + pen }.

Lemma initR_opt_small e : (e < m)%nat -> nthR (optR initM) e = - pen.
Proof.
  intros H. unfold nthR, initR. cbn [optR].
  rewrite app_nth1 by (rewrite repeat_length; lia). now apply nth_repeat_lt.
Qed.

Lemma initR_opt_mid e : (m <= e < 2 * m)%nat -> nthR (optR initM) e = C 0 e.
Proof.
  intros H. unfold nthR, initR. cbn [optR].
  rewrite app_nth2 by (rewrite repeat_length; lia). rewrite repeat_length.
  rewrite (nth_indep _ 0 (C 0 0)) by (rewrite map_length, seq_length; lia).
  rewrite (map_nth (fun e0 => C 0 e0)). rewrite seq_nth by lia. f_equal. lia.
Qed.

Lemma initR_len_opt : length (optR initM) = S (2 * m - 1).
Proof. unfold initR. cbn [optR]. rewrite app_length, repeat_length, map_length, seq_length. lia. Qed.

Lemma initR_SInv : SInvR (2 * m - 1) initM.
Proof.
  constructor.
  - apply initR_len_opt.
  - unfold initR. cbn [prevR]. apply repeat_length.
  - unfold initR. cbn [startsR]. intros a [<-|[]]. now left.
  - apply initR_opt_small.
  - intros e He.
    assert (Hp : nthN (prevR initM) (e - 1) = 0%nat).
    { unfold nthN, initR. cbn [prevR]. apply nth_repeat_lt. lia. }
    rewrite Hp. split; [now left|].
    rewrite initR_opt_mid by lia. rewrite initR_opt_small by lia. lra.
Qed.

Lemma starts1R_full T s : (2 * m - 1 <= T)%nat -> SInvR T s ->
  forall a, In a (starts1R s T) -> full (S T) a.
Proof.
  intros HT HS a Ha. unfold starts1R in Ha. apply in_app_or in Ha as [Ha|[<-|[]]].
  - apply fullR_mono. now apply (siR_starts T s HS).
  - right. lia.
Qed.

Lemma stepR_SInv T s : (2 * m - 1 <= T)%nat -> SInvR T s -> SInvR (S T) (stepM s T).
Proof.
  intros HT HS.
  destruct (stepR_cases s T) as (i & b & now & pend' & _ & Hi & Hb & _ & Hstep & _).
  pose proof (starts1R_full T s HT HS) as Hfull1.
  set (a0 := nthN (starts1R s T) i) in *.
  assert (Ha0 : In a0 (starts1R s T)) by (unfold a0, nthN; now apply nth_In).
  assert (Hfa0 : full (S T) a0) by now apply Hfull1.
  destruct HS as [Hlo Hlp Hst Hsm Hbp].
  rewrite Hstep. constructor; cbn [optR prevR startsR pendingR].
  - rewrite app_length, Hlo. cbn [length]. lia.
  - rewrite app_length, Hlp. cbn [length]. lia.
  - intros a Ha. apply in_removeall in Ha as [Ha _]. now apply Hfull1.
  - intros e He. unfold nthR. rewrite app_nth1 by lia. now apply Hsm.
  - intros e He. destruct (Nat.eq_dec e (S T)) as [->|Hne].
    + replace (S T - 1)%nat with T by lia.
      assert (Hp : nthN (prevR s ++ [a0]) T = a0).
      { unfold nthN. rewrite app_nth2 by lia. rewrite Hlp, Nat.sub_diag. reflexivity. }
      rewrite Hp. split; [exact Hfa0|].
      assert (Ha0T : (a0 < S T)%nat) by (apply fullR_le; [exact Hfa0|lia]).
      unfold nthR. rewrite app_nth2 by lia. rewrite Hlo, Nat.sub_diag. cbn [nth].
      rewrite app_nth1 by lia. rewrite Hb. unfold candvR, nthR. reflexivity.
    + assert (HeT : (m <= e <= T)%nat) by lia.
      destruct (Hbp e HeT) as [Hf Ho].
      assert (Hp : nthN (prevR s ++ [a0]) (e - 1) = nthN (prevR s) (e - 1)).
      { unfold nthN. rewrite app_nth1 by lia. reflexivity. }
      rewrite Hp. split; [exact Hf|].
      assert (Hlt : (nthN (prevR s) (e - 1) < e)%nat) by (apply fullR_le; [exact Hf|lia]).
      unfold nthR in *. rewrite !app_nth1 by lia. exact Ho.
Qed.

Lemma runR_SInv n : (2 * m <= n)%nat -> SInvR n (runM n).
Proof.
  intros Hn. unfold runR.
  replace n with (2 * m - 1 + (n - (2 * m - 1)))%nat at 1 by lia.
  apply (fold_left_seq_inv SInvR stepM).
  - intros T s HT HS. now apply stepR_SInv.
  - apply initR_SInv.
Qed.

(** ** Back-pointer chains are admissible segmentations with the recorded cost *)

Lemma backtrackR_chain (op : list R) (pv : list nat) T :
  nthR op 0 = - pen ->
  (forall e, (m <= e <= T)%nat ->
      full e (nthN pv (e - 1)) /\
      nthR op e = nthR op (nthN pv (e - 1)) + C (nthN pv (e - 1)) e + pen) ->
  forall fuel e acc, (m <= e <= T)%nat -> (e <= fuel)%nat ->
    exists cp, backtrackR fuel pv e acc = 0%nat :: cp ++ acc /\
               Adm m cp e /\ pencostR C pen cp e = nthR op e.
Proof.
  intros H0 Hbp. induction fuel as [|f IH]; intros e acc He Hf; [lia|].
  destruct e as [|i]; [lia|]. cbn [backtrackR].
  destruct (Hbp (S i) He) as [Hfull Ho]. replace (S i - 1)%nat with i in * by lia.
  set (c := nthN pv i) in *.
  destruct Hfull as [Hc|[Hc1 Hc2]].
  - exists []. rewrite Hc in *. split; [|split].
    + destruct f; reflexivity.
    + unfold Adm. cbn [admseg]. lia.
    + rewrite pencostR_nil, Ho, H0. lra.
  - destruct (IH c (c :: acc) ltac:(lia) ltac:(lia)) as (cp & Hbt & Hadm & Hcost).
    exists (cp ++ [c]). split; [|split].
    + rewrite Hbt. rewrite <- app_assoc. reflexivity.
    + unfold Adm. apply admsegN_snoc. split; [exact Hadm|lia].
    + rewrite pencostR_snoc, Ho, Hcost. lra.
Qed.

Lemma peltR_prefix n T : (2 * m <= n)%nat -> (m <= T <= n)%nat ->
  Adm m (changepointsR (prevR (runM n)) T) T /\
  pencostR C pen (changepointsR (prevR (runM n)) T) T = nthR (optR (runM n)) T.
Proof.
  intros Hn HT. pose proof (runR_SInv n Hn) as HS.
  destruct (backtrackR_chain (optR (runM n)) (prevR (runM n)) n
              (siR_small n _ HS 0%nat ltac:(lia)) (siR_bp n _ HS) T T [] HT (le_n T))
    as (cp & Hbt & Hadm & Hcost).
  unfold changepointsR. rewrite Hbt. cbn [tl]. rewrite app_nil_r. auto.
Qed.

(** ** Main structural theorems *)
Section MainR.
Variable n : nat.
Hypothesis n_big : (2 * m <= n)%nat.

Notation scores := (fst (peltR C pen m delay n)).
Notation cpts := (snd (peltR C pen m delay n)).

Lemma scoresR_nth t : (1 <= t)%nat -> nth (t - 1) scores 0 = nthR (optR (runM n)) t.
Proof.
  intros Ht. unfold peltR. cbn [fst]. rewrite nth_tl. unfold nthR. f_equal. lia.
Qed.

Lemma peltR_scores_length_sec : length scores = n.
Proof.
  unfold peltR. cbn [fst]. rewrite length_tl, (siR_len_opt n _ (runR_SInv n n_big)). lia.
Qed.

Lemma peltR_adm_sec : Adm m cpts n.
Proof. unfold peltR. cbn [snd]. apply (peltR_prefix n n n_big). lia. Qed.

Lemma peltR_final_is_pencost_sec : nth (n - 1) scores 0 = pencostR C pen cpts n.
Proof.
  rewrite scoresR_nth by lia. unfold peltR. cbn [snd].
  symmetry. apply (peltR_prefix n n n_big). lia.
Qed.

Lemma peltR_scores_dummy_sec : forall t, (1 <= t < m)%nat -> nth (t - 1) scores 0 = - pen.
Proof.
  intros t Ht. rewrite scoresR_nth by lia. apply (siR_small n _ (runR_SInv n n_big)). lia.
Qed.
End MainR.

(** small facts about the recursion [FR] *)
Lemma FR_small e : (e < m)%nat -> Fn e = - pen.
Proof.
  intros He. destruct e as [|e]; [reflexivity|].
  unfold FR. cbn [FRtab]. rewrite app_nth2 by (rewrite (FRtab_length C pen m); lia).
  rewrite (FRtab_length C pen m), Nat.sub_diag. cbn [nth]. unfold nextR.
  replace (S e <? m)%nat with true by (symmetry; apply Nat.ltb_lt; lia). reflexivity.
Qed.

Lemma FR_mid e : (m <= e < 2 * m)%nat -> Fn e = C 0 e.
Proof.
  intros He. rewrite (FR_unfold C pen m e m_pos) by lia. unfold adm.
  replace (e + 1 - 2 * m)%nat with 0%nat by lia. cbn [seq map]. unfold min1R. cbn [fold_left].
  unfold candFR. rewrite (FR0 C pen m). lra.
Qed.

Lemma FR_le_full T a : (m <= T)%nat -> full T a -> Fn T <= candFn T a.
Proof.
  intros HT [->|[H1 H2]]; [now apply FR_le_cand0|now apply FR_le_cand].
Qed.

(** ** Optimality: pruning never removes a start that can still be optimal.
       [N] bounds the ends for which the split inequality is assumed. *)
Section OptimalR.
Variable N : nat.
Hypothesis delay_ok : (m <= delay + 1)%nat.
Hypothesis split : forall s k e, (s + m <= k)%nat -> (k + m <= e)%nat -> (e <= N)%nat ->
  C s k + C k e <= C s e.

(** [a] was found strictly worse than the optimum at end [tau] *)
Definition condemnedR (a tau : nat) : Prop :=
  full tau a /\ (m <= tau)%nat /\ Fn a + C a tau > Fn tau.

Record InvR (T : nat) (s : stR) : Prop := {
  invR_opt : forall e, (e <= T)%nat -> nthR (optR s) e = Fn e;
  invR_missing : forall a, full T a -> ~ In a (startsR s) ->
      exists tau, (tau + m <= T + 1)%nat /\ condemnedR a tau;
  invR_pend_len : (length (pendingR s) <= delay)%nat;
  invR_pend : forall i D, nth_error (pendingR s) i = Some D ->
      forall a, In a D -> condemnedR a (T + 1 + i - length (pendingR s))%nat }.

Lemma condemnedR_worse a tau T : condemnedR a tau -> (tau + m <= T)%nat -> (T <= N)%nat ->
  candFn T a > Fn T.
Proof.
  intros [Hf [Htau Hgt]] HT HN. unfold candFR.
  assert (Hsp : C a tau + C tau T <= C a T).
  { apply split; [|lia|lia]. destruct Hf as [->|[Hf1 Hf2]]; lia. }
  pose proof (FR_le_cand C pen m T tau m_pos Htau HT) as Hle. unfold candFR in Hle. lra.
Qed.

Lemma initR_Inv : InvR (2 * m - 1) initM.
Proof.
  constructor.
  - intros e He. destruct (lt_dec e m) as [Hlt|Hge].
    + rewrite initR_opt_small, FR_small by lia. reflexivity.
    + rewrite initR_opt_mid, FR_mid by lia. reflexivity.
  - intros a Hf Hn. exfalso. apply Hn. unfold initR. cbn [startsR].
    destruct Hf as [->|[H1 H2]]; [now left|lia].
  - unfold initR. cbn [pendingR length]. lia.
  - unfold initR. cbn [pendingR]. intros i D Hi. destruct i; discriminate.
Qed.

Theorem stepR_inv T s : (2 * m - 1 <= T)%nat -> (S T <= N)%nat ->
  SInvR T s -> InvR T s -> InvR (S T) (stepM s T).
Proof.
  intros HT HTN HS [Hopt Hmiss Hplen Hpend].
  destruct (stepR_cases s T) as (i & b & now & pend' & _ & Hi & Hb & Hmin & Hstep & Hq).
  pose proof (starts1R_full T s HT HS) as Hsub1.
  pose proof (siR_len_opt T s HS) as Hlo.
  set (R1 := starts1R s T) in *.
  assert (Hcand : forall a, In a R1 -> candvR s T a = candFn (S T) a).
  { intros a Ha. unfold candvR, candFR. rewrite Hopt; [reflexivity|].
    pose proof (fullR_le (S T) a (Hsub1 a Ha)) as Hlt. lia. }
  assert (Hmiss0 : forall a, full (S T) a -> ~ In a R1 ->
             exists tau, (tau + m <= T + 1)%nat /\ condemnedR a tau).
  { intros a Hf Hn.
    assert (Hne : a <> (T - (m - 1))%nat).
    { intros ->. apply Hn. unfold R1, starts1R. apply in_or_app. right. now left. }
    assert (HfT : full T a) by (destruct Hf as [->|[Hf1 Hf2]]; [now left|right; lia]).
    assert (Hn' : ~ In a (startsR s)).
    { intros Hin. apply Hn. unfold R1, starts1R. apply in_or_app. now left. }
    exact (Hmiss a HfT Hn'). }
  assert (Hmiss1 : forall a, full (S T) a -> ~ In a R1 -> candFn (S T) a > Fn (S T)).
  { intros a Hf Hn. destruct (Hmiss0 a Hf Hn) as (tau & Htau & Hc).
    apply (condemnedR_worse a tau); [exact Hc|lia|exact HTN]. }
  (* the selected value is FR (S T) *)
  set (a0 := nthN R1 i) in *.
  assert (Ha0 : In a0 R1) by (unfold a0, nthN; now apply nth_In).
  assert (HbF : b = Fn (S T)).
  { apply Rle_antisym.
    - assert (Hatt : exists a, full (S T) a /\ Fn (S T) = candFn (S T) a).
      { destruct (FR_attained C pen m (S T) m_pos ltac:(lia)) as [E|(a & Ha & E)].
        - exists 0%nat. split; [now left|exact E].
        - exists a. split; [now right|exact E]. }
      destruct Hatt as (a & Hfa & Ea).
      destruct (in_dec Nat.eq_dec a R1) as [Hin|Hnin].
      + rewrite Ea, <- (Hcand a Hin). now apply Hmin.
      + pose proof (Hmiss1 a Hfa Hnin) as Hgt. lra.
    - rewrite Hb, (Hcand a0 Ha0). apply FR_le_full; [lia|]. now apply Hsub1. }
  assert (Hdrop : forall a, In a (droplR s T b) -> In a R1 /\ condemnedR a (S T)).
  { intros a Ha. apply in_droplR in Ha as [Hin Hgt]. split; [exact Hin|].
    split; [now apply Hsub1|]. split; [lia|].
    rewrite (Hcand a Hin), HbF in Hgt. unfold candFR in Hgt. lra. }
  set (pend := pendingR s ++ [droplR s T b]) in *.
  assert (Hpend1 : forall j D, nth_error pend j = Some D ->
            forall a, In a D -> condemnedR a (S T + 1 + j - length pend)%nat).
  { intros j D Hj a Ha. unfold pend in *. rewrite app_length. cbn [length].
    destruct (lt_dec j (length (pendingR s))) as [Hlt|Hge].
    - rewrite nth_error_app1 in Hj by auto. specialize (Hpend j D Hj a Ha).
      replace (S T + 1 + j - (length (pendingR s) + 1))%nat
        with (T + 1 + j - length (pendingR s))%nat by lia. exact Hpend.
    - rewrite nth_error_app2 in Hj by lia.
      destruct (j - length (pendingR s))%nat as [|j'] eqn:Ej; cbn in Hj; [|destruct j'; discriminate].
      assert (ED : D = droplR s T b) by congruence. subst D.
      replace (S T + 1 + j - (length (pendingR s) + 1))%nat with (S T) by lia.
      now apply Hdrop. }
  assert (Hlen : length pend = S (length (pendingR s))).
  { unfold pend. rewrite app_length. cbn [length]. lia. }
  assert (Hopt' : forall e, (e <= S T)%nat -> nthR (optR s ++ [b]) e = Fn e).
  { intros e He. unfold nthR. destruct (Nat.eq_dec e (S T)) as [->|Hne].
    - rewrite app_nth2 by lia. rewrite Hlo, Nat.sub_diag. cbn [nth]. exact HbF.
    - rewrite app_nth1 by lia. apply Hopt. lia. }
  rewrite Hstep.
  destruct Hq as [(Hc & Enow & Epend)|(Hc & Enow & Epend)]; subst now pend'.
  - assert (Hk : length (pendingR s) = delay) by lia.
    destruct pend as [|D0 ptl] eqn:Ep; [cbn in Hlen; lia|]. cbn [hd tl].
    assert (HD0 : forall a, In a D0 -> condemnedR a (S T - delay)%nat).
    { intros a Ha. specialize (Hpend1 0%nat D0 eq_refl a Ha).
      replace (S T + 1 + 0 - length (D0 :: ptl))%nat with (S T - delay)%nat in Hpend1
        by (rewrite Hlen; lia). exact Hpend1. }
    constructor; cbn [optR prevR startsR pendingR].
    + exact Hopt'.
    + intros a Hf Hn.
      destruct (in_dec Nat.eq_dec a R1) as [Hin|Hnin].
      * assert (Hnow : In a D0).
        { destruct (in_dec Nat.eq_dec a D0) as [Hi0|Hni0]; [exact Hi0|].
          exfalso. apply Hn, in_removeall. auto. }
        exists (S T - delay)%nat. split; [|now apply HD0].
        pose proof (HD0 a Hnow) as (_ & Hm & _). lia.
      * destruct (Hmiss0 a Hf Hnin) as (tau & Htau & Hcd). exists tau. split; [lia|exact Hcd].
    + cbn [length] in Hlen. lia.
    + intros j D Hj a Ha. specialize (Hpend1 (S j) D Hj a Ha).
      replace (S T + 1 + j - length ptl)%nat
        with (S T + 1 + S j - length (D0 :: ptl))%nat by (cbn [length]; lia). exact Hpend1.
  - constructor; cbn [optR prevR startsR pendingR].
    + exact Hopt'.
    + intros a Hf Hn.
      assert (Hnin : ~ In a R1).
      { intros Hin. apply Hn, in_removeall. split; [exact Hin|intros []]. }
      destruct (Hmiss0 a Hf Hnin) as (tau & Htau & Hcd). exists tau. split; [lia|exact Hcd].
    + exact Hc.
    + exact Hpend1.
Qed.

Lemma runR_Inv n : (2 * m <= n)%nat -> (n <= N)%nat -> InvR n (runM n).
Proof.
  intros Hn HnN.
  assert (H : (n <= N)%nat -> SInvR n (runM n) /\ InvR n (runM n)); [|now apply H].
  unfold runR.
  replace n with (2 * m - 1 + (n - (2 * m - 1)))%nat at 1 2 4 by lia.
  apply (fold_left_seq_inv (fun T s => (T <= N)%nat -> SInvR T s /\ InvR T s) stepM).
  - intros T s HT IH HSN. destruct (IH ltac:(lia)) as [HS HI].
    split; [now apply stepR_SInv|now apply stepR_inv].
  - intros _. split; [apply initR_SInv|apply initR_Inv].
Qed.

Section MainOptR.
Variable n : nat.
Hypothesis n_big : (2 * m <= n)%nat.
Hypothesis n_le_N : (n <= N)%nat.

Notation scores := (fst (peltR C pen m delay n)).
Notation cpts := (snd (peltR C pen m delay n)).

Lemma peltR_scores_optimal_all : forall t, (1 <= t <= n)%nat -> nth (t - 1) scores 0 = Fn t.
Proof.
  intros t Ht. rewrite (scoresR_nth n) by lia. apply (invR_opt n _ (runR_Inv n n_big n_le_N)). lia.
Qed.

Lemma peltR_optimal_nopen : forall c, Adm m c n -> pencostR C pen cpts n <= pencostR C pen c n.
Proof.
  intros c Hc. rewrite <- (peltR_final_is_pencost_sec n n_big).
  rewrite peltR_scores_optimal_all by lia. now apply FR_lower.
Qed.
End MainOptR.
End OptimalR.
End RefineR.

(* ------------------------------------------------------------------ *)
(** * The main theorems in closed form *)

Theorem peltR_scores_length (C : nat -> nat -> R) (pen : R) (m delay n : nat) :
  (1 <= m)%nat -> (2 * m <= n)%nat -> length (fst (peltR C pen m delay n)) = n.
Proof. intros Hm Hn. now apply peltR_scores_length_sec. Qed.

(** the returned changepoints form an admissible segmentation (any cost, any delay) *)
Theorem peltR_adm (C : nat -> nat -> R) (pen : R) (m delay n : nat) :
  (1 <= m)%nat -> (2 * m <= n)%nat -> Adm m (snd (peltR C pen m delay n)) n.
Proof. intros Hm Hn. now apply peltR_adm_sec. Qed.

(** the final score is the penalised cost of exactly the returned segmentation *)
Theorem peltR_final_is_pencost (C : nat -> nat -> R) (pen : R) (m delay n : nat) :
  (1 <= m)%nat -> (2 * m <= n)%nat ->
  nth (n - 1) (fst (peltR C pen m delay n)) 0
  = pencostR C pen (snd (peltR C pen m delay n)) n.
Proof. intros Hm Hn. now apply peltR_final_is_pencost_sec. Qed.

Theorem peltR_scores_dummy (C : nat -> nat -> R) (pen : R) (m delay n : nat) :
  (1 <= m)%nat -> (2 * m <= n)%nat ->
  forall t, (1 <= t < m)%nat -> nth (t - 1) (fst (peltR C pen m delay n)) 0 = - pen.
Proof. intros Hm Hn. now apply peltR_scores_dummy_sec. Qed.

(** optimality under the split inequality for the intervals inside [0, n] only *)
Theorem peltR_scores_optimal_bounded (C : nat -> nat -> R) (pen : R) (m delay n : nat) :
  (1 <= m)%nat -> (2 * m <= n)%nat -> 0 <= pen -> (m <= delay + 1)%nat ->
  (forall s k e, (s + m <= k)%nat -> (k + m <= e)%nat -> (e <= n)%nat ->
                 C s k + C k e <= C s e) ->
  forall t, (m <= t <= n)%nat -> nth (t - 1) (fst (peltR C pen m delay n)) 0 = FR C pen m t.
Proof.
  intros Hm Hn _ Hd Hs t Ht.
  apply (peltR_scores_optimal_all C pen m delay Hm n Hd Hs n Hn (le_n n)). lia.
Qed.

Theorem peltR_optimal_bounded (C : nat -> nat -> R) (pen : R) (m delay n : nat) :
  (1 <= m)%nat -> (2 * m <= n)%nat -> 0 <= pen -> (m <= delay + 1)%nat ->
  (forall s k e, (s + m <= k)%nat -> (k + m <= e)%nat -> (e <= n)%nat ->
                 C s k + C k e <= C s e) ->
  forall c, Adm m c n ->
    pencostR C pen (snd (peltR C pen m delay n)) n <= pencostR C pen c n.
Proof.
  intros Hm Hn _ Hd Hs c Hc.
  exact (peltR_optimal_nopen C pen m delay Hm n Hd Hs n Hn (le_n n) c Hc).
Qed.

(** the real twins of [pelt_scores_optimal] / [pelt_optimal], same hypotheses *)
Theorem peltR_scores_optimal (C : nat -> nat -> R) (pen : R) (m delay n : nat) :
  (1 <= m)%nat -> (2 * m <= n)%nat -> 0 <= pen -> (m <= delay + 1)%nat ->
  (forall s k e, (s + m <= k)%nat -> (k + m <= e)%nat -> C s k + C k e <= C s e) ->
  forall t, (m <= t <= n)%nat -> nth (t - 1) (fst (peltR C pen m delay n)) 0 = FR C pen m t.
Proof.
  intros Hm Hn Hp Hd Hs. apply peltR_scores_optimal_bounded; auto.
Qed.

Theorem peltR_optimal (C : nat -> nat -> R) (pen : R) (m delay n : nat) :
  (1 <= m)%nat -> (2 * m <= n)%nat -> 0 <= pen -> (m <= delay + 1)%nat ->
  (forall s k e, (s + m <= k)%nat -> (k + m <= e)%nat -> C s k + C k e <= C s e) ->
  forall c, Adm m c n ->
    pencostR C pen (snd (peltR C pen m delay n)) n <= pencostR C pen c n.
Proof.
  intros Hm Hn Hp Hd Hs. apply peltR_optimal_bounded; auto.
Qed.

(** the penalised cost of an admissible segmentation of [0, n) only reads the cost of
    intervals of length >= m inside [0, n] *)
Lemma segcostR_ext (C1 C2 : nat -> nat -> R) (m n : nat) : (1 <= m)%nat ->
  (forall s e, (s + m <= e)%nat -> (e <= n)%nat -> C1 s e = C2 s e) ->
  forall c p T, admseg m p c T -> (T <= n)%nat -> segcostR C1 p c T = segcostR C2 p c T.
Proof.
  intros Hm Hext. induction c as [|a l IH]; intros p T Ha HT; cbn [segcostR admseg] in *.
  - now apply Hext.
  - destruct Ha as [H1 H2]. pose proof (admseg_ge m Hm a l T H2) as Hge.
    rewrite (IH a T H2 HT). rewrite (Hext p a) by lia. reflexivity.
Qed.

Lemma pencostR_ext (C1 C2 : nat -> nat -> R) (pen : R) (m n : nat) : (1 <= m)%nat ->
  (forall s e, (s + m <= e)%nat -> (e <= n)%nat -> C1 s e = C2 s e) ->
  forall c, Adm m c n -> pencostR C1 pen c n = pencostR C2 pen c n.
Proof.
  intros Hm Hext c Hc. unfold pencostR.
  rewrite (segcostR_ext C1 C2 m n Hm Hext c 0%nat n Hc (le_n n)). reflexivity.
Qed.

(* ------------------------------------------------------------------ *)
(** * Embedding: the real model on an integer cost is the image of the executable model *)

Lemma Rltb_IZR x y : Rltb (IZR x) (IZR y) = (x <? y)%Z.
Proof.
  destruct (x <? y)%Z eqn:E.
  - apply Rltb_true, IZR_lt, Z.ltb_lt, E.
  - apply Rltb_false, IZR_le. apply Z.ltb_ge in E. exact E.
Qed.
Lemma Rleb_IZR x y : Rleb (IZR x) (IZR y) = (x <=? y)%Z.
Proof.
  destruct (x <=? y)%Z eqn:E.
  - apply Rleb_true, IZR_le, Z.leb_le, E.
  - apply Rleb_false, IZR_lt. apply Z.leb_gt in E. exact E.
Qed.

Lemma nthR_map_IZR l a : nthR (map IZR l) a = IZR (nthZ l a).
Proof. unfold nthR, nthZ. change 0 with (IZR 0). apply map_nth. Qed.

Lemma map_IZR_repeat x k : map IZR (repeat x k) = repeat (IZR x) k.
Proof. induction k as [|k IH]; cbn [repeat map]; [reflexivity|]. now rewrite IH. Qed.

Lemma tl_map {A B} (f : A -> B) l : tl (map f l) = map f (tl l).
Proof. destruct l; reflexivity. Qed.

Definition liftp (p : nat * Z) : nat * R := (fst p, IZR (snd p)).

Lemma argminR_from_IZR l : forall bi b i,
  argminR_from bi (IZR b) i (map IZR l) = liftp (argmin_from bi b i l).
Proof.
  induction l as [|x t IH]; intros bi b i; cbn [map argminR_from argmin_from]; [reflexivity|].
  rewrite Rltb_IZR. destruct (x <? b)%Z; apply IH.
Qed.

Lemma argminR_IZR l : argminR (map IZR l) = option_map liftp (argmin l).
Proof.
  destruct l as [|x t]; cbn [map argminR argmin option_map]; [reflexivity|].
  now rewrite argminR_from_IZR.
Qed.

Lemma drop_IZR (l1 : list nat) (z : Z) : forall cz : list Z,
  map fst (filter (fun ac : nat * R => negb (Rleb (snd ac) (IZR z)))
                  (combine l1 (map IZR cz)))
  = map fst (filter (fun ac : nat * Z => negb (snd ac <=? z)%Z) (combine l1 cz)).
Proof.
  induction l1 as [|a l1 IH]; intros cz; [reflexivity|].
  destruct cz as [|c cz]; [reflexivity|].
  cbn [map combine filter snd]. rewrite Rleb_IZR.
  destruct (c <=? z)%Z; cbn [negb map fst]; now rewrite IH.
Qed.

(** the simulation relation is a function: lift an integer state *)
Definition liftst (s : st) : stR :=
  {| optR := map IZR (opt s); prevR := prev s; startsR := starts s; pendingR := pending s |}.

Section Embed.
Variable C : nat -> nat -> Z.
Variable pen : Z.
Variable m delay : nat.

Notation CR := (fun s e : nat => IZR (C s e)).

Lemma initR_of_Z : initR CR (IZR pen) m = liftst (init C pen m).
Proof.
  unfold initR, init, liftst. cbn [opt prev starts pending]. f_equal.
  rewrite map_app, map_IZR_repeat, opp_IZR, map_map. reflexivity.
Qed.

Lemma cands_of_Z (op : list Z) (T : nat) (l : list nat) :
  map (fun a => nthR (map IZR op) a + IZR (C a T) + IZR pen) l
  = map IZR (map (fun a => (nthZ op a + C a T + pen)%Z) l).
Proof.
  rewrite map_map. apply map_ext. intros a. now rewrite nthR_map_IZR, !plus_IZR.
Qed.

Lemma stepR_of_Z s t :
  stepR CR (IZR pen) m delay (liftst s) t = liftst (step C pen m delay s t).
Proof.
  unfold stepR, step. cbv zeta. cbn [liftst optR prevR startsR pendingR].
  rewrite cands_of_Z, argminR_IZR.
  destruct (argmin (map (fun a => (nthZ (opt s) a + C a (S t) + pen)%Z)
                        (starts s ++ [(t - (m - 1))%nat]))) as [[i b]|];
    cbn [option_map liftp fst snd]; [|reflexivity].
  rewrite <- plus_IZR, drop_IZR.
  destruct (delay <? length (pending s ++ _))%nat;
    unfold liftst; cbn [opt prev starts pending]; rewrite (map_app IZR (opt s) [b]); reflexivity.
Qed.

Lemma fold_left_sim {A B X} (g : A -> B) (f : B -> X -> B) (f' : A -> X -> A) (l : list X) :
  (forall a x, f (g a) x = g (f' a x)) ->
  forall a, fold_left f l (g a) = g (fold_left f' l a).
Proof.
  intros H. induction l as [|x l IH]; intros a; cbn [fold_left]; [reflexivity|].
  rewrite H. apply IH.
Qed.

Lemma runR_of_Z n : runR CR (IZR pen) m delay n = liftst (run C pen m delay n).
Proof.
  unfold runR, run. rewrite initR_of_Z. apply fold_left_sim. exact stepR_of_Z.
Qed.
End Embed.

Theorem peltR_of_Z : forall (C : nat -> nat -> Z) (pen : Z) (m d n : nat),
  peltR (fun s e => IZR (C s e)) (IZR pen) m d n
  = (map IZR (fst (pelt C pen m d n)), snd (pelt C pen m d n)).
Proof.
  intros C pen m d n. unfold peltR, pelt. cbv zeta. rewrite runR_of_Z.
  cbn [liftst optR prevR fst snd]. rewrite tl_map. reflexivity.
Qed.

(* ------------------------------------------------------------------ *)
(** * End to end: the built-in squared-error cost, one column *)

Section L2OneColumn.
Variable xs : list R.
Notation P1 := (prefix xs).
Notation P2 := (prefix (sq xs)).

(** the split inequality of the kernel, in the shape the PELT theorem asks for *)
Lemma l2_kernel_split (m : nat) : (1 <= m)%nat ->
  forall s k e, (s + m <= k)%nat -> (k + m <= e)%nat ->
    l2_cost_optim_R P1 P2 s k + l2_cost_optim_R P1 P2 k e <= l2_cost_optim_R P1 P2 s e.
Proof. intros Hm s k e H1 H2. apply l2_split; lia. Qed.

(** PELT run on the prefix sums of [xs] with the squared-error kernel: the output is an
    admissible segmentation that minimises the penalised kernel cost.  No hypothesis on
    the cost is left. *)
Theorem pelt_l2_end_to_end (pen : R) (m : nat) :
  (1 <= m)%nat -> (2 * m <= length xs)%nat -> 0 <= pen ->
  let n := length xs in
  let cpts := snd (peltR (l2_cost_optim_R P1 P2) pen m (m - 1) n) in
  Adm m cpts n /\
  forall c, Adm m c n ->
    pencostR (l2_cost_optim_R P1 P2) pen cpts n <= pencostR (l2_cost_optim_R P1 P2) pen c n.
Proof.
  intros Hm Hn Hp n cpts. split.
  - apply peltR_adm; assumption.
  - apply peltR_optimal; [assumption|assumption|assumption|lia|].
    now apply l2_kernel_split.
Qed.

(** on the intervals PELT reads, the kernel is the residual sum of squares of the slice *)
Lemma l2_kernel_is_rss (m : nat) : (1 <= m)%nat ->
  forall s e, (s + m <= e)%nat -> (e <= length xs)%nat ->
    l2_cost_optim_R P1 P2 s e = rss (slice s e xs).
Proof. intros Hm s e H1 H2. apply l2_optim_is_rss; lia. Qed.

(** the same statement with the cost read as the residual sum of squares of the data *)
Corollary pelt_l2_end_to_end_rss (pen : R) (m : nat) :
  (1 <= m)%nat -> (2 * m <= length xs)%nat -> 0 <= pen ->
  let n := length xs in
  let cpts := snd (peltR (l2_cost_optim_R P1 P2) pen m (m - 1) n) in
  Adm m cpts n /\
  forall c, Adm m c n ->
    pencostR (fun s e => rss (slice s e xs)) pen cpts n
    <= pencostR (fun s e => rss (slice s e xs)) pen c n.
Proof.
  intros Hm Hn Hp n cpts.
  destruct (pelt_l2_end_to_end pen m Hm Hn Hp) as [Ha Ho]. fold n in Ha, Ho. fold cpts in Ha, Ho.
  split; [exact Ha|]. intros c Hc.
  rewrite <- (pencostR_ext _ _ pen m n Hm (l2_kernel_is_rss m Hm) cpts Ha).
  rewrite <- (pencostR_ext _ _ pen m n Hm (l2_kernel_is_rss m Hm) c Hc).
  now apply Ho.
Qed.

(** and the last score is that minimal penalised residual sum of squares *)
Corollary pelt_l2_final_score_rss (pen : R) (m : nat) :
  (1 <= m)%nat -> (2 * m <= length xs)%nat -> 0 <= pen ->
  let n := length xs in
  let out := peltR (l2_cost_optim_R P1 P2) pen m (m - 1) n in
  nth (n - 1) (fst out) 0 = pencostR (fun s e => rss (slice s e xs)) pen (snd out) n.
Proof.
  intros Hm Hn Hp n out. unfold out.
  rewrite peltR_final_is_pencost by assumption.
  apply (pencostR_ext _ _ pen m n Hm (l2_kernel_is_rss m Hm)).
  apply peltR_adm; assumption.
Qed.
End L2OneColumn.

(* ------------------------------------------------------------------ *)
(** * Several columns: the aggregated cost is the sum of the per-column costs *)

Definition sumcost (Cs : list (nat -> nat -> R)) (s e : nat) : R :=
  fold_right Rplus 0 (map (fun c => c s e) Cs).

(** a finite sum of costs satisfying the split inequality at [(s, k, e)] satisfies it *)
Lemma split_sum (Cs : list (nat -> nat -> R)) (s k e : nat) :
  (forall c, In c Cs -> c s k + c k e <= c s e) ->
  sumcost Cs s k + sumcost Cs k e <= sumcost Cs s e.
Proof.
  unfold sumcost. induction Cs as [|c0 Cs IH]; intros H; cbn [map fold_right]; [lra|].
  pose proof (H c0 (or_introl eq_refl)) as H0.
  assert (HI : forall c, In c Cs -> c s k + c k e <= c s e) by (intros c Hc; apply H; now right).
  specialize (IH HI). lra.
Qed.

Lemma sumcost_ext (Cs1 Cs2 : list (nat -> nat -> R)) (s e : nat) :
  map (fun c => c s e) Cs1 = map (fun c => c s e) Cs2 -> sumcost Cs1 s e = sumcost Cs2 s e.
Proof. unfold sumcost. intros H. now rewrite H. Qed.

(** the aggregated squared-error cost of a list of columns, as np.sum(..., axis=1) forms it *)
Definition l2_multi (xss : list (list R)) (s e : nat) : R :=
  fold_right Rplus 0 (map (fun xs => l2_cost_optim_R (prefix xs) (prefix (sq xs)) s e) xss).
Definition rss_multi (xss : list (list R)) (s e : nat) : R :=
  fold_right Rplus 0 (map (fun xs => rss (slice s e xs)) xss).

Lemma l2_multi_sumcost xss s e :
  l2_multi xss s e
  = sumcost (map (fun xs => l2_cost_optim_R (prefix xs) (prefix (sq xs))) xss) s e.
Proof. unfold l2_multi, sumcost. now rewrite map_map. Qed.

Lemma l2_multi_split (xss : list (list R)) (m : nat) : (1 <= m)%nat ->
  forall s k e, (s + m <= k)%nat -> (k + m <= e)%nat ->
    l2_multi xss s k + l2_multi xss k e <= l2_multi xss s e.
Proof.
  intros Hm s k e H1 H2. rewrite !l2_multi_sumcost. apply split_sum.
  intros c Hc. apply in_map_iff in Hc as (xs & <- & _). now apply (l2_kernel_split xs m Hm).
Qed.

Lemma l2_multi_is_rss (xss : list (list R)) (m n : nat) : (1 <= m)%nat ->
  (forall xs, In xs xss -> length xs = n) ->
  forall s e, (s + m <= e)%nat -> (e <= n)%nat -> l2_multi xss s e = rss_multi xss s e.
Proof.
  intros Hm Hlen s e H1 H2. unfold l2_multi, rss_multi. f_equal.
  apply map_ext_in. intros xs Hxs. apply (l2_kernel_is_rss xs m Hm s e H1).
  rewrite (Hlen xs Hxs). exact H2.
Qed.

(** PELT on the aggregated kernel cost of any list of columns returns a minimiser; the
    kernel statement needs no assumption at all on the columns *)
Theorem pelt_l2_multicolumn_end_to_end (xss : list (list R)) (pen : R) (m n : nat) :
  (1 <= m)%nat -> (2 * m <= n)%nat -> 0 <= pen ->
  let cpts := snd (peltR (l2_multi xss) pen m (m - 1) n) in
  Adm m cpts n /\
  forall c, Adm m c n -> pencostR (l2_multi xss) pen cpts n <= pencostR (l2_multi xss) pen c n.
Proof.
  intros Hm Hn Hp cpts. split.
  - apply peltR_adm; assumption.
  - apply peltR_optimal; [assumption|assumption|assumption|lia|].
    now apply l2_multi_split.
Qed.

(** when every column has [n] observations the cost is the summed residual sum of squares *)
Corollary pelt_l2_multicolumn_end_to_end_rss (xss : list (list R)) (pen : R) (m n : nat) :
  (1 <= m)%nat -> (2 * m <= n)%nat -> 0 <= pen ->
  (forall xs, In xs xss -> length xs = n) ->
  let cpts := snd (peltR (l2_multi xss) pen m (m - 1) n) in
  Adm m cpts n /\
  forall c, Adm m c n -> pencostR (rss_multi xss) pen cpts n <= pencostR (rss_multi xss) pen c n.
Proof.
  intros Hm Hn Hp Hlen cpts.
  destruct (pelt_l2_multicolumn_end_to_end xss pen m n Hm Hn Hp) as [Ha Ho]. fold cpts in Ha, Ho.
  split; [exact Ha|]. intros c Hc.
  rewrite <- (pencostR_ext _ _ pen m n Hm (l2_multi_is_rss xss m n Hm Hlen) cpts Ha).
  rewrite <- (pencostR_ext _ _ pen m n Hm (l2_multi_is_rss xss m n Hm Hlen) c Hc).
  now apply Ho.
Qed.

(* ------------------------------------------------------------------ *)
(** * End to end: the Gaussian mean-and-variance cost, one column.

    [gvar_split] needs the maximum-likelihood variance of the three intervals involved to be
    at least the floor 1e-16 the code clips it to.  That is a condition on the DATA (it
    fails e.g. for a constant stretch), stated here for every interval of length >= m
    inside the data; it is the only hypothesis besides the ones of the L2 theorem.  The
    bounded form of the optimality theorem is what makes a condition on intervals inside
    [0, n] enough. *)

Section GaussianOneColumn.
Variable xs : list R.
Notation P1 := (prefix xs).
Notation P2 := (prefix (sq xs)).

Definition var_above_floor (m : nat) : Prop :=
  forall s e, (s + m <= e)%nat -> (e <= length xs)%nat -> floor_var <= varR (slice s e xs).

Lemma gvar_kernel_split (m : nat) : (1 <= m)%nat -> var_above_floor m ->
  forall s k e, (s + m <= k)%nat -> (k + m <= e)%nat -> (e <= length xs)%nat ->
    gaussian_var_cost_optim_R P1 P2 s k + gaussian_var_cost_optim_R P1 P2 k e
    <= gaussian_var_cost_optim_R P1 P2 s e.
Proof.
  intros Hm Hv s k e H1 H2 H3.
  apply gvar_split; [lia|lia| | | ]; rewrite V_is_varR by lia; apply Hv; lia.
Qed.

Theorem pelt_gvar_end_to_end (pen : R) (m : nat) :
  (1 <= m)%nat -> (2 * m <= length xs)%nat -> 0 <= pen -> var_above_floor m ->
  let n := length xs in
  let cpts := snd (peltR (gaussian_var_cost_optim_R P1 P2) pen m (m - 1) n) in
  Adm m cpts n /\
  forall c, Adm m c n ->
    pencostR (gaussian_var_cost_optim_R P1 P2) pen cpts n
    <= pencostR (gaussian_var_cost_optim_R P1 P2) pen c n.
Proof.
  intros Hm Hn Hp Hv n cpts. split.
  - apply peltR_adm; assumption.
  - apply peltR_optimal_bounded; [assumption|assumption|assumption|lia|].
    now apply gvar_kernel_split.
Qed.

(** on the intervals PELT reads, the kernel is twice the negative Gaussian log-likelihood
    of the slice at its maximum-likelihood estimate *)
Lemma gvar_kernel_is_nll (m : nat) : (1 <= m)%nat -> var_above_floor m ->
  forall s e, (s + m <= e)%nat -> (e <= length xs)%nat ->
    gaussian_var_cost_optim_R P1 P2 s e
    = nll2 (meanR (slice s e xs)) (varR (slice s e xs)) (slice s e xs).
Proof.
  intros Hm Hv s e H1 H2. apply gvar_optim_is_nll_at_mle; [lia|]. now apply Hv.
Qed.

Corollary pelt_gvar_end_to_end_nll (pen : R) (m : nat) :
  (1 <= m)%nat -> (2 * m <= length xs)%nat -> 0 <= pen -> var_above_floor m ->
  let n := length xs in
  let cpts := snd (peltR (gaussian_var_cost_optim_R P1 P2) pen m (m - 1) n) in
  let nll := fun s e => nll2 (meanR (slice s e xs)) (varR (slice s e xs)) (slice s e xs) in
  Adm m cpts n /\
  forall c, Adm m c n -> pencostR nll pen cpts n <= pencostR nll pen c n.
Proof.
  intros Hm Hn Hp Hv n cpts nll.
  destruct (pelt_gvar_end_to_end pen m Hm Hn Hp Hv) as [Ha Ho]. fold n in Ha, Ho. fold cpts in Ha, Ho.
  split; [exact Ha|]. intros c Hc. unfold nll.
  rewrite <- (pencostR_ext _ _ pen m n Hm (gvar_kernel_is_nll m Hm Hv) cpts Ha).
  rewrite <- (pencostR_ext _ _ pen m n Hm (gvar_kernel_is_nll m Hm Hv) c Hc).
  now apply Ho.
Qed.
End GaussianOneColumn.

(* ------------------------------------------------------------------ *)
(** * Non-vacuity: a concrete integer instance, computed on the executable side *)

(** two candidate mean levels, eight observations; the cost of a segment is the
    smaller of the two summed losses ([tcost] of Proofs/PeltRefine.v) *)
Definition ex_loss : list (list Z) :=
  [[0; 4]; [1; 5]; [0; 3]; [6; 0]; [4; 1]; [5; 0]; [0; 6]; [1; 4]]%Z.

Lemma ex_pelt_Z :
  pelt (tcost ex_loss 1) 2 2 1 8 = ([-2; 1; 1; 6; 4; 4; 10; 7]%Z, [3; 6]%nat).
Proof. vm_compute. reflexivity. Qed.

Example peltR_of_Z_example :
  peltR (fun s e => IZR (tcost ex_loss 1 s e)) 2 2 1 8
  = (map IZR [-2; 1; 1; 6; 4; 4; 10; 7]%Z, [3; 6]%nat).
Proof. rewrite (peltR_of_Z (tcost ex_loss 1) 2 2 1 8), ex_pelt_Z. reflexivity. Qed.

(** the hypotheses of the real optimality theorem are satisfiable and its conclusion is
    the expected one on that instance: no admissible segmentation costs less than 7 *)
Example peltR_optimal_example : forall c, Adm 2 c 8 ->
  7 <= pencostR (fun s e => IZR (tcost ex_loss 1 s e)) 2 c 8.
Proof.
  intros c Hc.
  assert (Hsplit : forall s k e, (s + 2 <= k)%nat -> (k + 2 <= e)%nat ->
            IZR (tcost ex_loss 1 s k) + IZR (tcost ex_loss 1 k e) <= IZR (tcost ex_loss 1 s e)).
  { intros s k e H1 H2. rewrite <- plus_IZR. apply IZR_le. apply tcost_split; lia. }
  pose proof (peltR_optimal (fun s e => IZR (tcost ex_loss 1 s e)) 2 2 1 8
                ltac:(lia) ltac:(lia) ltac:(lra) ltac:(lia) Hsplit c Hc) as Hopt.
  rewrite <- peltR_final_is_pencost in Hopt by lia.
  rewrite peltR_of_Z_example in Hopt. exact Hopt.
Qed.

(* ------------------------------------------------------------------ *)
Print Assumptions FR_lower.
Print Assumptions FR_upper.
Print Assumptions peltR_adm.
Print Assumptions peltR_final_is_pencost.
Print Assumptions peltR_scores_optimal.
Print Assumptions peltR_optimal.
Print Assumptions peltR_scores_optimal_bounded.
Print Assumptions peltR_optimal_bounded.
Print Assumptions peltR_of_Z.
Print Assumptions pelt_l2_end_to_end.
Print Assumptions pelt_l2_end_to_end_rss.
Print Assumptions pelt_l2_final_score_rss.
Print Assumptions split_sum.
Print Assumptions pelt_l2_multicolumn_end_to_end.
Print Assumptions pelt_l2_multicolumn_end_to_end_rss.
Print Assumptions pelt_gvar_end_to_end.
Print Assumptions pelt_gvar_end_to_end_nll.
Print Assumptions peltR_of_Z_example.
Print Assumptions peltR_optimal_example.
