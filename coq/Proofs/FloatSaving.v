(** The L2 SAVING kernel in the style of Proofs/FloatError.v + Proofs/FloatRefine.v + Proofs/FloatKernels2.v:

        saving = (S1[e] - S1[s]) ** 2 / n          n = e - s,  S1 = sequential cumsum of x with a leading zero

    in the code's operation order  [l2_saving_F]  (Check/FloatSavingCheck.v):
        a = fl (S1[e] - S1[s]),   p = fl (a * a),   saving = fl (p / n).
    Over the reals this is [l2_saving_R] (Gen/KernelsR.v, regenerated from the Python source).

    MODEL OF FLOATING POINT: as in Proofs/FloatError.v (Flocq FLX, precision 53, round to nearest even,
    unbounded exponent range: [rnd53], [u53] = 2^-53).  Part 1 is first carried out for ANY rounding
    function with |rnd x - x| <= u |x|, 0 <= u.

    Notation:  M1 = sum of |x_i| over the WHOLE prefix 0 .. e-1,  n = e - s.

    1 [l2_saving_float_error_sharp]  s < e  ==>
          |l2_saving_float l s e - l2_saving_R (prefix l) s e| <= ((1+u)^4 (2 (1+u)^e - 1)^2 - 1) M1^2 / n
      [l2_saving_float53_error]      s < e,  e u <= 1/100  ==>
          |l2_saving_float53 l s e - l2_saving_R (prefix l) s e| <= (4.2 e + 5) u M1^2 / n
          (e <= length l is not needed: [firstn], [prefix] saturate at the length of the list)
      [l2_saving_float53_tolerance]  e <= 2 000 000  ==>  error <= 1e-9 M1^2 / n
    2 [l2_saving_trace_ok] (boolean checker), [l2_saving_F_refines]:
          l2_saving_trace_ok l s e = true -> FR (l2_saving_F l s e) = l2_saving_float53 (map FR l) s e
    3 [l2_saving_F_vs_R]  the computed number against [l2_saving_R] on the exact prefix sums of the data,
      [l2_saving_F_tolerance], [l2_saving_F_nonneg] (the computed saving is >= 0).
    4 non-vacuity: [demo_saving_trace_ok] and friends. *)
From Coq Require Import Reals Lra Lia List Arith ZArith Bool Floats Psatz.
From Flocq Require Import Core Plus_error BinarySingleNaN.
From Flocq Require IEEE754.PrimFloat.
From SK Require Import Gen.KernelsR Proofs.RealLib Proofs.CostKernels Proofs.ScoreKernels Proofs.FloatError
  Check.FloatKernelCheck Check.FloatSavingCheck Proofs.FloatRefine.
Import ListNotations.

Local Open Scope R_scope.
Local Instance prec53_gt_0'' : Prec_gt_0 53 := eq_refl.

(* ------------------------------------------------------------------------- *)
(** * 1 (abstract): the standard model, any rounding function                  *)
(* ------------------------------------------------------------------------- *)

Section AbstractSaving.
  Variable rnd : R -> R.
  Variable u : R.
  Hypothesis u_nonneg : 0 <= u.
  Hypothesis rnd_rel : forall x, Rabs (rnd x - x) <= u * Rabs x.

  (** the saving, in exactly the operation order of [l2_saving_F]: a rounding after each step of
      the cumulative sum, after the subtraction, after the product and after the division
      (the integer n = e - s is exact) *)
  Definition l2_saving_float (l : list R) (s e : nat) : R :=
    let a := rnd (fprefix rnd l e - fprefix rnd l s) in
    rnd (rnd (a * a) / INR (e - s)).

  (** the exact kernel in terms of the segment sum *)
  Lemma l2_saving_R_segment l s e :
    (s <= e)%nat ->
    l2_saving_R (prefix l) s e = sumR (slice s e l) * sumR (slice s e l) / INR (e - s).
  Proof.
    intros Hse. unfold l2_saving_R. rewrite (prefix_diff l s e Hse). unfold Rdiv. ring.
  Qed.

  (** sharp form: relative error (1 + hh e)^2 (1+u)^2 - 1 = (1+u)^4 (2 (1+u)^e - 1)^2 - 1
      on (sum of |x_i| over the prefix)^2 / n *)
  Theorem l2_saving_float_error_sharp l s e :
    (s < e)%nat ->
    Rabs (l2_saving_float l s e - l2_saving_R (prefix l) s e)
      <= ((1 + hh u e) ^ 2 * (1 + u) ^ 2 - 1)
         * ((sumR (map Rabs (firstn e l))) ^ 2 / INR (e - s)).
  Proof.
    intros Hlt. assert (Hse : (s <= e)%nat) by lia.
    assert (Hn : 0 < INR (e - s)) by (apply lt_0_INR; lia).
    rewrite (l2_saving_R_segment l s e Hse).
    set (A := sumR (slice s e l)).
    set (M1 := sumR (map Rabs (firstn e l))).
    pose proof (hh_nonneg u u_nonneg e) as Hh.
    pose proof (fdiff_error_sharp rnd u u_nonneg rnd_rel l s e Hse) as Ha. fold A M1 in Ha.
    assert (HA : Rabs A <= M1).
    { pose proof (sumR_abs_le (slice s e l)) as H1.
      pose proof (sumR_slice_le_prefix Rabs s e l Rabs_pos Hse) as H2.
      unfold A, M1. lra. }
    unfold l2_saving_float. cbv zeta.
    destruct (sq_div_error rnd u u_nonneg rnd_rel _ A (hh u e) M1 (INR (e - s)) Hh Hn Ha HA) as [Hq _].
    replace (M1 ^ 2 / INR (e - s)) with (M1 * M1 / INR (e - s)) by (unfold Rdiv; ring).
    exact Hq.
  Qed.

  (** the relative error under the smallness hypothesis:
      (1+u)^4 (2 (1+u)^e - 1)^2 - 1 <= (4.2 e + 5) u *)
  Lemma saving_const_small e :
    (0 < e)%nat -> INR e * u <= 1 / 100 ->
    (1 + hh u e) ^ 2 * (1 + u) ^ 2 - 1 <= (42 / 10 * INR e + 5) * u.
  Proof.
    intros He Hsmall.
    pose proof (g_small u u_nonneg e Hsmall) as Hg. pose proof (g_nonneg u u_nonneg e) as Hg0.
    pose proof (u_le_eu u u_nonneg e He) as Hu.
    assert (H4u : INR 4 * u <= 4 / 100) by (cbn [INR]; lra).
    pose proof (g_small_gen u u_nonneg (4 / 100) 4 ltac:(lra) H4u 4 ltac:(lia)) as Hg4.
    pose proof (g_nonneg u u_nonneg 4) as Hg40.
    cbn [INR] in Hg4.
    replace ((1 + hh u e) ^ 2 * (1 + u) ^ 2) with ((1 + 2 * g u e) ^ 2 * (1 + g u 4))
      by (unfold hh, g; ring).
    replace ((42 / 10 * INR e + 5) * u) with (42 / 10 * (INR e * u) + 5 * u) by ring.
    set (t := INR e * u) in *. set (G := g u e) in *. set (G4 := g u 4) in *.
    assert (HG : G <= 102 / 10000) by lra.
    assert (HGG : G * G <= 102 / 10000 * G) by (apply Rmult_le_compat_r; lra).
    assert (HQ2 : (1 + 2 * G) ^ 2 <= 1 + 41217 / 10000 * t) by nra.
    assert (HQ20 : 1 <= (1 + 2 * G) ^ 2) by nra.
    assert (Htu : t * u <= 1 / 100 * u) by (apply Rmult_le_compat_r; lra).
    assert (Htu0 : 0 <= t * u) by (apply Rmult_le_pos; lra).
    assert (H1 : (1 + 2 * G) ^ 2 * (1 + G4) <= (1 + 41217 / 10000 * t) * (1 + 44 / 10 * u)).
    { apply Rmult_le_compat; lra. }
    nra.
  Qed.

  (** K = 4.2 e + 5.  [e <= length l] is not needed. *)
  Theorem l2_saving_float_error l s e :
    (s < e)%nat -> INR e * u <= 1 / 100 ->
    Rabs (l2_saving_float l s e - l2_saving_R (prefix l) s e)
      <= (42 / 10 * INR e + 5) * u * ((sumR (map Rabs (firstn e l))) ^ 2 / INR (e - s)).
  Proof.
    intros Hlt Hsmall.
    pose proof (l2_saving_float_error_sharp l s e Hlt) as H.
    pose proof (saving_const_small e ltac:(lia) Hsmall) as H1.
    assert (HW : 0 <= (sumR (map Rabs (firstn e l))) ^ 2 / INR (e - s)).
    { apply Rmult_le_pos; [apply pow2_ge_0|].
      left. apply Rinv_0_lt_compat. apply lt_0_INR. lia. }
    set (W := (sumR (map Rabs (firstn e l))) ^ 2 / INR (e - s)) in *.
    assert (((1 + hh u e) ^ 2 * (1 + u) ^ 2 - 1) * W <= (42 / 10 * INR e + 5) * u * W)
      by (apply Rmult_le_compat_r; assumption).
    lra.
  Qed.

End AbstractSaving.

(* ------------------------------------------------------------------------- *)
(** * 1. The Flocq instance (FLX, precision 53)                                *)
(* ------------------------------------------------------------------------- *)

Definition l2_saving_float53 : list R -> nat -> nat -> R := l2_saving_float rnd53.

(** the definition, spelled out *)
Lemma l2_saving_float53_unfold xs s e :
  l2_saving_float53 xs s e =
    let S1 := fprefix53 xs in
    let a := rnd53 (S1 e - S1 s) in
    rnd53 (rnd53 (a * a) / INR (e - s)).
Proof. reflexivity. Qed.

(** the scale of the tolerance: (sum of |x_i| over the prefix 0 .. e-1)^2 / n *)
Definition l2_saving_scale (xs : list R) (s e : nat) : R :=
  (sumR (map Rabs (firstn e xs))) ^ 2 / INR (e - s).

Lemma l2_saving_scale_nonneg xs s e : (s < e)%nat -> 0 <= l2_saving_scale xs s e.
Proof.
  intros Hlt. unfold l2_saving_scale. apply Rmult_le_pos; [apply pow2_ge_0|].
  left. apply Rinv_0_lt_compat. apply lt_0_INR. lia.
Qed.

(** sharp form, no smallness hypothesis *)
Theorem l2_saving_float53_error_sharp xs s e :
  (s < e)%nat ->
  Rabs (l2_saving_float53 xs s e - l2_saving_R (prefix xs) s e)
    <= ((1 + u53) ^ 4 * (2 * (1 + u53) ^ e - 1) ^ 2 - 1)
       * ((sumR (map Rabs (firstn e xs))) ^ 2 / INR (e - s)).
Proof.
  intros Hlt.
  pose proof (l2_saving_float_error_sharp rnd53 u53 u53_nonneg rnd53_rel xs s e Hlt) as H.
  replace ((1 + u53) ^ 4 * (2 * (1 + u53) ^ e - 1) ^ 2)
    with ((1 + hh u53 e) ^ 2 * (1 + u53) ^ 2) by (unfold hh, g; ring).
  exact H.
Qed.

(** the error theorem: K = 4.2 e + 5 *)
Theorem l2_saving_float53_error xs s e :
  (s < e)%nat -> INR e * u53 <= 1 / 100 ->
  Rabs (l2_saving_float53 xs s e - l2_saving_R (prefix xs) s e)
    <= (42 / 10 * INR e + 5) * u53 * ((sumR (map Rabs (firstn e xs))) ^ 2 / INR (e - s)).
Proof.
  intros Hlt Hsmall.
  exact (l2_saving_float_error rnd53 u53 u53_nonneg rnd53_rel xs s e Hlt Hsmall).
Qed.

(** the statement of the brief (with the superfluous hypothesis [e <= length xs], and the quotient
    written at the outside) *)
Corollary l2_saving_float53_error' xs s e :
  (s < e <= length xs)%nat -> INR e * u53 <= 1 / 100 ->
  Rabs (l2_saving_float53 xs s e - l2_saving_R (prefix xs) s e)
    <= (42 / 10 * INR e + 5) * u53 * (sumR (map Rabs (firstn e xs))) ^ 2 / INR (e - s).
Proof.
  intros Hse Hsmall.
  pose proof (l2_saving_float53_error xs s e (proj1 Hse) Hsmall) as H.
  unfold Rdiv in *. rewrite <- Rmult_assoc in H. exact H.
Qed.

(** the tests' tolerance shape: at most two million samples in the prefix *)
Corollary l2_saving_float53_tolerance xs s e :
  (s < e)%nat -> INR e <= 2000000 ->
  Rabs (l2_saving_float53 xs s e - l2_saving_R (prefix xs) s e)
    <= 1 / 1000000000 * l2_saving_scale xs s e.
Proof.
  intros Hlt HeR. pose proof (pos_INR e) as He0.
  assert (Hsmall : INR e * u53 <= 1 / 100) by (rewrite u53_value; lra).
  pose proof (l2_saving_float53_error xs s e Hlt Hsmall) as H. fold (l2_saving_scale xs s e) in H.
  pose proof (l2_saving_scale_nonneg xs s e Hlt) as HS.
  assert (HK : (42 / 10 * INR e + 5) * u53 <= 1 / 1000000000) by (rewrite u53_value; lra).
  assert ((42 / 10 * INR e + 5) * u53 * l2_saving_scale xs s e
          <= 1 / 1000000000 * l2_saving_scale xs s e)
    by (apply Rmult_le_compat_r; assumption).
  lra.
Qed.

(** the rounded saving is non-negative in the model itself (rounding is monotone and rnd53 0 = 0) *)
Lemma rnd53_nonneg x : 0 <= x -> 0 <= rnd53 x.
Proof.
  intros Hx. unfold rnd53.
  rewrite <- (round_0 radix2 (FLX_exp 53) ZnearestE).
  apply round_le; auto with typeclass_instances.
Qed.

Theorem l2_saving_float53_nonneg xs s e : 0 <= l2_saving_float53 xs s e.
Proof.
  rewrite l2_saving_float53_unfold. cbv zeta.
  apply rnd53_nonneg. apply Rmult_le_pos.
  - apply rnd53_nonneg. apply sqr_nonneg.
  - destruct (Nat.eq_dec (e - s) 0) as [H0|H0].
    + rewrite H0. cbn [INR]. rewrite Rinv_0. lra.
    + left. apply Rinv_0_lt_compat. apply lt_0_INR. lia.
Qed.

(* ------------------------------------------------------------------------- *)
(** * 2. The primitive-float program [l2_saving_F] refines the model           *)
(* ------------------------------------------------------------------------- *)

(** [l2_saving_trace_ok l s e] re-runs the computation of [l2_saving_F l s e] and tests every
    intermediate value:
      - s < e <= length l and e - s <= 2^30 (so the length converts exactly);
      - the inputs x_0 .. x_{e-1} are finite and every partial sum up to e is finite;
      - the difference a = S1[e] - S1[s] is finite;
      - p = a * a is finite and (a is zero or |p| > 2^-1022);
      - the result q = p / n is finite and (p is zero or |q| > 2^-1022). *)
Definition l2_saving_trace_ok (l : list pfloat) (s e : nat) : bool :=
  let a := (prefixF l e - prefixF l s)%float in
  let p := (a * a)%float in
  let q := (p / of_natF (e - s))%float in
  (s <? e)%nat && (e <=? length l)%nat && (Z.of_nat (e - s) <=? 2 ^ 30)%Z
  && forallb finF (firstn e l)
  && acc_ok 0%float (firstn e l)
  && finF a && okP a a p && okD p q.

Record l2_saving_trace_spec (l : list pfloat) (s e : nat) : Prop := {
  tsv_lt : (s < e)%nat;
  tsv_len : (e <= length l)%nat;
  tsv_n : (Z.of_nat (e - s) <= 2 ^ 30)%Z;
  tsv_fin : forallb finF (firstn e l) = true;
  tsv_acc : acc_ok 0%float (firstn e l) = true;
  tsv_a : finF (prefixF l e - prefixF l s) = true;
  tsv_p : let a := (prefixF l e - prefixF l s)%float in okP a a (a * a) = true;
  tsv_q : let a := (prefixF l e - prefixF l s)%float in
          okD (a * a) ((a * a) / of_natF (e - s)) = true
}.

Lemma l2_saving_trace_ok_spec l s e :
  l2_saving_trace_ok l s e = true -> l2_saving_trace_spec l s e.
Proof.
  unfold l2_saving_trace_ok. cbv zeta. intros H.
  repeat (apply andb_true_iff in H; let H' := fresh "H" in destruct H as [H H']).
  constructor; cbv zeta; try assumption.
  - apply Nat.ltb_lt. assumption.
  - apply Nat.leb_le. assumption.
  - apply Z.leb_le. assumption.
Qed.

Theorem l2_saving_F_refines l s e :
  l2_saving_trace_ok l s e = true ->
  FR (l2_saving_F l s e) = l2_saving_float53 (map FR l) s e.
Proof.
  intros Hok. apply l2_saving_trace_ok_spec in Hok.
  destruct Hok as [Hlt Hlen Hn Hfin Hacc Ha Hp Hq].
  cbv zeta in Hp, Hq.
  assert (Hse : (s <= e)%nat) by lia.
  destruct (prefixF_refines l e e (le_n e) Hfin Hacc) as [F1e R1e].
  destruct (prefixF_refines l e s Hse Hfin Hacc) as [F1s R1s].
  assert (Hn53 : (Z.of_nat (e - s) < 2 ^ 53)%Z).
  { apply Z.le_lt_trans with (1 := Hn). reflexivity. }
  assert (Hnz : FR (of_natF (e - s)) <> 0).
  { rewrite (FR_of_natF _ Hn53). apply not_0_INR. lia. }
  unfold l2_saving_F. cbv zeta.
  set (a := (prefixF l e - prefixF l s)%float) in *.
  set (p := (a * a)%float) in *.
  assert (Ra : FR a = rnd53 (fprefix53 (map FR l) e - fprefix53 (map FR l) s)).
  { unfold a. rewrite (FR_sub53 _ _ F1e F1s Ha), R1e, R1s. reflexivity. }
  assert (Rp : FR p = rnd53 (FR a * FR a)).
  { unfold p. exact (FR_mul53 a a Hp). }
  rewrite (FR_div53 p _ Hnz Hq), (FR_of_natF _ Hn53), Rp, Ra.
  reflexivity.
Qed.

Lemma l2_saving_trace_ok_bounds l s e :
  l2_saving_trace_ok l s e = true -> (s < e <= length l)%nat.
Proof.
  intros Hok. apply l2_saving_trace_ok_spec in Hok. destruct Hok. lia.
Qed.

(** the result accepted by the checker is a finite binary64 number *)
Lemma l2_saving_trace_ok_finite l s e :
  l2_saving_trace_ok l s e = true -> finF (l2_saving_F l s e) = true.
Proof.
  intros Hok. apply l2_saving_trace_ok_spec in Hok. destruct Hok as [_ _ _ _ _ _ _ Hq].
  cbv zeta in Hq. unfold okD in Hq. apply andb_true_iff in Hq. exact (proj1 Hq).
Qed.

(* ------------------------------------------------------------------------- *)
(** * 3. The computed number against the real-number kernel                    *)
(* ------------------------------------------------------------------------- *)

(** chained: the binary64 value of the twin against [l2_saving_R] on the EXACT prefix sums of the data *)
Theorem l2_saving_F_vs_R l s e :
  l2_saving_trace_ok l s e = true -> INR e * u53 <= 1 / 100 ->
  Rabs (FR (l2_saving_F l s e) - l2_saving_R (prefix (map FR l)) s e)
    <= (42 / 10 * INR e + 5) * u53
       * ((sumR (map Rabs (firstn e (map FR l)))) ^ 2 / INR (e - s)).
Proof.
  intros Hok Hsmall. rewrite (l2_saving_F_refines l s e Hok).
  apply l2_saving_float53_error; [|exact Hsmall].
  exact (proj1 (l2_saving_trace_ok_bounds l s e Hok)).
Qed.

(** the tests' tolerance shape: at most two million samples in the prefix *)
Corollary l2_saving_F_tolerance l s e :
  l2_saving_trace_ok l s e = true -> INR e <= 2000000 ->
  Rabs (FR (l2_saving_F l s e) - l2_saving_R (prefix (map FR l)) s e)
    <= 1 / 1000000000 * l2_saving_scale (map FR l) s e.
Proof.
  intros Hok He. rewrite (l2_saving_F_refines l s e Hok).
  apply l2_saving_float53_tolerance; [|exact He].
  exact (proj1 (l2_saving_trace_ok_bounds l s e Hok)).
Qed.

(** the computed saving is non-negative (the property CAPA relies on, [l2_saving_nonneg] of
    Proofs/ScoreKernels.v, survives the rounding) *)
Corollary l2_saving_F_nonneg l s e :
  l2_saving_trace_ok l s e = true -> 0 <= FR (l2_saving_F l s e).
Proof.
  intros Hok. rewrite (l2_saving_F_refines l s e Hok). apply l2_saving_float53_nonneg.
Qed.

(* ------------------------------------------------------------------------- *)
(** * 4. Non-vacuity                                                           *)
(* ------------------------------------------------------------------------- *)

(** [demo_xs] (Proofs/FloatRefine.v) = 1.5 2.25 -0.75 3 10.125 9.5 11 10.25 *)
Example demo_saving_trace_ok : l2_saving_trace_ok demo_xs 1 7 = true.
Proof. vm_compute. reflexivity. Qed.

Example demo_saving_trace_ok_full : l2_saving_trace_ok demo_xs 0 8 = true.
Proof. vm_compute. reflexivity. Qed.

(** a zero segment sum is accepted (the zero clauses of the product and quotient tests) *)
Example demo_saving_trace_ok_zero : l2_saving_trace_ok [0; 1; -1; 0.5]%float 0 3 = true.
Proof. vm_compute. reflexivity. Qed.

(** rejected: an overflowing accumulation, an overflowing square, an underflowing square, an empty segment *)
Example demo_saving_trace_overflow : l2_saving_trace_ok [0x1p1023; 0x1p1023; 1]%float 0 3 = false.
Proof. vm_compute. reflexivity. Qed.

Example demo_saving_trace_overflow_sq : l2_saving_trace_ok [0x1p600; 1; 2]%float 0 3 = false.
Proof. vm_compute. reflexivity. Qed.

Example demo_saving_trace_underflow : l2_saving_trace_ok [0x1p-600; 0x1p-601; 0x1p-602]%float 0 3 = false.
Proof. vm_compute. reflexivity. Qed.

Example demo_saving_trace_empty : l2_saving_trace_ok demo_xs 3 3 = false.
Proof. vm_compute. reflexivity. Qed.

Example demo_saving_refines :
  FR (l2_saving_F demo_xs 1 7) = l2_saving_float53 (map FR demo_xs) 1 7.
Proof. apply l2_saving_F_refines. exact demo_saving_trace_ok. Qed.

(** the value is the one Python computes: ((S[7] - S[1]) ** 2) / 6 = 205.62760416666666 *)
Example demo_saving_value : l2_saving_F demo_xs 1 7 = 0x1.9b41555555555p+7%float.
Proof. vm_compute. reflexivity. Qed.

(** the chained theorem on the demonstration data: its two premises hold *)
Example demo_saving_vs_R :
  Rabs (FR (l2_saving_F demo_xs 1 7) - l2_saving_R (prefix (map FR demo_xs)) 1 7)
    <= (42 / 10 * INR 7 + 5) * u53
       * ((sumR (map Rabs (firstn 7 (map FR demo_xs)))) ^ 2 / INR (7 - 1)).
Proof.
  apply l2_saving_F_vs_R; [exact demo_saving_trace_ok|].
  rewrite u53_value. cbn [INR]. lra.
Qed.

Print Assumptions l2_saving_float53_error.
Print Assumptions l2_saving_F_refines.
Print Assumptions demo_saving_trace_ok.
Print Assumptions l2_saving_F_vs_R.
