(** Seeded binary segmentation: properties of Model/Sbs.v.
    1. seeded intervals (integer part),
    2. per-interval first-argmax [amoc],
    3. greedy changepoint selection,
    4. the assembled detector [sbs]. *)
From Coq Require Import ZArith List Lia Bool Arith Permutation Sorted.
From SK Require Import Lib.Base Model.Sbs Proofs.ArgmaxLemmas.
Import ListNotations.
Open Scope Z_scope.

(** ====================================================================== *)
(** * 1. Seeded intervals *)
Section Intervals.
Local Open Scope nat_scope.

Lemma ceil_div_bounds : forall a b, 1 <= b ->
  a <= ceil_div a b * b /\ ceil_div a b * b < a + b.
Proof.
  intros a b Hb. unfold ceil_div.
  pose proof (Nat.div_mod (a + b - 1) b ltac:(lia)) as E.
  pose proof (Nat.mod_upper_bound (a + b - 1) b ltac:(lia)) as U.
  nia.
Qed.

Lemma ceil_div_below : forall a b i, 1 <= b -> i < ceil_div a b -> i * b < a.
Proof.
  intros a b i Hb Hi. destruct (ceil_div_bounds a b Hb) as [_ U]. nia.
Qed.

Lemma map_seq_last : forall {A} (f : nat -> A) k,
  map f (seq 0 (S k)) = map f (seq 0 k) ++ [f k].
Proof. intros. rewrite seq_S, map_app. reflexivity. Qed.

(** membership in the intervals of one length: a regular interval [i < n_steps],
    or the last one (possibly fixed up) *)
Lemma iol_in_iff : forall n minlen len step s e,
  In (s, e) (intervals_of_len n minlen len step) <->
  (exists i, i < ceil_div (n - len) step /\ s = i * step /\ e = Nat.min (i * step + len) n) \/
  (s = (if Nat.min (ceil_div (n - len) step * step + len) n - ceil_div (n - len) step * step <? minlen
        then n - minlen else ceil_div (n - len) step * step) /\
   e = Nat.min (ceil_div (n - len) step * step + len) n).
Proof.
  intros n minlen len step s e. unfold intervals_of_len. cbv zeta.
  rewrite map_seq_last. cbv beta. rewrite last_last, removelast_last. cbn [fst snd].
  generalize (ceil_div (n - len) step) as q; intro q.
  destruct (Nat.min (q * step + len) n - q * step <? minlen);
    rewrite in_app_iff, in_map_iff; simpl In; split.
  - intros [(i & E & Hi) | [E | []]].
    + inversion E; subst. apply in_seq in Hi. left. exists i. repeat split; lia.
    + inversion E; subst. right. split; reflexivity.
  - intros [(i & Hi & -> & ->) | [-> ->]].
    + left. exists i. split; [reflexivity| apply in_seq; lia].
    + right. left. reflexivity.
  - intros [(i & E & Hi) | [E | []]].
    + inversion E; subst. apply in_seq in Hi. left. exists i. repeat split; lia.
    + inversion E; subst. right. split; reflexivity.
  - intros [(i & Hi & -> & ->) | [-> ->]].
    + left. exists i. split; [reflexivity| apply in_seq; lia].
    + right. left. reflexivity.
Qed.

Lemma iol_in_range : forall n minlen len step s e,
  1 <= minlen <= n -> minlen <= len <= n -> 1 <= step ->
  In (s, e) (intervals_of_len n minlen len step) ->
  e <= n /\ minlen <= e - s /\ s < e /\ e - s <= len.
Proof.
  intros n minlen len step s e Hml Hlen Hstep H. apply iol_in_iff in H.
  destruct (ceil_div_bounds (n - len) step Hstep) as [L U].
  destruct H as [(i & Hi & -> & ->) | [-> ->]].
  - pose proof (ceil_div_below _ _ _ Hstep Hi) as B. lia.
  - destruct (Nat.min (ceil_div (n - len) step * step + len) n
              - ceil_div (n - len) step * step <? minlen) eqn:E.
    + apply Nat.ltb_lt in E. lia.
    + apply Nat.ltb_ge in E. lia.
Qed.

Lemma iol_last : forall n minlen len step,
  1 <= minlen <= n -> minlen <= len <= n -> 1 <= step ->
  exists s, In (s, n) (intervals_of_len n minlen len step).
Proof.
  intros n minlen len step Hml Hlen Hstep.
  destruct (ceil_div_bounds (n - len) step Hstep) as [L U].
  eexists. apply iol_in_iff. right. split; [reflexivity| lia].
Qed.

Lemma iol_first : forall n minlen len step,
  1 <= minlen <= n -> minlen <= len <= n -> 1 <= step ->
  In (0, len) (intervals_of_len n minlen len step).
Proof.
  intros n minlen len step Hml Hlen Hstep.
  destruct (ceil_div_bounds (n - len) step Hstep) as [L U].
  apply iol_in_iff.
  destruct (ceil_div (n - len) step) as [|q] eqn:Q.
  - right. simpl. replace (Nat.min len n - 0 <? minlen) with false
      by (symmetry; apply Nat.ltb_ge; lia). split; lia.
  - left. exists 0. split; [lia|]. split; simpl; lia.
Qed.

Lemma iol_nonempty : forall n minlen len step, intervals_of_len n minlen len step <> [].
Proof.
  intros n minlen len step. unfold intervals_of_len. cbv zeta.
  rewrite map_seq_last. cbv beta. rewrite last_last, removelast_last.
  destruct (_ <? _); intro H; apply app_eq_nil in H; destruct H; discriminate.
Qed.

Section Seeded.
Variables n minlen : nat.
Variable lens : list (nat * nat).
Hypothesis Hml : 1 <= minlen <= n.
Hypothesis Hlens : forall len step, In (len, step) lens -> minlen <= len <= n /\ 1 <= step.

Theorem seeded_in_range : forall s e,
  In (s, e) (seeded_intervals n minlen lens) ->
  (e <= n /\ minlen <= e - s /\ s < e) /\
  exists len step, In (len, step) lens /\ e - s <= len.
Proof.
  intros s e H. unfold seeded_intervals in H. apply in_flat_map in H.
  destruct H as ([len step] & Hls & Hin). simpl in Hin.
  destruct (Hlens len step Hls) as [Hlen Hstep].
  destruct (iol_in_range _ _ _ _ _ _ Hml Hlen Hstep Hin) as (A & B & C & D).
  split; [lia|]. exists len, step. split; assumption.
Qed.

Theorem seeded_nonempty : lens <> [] -> seeded_intervals n minlen lens <> [].
Proof.
  destruct lens as [|[len step] t]; [contradiction|]. intros _.
  unfold seeded_intervals. simpl. intro H. apply app_eq_nil in H. destruct H as [H _].
  exact (iol_nonempty _ _ _ _ H).
Qed.

Theorem seeded_covers_end : lens <> [] ->
  (exists s, In (s, n) (seeded_intervals n minlen lens)) /\
  (exists e, In (0, e) (seeded_intervals n minlen lens)).
Proof.
  destruct lens as [|[len step] t] eqn:EL; [contradiction|]. intros _.
  destruct (Hlens len step (or_introl eq_refl)) as [Hlen Hstep].
  split.
  - destruct (iol_last n minlen len step Hml Hlen Hstep) as (s & Hs).
    exists s. unfold seeded_intervals. simpl. apply in_app_iff. left. exact Hs.
  - exists len. unfold seeded_intervals. simpl. apply in_app_iff. left.
    apply iol_first; assumption.
Qed.
(** stronger form: EVERY interval length contributes an interval starting at 0
    (of exactly that length) and an interval ending at n (of at most that length) *)
Theorem seeded_covers_end_each : forall len step, In (len, step) lens ->
  In (0, len) (seeded_intervals n minlen lens) /\
  exists s, In (s, n) (seeded_intervals n minlen lens) /\ n - s <= len.
Proof.
  intros len step Hls. destruct (Hlens len step Hls) as [Hlen Hstep].
  unfold seeded_intervals. split.
  - apply in_flat_map. exists (len, step). split; [exact Hls|]. simpl.
    apply iol_first; assumption.
  - destruct (iol_last n minlen len step Hml Hlen Hstep) as (s & Hs).
    exists s. split.
    + apply in_flat_map. exists (len, step). split; [exact Hls | exact Hs].
    + pose proof (iol_in_range _ _ _ _ _ _ Hml Hlen Hstep Hs). lia.
Qed.
End Seeded.
End Intervals.

(** ====================================================================== *)
(** * 2. Per-interval maximisation *)
Section Amoc.
Variable CS : nat -> nat -> nat -> Z.
Variable m : nat.

Theorem amoc_spec : forall s e k v,
  amoc CS m (s, e) = Some (k, v) ->
  (s + m <= k /\ k + m <= e)%nat /\ v = CS s k e /\
  (forall k', (s + m <= k' /\ k' + m <= e)%nat ->
     CS s k' e <= v /\ (CS s k' e = v -> (k <= k')%nat)).
Proof.
  intros s e k v H. unfold amoc in H.
  destruct (argmax (map (fun k => CS s k e) (seq (s + m) (e - m + 1 - (s + m)))))
    as [[i w]|] eqn:A; [|discriminate].
  inversion H; subst k v. apply argmax_spec in A. destruct A as (Hi & Hv & Hle & Hlt).
  rewrite map_length, seq_length in Hi, Hle.
  rewrite nth_map_seq in Hv by assumption.
  split; [lia|]. split; [symmetry; exact Hv|].
  intros k' Hk'.
  assert (Hj : (k' - (s + m) < e - m + 1 - (s + m))%nat) by lia.
  pose proof (Hle _ Hj) as Hle'. rewrite nth_map_seq in Hle' by assumption.
  replace (s + m + (k' - (s + m)))%nat with k' in Hle' by lia.
  split; [exact Hle'|]. intros Heq.
  destruct (le_lt_dec (s + m + i) k') as [L|L]; [exact L|exfalso].
  assert (Hj' : (k' - (s + m) < i)%nat) by lia.
  pose proof (Hlt _ Hj') as Hlt'. rewrite nth_map_seq in Hlt' by lia.
  replace (s + m + (k' - (s + m)))%nat with k' in Hlt' by lia. lia.
Qed.

Theorem amoc_some : forall s e, (s + 2 * m <= e)%nat -> exists kv, amoc CS m (s, e) = Some kv.
Proof.
  intros s e H. unfold amoc.
  destruct (argmax_some (map (fun k => CS s k e) (seq (s + m) (e - m + 1 - (s + m)))))
    as (i & v & A).
  - intro E. apply (f_equal (@length Z)) in E. rewrite map_length, seq_length in E.
    simpl in E. lia.
  - rewrite A. eauto.
Qed.

Theorem amoc_none : forall s e, (e < s + 2 * m)%nat -> amoc CS m (s, e) = None.
Proof.
  intros s e H. unfold amoc.
  replace (e - m + 1 - (s + m))%nat with 0%nat by lia. reflexivity.
Qed.

Lemma amocs_inv : forall ivs am, amocs CS m ivs = Some am ->
  length am = length ivs /\
  forall i, (i < length ivs)%nat ->
    amoc CS m (nth i ivs (0, 0)%nat) = Some (nth i am (0%nat, 0)).
Proof.
  induction ivs as [|se t IH]; intros am H; simpl in H.
  - inversion H. split; [reflexivity|]. intros i Hi; simpl in Hi; lia.
  - destruct (amoc CS m se) as [x|] eqn:A; [|discriminate].
    destruct (amocs CS m t) as [r|] eqn:R; [|discriminate].
    inversion H; subst am. destruct (IH r eq_refl) as [Hl Hn].
    split; [simpl; lia|]. intros [|i] Hi; simpl in *; [exact A| apply Hn; lia].
Qed.

Theorem amocs_some : forall ivs,
  (forall s e, In (s, e) ivs -> (s + 2 * m <= e)%nat) ->
  exists am, amocs CS m ivs = Some am /\ length am = length ivs /\
    forall i, (i < length ivs)%nat ->
      amoc CS m (nth i ivs (0, 0)%nat) = Some (nth i am (0%nat, 0)).
Proof.
  intros ivs H.
  assert (E : exists am, amocs CS m ivs = Some am).
  { induction ivs as [|[s e] t IH]; cbn [amocs]; [eauto|].
    destruct (amoc_some s e) as (kv & ->); [apply H; left; reflexivity|].
    destruct IH as (r & ->); [intros s' e' Hin; apply H; right; exact Hin|]. eauto. }
  destruct E as (am & E). exists am. split; [exact E|]. apply amocs_inv. exact E.
Qed.
End Amoc.

(** ====================================================================== *)
(** * 3. Greedy changepoint selection *)

(** [greedy_cpts] is the generic index-level loop [ggreedy] with the kill relation
    "interval j contains the maximiser of interval i", mapped through [maxs]. *)
Definition Ksbs (ivs : list (nat * nat)) (maxs : list nat) (i j : nat) : bool :=
  contains (nth j ivs (0, 0)%nat) (nthN maxs i).

Lemma greedy_cpts_gen : forall thr ivs maxs fuel scores,
  length ivs = length scores ->
  greedy_cpts fuel thr ivs maxs scores =
  option_map (map (nthN maxs)) (ggreedy fuel thr (Ksbs ivs maxs) scores).
Proof.
  intros thr ivs maxs. induction fuel as [|f IH]; intros scores Hlen; simpl;
    destruct (existsb (fun v => thr <? v) scores); simpl; try reflexivity.
  destruct (argmax scores) as [[i v]|]; [|reflexivity].
  assert (E : map (fun sv : nat * nat * Z =>
                     if contains (fst sv) (nthN maxs i) then 0 else snd sv)
                  (combine ivs scores) = kill_scores (Ksbs ivs maxs) i scores).
  { rewrite (map_combine_seq _ ivs scores (0, 0)%nat 0 Hlen). reflexivity. }
  rewrite E. rewrite IH by (rewrite kill_length; exact Hlen).
  destruct (ggreedy f thr (Ksbs ivs maxs) (kill_scores (Ksbs ivs maxs) i scores)); reflexivity.
Qed.

(** standing assumptions of the selection loop: three parallel lists of length [N],
    a non-negative threshold, and every interval contains its own maximiser *)
Definition greedy_pre (thr : Z) (ivs : list (nat * nat)) (maxs : list nat)
           (scores : list Z) (N : nat) : Prop :=
  length ivs = N /\ length maxs = N /\ length scores = N /\ 0 <= thr /\
  (forall i, (i < N)%nat -> contains (nth i ivs (0, 0)%nat) (nthN maxs i) = true).

Lemma greedy_cpts_idx : forall thr ivs maxs scores fuel picks,
  length ivs = length scores ->
  greedy_cpts fuel thr ivs maxs scores = Some picks ->
  exists idx, ggreedy fuel thr (Ksbs ivs maxs) scores = Some idx /\
              picks = map (nthN maxs) idx.
Proof.
  intros thr ivs maxs scores fuel picks Hlen H. rewrite greedy_cpts_gen in H by exact Hlen.
  destruct (ggreedy fuel thr (Ksbs ivs maxs) scores) as [idx|]; simpl in H; inversion H.
  exists idx. split; reflexivity.
Qed.

Lemma greedy_pre_self_kill : forall thr ivs maxs scores N,
  greedy_pre thr ivs maxs scores N -> self_kill thr (Ksbs ivs maxs) scores.
Proof.
  intros thr ivs maxs scores N (Hi & Hm & Hs & Ht & Hin) i Hlt _. unfold Ksbs.
  apply Hin. lia.
Qed.

Theorem greedy_terminates : forall thr ivs maxs scores N fuel,
  greedy_pre thr ivs maxs scores N -> (N <= fuel)%nat ->
  exists picks, greedy_cpts fuel thr ivs maxs scores = Some picks /\
                (length picks <= N)%nat.
Proof.
  intros thr ivs maxs scores N fuel Hpre HN.
  pose proof (greedy_pre_self_kill _ _ _ _ _ Hpre) as Hsk.
  destruct Hpre as (Hi & Hm & Hs & Ht & Hin).
  pose proof (cnt_le_length thr scores) as Hc.
  destruct (ggreedy_terminates thr (Ksbs ivs maxs) Ht fuel scores Hsk) as (p & Hp & Hl);
    [lia|].
  exists (map (nthN maxs) p). rewrite greedy_cpts_gen by lia. rewrite Hp. simpl.
  split; [reflexivity| rewrite map_length; lia].
Qed.

(** every pick is the maximiser of an interval whose ORIGINAL score exceeds the threshold *)
Theorem greedy_supported : forall thr ivs maxs scores N fuel picks,
  greedy_pre thr ivs maxs scores N ->
  greedy_cpts fuel thr ivs maxs scores = Some picks ->
  forall c, In c picks ->
  exists i, (i < N)%nat /\ nthN maxs i = c /\ thr < nthZ scores i.
Proof.
  intros thr ivs maxs scores N fuel picks (Hi & Hm & Hs & Ht & Hin) H c Hc.
  assert (Hlen : length ivs = length scores) by lia.
  destruct (greedy_cpts_idx _ _ _ _ _ _ Hlen H) as (idx & Hg & ->).
  apply in_map_iff in Hc. destruct Hc as (i & Hci & Hidx).
  destruct (ggreedy_supported thr _ Ht _ _ _ Hg i Hidx) as [Hl Hlt].
  exists i. split; [lia|]. split; assumption.
Qed.

(** no above-threshold interval is left without a changepoint inside it *)
Theorem greedy_complete : forall thr ivs maxs scores N fuel picks,
  greedy_pre thr ivs maxs scores N ->
  greedy_cpts fuel thr ivs maxs scores = Some picks ->
  forall i, (i < N)%nat -> thr < nthZ scores i ->
  exists c, In c picks /\ contains (nth i ivs (0, 0)%nat) c = true.
Proof.
  intros thr ivs maxs scores N fuel picks (Hi & Hm & Hs & Ht & Hin) H i HiN Hlt.
  assert (Hlen : length ivs = length scores) by lia.
  destruct (greedy_cpts_idx _ _ _ _ _ _ Hlen H) as (idx & Hg & ->).
  destruct (ggreedy_complete thr _ Ht _ _ _ Hg i ltac:(lia) Hlt) as (i0 & Hin0 & HK).
  exists (nthN maxs i0). split; [apply in_map; exact Hin0 | exact HK].
Qed.

(** the pick sequence is threshold-independent; the higher threshold stops earlier *)
Theorem greedy_threshold_mono : forall thr thr' ivs maxs scores fuel fuel' picks picks',
  length ivs = length scores -> thr <= thr' ->
  greedy_cpts fuel thr ivs maxs scores = Some picks ->
  greedy_cpts fuel' thr' ivs maxs scores = Some picks' ->
  exists rest, picks = picks' ++ rest.
Proof.
  intros thr thr' ivs maxs scores fuel fuel' picks picks' Hlen Hle H H'.
  destruct (greedy_cpts_idx _ _ _ _ _ _ Hlen H) as (idx & Hg & ->).
  destruct (greedy_cpts_idx _ _ _ _ _ _ Hlen H') as (idx' & Hg' & ->).
  destruct (ggreedy_threshold_mono thr thr' _ Hle _ _ _ _ _ Hg Hg') as (rest & ->).
  exists (map (nthN maxs) rest). apply map_app.
Qed.

Corollary greedy_threshold_incl : forall thr thr' ivs maxs scores fuel fuel' picks picks',
  length ivs = length scores -> thr <= thr' ->
  greedy_cpts fuel thr ivs maxs scores = Some picks ->
  greedy_cpts fuel' thr' ivs maxs scores = Some picks' ->
  incl picks' picks.
Proof.
  intros thr thr' ivs maxs scores fuel fuel' picks picks' Hlen Hle H H'.
  destruct (greedy_threshold_mono _ _ _ _ _ _ _ _ _ Hlen Hle H H') as (rest & ->).
  apply incl_appl, incl_refl.
Qed.

(** separation: distinct and at distance >= m *)
Definition sep (m c c' : nat) : Prop := c <> c' /\ (c + m <= c' \/ c' + m <= c)%nat.

Definition maxs_inside (m : nat) (ivs : list (nat * nat)) (maxs : list nat) (N : nat) : Prop :=
  forall i, (i < N)%nat ->
    (fst (nth i ivs (0, 0)%nat) + m <= nthN maxs i /\
     nthN maxs i + m <= snd (nth i ivs (0, 0)%nat))%nat.

Lemma greedy_sep_fop : forall m thr ivs maxs scores N fuel picks,
  greedy_pre thr ivs maxs scores N -> maxs_inside m ivs maxs N ->
  greedy_cpts fuel thr ivs maxs scores = Some picks ->
  ForallOrdPairs (sep m) picks.
Proof.
  intros m thr ivs maxs scores N fuel picks (Hi & Hm & Hs & Ht & Hin) Hins H.
  assert (Hlen : length ivs = length scores) by lia.
  destruct (greedy_cpts_idx _ _ _ _ _ _ Hlen H) as (idx & Hg & ->).
  apply FOP_map.
  apply FOP_impl_Forall with (R := fun i j => Ksbs ivs maxs i j = false)
                             (P := fun i => (i < N)%nat).
  - eapply ggreedy_fop; eassumption.
  - rewrite Forall_forall. intros i Hidx.
    destruct (ggreedy_supported thr _ Ht _ _ _ Hg i Hidx) as [Hl _]. lia.
  - intros i j HiN HjN HK. unfold Ksbs in HK.
    specialize (Hin j HjN). specialize (Hins j HjN).
    unfold contains in *. destruct (nth j ivs (0, 0)%nat) as [s e]. simpl in *.
    apply andb_true_iff in Hin. destruct Hin as [A B].
    apply Nat.leb_le in A. apply Nat.ltb_lt in B.
    apply andb_false_iff in HK. unfold sep.
    destruct HK as [C | C]; [apply Nat.leb_gt in C | apply Nat.ltb_ge in C]; lia.
Qed.

Theorem greedy_separated : forall m thr ivs maxs scores N fuel picks,
  greedy_pre thr ivs maxs scores N -> maxs_inside m ivs maxs N ->
  greedy_cpts fuel thr ivs maxs scores = Some picks ->
  NoDup picks /\
  (forall a b, (a < length picks)%nat -> (b < length picks)%nat -> a <> b ->
     (nthN picks a + m <= nthN picks b \/ nthN picks b + m <= nthN picks a)%nat) /\
  (forall c c', In c picks -> In c' picks -> c <> c' ->
     (c + m <= c' \/ c' + m <= c)%nat).
Proof.
  intros m thr ivs maxs scores N fuel picks Hpre Hins H.
  pose proof (greedy_sep_fop _ _ _ _ _ _ _ _ Hpre Hins H) as F.
  destruct (FOP_sym_In (sep m) picks F) as [ND Hall].
  - intros x y [A B]. split; [congruence | lia].
  - intros x _ [A _]. congruence.
  - split; [exact ND|]. split.
    + intros a b Ha Hb Hab. unfold nthN.
      destruct (Nat.lt_trichotomy a b) as [L | [E | L]]; [| contradiction |].
      * destruct (FOP_nth (sep m) picks 0%nat F a b ltac:(lia)) as [_ S]. exact S.
      * destruct (FOP_nth (sep m) picks 0%nat F b a ltac:(lia)) as [_ S]. lia.
    + intros c c' Hc Hc' Hne. destruct (Hall c c' Hc Hc' Hne) as [_ S]. exact S.
Qed.

(** ====================================================================== *)
(** * 4. The assembled detector *)
Lemma insert_nat_ins : forall x l, insert_nat x l = ins Nat.leb x l.
Proof.
  intros x. induction l as [|y t IH]; simpl; [reflexivity|]. rewrite IH. reflexivity.
Qed.

Lemma sort_nat_isort : forall l, sort_nat l = isort Nat.leb l.
Proof.
  unfold sort_nat, isort. induction l as [|x t IH]; simpl; [reflexivity|].
  rewrite IH, insert_nat_ins. reflexivity.
Qed.

Lemma sort_nat_perm : forall l, Permutation (sort_nat l) l.
Proof. intros l. rewrite sort_nat_isort. apply isort_perm. Qed.

Lemma sort_nat_sorted : forall l i, (S i < length (sort_nat l))%nat ->
  (nthN (sort_nat l) i <= nthN (sort_nat l) (S i))%nat.
Proof.
  intros l i Hi. rewrite sort_nat_isort in *.
  pose proof (Sorted_nth _ _ 0%nat (isort_sorted Nat.leb l) i Hi) as [H | H].
  - apply Nat.leb_le in H. exact H.
  - apply Nat.leb_gt in H. unfold nthN. lia.
Qed.

(** what the per-interval maximisers satisfy, given well-shaped candidate intervals *)
Lemma amocs_facts : forall CS m n thr ivs am,
  0 <= thr -> (1 <= m)%nat ->
  (forall s e, In (s, e) ivs -> (s + 2 * m <= e /\ e <= n)%nat) ->
  amocs CS m ivs = Some am ->
  greedy_pre thr ivs (map fst am) (map snd am) (length ivs) /\
  maxs_inside m ivs (map fst am) (length ivs) /\
  (forall i, (i < length ivs)%nat -> (snd (nth i ivs (0, 0)%nat) <= n)%nat).
Proof.
  intros CS m n thr ivs am Hthr Hm Hivs A.
  destruct (amocs_inv _ _ _ _ A) as [Hl Hn].
  assert (Hins : forall i, (i < length ivs)%nat ->
            (fst (nth i ivs (0, 0)%nat) + m <= nthN (map fst am) i /\
             nthN (map fst am) i + m <= snd (nth i ivs (0, 0)%nat) /\
             snd (nth i ivs (0, 0)%nat) <= n)%nat).
  { intros i Hi. specialize (Hn i Hi). unfold nthN.
    rewrite (nth_map_lt fst am i (0%nat, 0) 0%nat) by lia.
    assert (Hin : In (nth i ivs (0, 0)%nat) ivs) by (apply nth_In; exact Hi).
    destruct (nth i ivs (0, 0)%nat) as [s e]. destruct (nth i am (0%nat, 0)) as [k v].
    apply amoc_spec in Hn. apply Hivs in Hin. simpl. lia. }
  split; [|split].
  - unfold greedy_pre. rewrite !map_length.
    split; [reflexivity|]. split; [exact Hl|]. split; [exact Hl|]. split; [exact Hthr|].
    intros i Hi. destruct (Hins i Hi) as (A1 & A2 & A3). unfold contains.
    apply andb_true_iff. split; [apply Nat.leb_le | apply Nat.ltb_lt]; lia.
  - intros i Hi. destruct (Hins i Hi) as (A1 & A2 & A3). split; assumption.
  - intros i Hi. destruct (Hins i Hi) as (A1 & A2 & A3). exact A3.
Qed.

Theorem sbs_wellformed : forall CS m thr n ivs cpts am,
  0 <= thr -> (1 <= m)%nat ->
  (forall s e, In (s, e) ivs -> (s + 2 * m <= e /\ e <= n)%nat) ->
  sbs CS m thr ivs = Some (cpts, am) ->
  (forall i, (S i < length cpts)%nat ->
     (nthN cpts i < nthN cpts (S i) /\ nthN cpts i + m <= nthN cpts (S i))%nat) /\
  (forall c, In c cpts -> (m <= c /\ c + m <= n)%nat) /\
  exists picks, amocs CS m ivs = Some am /\
    greedy_cpts (length ivs) thr ivs (map fst am) (map snd am) = Some picks /\
    cpts = sort_nat picks /\ Permutation cpts picks.
Proof.
  intros CS m thr n ivs cpts am Hthr Hm Hivs H. unfold sbs in H.
  destruct (amocs CS m ivs) as [am'|] eqn:A; [|discriminate].
  destruct (greedy_cpts (length ivs) thr ivs (map fst am') (map snd am')) as [picks|] eqn:G;
    [|discriminate].
  inversion H; subst cpts am'. clear H.
  destruct (amocs_facts CS m n thr ivs am Hthr Hm Hivs A) as (Hpre & Hins & Hn).
  destruct (greedy_separated m _ _ _ _ _ _ _ Hpre Hins G) as (ND & _ & Hsep).
  pose proof (sort_nat_perm picks) as P.
  split; [|split].
  - intros i Hi. pose proof (sort_nat_sorted picks i Hi) as Hle.
    assert (Hne : nthN (sort_nat picks) i <> nthN (sort_nat picks) (S i)).
    { intro E. assert (ND' : NoDup (sort_nat picks))
        by (eapply Permutation_NoDup; [apply Permutation_sym; exact P | exact ND]).
      rewrite (NoDup_nth _ 0%nat) in ND'. specialize (ND' i (S i) ltac:(lia) Hi E). lia. }
    assert (I1 : In (nthN (sort_nat picks) i) picks)
      by (eapply Permutation_in; [exact P | apply nth_In; lia]).
    assert (I2 : In (nthN (sort_nat picks) (S i)) picks)
      by (eapply Permutation_in; [exact P | apply nth_In; lia]).
    specialize (Hsep _ _ I1 I2 Hne). lia.
  - intros c Hc. assert (Hc' : In c picks) by (eapply Permutation_in; [exact P | exact Hc]).
    destruct (greedy_supported _ _ _ _ _ _ _ Hpre G c Hc') as (i & Hi & <- & _).
    destruct (Hins i Hi) as [A1 A2]. specialize (Hn i Hi). lia.
  - exists picks. split; [reflexivity|]. split; [exact G|]. split; [reflexivity | exact P].
Qed.

Theorem sbs_total : forall CS m thr n ivs,
  0 <= thr -> (1 <= m)%nat ->
  (forall s e, In (s, e) ivs -> (s + 2 * m <= e /\ e <= n)%nat) ->
  exists r, sbs CS m thr ivs = Some r.
Proof.
  intros CS m thr n ivs Hthr Hm Hivs.
  destruct (amocs_some CS m ivs) as (am & A & _);
    [intros s e Hin; apply Hivs in Hin; lia|].
  destruct (amocs_facts CS m n thr ivs am Hthr Hm Hivs A) as (Hpre & _ & _).
  destruct (greedy_terminates _ _ _ _ _ (length ivs) Hpre (le_n _)) as (picks & G & _).
  unfold sbs. rewrite A, G. eauto.
Qed.

Lemma amoc_ext : forall CS1 CS2 m se,
  (forall s k e, CS1 s k e = CS2 s k e) -> amoc CS1 m se = amoc CS2 m se.
Proof.
  intros CS1 CS2 m [s e] H. unfold amoc.
  rewrite (map_ext (fun k => CS1 s k e) (fun k => CS2 s k e)) by (intros; apply H).
  reflexivity.
Qed.

Lemma amocs_ext : forall CS1 CS2 m ivs,
  (forall s k e, CS1 s k e = CS2 s k e) -> amocs CS1 m ivs = amocs CS2 m ivs.
Proof.
  intros CS1 CS2 m ivs H. induction ivs as [|se t IH]; cbn [amocs]; [reflexivity|].
  rewrite (amoc_ext CS1 CS2 m se H), IH. reflexivity.
Qed.

Theorem sbs_ext : forall CS1 CS2 m thr ivs,
  (forall s k e, CS1 s k e = CS2 s k e) -> sbs CS1 m thr ivs = sbs CS2 m thr ivs.
Proof.
  intros CS1 CS2 m thr ivs H. unfold sbs. rewrite (amocs_ext CS1 CS2 m ivs H). reflexivity.
Qed.

Print Assumptions seeded_in_range.
Print Assumptions seeded_nonempty.
Print Assumptions seeded_covers_end.
Print Assumptions seeded_covers_end_each.
Print Assumptions amoc_spec.
Print Assumptions amoc_some.
Print Assumptions amoc_none.
Print Assumptions amocs_some.
Print Assumptions greedy_terminates.
Print Assumptions greedy_supported.
Print Assumptions greedy_complete.
Print Assumptions greedy_threshold_mono.
Print Assumptions greedy_threshold_incl.
Print Assumptions greedy_separated.
Print Assumptions sbs_wellformed.
Print Assumptions sbs_total.
Print Assumptions sbs_ext.
