(** Seeded binary segmentation: properties of Model/Sbs.v.
    1. seeded intervals (integer part),
    2. per-interval first-argmax [amoc],
    3. greedy changepoint selection,
    4. the assembled detector [sbs]. *)
From Coq Require Import ZArith List Lia Bool Arith Permutation Sorted.
From SK Require Import Lib.Base Model.Sbs Proofs.ArgmaxLemmas.
Import ListNotations.
Open Scope Z_scope.

(** ====================================================================== *)
(** * 1. Seeded intervals *)
Section Intervals.
Local Open Scope nat_scope.

Lemma ceil_div_bounds : forall a b, 1 <= b ->
  a <= ceil_div a b * b /\ ceil_div a b * b < a + b.
Proof.
  intros a b Hb. unfold ceil_div.
  pose proof (Nat.div_mod (a + b - 1) b ltac:(lia)) as E.
  pose proof (Nat.mod_upper_bound (a + b - 1) b ltac:(lia)) as U.
  nia.
Qed.

Lemma ceil_div_below : forall a b i, 1 <= b -> i < ceil_div a b -> i * b < a.
Proof.
  intros a b i Hb Hi. destruct (ceil_div_bounds a b Hb) as [_ U]. nia.
Qed.

Lemma map_seq_last : forall {A} (f : nat -> A) k,
  map f (seq 0 (S k)) = map f (seq 0 k) ++ [f k].
Proof. intros. rewrite seq_S, map_app. reflexivity. Qed.

(** membership in the intervals of one length: a regular interval [i < n_steps],
    or the last one (possibly fixed up) *)
Lemma iol_in_iff : forall n minlen len step s e,
  In (s, e) (intervals_of_len n minlen len step) <->
  (exists i, i < ceil_div (n - len) step /\ s = i * step /\ e = Nat.min (i * step + len) n) \/
  (s = (if Nat.min (ceil_div (n - len) step * step + len) n - ceil_div (n - len) step * step <? minlen
        then n - minlen else ceil_div (n - len) step * step) /\
   e = Nat.min (ceil_div (n - len) step * step + len) n).
Proof.
  intros n minlen len step s e. unfold intervals_of_len. cbv zeta.
  rewrite map_seq_last. cbv beta. rewrite last_last, removelast_last. cbn [fst snd].
  generalize (ceil_div (n - len) step) as q; intro q.
  destruct (Nat.min (q * step + len) n - q * step <? minlen);
    rewrite in_app_iff, in_map_iff; simpl In; split.
  - intros [(i & E & Hi) | [E | []]].
    + inversion E; subst. apply in_seq in Hi. left. exists i. repeat split; lia.
    + inversion E; subst. right. split; reflexivity.
  - intros [(i & Hi & -> & ->) | [-> ->]].
    + left. exists i. split; [reflexivity| apply in_seq; lia].
    + right. left. reflexivity.
  - intros [(i & E & Hi) | [E | []]].
    + inversion E; subst. apply in_seq in Hi. left. exists i. repeat split; lia.
    + inversion E; subst. right. split; reflexivity.
  - intros [(i & Hi & -> & ->) | [-> ->]].
    + left. exists i. split; [reflexivity| apply in_seq; lia].
    + right. left. reflexivity.
Qed.

Lemma iol_in_range : forall n minlen len step s e,
  1 <= minlen <= n -> minlen <= len <= n -> 1 <= step ->
  In (s, e) (intervals_of_len n minlen len step) ->
  e <= n /\ minlen <= e - s /\ s < e /\ e - s <= len.
Proof.
  intros n minlen len step s e Hml Hlen Hstep H. apply iol_in_iff in H.
  destruct (ceil_div_bounds (n - len) step Hstep) as [L U].
  destruct H as [(i & Hi & -> & ->) | [-> ->]].
  - pose proof (ceil_div_below _ _ _ Hstep Hi) as B. lia.
  - destruct (Nat.min (ceil_div (n - len) step * step + len) n
              - ceil_div (n - len) step * step <? minlen) eqn:E.
    + apply Nat.ltb_lt in E. lia.
    + apply Nat.ltb_ge in E. lia.
Qed.

Lemma iol_last : forall n minlen len step,
  1 <= minlen <= n -> minlen <= len <= n -> 1 <= step ->
  exists s, In (s, n) (intervals_of_len n minlen len step).
Proof.
  intros n minlen len step Hml Hlen Hstep.
  destruct (ceil_div_bounds (n - len) step Hstep) as [L U].
  eexists. apply iol_in_iff. right. split; [reflexivity| lia].
Qed.

Lemma iol_first : forall n minlen len step,
  1 <= minlen <= n -> minlen <= len <= n -> 1 <= step ->
  In (0, len) (intervals_of_len n minlen len step).
Proof.
  intros n minlen len step Hml Hlen Hstep.
  destruct (ceil_div_bounds (n - len) step Hstep) as [L U].
  apply iol_in_iff.
  destruct (ceil_div (n - len) step) as [|q] eqn:Q.
  - right. simpl. replace (Nat.min len n - 0 <? minlen) with false
      by (symmetry; apply Nat.ltb_ge; lia). split; lia.
  - left. exists 0. split; [lia|]. split; simpl; lia.
Qed.

Lemma iol_nonempty : forall n minlen len step, intervals_of_len n minlen len step <> [].
Proof.
  intros n minlen len step. unfold intervals_of_len. cbv zeta.
  rewrite map_seq_last. cbv beta. rewrite last_last, removelast_last.
  destruct (_ <? _); intro H; apply app_eq_nil in H; destruct H; discriminate.
Qed.

Section Seeded.
Variables n minlen : nat.
Variable lens : list (nat * nat).
Hypothesis Hml : 1 <= minlen <= n.
Hypothesis Hlens : forall len step, In (len, step) lens -> minlen <= len <= n /\ 1 <= step.

Theorem seeded_in_range : forall s e,
  In (s, e) (seeded_intervals n minlen lens) ->
  (e <= n /\ minlen <= e - s /\ s < e) /\
  exists len step, In (len, step) lens /\ e - s <= len.
Proof.
  intros s e H. unfold seeded_intervals in H. apply in_flat_map in H.
  destruct H as ([len step] & Hls & Hin). simpl in Hin.
  destruct (Hlens len step Hls) as [Hlen Hstep].
  destruct (iol_in_range _ _ _ _ _ _ Hml Hlen Hstep Hin) as (A & B & C & D).
  split; [lia|]. exists len, step. split; assumption.
Qed.

Theorem seeded_nonempty : lens <> [] -> seeded_intervals n minlen lens <> [].
Proof.
  destruct lens as [|[len step] t]; [contradiction|]. intros _.
  unfold seeded_intervals. simpl. intro H. apply app_eq_nil in H. destruct H as [H _].
  exact (iol_nonempty _ _ _ _ H).
Qed.

Theorem seeded_covers_end : lens <> [] ->
  (exists s, In (s, n) (seeded_intervals n minlen lens)) /\
  (exists e, In (0, e) (seeded_intervals n minlen lens)).
Proof.
  destruct lens as [|[len step] t] eqn:EL; [contradiction|]. intros _.
  destruct (Hlens len step (or_introl eq_refl)) as [Hlen Hstep].
  split.
  - destruct (iol_last n minlen len step Hml Hlen Hstep) as (s & Hs).
    exists s. unfold seeded_intervals. simpl. apply in_app_iff. left. exact Hs.
  - exists len. unfold seeded_intervals. simpl. apply in_app_iff. left.
    apply iol_first; assumption.
Qed.
End Seeded.
End Intervals.

(** ====================================================================== *)
(** * 2. Per-interval maximisation *)
Section Amoc.
Variable CS : nat -> nat -> nat -> Z.
Variable m : nat.

Theorem amoc_spec : forall s e k v,
  amoc CS m (s, e) = Some (k, v) ->
  (s + m <= k /\ k + m <= e)%nat /\ v = CS s k e /\
  (forall k', (s + m <= k' /\ k' + m <= e)%nat ->
     CS s k' e <= v /\ (CS s k' e = v -> (k <= k')%nat)).
Proof.
  intros s e k v H. unfold amoc in H.
  destruct (argmax (map (fun k => CS s k e) (seq (s + m) (e - m + 1 - (s + m)))))
    as [[i w]|] eqn:A; [|discriminate].
  inversion H; subst k v. apply argmax_spec in A. destruct A as (Hi & Hv & Hle & Hlt).
  rewrite map_length, seq_length in Hi, Hle.
  rewrite nth_map_seq in Hv by assumption.
  split; [lia|]. split; [symmetry; exact Hv|].
  intros k' Hk'.
  assert (Hj : (k' - (s + m) < e - m + 1 - (s + m))%nat) by lia.
  pose proof (Hle _ Hj) as Hle'. rewrite nth_map_seq in Hle' by assumption.
  replace (s + m + (k' - (s + m)))%nat with k' in Hle' by lia.
  split; [exact Hle'|]. intros Heq.
  destruct (le_lt_dec (s + m + i) k') as [L|L]; [exact L|exfalso].
  assert (Hj' : (k' - (s + m) < i)%nat) by lia.
  pose proof (Hlt _ Hj') as Hlt'. rewrite nth_map_seq in Hlt' by lia.
  replace (s + m + (k' - (s + m)))%nat with k' in Hlt' by lia. lia.
Qed.

Theorem amoc_some : forall s e, (s + 2 * m <= e)%nat -> exists kv, amoc CS m (s, e) = Some kv.
Proof.
  intros s e H. unfold amoc.
  destruct (argmax_some (map (fun k => CS s k e) (seq (s + m) (e - m + 1 - (s + m)))))
    as (i & v & A).
  - intro E. apply (f_equal (@length Z)) in E. rewrite map_length, seq_length in E.
    simpl in E. lia.
  - rewrite A. eauto.
Qed.

Theorem amoc_none : forall s e, (e < s + 2 * m)%nat -> amoc CS m (s, e) = None.
Proof.
  intros s e H. unfold amoc.
  replace (e - m + 1 - (s + m))%nat with 0%nat by lia. reflexivity.
Qed.

Lemma amocs_inv : forall ivs am, amocs CS m ivs = Some am ->
  length am = length ivs /\
  forall i, (i < length ivs)%nat ->
    amoc CS m (nth i ivs (0, 0)%nat) = Some (nth i am (0%nat, 0)).
Proof.
  induction ivs as [|se t IH]; intros am H; simpl in H.
  - inversion H. split; [reflexivity|]. intros i Hi; simpl in Hi; lia.
  - destruct (amoc CS m se) as [x|] eqn:A; [|discriminate].
    destruct (amocs CS m t) as [r|] eqn:R; [|discriminate].
    inversion H; subst am. destruct (IH r eq_refl) as [Hl Hn].
    split; [simpl; lia|]. intros [|i] Hi; simpl in *; [exact A| apply Hn; lia].
Qed.

Theorem amocs_some : forall ivs,
  (forall s e, In (s, e) ivs -> (s + 2 * m <= e)%nat) ->
  exists am, amocs CS m ivs = Some am /\ length am = length ivs /\
    forall i, (i < length ivs)%nat ->
      amoc CS m (nth i ivs (0, 0)%nat) = Some (nth i am (0%nat, 0)).
Proof.
  intros ivs H.
  assert (E : exists am, amocs CS m ivs = Some am).
  { induction ivs as [|[s e] t IH]; cbn [amocs]; [eauto|].
    destruct (amoc_some s e) as (kv & ->); [apply H; left; reflexivity|].
    destruct IH as (r & ->); [intros s' e' Hin; apply H; right; exact Hin|]. eauto. }
  destruct E as (am & E). exists am. split; [exact E|]. apply amocs_inv. exact E.
Qed.
End Amoc.
