(** End-to-end binary64 theorems: the moving window and seeded binary segmentation, run FROM THE DATA with
    the CUSUM score on one column.

    The harness runs   gmw_any F64 (cusum_F xs) b n thr mdi   and   gsbs_any F64 (cusum_F xs) m thr ivs
    on the float data [xs] and they reproduce MovingWindow / SeededBinarySegmentation bit for bit.  Here the
    three layers are composed:

      kernel   [cusum_F_vs_score_R] (Proofs/FloatKernels2.v): under the boolean premise [cusum_trace_ok] the computed
               score is within [cusum_E] of the TRUE statistic  cusum_score_R (prefix (map FR xs));
      order    [ltb_FR] (Proofs/PeltFloat.v): the comparison of finite floats is the comparison of their real values;
      search   the specification theorems of the greedy searches for non-NaN floats (Proofs/GenericSpec.v,
               Proofs/AnyThreshold.v).

    No hypothesis on the sign of the threshold is needed: the any-threshold models (the code as it is) are used directly,
    the moving window through its own definition (runs over the admissible positions) and seeded binary segmentation
    through [gsbs_any_supported] / [gsbs_any_no_interval_left].  The threshold only has to be a finite float. *)
From Coq Require Import Reals Lra Lia List Arith ZArith Bool Floats Psatz Sorted.
From Flocq Require Import Core BinarySingleNaN.
From Flocq Require IEEE754.PrimFloat.
From SK Require Import Gen.KernelsR Proofs.RealLib Proofs.CostKernels Proofs.ScoreKernels Proofs.FloatError
  Check.FloatKernelCheck Check.FloatKernelCheck2 Proofs.FloatRefine Proofs.FloatKernels2 Proofs.PeltFloat Proofs.PeltFloatL2.
(* the list vocabulary of the detectors ([slice] on any list) is imported last: it shadows the real-number one *)
From SK Require Import Lib.Base Model.Mw Model.Sbs Model.Capa Model.Cbs Model.PeltR Model.Generic Model.GenericF Model.GenericAny.
From SK Require Import Proofs.ArgmaxLemmas Proofs.MwProofs Proofs.GenericRank Proofs.GenericOrder Proofs.GenericSpec Proofs.GenericInstances
  Proofs.AnyThreshold Proofs.AnyThresholdF.
Import ListNotations.

Local Open Scope R_scope.

(* ------------------------------------------------------------------------- *)
(** * 0. The error bound, finiteness, comparisons                              *)
(* ------------------------------------------------------------------------- *)

(** the bound of [cusum_F_vs_score_R]:  (2.04 e + 6) 2^-53 (bw + aw) (|x_0| + ... + |x_{e-1}|)  *)
Definition cusum_E (l : list float) (s k e : nat) : R :=
  (204 / 100 * INR e + 6) * u53
  * (cusum_bw s k e * sumR (map Rabs (firstn e (map FR l)))
     + cusum_aw s k e * sumR (map Rabs (firstn e (map FR l)))).

Lemma cusum_E_nonneg l s k e : 0 <= cusum_E l s k e.
Proof.
  unfold cusum_E.
  pose proof (sumR_abs_nonneg (firstn e (map FR l))) as HM.
  pose proof (pos_INR e) as He. pose proof u53_nonneg as Hu.
  apply Rmult_le_pos; [apply Rmult_le_pos; lra|].
  apply Rplus_le_le_0_compat; (apply Rmult_le_pos; [apply R_sqrt.sqrt_pos | exact HM]).
Qed.

(** both exact weights are at most 1, so  E <= (2.04 e + 6) 2^-53 * 2 (|x_0| + ... + |x_{e-1}|)  *)
Lemma ratio_le_1 (a b : nat) : (a <= b)%nat -> (0 < b)%nat -> INR a / INR b <= 1.
Proof.
  intros Hab Hb. assert (H0 : 0 < INR b) by (apply lt_0_INR; exact Hb).
  assert (H1 : INR a <= INR b) by (apply le_INR; exact Hab).
  apply (Rmult_le_reg_r (INR b)); [exact H0|]. unfold Rdiv. rewrite Rmult_assoc, Rinv_l by lra. lra.
Qed.

Lemma cusum_weights_le_1 s k e : (s < k)%nat -> (k < e)%nat -> cusum_bw s k e <= 1 /\ cusum_aw s k e <= 1.
Proof.
  intros Hsk Hke. unfold cusum_bw, cusum_aw.
  split; (apply Rle_trans with (R_sqrt.sqrt 1); [|rewrite R_sqrt.sqrt_1; lra]);
    apply R_sqrt.sqrt_le_1_alt; apply ratio_le_1; nia.
Qed.

Lemma cusum_E_simple l s k e : (s < k)%nat -> (k < e)%nat ->
  cusum_E l s k e <= (204 / 100 * INR e + 6) * u53 * (2 * sumR (map Rabs (firstn e (map FR l)))).
Proof.
  intros Hsk Hke. unfold cusum_E.
  destruct (cusum_weights_le_1 s k e Hsk Hke) as [Hb Ha].
  pose proof (sumR_abs_nonneg (firstn e (map FR l))) as HM.
  pose proof (pos_INR e) as He. pose proof u53_nonneg as Hu.
  set (M := sumR (map Rabs (firstn e (map FR l)))) in *.
  assert (HK : 0 <= (204 / 100 * INR e + 6) * u53) by (apply Rmult_le_pos; lra).
  apply Rmult_le_compat_l; [exact HK|].
  assert (cusum_bw s k e * M <= 1 * M) by (apply Rmult_le_compat_r; assumption).
  assert (cusum_aw s k e * M <= 1 * M) by (apply Rmult_le_compat_r; assumption).
  lra.
Qed.

Lemma sumR_abs_bound (B : R) (l : list R) : Forall (fun x => Rabs x <= B) l ->
  sumR (map Rabs l) <= INR (length l) * B.
Proof.
  induction 1 as [|x t Hx Ht IH]; [cbn; lra|].
  cbn [map sumR length]. rewrite S_INR. lra.
Qed.

(** the series is short enough for the smallness hypothesis  e 2^-53 <= 1/100  of the kernel theorem *)
Definition small_n (n : nat) : bool := (Z.of_nat n <=? 2 ^ 46)%Z.

Lemma small_n_ok n e : small_n n = true -> (e <= n)%nat -> INR e * u53 <= 1 / 100.
Proof.
  intros H He. unfold small_n in H. apply Z.leb_le in H.
  assert (Hz : (Z.of_nat e <= 2 ^ 46)%Z) by lia.
  apply IZR_le in Hz. rewrite <- INR_IZR_INZ in Hz.
  change (IZR (2 ^ 46)) with 70368744177664 in Hz.
  pose proof (pos_INR e) as H0. rewrite u53_value. lra.
Qed.

Lemma finF_nonnan x : finF x = true -> nonnan x.
Proof.
  unfold finF, PrimFloat.is_finite, nonnan. intros H. apply negb_true_iff in H.
  apply orb_false_iff in H. exact (proj1 H).
Qed.

Lemma finF_abs x : finF (PrimFloat.abs x) = finF x.
Proof. rewrite !finF_B, FP.abs_equiv. apply is_finite_Babs. Qed.

(** a checked CUSUM score is a finite float *)
Lemma cusum_F_finite l s k e : cusum_trace_ok l s k e = true -> finF (cusum_F l s k e) = true.
Proof.
  intros Hok. apply cusum_trace_ok_spec in Hok. destruct Hok. cbv zeta in tc_r.
  unfold cusum_F. cbv zeta. rewrite finF_abs. exact tc_r.
Qed.

(** ... and within [cusum_E] of the true statistic *)
Lemma cusum_F_close l s k e : cusum_trace_ok l s k e = true -> INR e * u53 <= 1 / 100 ->
  Rabs (FR (cusum_F l s k e) - cusum_score_R (prefix (map FR l)) s k e) <= cusum_E l s k e.
Proof. intros H1 H2. exact (cusum_F_vs_score_R l s k e H1 H2). Qed.

(** float comparison against a real comparison, both directions *)
Lemma above_sound thr v S E : finF thr = true -> finF v = true -> Rabs (FR v - S) <= E ->
  PrimFloat.ltb thr v = true -> S > FR thr - E.
Proof.
  intros Ht Hv Hc Hl. rewrite (ltb_FR thr v Ht Hv) in Hl. apply Rltb_true in Hl.
  apply Rabs_le_both in Hc. lra.
Qed.

Lemma above_complete thr v S E : finF thr = true -> finF v = true -> Rabs (FR v - S) <= E ->
  S > FR thr + E -> PrimFloat.ltb thr v = true.
Proof.
  intros Ht Hv Hc Hl. rewrite (ltb_FR thr v Ht Hv). apply Rltb_true.
  apply Rabs_le_both in Hc. lra.
Qed.

(* ------------------------------------------------------------------------- *)
(** * 1. Maximal runs: every true position lies in one                         *)
(* ------------------------------------------------------------------------- *)

Lemma run_left (l : list bool) i : nth i l false = true ->
  exists a, (a <= i)%nat /\ (forall j, (a <= j <= i)%nat -> nth j l false = true) /\
            (a = 0%nat \/ nth (a - 1) l false = false).
Proof.
  induction i as [|i IH]; intros H.
  - exists 0%nat. split; [lia|]. split; [|left; reflexivity].
    intros j Hj. replace j with 0%nat by lia. exact H.
  - destruct (nth i l false) eqn:E.
    + destruct (IH eq_refl) as (a & Ha & Hall & Hb). exists a. split; [lia|]. split; [|exact Hb].
      intros j Hj. destruct (Nat.eq_dec j (S i)) as [->|Hne]; [exact H|]. apply Hall. lia.
    + exists (S i). split; [lia|]. split.
      * intros j Hj. replace j with (S i) by lia. exact H.
      * right. replace (S i - 1)%nat with i by lia. exact E.
Qed.

Lemma run_right (l : list bool) : forall k i, (length l - i = k)%nat -> nth i l false = true ->
  exists z, (i < z <= length l)%nat /\ (forall j, (i <= j < z)%nat -> nth j l false = true) /\
            (z = length l \/ nth z l false = false).
Proof.
  induction k as [|k IH]; intros i Hk H.
  - rewrite nth_overflow in H by lia. discriminate.
  - destruct (nth (S i) l false) eqn:E.
    + destruct (IH (S i) ltac:(lia) E) as (z & Hz & Hall & Hb). exists z. split; [lia|]. split; [|exact Hb].
      intros j Hj. destruct (Nat.eq_dec j i) as [->|Hne]; [exact H|]. apply Hall. lia.
    + exists (S i). split; [lia|]. split.
      * intros j Hj. replace j with i by lia. exact H.
      * right. exact E.
Qed.

(** a position whose flag is set lies in a maximal run of set flags *)
Lemma where_runs_cover (l : list bool) i : nth i l false = true ->
  exists a z, In (a, z) (where_runs l) /\ (a <= i < z)%nat.
Proof.
  intros H. destruct (run_left l i H) as (a & Ha & HA & Hb).
  destruct (run_right l (length l - i) i eq_refl H) as (z & Hz & HZ & Hc).
  exists a, z. split; [|lia]. apply where_runs_spec. split; [lia|]. split; [|split; assumption].
  intros j Hj. destruct (Nat.le_gt_cases j i); [apply HA | apply HZ]; lia.
Qed.

(* ------------------------------------------------------------------------- *)
(** * 2. The moving window                                                     *)
(* ------------------------------------------------------------------------- *)

(** the premise: the series is shorter than 2^46 and the score computation passes the kernel checker at every
    admissible position  b <= t,  t + b <= n  (this forces  1 <= b  as soon as there is an admissible position) *)
Definition mw_cusum_trace_ok (xs : list float) (b : nat) : bool :=
  small_n (length xs) &&
  forallb (fun t => if ((b <=? t)%nat && (t + b <=? length xs)%nat)%bool
                    then cusum_trace_ok xs (t - b) t (t + b) else true)
          (seq 0 (S (length xs))).

Lemma mw_trace_at xs b t : mw_cusum_trace_ok xs b = true -> (b <= t)%nat -> (t + b <= length xs)%nat ->
  cusum_trace_ok xs (t - b) t (t + b) = true /\ INR (t + b) * u53 <= 1 / 100 /\ (1 <= b)%nat /\ (t < length xs)%nat.
Proof.
  intros H H1 H2. unfold mw_cusum_trace_ok in H. apply andb_true_iff in H. destruct H as [Hs Hf].
  rewrite forallb_forall in Hf. specialize (Hf t). rewrite in_seq in Hf. specialize (Hf ltac:(lia)).
  assert (E1 : (b <=? t)%nat = true) by (apply Nat.leb_le; exact H1).
  assert (E2 : (t + b <=? length xs)%nat = true) by (apply Nat.leb_le; exact H2).
  rewrite E1, E2 in Hf. cbn [andb] in Hf.
  split; [exact Hf|]. split; [exact (small_n_ok _ _ Hs H2)|].
  destruct (cusum_trace_ok_bounds _ _ _ _ Hf) as (B1 & B2 & B3). lia.
Qed.

(** the scores vector of the run and its admissible part  scores[b : n - b + 1] *)
Definition mw_scores (xs : list float) (b : nat) : list float := gmw_scores F64 (cusum_F xs) b (length xs).
Definition mw_adm_scores (xs : list float) (b : nat) : list float :=
  slice b (length xs - b + 1) (mw_scores xs b).

Lemma mw_scores_nth_adm xs b t : (b <= t)%nat -> (t + b <= length xs)%nat -> (t < length xs)%nat ->
  nthV F64 (mw_scores xs b) t = cusum_F xs (t - b) t (t + b).
Proof.
  intros H1 H2 H3. unfold mw_scores. rewrite (gmw_scores_nth F64 _ _ _ _ H3).
  assert (E1 : (b <=? t)%nat = true) by (apply Nat.leb_le; exact H1).
  assert (E2 : (t + b <=? length xs)%nat = true) by (apply Nat.leb_le; exact H2).
  rewrite E1, E2. reflexivity.
Qed.

Lemma mw_adm_scores_length xs b : (1 <= b)%nat -> length (mw_adm_scores xs b) = (length xs - b + 1 - b)%nat.
Proof.
  intros Hb. unfold mw_adm_scores, mw_scores, slice.
  rewrite firstn_length, skipn_length, (gmw_scores_length F64). lia.
Qed.

Lemma mw_adm_scores_nth xs b i : (1 <= b)%nat -> (i + 2 * b <= length xs)%nat ->
  nthV F64 (mw_adm_scores xs b) i = cusum_F xs i (i + b) (i + b + b).
Proof.
  intros Hb Hi. unfold nthV, mw_adm_scores. rewrite nth_slice by lia.
  change (nth (b + i) (mw_scores xs b) (zero F64)) with (nthV F64 (mw_scores xs b) (b + i)).
  rewrite mw_scores_nth_adm by lia. f_equal; lia.
Qed.

Lemma mw_scores_nonnan xs b : mw_cusum_trace_ok xs b = true -> Forall nonnan (mw_scores xs b).
Proof.
  intros H. unfold mw_scores. apply (mw_table_scores_ok F64 nonnan nonnan_zero).
  intros t H1 H2. apply finF_nonnan. apply cusum_F_finite. exact (proj1 (mw_trace_at xs b t H H1 H2)).
Qed.

(** 2.  the published scores *)
Theorem mw_F64_cusum_scores xs b thr mdi :
  mw_cusum_trace_ok xs b = true ->
  let n := length xs in
  let scores := fst (gmw_any F64 (cusum_F xs) b n thr mdi) in
  length scores = n /\
  forall t, (t < n)%nat ->
    ((b <= t)%nat /\ (t + b <= n)%nat ->
       nthV F64 scores t = cusum_F xs (t - b) t (t + b) /\
       finF (nthV F64 scores t) = true /\
       Rabs (FR (nthV F64 scores t) - cusum_score_R (prefix (map FR xs)) (t - b) t (t + b))
         <= cusum_E xs (t - b) t (t + b)) /\
    (~ ((b <= t)%nat /\ (t + b <= n)%nat) -> nthV F64 scores t = 0%float).
Proof.
  intros Hok n scores. unfold scores. rewrite gmw_any_scores. split; [apply gmw_scores_length|].
  intros t Ht. split.
  - intros [H1 H2]. destruct (mw_trace_at xs b t Hok H1 H2) as (Htr & Hsm & _ & _).
    change (gmw_scores F64 (cusum_F xs) b n) with (mw_scores xs b).
    rewrite (mw_scores_nth_adm xs b t H1 H2 Ht).
    split; [reflexivity|]. split; [exact (cusum_F_finite _ _ _ _ Htr) | exact (cusum_F_close _ _ _ _ Htr Hsm)].
  - intros Hn. rewrite (gmw_scores_nth F64 _ _ _ _ Ht).
    destruct (b <=? t)%nat eqn:E1; [|reflexivity]. destruct (t + b <=? n)%nat eqn:E2; [|reflexivity].
    exfalso. apply Hn. apply Nat.leb_le in E1. apply Nat.leb_le in E2. split; assumption.
Qed.

(** 3.  SOUNDNESS: every reported changepoint is an admissible position whose float score exceeds the threshold, hence
    whose TRUE statistic exceeds the threshold up to the rounding error of the kernel.  Any finite threshold. *)
Theorem mw_F64_cusum_sound xs b thr mdi c :
  mw_cusum_trace_ok xs b = true -> finF thr = true ->
  In c (snd (gmw_any F64 (cusum_F xs) b (length xs) thr mdi)) ->
  ((b <= c)%nat /\ (c + b <= length xs)%nat) /\
  PrimFloat.ltb thr (cusum_F xs (c - b) c (c + b)) = true /\
  cusum_score_R (prefix (map FR xs)) (c - b) c (c + b) > FR thr - cusum_E xs (c - b) c (c + b).
Proof.
  intros Hok Hthr Hc. unfold gmw_any in Hc. cbn [snd] in Hc.
  apply in_map_iff in Hc. destruct Hc as (c0 & <- & Hc0).
  change (slice b (length xs - b + 1) (gmw_scores F64 (cusum_F xs) b (length xs))) with (mw_adm_scores xs b) in Hc0.
  assert (Hnn : Forall nonnan (mw_adm_scores xs b)) by (apply Forall_slice, mw_scores_nonnan; exact Hok).
  destruct (G08_changepoints_above_threshold F64 nonnan F64_swo nonnan_zero _ _ _ _ Hnn (finF_nonnan _ Hthr) Hc0)
    as [Hlen Habove].
  assert (Hlen' : (c0 < length xs - b + 1 - b)%nat).
  { unfold mw_adm_scores, mw_scores, slice in Hlen.
    rewrite firstn_length, skipn_length, (gmw_scores_length F64) in Hlen. lia. }
  assert (H1 : (b <= c0 + b)%nat) by lia. assert (H2 : (c0 + b + b <= length xs)%nat) by lia.
  destruct (mw_trace_at xs b (c0 + b) Hok H1 H2) as (Htr & Hsm & Hb & _).
  rewrite (mw_adm_scores_nth xs b c0 Hb ltac:(lia)) in Habove. cbn [ltb F64] in Habove.
  replace (c0 + b - b)%nat with c0 by lia.
  replace (c0 + b - b)%nat with c0 in Htr by lia.
  split; [split; assumption|]. split; [exact Habove|].
  exact (above_sound thr _ _ _ Hthr (cusum_F_finite _ _ _ _ Htr) (cusum_F_close _ _ _ _ Htr Hsm) Habove).
Qed.

(** 4.  COMPLETENESS.  Positions are data positions: the admissible position [i] is entry [i - b] of [mw_adm_scores]. *)
Definition mw_score (xs : list float) (b i : nat) : float := cusum_F xs (i - b) i (i + b).
Definition mw_stat (xs : list float) (b i : nat) : R := cusum_score_R (prefix (map FR xs)) (i - b) i (i + b).
Definition mw_err (xs : list float) (b i : nat) : R := cusum_E xs (i - b) i (i + b).

Lemma mw_adm_nth_pos xs b i : (1 <= b)%nat -> (b <= i)%nat -> (i + b <= length xs)%nat ->
  nthV F64 (mw_adm_scores xs b) (i - b) = mw_score xs b i.
Proof.
  intros Hb H1 H2. rewrite mw_adm_scores_nth by lia. unfold mw_score. f_equal; lia.
Qed.

Lemma mw_adm_flag xs b thr i : (1 <= b)%nat -> (b <= i)%nat -> (i + b <= length xs)%nat ->
  nth (i - b) (map (fun v => PrimFloat.ltb thr v) (mw_adm_scores xs b)) false = PrimFloat.ltb thr (mw_score xs b i).
Proof.
  intros Hb H1 H2.
  rewrite (nth_map_lt (fun v => PrimFloat.ltb thr v) (mw_adm_scores xs b) (i - b) 0%float false)
    by (rewrite mw_adm_scores_length by exact Hb; lia).
  change (nth (i - b) (mw_adm_scores xs b) 0%float) with (nthV F64 (mw_adm_scores xs b) (i - b)).
  rewrite mw_adm_nth_pos by assumption. reflexivity.
Qed.

Lemma mw_score_facts xs b i : mw_cusum_trace_ok xs b = true -> (b <= i)%nat -> (i + b <= length xs)%nat ->
  finF (mw_score xs b i) = true /\ Rabs (FR (mw_score xs b i) - mw_stat xs b i) <= mw_err xs b i.
Proof.
  intros Hok H1 H2. destruct (mw_trace_at xs b i Hok H1 H2) as (Htr & Hsm & _ & _).
  split; [exact (cusum_F_finite _ _ _ _ Htr) | exact (cusum_F_close _ _ _ _ Htr Hsm)].
Qed.

Lemma mw_F64_cusum_complete_aux xs b thr mdi t :
  mw_cusum_trace_ok xs b = true -> finF thr = true ->
  (b <= t)%nat -> (t + b <= length xs)%nat ->
  mw_stat xs b t > FR thr + mw_err xs b t ->
  PrimFloat.ltb thr (mw_score xs b t) = true /\
  exists a z,
    In ((a - b)%nat, (z - b)%nat) (where_runs (map (fun v => PrimFloat.ltb thr v) (mw_adm_scores xs b))) /\
    (b <= a <= t)%nat /\ (t < z)%nat /\ (z + b <= length xs + 1)%nat /\
    (forall i, (a <= i < z)%nat -> PrimFloat.ltb thr (mw_score xs b i) = true) /\
    (a = b \/ PrimFloat.ltb thr (mw_score xs b (a - 1)) = false) /\
    ((z + b = length xs + 1)%nat \/ PrimFloat.ltb thr (mw_score xs b z) = false) /\
    ((mdi <= z - a)%nat ->
       exists c, In c (snd (gmw_any F64 (cusum_F xs) b (length xs) thr mdi)) /\ (a <= c < z)%nat /\
         (forall i, (a <= i < z)%nat -> PrimFloat.ltb (mw_score xs b c) (mw_score xs b i) = false) /\
         (forall i, (a <= i < c)%nat -> PrimFloat.ltb (mw_score xs b i) (mw_score xs b c) = true) /\
         (forall i, (a <= i < z)%nat -> mw_stat xs b i <= mw_stat xs b c + mw_err xs b c + mw_err xs b i)).
Proof.
  intros Hok Hthr H1 H2 Hgt.
  destruct (mw_trace_at xs b t Hok H1 H2) as (_ & _ & Hb & Htn).
  destruct (mw_score_facts xs b t Hok H1 H2) as [Hfin Hclose].
  assert (Habove : PrimFloat.ltb thr (mw_score xs b t) = true)
    by exact (above_complete thr _ _ _ Hthr Hfin Hclose Hgt).
  split; [exact Habove|].
  set (adm := mw_adm_scores xs b). set (l := map (fun v => PrimFloat.ltb thr v) adm).
  assert (Hlen : length adm = (length xs - b + 1 - b)%nat) by (apply mw_adm_scores_length; exact Hb).
  assert (Hll : length l = (length xs - b + 1 - b)%nat) by (unfold l; rewrite map_length; exact Hlen).
  assert (Hflag : forall i, (b <= i)%nat -> (i + b <= length xs)%nat ->
            nth (i - b) l false = PrimFloat.ltb thr (mw_score xs b i))
    by (intros i A B; apply mw_adm_flag; assumption).
  assert (Ht : nth (t - b) l false = true) by (rewrite Hflag by assumption; exact Habove).
  destruct (where_runs_cover l (t - b) Ht) as (a0 & z0 & Hin & Hat).
  pose proof Hin as Hspec. apply where_runs_spec in Hspec. destruct Hspec as (Hr & Hall & Hleft & Hright).
  rewrite Hll in Hr.
  exists (a0 + b)%nat, (z0 + b)%nat.
  replace (a0 + b - b)%nat with a0 by lia. replace (z0 + b - b)%nat with z0 by lia.
  split; [exact Hin|]. split; [lia|]. split; [lia|]. split; [lia|].
  assert (Hrun : forall i, (a0 + b <= i < z0 + b)%nat -> PrimFloat.ltb thr (mw_score xs b i) = true).
  { intros i Hi. rewrite <- Hflag by lia. apply Hall. lia. }
  split; [exact Hrun|]. split; [|split].
  - destruct (Nat.eq_dec a0 0) as [->|Hne]; [left; lia|]. right.
    destruct Hleft as [Hl0 | Hl0]; [lia|].
    rewrite <- Hflag by lia. replace (a0 + b - 1 - b)%nat with (a0 - 1)%nat by lia. exact Hl0.
  - destruct Hright as [Hz | Hz]; [left; lia|].
    destruct (Nat.eq_dec z0 (length l)) as [E|Hne]; [left; lia|]. right.
    rewrite <- Hflag by lia. replace (z0 + b - b)%nat with z0 by lia. exact Hz.
  - intros Hmdi.
    assert (Hnn : Forall nonnan (slice a0 z0 adm))
      by (apply Forall_slice, Forall_slice, mw_scores_nonnan; exact Hok).
    assert (Hsl : length (slice a0 z0 adm) = (z0 - a0)%nat) by (apply MwProofs.slice_length; lia).
    assert (Hnth : forall i, (a0 + b <= i < z0 + b)%nat ->
              nth (i - b - a0) (slice a0 z0 adm) 0%float = mw_score xs b i).
    { intros i Hi. rewrite nth_slice by lia. replace (a0 + (i - b - a0))%nat with (i - b)%nat by lia.
      change (nth (i - b) adm 0%float) with (nthV F64 (mw_adm_scores xs b) (i - b)).
      apply mw_adm_nth_pos; lia. }
    destruct (gargmax F64 (slice a0 z0 adm)) as [[j v]|] eqn:G.
    2:{ apply gargmax_none in G. rewrite G in Hsl. cbn [length] in Hsl. lia. }
    destruct (gargmax_first_max F64 nonnan F64_swo 0%float _ j v Hnn G) as (Hj & Hv & Hmax & Hfirst).
    cbn [T F64 ltb] in Hj, Hv, Hmax, Hfirst. rewrite Hsl in Hj, Hmax.
    set (c := (a0 + j + b)%nat).
    assert (Hvc : v = mw_score xs b c).
    { rewrite Hv. rewrite <- (Hnth c) by (unfold c; lia). f_equal. unfold c. lia. }
    assert (Hmaxc : forall i, (a0 + b <= i < z0 + b)%nat ->
              PrimFloat.ltb (mw_score xs b c) (mw_score xs b i) = false).
    { intros i Hi. rewrite <- Hvc, <- (Hnth i Hi). apply (Hmax (i - b - a0)%nat). lia. }
    exists c. split; [|split; [unfold c; lia|split; [exact Hmaxc|split]]].
    + unfold gmw_any. cbn [snd]. apply in_map_iff. exists (a0 + j)%nat. split; [reflexivity|].
      change (In (a0 + j)%nat (gmw_cpts F64 adm thr mdi)).
      rewrite gmw_cpts_unfold. apply in_flat_map. exists (a0, z0). split; [exact Hin|].
      unfold gpick_run. assert (E : (mdi <=? z0 - a0)%nat = true) by (apply Nat.leb_le; lia).
      rewrite E. cbn [T F64] in G |- *. rewrite G. left. reflexivity.
    + intros i Hi. rewrite <- Hvc, <- (Hnth i ltac:(unfold c in Hi; lia)).
      apply (Hfirst (i - b - a0)%nat). unfold c in Hi. lia.
    + intros i Hi. specialize (Hmaxc i Hi).
      destruct (mw_score_facts xs b i Hok ltac:(lia) ltac:(lia)) as [Fi Ci].
      destruct (mw_score_facts xs b c Hok ltac:(unfold c; lia) ltac:(unfold c; lia)) as [Fc Cc].
      rewrite (ltb_FR _ _ Fc Fi) in Hmaxc. apply Rltb_false in Hmaxc.
      apply Rabs_le_both in Ci. apply Rabs_le_both in Cc. lra.
Qed.

(** COMPLETENESS, spelled out.  If the TRUE statistic at an admissible position [t] exceeds the threshold by more than the
    rounding error, then the float score at [t] exceeds [thr]; [t] lies in a maximal run  a .. z-1  of admissible positions
    whose float scores exceed [thr] (the run  (a - b, z - b)  of [where_runs] on  scores[b : n - b + 1],  the vector the code
    takes its runs from); and if that run has at least [mdi] positions, a changepoint [c] is reported inside it: the run's first
    float maximum, whose true statistic is within the two rounding errors of every true statistic of the run.
    Any finite threshold. *)
Theorem mw_F64_cusum_complete xs b thr mdi t :
  mw_cusum_trace_ok xs b = true -> finF thr = true ->
  (b <= t)%nat -> (t + b <= length xs)%nat ->
  cusum_score_R (prefix (map FR xs)) (t - b) t (t + b) > FR thr + cusum_E xs (t - b) t (t + b) ->
  let n := length xs in
  let score := fun i => cusum_F xs (i - b) i (i + b) in
  let stat := fun i => cusum_score_R (prefix (map FR xs)) (i - b) i (i + b) in
  let err := fun i => cusum_E xs (i - b) i (i + b) in
  PrimFloat.ltb thr (score t) = true /\
  exists a z,
    In ((a - b)%nat, (z - b)%nat)
       (where_runs (map (fun v => PrimFloat.ltb thr v) (slice b (n - b + 1) (gmw_scores F64 (cusum_F xs) b n)))) /\
    (b <= a <= t)%nat /\ (t < z)%nat /\ (z + b <= n + 1)%nat /\
    (forall i, (a <= i < z)%nat -> PrimFloat.ltb thr (score i) = true) /\
    (a = b \/ PrimFloat.ltb thr (score (a - 1)%nat) = false) /\
    ((z + b = n + 1)%nat \/ PrimFloat.ltb thr (score z) = false) /\
    ((mdi <= z - a)%nat ->
       exists c, In c (snd (gmw_any F64 (cusum_F xs) b n thr mdi)) /\ (a <= c < z)%nat /\
         (forall i, (a <= i < z)%nat -> PrimFloat.ltb (score c) (score i) = false) /\
         (forall i, (a <= i < c)%nat -> PrimFloat.ltb (score i) (score c) = true) /\
         (forall i, (a <= i < z)%nat -> stat i <= stat c + err c + err i)).
Proof. exact (mw_F64_cusum_complete_aux xs b thr mdi t). Qed.

(* ------------------------------------------------------------------------- *)
(** * 3. Seeded binary segmentation                                            *)
(* ------------------------------------------------------------------------- *)

(** the premise: the series is shorter than 2^46, 1 <= m, every interval (s, e) has  s + 2 m <= e <= n,  and the score
    computation passes the kernel checker at every admissible split  s + m <= k,  k + m <= e  of every interval *)
Definition sbs_cusum_trace_ok (xs : list float) (m : nat) (ivs : list (nat * nat)) : bool :=
  small_n (length xs) && (1 <=? m)%nat &&
  forallb (fun se =>
             (fst se + 2 * m <=? snd se)%nat && (snd se <=? length xs)%nat &&
             forallb (fun k => cusum_trace_ok xs (fst se) k (snd se))
                     (seq (fst se + m) (snd se - m + 1 - (fst se + m))))
          ivs.

Lemma sbs_premise_shape xs m ivs : sbs_cusum_trace_ok xs m ivs = true ->
  (1 <= m)%nat /\ forall s e, In (s, e) ivs -> (s + 2 * m <= e <= length xs)%nat.
Proof.
  intros H. unfold sbs_cusum_trace_ok in H. apply andb_true_iff in H. destruct H as [H Hf].
  apply andb_true_iff in H. destruct H as [_ Hm]. apply Nat.leb_le in Hm. split; [exact Hm|].
  intros s e Hin. rewrite forallb_forall in Hf. specialize (Hf (s, e) Hin). cbn [fst snd] in Hf.
  apply andb_true_iff in Hf. destruct Hf as [Hf _]. apply andb_true_iff in Hf. destruct Hf as [A B].
  apply Nat.leb_le in A. apply Nat.leb_le in B. lia.
Qed.

Lemma sbs_trace_at xs m ivs s e k : sbs_cusum_trace_ok xs m ivs = true -> In (s, e) ivs ->
  (s + m <= k)%nat -> (k + m <= e)%nat ->
  cusum_trace_ok xs s k e = true /\ INR e * u53 <= 1 / 100.
Proof.
  intros H Hin H1 H2. destruct (sbs_premise_shape xs m ivs H) as [_ Hsh]. specialize (Hsh s e Hin).
  unfold sbs_cusum_trace_ok in H. apply andb_true_iff in H. destruct H as [H Hf].
  apply andb_true_iff in H. destruct H as [Hs _].
  rewrite forallb_forall in Hf. specialize (Hf (s, e) Hin). cbn [fst snd] in Hf.
  apply andb_true_iff in Hf. destruct Hf as [_ Hf]. rewrite forallb_forall in Hf.
  split; [apply Hf; apply in_seq; lia | apply (small_n_ok _ _ Hs); lia].
Qed.

Lemma sbs_score_facts xs m ivs s e k : sbs_cusum_trace_ok xs m ivs = true -> In (s, e) ivs ->
  (s + m <= k)%nat -> (k + m <= e)%nat ->
  finF (cusum_F xs s k e) = true /\
  Rabs (FR (cusum_F xs s k e) - cusum_score_R (prefix (map FR xs)) s k e) <= cusum_E xs s k e.
Proof.
  intros H Hin H1 H2. destruct (sbs_trace_at xs m ivs s e k H Hin H1 H2) as [Htr Hsm].
  split; [exact (cusum_F_finite _ _ _ _ Htr) | exact (cusum_F_close _ _ _ _ Htr Hsm)].
Qed.

Lemma sbs_cusum_table_ok xs m ivs : sbs_cusum_trace_ok xs m ivs = true ->
  sbs_table_ok F64 nonnan (cusum_F xs) m ivs.
Proof.
  intros H s e k Hin H1 H2. apply finF_nonnan. exact (proj1 (sbs_score_facts xs m ivs s e k H Hin H1 H2)).
Qed.

(** the per-interval search reports the FIRST float maximiser over the admissible splits (non-NaN scores) *)
Lemma gamoc_first_max (CS : nat -> nat -> nat -> float) m s e k v :
  (forall k', (s + m <= k')%nat -> (k' + m <= e)%nat -> nonnan (CS s k' e)) ->
  gamoc F64 CS m (s, e) = Some (k, v) ->
  (s + m <= k)%nat /\ (k + m <= e)%nat /\ v = CS s k e /\
  (forall k', (s + m <= k')%nat -> (k' + m <= e)%nat -> PrimFloat.ltb v (CS s k' e) = false) /\
  (forall k', (s + m <= k')%nat -> (k' < k)%nat -> PrimFloat.ltb (CS s k' e) v = true).
Proof.
  intros Htab H. destruct (gamoc_inv F64 CS m s e k v H) as (A1 & A2 & A3).
  split; [exact A1|]. split; [exact A2|]. split; [exact A3|].
  unfold gamoc in H.
  match type of H with match ?g with _ => _ end = _ => destruct g as [[j w]|] eqn:G end; [|discriminate].
  cbn [T F64] in G.
  inversion H; subst k w. clear H.
  set (len := (e - m + 1 - (s + m))%nat) in *.
  set (l := map (fun k0 => CS s k0 e) (seq (s + m) len)) in *.
  assert (Hl : Forall nonnan l).
  { apply Forall_forall. intros x Hx. unfold l in Hx. apply in_map_iff in Hx. destruct Hx as (k0 & <- & Hk0).
    apply in_seq in Hk0. apply Htab; unfold len in Hk0; lia. }
  destruct (gargmax_first_max F64 nonnan F64_swo 0%float l j v Hl G) as (Hj & Hv & Hmax & Hfirst).
  cbn [T F64 ltb] in Hj, Hv, Hmax, Hfirst.
  assert (Hlen : length l = len) by (unfold l; rewrite map_length, seq_length; reflexivity).
  assert (Hnth : forall j', (j' < len)%nat -> nth j' l 0%float = CS s (s + m + j')%nat e).
  { intros j' Hj'. unfold l. rewrite nth_map_seq by exact Hj'. reflexivity. }
  split.
  - intros k' B1 B2. specialize (Hmax (k' - (s + m))%nat). rewrite Hlen in Hmax.
    rewrite Hnth in Hmax by (unfold len; lia).
    replace (s + m + (k' - (s + m)))%nat with k' in Hmax by lia. apply Hmax. unfold len. lia.
  - intros k' B1 B2. specialize (Hfirst (k' - (s + m))%nat ltac:(lia)).
    rewrite Hnth in Hfirst by (rewrite Hlen in Hj; lia).
    replace (s + m + (k' - (s + m)))%nat with k' in Hfirst by lia. exact Hfirst.
Qed.

(** 5a.  the per-interval maxima: the reported split is the first float maximiser, and the reported maximum is within the
    rounding errors of the maximum of the TRUE statistic over the admissible splits:
        stat k' - E k'  <=  FR v  <=  stat k + E k      for every admissible k'
    (so, with  Emax >= E k'  for all admissible k':   max stat - Emax <= FR v <= max stat + Emax). *)
Theorem sbs_F64_cusum_interval_max xs m (thr : float) ivs (cpts : list nat) (am : list (nat * float)) :
  sbs_cusum_trace_ok xs m ivs = true ->
  gsbs_any F64 (cusum_F xs) m thr ivs = Some (cpts, am) ->
  length am = length ivs /\
  forall i s e, (i < length ivs)%nat -> nth i ivs (0, 0)%nat = (s, e) ->
    exists k,
      nth i am (0%nat, 0%float) = (k, cusum_F xs s k e) /\
      (s + m <= k)%nat /\ (k + m <= e)%nat /\
      finF (cusum_F xs s k e) = true /\
      (forall k', (s + m <= k')%nat -> (k' + m <= e)%nat ->
                  PrimFloat.ltb (cusum_F xs s k e) (cusum_F xs s k' e) = false) /\
      (forall k', (s + m <= k')%nat -> (k' < k)%nat ->
                  PrimFloat.ltb (cusum_F xs s k' e) (cusum_F xs s k e) = true) /\
      Rabs (FR (cusum_F xs s k e) - cusum_score_R (prefix (map FR xs)) s k e) <= cusum_E xs s k e /\
      (forall k', (s + m <= k')%nat -> (k' + m <= e)%nat ->
                  cusum_score_R (prefix (map FR xs)) s k' e - cusum_E xs s k' e <= FR (cusum_F xs s k e)) /\
      (forall k', (s + m <= k')%nat -> (k' + m <= e)%nat ->
                  cusum_score_R (prefix (map FR xs)) s k' e
                  <= cusum_score_R (prefix (map FR xs)) s k e + cusum_E xs s k e + cusum_E xs s k' e).
Proof.
  intros Hok Hrun.
  destruct (gsbs_any_inv F64 _ _ _ _ _ _ Hrun) as (A & _).
  destruct (gamocs_inv F64 _ _ _ _ A) as [Hl Hn].
  split; [exact Hl|]. intros i s e Hi Hse.
  specialize (Hn i (0, 0)%nat (0%nat, 0%float) Hi). rewrite Hse in Hn. cbn [T F64] in Hn.
  assert (Hin : In (s, e) ivs) by (rewrite <- Hse; apply nth_In; exact Hi).
  destruct (nth i am (0%nat, 0%float)) as [k v].
  assert (Htab : forall k', (s + m <= k')%nat -> (k' + m <= e)%nat -> nonnan (cusum_F xs s k' e))
    by (intros k' B1 B2; exact (sbs_cusum_table_ok xs m ivs Hok s e k' Hin B1 B2)).
  destruct (gamoc_first_max (cusum_F xs) m s e k v Htab Hn) as (A1 & A2 & -> & Hmax & Hfirst).
  exists k. split; [reflexivity|]. split; [exact A1|]. split; [exact A2|].
  destruct (sbs_score_facts xs m ivs s e k Hok Hin A1 A2) as [Fk Ck].
  split; [exact Fk|]. split; [exact Hmax|]. split; [exact Hfirst|]. split; [exact Ck|].
  assert (Hle : forall k', (s + m <= k')%nat -> (k' + m <= e)%nat ->
            cusum_score_R (prefix (map FR xs)) s k' e - cusum_E xs s k' e <= FR (cusum_F xs s k e)).
  { intros k' B1 B2. destruct (sbs_score_facts xs m ivs s e k' Hok Hin B1 B2) as [Fk' Ck'].
    specialize (Hmax k' B1 B2). rewrite (ltb_FR _ _ Fk Fk') in Hmax. apply Rltb_false in Hmax.
    apply Rabs_le_both in Ck'. lra. }
  split; [exact Hle|].
  intros k' B1 B2. specialize (Hle k' B1 B2). apply Rabs_le_both in Ck. lra.
Qed.

(** 5b.  SOUNDNESS: every reported changepoint [c] is the first float maximiser of some interval (s, e) of [ivs] that contains it
    and whose float maximum exceeds the threshold; hence the TRUE statistic of the split [c] of that interval exceeds the threshold up
    to the rounding error, and is within the rounding errors of the true statistic of every other admissible split of it.
    Any finite threshold. *)
Theorem sbs_F64_cusum_sound xs m (thr : float) ivs (cpts : list nat) (am : list (nat * float)) :
  sbs_cusum_trace_ok xs m ivs = true -> finF thr = true ->
  gsbs_any F64 (cusum_F xs) m thr ivs = Some (cpts, am) ->
  forall c, In c cpts ->
  exists i s e,
    (i < length ivs)%nat /\ nth i ivs (0, 0)%nat = (s, e) /\
    nth i am (0%nat, 0%float) = (c, cusum_F xs s c e) /\
    (s + m <= c)%nat /\ (c + m <= e)%nat /\
    PrimFloat.ltb thr (cusum_F xs s c e) = true /\
    (forall k', (s + m <= k')%nat -> (k' + m <= e)%nat ->
                PrimFloat.ltb (cusum_F xs s c e) (cusum_F xs s k' e) = false) /\
    (forall k', (s + m <= k')%nat -> (k' < c)%nat ->
                PrimFloat.ltb (cusum_F xs s k' e) (cusum_F xs s c e) = true) /\
    cusum_score_R (prefix (map FR xs)) s c e > FR thr - cusum_E xs s c e /\
    (forall k', (s + m <= k')%nat -> (k' + m <= e)%nat ->
                cusum_score_R (prefix (map FR xs)) s k' e
                <= cusum_score_R (prefix (map FR xs)) s c e + cusum_E xs s c e + cusum_E xs s k' e).
Proof.
  intros Hok Hthr Hrun c Hc.
  destruct (sbs_premise_shape xs m ivs Hok) as [Hm Hivs].
  destruct (F64_sbs_any_supported (cusum_F xs) m (length xs) thr ivs (sbs_cusum_table_ok xs m ivs Hok)
              (finF_nonnan _ Hthr) Hm Hivs cpts am Hrun c Hc) as (i & Hi & H1 & H2 & _).
  cbn [T zero F64 ltb] in H1, H2.
  destruct (sbs_F64_cusum_interval_max xs m thr ivs cpts am Hok Hrun) as [_ Hint].
  destruct (nth i ivs (0, 0)%nat) as [s e] eqn:Hse.
  destruct (Hint i s e Hi Hse) as (k & Hk & A1 & A2 & Fk & Hmax & Hfirst & Ck & _ & Hstat).
  rewrite Hk in H1, H2. cbn [fst snd] in H1, H2. subst k.
  exists i, s, e. split; [exact Hi|]. split; [exact Hse|]. split; [exact Hk|].
  split; [exact A1|]. split; [exact A2|]. split; [exact H2|]. split; [exact Hmax|]. split; [exact Hfirst|].
  split; [|exact Hstat].
  exact (above_sound thr _ _ _ Hthr Fk Ck H2).
Qed.

(** 5c.  COMPLETENESS: if some admissible split of an interval of [ivs] has a TRUE statistic exceeding the threshold by more than
    the rounding error, then that interval's float maximum exceeds the threshold and a changepoint is reported inside the interval
    ("no interval above the threshold is left without a changepoint inside it").  Any finite threshold. *)
Theorem sbs_F64_cusum_complete xs m (thr : float) ivs (cpts : list nat) (am : list (nat * float)) :
  sbs_cusum_trace_ok xs m ivs = true -> finF thr = true ->
  gsbs_any F64 (cusum_F xs) m thr ivs = Some (cpts, am) ->
  forall i s e k, (i < length ivs)%nat -> nth i ivs (0, 0)%nat = (s, e) ->
    (s + m <= k)%nat -> (k + m <= e)%nat ->
    cusum_score_R (prefix (map FR xs)) s k e > FR thr + cusum_E xs s k e ->
    PrimFloat.ltb thr (cusum_F xs s k e) = true /\
    PrimFloat.ltb thr (snd (nth i am (0%nat, 0%float))) = true /\
    exists c, In c cpts /\ (s <= c < e)%nat.
Proof.
  intros Hok Hthr Hrun i s e k Hi Hse B1 B2 Hgt.
  destruct (sbs_premise_shape xs m ivs Hok) as [Hm Hivs].
  assert (Hin : In (s, e) ivs) by (rewrite <- Hse; apply nth_In; exact Hi).
  destruct (sbs_score_facts xs m ivs s e k Hok Hin B1 B2) as [Fk Ck].
  assert (Habove : PrimFloat.ltb thr (cusum_F xs s k e) = true)
    by exact (above_complete thr _ _ _ Hthr Fk Ck Hgt).
  split; [exact Habove|].
  destruct (sbs_F64_cusum_interval_max xs m thr ivs cpts am Hok Hrun) as [_ Hint].
  destruct (Hint i s e Hi Hse) as (k0 & Hk0 & A1 & A2 & Fk0 & Hmax & _).
  assert (Hv : PrimFloat.ltb thr (snd (nth i am (0%nat, 0%float))) = true).
  { rewrite Hk0. cbn [snd]. specialize (Hmax k B1 B2).
    rewrite (ltb_FR _ _ Fk0 Fk) in Hmax. apply Rltb_false in Hmax.
    rewrite (ltb_FR _ _ Hthr Fk) in Habove. apply Rltb_true in Habove.
    rewrite (ltb_FR _ _ Hthr Fk0). apply Rltb_true. lra. }
  split; [exact Hv|].
  destruct (F64_sbs_any_no_interval_left (cusum_F xs) m (length xs) thr ivs (sbs_cusum_table_ok xs m ivs Hok)
              (finF_nonnan _ Hthr) Hm Hivs cpts am Hrun i Hi Hv) as (c & Hc & Hcont).
  exists c. split; [exact Hc|]. rewrite Hse in Hcont. unfold contains in Hcont. cbn [fst snd] in Hcont.
  apply andb_true_iff in Hcont. destruct Hcont as [C1 C2]. apply Nat.leb_le in C1. apply Nat.ltb_lt in C2. lia.
Qed.

(* ------------------------------------------------------------------------- *)
(** * 4. Non-vacuity: a level shift                                            *)
(* ------------------------------------------------------------------------- *)

(** twelve binary64 numbers: six around 0, six around 5 (all exactly representable, so the literals are the data) *)
Definition demo_shift : list float :=
  [0.25; -0.5; 0.125; 0; -0.25; 0.5; 5.25; 4.75; 5.5; 5; 4.5; 5.25]%float.

(** moving window, bandwidth 3, threshold 2.0, min_detection_interval 1 *)
Example demo_mw_premise : mw_cusum_trace_ok demo_shift 3 = true.
Proof. vm_compute. reflexivity. Qed.

Example demo_thr_finite : finF 2%float = true.
Proof. vm_compute. reflexivity. Qed.

Eval vm_compute in gmw_any F64 (cusum_F demo_shift) 3 (length demo_shift) 2%float 1.

Example demo_mw_cpts : snd (gmw_any F64 (cusum_F demo_shift) 3 (length demo_shift) 2%float 1) = [6%nat].
Proof. vm_compute. reflexivity. Qed.

(** soundness, instantiated: position 6 is admissible, its float score exceeds 2.0 and the true CUSUM statistic of the split 6 of
    the window 3 .. 9 of the real data exceeds 2.0 up to the kernel's rounding error *)
Example demo_mw_sound :
  PrimFloat.ltb 2%float (cusum_F demo_shift 3 6 9) = true /\
  cusum_score_R (prefix (map FR demo_shift)) 3 6 9 > FR 2%float - cusum_E demo_shift 3 6 9.
Proof.
  assert (Hc : In 6%nat (snd (gmw_any F64 (cusum_F demo_shift) 3 (length demo_shift) 2%float 1)))
    by (rewrite demo_mw_cpts; left; reflexivity).
  destruct (mw_F64_cusum_sound demo_shift 3 2%float 1 6 demo_mw_premise demo_thr_finite Hc) as (_ & H1 & H2).
  split; [exact H1 | exact H2].
Qed.

(** the published scores, instantiated at position 6 *)
Example demo_mw_score_6 :
  Rabs (FR (cusum_F demo_shift 3 6 9) - cusum_score_R (prefix (map FR demo_shift)) 3 6 9) <= cusum_E demo_shift 3 6 9.
Proof.
  destruct (mw_F64_cusum_scores demo_shift 3 2%float 1 demo_mw_premise) as [_ H].
  destruct (H 6%nat ltac:(cbn; lia)) as [H6 _]. destruct (H6 ltac:(cbn; lia)) as (E & _ & C).
  rewrite E in C. exact C.
Qed.

(** seeded binary segmentation, min_segment_length 2, threshold 2.0, four seeded intervals *)
Definition demo_ivs : list (nat * nat) := [(0, 12); (0, 6); (6, 12); (3, 9)]%nat.

Example demo_sbs_premise : sbs_cusum_trace_ok demo_shift 2 demo_ivs = true.
Proof. vm_compute. reflexivity. Qed.

Eval vm_compute in gsbs_any F64 (cusum_F demo_shift) 2 2%float demo_ivs.

Example demo_sbs_cpts :
  option_map fst (gsbs_any F64 (cusum_F demo_shift) 2 2%float demo_ivs) = Some [6%nat].
Proof. vm_compute. reflexivity. Qed.

(** soundness, instantiated: the changepoint 6 is the first float maximiser of one of the seeded intervals, that interval's float
    maximum exceeds 2.0, and the true statistic of the split 6 of that interval exceeds 2.0 up to the rounding error *)
Example demo_sbs_sound :
  exists s e, In (s, e) demo_ivs /\ (s + 2 <= 6)%nat /\ (6 + 2 <= e)%nat /\
    PrimFloat.ltb 2%float (cusum_F demo_shift s 6 e) = true /\
    cusum_score_R (prefix (map FR demo_shift)) s 6 e > FR 2%float - cusum_E demo_shift s 6 e.
Proof.
  destruct (gsbs_any F64 (cusum_F demo_shift) 2 2%float demo_ivs) as [[cpts am]|] eqn:Hrun.
  2:{ pose proof demo_sbs_cpts as H. rewrite Hrun in H. discriminate H. }
  assert (Hc : In 6%nat cpts).
  { pose proof demo_sbs_cpts as H. rewrite Hrun in H. cbn [option_map fst] in H. inversion H. left. reflexivity. }
  destruct (sbs_F64_cusum_sound demo_shift 2 2%float demo_ivs cpts am demo_sbs_premise demo_thr_finite Hrun 6%nat Hc)
    as (i & s & e & Hi & Hse & _ & A1 & A2 & H1 & _ & _ & H2 & _).
  exists s, e. split; [rewrite <- Hse; apply nth_In; exact Hi|].
  split; [exact A1|]. split; [exact A2|]. split; [exact H1 | exact H2].
Qed.

(** completeness, instantiated: its hypothesis on the TRUE statistic is satisfiable -- at position 6 the true statistic exceeds
    2.0 by far more than the rounding error (which is below 10^-12 here) -- and its conclusion is the run displayed above *)
Lemma demo_shift_R :
  map FR demo_shift = [1 / 4; - (1 / 2); 1 / 8; 0; - (1 / 4); 1 / 2; 21 / 4; 19 / 4; 11 / 2; 5; 9 / 2; 21 / 4].
Proof.
  unfold demo_shift. cbn [map].
  FR_eval 0.25%float H1. FR_eval (-0.5)%float H2. FR_eval 0.125%float H3. FR_eval (-0.25)%float H4.
  FR_eval 0.5%float H5. FR_eval 5.25%float H6. FR_eval 4.75%float H7. FR_eval 5.5%float H8.
  FR_eval 5%float H9. FR_eval 4.5%float H10.
  rewrite H1, H2, H3, H4, H5, H6, H7, H8, H9, H10, FR_zero. cbn [Z.opp].
  repeat (apply f_equal2; [lra|]). reflexivity.
Qed.

Example demo_mw_error_small : cusum_E demo_shift 3 6 9 <= 1 / 1000000000000.
Proof.
  pose proof (cusum_E_simple demo_shift 3 6 9 ltac:(lia) ltac:(lia)) as H.
  rewrite demo_shift_R in H. cbn [firstn] in H.
  assert (HM : sumR (map Rabs [1 / 4; - (1 / 2); 1 / 8; 0; - (1 / 4); 1 / 2; 21 / 4; 19 / 4; 11 / 2]) <= INR 9 * 6).
  { apply (sumR_abs_bound 6). repeat (apply Forall_cons; [apply Rabs_le; lra|]). apply Forall_nil. }
  pose proof (sumR_abs_nonneg [1 / 4; - (1 / 2); 1 / 8; 0; - (1 / 4); 1 / 2; 21 / 4; 19 / 4; 11 / 2]) as HM0.
  set (M := sumR (map Rabs _)) in *. cbn [INR] in H, HM. rewrite u53_value in H.
  assert (H2 : (204 / 100 * (1 + 1 + 1 + 1 + 1 + 1 + 1 + 1 + 1) + 6) * / 9007199254740992 * (2 * M)
               <= (204 / 100 * (1 + 1 + 1 + 1 + 1 + 1 + 1 + 1 + 1) + 6) * / 9007199254740992 * (2 * ((1 + 1 + 1 + 1 + 1 + 1 + 1 + 1 + 1) * 6)))
    by (apply Rmult_le_compat_l; lra).
  lra.
Qed.

Example demo_mw_complete_hypothesis :
  cusum_score_R (prefix (map FR demo_shift)) (6 - 3) 6 (6 + 3) > FR 2%float + cusum_E demo_shift (6 - 3) 6 (6 + 3).
Proof.
  cbn [Nat.sub Nat.add].
  pose proof demo_mw_score_6 as Hc. apply Rabs_le_both in Hc.
  pose proof demo_mw_error_small as HE. pose proof (cusum_E_nonneg demo_shift 3 6 9) as HE0.
  FR_eval (cusum_F demo_shift 3 6 9) Hv. rewrite Hv in Hc. rewrite FR_two. lra.
Qed.

Example demo_mw_complete :
  exists a z c, (3 <= a <= 6)%nat /\ (6 < z)%nat /\ (a <= c < z)%nat /\
    In c (snd (gmw_any F64 (cusum_F demo_shift) 3 (length demo_shift) 2%float 1)).
Proof.
  destruct (mw_F64_cusum_complete demo_shift 3 2%float 1 6 demo_mw_premise demo_thr_finite ltac:(lia) ltac:(cbn; lia)
              demo_mw_complete_hypothesis) as (_ & a & z & _ & Ha & Hz & _ & _ & _ & _ & Hrun).
  assert (Hmdi : (1 <= z - a)%nat) by lia.
  destruct (Hrun Hmdi) as (c & Hc & Hcz & _).
  exists a, z, c. split; [lia|]. split; [exact Hz|]. split; [exact Hcz | exact Hc].
Qed.

(** the same for seeded binary segmentation: the split 6 of the seeded interval (3, 9) (the window of the moving window above) has a
    true statistic above 2.0 + E, so a changepoint is reported inside (3, 9) *)
Example demo_sbs_complete :
  forall cpts am, gsbs_any F64 (cusum_F demo_shift) 2 2%float demo_ivs = Some (cpts, am) ->
  exists c, In c cpts /\ (3 <= c < 9)%nat.
Proof.
  intros cpts am Hrun.
  destruct (sbs_F64_cusum_complete demo_shift 2 2%float demo_ivs cpts am demo_sbs_premise demo_thr_finite Hrun
              3%nat 3%nat 9%nat 6%nat ltac:(cbn; lia) eq_refl ltac:(lia) ltac:(lia) demo_mw_complete_hypothesis)
    as (_ & _ & Hc).
  exact Hc.
Qed.

Print Assumptions mw_F64_cusum_scores.
Print Assumptions mw_F64_cusum_sound.
Print Assumptions mw_F64_cusum_complete.
Print Assumptions sbs_F64_cusum_interval_max.
Print Assumptions sbs_F64_cusum_sound.
Print Assumptions sbs_F64_cusum_complete.
Print Assumptions demo_mw_sound.
Print Assumptions demo_sbs_sound.
Print Assumptions demo_mw_complete.
Print Assumptions demo_sbs_complete.
