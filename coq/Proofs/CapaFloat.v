(** The BINARY64 run of CAPA / MVCAPA against the inexact-arithmetic theorem.

    [gcapa F64] (Model/GenericCapa.v at the primitive-float instance of Model/GenericF.v) is the
    definition the harness runs on the float savings of the real scorer and compares bit for bit with
    the real detectors.  Proofs/CapaApprox.v proves that the CAPA loop over R whose arithmetic steps
    are UNINTERPRETED functions [Vc], [Vp], [Wk] is near-optimal as soon as the values it realises are
    within eps of the exact sums.  This file links the two:

      1  [capa_trace_finite]: a boolean, vm_compute-able test -- every float the run stores or
         compares is finite (no NaN, no infinity);
      2  [gcapa_F64_is_capaA]: under that test the float run IS the run of [capaA] on the tables
         [Vct] / [Vpt] / [Wkt] of the real values of the floats it computed (same anomalies, scores
         mapped by [FR]).  The only other premise is [1 <= m]: with m = 0 the loop reads opt[t+1]
         before it is written (the default 0), which the final table does not record;
      3  [capa_F64_near_optimal], [capa_F64_final_close]: the anomalies returned by the float run
         are within 3 n eps of the optimum of the TRUE penalised savings, eps bounding the distance
         between each realised float sum and the exact sum;
      4  [capa_F64_near_optimal_bounds], [capa_F64_final_close_bounds]: eps = delta + u53 * Mag from
         the error delta of the penalised savings and one rounding of a binary64 addition;
      5  a concrete instance (n = 6, m = 2, M = 4, delay = 1) evaluated by vm_compute.

    The float penalised savings [gPc F64 ..] / [gPp F64 ..] are opaque floats: [gpenalise] is not
    modelled over R. *)
From Coq Require Import Reals Lra Lia List Arith ZArith Bool Floats.
From Flocq Require Import Core BinarySingleNaN.
From Flocq Require IEEE754.PrimFloat.
From SK Require Import Lib.Base Model.Capa Proofs.CapaSpec Proofs.CapaDP Model.PeltR Proofs.RealLib Model.CapaR Proofs.PeltReal
                       Proofs.CapaReal Model.CapaA Proofs.CapaApprox
                       Model.Generic Model.GenericCapa Model.GenericF Proofs.GenericCapaWf
                       Proofs.FloatError Proofs.FloatRefine.
Import ListNotations.
Local Open Scope R_scope.

Notation pfloat := PrimFloat.float (only parsing).

(* ------------------------------------------------------------------------- *)
(** * 1. Finite primitive floats embed in R with their order                   *)
(* ------------------------------------------------------------------------- *)

Lemma F_ltb_FR (x y : pfloat) :
  finF x = true -> finF y = true -> PrimFloat.ltb x y = Rltb (FR x) (FR y).
Proof.
  intros Hx Hy. rewrite finF_B in Hx, Hy.
  rewrite FP.ltb_equiv, (Bltb_correct _ _ _ _ Hx Hy).
  unfold FR, Rltb.
  destruct (Rlt_bool_spec (B2R (FP.Prim2B x)) (B2R (FP.Prim2B y))) as [H|H];
    destruct (Rlt_dec (B2R (FP.Prim2B x)) (B2R (FP.Prim2B y))) as [H'|H']; try reflexivity; exfalso; lra.
Qed.

Lemma FR_zero : FR 0%float = 0.
Proof.
  unfold FR, FP.Prim2B. rewrite B2R_SF2B.
  replace (Prim2SF 0%float) with (S754_zero false) by (vm_compute; reflexivity).
  reflexivity.
Qed.

Lemma finF_zero : finF 0%float = true.
Proof. vm_compute. reflexivity. Qed.

Lemma nthR_map_FR (l : list pfloat) i : nthR (map FR l) i = FR (nthV F64 l i).
Proof. unfold nthR, nthV. cbn [zero F64]. rewrite <- FR_zero. apply map_nth. Qed.

Lemma nthV_In (l : list pfloat) i : (i < length l)%nat -> In (nthV F64 l i) l.
Proof. intros H. unfold nthV. now apply nth_In. Qed.

(** the first-maximum scan *)
Definition liftF (p : nat * pfloat) : nat * R := (fst p, FR (snd p)).

Lemma argmaxR_from_FR (l : list pfloat) : forall bi (b : pfloat) i,
  finF b = true -> forallb finF l = true ->
  argmaxR_from bi (FR b) i (map FR l) = liftF (gargmax_from F64 bi b i l) /\
  finF (snd (gargmax_from F64 bi b i l)) = true.
Proof.
  induction l as [|x t IH]; intros bi b i Hb Hl; cbn [map argmaxR_from gargmax_from].
  - split; [reflexivity|exact Hb].
  - cbn [forallb] in Hl. apply andb_true_iff in Hl as [Hx Ht].
    cbn [ltb F64]. rewrite (F_ltb_FR b x Hb Hx).
    destruct (Rltb (FR b) (FR x)); apply IH; assumption.
Qed.

Lemma argmaxR_FR (l : list pfloat) : forallb finF l = true ->
  argmaxR (map FR l) = option_map liftF (gargmax F64 l) /\
  (forall i v, gargmax F64 l = Some (i, v) -> finF v = true).
Proof.
  destruct l as [|x t]; cbn [map argmaxR gargmax option_map]; intros Hl.
  - split; [reflexivity|discriminate].
  - cbn [forallb] in Hl. apply andb_true_iff in Hl as [Hx Ht].
    destruct (argmaxR_from_FR t 0%nat x 1%nat Hx Ht) as [E F].
    split; [now rewrite E|].
    intros i v H. inversion H as [H']. rewrite H' in F. exact F.
Qed.

(** filtering a list of starts zipped with a table of values *)
Lemma filter_combine_map {A : Type} (f : nat -> A) (P : nat * A -> bool) (l : list nat) :
  map fst (filter P (combine l (map f l))) = filter (fun a => P (a, f a)) l.
Proof.
  induction l as [|a t IH]; cbn [map combine filter]; [reflexivity|].
  destruct (P (a, f a)); cbn [map fst]; now rewrite IH.
Qed.

(* ------------------------------------------------------------------------- *)
(** * 2. The binary64 run and its trace                                        *)
(* ------------------------------------------------------------------------- *)
Section CapaFloat.
Variable tiny : pfloat -> bool.
Variable Sc : nat -> nat -> list pfloat.
Variable Sp : nat -> list pfloat.
Variables (ac ap : pfloat) (bc bp : list pfloat).
Variables (m M delay n : nat).

Notation stepG := (gcstep F64 tiny Sc Sp ac bc ap bp m M delay).
Notation runG := (gcrun F64 tiny Sc Sp ac bc ap bp m M delay).
Notation capaG := (gcapa F64 tiny Sc Sp ac bc ap bp m M delay).

(** the final state of the float run, its table of stored values, the float prune constant and the
    float penalised savings *)
Definition gsF : gcst F64 := runG n.
Definition optF : list pfloat := gcopt F64 gsF.
Definition Kf : pfloat := (ac + gsum F64 bc)%float.
Definition PcF (a T : nat) : pfloat := gPc F64 tiny Sc ac bc a T.
Definition PpF (t : nat) : pfloat := gPp F64 tiny Sp ap bp t.

(** the three kinds of float sums of the loop, read off the final table *)
Definition candF (a T : nat) : pfloat := (nthV F64 optF a + PcF a T)%float.
Definition pointF (t : nat) : pfloat := (nthV F64 optF t + PpF t)%float.
Definition pruneF (a T : nat) : pfloat := (candF a T + Kf)%float.

(** REALISED tables: the real argument is ignored *)
Definition Vct (a T : nat) (_ : R) : R := FR (nthV F64 optF a + PcF a T)%float.
Definition Vpt (t : nat) (_ : R) : R := FR (nthV F64 optF t + PpF t)%float.
Definition Wkt (a T : nat) (_ : R) : R := FR ((nthV F64 optF a + PcF a T) + Kf)%float.

(** every float of the trace is finite *)
Definition capa_trace_finite : bool :=
  forallb finF optF && finF Kf &&
  forallb (fun T => forallb (fun a => finF (PcF a T) && finF (candF a T) && finF (pruneF a T))
                            (seq 0 T)) (seq 1 n) &&
  forallb (fun t => finF (PpF t) && finF (pointF t)) (seq 0 n).

Lemma trace_finite_spec : capa_trace_finite = true ->
  (forall x, In x optF -> finF x = true) /\ finF Kf = true /\
  (forall a T, (a < T <= n)%nat ->
     finF (PcF a T) = true /\ finF (candF a T) = true /\ finF (pruneF a T) = true) /\
  (forall t, (t < n)%nat -> finF (PpF t) = true /\ finF (pointF t) = true).
Proof.
  unfold capa_trace_finite. intros H.
  apply andb_true_iff in H as [H H4]. apply andb_true_iff in H as [H H3].
  apply andb_true_iff in H as [H1 H2].
  split; [|split; [exact H2|split]].
  - intros x Hx. exact (proj1 (forallb_forall _ _) H1 x Hx).
  - intros a T [HaT HTn].
    pose proof (proj1 (forallb_forall _ _) H3 T) as HT.
    assert (HinT : In T (seq 1 n)) by (apply in_seq; lia).
    specialize (HT HinT). cbv beta in HT.
    pose proof (proj1 (forallb_forall _ _) HT a) as Ha.
    assert (Hina : In a (seq 0 T)) by (apply in_seq; lia).
    specialize (Ha Hina). cbv beta in Ha.
    apply andb_true_iff in Ha as [Ha Hc]. apply andb_true_iff in Ha as [Ha Hb]. auto.
  - intros t Ht.
    pose proof (proj1 (forallb_forall _ _) H4 t) as HT.
    assert (Hint : In t (seq 0 n)) by (apply in_seq; lia).
    specialize (HT Hint). cbv beta in HT.
    apply andb_true_iff in HT as [Ha Hb]. auto.
Qed.

(* ------------------------------------------------------------------------- *)
(** * 3. Structure of the float run: the table only grows by appending         *)
(* ------------------------------------------------------------------------- *)

Lemma gcopt_stepG s t :
  gcopt F64 (stepG s t) = gcopt F64 s ++ [snd (gchoose F64 tiny Sc Sp ac bc ap bp m s t)].
Proof.
  rewrite gcstep_eq. destruct (gchoose F64 tiny Sc Sp ac bc ap bp m s t) as [choice best].
  destruct (gpopped F64 delay s (glow F64 tiny Sc ac bc m s t best)) as [now pend']. reflexivity.
Qed.

Lemma gcstarts_stepG s t a : In a (gcstarts F64 (stepG s t)) -> In a (gstarts1 F64 m s t).
Proof.
  rewrite gcstep_eq. destruct (gchoose F64 tiny Sc Sp ac bc ap bp m s t) as [choice best].
  destruct (gpopped F64 delay s (glow F64 tiny Sc ac bc m s t best)) as [now pend'].
  cbn [gcstarts]. unfold gkeep. intros H. apply filter_In in H. tauto.
Qed.

Lemma len_runG k : length (gcopt F64 (runG k)) = S k.
Proof.
  induction k as [|k IH]; [reflexivity|].
  rewrite gcrun_S, gcopt_stepG, app_length, IH. cbn [length]. lia.
Qed.

(** stored values are never overwritten *)
Lemma runG_prefix k j i : (k <= j)%nat -> (i <= k)%nat ->
  nthV F64 (gcopt F64 (runG j)) i = nthV F64 (gcopt F64 (runG k)) i.
Proof.
  intros Hkj Hik. induction Hkj as [|j Hkj IH]; [reflexivity|].
  rewrite gcrun_S, gcopt_stepG. unfold nthV in *.
  rewrite app_nth1 by (rewrite len_runG; lia). exact IH.
Qed.

Lemma runG_optF k i : (k <= n)%nat -> (i <= k)%nat ->
  nthV F64 (gcopt F64 (runG k)) i = nthV F64 optF i.
Proof. intros Hk Hi. unfold optF, gsF. symmetry. now apply runG_prefix. Qed.

Lemma len_optF : length optF = S n.
Proof. apply len_runG. Qed.

Section Sim.
Hypothesis Hm1 : (1 <= m)%nat.

Lemma gstarts1_lt s t : (forall a, In a (gcstarts F64 s) -> (a < t)%nat) ->
  forall a, In a (gstarts1 F64 m s t) -> (a <= t)%nat.
Proof.
  intros Hs a Ha. unfold gstarts1 in Ha. destruct (m <=? S t)%nat.
  - apply in_app_or in Ha as [Ha|[<-|[]]]; [apply Hs in Ha; lia|lia].
  - apply Hs in Ha. lia.
Qed.

Lemma starts_runG k : forall a, In a (gcstarts F64 (runG k)) -> (a < k)%nat.
Proof.
  induction k as [|k IH]; intros a Ha.
  - destruct Ha.
  - rewrite gcrun_S in Ha. apply gcstarts_stepG in Ha.
    apply (gstarts1_lt _ _ IH) in Ha. lia.
Qed.

(* ------------------------------------------------------------------------- *)
(** * 4. Simulation                                                            *)
(* ------------------------------------------------------------------------- *)
Hypothesis Hfin : capa_trace_finite = true.

Definition relF (g : gcst F64) (s : stC) : Prop :=
  optC s = map FR (gcopt F64 g) /\ astartC s = gcastart F64 g /\
  startsC s = gcstarts F64 g /\ pendingC s = gcpending F64 g.

Lemma finF_optF i : (i <= n)%nat -> finF (nthV F64 optF i) = true.
Proof.
  intros Hi. destruct (trace_finite_spec Hfin) as (H & _).
  apply H. apply nthV_In. rewrite len_optF. lia.
Qed.

Section Step.
Variables (g : gcst F64) (s : stC) (t : nat).
Hypothesis Ht : (t < n)%nat.
Hypothesis Hpre : forall i, (i <= t)%nat -> nthV F64 (gcopt F64 g) i = nthV F64 optF i.
Hypothesis Hst : forall a, In a (gcstarts F64 g) -> (a < t)%nat.
Hypothesis Hrel : relF g s.

Lemma sim_starts1 : starts1A m s t = gstarts1 F64 m g t.
Proof. destruct Hrel as (_ & _ & H & _). unfold starts1A, gstarts1. now rewrite H. Qed.

Lemma sim_gcands :
  gcands F64 tiny Sc ac bc m g t = map (fun a => candF a (S t)) (gstarts1 F64 m g t).
Proof.
  unfold gcands. apply map_ext_in. intros a Ha.
  apply (gstarts1_lt _ _ Hst) in Ha. rewrite (Hpre a Ha). reflexivity.
Qed.

Lemma sim_candsA :
  candsA Vct m s t = map FR (map (fun a => candF a (S t)) (gstarts1 F64 m g t)).
Proof. unfold candsA. rewrite sim_starts1, map_map. reflexivity. Qed.

Lemma cands_finite : forallb finF (map (fun a => candF a (S t)) (gstarts1 F64 m g t)) = true.
Proof.
  apply forallb_forall. intros x Hx. apply in_map_iff in Hx as (a & <- & Ha).
  apply (gstarts1_lt _ _ Hst) in Ha.
  destruct (trace_finite_spec Hfin) as (_ & _ & H & _).
  apply (H a (S t)). lia.
Qed.

Lemma sim_choose :
  chooseA Vct Vpt m s t
  = (fst (gchoose F64 tiny Sc Sp ac bc ap bp m g t), FR (snd (gchoose F64 tiny Sc Sp ac bc ap bp m g t)))
  /\ finF (snd (gchoose F64 tiny Sc Sp ac bc ap bp m g t)) = true.
Proof.
  unfold chooseA, gchoose. cbv zeta.
  rewrite sim_candsA, sim_gcands, sim_starts1.
  destruct (argmaxR_FR _ cands_finite) as [Earg Hargfin]. rewrite Earg.
  destruct Hrel as (Ho & _). rewrite Ho, nthR_map_FR, (Hpre t (le_n t)).
  assert (Hot : finF (nthV F64 optF t) = true) by (apply finF_optF; lia).
  assert (Hop : finF (pointF t) = true).
  { destruct (trace_finite_spec Hfin) as (_ & _ & _ & H). apply (H t Ht). }
  change (Vpt t (FR (nthV F64 optF t))) with (FR (pointF t)).
  change (add F64 (nthV F64 optF t) (gPp F64 tiny Sp ap bp t)) with (pointF t).
  cbn [ltb F64].
  destruct (gargmax F64 (map (fun a => candF a (S t)) (gstarts1 F64 m g t))) as [[i oc]|] eqn:E;
    cbn [option_map liftF fst snd].
  - assert (Hoc : finF oc = true) by (apply (Hargfin i oc); reflexivity).
    rewrite <- (F_ltb_FR _ _ Hot Hoc), <- (F_ltb_FR _ _ Hoc Hop), <- (F_ltb_FR _ _ Hot Hop).
    destruct (PrimFloat.ltb (nthV F64 optF t) oc).
    + destruct (PrimFloat.ltb oc (pointF t)); cbn [fst snd]; split; auto.
    + destruct (PrimFloat.ltb (nthV F64 optF t) (pointF t)); cbn [fst snd]; split; auto.
  - rewrite <- (F_ltb_FR _ _ Hot Hop).
    destruct (PrimFloat.ltb (nthV F64 optF t) (pointF t)); cbn [fst snd]; split; auto.
Qed.

Lemma sim_low (best : pfloat) : finF best = true ->
  lowA Vct Wkt m s t (FR best) = glow F64 tiny Sc ac bc m g t best.
Proof.
  intros Hb. unfold lowA, glow. rewrite sim_candsA, sim_gcands, sim_starts1, map_map.
  rewrite (filter_combine_map (fun a => FR (candF a (S t)))).
  rewrite (filter_combine_map (fun a => candF a (S t))).
  apply filter_ext_in. intros a Ha. cbn [fst snd].
  apply (gstarts1_lt _ _ Hst) in Ha.
  destruct (trace_finite_spec Hfin) as (_ & _ & H & _).
  destruct (H a (S t) ltac:(lia)) as (_ & _ & Hp).
  change (Wkt a (S t) (FR (candF a (S t)))) with (FR (pruneF a (S t))).
  change (add F64 (candF a (S t)) (add F64 ac (gsum F64 bc))) with (pruneF a (S t)).
  cbn [ltb F64]. symmetry. apply F_ltb_FR; assumption.
Qed.

Lemma sim_popped lw : poppedA delay s lw = gpopped F64 delay g lw.
Proof. destruct Hrel as (_ & _ & _ & H). unfold poppedA, gpopped. now rewrite H. Qed.

Lemma sim_keep now : keepA m M s t now = gkeep F64 m M g t now.
Proof. unfold keepA, gkeep. now rewrite sim_starts1. Qed.

Lemma sim_step : relF (stepG g t) (stepA Vct Vpt Wkt m M delay s t).
Proof.
  rewrite stepA_eq, gcstep_eq. destruct sim_choose as [Ech Hbest]. rewrite Ech.
  destruct (gchoose F64 tiny Sc Sp ac bc ap bp m g t) as [choice best]. cbn [fst snd] in *.
  rewrite (sim_low best Hbest), sim_popped.
  destruct (gpopped F64 delay g (glow F64 tiny Sc ac bc m g t best)) as [now pend'].
  destruct Hrel as (Ho & Ha & _ & _).
  unfold relF. cbn [optC astartC startsC pendingC gcopt gcastart gcstarts gcpending].
  rewrite Ho, Ha, map_app, sim_keep. cbn [map]. auto.
Qed.
End Step.

Lemma sim_run k : (k <= n)%nat -> relF (runG k) (runA Vct Vpt Wkt m M delay k).
Proof.
  induction k as [|k IH]; intros Hk.
  - change (runG 0) with (gcinit F64). change (runA Vct Vpt Wkt m M delay 0) with initC.
    unfold relF. cbn [gcinit initC optC astartC startsC pendingC gcopt gcastart gcstarts gcpending map].
    cbn [zero F64]. rewrite FR_zero. auto.
  - rewrite gcrun_S, runA_S. apply sim_step.
    + lia.
    + intros i Hi. apply runG_optF; lia.
    + apply starts_runG.
    + apply IH. lia.
Qed.

Lemma optC_runA_FR : optC (runA Vct Vpt Wkt m M delay n) = map FR optF.
Proof. destruct (sim_run n (le_n n)) as (H & _). exact H. Qed.

(** the float run IS the run of the inexact model on the tables of its realised values *)
Theorem gcapa_F64_is_capaA_sec scoresF c p :
  capaG n = (scoresF, c, p) ->
  capaA Vct Vpt Wkt m M delay n = (map FR scoresF, c, p).
Proof.
  intros HG. apply gcapa_eq in HG as [-> Hg].
  destruct (sim_run n (le_n n)) as (Ho & Ha & _ & _).
  unfold capaA. cbv zeta. rewrite Ha, Hg, Ho.
  destruct (gcopt F64 (runG n)); reflexivity.
Qed.

Lemma Grun_FR a : Grun Vct Vpt Wkt m M delay n a = FR (nthV F64 optF a).
Proof. unfold Grun. rewrite optC_runA_FR. apply nthR_map_FR. Qed.
End Sim.

Theorem gcapa_F64_is_capaA scoresF c p :
  (1 <= m)%nat -> capa_trace_finite = true ->
  capaG n = (scoresF, c, p) ->
  capaA Vct Vpt Wkt m M delay n = (map FR scoresF, c, p).
Proof. intros Hm1 Hfin. now apply gcapa_F64_is_capaA_sec. Qed.

(* ------------------------------------------------------------------------- *)
(** * 5. Near-optimality of the binary64 run                                   *)
(* ------------------------------------------------------------------------- *)
Section Main.
Variable pc : nat -> nat -> R.    (* TRUE penalised saving of the collective anomaly [s,e) *)
Variable pp : nat -> R.           (* TRUE penalised saving of the point anomaly at t *)
Variable K : R.                   (* TRUE prune constant alpha + sum beta *)

Theorem capa_F64_near_optimal (eps : R) scoresF c p :
  (2 <= m)%nat -> (m <= M)%nat -> (m <= delay + 1)%nat -> 0 <= eps ->
  (forall s k e, (s + m <= k)%nat -> (k + m <= e)%nat -> (e <= s + M)%nat ->
     pc s e <= pc s k + K + pc k e) ->
  capa_trace_finite = true ->
  (forall a T, (a < T <= n)%nat ->
     Rabs (FR (nthV F64 optF a + PcF a T)%float - (FR (nthV F64 optF a) + pc a T)) <= eps) ->
  (forall t, (t < n)%nat ->
     Rabs (FR (nthV F64 optF t + PpF t)%float - (FR (nthV F64 optF t) + pp t)) <= eps) ->
  (forall a T, (a < T <= n)%nat ->
     Rabs (FR ((nthV F64 optF a + PcF a T) + Kf)%float
           - (FR (nthV F64 optF a + PcF a T)%float + K)) <= eps) ->
  capaG n = (scoresF, c, p) ->
  forall l, Valid m M l n ->
    totalR pc pp l <= totalR pc pp (map to_anom (capa_predict false c p)) + 3 * INR n * eps.
Proof.
  intros Hm2 HmM Hd Heps Hsub Hfin HVc HVp HWk HG.
  assert (Hm1 : (1 <= m)%nat) by lia.
  pose proof (gcapa_F64_is_capaA scoresF c p Hm1 Hfin HG) as HA.
  apply (capaA_near_optimal_run Vct Vpt Wkt m M delay pc pp K eps n (map FR scoresF) c p);
    try assumption;
    intros; rewrite ?(Grun_FR Hm1 Hfin); unfold Vct, Vpt, Wkt; auto.
Qed.

(** the last score the float run reports is within n eps of the true total saving of the anomalies
    it reports *)
Theorem capa_F64_final_close (eps : R) scoresF c p :
  (2 <= m)%nat -> (m <= M)%nat -> 0 <= eps ->
  capa_trace_finite = true ->
  (forall a T, (a < T <= n)%nat ->
     Rabs (FR (nthV F64 optF a + PcF a T)%float - (FR (nthV F64 optF a) + pc a T)) <= eps) ->
  (forall t, (t < n)%nat ->
     Rabs (FR (nthV F64 optF t + PpF t)%float - (FR (nthV F64 optF t) + pp t)) <= eps) ->
  capaG n = (scoresF, c, p) -> (1 <= n)%nat ->
  Rabs (FR (nthV F64 scoresF (n - 1)) - totalR pc pp (map to_anom (capa_predict false c p)))
    <= INR n * eps.
Proof.
  intros Hm2 HmM Heps Hfin HVc HVp HG Hn.
  assert (Hm1 : (1 <= m)%nat) by lia.
  pose proof (gcapa_F64_is_capaA scoresF c p Hm1 Hfin HG) as HA.
  rewrite <- nthR_map_FR.
  apply (capaA_final_close_run Vct Vpt Wkt m M delay pc pp eps n (map FR scoresF) c p);
    try assumption;
    intros; rewrite ?(Grun_FR Hm1 Hfin); unfold Vct, Vpt, Wkt; auto.
Qed.

(* ------------------------------------------------------------------------- *)
(** * 6. eps from the error of the savings and one binary64 rounding           *)
(* ------------------------------------------------------------------------- *)

Lemma add_error (x y : pfloat) (r delta Mag : R) :
  finF x = true -> finF y = true -> finF (x + y)%float = true ->
  Rabs (FR y - r) <= delta -> Rabs (FR x + FR y) <= Mag ->
  Rabs (FR (x + y)%float - (FR x + r)) <= delta + u53 * Mag.
Proof.
  intros Hx Hy Hxy Hd HM. rewrite (FR_add53 x y Hx Hy Hxy).
  pose proof (rnd53_rel (FR x + FR y)) as Hr.
  pose proof u53_nonneg as Hu.
  assert (Hm : u53 * Rabs (FR x + FR y) <= u53 * Mag) by (apply Rmult_le_compat_l; assumption).
  replace (rnd53 (FR x + FR y) - (FR x + r))
    with ((rnd53 (FR x + FR y) - (FR x + FR y)) + (FR y - r)) by ring.
  eapply Rle_trans; [apply Rabs_triang|]. lra.
Qed.

Section Bounds.
Variables (delta Mag : R).
Hypothesis Hfin : capa_trace_finite = true.
Hypothesis Hpc : forall a T, (a < T <= n)%nat -> Rabs (FR (PcF a T) - pc a T) <= delta.
Hypothesis Hpp : forall t, (t < n)%nat -> Rabs (FR (PpF t) - pp t) <= delta.
Hypothesis HK : Rabs (FR Kf - K) <= delta.
Hypothesis HMc : forall a T, (a < T <= n)%nat -> Rabs (FR (nthV F64 optF a) + FR (PcF a T)) <= Mag.
Hypothesis HMp : forall t, (t < n)%nat -> Rabs (FR (nthV F64 optF t) + FR (PpF t)) <= Mag.
Hypothesis HMk : forall a T, (a < T <= n)%nat ->
  Rabs (FR (nthV F64 optF a + PcF a T)%float + FR Kf) <= Mag.
Hypothesis HMag : 0 <= Mag.

Lemma eps_bounds_nonneg : 0 <= delta + u53 * Mag.
Proof.
  pose proof (Rabs_pos (FR Kf - K)). pose proof u53_nonneg.
  assert (0 <= u53 * Mag) by (apply Rmult_le_pos; assumption). lra.
Qed.

Lemma eps_bounds_cand a T : (a < T <= n)%nat ->
  Rabs (FR (nthV F64 optF a + PcF a T)%float - (FR (nthV F64 optF a) + pc a T)) <= delta + u53 * Mag.
Proof.
  intros HT. destruct (trace_finite_spec Hfin) as (Ho & _ & H & _).
  destruct (H a T HT) as (H1 & H2 & _).
  apply add_error; auto.
  apply Ho. apply nthV_In. rewrite len_optF. lia.
Qed.

Lemma eps_bounds_point t : (t < n)%nat ->
  Rabs (FR (nthV F64 optF t + PpF t)%float - (FR (nthV F64 optF t) + pp t)) <= delta + u53 * Mag.
Proof.
  intros Ht. destruct (trace_finite_spec Hfin) as (Ho & _ & _ & H).
  destruct (H t Ht) as (H1 & H2).
  apply add_error; auto.
  apply Ho. apply nthV_In. rewrite len_optF. lia.
Qed.

Lemma eps_bounds_prune a T : (a < T <= n)%nat ->
  Rabs (FR ((nthV F64 optF a + PcF a T) + Kf)%float - (FR (nthV F64 optF a + PcF a T)%float + K))
    <= delta + u53 * Mag.
Proof.
  intros HT. destruct (trace_finite_spec Hfin) as (_ & Hk & H & _).
  destruct (H a T HT) as (_ & H2 & H3).
  apply add_error; auto.
Qed.

Theorem capa_F64_near_optimal_bounds scoresF c p :
  (2 <= m)%nat -> (m <= M)%nat -> (m <= delay + 1)%nat ->
  (forall s k e, (s + m <= k)%nat -> (k + m <= e)%nat -> (e <= s + M)%nat ->
     pc s e <= pc s k + K + pc k e) ->
  capaG n = (scoresF, c, p) ->
  forall l, Valid m M l n ->
    totalR pc pp l
    <= totalR pc pp (map to_anom (capa_predict false c p)) + 3 * INR n * (delta + u53 * Mag).
Proof.
  intros Hm2 HmM Hd Hsub HG.
  apply (capa_F64_near_optimal (delta + u53 * Mag) scoresF c p); try assumption.
  - exact eps_bounds_nonneg.
  - exact eps_bounds_cand.
  - exact eps_bounds_point.
  - exact eps_bounds_prune.
Qed.

Theorem capa_F64_final_close_bounds scoresF c p :
  (2 <= m)%nat -> (m <= M)%nat ->
  capaG n = (scoresF, c, p) -> (1 <= n)%nat ->
  Rabs (FR (nthV F64 scoresF (n - 1)) - totalR pc pp (map to_anom (capa_predict false c p)))
    <= INR n * (delta + u53 * Mag).
Proof.
  intros Hm2 HmM HG Hn.
  apply (capa_F64_final_close (delta + u53 * Mag) scoresF c p); try assumption.
  - exact eps_bounds_nonneg.
  - exact eps_bounds_cand.
  - exact eps_bounds_point.
Qed.
End Bounds.
End Main.
End CapaFloat.

(* ------------------------------------------------------------------------- *)
(** * 7. Non-vacuity: a concrete binary64 instance                             *)
(* ------------------------------------------------------------------------- *)

(** six observations (0.1, 5.2, 0.2, 0.3, 4, 4.1 rounded to binary64), one column; the saving of a
    segment is the float sum of squares, accumulated left to right; the real "negligible beta" test
    [beta < 1e-8] (1e-8 rounded to binary64); alpha_c = 8, beta_c = 1.25, alpha_p = 4, beta_p = 2 *)
Definition ex_x : list pfloat :=
  [0x1.999999999999ap-4; 0x1.4cccccccccccdp+2; 0x1.999999999999ap-3; 0x1.3333333333333p-2; 4;
   0x1.0666666666666p+2]%float.
Definition ex_tiny : pfloat -> bool := fun b => PrimFloat.ltb b 0x1.5798ee2308c3ap-27%float.
Definition ex_sumsq (l : list pfloat) : pfloat := fold_left (fun acc y => acc + y * y)%float l 0%float.
Definition ex_Sc (a T : nat) : list pfloat := [ex_sumsq (firstn (T - a) (skipn a ex_x))].
Definition ex_Sp (t : nat) : list pfloat := [ex_sumsq (firstn 1 (skipn t ex_x))].
Definition ex_ac : pfloat := 8%float.
Definition ex_bc : list pfloat := [1.25%float].
Definition ex_ap : pfloat := 4%float.
Definition ex_bp : list pfloat := [2%float].

(** the scores are NOT the exact real sums: 21.04 is reported as 21.040000000000003 *)
Definition ex_scores : list pfloat :=
  [0; 0x1.50a3d70a3d70bp+4; 0x1.50a3d70a3d70bp+4; 0x1.50a3d70a3d70bp+4; 0x1.0f5c28f5c28f6p+5;
   0x1.65d70a3d70a3ep+5]%float.

Example ex_gcapa :
  gcapa F64 ex_tiny ex_Sc ex_Sp ex_ac ex_bc ex_ap ex_bp 2 4 1 6
  = (ex_scores, [(2, 6)]%nat, [(1, 2)]%nat).
Proof. vm_compute. reflexivity. Qed.

Example ex_trace_finite :
  capa_trace_finite ex_tiny ex_Sc ex_Sp ex_ac ex_ap ex_bc ex_bp 2 4 1 6 = true.
Proof. vm_compute. reflexivity. Qed.

(** the checker rejects an overflowing prune constant (alpha + beta = +infinity) *)
Example ex_trace_overflow :
  capa_trace_finite ex_tiny ex_Sc ex_Sp 0x1.fffffffffffffp+1023%float ex_ap
                    [0x1.fffffffffffffp+1023%float] ex_bp 2 4 1 6 = false.
Proof. vm_compute. reflexivity. Qed.

(** the simulation theorem on this instance: the inexact real model, run on the tables of the real
    values of the floats, returns the anomalies of the float run and the real values of its scores *)
Example ex_simulation :
  capaA (Vct ex_tiny ex_Sc ex_Sp ex_ac ex_ap ex_bc ex_bp 2 4 1 6)
        (Vpt ex_tiny ex_Sc ex_Sp ex_ac ex_ap ex_bc ex_bp 2 4 1 6)
        (Wkt ex_tiny ex_Sc ex_Sp ex_ac ex_ap ex_bc ex_bp 2 4 1 6) 2 4 1 6
  = (map FR ex_scores, [(2, 6)]%nat, [(1, 2)]%nat).
Proof.
  apply gcapa_F64_is_capaA; [lia|exact ex_trace_finite|exact ex_gcapa].
Qed.

(** ... and the main theorem on this instance, for ANY true savings within eps of the float sums *)
Example ex_near_optimal (pc : nat -> nat -> R) (pp : nat -> R) (K eps : R) :
  0 <= eps ->
  (forall s k e, (s + 2 <= k)%nat -> (k + 2 <= e)%nat -> (e <= s + 4)%nat ->
     pc s e <= pc s k + K + pc k e) ->
  let oF := optF ex_tiny ex_Sc ex_Sp ex_ac ex_ap ex_bc ex_bp 2 4 1 6 in
  let kF := Kf ex_ac ex_bc in
  (forall a T, (a < T <= 6)%nat ->
     Rabs (FR (nthV F64 oF a + PcF ex_tiny ex_Sc ex_ac ex_bc a T)%float
           - (FR (nthV F64 oF a) + pc a T)) <= eps) ->
  (forall t, (t < 6)%nat ->
     Rabs (FR (nthV F64 oF t + PpF ex_tiny ex_Sp ex_ap ex_bp t)%float
           - (FR (nthV F64 oF t) + pp t)) <= eps) ->
  (forall a T, (a < T <= 6)%nat ->
     Rabs (FR ((nthV F64 oF a + PcF ex_tiny ex_Sc ex_ac ex_bc a T) + kF)%float
           - (FR (nthV F64 oF a + PcF ex_tiny ex_Sc ex_ac ex_bc a T)%float + K)) <= eps) ->
  forall l, Valid 2 4 l 6 ->
    totalR pc pp l <= totalR pc pp [to_anom (1, 2)%nat; to_anom (2, 6)%nat] + 3 * INR 6 * eps.
Proof.
  intros Heps Hsub oF kF HVc HVp HWk l Hl.
  exact (capa_F64_near_optimal ex_tiny ex_Sc ex_Sp ex_ac ex_ap ex_bc ex_bp 2 4 1 6 pc pp K eps
           ex_scores [(2, 6)]%nat [(1, 2)]%nat ltac:(lia) ltac:(lia) ltac:(lia) Heps Hsub
           ex_trace_finite HVc HVp HWk ex_gcapa l Hl).
Qed.

Print Assumptions gcapa_F64_is_capaA.
Print Assumptions capa_F64_near_optimal.
Print Assumptions capa_F64_final_close.
Print Assumptions capa_F64_near_optimal_bounds.
Print Assumptions ex_simulation.
