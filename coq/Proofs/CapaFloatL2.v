(** END TO END in binary64: univariate CAPA with the L2 saving on one column.

    Data [l : list float] (one column), n = length l, penalties [acf] / [apf] (alpha of the
    collective / point anomalies), betas [[0]] (what CAPA uses: every beta passes the code's
    "beta < 1e-8" test [F64_tiny]), minimum / maximum segment length [m] / [M], pruning delay m - 1,
    float savings   l2ScF l s e = [l2_saving_F l s e],   l2SpF l t = [l2_saving_F l t (S t)]
    ([l2_saving_F]: the operation order of skchange's L2 saving kernel on primitive floats,
    Check/FloatSavingCheck.v).

    FLOAT SHAPE of the single-column penalised saving (lemma [PcF_l2_shape], by computation):
        gpenalise F64 F64_tiny [x] alpha [0]  =  x + (- alpha)
    ONE binary64 addition: the sum of the one-element saving list is the element itself ([gsum] is
    the left fold from the first element, NumPy's order), and the subtraction of alpha is an
    addition of the negation (ONE rounding).
    The prune constant is  Kf = alpha + 0 (the sum of the one-element beta list is 0 itself), whose
    real value is exactly FR alpha (lemma [add_zero_r]).

    Boolean, [vm_compute]-able premises:
      - [l2_saving_all_trace_ok l]     every saving [l2_saving_F l a T], a < T <= n, passes the trace
                                       checker [l2_saving_trace_ok] of Proofs/FloatSaving.v;
      - [capa_trace_finite ..]         every float the CAPA run stores or compares is finite
                                       (Proofs/CapaFloat.v);
      - [capa_mag_ok .. Magf]          every ROUNDED sum the run forms (the penalised savings
                                       saving - alpha, opt[a] + Pc a T, (opt[a] + Pc a T) + K,
                                       opt[t] + Pp t, and K itself) is at most [Magf] in magnitude;
      - the error scale: either a real hypothesis  l2_saving_scale (map FR l) a T <= Sc, or the
        boolean [l2_absmax_ok l Bf] (|x_i| <= Bf), which gives Sc = (n * FR Bf)^2.

    TRUE penalised savings (on the real values [map FR l] of the data):
        pc s e = l2_saving_R (prefix (map FR l)) s e - FR acf,
        pp t   = l2_saving_R (prefix (map FR l)) t (S t) - FR apf
    ([l2_pc_is_PcR]: these are [PcR] / [PpR] of Proofs/CapaReal.v on the column [map FR l] with
    betas [[0]], the objective of [capa_l2_end_to_end]).

    Conclusions ([capa_F64_l2_end_to_end], [capa_F64_l2_final_score], and the [_absmax] versions):
    the anomalies reported by the binary64 run are a valid anomaly set whose total TRUE penalised
    saving is within
        3 n (delta + u53 Mag),  delta = (4.2 n + 5) u53 Sc + u53 Mag,  Mag = FR Magf / (1 - u53)
    of that of ANY valid anomaly set, and the reported final score is within n (delta + u53 Mag) of
    the total true penalised saving of the reported anomalies. *)
From Coq Require Import Reals Lra Lia List Arith ZArith Bool Floats.
From Flocq Require Import Core BinarySingleNaN.
From Flocq Require IEEE754.PrimFloat.
From SK Require Import Lib.Base Model.Capa Proofs.CapaSpec Model.PeltR Proofs.RealLib Model.CapaR
                       Proofs.CapaReal Model.CapaA Proofs.CapaApprox
                       Model.Generic Model.GenericCapa Model.GenericF Proofs.GenericCapaWf
                       Gen.KernelsR Proofs.ScoreKernels
                       Proofs.FloatError Proofs.FloatRefine Proofs.CapaFloat
                       Check.FloatKernelCheck Check.FloatSavingCheck Proofs.FloatSaving
                       Proofs.PeltFloatL2.
Import ListNotations.
Local Open Scope R_scope.

Notation FR := FloatRefine.FR.
Notation float := PrimFloat.float (only parsing).

(* ------------------------------------------------------------------------- *)
(** * 1. Three facts about single binary64 operations                          *)
(* ------------------------------------------------------------------------- *)

Lemma finF_opp (a : float) : finF (- a)%float = finF a.
Proof. rewrite !finF_B, FP.opp_equiv. apply is_finite_Bopp. Qed.

Lemma FR_opp (a : float) : FR (- a)%float = - FR a.
Proof. unfold FloatRefine.FR. rewrite FP.opp_equiv. apply B2R_Bopp. Qed.

(** x + 0 is finite and has the real value of x (it IS x, up to the sign of a zero) *)
Lemma add_zero_r (x : float) :
  finF x = true -> finF (x + 0)%float = true /\ FR (x + 0)%float = FR x.
Proof.
  intros Hx. pose proof FloatRefine.finF_zero as H0.
  rewrite finF_B in Hx, H0. rewrite finF_B. unfold FloatRefine.FR. rewrite FP.add_equiv.
  pose proof (Bplus_correct prec emax FP.Hprec FP.Hmax mode_NE _ _ Hx H0) as H.
  assert (E : B2R (FP.Prim2B 0%float) = 0) by exact FloatRefine.FR_zero.
  rewrite E, Rplus_0_r in H.
  rewrite (round_generic radix2 (fexp prec emax) (round_mode mode_NE) _
             (generic_format_B2R prec emax (FP.Prim2B x))) in H.
  rewrite Rlt_bool_true in H by apply abs_B2R_lt_emax.
  destruct H as (H1 & H2 & _). split; assumption.
Qed.

(** a finite binary64 sum has finite operands *)
Lemma finF_add_inv (x y : float) :
  finF (x + y)%float = true -> finF x = true /\ finF y = true.
Proof.
  rewrite !finF_B, FP.add_equiv.
  destruct (FP.Prim2B x) as [sx|sx| |sx mx ex Hx], (FP.Prim2B y) as [sy|sy| |sy my ey Hy];
    cbn; intros H; try discriminate H; try (split; reflexivity).
  destruct (Bool.eqb sx sy); discriminate H.
Qed.

(* ------------------------------------------------------------------------- *)
(** * 2. The magnitude test on the floats of the CAPA run (any saving tables)  *)
(* ------------------------------------------------------------------------- *)
Section MagCapa.
Variable tiny : float -> bool.
Variable Sc : nat -> nat -> list float.
Variable Sp : nat -> list float.
Variables (ac ap : float) (bc bp : list float).
Variables (m M delay n : nat).
Variable Magf : float.

Notation oF := (optF tiny Sc Sp ac ap bc bp m M delay n).
Notation PcF' := (PcF tiny Sc ac bc).
Notation PpF' := (PpF tiny Sp ap bp).
Notation candF' := (candF tiny Sc Sp ac ap bc bp m M delay n).
Notation pointF' := (pointF tiny Sc Sp ac ap bc bp m M delay n).
Notation pruneF' := (pruneF tiny Sc Sp ac ap bc bp m M delay n).
Notation Kf' := (Kf ac bc).
Notation Mag := (FR Magf / (1 - u53)).

(** every ROUNDED sum the run forms is at most [Magf] in magnitude: the float penalised savings
    (whose last operation is the subtraction  saving - alpha), the prune constant alpha + sum beta,
    and the three kinds of sums of the loop *)
Definition capa_mag_ok : bool :=
  finF Magf && absleF Kf' Magf &&
  forallb (fun T => forallb (fun a => absleF (PcF' a T) Magf && absleF (candF' a T) Magf
                                      && absleF (pruneF' a T) Magf)
                            (seq 0 T)) (seq 1 n) &&
  forallb (fun t => absleF (PpF' t) Magf && absleF (pointF' t) Magf) (seq 0 n).

Lemma capa_mag_ok_spec : capa_mag_ok = true ->
  finF Magf = true /\ absleF Kf' Magf = true /\
  (forall a T, (a < T <= n)%nat ->
     absleF (PcF' a T) Magf = true /\ absleF (candF' a T) Magf = true /\
     absleF (pruneF' a T) Magf = true) /\
  (forall t, (t < n)%nat -> absleF (PpF' t) Magf = true /\ absleF (pointF' t) Magf = true).
Proof.
  unfold capa_mag_ok. intros H.
  apply andb_true_iff in H as [H H4]. apply andb_true_iff in H as [H H3].
  apply andb_true_iff in H as [H1 H2].
  split; [exact H1|split; [exact H2|split]].
  - intros a T [HaT HTn].
    pose proof (proj1 (forallb_forall _ _) H3 T) as HT.
    assert (HinT : In T (seq 1 n)) by (apply in_seq; lia).
    specialize (HT HinT). cbv beta in HT.
    pose proof (proj1 (forallb_forall _ _) HT a) as Ha.
    assert (Hina : In a (seq 0 T)) by (apply in_seq; lia).
    specialize (Ha Hina). cbv beta in Ha.
    apply andb_true_iff in Ha as [Ha Hc]. apply andb_true_iff in Ha as [Ha Hb]. auto.
  - intros t Ht.
    pose proof (proj1 (forallb_forall _ _) H4 t) as HT.
    assert (Hint : In t (seq 0 n)) by (apply in_seq; lia).
    specialize (HT Hint). cbv beta in HT.
    apply andb_true_iff in HT as [Ha Hb]. auto.
Qed.

Hypothesis fin : capa_trace_finite tiny Sc Sp ac ap bc bp m M delay n = true.
Hypothesis mag : capa_mag_ok = true.

Lemma capa_Mag_nonneg : 0 <= Mag.
Proof.
  destruct (capa_mag_ok_spec mag) as (HM & HK & _).
  destruct (trace_finite_spec _ _ _ _ _ _ _ _ _ _ _ fin) as (_ & Hk & _).
  pose proof (absleF_FR _ _ Hk HM HK) as H. pose proof (Rabs_pos (FR Kf')) as H0.
  pose proof u53_lt_1 as Hu. apply Rmult_le_pos; [lra|].
  left. apply Rinv_0_lt_compat. lra.
Qed.

Lemma finF_oF a : (a <= n)%nat -> finF (nthV F64 oF a) = true.
Proof.
  intros Ha. destruct (trace_finite_spec _ _ _ _ _ _ _ _ _ _ _ fin) as (Ho & _).
  apply Ho. apply nthV_In. rewrite len_optF. lia.
Qed.

(** the three magnitude hypotheses of [capa_F64_near_optimal_bounds], from the test *)
Lemma magc_cand : forall a T, (a < T <= n)%nat ->
  Rabs (FR (nthV F64 oF a) + FR (PcF' a T)) <= Mag.
Proof.
  intros a T HaT. destruct (capa_mag_ok_spec mag) as (HM & _ & Hc & _).
  destruct (trace_finite_spec _ _ _ _ _ _ _ _ _ _ _ fin) as (_ & _ & Hf & _).
  destruct (Hf a T HaT) as (F1 & F2 & _). destruct (Hc a T HaT) as (_ & C2 & _).
  apply sum_mag_from_rounded; auto. apply finF_oF. lia.
Qed.

Lemma magc_point : forall t, (t < n)%nat ->
  Rabs (FR (nthV F64 oF t) + FR (PpF' t)) <= Mag.
Proof.
  intros t Ht. destruct (capa_mag_ok_spec mag) as (HM & _ & _ & Hp).
  destruct (trace_finite_spec _ _ _ _ _ _ _ _ _ _ _ fin) as (_ & _ & _ & Hf).
  destruct (Hf t Ht) as (F1 & F2). destruct (Hp t Ht) as (_ & C2).
  apply sum_mag_from_rounded; auto. apply finF_oF. lia.
Qed.

Lemma magc_prune : forall a T, (a < T <= n)%nat ->
  Rabs (FR (nthV F64 oF a + PcF' a T)%float + FR Kf') <= Mag.
Proof.
  intros a T HaT. destruct (capa_mag_ok_spec mag) as (HM & _ & Hc & _).
  destruct (trace_finite_spec _ _ _ _ _ _ _ _ _ _ _ fin) as (_ & Hk & Hf & _).
  destruct (Hf a T HaT) as (_ & F2 & F3). destruct (Hc a T HaT) as (_ & _ & C3).
  apply sum_mag_from_rounded; auto.
Qed.
End MagCapa.

(* ------------------------------------------------------------------------- *)
(** * 3. The float shape and the error of the single-column penalised saving   *)
(* ------------------------------------------------------------------------- *)

Definition l2ScF (l : list float) (s e : nat) : list float := [l2_saving_F l s e].
Definition l2SpF (l : list float) (t : nat) : list float := [l2_saving_F l t (S t)].

(** the float shape, by computation: saving + (- alpha) *)
Lemma penalise_l2_shape (x alpha : float) :
  gpenalise F64 F64_tiny [x] alpha [0%float] = (x + - alpha)%float.
Proof. reflexivity. Qed.

Lemma PcF_l2_shape l acf a T :
  PcF F64_tiny (l2ScF l) acf [0%float] a T = (l2_saving_F l a T + - acf)%float.
Proof. reflexivity. Qed.

Lemma PpF_l2_shape l apf t :
  PpF F64_tiny (l2SpF l) apf [0%float] t = (l2_saving_F l t (S t) + - apf)%float.
Proof. reflexivity. Qed.

Lemma Kf_l2_shape acf : Kf acf [0%float] = (acf + 0)%float.
Proof. reflexivity. Qed.

(** the real value of the prune constant is exactly FR alpha *)
Lemma Kf_l2_value acf : finF (Kf acf [0%float]) = true -> FR (Kf acf [0%float]) = FR acf.
Proof.
  intros H. rewrite Kf_l2_shape in *.
  apply finF_add_inv in H as [Ha _]. exact (proj2 (add_zero_r acf Ha)).
Qed.

(** ONE penalised saving: error of the saving + one rounding of the subtraction of alpha *)
Lemma l2_pen_error (x af Magf : float) (r dS : R) :
  finF x = true -> finF (x + - af)%float = true ->
  finF Magf = true -> absleF (x + - af)%float Magf = true ->
  Rabs (FR x - r) <= dS ->
  Rabs (FR (x + - af)%float - (r - FR af)) <= dS + u53 * (FR Magf / (1 - u53)).
Proof.
  intros Hx Hz HM Hle Hd.
  destruct (finF_add_inv _ _ Hz) as [_ Hna].
  pose proof (sum_mag_from_rounded _ _ _ Hx Hna Hz HM Hle) as Hmag.
  rewrite (FR_add53 _ _ Hx Hna Hz). rewrite FR_opp in *.
  pose proof (rnd53_rel (FR x + - FR af)) as Hr. pose proof u53_nonneg as Hu.
  assert (Hm : u53 * Rabs (FR x + - FR af) <= u53 * (FR Magf / (1 - u53)))
    by (apply Rmult_le_compat_l; assumption).
  replace (rnd53 (FR x + - FR af) - (r - FR af))
    with ((rnd53 (FR x + - FR af) - (FR x + - FR af)) + (FR x - r)) by ring.
  eapply Rle_trans; [apply Rabs_triang|]. lra.
Qed.

(* ------------------------------------------------------------------------- *)
(** * 4. The saving table: every cut passes the trace checker; the error scale *)
(* ------------------------------------------------------------------------- *)

(** [l2_saving_trace_ok l a T] for every a < T <= length l *)
Definition l2_saving_all_trace_ok (l : list float) : bool :=
  forallb (fun T => forallb (fun a => l2_saving_trace_ok l a T) (seq 0 T)) (seq 0 (S (length l))).

Lemma l2_saving_all_trace_ok_spec l :
  l2_saving_all_trace_ok l = true ->
  forall a T, (a < T <= length l)%nat -> l2_saving_trace_ok l a T = true.
Proof.
  unfold l2_saving_all_trace_ok. intros H a T HaT. rewrite forallb_forall in H.
  specialize (H T). rewrite in_seq in H. specialize (H ltac:(lia)).
  rewrite forallb_forall in H. apply H. rewrite in_seq. lia.
Qed.

(** the error of the whole saving table from a bound [Sc] on the error scale *)
Lemma l2_saving_table_error (l : list float) (Sc : R) :
  INR (length l) * u53 <= 1 / 100 ->
  l2_saving_all_trace_ok l = true ->
  (forall a T, (a < T <= length l)%nat -> l2_saving_scale (map FR l) a T <= Sc) ->
  forall a T, (a < T <= length l)%nat ->
    Rabs (FR (l2_saving_F l a T) - l2_saving_R (prefix (map FR l)) a T)
    <= (42 / 10 * INR (length l) + 5) * u53 * Sc.
Proof.
  intros Hsmall Hok HSc a T HaT.
  pose proof (l2_saving_all_trace_ok_spec l Hok a T HaT) as Htr.
  pose proof u53_pos as Hu.
  assert (HTn : INR T <= INR (length l)) by (apply le_INR; lia).
  pose proof (pos_INR T) as HT0.
  assert (HsmallT : INR T * u53 <= 1 / 100).
  { eapply Rle_trans; [|exact Hsmall]. apply Rmult_le_compat_r; lra. }
  eapply Rle_trans; [exact (l2_saving_F_vs_R l a T Htr HsmallT)|].
  fold (l2_saving_scale (map FR l) a T).
  pose proof (l2_saving_scale_nonneg (map FR l) a T (proj1 HaT)) as HS0.
  pose proof (HSc a T HaT) as HS.
  apply Rmult_le_compat; [| exact HS0 | | exact HS].
  - apply Rmult_le_pos; lra.
  - apply Rmult_le_compat_r; lra.
Qed.

(** the error scale of every saving is at most (n B)^2 when |x_i| <= B *)
Lemma l2_saving_scale_le_absmax (xs : list R) (B : R) :
  (forall x, In x xs -> Rabs x <= B) ->
  forall a T, (a < T <= length xs)%nat ->
    l2_saving_scale xs a T <= (INR (length xs) * B) ^ 2.
Proof.
  intros HB a T HaT. unfold l2_saving_scale.
  set (n := length xs). set (k := firstn T xs).
  assert (Hk : forall x, In x k -> Rabs x <= B).
  { intros x Hx. apply HB. unfold k in Hx.
    rewrite <- (firstn_skipn T xs). apply in_or_app. now left. }
  assert (Hlen : length k = T) by (unfold k; rewrite firstn_length; lia).
  assert (HB0 : 0 <= B).
  { destruct k as [|x k'] eqn:E; [cbn [length] in Hlen; lia|].
    eapply Rle_trans; [apply Rabs_pos|apply (Hk x); now left]. }
  assert (HTn : INR T <= INR n) by (apply le_INR; unfold n; lia).
  pose proof (pos_INR T) as HT0.
  assert (H1 : 0 <= sumR (map Rabs k) <= INR n * B).
  { split; [apply sumR_abs_nonneg|]. eapply Rle_trans.
    - apply (sumR_map_le_const Rabs B). exact Hk.
    - rewrite Hlen. apply Rmult_le_compat_r; assumption. }
  assert (Hd : 1 <= INR (T - a)).
  { change 1 with (INR 1). apply le_INR. lia. }
  apply Rle_trans with (sumR (map Rabs k) ^ 2).
  - apply Rmult_le_reg_r with (INR (T - a)); [lra|].
    unfold Rdiv. rewrite Rmult_assoc, Rinv_l by lra.
    pose proof (pow2_ge_0 (sumR (map Rabs k))) as Hp. nra.
  - replace (sumR (map Rabs k) ^ 2) with (sumR (map Rabs k) * sumR (map Rabs k)) by ring.
    replace ((INR n * B) ^ 2) with ((INR n * B) * (INR n * B)) by ring.
    apply Rmult_le_compat; lra.
Qed.

Lemma l2_saving_scale_absmax_ok (l : list float) (Bf : float) :
  l2_absmax_ok l Bf = true ->
  forall a T, (a < T <= length l)%nat ->
    l2_saving_scale (map FR l) a T <= (INR (length l) * FR Bf) ^ 2.
Proof.
  intros H a T HaT.
  pose proof (l2_saving_scale_le_absmax (map FR l) (FR Bf) (l2_absmax_ok_spec l Bf H) a T) as H'.
  rewrite map_length in H'. now apply H'.
Qed.

(* ------------------------------------------------------------------------- *)
(** * 5. The hypotheses of [capa_F64_near_optimal_bounds] for the L2 saving    *)
(* ------------------------------------------------------------------------- *)

(** the sub-additivity hypothesis for the TRUE penalised L2 savings and K = alpha:
    pc s e <= pc s k + K + pc k e   (from [l2_saving_subadditive]; 1 <= m suffices, and the
    upper bound e <= s + M is not used) *)
Lemma l2_pc_subadditive (xs : list R) (alpha : R) (m : nat) :
  (1 <= m)%nat ->
  forall s k e, (s + m <= k)%nat -> (k + m <= e)%nat ->
    l2_saving_R (prefix xs) s e - alpha
    <= (l2_saving_R (prefix xs) s k - alpha) + alpha + (l2_saving_R (prefix xs) k e - alpha).
Proof.
  intros Hm s k e H1 H2.
  pose proof (l2_saving_subadditive (prefix xs) s k e ltac:(lia) ltac:(lia)) as H. lra.
Qed.

(** the true penalised savings are those of the real-number model of CAPA (Proofs/CapaReal.v) on
    the single column [xs] with betas [[0]] *)
Lemma l2_pc_is_PcR (xs : list R) (alpha : R) s e :
  PcR (l2Sc [xs]) alpha [0] s e = l2_saving_R (prefix xs) s e - alpha.
Proof.
  unfold PcR, penaliseR, all_tinyR, l2Sc. cbn [forallb map sumR].
  unfold Rleb. destruct (Rle_dec 0 0) as [_|H]; [cbn [andb]; ring|exfalso; lra].
Qed.

Lemma l2_pp_is_PpR (xs : list R) (alpha : R) t :
  PpR (l2Sp [xs]) alpha [0] t = l2_saving_R (prefix xs) t (S t) - alpha.
Proof.
  unfold PpR, penaliseR, all_tinyR, l2Sp. cbn [forallb map sumR].
  unfold Rleb. destruct (Rle_dec 0 0) as [_|H]; [cbn [andb]; ring|exfalso; lra].
Qed.

(** CORE: any bound [dS >= 0] on the error of the float savings *)
Section L2Core.
Variable l : list float.
Variables acf apf Magf : float.
Variables m M : nat.
Variable dS : R.
Notation n := (length l).
Notation pc := (fun s e : nat => l2_saving_R (prefix (map FR l)) s e - FR acf).
Notation pp := (fun t : nat => l2_saving_R (prefix (map FR l)) t (S t) - FR apf).
Notation Mag := (FR Magf / (1 - u53)).
Notation z := [0%float].

Hypothesis Htr : l2_saving_all_trace_ok l = true.
Hypothesis Hfin : capa_trace_finite F64_tiny (l2ScF l) (l2SpF l) acf apf z z m M (m - 1) n = true.
Hypothesis Hmag : capa_mag_ok F64_tiny (l2ScF l) (l2SpF l) acf apf z z m M (m - 1) n Magf = true.
Hypothesis HdS0 : 0 <= dS.
Hypothesis HdS : forall a T, (a < T <= n)%nat ->
  Rabs (FR (l2_saving_F l a T) - l2_saving_R (prefix (map FR l)) a T) <= dS.

(** 3. of the brief: the error of the float penalised savings *)
Lemma l2_PcF_error a T : (a < T <= n)%nat ->
  Rabs (FR (PcF F64_tiny (l2ScF l) acf z a T) - pc a T) <= dS + u53 * Mag.
Proof.
  intros HaT. rewrite PcF_l2_shape.
  destruct (trace_finite_spec _ _ _ _ _ _ _ _ _ _ _ Hfin) as (_ & _ & Hf & _).
  destruct (capa_mag_ok_spec _ _ _ _ _ _ _ _ _ _ _ _ Hmag) as (HM & _ & Hc & _).
  destruct (Hf a T HaT) as (F1 & _). destruct (Hc a T HaT) as (C1 & _).
  rewrite PcF_l2_shape in F1, C1.
  apply l2_pen_error; try assumption.
  - apply l2_saving_trace_ok_finite. now apply l2_saving_all_trace_ok_spec.
  - now apply HdS.
Qed.

Lemma l2_PpF_error t : (t < n)%nat ->
  Rabs (FR (PpF F64_tiny (l2SpF l) apf z t) - pp t) <= dS + u53 * Mag.
Proof.
  intros Ht. rewrite PpF_l2_shape.
  destruct (trace_finite_spec _ _ _ _ _ _ _ _ _ _ _ Hfin) as (_ & _ & _ & Hf).
  destruct (capa_mag_ok_spec _ _ _ _ _ _ _ _ _ _ _ _ Hmag) as (HM & _ & _ & Hc).
  destruct (Hf t Ht) as (F1 & _). destruct (Hc t Ht) as (C1 & _).
  rewrite PpF_l2_shape in F1, C1.
  apply l2_pen_error; try assumption.
  - apply l2_saving_trace_ok_finite. apply l2_saving_all_trace_ok_spec; [assumption|lia].
  - apply HdS. lia.
Qed.

Lemma l2_Kf_error : Rabs (FR (Kf acf z) - FR acf) <= dS + u53 * Mag.
Proof.
  destruct (trace_finite_spec _ _ _ _ _ _ _ _ _ _ _ Hfin) as (_ & Hk & _).
  rewrite (Kf_l2_value acf Hk).
  replace (FR acf - FR acf) with 0 by ring. rewrite Rabs_R0.
  pose proof (capa_Mag_nonneg _ _ _ _ _ _ _ _ _ _ _ _ Hfin Hmag) as H0.
  pose proof u53_pos as Hu.
  assert (0 <= u53 * Mag) by (apply Rmult_le_pos; lra). lra.
Qed.

Lemma capa_F64_l2_core scoresF c p :
  (2 <= m)%nat -> (m <= M)%nat ->
  gcapa F64 F64_tiny (l2ScF l) (l2SpF l) acf z apf z m M (m - 1) n = (scoresF, c, p) ->
  forall l', Valid m M l' n ->
    totalR pc pp l'
    <= totalR pc pp (map to_anom (capa_predict false c p))
       + 3 * INR n * ((dS + u53 * Mag) + u53 * Mag).
Proof.
  intros Hm HmM HG.
  refine (capa_F64_near_optimal_bounds F64_tiny (l2ScF l) (l2SpF l) acf apf z z m M (m - 1) n
            pc pp (FR acf) (dS + u53 * Mag) Mag Hfin l2_PcF_error l2_PpF_error l2_Kf_error
            _ _ _ _ scoresF c p Hm HmM _ _ HG).
  - apply magc_cand; assumption.
  - apply magc_point; assumption.
  - apply magc_prune; assumption.
  - apply (capa_Mag_nonneg _ _ _ _ _ _ _ _ _ _ _ _ Hfin Hmag).
  - lia.
  - intros s k e H1 H2 _. apply (l2_pc_subadditive (map FR l) (FR acf) m); lia.
Qed.

Lemma capa_F64_l2_core_final scoresF c p :
  (2 <= m)%nat -> (m <= M)%nat -> (1 <= n)%nat ->
  gcapa F64 F64_tiny (l2ScF l) (l2SpF l) acf z apf z m M (m - 1) n = (scoresF, c, p) ->
  Rabs (FR (nthV F64 scoresF (n - 1)) - totalR pc pp (map to_anom (capa_predict false c p)))
  <= INR n * ((dS + u53 * Mag) + u53 * Mag).
Proof.
  intros Hm HmM Hn HG.
  refine (capa_F64_final_close_bounds F64_tiny (l2ScF l) (l2SpF l) acf apf z z m M (m - 1) n
            pc pp (FR acf) (dS + u53 * Mag) Mag Hfin l2_PcF_error l2_PpF_error l2_Kf_error
            _ _ _ scoresF c p Hm HmM HG Hn).
  - apply magc_cand; assumption.
  - apply magc_point; assumption.
  - apply (capa_Mag_nonneg _ _ _ _ _ _ _ _ _ _ _ _ Hfin Hmag).
Qed.
End L2Core.

(* ------------------------------------------------------------------------- *)
(** * 6. MAIN THEOREM                                                          *)
(* ------------------------------------------------------------------------- *)

(** The anomalies reported by the binary64 CAPA run on the binary64 L2 savings of the column [l]
    are a valid anomaly set, and their total TRUE penalised saving (on the real values [map FR l]
    of the data, penalties [FR acf] / [FR apf]) is within 3 n (delta + u53 Mag) of that of ANY
    valid anomaly set.  (No sign condition on the penalties is needed.) *)
Theorem capa_F64_l2_end_to_end (l : list float) (acf apf Magf : float) (m M : nat) (Sc : R)
    (scoresF : list float) (c p : list (nat * nat)) :
  let n := length l in
  (2 <= m)%nat -> (m <= M)%nat -> INR n * u53 <= 1 / 100 ->
  l2_saving_all_trace_ok l = true ->
  capa_trace_finite F64_tiny (l2ScF l) (l2SpF l) acf apf [0%float] [0%float] m M (m - 1) n = true ->
  capa_mag_ok F64_tiny (l2ScF l) (l2SpF l) acf apf [0%float] [0%float] m M (m - 1) n Magf = true ->
  (forall a T, (a < T <= n)%nat -> l2_saving_scale (map FR l) a T <= Sc) ->
  gcapa F64 F64_tiny (l2ScF l) (l2SpF l) acf [0%float] apf [0%float] m M (m - 1) n
    = (scoresF, c, p) ->
  let pc := fun s e : nat => l2_saving_R (prefix (map FR l)) s e - FR acf in
  let pp := fun t : nat => l2_saving_R (prefix (map FR l)) t (S t) - FR apf in
  let out := map to_anom (capa_predict false c p) in
  let Mag := FR Magf / (1 - u53) in
  let delta := (42 / 10 * INR n + 5) * u53 * Sc + u53 * Mag in
  Valid m M out n /\
  forall l', Valid m M l' n ->
    totalR pc pp l' <= totalR pc pp out + 3 * INR n * (delta + u53 * Mag).
Proof.
  intros n Hm HmM Hsmall Htr Hfin Hmag HSc HG pc pp out Mag delta.
  split.
  { exact (proj1 (F64_capa_output_valid _ _ _ _ _ _ m M (m - 1) n scoresF c p
                    (conj Hm HmM) HG)). }
  intros l' Hl'.
  destruct (Nat.eq_dec n 0) as [Hn0|Hn0].
  - (* no data: the tolerance is 0 whatever delta is *)
    pose proof (capa_F64_l2_core l acf apf Magf m M 0 Htr Hfin Hmag (Rle_refl 0)) as H.
    fold n in H.
    assert (Hvac : forall a T, (a < T <= n)%nat ->
       Rabs (FR (l2_saving_F l a T) - l2_saving_R (prefix (map FR l)) a T) <= 0)
      by (intros a T HaT; exfalso; lia).
    specialize (H Hvac scoresF c p Hm HmM HG l' Hl').
    fold pc pp out Mag in H. rewrite Hn0 in H |- *. cbn [INR] in H |- *. lra.
  - assert (Hn1 : (1 <= n)%nat) by lia.
    pose proof u53_pos as Hu. pose proof (pos_INR n) as Hn.
    assert (HSc0 : 0 <= Sc).
    { eapply Rle_trans; [|apply (HSc 0%nat 1%nat); lia].
      apply l2_saving_scale_nonneg. lia. }
    assert (HdS0 : 0 <= (42 / 10 * INR n + 5) * u53 * Sc).
    { apply Rmult_le_pos; [apply Rmult_le_pos; lra|exact HSc0]. }
    exact (capa_F64_l2_core l acf apf Magf m M _ Htr Hfin Hmag HdS0
             (l2_saving_table_error l Sc Hsmall Htr HSc) scoresF c p Hm HmM HG l' Hl').
Qed.

(** COMPANION: the reported final score (the last entry of the score array, a float) is within
    n (delta + u53 Mag) of the total true penalised saving of the reported anomalies *)
Theorem capa_F64_l2_final_score (l : list float) (acf apf Magf : float) (m M : nat) (Sc : R)
    (scoresF : list float) (c p : list (nat * nat)) :
  let n := length l in
  (2 <= m)%nat -> (m <= M)%nat -> (1 <= n)%nat -> INR n * u53 <= 1 / 100 ->
  l2_saving_all_trace_ok l = true ->
  capa_trace_finite F64_tiny (l2ScF l) (l2SpF l) acf apf [0%float] [0%float] m M (m - 1) n = true ->
  capa_mag_ok F64_tiny (l2ScF l) (l2SpF l) acf apf [0%float] [0%float] m M (m - 1) n Magf = true ->
  (forall a T, (a < T <= n)%nat -> l2_saving_scale (map FR l) a T <= Sc) ->
  gcapa F64 F64_tiny (l2ScF l) (l2SpF l) acf [0%float] apf [0%float] m M (m - 1) n
    = (scoresF, c, p) ->
  let pc := fun s e : nat => l2_saving_R (prefix (map FR l)) s e - FR acf in
  let pp := fun t : nat => l2_saving_R (prefix (map FR l)) t (S t) - FR apf in
  let out := map to_anom (capa_predict false c p) in
  let Mag := FR Magf / (1 - u53) in
  let delta := (42 / 10 * INR n + 5) * u53 * Sc + u53 * Mag in
  Rabs (FR (nthV F64 scoresF (n - 1)) - totalR pc pp out) <= INR n * (delta + u53 * Mag).
Proof.
  intros n Hm HmM Hn1 Hsmall Htr Hfin Hmag HSc HG pc pp out Mag delta.
  pose proof u53_pos as Hu. pose proof (pos_INR n) as Hn.
  assert (HSc0 : 0 <= Sc).
  { eapply Rle_trans; [|apply (HSc 0%nat 1%nat); lia].
    apply l2_saving_scale_nonneg. lia. }
  assert (HdS0 : 0 <= (42 / 10 * INR n + 5) * u53 * Sc).
  { apply Rmult_le_pos; [apply Rmult_le_pos; lra|exact HSc0]. }
  exact (capa_F64_l2_core_final l acf apf Magf m M _ Htr Hfin Hmag HdS0
           (l2_saving_table_error l Sc Hsmall Htr HSc) scoresF c p Hm HmM Hn1 HG).
Qed.

(** MAIN THEOREM, every premise boolean (or a linear-arithmetic fact about n, m, M) *)
Theorem capa_F64_l2_end_to_end_absmax (l : list float) (acf apf Magf Bf : float) (m M : nat)
    (scoresF : list float) (c p : list (nat * nat)) :
  let n := length l in
  (2 <= m)%nat -> (m <= M)%nat -> INR n * u53 <= 1 / 100 ->
  l2_saving_all_trace_ok l = true ->
  capa_trace_finite F64_tiny (l2ScF l) (l2SpF l) acf apf [0%float] [0%float] m M (m - 1) n = true ->
  capa_mag_ok F64_tiny (l2ScF l) (l2SpF l) acf apf [0%float] [0%float] m M (m - 1) n Magf = true ->
  l2_absmax_ok l Bf = true ->
  gcapa F64 F64_tiny (l2ScF l) (l2SpF l) acf [0%float] apf [0%float] m M (m - 1) n
    = (scoresF, c, p) ->
  let pc := fun s e : nat => l2_saving_R (prefix (map FR l)) s e - FR acf in
  let pp := fun t : nat => l2_saving_R (prefix (map FR l)) t (S t) - FR apf in
  let out := map to_anom (capa_predict false c p) in
  let Mag := FR Magf / (1 - u53) in
  let Sc := (INR n * FR Bf) ^ 2 in
  let delta := (42 / 10 * INR n + 5) * u53 * Sc + u53 * Mag in
  Valid m M out n /\
  forall l', Valid m M l' n ->
    totalR pc pp l' <= totalR pc pp out + 3 * INR n * (delta + u53 * Mag).
Proof.
  intros n Hm HmM Hsmall Htr Hfin Hmag Habs HG pc pp out Mag Sc delta.
  apply (capa_F64_l2_end_to_end l acf apf Magf m M Sc scoresF c p); try assumption.
  exact (l2_saving_scale_absmax_ok l Bf Habs).
Qed.

Theorem capa_F64_l2_final_score_absmax (l : list float) (acf apf Magf Bf : float) (m M : nat)
    (scoresF : list float) (c p : list (nat * nat)) :
  let n := length l in
  (2 <= m)%nat -> (m <= M)%nat -> (1 <= n)%nat -> INR n * u53 <= 1 / 100 ->
  l2_saving_all_trace_ok l = true ->
  capa_trace_finite F64_tiny (l2ScF l) (l2SpF l) acf apf [0%float] [0%float] m M (m - 1) n = true ->
  capa_mag_ok F64_tiny (l2ScF l) (l2SpF l) acf apf [0%float] [0%float] m M (m - 1) n Magf = true ->
  l2_absmax_ok l Bf = true ->
  gcapa F64 F64_tiny (l2ScF l) (l2SpF l) acf [0%float] apf [0%float] m M (m - 1) n
    = (scoresF, c, p) ->
  let pc := fun s e : nat => l2_saving_R (prefix (map FR l)) s e - FR acf in
  let pp := fun t : nat => l2_saving_R (prefix (map FR l)) t (S t) - FR apf in
  let out := map to_anom (capa_predict false c p) in
  let Mag := FR Magf / (1 - u53) in
  let Sc := (INR n * FR Bf) ^ 2 in
  let delta := (42 / 10 * INR n + 5) * u53 * Sc + u53 * Mag in
  Rabs (FR (nthV F64 scoresF (n - 1)) - totalR pc pp out) <= INR n * (delta + u53 * Mag).
Proof.
  intros n Hm HmM Hn1 Hsmall Htr Hfin Hmag Habs HG pc pp out Mag Sc delta.
  apply (capa_F64_l2_final_score l acf apf Magf m M Sc scoresF c p); try assumption.
  exact (l2_saving_scale_absmax_ok l Bf Habs).
Qed.

(* ------------------------------------------------------------------------- *)
(** * 7. Non-vacuity: a concrete run                                           *)
(* ------------------------------------------------------------------------- *)

(** eight observations around 0 with one spike (6, at index 1) and one collective anomaly
    (level 3 on [4,7)); alpha_collective = 8, alpha_point = 12, m = 2, M = 4, delay = m - 1 = 1 *)
Definition e3_xs : list float := [0.125; 6; 0.25; -0.125; 3; 3.25; 2.75; 0.125]%float.
Definition e3_ac : float := 8%float.
Definition e3_ap : float := 12%float.
Definition e3_Mag : float := 64%float.
Definition e3_B : float := 6%float.
Definition e3_scores : list float := [0; 24; 24; 24; 24; 35.53125; 43; 43]%float.

(** the output of the binary64 run, displayed: scores, collective anomalies, point anomalies *)
Eval vm_compute in
  (gcapa F64 F64_tiny (l2ScF e3_xs) (l2SpF e3_xs) e3_ac [0%float] e3_ap [0%float] 2 4 1 8).

Example e3_gcapa :
  gcapa F64 F64_tiny (l2ScF e3_xs) (l2SpF e3_xs) e3_ac [0%float] e3_ap [0%float] 2 4 1 8
  = (e3_scores, [(4, 7)]%nat, [(1, 2)]%nat).
Proof. vm_compute. reflexivity. Qed.
Example e3_anoms :
  map to_anom (capa_predict false [(4, 7)]%nat [(1, 2)]%nat) = [Pt 1; Coll 4 7].
Proof. vm_compute. reflexivity. Qed.

(** every premise is TRUE, by computation *)
Example e3_all_trace_ok : l2_saving_all_trace_ok e3_xs = true.
Proof. vm_compute. reflexivity. Qed.
Example e3_trace_finite :
  capa_trace_finite F64_tiny (l2ScF e3_xs) (l2SpF e3_xs) e3_ac e3_ap [0%float] [0%float] 2 4 1 8
  = true.
Proof. vm_compute. reflexivity. Qed.
Example e3_mag_ok :
  capa_mag_ok F64_tiny (l2ScF e3_xs) (l2SpF e3_xs) e3_ac e3_ap [0%float] [0%float] 2 4 1 8 e3_Mag
  = true.
Proof. vm_compute. reflexivity. Qed.
Example e3_absmax_ok : l2_absmax_ok e3_xs e3_B = true.
Proof. vm_compute. reflexivity. Qed.

(** the checkers are not trivially true: a magnitude bound that is too small, a bound on the data
    that is too small, data whose squares underflow, and an infinite penalty are rejected *)
Example e3_mag_rejected :
  capa_mag_ok F64_tiny (l2ScF e3_xs) (l2SpF e3_xs) e3_ac e3_ap [0%float] [0%float] 2 4 1 8 32%float
  = false.
Proof. vm_compute. reflexivity. Qed.
Example e3_absmax_rejected : l2_absmax_ok e3_xs 5.5%float = false.
Proof. vm_compute. reflexivity. Qed.
Example e3_all_trace_rejected :
  l2_saving_all_trace_ok [0x1p-600; 6; 0.25; -0.125; 3; 3.25; 2.75; 0.125]%float = false.
Proof. vm_compute. reflexivity. Qed.
Example e3_trace_finite_rejected :
  capa_trace_finite F64_tiny (l2ScF e3_xs) (l2SpF e3_xs) infinity e3_ap [0%float] [0%float] 2 4 1 8
  = false.
Proof. vm_compute. reflexivity. Qed.

(** the main theorem on this instance, in terms of the float data *)
Example e3_end_to_end_F :
  let pc := fun s e : nat => l2_saving_R (prefix (map FR e3_xs)) s e - FR e3_ac in
  let pp := fun t : nat => l2_saving_R (prefix (map FR e3_xs)) t (S t) - FR e3_ap in
  let Mag := FR e3_Mag / (1 - u53) in
  let delta := (42 / 10 * INR 8 + 5) * u53 * (INR 8 * FR e3_B) ^ 2 + u53 * Mag in
  Valid 2 4 [Pt 1; Coll 4 7] 8 /\
  forall l', Valid 2 4 l' 8 ->
    totalR pc pp l' <= totalR pc pp [Pt 1; Coll 4 7] + 3 * INR 8 * (delta + u53 * Mag).
Proof.
  pose proof (capa_F64_l2_end_to_end_absmax e3_xs e3_ac e3_ap e3_Mag e3_B 2 4
                e3_scores [(4, 7)]%nat [(1, 2)]%nat) as H.
  cbv zeta in H. change (length e3_xs) with 8%nat in H. change (2 - 1)%nat with 1%nat in H.
  assert (Hsmall : INR 8 * u53 <= 1 / 100) by (rewrite u53_value; cbn [INR]; lra).
  specialize (H ltac:(lia) ltac:(lia) Hsmall e3_all_trace_ok e3_trace_finite e3_mag_ok
                e3_absmax_ok e3_gcapa).
  rewrite e3_anoms in H. exact H.
Qed.

(** real values of the concrete floats ([FR_eval] of Proofs/PeltFloatL2.v) *)
Lemma FR_e3_ac : FR e3_ac = 8.
Proof. FR_eval e3_ac H. rewrite H. lra. Qed.
Lemma FR_e3_ap : FR e3_ap = 12.
Proof. FR_eval e3_ap H. rewrite H. lra. Qed.
Lemma FR_e3_Mag : FR e3_Mag = 64.
Proof. FR_eval e3_Mag H. rewrite H. lra. Qed.
Lemma FR_e3_B : FR e3_B = 6.
Proof. FR_eval e3_B H. rewrite H. lra. Qed.

Definition e3_xsR : list R := [1/8; 6; 1/4; -1/8; 3; 13/4; 11/4; 1/8].

Lemma FR_e3_xs : map FR e3_xs = e3_xsR.
Proof.
  unfold e3_xs, e3_xsR. cbn [map].
  FR_eval 0.125%float H1. FR_eval 6%float H2. FR_eval 0.25%float H3. FR_eval (-0.125)%float H4.
  FR_eval 3%float H5. FR_eval 3.25%float H6. FR_eval 2.75%float H7.
  cbn [Z.opp] in H4.
  rewrite H1, H2, H3, H4, H5, H6, H7.
  repeat (apply f_equal2; [lra|]). reflexivity.
Qed.

(** the instantiated main theorem with the concrete numbers: the binary64 run reports the point
    anomaly at 1 and the collective anomaly [4,7), and NO valid anomaly set has a total penalised
    L2 saving (of the real data, alpha = 8 / 12) exceeding theirs by more than
    3 * 8 * (delta + u53 Mag),  delta = (4.2 * 8 + 5) u53 (8 * 6)^2 + u53 Mag,  Mag = 64 / (1 - u53) *)
Example e3_end_to_end :
  let pc := fun s e : nat => l2_saving_R (prefix e3_xsR) s e - 8 in
  let pp := fun t : nat => l2_saving_R (prefix e3_xsR) t (S t) - 12 in
  Valid 2 4 [Pt 1; Coll 4 7] 8 /\
  forall l', Valid 2 4 l' 8 ->
    totalR pc pp l'
    <= totalR pc pp [Pt 1; Coll 4 7]
       + 3 * 8 * (((42 / 10 * 8 + 5) * u53 * (8 * 6) ^ 2 + u53 * (64 / (1 - u53)))
                  + u53 * (64 / (1 - u53))).
Proof.
  pose proof e3_end_to_end_F as H. cbv zeta in H |- *.
  rewrite FR_e3_xs, FR_e3_ac, FR_e3_ap, FR_e3_Mag, FR_e3_B in H.
  replace (INR 8) with 8 in H by (cbn [INR]; lra).
  exact H.
Qed.

(** the total true penalised saving of the reported anomalies is (36 - 12) + (81 / 3 - 8) = 43 *)
Example e3_total_reported :
  totalR (fun s e : nat => l2_saving_R (prefix e3_xsR) s e - 8)
         (fun t : nat => l2_saving_R (prefix e3_xsR) t (S t) - 12) [Pt 1; Coll 4 7] = 43.
Proof.
  unfold totalR, a_valR, l2_saving_R, prefix, e3_xsR. cbn [map sumR firstn Nat.sub INR]. field.
Qed.

(** ... so no valid anomaly set has a total penalised saving above 43 + 1e-9 *)
Example e3_end_to_end_1e9 :
  forall l', Valid 2 4 l' 8 ->
    totalR (fun s e : nat => l2_saving_R (prefix e3_xsR) s e - 8)
           (fun t : nat => l2_saving_R (prefix e3_xsR) t (S t) - 12) l'
    <= 43 + 1 / 1000000000.
Proof.
  intros l' Hl'. pose proof (proj2 e3_end_to_end l' Hl') as H. cbv zeta in H.
  rewrite e3_total_reported in H.
  eapply Rle_trans; [exact H|]. apply Rplus_le_compat_l.
  rewrite u53_value. lra.
Qed.

(** the reported final score 43 against the total penalised saving of the reported anomalies *)
Example e3_final_score_close :
  Rabs (FR 43%float
        - totalR (fun s e : nat => l2_saving_R (prefix e3_xsR) s e - 8)
                 (fun t : nat => l2_saving_R (prefix e3_xsR) t (S t) - 12) [Pt 1; Coll 4 7])
  <= 8 * (((42 / 10 * 8 + 5) * u53 * (8 * 6) ^ 2 + u53 * (64 / (1 - u53)))
          + u53 * (64 / (1 - u53))).
Proof.
  pose proof (capa_F64_l2_final_score_absmax e3_xs e3_ac e3_ap e3_Mag e3_B 2 4
                e3_scores [(4, 7)]%nat [(1, 2)]%nat) as H.
  cbv zeta in H. change (length e3_xs) with 8%nat in H. change (2 - 1)%nat with 1%nat in H.
  change (8 - 1)%nat with 7%nat in H.
  assert (Hsmall : INR 8 * u53 <= 1 / 100) by (rewrite u53_value; cbn [INR]; lra).
  specialize (H ltac:(lia) ltac:(lia) ltac:(lia) Hsmall e3_all_trace_ok e3_trace_finite e3_mag_ok
                e3_absmax_ok e3_gcapa).
  change (nthV F64 e3_scores 7) with 43%float in H.
  rewrite e3_anoms, FR_e3_xs, FR_e3_ac, FR_e3_ap, FR_e3_Mag, FR_e3_B in H.
  replace (INR 8) with 8 in H by (cbn [INR]; lra).
  exact H.
Qed.

(** a second instance with INEXACT arithmetic: the data are the binary64 numbers nearest to
    0.1 5.2 0.2 -0.3 2.9 3.1 3.3 0.1; the savings and the scores are rounded (the final score is
    not the real total), all premises hold, and the theorem applies *)
Definition e4_xs : list float :=
  [0x1.999999999999ap-4; 0x1.4cccccccccccdp+2; 0x1.999999999999ap-3; -0x1.3333333333333p-2;
   0x1.7333333333333p+1; 0x1.8cccccccccccdp+1; 0x1.a666666666666p+1; 0x1.999999999999ap-4]%float.

Eval vm_compute in
  (gcapa F64 F64_tiny (l2ScF e4_xs) (l2SpF e4_xs) e3_ac [0%float] e3_ap [0%float] 2 4 1 8).

Example e4_premises :
  l2_saving_all_trace_ok e4_xs = true /\
  capa_trace_finite F64_tiny (l2ScF e4_xs) (l2SpF e4_xs) e3_ac e3_ap [0%float] [0%float] 2 4 1 8
    = true /\
  capa_mag_ok F64_tiny (l2ScF e4_xs) (l2SpF e4_xs) e3_ac e3_ap [0%float] [0%float] 2 4 1 8 e3_Mag
    = true /\
  l2_absmax_ok e4_xs e3_B = true /\
  snd (fst (gcapa F64 F64_tiny (l2ScF e4_xs) (l2SpF e4_xs) e3_ac [0%float] e3_ap [0%float] 2 4 1 8))
    = [(4, 7)]%nat /\
  snd (gcapa F64 F64_tiny (l2ScF e4_xs) (l2SpF e4_xs) e3_ac [0%float] e3_ap [0%float] 2 4 1 8)
    = [(1, 2)]%nat.
Proof. vm_compute. repeat split; reflexivity. Qed.

(** the main theorem on the inexact instance (in terms of the real values of the float data) *)
Example e4_end_to_end_F :
  let pc := fun s e : nat => l2_saving_R (prefix (map FR e4_xs)) s e - FR e3_ac in
  let pp := fun t : nat => l2_saving_R (prefix (map FR e4_xs)) t (S t) - FR e3_ap in
  let Mag := FR e3_Mag / (1 - u53) in
  let delta := (42 / 10 * INR 8 + 5) * u53 * (INR 8 * FR e3_B) ^ 2 + u53 * Mag in
  Valid 2 4 [Pt 1; Coll 4 7] 8 /\
  forall l', Valid 2 4 l' 8 ->
    totalR pc pp l' <= totalR pc pp [Pt 1; Coll 4 7] + 3 * INR 8 * (delta + u53 * Mag).
Proof.
  destruct e4_premises as (P1 & P2 & P3 & P4 & P5 & P6).
  assert (HG : forall G : list float * list (nat * nat) * list (nat * nat),
             G = (fst (fst G), snd (fst G), snd G)) by (intros [[? ?] ?]; reflexivity).
  set (G := gcapa F64 F64_tiny (l2ScF e4_xs) (l2SpF e4_xs) e3_ac [0%float] e3_ap [0%float] 2 4 1 8)
    in P5, P6.
  pose proof (capa_F64_l2_end_to_end_absmax e4_xs e3_ac e3_ap e3_Mag e3_B 2 4
                (fst (fst G)) (snd (fst G)) (snd G)) as H.
  cbv zeta in H. change (length e4_xs) with 8%nat in H. change (2 - 1)%nat with 1%nat in H.
  assert (Hsmall : INR 8 * u53 <= 1 / 100) by (rewrite u53_value; cbn [INR]; lra).
  specialize (H ltac:(lia) ltac:(lia) Hsmall P1 P2 P3 P4 (HG G)).
  rewrite P5, P6, e3_anoms in H. exact H.
Qed.

Print Assumptions capa_F64_l2_end_to_end.
Print Assumptions capa_F64_l2_final_score.
Print Assumptions capa_F64_l2_end_to_end_absmax.
Print Assumptions e3_end_to_end.
