(** The any-threshold theorems (Proofs/AnyThreshold.v) at the binary64 instance: for floating-point scores and ANY
    floating-point threshold (negative, infinite, NaN) the greedy loops of the code as fixed terminate and report
    well-formed detections; for non-NaN scores the fixed loops satisfy the specification for every non-NaN threshold. *)
From Coq Require Import ZArith List Bool Arith Sorted Floats.
From SK Require Import Lib.Base Model.Mw Model.Sbs Model.Capa Model.Cbs Model.Generic Model.GenericF Model.GenericAny.
From SK Require Import Proofs.GenericRank Proofs.GenericOrder Proofs.GenericSpec Proofs.GenericInstances Proofs.AnyThreshold.
Import ListNotations.

Definition F64_sbs_any_total := gsbs_any_total F64.
Definition F64_sbs_any_wellformed := gsbs_any_wellformed F64.
Definition F64_cbs_any_total := gcbs_any_total F64.
Definition F64_cbs_any_wellformed := gcbs_any_wellformed F64.
Definition F64_mw_any_in_range := gmw_any_in_range F64.
Definition F64_mw_any_sorted := gmw_any_sorted F64.
(** with the strict weak order on non-NaN floats: agreement with the original model for a threshold that zero does not exceed, and the
    specification clauses for every threshold *)
Definition F64_sbs_any_agrees := gsbs_any_agrees F64 nonnan F64_swo.
Definition F64_cbs_any_agrees := gcbs_any_agrees F64 nonnan F64_swo.
Definition F64_sbs_any_supported := gsbs_any_supported F64 nonnan F64_swo.
Definition F64_sbs_any_no_interval_left := gsbs_any_no_interval_left F64 nonnan F64_swo.
Definition F64_sbs_any_threshold_monotone := gsbs_any_threshold_monotone F64 nonnan F64_swo.
Definition F64_cbs_any_supported_and_complete := gcbs_any_supported_and_complete F64 nonnan F64_swo.

Print Assumptions F64_sbs_any_total.
Print Assumptions F64_sbs_any_supported.
