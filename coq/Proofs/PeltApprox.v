(** ROBUSTNESS of PELT under inexact arithmetic.

    Model/PeltA.v is Model/PeltR.v with every rounded arithmetic step replaced by an
    arbitrary function ([V a T g] candidate value, [W T b] prune threshold of the iteration
    with end [T], [I0 e] initial block).  Here we assume that each of them is within [eps]
    of the exact expression for a TRUE aggregated cost [C] satisfying the split inequality,
    and prove

    - [peltA_adm]          : the reported changepoints are an admissible segmentation
                             (no hypothesis on [V], [W], [I0] at all);
    - [peltA_final_close]  : the reported final score is within [n * eps] of the TRUE
                             penalised cost of the reported segmentation;
    - [peltA_near_optimal] : the TRUE penalised cost of the reported segmentation exceeds
                             that of ANY admissible segmentation by at most [3 * n * eps];
    - [peltA_scores_close] : Fn t - t eps <= score t <= Fn t + 2 t eps for every score.

    The versions [peltA_final_close_run], [peltA_near_optimal_run], [peltA_scores_close_run]
    only assume the error bounds AT THE VALUES THE RUN ITSELF STORES ([storedA]), so that
    [V] and [W] may be tables of realised binary64 values ignoring their real argument;
    the "for all g" versions are corollaries.

    Proof idea.  Write [G e] for the value stored in [opt_cost[e]] by the inexact run and
    [Fn] for the exact optimal-partitioning recursion of [C].
    (a) along the back-pointer chain every link contributes one [V]-error (one [I0]-error
        for the first segment): |G e - pencost (chain e)| <= e * eps;
    (b) a start [a] pruned at the end [tau] satisfies  G a + C a tau > G tau - 2 eps
        ("condemned with slack"), so by the split inequality the start [tau] is at most
        2 eps worse than [a] for every later end; [tau] may have been pruned as well, but
        the chain is strictly increasing, hence for each admissible start [a] of the end
        [T] some CURRENT start [s0 >= a] is at most 2 (s0 - a) eps worse.  This gives
        G T <= Fn T + 2 T eps by induction;
    (c) pencost cpts n <= G n + n eps <= Fn n + 3 n eps <= pencost c n + 3 n eps. *)
From Coq Require Import Reals Lra ZArith List Lia Bool Arith.
From SK Require Import Lib.Base Model.PeltR Model.PeltA Proofs.PeltSpec Proofs.PeltLemmas
                       Proofs.PeltRefine Proofs.PeltReal.
Import ListNotations.
Open Scope R_scope.

Lemma Rabs_le_both x e : Rabs x <= e -> - e <= x <= e.
Proof. unfold Rabs. destruct (Rcase_abs x); lra. Qed.

Lemma Rabs_le_of x e : - e <= x <= e -> Rabs x <= e.
Proof. unfold Rabs. destruct (Rcase_abs x); lra. Qed.

(* ------------------------------------------------------------------ *)
(** * Structure: valid for ARBITRARY [V], [W], [I0] *)

Section StructA.
Variable V : nat -> nat -> R -> R.
Variable W : nat -> R -> R.
Variable I0 : nat -> R.
Variable pen : R.
Variable m delay : nat.
Hypothesis m_pos : (1 <= m)%nat.

Notation stepM := (stepA V W m delay).
Notation initM := (initA I0 pen m).
Notation runM := (runA V W I0 pen m delay).
Notation full := (PeltRefine.full m).

Lemma fullA_mono T a : full T a -> full (S T) a.
Proof. unfold PeltRefine.full. lia. Qed.
Lemma fullA_le T a : full T a -> (1 <= T)%nat -> (a < T)%nat.
Proof. unfold PeltRefine.full. lia. Qed.

(** ** Unfolding one step *)

Definition starts1A (s : stR) (t : nat) : list nat := startsR s ++ [t - (m - 1)]%nat.
Definition candvA (s : stR) (t a : nat) : R := V a (S t) (nthR (optR s) a).
Definition candsA (s : stR) (t : nat) : list R := map (candvA s t) (starts1A s t).
Definition droplA (s : stR) (t : nat) (b : R) : list nat :=
  map fst (filter (fun ac => negb (Rleb (snd ac) (W (S t) b))) (combine (starts1A s t) (candsA s t))).

Lemma starts1A_nonempty s t : starts1A s t <> [].
Proof. unfold starts1A. destruct (startsR s); discriminate. Qed.

Lemma stepA_cases s t :
  exists i b now pend',
    argminR (candsA s t) = Some (i, b) /\
    (i < length (starts1A s t))%nat /\
    b = candvA s t (nthN (starts1A s t) i) /\
    (forall a, In a (starts1A s t) -> b <= candvA s t a) /\
    stepM s t = {| optR := optR s ++ [b];
                   prevR := prevR s ++ [nthN (starts1A s t) i];
                   startsR := removeall now (starts1A s t);
                   pendingR := pend' |} /\
    ( ((delay < length (pendingR s ++ [droplA s t b]))%nat /\
        now = hd [] (pendingR s ++ [droplA s t b]) /\ pend' = tl (pendingR s ++ [droplA s t b]))
      \/
      ((length (pendingR s ++ [droplA s t b]) <= delay)%nat /\
        now = [] /\ pend' = pendingR s ++ [droplA s t b]) ).
Proof.
  assert (Hne : candsA s t <> []).
  { unfold candsA. intros E. apply map_eq_nil in E. now apply starts1A_nonempty in E. }
  destruct (argminR_spec (candsA s t) Hne) as (i & b & Harg & Hi & Hnth & Hmin & _).
  assert (Hlen : length (candsA s t) = length (starts1A s t)) by (unfold candsA; apply map_length).
  assert (Hb : b = candvA s t (nthN (starts1A s t) i)).
  { rewrite <- Hnth. unfold candsA, nthN.
    rewrite (nth_indep _ 0 (candvA s t 0%nat)) by (rewrite map_length; lia).
    apply map_nth. }
  assert (Hmin' : forall a, In a (starts1A s t) -> b <= candvA s t a).
  { intros a Ha. apply Hmin. unfold candsA. now apply in_map. }
  assert (Hstep : stepM s t =
     let pend := pendingR s ++ [droplA s t b] in
     if (delay <? length pend)%nat
     then {| optR := optR s ++ [b]; prevR := prevR s ++ [nthN (starts1A s t) i];
             startsR := removeall (hd [] pend) (starts1A s t); pendingR := tl pend |}
     else {| optR := optR s ++ [b]; prevR := prevR s ++ [nthN (starts1A s t) i];
             startsR := removeall [] (starts1A s t); pendingR := pend |}).
  { unfold stepA.
    change (map (fun a => V a (S t) (nthR (optR s) a)) (startsR s ++ [(t - (m - 1))%nat]))
      with (candsA s t).
    change (startsR s ++ [(t - (m - 1))%nat]) with (starts1A s t).
    cbv zeta. rewrite Harg. fold (droplA s t b).
    destruct (delay <? length (pendingR s ++ [droplA s t b]))%nat; reflexivity. }
  cbv zeta in Hstep.
  destruct (delay <? length (pendingR s ++ [droplA s t b]))%nat eqn:Hc.
  - apply Nat.ltb_lt in Hc.
    exists i, b, (hd [] (pendingR s ++ [droplA s t b])), (tl (pendingR s ++ [droplA s t b])).
    rewrite Hlen in Hi. repeat split; auto.
  - apply Nat.ltb_ge in Hc.
    exists i, b, [], (pendingR s ++ [droplA s t b]).
    rewrite Hlen in Hi. repeat split; auto.
Qed.

Lemma in_droplA s t b a :
  In a (droplA s t b) -> In a (starts1A s t) /\ candvA s t a > W (S t) b.
Proof.
  unfold droplA. intros Ha. apply in_map_iff in Ha as ([a' c] & Ea & Hin). cbn [fst] in Ea. subst a'.
  apply filter_In in Hin as [Hin Hc]. cbn [snd] in Hc.
  unfold candsA in Hin. apply in_combine_map in Hin as [Hin Ec]. subst c.
  apply negb_true_iff in Hc. apply Rleb_false in Hc. split; [exact Hin|lra].
Qed.

(** ** Structural invariant.  The value fields record HOW each stored value was
       computed: by [I0] inside the initial block, by [V] from the value stored at the
       back pointer afterwards. *)

Record SInvA (T : nat) (s : stR) : Prop := {
  siA_len_opt : length (optR s) = S T;
  siA_len_prev : length (prevR s) = T;
  siA_starts : forall a, In a (startsR s) -> full T a;
  siA_small : forall e, (e < m)%nat -> nthR (optR s) e = - pen;
  siA_bp : forall e, (m <= e <= T)%nat -> full e (nthN (prevR s) (e - 1));
  siA_lo : forall e, (m <= e < 2 * m)%nat -> (e <= T)%nat ->
      nthN (prevR s) (e - 1) = 0%nat /\ nthR (optR s) e = I0 e;
  siA_hi : forall e, (2 * m <= e <= T)%nat ->
      nthR (optR s) e = V (nthN (prevR s) (e - 1)) e (nthR (optR s) (nthN (prevR s) (e - 1))) }.

Lemma initA_opt_small e : (e < m)%nat -> nthR (optR initM) e = - pen.
Proof.
  intros H. unfold nthR, initA. cbn [optR].
  rewrite app_nth1 by (rewrite repeat_length; lia). now apply nth_repeat_lt.
Qed.

Lemma initA_opt_mid e : (m <= e < 2 * m)%nat -> nthR (optR initM) e = I0 e.
Proof.
  intros H. unfold nthR, initA. cbn [optR].
  rewrite app_nth2 by (rewrite repeat_length; lia). rewrite repeat_length.
  rewrite (nth_indep _ 0 (I0 0%nat)) by (rewrite map_length, seq_length; lia).
  rewrite (map_nth I0). rewrite seq_nth by lia. f_equal. lia.
Qed.

Lemma initA_len_opt : length (optR initM) = S (2 * m - 1).
Proof. unfold initA. cbn [optR]. rewrite app_length, repeat_length, map_length, seq_length. lia. Qed.

Lemma initA_SInv : SInvA (2 * m - 1) initM.
Proof.
  assert (Hp : forall e, (m <= e <= 2 * m - 1)%nat -> nthN (prevR initM) (e - 1) = 0%nat).
  { intros e He. unfold nthN, initA. cbn [prevR]. apply nth_repeat_lt. lia. }
  constructor.
  - apply initA_len_opt.
  - unfold initA. cbn [prevR]. apply repeat_length.
  - unfold initA. cbn [startsR]. intros a [<-|[]]. now left.
  - apply initA_opt_small.
  - intros e He. rewrite Hp by lia. now left.
  - intros e He HeT. split; [apply Hp; lia|apply initA_opt_mid; lia].
  - intros e He. lia.
Qed.

Lemma starts1A_full T s : (2 * m - 1 <= T)%nat -> SInvA T s ->
  forall a, In a (starts1A s T) -> full (S T) a.
Proof.
  intros HT HS a Ha. unfold starts1A in Ha. apply in_app_or in Ha as [Ha|[<-|[]]].
  - apply fullA_mono. now apply (siA_starts T s HS).
  - right. lia.
Qed.

Lemma stepA_SInv T s : (2 * m - 1 <= T)%nat -> SInvA T s -> SInvA (S T) (stepM s T).
Proof.
  intros HT HS.
  destruct (stepA_cases s T) as (i & b & now & pend' & _ & Hi & Hb & _ & Hstep & _).
  pose proof (starts1A_full T s HT HS) as Hfull1.
  set (a0 := nthN (starts1A s T) i) in *.
  assert (Ha0 : In a0 (starts1A s T)) by (unfold a0, nthN; now apply nth_In).
  assert (Hfa0 : full (S T) a0) by now apply Hfull1.
  destruct HS as [Hlo Hlp Hst Hsm Hbp Hvlo Hvhi].
  assert (Hpold : forall e, (1 <= e <= T)%nat -> nthN (prevR s ++ [a0]) (e - 1) = nthN (prevR s) (e - 1)).
  { intros e He. unfold nthN. rewrite app_nth1 by lia. reflexivity. }
  assert (Hpnew : nthN (prevR s ++ [a0]) T = a0).
  { unfold nthN. rewrite app_nth2 by lia. rewrite Hlp, Nat.sub_diag. reflexivity. }
  assert (Hoold : forall e, (e <= T)%nat -> nthR (optR s ++ [b]) e = nthR (optR s) e).
  { intros e He. unfold nthR. rewrite app_nth1 by lia. reflexivity. }
  assert (Honew : nthR (optR s ++ [b]) (S T) = b).
  { unfold nthR. rewrite app_nth2 by lia. rewrite Hlo, Nat.sub_diag. reflexivity. }
  rewrite Hstep. constructor; cbn [optR prevR startsR pendingR].
  - rewrite app_length, Hlo. cbn [length]. lia.
  - rewrite app_length, Hlp. cbn [length]. lia.
  - intros a Ha. apply in_removeall in Ha as [Ha _]. now apply Hfull1.
  - intros e He. rewrite Hoold by lia. now apply Hsm.
  - intros e He. destruct (Nat.eq_dec e (S T)) as [->|Hne].
    + replace (S T - 1)%nat with T by lia. rewrite Hpnew. exact Hfa0.
    + rewrite Hpold by lia. apply Hbp. lia.
  - intros e He HeT. assert (HeT' : (e <= T)%nat) by lia.
    rewrite Hpold by lia. rewrite Hoold by lia. now apply Hvlo.
  - intros e He. destruct (Nat.eq_dec e (S T)) as [->|Hne].
    + replace (S T - 1)%nat with T by lia. rewrite Hpnew, Honew.
      assert (Ha0T : (a0 < S T)%nat) by (apply fullA_le; [exact Hfa0|lia]).
      rewrite Hoold by lia. exact Hb.
    + assert (HeT : (m <= e <= T)%nat) by lia.
      pose proof (Hbp e HeT) as Hf.
      assert (Hlt : (nthN (prevR s) (e - 1) < e)%nat) by (apply fullA_le; [exact Hf|lia]).
      rewrite Hpold by lia. rewrite !Hoold by lia. apply Hvhi. lia.
Qed.

Lemma runA_SInv' n : (2 * m - 1 <= n)%nat -> SInvA n (runM n).
Proof.
  intros Hn. unfold runA.
  replace n with (2 * m - 1 + (n - (2 * m - 1)))%nat at 1 by lia.
  apply (fold_left_seq_inv SInvA stepM).
  - intros T s HT HS. now apply stepA_SInv.
  - apply initA_SInv.
Qed.

Lemma runA_SInv n : (2 * m <= n)%nat -> SInvA n (runM n).
Proof. intros Hn. apply runA_SInv'. lia. Qed.

(** ** The run, one state at a time; stored values are never overwritten *)

Lemma runA_init : runM (2 * m - 1) = initM.
Proof. unfold runA. rewrite Nat.sub_diag. reflexivity. Qed.

Lemma runA_S T : (2 * m - 1 <= T)%nat -> runM (S T) = stepM (runM T) T.
Proof.
  intros HT. unfold runA.
  replace (S T - (2 * m - 1))%nat with (S (T - (2 * m - 1))) by lia.
  rewrite seq_S, fold_left_app. cbn [fold_left].
  replace (2 * m - 1 + (T - (2 * m - 1)))%nat with T by lia. reflexivity.
Qed.

Lemma runA_opt_prefix n T : (2 * m - 1 <= T)%nat -> (T <= n)%nat ->
  forall e, (e <= T)%nat -> nthR (optR (runM n)) e = nthR (optR (runM T)) e.
Proof.
  intros HT HTn. induction HTn as [|n' Hle IH]; intros e He; [reflexivity|].
  rewrite runA_S by lia.
  destruct (stepA_cases (runM n') n') as (i & b & now & pend' & _ & _ & _ & _ & Hstep & _).
  rewrite Hstep. cbn [optR].
  pose proof (siA_len_opt n' _ (runA_SInv' n' ltac:(lia))) as Hlo.
  unfold nthR at 1. rewrite app_nth1 by lia. now apply IH.
Qed.

(** ** Back-pointer chains: admissible, and every link adds at most one [eps] *)

Lemma backtrackA_chain (op : list R) (pv : list nat) T :
  (forall e, (m <= e <= T)%nat -> full e (nthN pv (e - 1))) ->
  forall fuel e acc, (m <= e <= T)%nat -> (e <= fuel)%nat ->
    exists cp, backtrackR fuel pv e acc = 0%nat :: cp ++ acc /\
               Adm m cp e /\
               forall (C : nat -> nat -> R) (eps : R),
                 nthR op 0 = - pen ->
                 (forall e', (m <= e' <= e)%nat ->
                    Rabs (nthR op e' - (nthR op (nthN pv (e' - 1)) + C (nthN pv (e' - 1)) e' + pen)) <= eps) ->
                 Rabs (nthR op e - pencostR C pen cp e) <= INR e * eps.
Proof.
  intros Hbp. induction fuel as [|f IH]; intros e acc He Hf; [lia|].
  destruct e as [|i]; [lia|]. cbn [backtrackR].
  pose proof (Hbp (S i) He) as Hfull. replace (S i - 1)%nat with i in * by lia.
  set (c := nthN pv i) in *.
  assert (H1e : 1 <= INR (S i)) by (apply (le_INR 1); lia).
  destruct Hfull as [Hc|[Hc1 Hc2]].
  - exists []. rewrite Hc in *. split; [|split].
    + destruct f; reflexivity.
    + unfold Adm. cbn [admseg]. lia.
    + intros C eps H0 Hcl. specialize (Hcl (S i) ltac:(lia)).
      replace (S i - 1)%nat with i in Hcl by lia. fold c in Hcl. rewrite Hc, H0 in Hcl.
      rewrite pencostR_nil. apply Rabs_le_both in Hcl. apply Rabs_le_of.
      assert (0 <= eps) by lra. nra.
  - destruct (IH c (c :: acc) ltac:(lia) ltac:(lia)) as (cp & Hbt & Hadm & Hcost).
    exists (cp ++ [c]). split; [|split].
    + rewrite Hbt. rewrite <- app_assoc. reflexivity.
    + unfold Adm. apply admsegN_snoc. split; [exact Hadm|lia].
    + intros C eps H0 Hcl.
      assert (Hc' : Rabs (nthR op c - pencostR C pen cp c) <= INR c * eps).
      { apply Hcost; [exact H0|]. intros e' He'. apply Hcl. lia. }
      specialize (Hcl (S i) ltac:(lia)).
      replace (S i - 1)%nat with i in Hcl by lia. fold c in Hcl.
      rewrite pencostR_snoc. apply Rabs_le_both in Hcl. apply Rabs_le_both in Hc'. apply Rabs_le_of.
      assert (Hci : INR c + 1 <= INR (S i)).
      { rewrite <- S_INR. apply le_INR. lia. }
      assert (0 <= eps) by lra. nra.
Qed.

Lemma peltA_prefix n T : (2 * m <= n)%nat -> (m <= T <= n)%nat ->
  Adm m (changepointsR (prevR (runM n)) T) T /\
  forall (C : nat -> nat -> R) (eps : R),
    (forall e', (m <= e' <= T)%nat ->
       Rabs (nthR (optR (runM n)) e'
             - (nthR (optR (runM n)) (nthN (prevR (runM n)) (e' - 1))
                + C (nthN (prevR (runM n)) (e' - 1)) e' + pen)) <= eps) ->
    Rabs (nthR (optR (runM n)) T - pencostR C pen (changepointsR (prevR (runM n)) T) T)
      <= INR T * eps.
Proof.
  intros Hn HT. pose proof (runA_SInv n Hn) as HS.
  destruct (backtrackA_chain (optR (runM n)) (prevR (runM n)) n
              (siA_bp n _ HS) T T [] HT (le_n T))
    as (cp & Hbt & Hadm & Hcost).
  unfold changepointsR. rewrite Hbt. cbn [tl]. rewrite app_nil_r. split; [exact Hadm|].
  intros C eps Hcl. apply Hcost; [|exact Hcl].
  apply (siA_small n _ HS). lia.
Qed.

Lemma scoresA_nth n t : (1 <= t)%nat ->
  nth (t - 1) (fst (peltA V W I0 pen m delay n)) 0 = nthR (optR (runM n)) t.
Proof.
  intros Ht. unfold peltA. cbn [fst]. rewrite nth_tl. unfold nthR. f_equal. lia.
Qed.

Lemma peltA_scores_length_sec n : (2 * m <= n)%nat ->
  length (fst (peltA V W I0 pen m delay n)) = n.
Proof.
  intros Hn. unfold peltA. cbn [fst]. rewrite length_tl, (siA_len_opt n _ (runA_SInv n Hn)). lia.
Qed.

Lemma peltA_adm_sec n : (2 * m <= n)%nat -> Adm m (snd (peltA V W I0 pen m delay n)) n.
Proof. intros Hn. unfold peltA. cbn [snd]. apply (peltA_prefix n n Hn). lia. Qed.

(* ------------------------------------------------------------------ *)
(** * Values.  [V], [W], [I0] are within [eps] of exact arithmetic on the true cost [C]
      AT THE VALUES [G] THAT THE RUN ITSELF STORES: [V a T] is only constrained at the
      third argument [G a], for an end [T] of the main loop and an admissible start [a]
      of [T]; [W T] only at [G T]; [I0] only inside the initial block.  [G] is an
      arbitrary function here; a state [s] at time [T] agrees with it when [GInv T s]. *)

Section ValuesA.
Variable C : nat -> nat -> R.
Variable eps : R.
Variable G : nat -> R.
Variable n0 : nat.
Hypothesis eps_nonneg : 0 <= eps.
Hypothesis V_ok : forall a T, (2 * m <= T <= n0)%nat -> full T a ->
  Rabs (V a T (G a) - (G a + C a T + pen)) <= eps.
Hypothesis W_ok : forall T, (2 * m <= T <= n0)%nat -> Rabs (W T (G T) - (G T + pen)) <= eps.
Hypothesis I0_ok : forall e, (m <= e < 2 * m)%nat -> Rabs (I0 e - C 0 e) <= eps.

Notation Fn := (FR C pen m).
Notation candFn := (candFR C pen m).

Definition GInv (T : nat) (s : stR) : Prop := forall e, (e <= T)%nat -> nthR (optR s) e = G e.

(** every stored value is within [eps] of "value at the back pointer + true cost + pen" *)
Lemma SInvA_close T s : (T <= n0)%nat -> SInvA T s -> GInv T s -> forall e, (m <= e <= T)%nat ->
  Rabs (nthR (optR s) e
        - (nthR (optR s) (nthN (prevR s) (e - 1)) + C (nthN (prevR s) (e - 1)) e + pen)) <= eps.
Proof.
  intros HTn HS HG e He. destruct (lt_dec e (2 * m)) as [Hlt|Hge].
  - destruct (siA_lo T s HS e ltac:(lia) ltac:(lia)) as [Hp Ho].
    rewrite Hp, Ho, (siA_small T s HS 0%nat) by lia.
    replace (I0 e - (- pen + C 0 e + pen)) with (I0 e - C 0 e) by lra. apply I0_ok. lia.
  - pose proof (siA_bp T s HS e He) as Hf.
    assert (Hlt : (nthN (prevR s) (e - 1) < e)%nat) by (apply fullA_le; [exact Hf|lia]).
    rewrite (siA_hi T s HS e) at 1 by lia.
    rewrite (HG (nthN (prevR s) (e - 1))) by lia. apply V_ok; [lia|exact Hf].
Qed.

(** (a) the reported final score vs the TRUE penalised cost of the reported segmentation *)
Lemma peltA_final_close_sec n : (2 * m <= n)%nat -> (n <= n0)%nat -> GInv n (runM n) ->
  Rabs (nth (n - 1) (fst (peltA V W I0 pen m delay n)) 0
        - pencostR C pen (snd (peltA V W I0 pen m delay n)) n) <= INR n * eps.
Proof.
  intros Hn Hn0 HG. rewrite scoresA_nth by lia. unfold peltA. cbn [snd].
  apply (peltA_prefix n n Hn); [lia|].
  intros e' He'. apply (SInvA_close n _ Hn0 (runA_SInv n Hn) HG). exact He'.
Qed.

(** ** (b) near-optimality of the stored values.  [N] bounds the ends for which the
       split inequality is assumed. *)
Section OptimalA.
Variable N : nat.
Hypothesis delay_ok : (m <= delay + 1)%nat.
Hypothesis split : forall s k e, (s + m <= k)%nat -> (k + m <= e)%nat -> (e <= N)%nat ->
  C s k + C k e <= C s e.

(** [a] was found worse than the stored value at end [tau], up to the slack [2 eps]
    (one [V]-error on the left of the prune test, one [W]-error on its right) *)
Definition condA (op : list R) (a tau : nat) : Prop :=
  full tau a /\ (m <= tau)%nat /\ (tau < length op)%nat /\
  nthR op a + C a tau > nthR op tau - 2 * eps.

Lemma condA_app op b a tau : condA op a tau -> condA (op ++ [b]) a tau.
Proof.
  intros (Hf & Hm & Hl & Hgt).
  assert (Ha : (a < tau)%nat) by (apply fullA_le; [exact Hf|lia]).
  split; [exact Hf|]. split; [exact Hm|]. split; [rewrite app_length; cbn [length]; lia|].
  unfold nthR in *. rewrite !app_nth1 by lia. exact Hgt.
Qed.

Record InvA (T : nat) (s : stR) : Prop := {
  invA_up : forall e, (e <= T)%nat -> nthR (optR s) e <= Fn e + 2 * INR e * eps;
  invA_missing : forall a, full T a -> ~ In a (startsR s) ->
      exists tau, (tau + m <= T + 1)%nat /\ condA (optR s) a tau;
  invA_pend_len : (length (pendingR s) <= delay)%nat;
  invA_pend : forall i D, nth_error (pendingR s) i = Some D ->
      forall a, In a D -> condA (optR s) a (T + 1 + i - length (pendingR s))%nat }.

Lemma initA_Inv : InvA (2 * m - 1) initM.
Proof.
  pose proof eps_nonneg as He0.
  constructor.
  - intros e He. destruct (lt_dec e m) as [Hlt|Hge].
    + rewrite initA_opt_small, (FR_small C pen m m_pos) by lia.
      pose proof (pos_INR e). nra.
    + rewrite initA_opt_mid, (FR_mid C pen m m_pos) by lia.
      pose proof (Rabs_le_both _ _ (I0_ok e ltac:(lia))) as Hi.
      assert (1 <= INR e) by (apply (le_INR 1); lia). nra.
  - intros a Hf Hn. exfalso. apply Hn. unfold initA. cbn [startsR].
    destruct Hf as [->|[H1 H2]]; [now left|lia].
  - unfold initA. cbn [pendingR length]. lia.
  - unfold initA. cbn [pendingR]. intros i D Hi. destruct i; discriminate.
Qed.

(** the chain argument: every admissible start [a] of the end [S T] is dominated, up to
    [2 (s0 - a) eps], by a start [s0 >= a] of the CURRENT start set [R1] *)
Lemma current_dominates T (op : list R) (R1 : list nat) :
  (S T <= N)%nat ->
  (forall a, In a R1 -> full (S T) a) ->
  (forall a, full (S T) a -> ~ In a R1 ->
     exists tau, (tau + m <= T + 1)%nat /\ condA op a tau) ->
  forall k a, (S T - a <= k)%nat -> full (S T) a ->
    exists s0, In s0 R1 /\ (a <= s0)%nat /\
      nthR op s0 + C s0 (S T) + pen
      <= nthR op a + C a (S T) + pen + 2 * (INR s0 - INR a) * eps.
Proof.
  intros HTN Hsub Hmiss. pose proof eps_nonneg as He0.
  induction k as [|k IH]; intros a Hk Hf.
  - exfalso. destruct Hf as [->|[H1 H2]]; lia.
  - destruct (in_dec Nat.eq_dec a R1) as [Hin|Hnin].
    + exists a. split; [exact Hin|]. split; [lia|]. lra.
    + destruct (Hmiss a Hf Hnin) as (tau & Htau & (Hfa & Hmt & _ & Hgt)).
      assert (Hat : (a + m <= tau)%nat) by (destruct Hfa as [->|[H1 H2]]; lia).
      assert (Hft : full (S T) tau) by (right; lia).
      destruct (IH tau ltac:(lia) Hft) as (s0 & Hs0 & Hle & Hval).
      exists s0. split; [exact Hs0|]. split; [lia|].
      assert (Hsp : C a tau + C tau (S T) <= C a (S T)) by (apply split; lia).
      assert (Hi : INR a + 1 <= INR tau).
      { rewrite <- S_INR. apply le_INR. lia. }
      nra.
Qed.

Theorem stepA_inv T s : (2 * m - 1 <= T)%nat -> (S T <= N)%nat -> (S T <= n0)%nat ->
  SInvA T s -> GInv T s -> GInv (S T) (stepM s T) -> InvA T s -> InvA (S T) (stepM s T).
Proof.
  intros HT HTN HTn0 HS HG HG' [Hup Hmiss Hplen Hpend].
  pose proof eps_nonneg as He0.
  destruct (stepA_cases s T) as (i & b & now & pend' & _ & Hi & Hb & Hmin & Hstep & Hq).
  pose proof (starts1A_full T s HT HS) as Hsub1.
  pose proof (siA_len_opt T s HS) as Hlo.
  set (R1 := starts1A s T) in *.
  assert (Hmiss0 : forall a, full (S T) a -> ~ In a R1 ->
             exists tau, (tau + m <= T + 1)%nat /\ condA (optR s) a tau).
  { intros a Hf Hn.
    assert (Hne : a <> (T - (m - 1))%nat).
    { intros ->. apply Hn. unfold R1, starts1A. apply in_or_app. right. now left. }
    assert (HfT : full T a) by (destruct Hf as [->|[Hf1 Hf2]]; [now left|right; lia]).
    assert (Hn' : ~ In a (startsR s)).
    { intros Hin. apply Hn. unfold R1, starts1A. apply in_or_app. now left. }
    exact (Hmiss a HfT Hn'). }
  assert (Hoold : forall e, (e <= T)%nat -> nthR (optR s ++ [b]) e = nthR (optR s) e).
  { intros e He. unfold nthR. rewrite app_nth1 by lia. reflexivity. }
  assert (Honew : nthR (optR s ++ [b]) (S T) = b).
  { unfold nthR. rewrite app_nth2 by lia. rewrite Hlo, Nat.sub_diag. reflexivity. }
  assert (HbG : b = G (S T)).
  { pose proof (HG' (S T) (le_n _)) as E. rewrite Hstep in E. cbn [optR] in E.
    rewrite Honew in E. exact E. }
  (* the computed candidates of the current starts are within eps of the exact ones *)
  assert (HV : forall a, In a R1 ->
            Rabs (candvA s T a - (nthR (optR s) a + C a (S T) + pen)) <= eps).
  { intros a Ha. pose proof (Hsub1 a Ha) as Hfa.
    assert (HaT : (a < S T)%nat) by (apply fullA_le; [exact Hfa|lia]).
    unfold candvA. rewrite (HG a) by lia. apply V_ok; [lia|exact Hfa]. }
  (* the selected value is at most FR (S T) + 2 (S T) eps *)
  assert (HbUp : b <= Fn (S T) + 2 * INR (S T) * eps).
  { assert (Hatt : exists a, full (S T) a /\ Fn (S T) = candFn (S T) a).
    { destruct (FR_attained C pen m (S T) m_pos ltac:(lia)) as [E|(a & Ha & E)].
      - exists 0%nat. split; [now left|exact E].
      - exists a. split; [now right|exact E]. }
    destruct Hatt as (a & Hfa & Ea).
    destruct (current_dominates T (optR s) R1 HTN Hsub1 Hmiss0 (S T) a ltac:(lia) Hfa)
      as (s0 & Hs0 & Hle & Hval).
    pose proof (Hmin s0 Hs0) as Hb0.
    pose proof (Rabs_le_both _ _ (HV s0 Hs0)) as Hv.
    assert (Hs0T : (s0 < S T)%nat) by (apply fullA_le; [now apply Hsub1|lia]).
    pose proof (Hup a ltac:(lia)) as Hua.
    unfold candFR in Ea.
    assert (Hi0 : INR s0 + 1 <= INR (S T)).
    { rewrite <- S_INR. apply le_INR. lia. }
    nra. }
  assert (Hdrop : forall a, In a (droplA s T b) -> In a R1 /\ condA (optR s ++ [b]) a (S T)).
  { intros a Ha. apply in_droplA in Ha as [Hin Hgt]. split; [exact Hin|].
    pose proof (Hsub1 a Hin) as Hfa.
    assert (HaT : (a < S T)%nat) by (apply fullA_le; [exact Hfa|lia]).
    split; [exact Hfa|]. split; [lia|]. split; [rewrite app_length, Hlo; cbn [length]; lia|].
    rewrite Honew, Hoold by lia.
    pose proof (Rabs_le_both _ _ (HV a Hin)) as Hv.
    pose proof (Rabs_le_both _ _ (W_ok (S T) ltac:(lia))) as Hw. rewrite <- HbG in Hw. lra. }
  set (pend := pendingR s ++ [droplA s T b]) in *.
  assert (Hpend1 : forall j D, nth_error pend j = Some D ->
            forall a, In a D -> condA (optR s ++ [b]) a (S T + 1 + j - length pend)%nat).
  { intros j D Hj a Ha. unfold pend in *. rewrite app_length. cbn [length].
    destruct (lt_dec j (length (pendingR s))) as [Hlt|Hge].
    - rewrite nth_error_app1 in Hj by auto. specialize (Hpend j D Hj a Ha).
      replace (S T + 1 + j - (length (pendingR s) + 1))%nat
        with (T + 1 + j - length (pendingR s))%nat by lia. apply condA_app. exact Hpend.
    - rewrite nth_error_app2 in Hj by lia.
      destruct (j - length (pendingR s))%nat as [|j'] eqn:Ej; cbn in Hj; [|destruct j'; discriminate].
      assert (ED : D = droplA s T b) by congruence. subst D.
      replace (S T + 1 + j - (length (pendingR s) + 1))%nat with (S T) by lia.
      now apply Hdrop. }
  assert (Hlen : length pend = S (length (pendingR s))).
  { unfold pend. rewrite app_length. cbn [length]. lia. }
  assert (Hup' : forall e, (e <= S T)%nat -> nthR (optR s ++ [b]) e <= Fn e + 2 * INR e * eps).
  { intros e He. destruct (Nat.eq_dec e (S T)) as [->|Hne].
    - rewrite Honew. exact HbUp.
    - rewrite Hoold by lia. apply Hup. lia. }
  rewrite Hstep.
  destruct Hq as [(Hc & Enow & Epend)|(Hc & Enow & Epend)]; subst now pend'.
  - assert (Hk : length (pendingR s) = delay) by lia.
    destruct pend as [|D0 ptl] eqn:Ep; [cbn in Hlen; lia|]. cbn [hd tl].
    assert (HD0 : forall a, In a D0 -> condA (optR s ++ [b]) a (S T - delay)%nat).
    { intros a Ha. specialize (Hpend1 0%nat D0 eq_refl a Ha).
      replace (S T + 1 + 0 - length (D0 :: ptl))%nat with (S T - delay)%nat in Hpend1
        by (rewrite Hlen; lia). exact Hpend1. }
    constructor; cbn [optR prevR startsR pendingR].
    + exact Hup'.
    + intros a Hf Hn.
      destruct (in_dec Nat.eq_dec a R1) as [Hin|Hnin].
      * assert (Hnow : In a D0).
        { destruct (in_dec Nat.eq_dec a D0) as [Hi0|Hni0]; [exact Hi0|].
          exfalso. apply Hn, in_removeall. auto. }
        exists (S T - delay)%nat. split; [|now apply HD0].
        pose proof (HD0 a Hnow) as (_ & Hm & _). lia.
      * destruct (Hmiss0 a Hf Hnin) as (tau & Htau & Hcd). exists tau.
        split; [lia|apply condA_app; exact Hcd].
    + cbn [length] in Hlen. lia.
    + intros j D Hj a Ha. specialize (Hpend1 (S j) D Hj a Ha).
      replace (S T + 1 + j - length ptl)%nat
        with (S T + 1 + S j - length (D0 :: ptl))%nat by (cbn [length]; lia). exact Hpend1.
  - constructor; cbn [optR prevR startsR pendingR].
    + exact Hup'.
    + intros a Hf Hn.
      assert (Hnin : ~ In a R1).
      { intros Hin. apply Hn, in_removeall. split; [exact Hin|intros []]. }
      destruct (Hmiss0 a Hf Hnin) as (tau & Htau & Hcd). exists tau.
      split; [lia|apply condA_app; exact Hcd].
    + exact Hc.
    + exact Hpend1.
Qed.

Lemma runA_Inv n : (n <= N)%nat -> (n <= n0)%nat ->
  (forall T, (2 * m - 1 <= T <= n)%nat -> GInv T (runM T)) ->
  forall k, (2 * m - 1 + k <= n)%nat -> InvA (2 * m - 1 + k) (runM (2 * m - 1 + k)).
Proof.
  intros HnN Hnn0 HG. induction k as [|k IH]; intros Hk.
  - rewrite Nat.add_0_r, runA_init. apply initA_Inv.
  - replace (2 * m - 1 + S k)%nat with (S (2 * m - 1 + k)) in * by lia.
    rewrite runA_S by lia. apply stepA_inv; try lia.
    + apply runA_SInv'. lia.
    + apply HG. lia.
    + rewrite <- runA_S by lia. apply HG. lia.
    + apply IH. lia.
Qed.

(** every stored value is at most [2 t eps] above the exact optimal value ... *)
Lemma peltA_scores_upper_sec n : (2 * m <= n)%nat -> (n <= N)%nat -> (n <= n0)%nat ->
  (forall T, (2 * m - 1 <= T <= n)%nat -> GInv T (runM T)) ->
  forall t, (1 <= t <= n)%nat ->
  nth (t - 1) (fst (peltA V W I0 pen m delay n)) 0 <= Fn t + 2 * INR t * eps.
Proof.
  intros Hn HnN Hnn0 HG t Ht. rewrite (scoresA_nth n) by lia.
  pose proof (runA_Inv n HnN Hnn0 HG (n - (2 * m - 1)) ltac:(lia)) as HI.
  replace (2 * m - 1 + (n - (2 * m - 1)))%nat with n in HI by lia.
  apply (invA_up n _ HI). lia.
Qed.

(** ... and at least [t eps] below it *)
Lemma peltA_scores_lower_sec n : (2 * m <= n)%nat -> (n <= n0)%nat -> GInv n (runM n) ->
  forall t, (m <= t <= n)%nat ->
  Fn t - INR t * eps <= nth (t - 1) (fst (peltA V W I0 pen m delay n)) 0.
Proof.
  intros Hn Hnn0 HG t Ht. rewrite (scoresA_nth n) by lia.
  destruct (peltA_prefix n t Hn Ht) as [Hadm Hcl].
  specialize (Hcl C eps (fun e' He' => SInvA_close n _ Hnn0 (runA_SInv n Hn) HG e' ltac:(lia))).
  apply Rabs_le_both in Hcl.
  pose proof (FR_lower C pen m t _ m_pos Hadm). lra.
Qed.

Lemma peltA_near_optimal_sec n : (2 * m <= n)%nat -> (n <= N)%nat -> (n <= n0)%nat ->
  (forall T, (2 * m - 1 <= T <= n)%nat -> GInv T (runM T)) ->
  forall c, Adm m c n ->
  pencostR C pen (snd (peltA V W I0 pen m delay n)) n <= pencostR C pen c n + 3 * INR n * eps.
Proof.
  intros Hn HnN Hnn0 HG c Hc.
  pose proof (Rabs_le_both _ _ (peltA_final_close_sec n Hn Hnn0 (HG n ltac:(lia)))) as Hcl.
  pose proof (peltA_scores_upper_sec n Hn HnN Hnn0 HG n ltac:(lia)) as Hu.
  pose proof (FR_lower C pen m n c m_pos Hc) as Hl. lra.
Qed.
End OptimalA.
End ValuesA.

(** the run's own stored values satisfy [GInv] at every time *)
Lemma runA_GInv n : forall T, (2 * m - 1 <= T <= n)%nat ->
  GInv (fun a => nthR (optR (runM n)) a) T (runM T).
Proof.
  intros T HT e He. symmetry. apply runA_opt_prefix; lia.
Qed.
End StructA.

(* ------------------------------------------------------------------ *)
(** * The theorems in closed form *)

Theorem peltA_scores_length (V : nat -> nat -> R -> R) (W : nat -> R -> R) (I0 : nat -> R)
    (pen : R) (m delay n : nat) :
  (1 <= m)%nat -> (2 * m <= n)%nat -> length (fst (peltA V W I0 pen m delay n)) = n.
Proof. intros Hm Hn. now apply peltA_scores_length_sec. Qed.

(** the reported changepoints form an admissible segmentation, WHATEVER the arithmetic *)
Theorem peltA_adm (V : nat -> nat -> R -> R) (W : nat -> R -> R) (I0 : nat -> R)
    (pen : R) (m delay n : nat) :
  (1 <= m)%nat -> (2 * m <= n)%nat -> Adm m (snd (peltA V W I0 pen m delay n)) n.
Proof. intros Hm Hn. now apply peltA_adm_sec. Qed.

(** the explicit constant of the near-optimality theorem *)
Definition K_pelt : R := 3.

(** ** Hypotheses restricted to the REALISED values.
    [storedA V W I0 pen m delay n a] is the run's own [opt_cost[a]] ([optR] of a shorter
    run is a prefix of that of a longer one: [runA_opt_prefix]).  [V a T] is constrained
    only at the stored value of [a], [W T] only at the stored value of [T]: they may be
    tables of realised binary64 values that ignore their real argument. *)
Definition storedA (V : nat -> nat -> R -> R) (W : nat -> R -> R) (I0 : nat -> R)
    (pen : R) (m delay n : nat) (a : nat) : R :=
  nthR (optR (runA V W I0 pen m delay n)) a.

(** the stored values are the reported scores (shifted by one) *)
Lemma storedA_scores V W I0 pen m delay n t : (1 <= t)%nat ->
  storedA V W I0 pen m delay n t = nth (t - 1) (fst (peltA V W I0 pen m delay n)) 0.
Proof. intros Ht. unfold storedA, peltA. cbn [fst]. rewrite nth_tl. unfold nthR. f_equal. lia. Qed.

Theorem peltA_final_close_run (V : nat -> nat -> R -> R) (W : nat -> R -> R) (I0 : nat -> R)
    (C : nat -> nat -> R) (pen eps : R) (m delay n : nat) :
  (1 <= m)%nat -> (2 * m <= n)%nat ->
  (forall a T, (a < T <= n)%nat ->
     Rabs (V a T (storedA V W I0 pen m delay n a)
           - (storedA V W I0 pen m delay n a + C a T + pen)) <= eps) ->
  (forall e, (m <= e < 2 * m)%nat -> Rabs (I0 e - C 0%nat e) <= eps) ->
  Rabs (nth (n - 1) (fst (peltA V W I0 pen m delay n)) 0
        - pencostR C pen (snd (peltA V W I0 pen m delay n)) n) <= INR n * eps.
Proof.
  intros Hm Hn HV HI.
  apply (peltA_final_close_sec V W I0 pen m delay Hm C eps (storedA V W I0 pen m delay n) n);
    auto.
  - intros a T HT Hf. apply HV. unfold PeltRefine.full in Hf. lia.
  - intros e He. reflexivity.
Qed.

Theorem peltA_near_optimal_run (V : nat -> nat -> R -> R) (W : nat -> R -> R) (I0 : nat -> R)
    (C : nat -> nat -> R) (pen eps : R) (m delay n N : nat) :
  (1 <= m)%nat -> (m <= delay + 1)%nat -> (2 * m <= n)%nat -> (n <= N)%nat ->
  (forall s k e, (s + m <= k)%nat -> (k + m <= e)%nat -> (e <= N)%nat ->
                 C s k + C k e <= C s e) ->
  (forall a T, (a < T <= n)%nat ->
     Rabs (V a T (storedA V W I0 pen m delay n a)
           - (storedA V W I0 pen m delay n a + C a T + pen)) <= eps) ->
  (forall T, (T <= n)%nat ->
     Rabs (W T (storedA V W I0 pen m delay n T)
           - (storedA V W I0 pen m delay n T + pen)) <= eps) ->
  (forall e, (m <= e < 2 * m)%nat -> Rabs (I0 e - C 0%nat e) <= eps) ->
  forall c, Adm m c n ->
    pencostR C pen (snd (peltA V W I0 pen m delay n)) n
    <= pencostR C pen c n + K_pelt * INR n * eps.
Proof.
  intros Hm Hd Hn HnN Hs HV HW HI c Hc. unfold K_pelt.
  assert (He : 0 <= eps).
  { pose proof (HV 0%nat 1%nat ltac:(lia)) as H. eapply Rle_trans; [apply Rabs_pos|exact H]. }
  apply (peltA_near_optimal_sec V W I0 pen m delay Hm C eps (storedA V W I0 pen m delay n) n)
    with (N := N); auto.
  - intros a T HT Hf. apply HV. unfold PeltRefine.full in Hf. lia.
  - intros T HT. apply HW. lia.
  - apply runA_GInv. exact Hm.
Qed.

(** two-sided control of EVERY reported score by the exact optimal-partitioning value *)
Theorem peltA_scores_close_run (V : nat -> nat -> R -> R) (W : nat -> R -> R) (I0 : nat -> R)
    (C : nat -> nat -> R) (pen eps : R) (m delay n N : nat) :
  (1 <= m)%nat -> (m <= delay + 1)%nat -> (2 * m <= n)%nat -> (n <= N)%nat ->
  (forall s k e, (s + m <= k)%nat -> (k + m <= e)%nat -> (e <= N)%nat ->
                 C s k + C k e <= C s e) ->
  (forall a T, (a < T <= n)%nat ->
     Rabs (V a T (storedA V W I0 pen m delay n a)
           - (storedA V W I0 pen m delay n a + C a T + pen)) <= eps) ->
  (forall T, (T <= n)%nat ->
     Rabs (W T (storedA V W I0 pen m delay n T)
           - (storedA V W I0 pen m delay n T + pen)) <= eps) ->
  (forall e, (m <= e < 2 * m)%nat -> Rabs (I0 e - C 0%nat e) <= eps) ->
  forall t, (m <= t <= n)%nat ->
    FR C pen m t - INR t * eps <= nth (t - 1) (fst (peltA V W I0 pen m delay n)) 0
    /\ nth (t - 1) (fst (peltA V W I0 pen m delay n)) 0 <= FR C pen m t + 2 * INR t * eps.
Proof.
  intros Hm Hd Hn HnN Hs HV HW HI t Ht.
  assert (He : 0 <= eps).
  { pose proof (HV 0%nat 1%nat ltac:(lia)) as H. eapply Rle_trans; [apply Rabs_pos|exact H]. }
  assert (HV' : forall a T, (2 * m <= T <= n)%nat -> PeltRefine.full m T a ->
     Rabs (V a T (storedA V W I0 pen m delay n a)
           - (storedA V W I0 pen m delay n a + C a T + pen)) <= eps).
  { intros a T HT Hf. apply HV. unfold PeltRefine.full in Hf. lia. }
  split.
  - apply (peltA_scores_lower_sec V W I0 pen m delay Hm C eps (storedA V W I0 pen m delay n) n);
      auto. intros e He'. reflexivity.
  - apply (peltA_scores_upper_sec V W I0 pen m delay Hm C eps (storedA V W I0 pen m delay n) n)
      with (N := N); auto.
    + intros T HT. apply HW. lia.
    + apply runA_GInv. exact Hm.
    + lia.
Qed.

(** ** The same with [V], [W], [I0] within [eps] of exact arithmetic EVERYWHERE *)

(** the reported final score is within [n * eps] of the TRUE penalised cost of the
    reported segmentation (no split inequality, no condition on [delay], nothing on [W]) *)
Theorem peltA_final_close (V : nat -> nat -> R -> R) (W : nat -> R -> R) (I0 : nat -> R)
    (C : nat -> nat -> R) (pen eps : R) (m delay n : nat) :
  (1 <= m)%nat -> (2 * m <= n)%nat ->
  (forall a T g, Rabs (V a T g - (g + C a T + pen)) <= eps) ->
  (forall e, Rabs (I0 e - C 0%nat e) <= eps) ->
  Rabs (nth (n - 1) (fst (peltA V W I0 pen m delay n)) 0
        - pencostR C pen (snd (peltA V W I0 pen m delay n)) n) <= INR n * eps.
Proof. intros Hm Hn HV HI. apply peltA_final_close_run; auto. Qed.

(** MAIN THEOREM: perturbing every arithmetic step by at most [eps] costs at most
    [3 * n * eps] in the TRUE objective *)
Theorem peltA_near_optimal (V : nat -> nat -> R -> R) (W : nat -> R -> R) (I0 : nat -> R)
    (C : nat -> nat -> R) (pen eps : R) (m delay n N : nat) :
  (1 <= m)%nat -> (m <= delay + 1)%nat -> (2 * m <= n)%nat -> (n <= N)%nat ->
  (forall s k e, (s + m <= k)%nat -> (k + m <= e)%nat -> (e <= N)%nat ->
                 C s k + C k e <= C s e) ->
  (forall a T g, Rabs (V a T g - (g + C a T + pen)) <= eps) ->
  (forall T b, Rabs (W T b - (b + pen)) <= eps) ->
  (forall e, Rabs (I0 e - C 0%nat e) <= eps) ->
  forall c, Adm m c n ->
    pencostR C pen (snd (peltA V W I0 pen m delay n)) n
    <= pencostR C pen c n + K_pelt * INR n * eps.
Proof.
  intros Hm Hd Hn HnN Hs HV HW HI c Hc.
  apply (peltA_near_optimal_run V W I0 C pen eps m delay n N); auto.
Qed.

Theorem peltA_scores_close (V : nat -> nat -> R -> R) (W : nat -> R -> R) (I0 : nat -> R)
    (C : nat -> nat -> R) (pen eps : R) (m delay n N : nat) :
  (1 <= m)%nat -> (m <= delay + 1)%nat -> (2 * m <= n)%nat -> (n <= N)%nat ->
  (forall s k e, (s + m <= k)%nat -> (k + m <= e)%nat -> (e <= N)%nat ->
                 C s k + C k e <= C s e) ->
  (forall a T g, Rabs (V a T g - (g + C a T + pen)) <= eps) ->
  (forall T b, Rabs (W T b - (b + pen)) <= eps) ->
  (forall e, Rabs (I0 e - C 0%nat e) <= eps) ->
  forall t, (m <= t <= n)%nat ->
    FR C pen m t - INR t * eps <= nth (t - 1) (fst (peltA V W I0 pen m delay n)) 0
    /\ nth (t - 1) (fst (peltA V W I0 pen m delay n)) 0 <= FR C pen m t + 2 * INR t * eps.
Proof.
  intros Hm Hd Hn HnN Hs HV HW HI t Ht.
  apply (peltA_scores_close_run V W I0 C pen eps m delay n N); auto.
Qed.

(* ------------------------------------------------------------------ *)
(** * Corollary: eps = 0 gives back the exact optimality theorem [peltR_optimal] *)

Corollary peltR_optimal_from_approx (C : nat -> nat -> R) (pen : R) (m delay n : nat) :
  (1 <= m)%nat -> (2 * m <= n)%nat -> (m <= delay + 1)%nat ->
  (forall s k e, (s + m <= k)%nat -> (k + m <= e)%nat -> C s k + C k e <= C s e) ->
  forall c, Adm m c n ->
    pencostR C pen (snd (peltR C pen m delay n)) n <= pencostR C pen c n.
Proof.
  intros Hm Hn Hd Hs c Hc. rewrite <- peltA_exact.
  assert (Hz : forall x, Rabs (x - x) <= 0).
  { intros x. replace (x - x) with 0 by lra. rewrite Rabs_R0. lra. }
  pose proof (peltA_near_optimal (fun a T g => g + C a T + pen) (fun _ b => b + pen) (C 0%nat)
                C pen 0 m delay n n Hm Hd Hn (le_n n)
                (fun s k e H1 H2 _ => Hs s k e H1 H2)
                (fun a T g => Hz _) (fun _ b => Hz _) (fun e => Hz _) c Hc) as H.
  unfold K_pelt in H. lra.
Qed.

(* ------------------------------------------------------------------ *)
(** * Non-vacuity: the hypotheses are satisfiable with eps > 0 by functions that really
      differ from exact arithmetic (candidates always rounded UP by eps, prune thresholds
      always rounded DOWN by eps -- the worst case for pruning) *)

Section NonVacuous.
Variable C : nat -> nat -> R.
Variable pen eps : R.
Hypothesis eps_pos : 0 < eps.

Definition Vbad (a T : nat) (g : R) : R := g + C a T + pen + eps.
Definition Wbad (T : nat) (b : R) : R := b + pen - eps.
Definition Ibad (e : nat) : R := C 0%nat e - eps.

Lemma Vbad_ok : forall a T g, Rabs (Vbad a T g - (g + C a T + pen)) <= eps.
Proof. intros. unfold Vbad. apply Rabs_le_of. lra. Qed.
Lemma Wbad_ok : forall T b, Rabs (Wbad T b - (b + pen)) <= eps.
Proof. intros. unfold Wbad. apply Rabs_le_of. lra. Qed.
Lemma Ibad_ok : forall e, Rabs (Ibad e - C 0%nat e) <= eps.
Proof. intros. unfold Ibad. apply Rabs_le_of. lra. Qed.
Lemma Vbad_differs : forall a T g, Vbad a T g <> g + C a T + pen.
Proof. intros. unfold Vbad. lra. Qed.
Lemma Wbad_differs : forall T b, Wbad T b <> b + pen.
Proof. intros. unfold Wbad. lra. Qed.
End NonVacuous.

(** a fully concrete instance: zero cost, penalty 1, min segment length 1, delay 0,
    eps = 1/8, on 10 observations: all hypotheses of [peltA_near_optimal] hold *)
Example peltA_near_optimal_instance :
  forall c, Adm 1 c 10 ->
    pencostR (fun _ _ => 0) 1
      (snd (peltA (Vbad (fun _ _ => 0) 1 (1/8)) (Wbad 1 (1/8)) (Ibad (fun _ _ => 0) (1/8))
                  1 1 0 10)) 10
    <= pencostR (fun _ _ => 0) 1 c 10 + 3 * INR 10 * (1/8).
Proof.
  intros c Hc.
  apply (peltA_near_optimal _ _ _ (fun _ _ => 0) 1 (1/8) 1 0 10 10); try lia; try exact Hc.
  - intros. lra.
  - apply Vbad_ok. lra.
  - apply Wbad_ok. lra.
  - apply Ibad_ok. lra.
Qed.

Print Assumptions peltA_adm.
Print Assumptions peltA_final_close.
Print Assumptions peltA_final_close_run.
Print Assumptions peltA_near_optimal.
Print Assumptions peltA_near_optimal_run.
