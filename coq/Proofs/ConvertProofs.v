(** Machine-checked properties of the sparse <-> dense converters modelled in
    Model/Convert.v: pointwise label characterisations and round trips for the
    change-detector, collective-anomaly and subset-anomaly converters, plus the
    refutation of the round trip for the original (label-blind) collective
    dense_to_sparse on adjacent intervals. *)
From Coq Require Import ZArith List Lia Bool Arith Permutation Sorted.
From SK Require Import Lib.Base Model.Convert.
Import ListNotations.
Close Scope Z_scope.
Open Scope nat_scope.

(** * Generic list lemmas *)

Lemma nth_repeat_if : forall (A : Type) (v d : A) m i,
  nth i (repeat v m) d = if i <? m then v else d.
Proof.
  intros A v d m. induction m as [|m IH]; intros i.
  - simpl. destruct i; reflexivity.
  - destruct i as [|i].
    + reflexivity.
    + simpl repeat. simpl nth. rewrite IH. reflexivity.
Qed.

Lemma combine_seq_map_from : forall (A : Type) (d : A) (l : list A) o,
  combine (seq o (length l)) l = map (fun i => (i, nth (i - o) l d)) (seq o (length l)).
Proof.
  intros A d l. induction l as [|x t IH]; intros o.
  - reflexivity.
  - simpl. rewrite Nat.sub_diag. f_equal.
    rewrite IH. apply map_ext_in. intros i Hi. apply in_seq in Hi.
    replace (i - o) with (S (i - S o)) by lia. reflexivity.
Qed.

Lemma combine_seq_map : forall (A : Type) (d : A) (l : list A),
  combine (seq 0 (length l)) l = map (fun i => (i, nth i l d)) (seq 0 (length l)).
Proof.
  intros A d l. rewrite (combine_seq_map_from _ d l 0).
  apply map_ext. intros i. rewrite Nat.sub_0_r. reflexivity.
Qed.

Lemma nth_map_seq : forall (B : Type) (f : nat -> B) o n i d,
  i < n -> nth i (map f (seq o n)) d = f (o + i).
Proof.
  intros B f o n i d Hi.
  rewrite nth_indep with (d' := f 0) by (rewrite map_length, seq_length; lia).
  rewrite map_nth. rewrite seq_nth by lia. reflexivity.
Qed.

Lemma map_const_repeat : forall (A B : Type) (f : A -> B) (c : B) (l : list A),
  (forall x, In x l -> f x = c) -> map f l = repeat c (length l).
Proof.
  intros A B f c l. induction l as [|x t IH]; intros H.
  - reflexivity.
  - simpl. rewrite (H x) by (left; reflexivity). f_equal.
    apply IH. intros y Hy. apply H. right. exact Hy.
Qed.

Lemma filter_all_false : forall (A : Type) (f : A -> bool) (l : list A),
  (forall x, In x l -> f x = false) -> filter f l = [].
Proof.
  intros A f l. induction l as [|x t IH]; intros H.
  - reflexivity.
  - simpl. rewrite (H x) by (left; reflexivity).
    apply IH. intros y Hy. apply H. right. exact Hy.
Qed.

Lemma filter_all_true : forall (A : Type) (f : A -> bool) (l : list A),
  (forall x, In x l -> f x = true) -> filter f l = l.
Proof.
  intros A f l. induction l as [|x t IH]; intros H.
  - reflexivity.
  - simpl. rewrite (H x) by (left; reflexivity). f_equal.
    apply IH. intros y Hy. apply H. right. exact Hy.
Qed.

Lemma filter_map_comm : forall (A B : Type) (g : A -> B) (f : B -> bool) (l : list A),
  filter f (map g l) = map g (filter (fun x => f (g x)) l).
Proof.
  intros A B g f l. induction l as [|x t IH].
  - reflexivity.
  - simpl. destruct (f (g x)); simpl; rewrite IH; reflexivity.
Qed.

(** * assign *)

Lemma assign_eq : forall (A : Type) (l : list A) a b v d,
  assign l a b v =
  map (fun i => if (a <=? i) && (i <? b) then v else nth i l d) (seq 0 (length l)).
Proof.
  intros A l a b v d. unfold assign. rewrite (combine_seq_map _ d l).
  rewrite map_map. apply map_ext. intros i. reflexivity.
Qed.

Lemma assign_length : forall (A : Type) (l : list A) a b v,
  length (assign l a b v) = length l.
Proof.
  intros A l a b v. unfold assign.
  rewrite map_length, combine_length, seq_length. apply Nat.min_id.
Qed.

Lemma nth_assign : forall (A : Type) (l : list A) a b v d i,
  i < length l ->
  nth i (assign l a b v) d = if (a <=? i) && (i <? b) then v else nth i l d.
Proof.
  intros A l a b v d i Hi. rewrite (assign_eq _ l a b v d).
  rewrite nth_map_seq by exact Hi. reflexivity.
Qed.

(** * Change detectors *)

Fixpoint incr_from (lo : nat) (cpts : list nat) (n : nat) : Prop :=
  match cpts with
  | [] => True
  | c :: t => lo < c /\ c < n /\ incr_from c t n
  end.
Definition cpts_ok (n : nat) (cpts : list nat) : Prop := incr_from 0 cpts n.

Lemma incr_from_In : forall cpts lo n c,
  incr_from lo cpts n -> In c cpts -> lo < c /\ c < n.
Proof.
  induction cpts as [|x t IH]; intros lo n c H Hin.
  - destruct Hin.
  - destruct H as [H1 [H2 H3]]. destruct Hin as [Heq | Hin].
    + subst. lia.
    + destruct (IH x n c H3 Hin). lia.
Qed.

Lemma incr_from_weaken : forall cpts lo lo' n,
  incr_from lo cpts n -> lo' <= lo -> incr_from lo' cpts n.
Proof.
  intros cpts lo lo' n H Hle. destruct cpts as [|x t].
  - exact I.
  - destruct H as [H1 [H2 H3]]. simpl. repeat split; try lia. exact H3.
Qed.

Lemma incr_from_filter_nil : forall cpts lo n i,
  incr_from lo cpts n -> i <= lo -> filter (fun c => c <=? i) cpts = [].
Proof.
  intros cpts lo n i H Hi. apply filter_all_false. intros c Hc.
  destruct (incr_from_In _ _ _ _ H Hc) as [H1 _]. apply Nat.leb_gt. lia.
Qed.

Lemma cd_fill_length : forall cpts l prev n k,
  length (cd_fill l prev cpts n k) = length l.
Proof.
  induction cpts as [|c t IH]; intros l prev n k; simpl.
  - apply assign_length.
  - rewrite IH. apply assign_length.
Qed.

Theorem cd_s2d_length : forall n cpts, length (cd_s2d n cpts) = n.
Proof.
  intros n cpts. unfold cd_s2d. rewrite cd_fill_length. apply repeat_length.
Qed.

Lemma cd_fill_nth : forall cpts l prev n k i,
  length l = n -> incr_from prev cpts n -> i < n ->
  nth i (cd_fill l prev cpts n k) 0 =
  if i <? prev then nth i l 0 else k + length (filter (fun c => c <=? i) cpts).
Proof.
  induction cpts as [|c t IH]; intros l prev n k i Hlen Hok Hi.
  - simpl. rewrite nth_assign by lia.
    destruct (Nat.ltb_spec i prev) as [Hlt | Hge].
    + replace (prev <=? i) with false by (symmetry; apply Nat.leb_gt; lia). reflexivity.
    + replace (prev <=? i) with true by (symmetry; apply Nat.leb_le; lia).
      replace (i <? n) with true by (symmetry; apply Nat.ltb_lt; lia). simpl. lia.
  - destruct Hok as [H1 [H2 H3]]. simpl cd_fill.
    rewrite IH; [ | rewrite assign_length; exact Hlen | exact H3 | exact Hi ].
    simpl filter.
    destruct (Nat.ltb_spec i c) as [Hlt | Hge].
    + rewrite nth_assign by lia.
      replace (c <=? i) with false by (symmetry; apply Nat.leb_gt; lia).
      rewrite (incr_from_filter_nil t c n i H3) by lia.
      destruct (Nat.ltb_spec i prev) as [Hlt' | Hge'].
      * replace (prev <=? i) with false by (symmetry; apply Nat.leb_gt; lia). reflexivity.
      * replace (prev <=? i) with true by (symmetry; apply Nat.leb_le; lia).
        replace (i <? c) with true by (symmetry; apply Nat.ltb_lt; lia). simpl. lia.
    + replace (c <=? i) with true by (symmetry; apply Nat.leb_le; lia).
      replace (i <? prev) with false by (symmetry; apply Nat.ltb_ge; lia).
      simpl. lia.
Qed.

Theorem cd_s2d_label : forall n cpts i,
  cpts_ok n cpts -> i < n ->
  nth i (cd_s2d n cpts) 0 = length (filter (fun c => c <=? i) cpts).
Proof.
  intros n cpts i Hok Hi. unfold cd_s2d.
  rewrite cd_fill_nth; [ | apply repeat_length | exact Hok | exact Hi ].
  reflexivity.
Qed.

(** ** Block decomposition of the dense labels *)
Fixpoint cd_blocks (prev : nat) (cpts : list nat) (n k : nat) : list nat :=
  match cpts with
  | [] => repeat k (n - prev)
  | c :: t => repeat k (c - prev) ++ cd_blocks c t n (S k)
  end.

Lemma cd_blocks_length : forall cpts prev n k,
  incr_from prev cpts n -> prev <= n -> length (cd_blocks prev cpts n k) = n - prev.
Proof.
  induction cpts as [|c t IH]; intros prev n k Hok Hle; simpl.
  - apply repeat_length.
  - destruct Hok as [H1 [H2 H3]]. rewrite app_length, repeat_length, IH by (assumption || lia). lia.
Qed.

Lemma cd_blocks_nth : forall cpts prev n k i,
  incr_from prev cpts n -> prev <= n -> i < n - prev ->
  nth i (cd_blocks prev cpts n k) 0 = k + length (filter (fun c => c <=? prev + i) cpts).
Proof.
  induction cpts as [|c t IH]; intros prev n k i Hok Hle Hi; simpl cd_blocks.
  - rewrite nth_repeat_if. replace (i <? n - prev) with true by (symmetry; apply Nat.ltb_lt; lia).
    simpl. lia.
  - destruct Hok as [H1 [H2 H3]]. simpl filter.
    destruct (Nat.lt_ge_cases i (c - prev)) as [Hlt | Hge].
    + rewrite app_nth1 by (rewrite repeat_length; exact Hlt).
      rewrite nth_repeat_if. replace (i <? c - prev) with true by (symmetry; apply Nat.ltb_lt; lia).
      replace (c <=? prev + i) with false by (symmetry; apply Nat.leb_gt; lia).
      rewrite (incr_from_filter_nil t c n (prev + i) H3) by lia. simpl. lia.
    + rewrite app_nth2 by (rewrite repeat_length; exact Hge).
      rewrite repeat_length.
      rewrite IH by (assumption || lia).
      replace (c <=? prev + i) with true by (symmetry; apply Nat.leb_le; lia).
      replace (c + (i - (c - prev))) with (prev + i) by lia. simpl. lia.
Qed.

Lemma cd_s2d_blocks : forall n cpts, cpts_ok n cpts -> cd_s2d n cpts = cd_blocks 0 cpts n 0.
Proof.
  intros n cpts Hok. apply nth_ext with (d := 0) (d' := 0).
  - rewrite cd_s2d_length, cd_blocks_length by (assumption || lia). lia.
  - intros i Hi. rewrite cd_s2d_length in Hi.
    rewrite cd_s2d_label by assumption.
    rewrite cd_blocks_nth by (assumption || lia). reflexivity.
Qed.

Lemma cd_d2s_from_skip : forall m i k R,
  cd_d2s_from i k (repeat k m ++ R) = cd_d2s_from (i + m) k R.
Proof.
  induction m as [|m IH]; intros i k R.
  - simpl. rewrite Nat.add_0_r. reflexivity.
  - simpl. rewrite Nat.eqb_refl. rewrite IH. f_equal. lia.
Qed.

Lemma cd_d2s_from_head : forall R c k x,
  hd_error R = Some x -> x <> k -> cd_d2s_from c k R = c :: cd_d2s_from c x R.
Proof.
  intros R c k x Hhd Hne. destruct R as [|y R]; simpl in Hhd.
  - discriminate.
  - inversion Hhd; subst y. simpl.
    rewrite Nat.eqb_refl. apply Nat.eqb_neq in Hne. rewrite Hne. reflexivity.
Qed.

Lemma cd_blocks_hd : forall t c n k,
  incr_from c t n -> c < n -> hd_error (cd_blocks c t n k) = Some k.
Proof.
  intros t c n k Hok Hlt. destruct t as [|c' t]; simpl.
  - destruct (n - c) eqn:E; [lia | reflexivity].
  - destruct Hok as [H1 _]. destruct (c' - c) eqn:E; [lia | reflexivity].
Qed.

Lemma cd_d2s_from_blocks : forall cpts prev n k,
  incr_from prev cpts n -> cd_d2s_from prev k (cd_blocks prev cpts n k) = cpts.
Proof.
  induction cpts as [|c t IH]; intros prev n k Hok; simpl cd_blocks.
  - rewrite <- (app_nil_r (repeat k (n - prev))). rewrite cd_d2s_from_skip. reflexivity.
  - destruct Hok as [H1 [H2 H3]]. rewrite cd_d2s_from_skip.
    replace (prev + (c - prev)) with c by lia.
    rewrite (cd_d2s_from_head (cd_blocks c t n (S k)) c k (S k)).
    + rewrite IH by exact H3. reflexivity.
    + apply cd_blocks_hd; assumption.
    + lia.
Qed.

Lemma cd_d2s_eq : forall L, cd_d2s L = cd_d2s_from 0 (hd 0 L) L.
Proof.
  intros L. destruct L as [|x t]; simpl.
  - reflexivity.
  - rewrite Nat.eqb_refl. reflexivity.
Qed.

Theorem cd_roundtrip : forall n cpts, cpts_ok n cpts -> cd_d2s (cd_s2d n cpts) = cpts.
Proof.
  intros n cpts Hok. rewrite cd_s2d_blocks by exact Hok. rewrite cd_d2s_eq.
  assert (Hhd : hd 0 (cd_blocks 0 cpts n 0) = 0).
  { destruct cpts as [|c t]; simpl.
    - destruct (n - 0); reflexivity.
    - destruct Hok as [H1 _]. destruct (c - 0) eqn:E; [lia | reflexivity]. }
  rewrite Hhd. apply cd_d2s_from_blocks. exact Hok.
Qed.

(** ** Specification of cd_d2s on arbitrary label lists *)
Lemma cd_d2s_from_In : forall l i prev j,
  In j (cd_d2s_from i prev l) <->
  exists m, j = i + m /\ m < length l /\ nth (S m) (prev :: l) 0 <> nth m (prev :: l) 0.
Proof.
  induction l as [|x t IH]; intros i prev j.
  - simpl. split; [intros [] | intros [m [_ [H _]]]; lia].
  - simpl cd_d2s_from. destruct (Nat.eqb_spec x prev) as [Heq | Hne].
    + rewrite IH. split.
      * intros [m [H1 [H2 H3]]]. exists (S m). split; [lia|]. split; [simpl; lia|]. exact H3.
      * intros [m [H1 [H2 H3]]]. destruct m as [|m].
        -- simpl in H3. congruence.
        -- exists m. split; [lia|]. split; [simpl in H2; lia|]. exact H3.
    + simpl In. rewrite IH. split.
      * intros [Hj | [m [H1 [H2 H3]]]].
        -- exists 0. split; [lia|]. split; [simpl; lia|]. simpl. exact Hne.
        -- exists (S m). split; [lia|]. split; [simpl; lia|]. exact H3.
      * intros [m [H1 [H2 H3]]]. destruct m as [|m].
        -- left. lia.
        -- right. exists m. split; [lia|]. split; [simpl in H2; lia|]. exact H3.
Qed.

Theorem cd_d2s_spec : forall labels i,
  In i (cd_d2s labels) <->
  1 <= i < length labels /\ nth i labels 0 <> nth (i - 1) labels 0.
Proof.
  intros labels i. destruct labels as [|x t].
  - simpl. split; [intros [] | intros [H _]; lia].
  - unfold cd_d2s. rewrite cd_d2s_from_In. split.
    + intros [m [H1 [H2 H3]]]. subst i. split; [simpl; lia|].
      replace (1 + m - 1) with m by lia. exact H3.
    + intros [[H1 H2] H3]. exists (i - 1). split; [lia|]. split; [simpl in H2; lia|].
      replace (S (i - 1)) with i by lia. exact H3.
Qed.

Lemma cd_d2s_from_incr : forall l i prev lo,
  lo < i -> incr_from lo (cd_d2s_from i prev l) (i + length l).
Proof.
  induction l as [|x t IH]; intros i prev lo Hlo; simpl cd_d2s_from.
  - exact I.
  - simpl length. replace (i + S (length t)) with (S i + length t) by lia.
    destruct (x =? prev).
    + apply IH. lia.
    + simpl. split; [exact Hlo|]. split; [lia|]. apply IH. lia.
Qed.

(** the output of cd_d2s is always a valid (strictly increasing, in 1..n-1) changepoint list *)
Theorem cd_d2s_ok : forall labels, cpts_ok (length labels) (cd_d2s labels).
Proof.
  intros labels. destruct labels as [|x t].
  - exact I.
  - unfold cpts_ok, cd_d2s. simpl length.
    replace (S (length t)) with (1 + length t) by lia.
    apply cd_d2s_from_incr. lia.
Qed.

Lemma incr_from_sorted : forall cpts lo n, incr_from lo cpts n -> StronglySorted lt (lo :: cpts).
Proof.
  induction cpts as [|c t IH]; intros lo n H.
  - constructor; constructor.
  - destruct H as [H1 [H2 H3]]. pose proof (IH c n H3) as Hs.
    constructor.
    + exact Hs.
    + constructor; [exact H1|]. inversion Hs as [|? ? _ Hall]; subst.
      eapply Forall_impl; [|exact Hall]. intros a Ha. simpl in Ha. lia.
Qed.

Theorem cd_d2s_increasing : forall labels, StronglySorted lt (cd_d2s labels).
Proof.
  intros labels. pose proof (incr_from_sorted _ _ _ (cd_d2s_ok labels)) as H.
  inversion H; assumption.
Qed.

(** * Collective anomalies *)

Fixpoint ivs_from (lo : nat) (ivs : list (nat * nat)) (n : nat) : Prop :=
  match ivs with
  | [] => lo <= n
  | (s, e) :: t => lo <= s /\ s < e /\ e <= n /\ ivs_from e t n
  end.
Definition ivs_ok (n : nat) (ivs : list (nat * nat)) : Prop := ivs_from 0 ivs n.

Lemma ivs_from_le : forall ivs lo n, ivs_from lo ivs n -> lo <= n.
Proof.
  intros ivs lo n H. destruct ivs as [|[s e] t]; simpl in H; lia.
Qed.

Lemma ivs_from_In : forall ivs lo n s e,
  ivs_from lo ivs n -> In (s, e) ivs -> lo <= s /\ s < e /\ e <= n.
Proof.
  induction ivs as [|[s0 e0] t IH]; intros lo n s e H Hin.
  - destruct Hin.
  - destruct H as [H1 [H2 [H3 H4]]]. destruct Hin as [Heq | Hin].
    + inversion Heq; subst. lia.
    + destruct (IH e0 n s e H4 Hin). lia.
Qed.

Theorem ca_s2d_length : forall n ivs, length (ca_s2d n ivs) = n.
Proof.
  intros n ivs. unfold ca_s2d. rewrite map_length. apply seq_length.
Qed.

Lemma ca_s2d_nth : forall n ivs i, i < n -> nth i (ca_s2d n ivs) 0 = find_iv i ivs 1.
Proof.
  intros n ivs i Hi. unfold ca_s2d. rewrite nth_map_seq by exact Hi. reflexivity.
Qed.

Lemma find_iv_before : forall ivs lo n i k,
  ivs_from lo ivs n -> i < lo -> find_iv i ivs k = 0.
Proof.
  induction ivs as [|[s e] t IH]; intros lo n i k H Hi; simpl.
  - reflexivity.
  - destruct H as [H1 [H2 [H3 H4]]].
    replace (s <=? i) with false by (symmetry; apply Nat.leb_gt; lia). simpl.
    apply (IH e n); [exact H4 | lia].
Qed.

Lemma find_iv_hit : forall ivs lo n i k0 k s e,
  ivs_from lo ivs n -> nth_error ivs k = Some (s, e) -> s <= i < e ->
  find_iv i ivs k0 = k0 + k.
Proof.
  induction ivs as [|[s0 e0] t IH]; intros lo n i k0 k s e H Hnth Hi.
  - destruct k; discriminate.
  - destruct H as [H1 [H2 [H3 H4]]]. destruct k as [|k]; simpl in Hnth.
    + inversion Hnth; subst. simpl.
      replace (s <=? i) with true by (symmetry; apply Nat.leb_le; lia).
      replace (i <? e) with true by (symmetry; apply Nat.ltb_lt; lia). simpl. lia.
    + pose proof (ivs_from_In _ _ _ _ _ H4 (nth_error_In _ _ Hnth)) as Hin.
      simpl. replace (i <? e0) with false by (symmetry; apply Nat.ltb_ge; lia).
      rewrite andb_false_r. rewrite (IH e0 n i (S k0) k s e H4 Hnth Hi). lia.
Qed.

Lemma find_iv_miss : forall ivs i k,
  (forall s e, In (s, e) ivs -> ~ (s <= i < e)) -> find_iv i ivs k = 0.
Proof.
  induction ivs as [|[s e] t IH]; intros i k H; simpl.
  - reflexivity.
  - destruct ((s <=? i) && (i <? e)) eqn:E.
    + apply andb_true_iff in E. destruct E as [E1 E2].
      apply Nat.leb_le in E1. apply Nat.ltb_lt in E2.
      exfalso. apply (H s e); [left; reflexivity | lia].
    + apply IH. intros s' e' Hin. apply H. right. exact Hin.
Qed.

Theorem ca_s2d_label : forall n ivs i,
  ivs_ok n ivs -> i < n ->
  (forall k s e, nth_error ivs k = Some (s, e) -> s <= i < e ->
     nth i (ca_s2d n ivs) 0 = S k) /\
  ((forall s e, In (s, e) ivs -> ~ (s <= i < e)) -> nth i (ca_s2d n ivs) 0 = 0).
Proof.
  intros n ivs i Hok Hi. rewrite ca_s2d_nth by exact Hi. split.
  - intros k s e Hnth Hin. rewrite (find_iv_hit ivs 0 n i 1 k s e Hok Hnth Hin). reflexivity.
  - intros H. apply find_iv_miss. exact H.
Qed.

(** ** Block decomposition *)
Fixpoint ca_blocks (lo : nat) (ivs : list (nat * nat)) (n k : nat) : list nat :=
  match ivs with
  | [] => repeat 0 (n - lo)
  | (s, e) :: t => repeat 0 (s - lo) ++ repeat k (e - s) ++ ca_blocks e t n (S k)
  end.

Lemma ca_map_blocks : forall ivs lo n k,
  ivs_from lo ivs n ->
  map (fun i => find_iv i ivs k) (seq lo (n - lo)) = ca_blocks lo ivs n k.
Proof.
  induction ivs as [|[s e] t IH]; intros lo n k H.
  - simpl. rewrite (map_const_repeat _ _ (fun _ : nat => 0) 0) by reflexivity.
    rewrite seq_length. reflexivity.
  - destruct H as [H1 [H2 [H3 H4]]]. simpl ca_blocks.
    replace (n - lo) with ((s - lo) + ((e - s) + (n - e))) by lia.
    rewrite seq_app, map_app. replace (lo + (s - lo)) with s by lia.
    rewrite seq_app, map_app. replace (s + (e - s)) with e by lia.
    f_equal; [ | f_equal ].
    + rewrite (map_const_repeat _ _ _ 0); [rewrite seq_length; reflexivity|].
      intros i Hi. apply in_seq in Hi. simpl.
      replace (s <=? i) with false by (symmetry; apply Nat.leb_gt; lia). simpl.
      apply (find_iv_before t e n); [exact H4 | lia].
    + rewrite (map_const_repeat _ _ _ k); [rewrite seq_length; reflexivity|].
      intros i Hi. apply in_seq in Hi. simpl.
      replace (s <=? i) with true by (symmetry; apply Nat.leb_le; lia).
      replace (i <? e) with true by (symmetry; apply Nat.ltb_lt; lia). reflexivity.
    + rewrite <- (IH e n (S k) H4). apply map_ext_in.
      intros i Hi. apply in_seq in Hi. simpl.
      replace (i <? e) with false by (symmetry; apply Nat.ltb_ge; lia).
      rewrite andb_false_r. reflexivity.
Qed.

Lemma ca_s2d_blocks : forall n ivs, ivs_ok n ivs -> ca_s2d n ivs = ca_blocks 0 ivs n 1.
Proof.
  intros n ivs Hok. unfold ca_s2d. rewrite <- (ca_map_blocks ivs 0 n 1 Hok).
  rewrite Nat.sub_0_r. reflexivity.
Qed.

Lemma ca_runs_zeros : forall m i R,
  ca_runs i None (repeat 0 m ++ R) = ca_runs (i + m) None R.
Proof.
  induction m as [|m IH]; intros i R.
  - simpl. rewrite Nat.add_0_r. reflexivity.
  - simpl. rewrite IH. f_equal. lia.
Qed.

Lemma ca_runs_same : forall m i s k R,
  ca_runs i (Some (s, k)) (repeat k m ++ R) = ca_runs (i + m) (Some (s, k)) R.
Proof.
  induction m as [|m IH]; intros i s k R.
  - simpl. rewrite Nat.add_0_r. reflexivity.
  - simpl. rewrite Nat.eqb_refl. rewrite IH. f_equal. lia.
Qed.

(** opening a run from the idle state *)
Lemma ca_runs_open : forall s e k R,
  s < e -> 0 < k ->
  ca_runs s None (repeat k (e - s) ++ R) = ca_runs e (Some (s, k)) R.
Proof.
  intros s e k R Hse Hk. destruct (e - s) as [|m] eqn:E; [lia|].
  simpl. replace (0 <? k) with true by (symmetry; apply Nat.ltb_lt; lia).
  rewrite ca_runs_same. f_equal. lia.
Qed.

(** closing a run on a zero *)
Lemma ca_runs_close : forall m i s0 k0 R,
  0 < k0 -> 0 < m ->
  ca_runs i (Some (s0, k0)) (repeat 0 m ++ R) = (s0, i) :: ca_runs (i + m) None R.
Proof.
  intros m i s0 k0 R Hk Hm. destruct m as [|m]; [lia|].
  destruct k0 as [|k0]; [lia|]. simpl.
  rewrite ca_runs_zeros. do 2 f_equal. lia.
Qed.

(** switching directly to an adjacent run with a different label *)
Lemma ca_runs_switch : forall i e s0 k0 k R,
  k <> k0 -> 0 < k -> i < e ->
  ca_runs i (Some (s0, k0)) (repeat k (e - i) ++ R) = (s0, i) :: ca_runs e (Some (i, k)) R.
Proof.
  intros i e s0 k0 k R Hne Hk Hie. destruct (e - i) as [|m] eqn:E; [lia|].
  simpl. replace (k =? k0) with false by (symmetry; apply Nat.eqb_neq; lia).
  replace (0 <? k) with true by (symmetry; apply Nat.ltb_lt; lia).
  rewrite ca_runs_same. do 2 f_equal. lia.
Qed.

Lemma ca_runs_blocks : forall ivs lo n k cur,
  ivs_from lo ivs n -> 0 < k ->
  (match cur with None => True | Some (_, k0) => 0 < k0 /\ k0 <> k end) ->
  ca_runs lo cur (ca_blocks lo ivs n k) =
  match cur with None => ivs | Some (s0, _) => (s0, lo) :: ivs end.
Proof.
  induction ivs as [|[s e] t IH]; intros lo n k cur H Hk Hcur.
  - simpl in H. simpl ca_blocks. rewrite <- (app_nil_r (repeat 0 (n - lo))).
    destruct cur as [[s0 k0]|].
    + destruct Hcur as [Hk0 _]. destruct (Nat.eq_dec (n - lo) 0) as [E|E].
      * rewrite E. reflexivity.
      * rewrite ca_runs_close by lia. reflexivity.
    + rewrite ca_runs_zeros. reflexivity.
  - destruct H as [H1 [H2 [H3 H4]]]. simpl ca_blocks.
    assert (Hopen : ca_runs s None (repeat k (e - s) ++ ca_blocks e t n (S k)) = (s, e) :: t).
    { rewrite ca_runs_open by lia.
      apply (IH e n (S k) (Some (s, k))); [exact H4 | lia | lia]. }
    destruct cur as [[s0 k0]|].
    + destruct Hcur as [Hk0 Hne]. destruct (Nat.eq_dec (s - lo) 0) as [E|E].
      * rewrite E. simpl app. assert (s = lo) by lia. subst s.
        rewrite ca_runs_switch by lia.
        rewrite (IH e n (S k) (Some (lo, k))); [reflexivity | exact H4 | lia | lia].
      * rewrite ca_runs_close by lia. replace (lo + (s - lo)) with s by lia.
        rewrite Hopen. reflexivity.
    + rewrite ca_runs_zeros. replace (lo + (s - lo)) with s by lia. exact Hopen.
Qed.

Theorem ca_roundtrip : forall n ivs, ivs_ok n ivs -> ca_d2s (ca_s2d n ivs) = ivs.
Proof.
  intros n ivs Hok. rewrite ca_s2d_blocks by exact Hok. unfold ca_d2s.
  apply (ca_runs_blocks ivs 0 n 1 None); [exact Hok | lia | exact I].
Qed.

(** ** ca_d2s on arbitrary labels returns a well-formed interval list *)
Lemma ca_runs_ok : forall l i cur lo,
  (match cur with None => lo <= i | Some (s, _) => lo <= s /\ s < i end) ->
  ivs_from lo (ca_runs i cur l) (i + length l).
Proof.
  induction l as [|x t IH]; intros i cur lo Hcur.
  - simpl. destruct cur as [[s lab]|]; simpl; lia.
  - simpl length. replace (i + S (length t)) with (S i + length t) by lia.
    simpl ca_runs. destruct cur as [[s lab]|].
    + destruct (x =? lab).
      * apply IH. lia.
      * destruct (0 <? x); simpl; (split; [lia|]; split; [lia|]; split; [lia|]); apply IH; lia.
    + destruct (0 <? x); apply IH; lia.
Qed.

Theorem ca_d2s_spec : forall labels, ivs_ok (length labels) (ca_d2s labels).
Proof.
  intros labels. unfold ivs_ok, ca_d2s.
  apply (ca_runs_ok labels 0 None 0). lia.
Qed.

(** ** ca_d2s returns exactly the maximal runs of one positive label *)
Definition run_ok (L : list nat) (s e : nat) : Prop :=
  s < e <= length L /\
  exists lab, 0 < lab /\ (forall m, s <= m < e -> nth m L 0 = lab) /\
              (s = 0 \/ nth (s - 1) L 0 <> lab) /\
              (e = length L \/ nth e L 0 <> lab).

Definition ca_state_ok (L : list nat) (i : nat) (cur : option (nat * nat)) : Prop :=
  match cur with
  | None => i = 0 \/ nth (i - 1) L 0 = 0
  | Some (s, lab) => s < i /\ 0 < lab /\ (forall m, s <= m < i -> nth m L 0 = lab) /\
                     (s = 0 \/ nth (s - 1) L 0 <> lab)
  end.

Lemma skipn_cons_inv : forall (L : list nat) i x t,
  skipn i L = x :: t -> i < length L /\ nth i L 0 = x /\ skipn (S i) L = t.
Proof.
  induction L as [|a L' IH]; intros i x t H.
  - destruct i; discriminate.
  - destruct i as [|i].
    + simpl in H. inversion H; subst. simpl. split; [lia|]. split; reflexivity.
    + simpl in H. destruct (IH i x t H) as [H1 [H2 H3]].
      split; [simpl; lia|]. split; [exact H2 | exact H3].
Qed.

Lemma ca_runs_run_ok : forall L l i cur,
  skipn i L = l -> ca_state_ok L i cur ->
  forall s e, In (s, e) (ca_runs i cur l) -> run_ok L s e.
Proof.
  intros L. induction l as [|x t IH]; intros i cur Hsk Hst s e Hin.
  - assert (Hlen : length L <= i).
    { pose proof (skipn_length i L) as Hl. rewrite Hsk in Hl. simpl in Hl. lia. }
    destruct cur as [[s0 lab]|]; simpl in Hin; [|destruct Hin].
    destruct Hin as [Heq | []]. inversion Heq; subst s0 e.
    destruct Hst as [Hs0 [Hlab [Hall Hstart]]].
    assert (Hi : i <= length L).
    { destruct (Nat.le_gt_cases i (length L)) as [Hle | Hgt]; [exact Hle|].
      pose proof (Hall (i - 1) ltac:(lia)) as Hv.
      rewrite nth_overflow in Hv by lia. lia. }
    split; [lia|]. exists lab. split; [exact Hlab|]. split; [exact Hall|].
    split; [exact Hstart|]. left. lia.
  - destruct (skipn_cons_inv L i x t Hsk) as [Hi [Hx Hsk']].
    cbn [ca_runs] in Hin. destruct cur as [[s0 lab]|].
    + destruct Hst as [Hs0 [Hlab [Hall Hstart]]].
      assert (Hclose : run_ok L s0 i \/ x = lab).
      { destruct (Nat.eq_dec x lab) as [Heq | Hne]; [right; exact Heq|]. left.
        split; [lia|]. exists lab. split; [exact Hlab|]. split; [exact Hall|].
        split; [exact Hstart|]. right. lia. }
      destruct (Nat.eqb_spec x lab) as [Heq | Hne].
      * apply (IH (S i) (Some (s0, lab)) Hsk'); [|exact Hin].
        split; [lia|]. split; [exact Hlab|]. split; [|exact Hstart].
        intros m Hm. destruct (Nat.eq_dec m i) as [Hmi | Hmi].
        -- subst m. lia.
        -- apply Hall. lia.
      * destruct Hclose as [Hclose | Habs]; [|contradiction].
        destruct (0 <? x) eqn:Ex; destruct Hin as [Heq | Hin].
        -- inversion Heq; subst. exact Hclose.
        -- apply Nat.ltb_lt in Ex.
           apply (IH (S i) (Some (i, x)) Hsk'); [|exact Hin].
           split; [lia|]. split; [exact Ex|]. split.
           ++ intros m Hm. assert (m = i) by lia. subst m. exact Hx.
           ++ right. pose proof (Hall (i - 1) ltac:(lia)) as Hv. lia.
        -- inversion Heq; subst. exact Hclose.
        -- apply Nat.ltb_ge in Ex.
           apply (IH (S i) None Hsk'); [|exact Hin].
           right. replace (S i - 1) with i by lia. lia.
    + destruct (0 <? x) eqn:Ex.
      * apply Nat.ltb_lt in Ex.
        apply (IH (S i) (Some (i, x)) Hsk'); [|exact Hin].
        split; [lia|]. split; [exact Ex|]. split.
        -- intros m Hm. assert (m = i) by lia. subst m. exact Hx.
        -- destruct Hst as [Hz | Hz]; [left; exact Hz | right; lia].
      * apply Nat.ltb_ge in Ex.
        apply (IH (S i) None Hsk'); [|exact Hin].
        right. replace (S i - 1) with i by lia. lia.
Qed.

(** every returned interval is a maximal run of one positive label *)
Theorem ca_d2s_runs : forall labels s e, In (s, e) (ca_d2s labels) -> run_ok labels s e.
Proof.
  intros labels s e Hin.
  apply (ca_runs_run_ok labels labels 0 None); [reflexivity | left; reflexivity | exact Hin].
Qed.

Lemma ca_runs_open_emitted : forall l i s lab,
  exists e, i <= e /\ In (s, e) (ca_runs i (Some (s, lab)) l).
Proof.
  induction l as [|x t IH]; intros i s lab.
  - exists i. split; [lia | left; reflexivity].
  - cbn [ca_runs]. destruct (x =? lab).
    + destruct (IH (S i) s lab) as [e [He Hin]]. exists e. split; [lia | exact Hin].
    + exists i. split; [lia|]. destruct (0 <? x); left; reflexivity.
Qed.

Lemma ca_runs_cover : forall l i cur m,
  (match cur with None => True | Some (s, _) => s <= i end) ->
  m < length l -> 0 < nth m l 0 ->
  exists s e, In (s, e) (ca_runs i cur l) /\ s <= i + m < e.
Proof.
  induction l as [|x t IH]; intros i cur m Hcur Hm Hpos.
  - simpl in Hm. lia.
  - cbn [ca_runs]. destruct m as [|m].
    + simpl in Hpos. replace (0 <? x) with true by (symmetry; apply Nat.ltb_lt; lia).
      destruct cur as [[s0 lab]|].
      * destruct (x =? lab).
        -- destruct (ca_runs_open_emitted t (S i) s0 lab) as [e [He Hin]].
           exists s0, e. split; [exact Hin | lia].
        -- destruct (ca_runs_open_emitted t (S i) i x) as [e [He Hin]].
           exists i, e. split; [right; exact Hin | lia].
      * destruct (ca_runs_open_emitted t (S i) i x) as [e [He Hin]].
        exists i, e. split; [exact Hin | lia].
    + simpl in Hm. simpl in Hpos.
      replace (i + S m) with (S i + m) by lia.
      destruct cur as [[s0 lab]|].
      * destruct (x =? lab).
        -- apply IH; [lia | lia | exact Hpos].
        -- destruct (0 <? x).
           ++ destruct (IH (S i) (Some (i, x)) m) as [s [e [Hin Hb]]]; [lia | lia | exact Hpos |].
              exists s, e. split; [right; exact Hin | exact Hb].
           ++ destruct (IH (S i) None m) as [s [e [Hin Hb]]]; [exact I | lia | exact Hpos |].
              exists s, e. split; [right; exact Hin | exact Hb].
      * destruct (0 <? x); apply IH; try lia; try exact I; exact Hpos.
Qed.

(** every positively labelled position is covered by a returned interval *)
Theorem ca_d2s_cover : forall labels i,
  i < length labels -> 0 < nth i labels 0 ->
  exists s e, In (s, e) (ca_d2s labels) /\ s <= i < e.
Proof.
  intros labels i Hi Hpos.
  destruct (ca_runs_cover labels 0 None i I Hi Hpos) as [s [e [Hin Hb]]].
  exists s, e. split; [exact Hin | simpl in Hb; exact Hb].
Qed.

(** ** Refutation of the round trip for the original label-blind dense_to_sparse *)
Fixpoint ca_runs_nolabel (i : nat) (cur : option nat) (l : list nat) : list (nat * nat) :=
  match l with
  | [] => match cur with Some s => [(s, i)] | None => [] end
  | x :: t =>
    match cur with
    | None => if (0 <? x) then ca_runs_nolabel (S i) (Some i) t
              else ca_runs_nolabel (S i) None t
    | Some s => if (0 <? x) then ca_runs_nolabel (S i) cur t
                else (s, i) :: ca_runs_nolabel (S i) None t
    end
  end.
Definition ca_d2s_pinned (labels : list nat) : list (nat * nat) := ca_runs_nolabel 0 None labels.

Theorem ca_roundtrip_adjacent_refuted :
  exists n ivs, ivs_ok n ivs /\ ca_d2s_pinned (ca_s2d n ivs) <> ivs.
Proof.
  exists 4, [(0, 2); (2, 4)]. split.
  - unfold ivs_ok. simpl. repeat split; lia.
  - vm_compute. discriminate.
Qed.

(** * Subset anomalies *)

Notation iv_of := (fun a : anom3 => (fst (fst a), snd (fst a))).

Definition cols_ok (p : nat) (cols : list nat) : Prop :=
  cols <> [] /\ NoDup cols /\ Forall (fun j => j < p) cols.

Definition anoms_ok (n p : nat) (anoms : list anom3) : Prop :=
  ivs_ok n (map (fun a : anom3 => (fst (fst a), snd (fst a))) anoms) /\
  Forall (fun a : anom3 => cols_ok p (snd a)) anoms.

Lemma memb_In : forall j cols, memb j cols = true <-> In j cols.
Proof.
  intros j cols. unfold memb. rewrite existsb_exists. split.
  - intros [x [Hin Heq]]. apply Nat.eqb_eq in Heq. subst. exact Hin.
  - intros Hin. exists j. split; [exact Hin | apply Nat.eqb_refl].
Qed.

(** pointwise shape of an n x p matrix *)
Definition pshape (n p : nat) (mat : list (list nat)) : Prop :=
  length mat = n /\ forall i, i < n -> length (nth i mat []) = p.

Lemma pshape_In : forall n p mat r, pshape n p mat -> In r mat -> length r = p.
Proof.
  intros n p mat r [Hlen Hrows] Hin.
  destruct (In_nth mat r [] Hin) as [i [Hi Heq]]. subst r. apply Hrows. lia.
Qed.

Lemma zeros_pshape : forall n p, pshape n p (repeat (repeat 0 p) n).
Proof.
  intros n p. split.
  - apply repeat_length.
  - intros i Hi. rewrite nth_repeat_if.
    replace (i <? n) with true by (symmetry; apply Nat.ltb_lt; lia). apply repeat_length.
Qed.

Lemma zeros_nth : forall n p i j, nth j (nth i (repeat (repeat 0 p) n) []) 0 = 0.
Proof.
  intros n p i j. rewrite nth_repeat_if. destruct (i <? n).
  - rewrite nth_repeat_if. destruct (j <? p); reflexivity.
  - destruct j; reflexivity.
Qed.

Lemma sub_assign_length : forall mat a k, length (sub_assign mat a k) = length mat.
Proof.
  intros mat [[s e] cols] k. unfold sub_assign.
  rewrite map_length, combine_length, seq_length. apply Nat.min_id.
Qed.

Lemma sub_assign_nth : forall mat s e cols k i,
  i < length mat ->
  nth i (sub_assign mat (s, e, cols) k) [] =
  if (s <=? i) && (i <? e)
  then map (fun j => if memb j cols then k else nth j (nth i mat []) 0)
           (seq 0 (length (nth i mat [])))
  else nth i mat [].
Proof.
  intros mat s e cols k i Hi. unfold sub_assign.
  rewrite (combine_seq_map _ [] mat). rewrite map_map.
  rewrite nth_map_seq by exact Hi. cbn [fst snd Nat.add].
  destruct ((s <=? i) && (i <? e)); [|reflexivity].
  rewrite (combine_seq_map _ 0 (nth i mat [])). rewrite map_map. reflexivity.
Qed.

Lemma sub_assign_nth2 : forall mat s e cols k i j,
  i < length mat -> j < length (nth i mat []) ->
  nth j (nth i (sub_assign mat (s, e, cols) k) []) 0 =
  if (s <=? i) && (i <? e) && memb j cols then k else nth j (nth i mat []) 0.
Proof.
  intros mat s e cols k i j Hi Hj. rewrite sub_assign_nth by exact Hi.
  destruct ((s <=? i) && (i <? e)); cbn [andb]; [|reflexivity].
  rewrite nth_map_seq by exact Hj. reflexivity.
Qed.

Lemma sub_assign_pshape : forall n p mat a k,
  pshape n p mat -> pshape n p (sub_assign mat a k).
Proof.
  intros n p mat [[s e] cols] k [Hlen Hrows]. split.
  - rewrite sub_assign_length. exact Hlen.
  - intros i Hi. rewrite sub_assign_nth by lia.
    destruct ((s <=? i) && (i <? e)).
    + rewrite map_length, seq_length. apply Hrows. exact Hi.
    + apply Hrows. exact Hi.
Qed.

Lemma sub_fill_pshape : forall anoms n p mat k,
  pshape n p mat -> pshape n p (sub_fill mat anoms k).
Proof.
  induction anoms as [|a t IH]; intros n p mat k Hsh; simpl.
  - exact Hsh.
  - apply IH. apply sub_assign_pshape. exact Hsh.
Qed.

Lemma sub_s2d_pshape : forall n p anoms, pshape n p (sub_s2d n p anoms).
Proof.
  intros n p anoms. unfold sub_s2d. apply sub_fill_pshape. apply zeros_pshape.
Qed.

Theorem sub_s2d_shape : forall n p anoms,
  length (sub_s2d n p anoms) = n /\
  forall r, In r (sub_s2d n p anoms) -> length r = p.
Proof.
  intros n p anoms. pose proof (sub_s2d_pshape n p anoms) as Hsh. split.
  - destruct Hsh as [Hlen _]. exact Hlen.
  - intros r Hr. apply (pshape_In n p _ r Hsh Hr).
Qed.

(** label lookup: the (only) anomaly covering cell (i, j) *)
Fixpoint sub_find (i j : nat) (anoms : list anom3) (k : nat) : option nat :=
  match anoms with
  | [] => None
  | (s, e, cols) :: t =>
      if (s <=? i) && (i <? e) && memb j cols then Some k else sub_find i j t (S k)
  end.

Lemma sub_find_before : forall anoms lo n i j k,
  ivs_from lo (map iv_of anoms) n -> i < lo -> sub_find i j anoms k = None.
Proof.
  induction anoms as [|[[s e] cols] t IH]; intros lo n i j k H Hi; cbn [sub_find].
  - reflexivity.
  - cbn [map fst snd] in H. destruct H as [H1 [H2 [H3 H4]]].
    replace (s <=? i) with false by (symmetry; apply Nat.leb_gt; lia). cbn [andb].
    apply (IH e n); [exact H4 | lia].
Qed.

Lemma sub_find_hit : forall anoms lo n i j k0 k s e cols,
  ivs_from lo (map iv_of anoms) n ->
  nth_error anoms k = Some (s, e, cols) -> s <= i < e -> In j cols ->
  sub_find i j anoms k0 = Some (k0 + k).
Proof.
  induction anoms as [|[[s0 e0] cols0] t IH]; intros lo n i j k0 k s e cols H Hnth Hi Hj.
  - destruct k; discriminate.
  - cbn [map fst snd] in H. destruct H as [H1 [H2 [H3 H4]]]. cbn [sub_find].
    destruct k as [|k]; simpl in Hnth.
    + inversion Hnth; subst.
      replace (s <=? i) with true by (symmetry; apply Nat.leb_le; lia).
      replace (i <? e) with true by (symmetry; apply Nat.ltb_lt; lia).
      replace (memb j cols) with true by (symmetry; apply memb_In; exact Hj).
      cbn [andb]. f_equal. lia.
    + assert (Hin : In (s, e) (map iv_of t)).
      { apply in_map_iff. exists (s, e, cols). split; [reflexivity|].
        apply (nth_error_In _ _ Hnth). }
      pose proof (ivs_from_In _ _ _ _ _ H4 Hin) as Hb.
      replace (i <? e0) with false by (symmetry; apply Nat.ltb_ge; lia).
      rewrite andb_false_r. cbn [andb].
      rewrite (IH e0 n i j (S k0) k s e cols H4 Hnth Hi Hj). f_equal. lia.
Qed.

Lemma sub_find_miss : forall anoms i j k,
  (forall s e cols, In (s, e, cols) anoms -> ~ (s <= i < e /\ In j cols)) ->
  sub_find i j anoms k = None.
Proof.
  induction anoms as [|[[s e] cols] t IH]; intros i j k H; cbn [sub_find].
  - reflexivity.
  - destruct ((s <=? i) && (i <? e) && memb j cols) eqn:E.
    + apply andb_true_iff in E. destruct E as [E E3].
      apply andb_true_iff in E. destruct E as [E1 E2].
      apply Nat.leb_le in E1. apply Nat.ltb_lt in E2. apply memb_In in E3.
      exfalso. apply (H s e cols); [left; reflexivity | split; [lia | exact E3]].
    + apply IH. intros s' e' cols' Hin. apply H. right. exact Hin.
Qed.

Lemma sub_find_some : forall anoms i j k0 v,
  sub_find i j anoms k0 = Some v ->
  exists k s e cols, v = k0 + k /\ nth_error anoms k = Some (s, e, cols) /\
                     s <= i < e /\ In j cols.
Proof.
  induction anoms as [|[[s e] cols] t IH]; intros i j k0 v H; cbn [sub_find] in H.
  - discriminate.
  - destruct ((s <=? i) && (i <? e) && memb j cols) eqn:E.
    + inversion H; subst v.
      apply andb_true_iff in E. destruct E as [E E3].
      apply andb_true_iff in E. destruct E as [E1 E2].
      apply Nat.leb_le in E1. apply Nat.ltb_lt in E2. apply memb_In in E3.
      exists 0, s, e, cols. split; [lia|]. split; [reflexivity|]. split; [lia | exact E3].
    + destruct (IH i j (S k0) v H) as [k [s' [e' [cols' [Hv [Hnth [Hi Hj]]]]]]].
      exists (S k), s', e', cols'. split; [lia|]. split; [exact Hnth|]. split; assumption.
Qed.

Lemma sub_fill_nth : forall anoms mat n p lo k0 i j,
  pshape n p mat -> ivs_from lo (map iv_of anoms) n -> i < n -> j < p ->
  nth j (nth i (sub_fill mat anoms k0) []) 0 =
  match sub_find i j anoms k0 with
  | None => nth j (nth i mat []) 0
  | Some v => v
  end.
Proof.
  induction anoms as [|[[s e] cols] t IH]; intros mat n p lo k0 i j Hsh Hok Hi Hj.
  - reflexivity.
  - cbn [map fst snd] in Hok. destruct Hok as [H1 [H2 [H3 H4]]].
    cbn [sub_fill sub_find].
    rewrite (IH (sub_assign mat (s, e, cols) k0) n p e (S k0) i j);
      [ | apply sub_assign_pshape; exact Hsh | exact H4 | exact Hi | exact Hj ].
    destruct Hsh as [Hlen Hrows].
    rewrite sub_assign_nth2 by (try rewrite (Hrows i Hi); lia).
    destruct ((s <=? i) && (i <? e) && memb j cols) eqn:E.
    + rewrite (sub_find_before t e n i j (S k0)); [reflexivity | exact H4 | ].
      apply andb_true_iff in E. destruct E as [E _].
      apply andb_true_iff in E. destruct E as [_ E]. apply Nat.ltb_lt in E. exact E.
    + reflexivity.
Qed.

Lemma sub_s2d_nth : forall n p anoms i j,
  anoms_ok n p anoms -> i < n -> j < p ->
  nth j (nth i (sub_s2d n p anoms) []) 0 =
  match sub_find i j anoms 1 with None => 0 | Some v => v end.
Proof.
  intros n p anoms i j [Hiv _] Hi Hj. unfold sub_s2d.
  rewrite (sub_fill_nth anoms _ n p 0 1 i j (zeros_pshape n p) Hiv Hi Hj).
  rewrite zeros_nth. reflexivity.
Qed.

Theorem sub_s2d_label : forall n p anoms i j,
  anoms_ok n p anoms -> i < n -> j < p ->
  (forall k s e cols, nth_error anoms k = Some (s, e, cols) -> s <= i < e -> In j cols ->
     nth j (nth i (sub_s2d n p anoms) []) 0 = S k) /\
  ((forall s e cols, In (s, e, cols) anoms -> ~ (s <= i < e /\ In j cols)) ->
     nth j (nth i (sub_s2d n p anoms) []) 0 = 0).
Proof.
  intros n p anoms i j Hok Hi Hj. rewrite sub_s2d_nth by assumption. split.
  - intros k s e cols Hnth Hin Hc. destruct Hok as [Hiv _].
    rewrite (sub_find_hit anoms 0 n i j 1 k s e cols Hiv Hnth Hin Hc). reflexivity.
  - intros H. rewrite sub_find_miss by exact H. reflexivity.
Qed.

(** ** Round trip for subset anomalies *)

Lemma sub_s2d_cell_iff : forall n p anoms i j k s e cols,
  anoms_ok n p anoms -> i < n -> j < p ->
  nth_error anoms k = Some (s, e, cols) ->
  (nth j (nth i (sub_s2d n p anoms) []) 0 = S k <-> s <= i < e /\ In j cols).
Proof.
  intros n p anoms i j k s e cols Hok Hi Hj Hnth. split.
  - intros Hv. rewrite sub_s2d_nth in Hv by assumption.
    destruct (sub_find i j anoms 1) as [v|] eqn:E; [|discriminate].
    subst v. destruct (sub_find_some anoms i j 1 (S k) E)
      as [k' [s' [e' [cols' [Hk [Hnth' [Hin Hc]]]]]]].
    assert (k' = k) by lia. subst k'. rewrite Hnth in Hnth'. inversion Hnth'; subst.
    split; assumption.
  - intros [Hin Hc].
    destruct (sub_s2d_label n p anoms i j Hok Hi Hj) as [H _].
    apply (H k s e cols Hnth Hin Hc).
Qed.

Lemma sub_s2d_cell_le : forall n p anoms i j,
  anoms_ok n p anoms -> i < n -> j < p ->
  nth j (nth i (sub_s2d n p anoms) []) 0 <= length anoms.
Proof.
  intros n p anoms i j Hok Hi Hj. rewrite sub_s2d_nth by assumption.
  destruct (sub_find i j anoms 1) as [v|] eqn:E; [|lia].
  destruct (sub_find_some anoms i j 1 v E) as [k [s [e [cols [Hk [Hnth _]]]]]].
  assert (k < length anoms) by (apply nth_error_Some; rewrite Hnth; discriminate).
  lia.
Qed.

Lemma anoms_ok_nth : forall n p anoms k s e cols,
  anoms_ok n p anoms -> nth_error anoms k = Some (s, e, cols) ->
  s < e /\ e <= n /\ cols_ok p cols.
Proof.
  intros n p anoms k s e cols [Hiv Hcols] Hnth.
  pose proof (nth_error_In _ _ Hnth) as Hin.
  assert (Hin' : In (s, e) (map iv_of anoms)).
  { apply in_map_iff. exists (s, e, cols). split; [reflexivity | exact Hin]. }
  pose proof (ivs_from_In _ _ _ _ _ Hiv Hin') as Hb.
  rewrite Forall_forall in Hcols. pose proof (Hcols _ Hin) as Hc. simpl in Hc.
  split; [lia|]. split; [lia | exact Hc].
Qed.

Lemma fold_max_le : forall l b,
  (forall x, In x l -> x <= b) -> fold_right Nat.max 0 l <= b.
Proof.
  induction l as [|x t IH]; intros b H; simpl.
  - lia.
  - pose proof (H x (or_introl eq_refl)) as Hx.
    assert (Ht : fold_right Nat.max 0 t <= b) by (apply IH; intros y Hy; apply H; right; exact Hy).
    lia.
Qed.

Lemma fold_max_ge : forall l x, In x l -> x <= fold_right Nat.max 0 l.
Proof.
  induction l as [|y t IH]; intros x Hin; simpl.
  - destruct Hin.
  - destruct Hin as [Heq | Hin].
    + subst. lia.
    + pose proof (IH x Hin). lia.
Qed.

Lemma sub_s2d_max_label : forall n p anoms,
  anoms_ok n p anoms -> max_label (sub_s2d n p anoms) = length anoms.
Proof.
  intros n p anoms Hok. pose proof (sub_s2d_pshape n p anoms) as Hsh.
  apply Nat.le_antisymm.
  - unfold max_label. apply fold_max_le. intros x Hx.
    apply in_map_iff in Hx. destruct Hx as [r [Hx Hr]]. subst x.
    apply fold_max_le. intros x Hx.
    destruct Hsh as [Hlen Hrows].
    destruct (In_nth _ r [] Hr) as [i [Hi Hri]]. subst r.
    destruct (In_nth _ x 0 Hx) as [j [Hj Hxj]]. subst x.
    rewrite Hlen in Hi. rewrite (Hrows i Hi) in Hj.
    apply sub_s2d_cell_le; assumption.
  - destruct (length anoms) as [|K] eqn:EK; [lia|].
    destruct (nth_error anoms K) as [[[s e] cols]|] eqn:Hnth.
    2:{ apply nth_error_None in Hnth. lia. }
    destruct (anoms_ok_nth n p anoms K s e cols Hok Hnth) as [Hse [Hen [Hne [_ Hall]]]].
    destruct cols as [|j0 cols']; [congruence|].
    assert (Hj0 : j0 < p) by (inversion Hall; assumption).
    assert (Hcell : nth j0 (nth s (sub_s2d n p anoms) []) 0 = S K).
    { apply (sub_s2d_cell_iff n p anoms s j0 K s e (j0 :: cols')); try assumption; try lia.
      split; [lia | left; reflexivity]. }
    destruct Hsh as [Hlen Hrows].
    rewrite <- Hcell. unfold max_label.
    apply Nat.le_trans with (fold_right Nat.max 0 (nth s (sub_s2d n p anoms) [])).
    + apply fold_max_ge. apply nth_In. rewrite Hrows by lia. exact Hj0.
    + apply fold_max_ge. apply in_map. apply nth_In. lia.
Qed.

Lemma rows_with_eq : forall mat k,
  rows_with mat k = filter (fun i => existsb (Nat.eqb k) (nth i mat [])) (seq 0 (length mat)).
Proof.
  intros mat k. unfold rows_with. rewrite (combine_seq_map _ [] mat).
  rewrite filter_map_comm, map_map. cbn [fst snd]. apply map_id.
Qed.

Lemma filter_range_seq : forall s e n,
  s <= e -> e <= n ->
  filter (fun i => (s <=? i) && (i <? e)) (seq 0 n) = seq s (e - s).
Proof.
  intros s e n Hse Hen.
  replace n with (s + ((e - s) + (n - e))) by lia.
  rewrite seq_app. cbn [Nat.add]. rewrite seq_app. replace (s + (e - s)) with e by lia.
  rewrite !filter_app.
  rewrite (filter_all_false _ _ (seq 0 s)).
  2:{ intros i Hi. apply in_seq in Hi.
      replace (s <=? i) with false by (symmetry; apply Nat.leb_gt; lia). reflexivity. }
  rewrite (filter_all_true _ _ (seq s (e - s))).
  2:{ intros i Hi. apply in_seq in Hi.
      replace (s <=? i) with true by (symmetry; apply Nat.leb_le; lia).
      replace (i <? e) with true by (symmetry; apply Nat.ltb_lt; lia). reflexivity. }
  rewrite (filter_all_false _ _ (seq e (n - e))).
  2:{ intros i Hi. apply in_seq in Hi.
      replace (i <? e) with false by (symmetry; apply Nat.ltb_ge; lia).
      apply andb_false_r. }
  simpl. apply app_nil_r.
Qed.

Lemma existsb_row_iff : forall (row : list nat) k,
  existsb (Nat.eqb k) row = true <-> exists j, j < length row /\ nth j row 0 = k.
Proof.
  intros row k. rewrite existsb_exists. split.
  - intros [x [Hin Heq]]. apply Nat.eqb_eq in Heq. subst x.
    destruct (In_nth _ _ 0 Hin) as [j [Hj Hx]]. exists j. split; assumption.
  - intros [j [Hj Hx]]. exists k. split; [|apply Nat.eqb_refl].
    rewrite <- Hx. apply nth_In. exact Hj.
Qed.

Lemma sub_rows_with : forall n p anoms k s e cols,
  anoms_ok n p anoms -> nth_error anoms k = Some (s, e, cols) ->
  rows_with (sub_s2d n p anoms) (S k) = seq s (e - s).
Proof.
  intros n p anoms k s e cols Hok Hnth.
  destruct (anoms_ok_nth n p anoms k s e cols Hok Hnth) as [Hse [Hen [Hne [_ Hall]]]].
  destruct (sub_s2d_pshape n p anoms) as [Hlen Hrows].
  rewrite rows_with_eq, Hlen.
  rewrite <- (filter_range_seq s e n) by lia.
  apply filter_ext_in. intros i Hi. apply in_seq in Hi.
  apply eq_iff_eq_true. rewrite existsb_row_iff, (Hrows i) by lia. split.
  - intros [j [Hj Hv]].
    apply (sub_s2d_cell_iff n p anoms i j k s e cols Hok) in Hv; try assumption; try lia.
    destruct Hv as [Hin _].
    apply andb_true_iff. split; [apply Nat.leb_le | apply Nat.ltb_lt]; lia.
  - intros Hb. apply andb_true_iff in Hb. destruct Hb as [Hb1 Hb2].
    apply Nat.leb_le in Hb1. apply Nat.ltb_lt in Hb2.
    destruct cols as [|j0 cols']; [congruence|].
    assert (Hj0 : j0 < p) by (inversion Hall; assumption).
    exists j0. split; [exact Hj0|].
    apply (sub_s2d_cell_iff n p anoms i j0 k s e (j0 :: cols') Hok); try assumption; try lia.
    split; [lia | left; reflexivity].
Qed.

Lemma sub_cols_with : forall n p anoms k s e cols,
  anoms_ok n p anoms -> nth_error anoms k = Some (s, e, cols) ->
  cols_with (sub_s2d n p anoms) p (S k) = filter (fun j => memb j cols) (seq 0 p).
Proof.
  intros n p anoms k s e cols Hok Hnth.
  destruct (anoms_ok_nth n p anoms k s e cols Hok Hnth) as [Hse [Hen _]].
  destruct (sub_s2d_pshape n p anoms) as [Hlen Hrows].
  unfold cols_with. apply filter_ext_in. intros j Hj. apply in_seq in Hj.
  apply eq_iff_eq_true. rewrite existsb_exists, memb_In. split.
  - intros [r [Hr Hv]]. apply Nat.eqb_eq in Hv.
    destruct (In_nth _ r [] Hr) as [i [Hi Hri]]. subst r. rewrite Hlen in Hi.
    apply (sub_s2d_cell_iff n p anoms i j k s e cols Hok) in Hv; try assumption; try lia.
    destruct Hv as [_ Hc]. exact Hc.
  - intros Hc. exists (nth s (sub_s2d n p anoms) []). split.
    + apply nth_In. lia.
    + apply Nat.eqb_eq.
      apply (sub_s2d_cell_iff n p anoms s j k s e cols Hok); try assumption; try lia.
      split; [lia | exact Hc].
Qed.

Lemma last_cons : forall (A : Type) (l : list A) (a d : A), last (a :: l) d = last l a.
Proof.
  intros A l. induction l as [|b t IH]; intros a d.
  - reflexivity.
  - change (last (a :: b :: t) d) with (last (b :: t) d).
    rewrite (IH b d), (IH b a). reflexivity.
Qed.

Lemma last_seq : forall m s, last (seq (S s) m) s = s + m.
Proof.
  induction m as [|m IH]; intros s.
  - simpl. lia.
  - cbn [seq]. rewrite last_cons. rewrite IH. lia.
Qed.

Lemma flat_map_seq_map : forall (A B : Type) (d : A) (g : A -> B) (f : nat -> list B)
                                (l : list A) o,
  (forall k, k < length l -> f (o + k) = [g (nth k l d)]) ->
  flat_map f (seq o (length l)) = map g l.
Proof.
  intros A B d g f l. induction l as [|x t IH]; intros o H.
  - reflexivity.
  - pose proof (H 0 ltac:(simpl; lia)) as H0. rewrite Nat.add_0_r in H0.
    cbn [length seq flat_map map]. rewrite H0. cbn [nth app]. f_equal.
    apply IH. intros k Hk. replace (S o + k) with (o + S k) by lia.
    rewrite H by (simpl; lia). reflexivity.
Qed.

Theorem sub_roundtrip : forall n p anoms,
  anoms_ok n p anoms ->
  sub_d2s p (sub_s2d n p anoms) =
  map (fun a : anom3 => (fst a, filter (fun j => memb j (snd a)) (seq 0 p))) anoms.
Proof.
  intros n p anoms Hok. unfold sub_d2s. rewrite sub_s2d_max_label by exact Hok.
  apply (flat_map_seq_map _ _ (0, 0, [])).
  intros k Hk. cbn [Nat.add].
  pose proof (nth_error_nth' anoms (0, 0, []) Hk) as Hnth.
  unfold anom3 in *. cbv beta.
  destruct (nth k anoms (0, 0, [])) as [[s e] cols].
  destruct (anoms_ok_nth n p anoms k s e cols Hok Hnth) as [Hse _].
  rewrite (sub_rows_with n p anoms k s e cols Hok Hnth).
  rewrite (sub_cols_with n p anoms k s e cols Hok Hnth).
  destruct (e - s) as [|m] eqn:E; [lia|].
  cbn [seq fst snd]. rewrite last_seq.
  replace (S (s + m)) with e by lia. reflexivity.
Qed.

Lemma cols_filter_permutation : forall p cols,
  NoDup cols -> Forall (fun j => j < p) cols ->
  Permutation (filter (fun j => memb j cols) (seq 0 p)) cols.
Proof.
  intros p cols Hnd Hall. apply NoDup_Permutation.
  - apply NoDup_filter. apply seq_NoDup.
  - exact Hnd.
  - intros j. rewrite filter_In, in_seq, memb_In. split.
    + intros [_ H]. exact H.
    + intros H. split; [|exact H]. rewrite Forall_forall in Hall.
      pose proof (Hall j H). lia.
Qed.

(** the returned column lists are strictly increasing *)
Lemma cols_filter_sorted : forall p cols,
  StronglySorted lt (filter (fun j => memb j cols) (seq 0 p)).
Proof.
  intros p cols. generalize 0 as o. induction p as [|p IH]; intros o.
  - constructor.
  - cbn [seq filter]. destruct (memb o cols).
    + constructor; [apply IH|]. apply Forall_forall. intros x Hx.
      apply filter_In in Hx. destruct Hx as [Hx _]. apply in_seq in Hx. lia.
    + apply IH.
Qed.

(** two strictly increasing lists with the same elements are equal *)
Lemma sorted_lt_ext : forall l1 l2 : list nat,
  StronglySorted lt l1 -> StronglySorted lt l2 ->
  (forall x, In x l1 <-> In x l2) -> l1 = l2.
Proof.
  induction l1 as [|x t1 IH]; intros l2 H1 H2 Hext.
  - destruct l2 as [|y t2]; [reflexivity|].
    exfalso. apply (proj2 (Hext y)). left. reflexivity.
  - destruct l2 as [|y t2].
    + exfalso. apply (proj1 (Hext x)). left. reflexivity.
    + inversion H1 as [|? ? Hs1 Hall1]; subst. inversion H2 as [|? ? Hs2 Hall2]; subst.
      rewrite Forall_forall in Hall1, Hall2.
      assert (Hxy : x = y).
      { destruct (proj1 (Hext x) (or_introl eq_refl)) as [Hy | Hy]; [symmetry; exact Hy|].
        destruct (proj2 (Hext y) (or_introl eq_refl)) as [Hx | Hx]; [exact Hx|].
        pose proof (Hall1 y Hx). pose proof (Hall2 x Hy). lia. }
      subst y. f_equal. apply IH; [exact Hs1 | exact Hs2 |].
      intros z. split; intros Hz.
      * destruct (proj1 (Hext z) (or_intror Hz)) as [Hzx | Hz']; [|exact Hz'].
        pose proof (Hall1 z Hz). lia.
      * destruct (proj2 (Hext z) (or_intror Hz)) as [Hzx | Hz']; [|exact Hz'].
        pose proof (Hall2 z Hz). lia.
Qed.

Lemma cols_filter_id : forall p cols,
  StronglySorted lt cols -> Forall (fun j => j < p) cols ->
  filter (fun j => memb j cols) (seq 0 p) = cols.
Proof.
  intros p cols Hs Hall. apply sorted_lt_ext.
  - apply cols_filter_sorted.
  - exact Hs.
  - intros j. rewrite filter_In, in_seq, memb_In. split.
    + intros [_ H]. exact H.
    + intros H. split; [|exact H]. rewrite Forall_forall in Hall.
      pose proof (Hall j H). lia.
Qed.

(** when every column list is given in increasing order the round trip is the identity *)
Theorem sub_roundtrip_sorted : forall n p anoms,
  anoms_ok n p anoms ->
  Forall (fun a : anom3 => StronglySorted lt (snd a)) anoms ->
  sub_d2s p (sub_s2d n p anoms) = anoms.
Proof.
  intros n p anoms Hok Hsorted. rewrite (sub_roundtrip n p anoms Hok).
  rewrite <- (map_id anoms) at 2. apply map_ext_in. intros [[s e] cols] Hin.
  destruct Hok as [_ Hcols]. rewrite Forall_forall in Hcols, Hsorted.
  pose proof (Hcols _ Hin) as [_ [_ Hall]]. pose proof (Hsorted _ Hin) as Hs.
  cbn [fst snd] in *. rewrite (cols_filter_id p cols Hs Hall). reflexivity.
Qed.

Print Assumptions cd_s2d_label.
Print Assumptions cd_roundtrip.
Print Assumptions cd_d2s_spec.
Print Assumptions cd_d2s_ok.
Print Assumptions ca_s2d_label.
Print Assumptions ca_roundtrip.
Print Assumptions ca_d2s_spec.
Print Assumptions ca_d2s_runs.
Print Assumptions ca_d2s_cover.
Print Assumptions ca_roundtrip_adjacent_refuted.
Print Assumptions sub_s2d_shape.
Print Assumptions sub_s2d_label.
Print Assumptions sub_roundtrip.
Print Assumptions cols_filter_permutation.
Print Assumptions sub_roundtrip_sorted.
