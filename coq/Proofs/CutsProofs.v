(** C13: evaluate accepts exactly the cuts arrays the documentation describes. *)
From Coq Require Import ZArith List Lia Bool Arith.
From SK Require Import Lib.Base Model.Cuts.
Import ListNotations.
Open Scope Z_scope.

(** the documented meaning of a valid row, stated without the model's booleans *)
Definition spaced (ms : Z) (r : list Z) : Prop :=
  forall i, (S i < length r)%nat -> ms <= nthZ r (S i) - nthZ r i.
Definition bounded (n : Z) (r : list Z) : Prop := forall x, In x r -> 0 <= x <= n.

Definition row_valid (sk : scorer_kind) (n : Z) (r : list Z) : Prop :=
  match sk with
  | Plain _ ms => spaced ms r /\ bounded n r
  | Local ms => spaced 1 r /\ ms <= nthZ r 2 - nthZ r 1
                /\ ms <= (nthZ r 1 - nthZ r 0) + (nthZ r 3 - nthZ r 2) /\ bounded n r
  end.

Lemma diffs_spaced ms r : forallb (fun d => ms <=? d) (diffs r) = true <-> spaced ms r.
Proof.
  unfold spaced. induction r as [|a [|b t] IH].
  - cbn. split; [intros _ i Hi; cbn in Hi; lia|reflexivity].
  - cbn. split; [intros _ i Hi; cbn in Hi; lia|reflexivity].
  - change (diffs (a :: b :: t)) with ((b - a) :: diffs (b :: t)).
    cbn [forallb]. rewrite andb_true_iff, IH, Z.leb_le. split.
    + intros [H1 H2] [|i] Hi; [cbn; exact H1|].
      change (nthZ (a :: b :: t) (S (S i))) with (nthZ (b :: t) (S i)).
      change (nthZ (a :: b :: t) (S i)) with (nthZ (b :: t) i).
      apply H2. cbn [length] in *. lia.
    + intros H. split; [apply (H 0%nat); cbn [length]; lia|].
      intros i Hi. apply (H (S i)). cbn [length] in *. lia.
Qed.

Lemma in_bounds_bounded n r : in_bounds n r = true <-> bounded n r.
Proof.
  unfold in_bounds, bounded. rewrite forallb_forall. split; intros H x Hx; specialize (H x Hx).
  - apply andb_true_iff in H as [H1 H2]. apply Z.leb_le in H1, H2. lia.
  - apply andb_true_iff. split; apply Z.leb_le; lia.
Qed.

Lemma row_ok_valid sk n r : row_ok sk n r = true <-> row_valid sk n r.
Proof.
  destruct sk as [k ms|ms]; cbn [row_ok row_valid].
  - rewrite andb_true_iff, diffs_spaced, in_bounds_bounded. tauto.
  - rewrite !andb_true_iff, diffs_spaced, in_bounds_bounded, !Z.leb_le. tauto.
Qed.

(** a spaced row with positive spacing is strictly increasing *)
Lemma spaced_increasing ms r : 1 <= ms -> spaced ms r ->
  forall i j, (i < j < length r)%nat -> nthZ r i < nthZ r j.
Proof.
  intros Hms Hs i j [Hij Hj]. induction j as [|j IH]; [lia|].
  destruct (Nat.eq_dec i j) as [->|Hne].
  - specialize (Hs j Hj). lia.
  - specialize (Hs j Hj). assert (nthZ r i < nthZ r j) by (apply IH; lia). lia.
Qed.

Section Eval.
Context {A : Type} (score : list Z -> A).

(** evaluate returns scores iff the argument is an integer array of the expected width
    all of whose rows are valid; the scores are then exactly those of the rows given *)
Theorem evaluate_accepts_iff sk n arg r :
  evaluate score sk n arg = Some r <->
  exists rows, arg = IntRows (width_of sk) rows /\ Forall (row_valid sk n) rows /\ r = map score rows.
Proof.
  destruct arg as [w rows| |]; cbn [evaluate].
  - destruct ((w =? width_of sk)%nat && forallb (row_ok sk n) rows) eqn:E.
    + apply andb_true_iff in E as [Ew Er]. apply Nat.eqb_eq in Ew. subst w.
      split.
      * intros H. inversion H. exists rows. split; [reflexivity|]. split; [|reflexivity].
        apply Forall_forall. intros x Hx. apply row_ok_valid. rewrite forallb_forall in Er. auto.
      * intros (rows' & Ha & _ & Hr). inversion Ha. subst. reflexivity.
    + split; [discriminate|]. intros (rows' & Ha & Hv & _). inversion Ha. subst.
      apply andb_false_iff in E as [E|E].
      * rewrite Nat.eqb_refl in E. discriminate.
      * assert (forallb (row_ok sk n) rows' = true); [|congruence].
        apply forallb_forall. intros x Hx. apply row_ok_valid. rewrite Forall_forall in Hv. auto.
  - split; [discriminate|]. intros (rows & Ha & _). discriminate.
  - split; [discriminate|]. intros (rows & Ha & _). discriminate.
Qed.

(** no invalid cut is ever scored: an accepted array has only in-range, strictly
    increasing rows (nothing can wrap around or be truncated) *)
Theorem evaluate_never_scores_invalid sk n w rows r :
  (match sk with Plain _ ms => 1 <= ms | Local _ => True end) ->
  evaluate score sk n (IntRows w rows) = Some r ->
  forall row, In row rows ->
    (forall x, In x row -> 0 <= x <= n) /\
    (forall i j, (i < j < length row)%nat -> nthZ row i < nthZ row j).
Proof.
  intros Hms H row Hrow. apply evaluate_accepts_iff in H as (rows' & Ha & Hv & _).
  inversion Ha; subst rows'. rewrite Forall_forall in Hv. specialize (Hv row Hrow).
  destruct sk as [k ms|ms]; cbn [row_valid] in Hv.
  - destruct Hv as [Hs Hb]. split; [exact Hb|]. apply (spaced_increasing ms); assumption.
  - destruct Hv as (Hs & _ & _ & Hb). split; [exact Hb|]. apply (spaced_increasing 1); [lia|assumption].
Qed.

Theorem evaluate_rejects_nonint_and_3d sk n :
  evaluate score sk n NonInt = None /\ evaluate score sk n Dim3 = None.
Proof. split; reflexivity. Qed.

Theorem evaluate_rejects_wrong_width sk n w rows :
  w <> width_of sk -> evaluate score sk n (IntRows w rows) = None.
Proof.
  intros H. cbn [evaluate]. destruct (Nat.eqb_spec w (width_of sk)); [contradiction|reflexivity].
Qed.
End Eval.

(** the pinned checker had no bounds test: [-1, 2] was accepted on n = 5 and scored from
    wrapped prefix sums.  With the bounds test the row is rejected. *)
Example out_of_range_rejected : evaluate (fun r => r) (Plain 2 1) 5 (IntRows 2 [[-1; 2]]) = None.
Proof. reflexivity. Qed.
Example valid_accepted : evaluate (fun r => r) (Plain 2 1) 5 (IntRows 2 [[0; 2]; [3; 5]]) = Some [[0; 2]; [3; 5]].
Proof. reflexivity. Qed.
Example local_accepted : evaluate (fun r => r) (Local 2) 8 (IntRows 4 [[0; 1; 3; 4]]) = Some [[0; 1; 3; 4]].
Proof. reflexivity. Qed.

(* ------------------------------------------------------------------------------------------------- *)
(** * Machine integers: why check_cuts_array converts every integer dtype to int64 (fixes D22, D24)     *)
(* ------------------------------------------------------------------------------------------------- *)
(** [wrapu w] / [wraps w]: the value a w-bit unsigned / two's-complement signed integer holds after an
    arithmetic operation whose exact result is x (NumPy integer arithmetic wraps silently). *)
Definition wrapu (w x : Z) : Z := x mod 2 ^ w.
Definition wraps (w x : Z) : Z := (x + 2 ^ (w - 1)) mod 2 ^ w - 2 ^ (w - 1).

Lemma wraps_exact w x : 1 <= w -> - 2 ^ (w - 1) <= x < 2 ^ (w - 1) -> wraps w x = x.
Proof.
  intros Hw Hx. unfold wraps.
  assert (Hp : 2 ^ w = 2 * 2 ^ (w - 1)).
  { replace w with (1 + (w - 1)) at 1 by lia. rewrite Z.pow_add_r by lia. reflexivity. }
  rewrite Z.mod_small by lia. lia.
Qed.

(** D22 (pinned code): on an UNSIGNED array the row differences wrap, so a DECREASING row passes the
    test "all differences >= min_size" *)
Theorem unsigned_diff_accepts_decreasing_row_refuted :
  exists (w a b min_size : Z), b < a /\ 0 <= b /\ a < 2 ^ w /\ 1 <= min_size /\ min_size <= wrapu w (b - a).
Proof. exists 64, 5, 3, 1. unfold wrapu. repeat split; try lia. vm_compute. discriminate. Qed.

(** D24 (pinned code): position arithmetic in the cuts' own narrow dtype wraps: CUSUM's n * before_n for the
    valid int8 cut (0, 20, 40) is 800, which int8 holds as 32 *)
Theorem narrow_dtype_product_wraps_refuted :
  exists (w n nb : Z), 0 < nb < n /\ n < 2 ^ (w - 1) /\ wraps w (n * nb) <> n * nb.
Proof. exists 8, 40, 20. repeat split; try lia. vm_compute. discriminate. Qed.

(** after the conversion to int64: every value of every narrower or unsigned dtype below 2^63 is represented
    exactly, differences of two positions are exact, and products of positions of series shorter than 2^31 rows are exact *)
Theorem int64_holds_every_narrower_value w x : 1 <= w <= 63 -> 0 <= x < 2 ^ w -> wraps 64 x = x.
Proof.
  intros Hw Hx. apply wraps_exact; [lia|].
  assert (2 ^ w <= 2 ^ 63) by (apply Z.pow_le_mono_r; lia). change (64 - 1) with 63. lia.
Qed.

Theorem int64_differences_exact a b : 0 <= a < 2 ^ 62 -> 0 <= b < 2 ^ 62 -> wraps 64 (b - a) = b - a.
Proof. intros Ha Hb. apply wraps_exact; [lia|]. change (64 - 1) with 63. change (2 ^ 63) with (2 * 2 ^ 62). lia. Qed.

Theorem int64_position_products_exact n a : 0 <= a <= n -> n < 2 ^ 31 -> wraps 64 (n * a) = n * a.
Proof.
  intros Ha Hn. apply wraps_exact; [lia|]. change (64 - 1) with 63.
  assert (n * a <= n * n) by (apply Z.mul_le_mono_nonneg_l; lia).
  assert (n * n < 2 ^ 31 * 2 ^ 31) by (apply Z.mul_lt_mono_nonneg; lia).
  change (2 ^ 31 * 2 ^ 31) with (2 ^ 62) in *. change (2 ^ 63) with (2 * 2 ^ 62). nia.
Qed.
