(** C13: evaluate accepts exactly the cuts arrays the documentation describes. *)
From Coq Require Import ZArith List Lia Bool Arith.
From SK Require Import Lib.Base Model.Cuts.
Import ListNotations.
Open Scope Z_scope.

(** the documented meaning of a valid row, stated without the model's booleans *)
Definition spaced (ms : Z) (r : list Z) : Prop :=
  forall i, (S i < length r)%nat -> ms <= nthZ r (S i) - nthZ r i.
Definition bounded (n : Z) (r : list Z) : Prop := forall x, In x r -> 0 <= x <= n.

Definition row_valid (sk : scorer_kind) (n : Z) (r : list Z) : Prop :=
  match sk with
  | Plain _ ms => spaced ms r /\ bounded n r
  | Local ms => spaced 1 r /\ ms <= nthZ r 2 - nthZ r 1
                /\ ms <= (nthZ r 1 - nthZ r 0) + (nthZ r 3 - nthZ r 2) /\ bounded n r
  end.

Lemma diffs_spaced ms r : forallb (fun d => ms <=? d) (diffs r) = true <-> spaced ms r.
Proof.
  unfold spaced. induction r as [|a [|b t] IH].
  - cbn. split; [intros _ i Hi; cbn in Hi; lia|reflexivity].
  - cbn. split; [intros _ i Hi; cbn in Hi; lia|reflexivity].
  - change (diffs (a :: b :: t)) with ((b - a) :: diffs (b :: t)).
    cbn [forallb]. rewrite andb_true_iff, IH, Z.leb_le. split.
    + intros [H1 H2] [|i] Hi; [cbn; exact H1|].
      change (nthZ (a :: b :: t) (S (S i))) with (nthZ (b :: t) (S i)).
      change (nthZ (a :: b :: t) (S i)) with (nthZ (b :: t) i).
      apply H2. cbn [length] in *. lia.
    + intros H. split; [apply (H 0%nat); cbn [length]; lia|].
      intros i Hi. apply (H (S i)). cbn [length] in *. lia.
Qed.

Lemma in_bounds_bounded n r : in_bounds n r = true <-> bounded n r.
Proof.
  unfold in_bounds, bounded. rewrite forallb_forall. split; intros H x Hx; specialize (H x Hx).
  - apply andb_true_iff in H as [H1 H2]. apply Z.leb_le in H1, H2. lia.
  - apply andb_true_iff. split; apply Z.leb_le; lia.
Qed.

Lemma row_ok_valid sk n r : row_ok sk n r = true <-> row_valid sk n r.
Proof.
  destruct sk as [k ms|ms]; cbn [row_ok row_valid].
  - rewrite andb_true_iff, diffs_spaced, in_bounds_bounded. tauto.
  - rewrite !andb_true_iff, diffs_spaced, in_bounds_bounded, !Z.leb_le. tauto.
Qed.

(** a spaced row with positive spacing is strictly increasing *)
Lemma spaced_increasing ms r : 1 <= ms -> spaced ms r ->
  forall i j, (i < j < length r)%nat -> nthZ r i < nthZ r j.
Proof.
  intros Hms Hs i j [Hij Hj]. induction j as [|j IH]; [lia|].
  destruct (Nat.eq_dec i j) as [->|Hne].
  - specialize (Hs j Hj). lia.
  - specialize (Hs j Hj). assert (nthZ r i < nthZ r j) by (apply IH; lia). lia.
Qed.

Section Eval.
Context {A : Type} (score : list Z -> A).

(** evaluate returns scores iff the argument is an integer array of the expected width
    all of whose rows are valid; the scores are then exactly those of the rows given *)
Theorem evaluate_accepts_iff sk n arg r :
  evaluate score sk n arg = Some r <->
  exists rows, arg = IntRows (width_of sk) rows /\ Forall (row_valid sk n) rows /\ r = map score rows.
Proof.
  destruct arg as [w rows| |]; cbn [evaluate].
  - destruct ((w =? width_of sk)%nat && forallb (row_ok sk n) rows) eqn:E.
    + apply andb_true_iff in E as [Ew Er]. apply Nat.eqb_eq in Ew. subst w.
      split.
      * intros H. inversion H. exists rows. split; [reflexivity|]. split; [|reflexivity].
        apply Forall_forall. intros x Hx. apply row_ok_valid. rewrite forallb_forall in Er. auto.
      * intros (rows' & Ha & _ & Hr). inversion Ha. subst. reflexivity.
    + split; [discriminate|]. intros (rows' & Ha & Hv & _). inversion Ha. subst.
      apply andb_false_iff in E as [E|E].
      * rewrite Nat.eqb_refl in E. discriminate.
      * assert (forallb (row_ok sk n) rows' = true); [|congruence].
        apply forallb_forall. intros x Hx. apply row_ok_valid. rewrite Forall_forall in Hv. auto.
  - split; [discriminate|]. intros (rows & Ha & _). discriminate.
  - split; [discriminate|]. intros (rows & Ha & _). discriminate.
Qed.

(** no invalid cut is ever scored: an accepted array has only in-range, strictly
    increasing rows (nothing can wrap around or be truncated) *)
Theorem evaluate_never_scores_invalid sk n w rows r :
  (match sk with Plain _ ms => 1 <= ms | Local _ => True end) ->
  evaluate score sk n (IntRows w rows) = Some r ->
  forall row, In row rows ->
    (forall x, In x row -> 0 <= x <= n) /\
    (forall i j, (i < j < length row)%nat -> nthZ row i < nthZ row j).
Proof.
  intros Hms H row Hrow. apply evaluate_accepts_iff in H as (rows' & Ha & Hv & _).
  inversion Ha; subst rows'. rewrite Forall_forall in Hv. specialize (Hv row Hrow).
  destruct sk as [k ms|ms]; cbn [row_valid] in Hv.
  - destruct Hv as [Hs Hb]. split; [exact Hb|]. apply (spaced_increasing ms); assumption.
  - destruct Hv as (Hs & _ & _ & Hb). split; [exact Hb|]. apply (spaced_increasing 1); [lia|assumption].
Qed.

Theorem evaluate_rejects_nonint_and_3d sk n :
  evaluate score sk n NonInt = None /\ evaluate score sk n Dim3 = None.
Proof. split; reflexivity. Qed.

Theorem evaluate_rejects_wrong_width sk n w rows :
  w <> width_of sk -> evaluate score sk n (IntRows w rows) = None.
Proof.
  intros H. cbn [evaluate]. destruct (Nat.eqb_spec w (width_of sk)); [contradiction|reflexivity].
Qed.
End Eval.

(** the pinned checker had no bounds test: [-1, 2] was accepted on n = 5 and scored from
    wrapped prefix sums.  With the bounds test the row is rejected. *)
Example out_of_range_rejected : evaluate (fun r => r) (Plain 2 1) 5 (IntRows 2 [[-1; 2]]) = None.
Proof. reflexivity. Qed.
Example valid_accepted : evaluate (fun r => r) (Plain 2 1) 5 (IntRows 2 [[0; 2]; [3; 5]]) = Some [[0; 2]; [3; 5]].
Proof. reflexivity. Qed.
Example local_accepted : evaluate (fun r => r) (Local 2) 8 (IntRows 4 [[0; 1; 3; 4]]) = Some [[0; 1; 3; 4]].
Proof. reflexivity. Qed.
