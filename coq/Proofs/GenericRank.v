(** Strict weak orders and order embeddings into Z.

    The greedy detectors (Model/Generic.v: gmw, gsbs, gcbs) only COMPARE score values.  This file
    provides the order-theoretic half of the transfer of their Z theorems to any instance [N : num]:

      - [swo N ok]      : [ltb N] is a strict weak order on the values satisfying [ok]
                          (irreflexive, transitive, incomparability transitive);
      - [embeds N ok]   : there is a map [phi : T N -> Z] with [phi (zero N) = 0] that reflects and
                          preserves [ltb N] on the values satisfying [ok];
      - [embeds_swo]    : an embedding forces the three laws;
      - [swo_embeds]    : conversely, a strict weak order embeds on every FINITE list of values: the
                          rank of x (number of listed values strictly below x), shifted so that the zero
                          of the instance has rank 0.

    Nothing here depends on the detectors. *)
From Coq Require Import ZArith List Bool Arith Lia.
From SK Require Import Model.Generic.
Import ListNotations.

Section Swo.
Variable N : num.
Notation V := (T N).
Notation "x <! y" := (ltb N x y) (at level 70).

(** [ltb N] restricted to [ok] is a strict weak order *)
Record swo (ok : V -> Prop) : Prop := {
  swo_irrefl : forall x, ok x -> x <! x = false;
  swo_trans : forall x y z, ok x -> ok y -> ok z -> x <! y = true -> y <! z = true -> x <! z = true;
  swo_incomp : forall x y z, ok x -> ok y -> ok z ->
    x <! y = false -> y <! x = false -> y <! z = false -> z <! y = false -> x <! z = false
}.

(** an order embedding into Z that sends the zero of the instance to 0 *)
Definition embedding (ok : V -> Prop) (phi : V -> Z) : Prop :=
  phi (zero N) = 0%Z /\ forall x y, ok x -> ok y -> x <! y = (phi x <? phi y)%Z.
Definition embeds (ok : V -> Prop) : Prop := exists phi, embedding ok phi.

Lemma swo_weaken : forall (ok ok' : V -> Prop), (forall x, ok' x -> ok x) -> swo ok -> swo ok'.
Proof.
  intros ok ok' Hsub [H1 H2 H3]. constructor.
  - intros x Hx. apply H1; auto.
  - intros x y z Hx Hy Hz. apply H2; auto.
  - intros x y z Hx Hy Hz. apply H3; auto.
Qed.

Lemma embedding_weaken : forall (ok ok' : V -> Prop) phi, (forall x, ok' x -> ok x) ->
  embedding ok phi -> embedding ok' phi.
Proof. intros ok ok' phi Hsub [H0 H]. split; [exact H0|]. intros x y Hx Hy. apply H; auto. Qed.

(** an embedding forces the laws *)
Theorem embeds_swo : forall ok, embeds ok -> swo ok.
Proof.
  intros ok (phi & _ & H). constructor.
  - intros x Hx. rewrite H by assumption. apply Z.ltb_irrefl.
  - intros x y z Hx Hy Hz. rewrite !H by assumption. rewrite !Z.ltb_lt. lia.
  - intros x y z Hx Hy Hz. rewrite !H by assumption. rewrite !Z.ltb_ge. lia.
Qed.

Section Laws.
Variable ok : V -> Prop.
Hypothesis Hswo : swo ok.

(** negative transitivity (co-transitivity) *)
Lemma swo_cotrans : forall x y z, ok x -> ok y -> ok z ->
  x <! z = true -> x <! y = true \/ y <! z = true.
Proof.
  intros x y z Hx Hy Hz Hxz.
  destruct (x <! y) eqn:Exy; [left; reflexivity|].
  destruct (y <! z) eqn:Eyz; [right; reflexivity|]. exfalso.
  destruct (y <! x) eqn:Eyx.
  - rewrite (swo_trans ok Hswo y x z Hy Hx Hz Eyx Hxz) in Eyz. discriminate.
  - destruct (z <! y) eqn:Ezy.
    + rewrite (swo_trans ok Hswo x z y Hx Hz Hy Hxz Ezy) in Exy. discriminate.
    + rewrite (swo_incomp ok Hswo x y z Hx Hy Hz Exy Eyx Eyz Ezy) in Hxz. discriminate.
Qed.

Lemma swo_asym : forall x y, ok x -> ok y -> x <! y = true -> y <! x = false.
Proof.
  intros x y Hx Hy H. destruct (y <! x) eqn:E; [|reflexivity].
  rewrite <- (swo_irrefl ok Hswo x Hx). symmetry. exact (swo_trans ok Hswo x y x Hx Hy Hx H E).
Qed.

(** ---------- rank in a finite list ---------- *)
Definition rank (vals : list V) (x : V) : nat := length (filter (fun y => y <! x) vals).

Lemma filter_length_le : forall (f g : V -> bool) l,
  (forall z, In z l -> f z = true -> g z = true) ->
  (length (filter f l) <= length (filter g l))%nat.
Proof.
  intros f g l. induction l as [|a t IH]; intros H; cbn [filter]; [lia|].
  assert (IH' : (length (filter f t) <= length (filter g t))%nat).
  { apply IH. intros z Hz. apply H. right. exact Hz. }
  destruct (f a) eqn:Ef.
  - rewrite (H a (or_introl eq_refl) Ef). cbn [length]. lia.
  - destruct (g a); cbn [length]; lia.
Qed.

Lemma filter_length_lt : forall (f g : V -> bool) l w,
  (forall z, In z l -> f z = true -> g z = true) ->
  In w l -> f w = false -> g w = true ->
  (length (filter f l) < length (filter g l))%nat.
Proof.
  intros f g l w. induction l as [|a t IH]; intros H Hw Hf Hg; [destruct Hw|].
  assert (Ht : forall z, In z t -> f z = true -> g z = true).
  { intros z Hz. apply H. right. exact Hz. }
  pose proof (filter_length_le f g t Ht) as Hle.
  cbn [filter]. destruct Hw as [-> | Hw].
  - rewrite Hf, Hg. cbn [length]. lia.
  - specialize (IH Ht Hw Hf Hg). destruct (f a) eqn:Ef.
    + rewrite (H a (or_introl eq_refl) Ef). cbn [length]. lia.
    + destruct (g a); cbn [length]; lia.
Qed.

Section Rank.
Variable vals : list V.
Hypothesis Hvals : forall x, In x vals -> ok x.

Lemma rank_lt : forall x y, In x vals -> In y vals -> x <! y = true -> (rank vals x < rank vals y)%nat.
Proof.
  intros x y Hx Hy Hxy. unfold rank. apply filter_length_lt with (w := x).
  - intros z Hz Hzx. exact (swo_trans ok Hswo z x y (Hvals z Hz) (Hvals x Hx) (Hvals y Hy) Hzx Hxy).
  - exact Hx.
  - apply (swo_irrefl ok Hswo). apply Hvals. exact Hx.
  - exact Hxy.
Qed.

Lemma rank_ge : forall x y, In x vals -> In y vals -> x <! y = false -> (rank vals y <= rank vals x)%nat.
Proof.
  intros x y Hx Hy Hxy. unfold rank. apply filter_length_le.
  intros z Hz Hzy.
  destruct (swo_cotrans z x y (Hvals z Hz) (Hvals x Hx) (Hvals y Hy) Hzy) as [H | H]; [exact H|].
  rewrite H in Hxy. discriminate.
Qed.

Lemma rank_embeds : forall x y, In x vals -> In y vals ->
  x <! y = (Z.of_nat (rank vals x) <? Z.of_nat (rank vals y))%Z.
Proof.
  intros x y Hx Hy. destruct (x <! y) eqn:E; symmetry.
  - apply Z.ltb_lt. pose proof (rank_lt x y Hx Hy E). lia.
  - apply Z.ltb_ge. pose proof (rank_ge x y Hx Hy E). lia.
Qed.
End Rank.

(** a strict weak order embeds on every finite list of admissible values (plus the zero) *)
Theorem swo_embeds : ok (zero N) -> forall vals, (forall x, In x vals -> ok x) ->
  embeds (fun x => In x (zero N :: vals)).
Proof.
  intros H0 vals Hvals.
  set (all := zero N :: vals).
  assert (Hall : forall x, In x all -> ok x).
  { intros x [<- | Hx]; [exact H0 | apply Hvals; exact Hx]. }
  exists (fun x => (Z.of_nat (rank all x) - Z.of_nat (rank all (zero N)))%Z). split.
  - lia.
  - intros x y Hx Hy. rewrite (rank_embeds all Hall x y Hx Hy).
    destruct (Z.ltb_spec (Z.of_nat (rank all x)) (Z.of_nat (rank all y)));
      symmetry; [apply Z.ltb_lt | apply Z.ltb_ge]; lia.
Qed.
End Laws.

(** Finite-list principle used by the transfer theorems: to prove [P] for an instance whose
    comparison is a strict weak order on [ok], it suffices to prove it from an embedding of any
    finite list of admissible values one cares to name. *)
Theorem with_embedding : forall (ok : V -> Prop) (vals : list V) (P : Prop),
  swo ok -> ok (zero N) -> (forall x, In x vals -> ok x) ->
  (forall phi, embedding (fun x => In x (zero N :: vals)) phi -> P) -> P.
Proof.
  intros ok vals P Hswo H0 Hvals HP.
  destruct (swo_embeds ok Hswo H0 vals Hvals) as (phi & Hphi). exact (HP phi Hphi).
Qed.

End Swo.

Print Assumptions embeds_swo.
Print Assumptions swo_embeds.
Print Assumptions with_embedding.
