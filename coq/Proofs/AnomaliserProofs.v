(** Machine-checked properties of the StatThresholdAnomaliser model
    (Model/Anomaliser.v): on the dense labels produced from a valid changepoint list
    the pandas-groupby pipeline reports exactly the flagged segments of the partition
    [0] + cpts + [n], each one as its own interval (adjacent flagged segments are
    never merged), and the output is a well-formed interval list. *)
From Coq Require Import ZArith List Lia Bool Arith.
From SK Require Import Lib.Base Model.Convert Model.Anomaliser Proofs.ConvertProofs.
Import ListNotations.
Close Scope Z_scope.
Open Scope nat_scope.

(** * rows carrying a label, with an arbitrary position offset *)

Definition rows_from (o : nat) (labels : list nat) (k : nat) : list nat :=
  map fst (filter (fun il => snd il =? k) (combine (seq o (length labels)) labels)).

Lemma rows_of_from : forall labels k, rows_of labels k = rows_from 0 labels k.
Proof. reflexivity. Qed.

Lemma rows_from_nil : forall o k, rows_from o [] k = [].
Proof. reflexivity. Qed.

Lemma rows_from_cons : forall o x L k,
  rows_from o (x :: L) k =
  if x =? k then o :: rows_from (S o) L k else rows_from (S o) L k.
Proof.
  intros o x L k. unfold rows_from. simpl. destruct (x =? k); reflexivity.
Qed.

Lemma rows_from_app : forall A B o k,
  rows_from o (A ++ B) k = rows_from o A k ++ rows_from (o + length A) B k.
Proof.
  induction A as [|a A IH]; intros B o k.
  - rewrite rows_from_nil. cbn [app length]. rewrite Nat.add_0_r. reflexivity.
  - rewrite <- app_comm_cons. rewrite !rows_from_cons. rewrite IH.
    cbn [length]. replace (o + S (length A)) with (S o + length A) by lia.
    destruct (a =? k); reflexivity.
Qed.

Lemma rows_from_repeat_eq : forall m o k, rows_from o (repeat k m) k = seq o m.
Proof.
  induction m as [|m IH]; intros o k.
  - reflexivity.
  - cbn [repeat]. rewrite rows_from_cons, Nat.eqb_refl, IH. reflexivity.
Qed.

Lemma rows_from_none : forall L o k,
  (forall x, In x L -> x <> k) -> rows_from o L k = [].
Proof.
  induction L as [|x L IH]; intros o k H.
  - reflexivity.
  - rewrite rows_from_cons.
    replace (x =? k) with false
      by (symmetry; apply Nat.eqb_neq; apply H; left; reflexivity).
    apply IH. intros y Hy. apply H. right. exact Hy.
Qed.

(** * the block form of the dense labels *)

Lemma cd_blocks_ge : forall cpts prev n k x,
  In x (cd_blocks prev cpts n k) -> k <= x.
Proof.
  induction cpts as [|c t IH]; intros prev n k x Hin; cbn [cd_blocks] in Hin.
  - apply repeat_spec in Hin. lia.
  - apply in_app_or in Hin. destruct Hin as [Hin | Hin].
    + apply repeat_spec in Hin. lia.
    + apply IH in Hin. lia.
Qed.

Lemma rows_blocks : forall cpts prev n k,
  incr_from prev cpts n -> prev < n ->
  map (rows_from prev (cd_blocks prev cpts n k)) (seq k (S (length cpts))) =
  map seg_rows (segs_from prev cpts n).
Proof.
  induction cpts as [|c t IH]; intros prev n k Hok Hlt.
  - cbn [cd_blocks length seq map segs_from].
    rewrite rows_from_repeat_eq. reflexivity.
  - destruct Hok as [H1 [H2 H3]]. cbn [cd_blocks length segs_from map].
    change (seq k (S (S (length t)))) with (k :: seq (S k) (S (length t))).
    cbn [map]. f_equal.
    + rewrite rows_from_app, rows_from_repeat_eq.
      rewrite rows_from_none
        by (intros x Hx; apply cd_blocks_ge in Hx; lia).
      rewrite app_nil_r. reflexivity.
    + rewrite <- (IH c n (S k) H3 H2). apply map_ext_in.
      intros j Hj. apply in_seq in Hj. rewrite rows_from_app.
      rewrite rows_from_none
        by (intros x Hx; apply repeat_spec in Hx; lia).
      rewrite repeat_length. replace (prev + (c - prev)) with c by lia.
      reflexivity.
Qed.

Lemma fold_max_app : forall A B,
  fold_right Nat.max 0 (A ++ B) =
  Nat.max (fold_right Nat.max 0 A) (fold_right Nat.max 0 B).
Proof.
  induction A as [|a A IH]; intros B.
  - reflexivity.
  - cbn [app fold_right]. rewrite IH. apply Nat.max_assoc.
Qed.

Lemma fold_max_repeat : forall m k, 0 < m -> fold_right Nat.max 0 (repeat k m) = k.
Proof.
  induction m as [|m IH]; intros k Hm.
  - lia.
  - cbn [repeat fold_right]. destruct m as [|m].
    + cbn [repeat fold_right]. apply Nat.max_0_r.
    + rewrite IH by lia. apply Nat.max_id.
Qed.

Lemma cd_blocks_max : forall cpts prev n k,
  incr_from prev cpts n -> prev < n ->
  fold_right Nat.max 0 (cd_blocks prev cpts n k) = k + length cpts.
Proof.
  induction cpts as [|c t IH]; intros prev n k Hok Hlt; cbn [cd_blocks length].
  - rewrite fold_max_repeat by lia. lia.
  - destruct Hok as [H1 [H2 H3]].
    rewrite fold_max_app, fold_max_repeat by lia.
    rewrite (IH c n (S k) H3 H2). lia.
Qed.

(** * the segments form a partition of [0, n) *)

Lemma segs_from_ivs : forall cpts prev n,
  incr_from prev cpts n -> prev < n -> ivs_from prev (segs_from prev cpts n) n.
Proof.
  induction cpts as [|c t IH]; intros prev n Hok Hlt; cbn [segs_from ivs_from].
  - lia.
  - destruct Hok as [H1 [H2 H3]].
    split; [lia|]. split; [lia|]. split; [lia|]. apply IH; assumption.
Qed.

Lemma segs_from_cover : forall cpts prev n i,
  incr_from prev cpts n -> prev < n -> prev <= i < n ->
  exists s e, In (s, e) (segs_from prev cpts n) /\ s <= i < e.
Proof.
  induction cpts as [|c t IH]; intros prev n i Hok Hlt Hi; cbn [segs_from].
  - exists prev, n. split; [left; reflexivity | lia].
  - destruct Hok as [H1 [H2 H3]].
    destruct (Nat.lt_ge_cases i c) as [Hic | Hci].
    + exists prev, c. split; [left; reflexivity | lia].
    + destruct (IH c n i H3 H2 ltac:(lia)) as [s [e [Hin Hb]]].
      exists s, e. split; [right; exact Hin | exact Hb].
Qed.

Lemma segs_from_length : forall cpts prev n,
  length (segs_from prev cpts n) = S (length cpts).
Proof.
  induction cpts as [|c t IH]; intros prev n; cbn [segs_from length].
  - reflexivity.
  - rewrite IH. reflexivity.
Qed.

Lemma segs_from_head : forall cpts prev n s e,
  nth_error (segs_from prev cpts n) 0 = Some (s, e) -> s = prev.
Proof.
  intros cpts prev n s e H. destruct cpts as [|c t]; cbn [segs_from nth_error] in H;
    inversion H; reflexivity.
Qed.

Lemma segs_from_consecutive : forall cpts prev n k s1 e1 s2 e2,
  nth_error (segs_from prev cpts n) k = Some (s1, e1) ->
  nth_error (segs_from prev cpts n) (S k) = Some (s2, e2) ->
  e1 = s2.
Proof.
  induction cpts as [|c t IH]; intros prev n k s1 e1 s2 e2 Ha Hb;
    cbn [segs_from] in Ha, Hb.
  - cbn [nth_error] in Hb. destruct k; discriminate.
  - destruct k as [|k].
    + cbn [nth_error] in Ha, Hb. inversion Ha; subst s1 e1.
      symmetry. apply (segs_from_head t c n s2 e2). exact Hb.
    + cbn [nth_error] in Ha. change (nth_error ((prev, c) :: segs_from c t n) (S (S k)))
        with (nth_error (segs_from c t n) (S k)) in Hb.
      apply (IH c n k s1 e1 s2 e2 Ha Hb).
Qed.

Theorem segments_length : forall n cpts, length (segments n cpts) = S (length cpts).
Proof.
  intros n cpts. unfold segments. apply segs_from_length.
Qed.

Theorem segments_consecutive : forall n cpts k s1 e1 s2 e2,
  nth_error (segments n cpts) k = Some (s1, e1) ->
  nth_error (segments n cpts) (S k) = Some (s2, e2) ->
  e1 = s2.
Proof.
  intros n cpts k s1 e1 s2 e2 Ha Hb. unfold segments in Ha, Hb.
  apply (segs_from_consecutive cpts 0 n k s1 e1 s2 e2 Ha Hb).
Qed.

Theorem segments_partition : forall n cpts,
  cpts_ok n cpts -> 0 < n ->
  ivs_ok n (segments n cpts) /\
  (forall i, i < n -> exists s e, In (s, e) (segments n cpts) /\ s <= i < e).
Proof.
  intros n cpts Hok Hn. unfold segments, ivs_ok. split.
  - apply segs_from_ivs; assumption.
  - intros i Hi. apply segs_from_cover; [exact Hok | exact Hn | lia].
Qed.

Lemma segments_In_bounds : forall n cpts s e,
  cpts_ok n cpts -> 0 < n -> In (s, e) (segments n cpts) -> s < e /\ e <= n.
Proof.
  intros n cpts s e Hok Hn Hin.
  destruct (segments_partition n cpts Hok Hn) as [Hivs _].
  destruct (ivs_from_In _ _ _ _ _ Hivs Hin) as [_ [H1 H2]]. lia.
Qed.

(** * groupby on the dense labels = the segments, in order *)

Theorem groups_of_dense : forall n cpts,
  cpts_ok n cpts -> 0 < n ->
  groups (cd_s2d n cpts) = map seg_rows (segments n cpts).
Proof.
  intros n cpts Hok Hn. unfold groups, segments.
  rewrite cd_s2d_blocks by exact Hok.
  rewrite (cd_blocks_max cpts 0 n 0 Hok Hn). cbn [Nat.add].
  change (rows_of (cd_blocks 0 cpts n 0)) with (rows_from 0 (cd_blocks 0 cpts n 0)).
  rewrite (rows_blocks cpts 0 n 0 Hok Hn).
  apply filter_all_true. intros g Hg.
  apply in_map_iff in Hg. destruct Hg as [[s e] [Hg Hin]]. subst g.
  destruct (segments_In_bounds n cpts s e Hok Hn Hin) as [Hse _].
  unfold seg_rows. cbn [fst snd]. rewrite seq_length.
  destruct (e - s) as [|m] eqn:E; [lia | reflexivity].
Qed.

(** * span of a segment's rows is the segment *)

Lemma span_seg_rows : forall s e, s < e -> span (seg_rows (s, e)) = (s, e).
Proof.
  intros s e Hse. unfold span, seg_rows. cbn [fst snd].
  destruct (e - s) as [|m] eqn:E; [lia|]. f_equal.
  - rewrite seq_S, last_last. lia.
Qed.

Section Results.
Variable stat : list nat -> Z.
Variables lo hi : Z.

Theorem anomalise_is_spec : forall n cpts,
  cpts_ok n cpts -> 0 < n ->
  anomalise stat lo hi n cpts = anomalise_spec stat lo hi n cpts.
Proof.
  intros n cpts Hok Hn. unfold anomalise, anomalise_labels, anomalise_spec.
  rewrite groups_of_dense by assumption.
  rewrite filter_map_comm, map_map.
  rewrite <- (map_id (filter (fun se => flagged stat lo hi (seg_rows se)) (segments n cpts))) at 2.
  apply map_ext_in. intros [s e] Hin. apply filter_In in Hin. destruct Hin as [Hin _].
  apply span_seg_rows.
  destruct (segments_In_bounds n cpts s e Hok Hn Hin) as [Hse _]. exact Hse.
Qed.

Theorem anomalise_iff : forall n cpts s e,
  cpts_ok n cpts -> 0 < n ->
  (In (s, e) (anomalise stat lo hi n cpts) <->
   In (s, e) (segments n cpts) /\ flagged stat lo hi (seq s (e - s)) = true).
Proof.
  intros n cpts s e Hok Hn. rewrite anomalise_is_spec by assumption.
  unfold anomalise_spec. rewrite filter_In. unfold seg_rows. cbn [fst snd].
  reflexivity.
Qed.

Lemma ivs_from_weaken : forall ivs lo0 lo1 n,
  ivs_from lo0 ivs n -> lo1 <= lo0 -> ivs_from lo1 ivs n.
Proof.
  intros ivs lo0 lo1 n H Hle. destruct ivs as [|[s e] t]; cbn [ivs_from] in *.
  - lia.
  - destruct H as [H1 [H2 [H3 H4]]]. split; [lia|]. split; [lia|]. split; [lia|]. exact H4.
Qed.

Lemma ivs_from_filter : forall (f : nat * nat -> bool) ivs lo0 n,
  ivs_from lo0 ivs n -> ivs_from lo0 (filter f ivs) n.
Proof.
  intros f. induction ivs as [|[s e] t IH]; intros lo0 n H.
  - exact H.
  - cbn [ivs_from] in H. destruct H as [H1 [H2 [H3 H4]]].
    cbn [filter]. destruct (f (s, e)).
    + cbn [ivs_from]. split; [lia|]. split; [lia|]. split; [lia|]. apply IH. exact H4.
    + apply (ivs_from_weaken (filter f t) e lo0 n); [apply IH; exact H4 | lia].
Qed.

Theorem anomalise_ok : forall n cpts,
  cpts_ok n cpts -> 0 < n -> ivs_ok n (anomalise stat lo hi n cpts).
Proof.
  intros n cpts Hok Hn. rewrite anomalise_is_spec by assumption.
  unfold anomalise_spec, ivs_ok. apply ivs_from_filter.
  destruct (segments_partition n cpts Hok Hn) as [Hivs _]. exact Hivs.
Qed.

(** every reported interval is exactly ONE segment of the partition, never a union *)
Theorem anomalise_not_merged : forall n cpts,
  cpts_ok n cpts -> 0 < n ->
  forall s e, In (s, e) (anomalise stat lo hi n cpts) -> In (s, e) (segments n cpts).
Proof.
  intros n cpts Hok Hn s e Hin.
  apply (anomalise_iff n cpts s e Hok Hn) in Hin. destruct Hin as [Hin _]. exact Hin.
Qed.

Theorem anomalise_all_flagged : forall n cpts,
  cpts_ok n cpts -> 0 < n ->
  (forall se, In se (segments n cpts) -> flagged stat lo hi (seg_rows se) = true) ->
  anomalise stat lo hi n cpts = segments n cpts.
Proof.
  intros n cpts Hok Hn Hall. rewrite anomalise_is_spec by assumption.
  unfold anomalise_spec. apply filter_all_true. exact Hall.
Qed.

(** the reported intervals appear in the order of the partition and their number is
    the number of flagged segments *)
Theorem anomalise_length : forall n cpts,
  cpts_ok n cpts -> 0 < n ->
  length (anomalise stat lo hi n cpts) =
  length (filter (fun se => flagged stat lo hi (seg_rows se)) (segments n cpts)).
Proof.
  intros n cpts Hok Hn. rewrite anomalise_is_spec by assumption. reflexivity.
Qed.

End Results.

(** * Non-vacuity: two ADJACENT flagged segments are reported separately *)

Definition ex_stat (rows : list nat) : Z := Z.of_nat (hd 0 rows).

Example ex_cpts_ok : cpts_ok 6 [2; 4].
Proof. unfold cpts_ok. cbn [incr_from]. lia. Qed.

Example ex_segments : segments 6 [2; 4] = [(0, 2); (2, 4); (4, 6)].
Proof. vm_compute. reflexivity. Qed.

Example ex_flags :
  map (fun se => flagged ex_stat 3%Z 10%Z (seg_rows se)) (segments 6 [2; 4]) =
  [true; true; false].
Proof. vm_compute. reflexivity. Qed.

Example anomalise_adjacent_example :
  anomalise ex_stat 3%Z 10%Z 6 [2; 4] = [(0, 2); (2, 4)].
Proof. vm_compute. reflexivity. Qed.

(** the merged interval (0, 4) is NOT reported *)
Example anomalise_adjacent_not_merged :
  ~ In (0, 4) (anomalise ex_stat 3%Z 10%Z 6 [2; 4]).
Proof.
  rewrite anomalise_adjacent_example. intros [H | [H | []]]; discriminate.
Qed.

Print Assumptions groups_of_dense.
Print Assumptions anomalise_is_spec.
Print Assumptions anomalise_iff.
Print Assumptions segments_partition.
Print Assumptions segments_consecutive.
Print Assumptions segments_length.
Print Assumptions anomalise_ok.
Print Assumptions anomalise_not_merged.
Print Assumptions anomalise_all_flagged.
Print Assumptions anomalise_length.
Print Assumptions anomalise_adjacent_example.
Print Assumptions anomalise_adjacent_not_merged.
