(** CAPA / MVCAPA dynamic programme: specification facts (S1-S3), structural
    correctness of the model for arbitrary savings (W1-W5), optimality of the pruned
    programme under sub-additivity and a pruning delay >= m - 1 (O1, O2), and a
    machine-checked refutation of immediate pruning (R1).

    The DP part never unfolds [penalise]: the penalised savings [Pc Sc ac bc] and
    [Pp Sp ap bp] are used as opaque functions throughout. *)
From Coq Require Import ZArith List Lia Bool Arith.
From SK Require Import Lib.Base Model.Capa Proofs.CapaSpec.
Import ListNotations.
Open Scope Z_scope.

(** ---------- generic list facts ---------- *)

Lemma maxl_ge_head d l : d <= maxl d l.
Proof.
  unfold maxl. revert d; induction l as [|a l IH]; intros d; cbn; [lia|].
  specialize (IH (Z.max d a)). lia.
Qed.
Lemma maxl_ge_in d l y : In y l -> y <= maxl d l.
Proof.
  revert d; induction l as [|a l IH]; intros d Hin; [destruct Hin|].
  destruct Hin as [->|Hin].
  - pose proof (maxl_ge_head (Z.max d y) l) as H. unfold maxl in *. cbn. lia.
  - unfold maxl in *. cbn. now apply IH.
Qed.
Lemma maxl_in d l : maxl d l = d \/ In (maxl d l) l.
Proof.
  unfold maxl. revert d; induction l as [|a l IH]; intros d; cbn; [now left|].
  destruct (IH (Z.max d a)) as [H|H]; [|now right; right].
  rewrite H. destruct (Z.max_spec d a) as [[_ E]|[_ E]]; rewrite E; [now right; left|now left].
Qed.

Lemma sumZ_app l1 l2 : sumZ (l1 ++ l2) = sumZ l1 + sumZ l2.
Proof. induction l1 as [|x l1 IH]; cbn; [lia|]. rewrite IH. lia. Qed.

Lemma app_nthZ_lt l r i : (i < length l)%nat -> nthZ (l ++ r) i = nthZ l i.
Proof. intros H. unfold nthZ. now apply app_nth1. Qed.
Lemma app_nthZ_last l x k : length l = k -> nthZ (l ++ [x]) k = x.
Proof.
  intros <-. unfold nthZ. rewrite app_nth2 by lia. now rewrite Nat.sub_diag.
Qed.
Lemma nthZ_map_lt (f : nat -> Z) l i :
  (i < length l)%nat -> nthZ (map f l) i = f (nthN l i).
Proof.
  intros H. unfold nthZ, nthN.
  rewrite (nth_indep _ 0 (f 0%nat)) by (rewrite map_length; exact H).
  apply map_nth.
Qed.

Lemma in_memb a l : memb a l = true <-> In a l.
Proof.
  unfold memb. rewrite existsb_exists. split.
  - intros (x & Hx & E). apply Nat.eqb_eq in E. now subst.
  - intros H. exists a. split; [exact H|apply Nat.eqb_refl].
Qed.

Lemma in_combine_map (f : nat -> Z) l a c :
  In (a, c) (combine l (map f l)) -> In a l /\ c = f a.
Proof.
  induction l as [|x l IH]; cbn; [tauto|].
  intros [E|H]; [inversion E; subst; auto|]. destruct (IH H); auto.
Qed.

(** first-maximum argmax *)
Lemma argmax_from_spec l : forall bi b i j v,
  argmax_from bi b i l = (j, v) ->
  b <= v /\ (forall x, In x l -> x <= v) /\
  ((j = bi /\ v = b) \/ ((i <= j < i + length l)%nat /\ nthZ l (j - i) = v)).
Proof.
  induction l as [|x t IH]; intros bi b i j v H; cbn in H.
  - inversion H; subst. split; [lia|]. split; [intros ? []|]. now left.
  - destruct (b <? x) eqn:E.
    + apply Z.ltb_lt in E. apply IH in H as (H1 & H2 & H3).
      split; [lia|]. split.
      * intros y [<-|Hy]; [lia|auto].
      * right. destruct H3 as [[-> ->]|[Hr Hn]].
        -- split; [cbn [length]; lia|]. now rewrite Nat.sub_diag.
        -- split; [cbn [length]; lia|].
           replace (j - i)%nat with (S (j - S i)) by lia. exact Hn.
    + apply Z.ltb_ge in E. apply IH in H as (H1 & H2 & H3).
      split; [lia|]. split.
      * intros y [<-|Hy]; [lia|auto].
      * destruct H3 as [[-> ->]|[Hr Hn]]; [now left|right].
        split; [cbn [length]; lia|].
        replace (j - i)%nat with (S (j - S i)) by lia. exact Hn.
Qed.

Lemma argmax_spec l i v : argmax l = Some (i, v) ->
  (i < length l)%nat /\ nthZ l i = v /\ (forall x, In x l -> x <= v).
Proof.
  destruct l as [|x t]; cbn [argmax]; [discriminate|].
  intros H. inversion H as [H']. apply argmax_from_spec in H' as (H1 & H2 & H3).
  destruct H3 as [[-> ->]|[Hr Hn]].
  - split; [cbn; lia|]. split; [reflexivity|]. intros y [<-|Hy]; [lia|auto].
  - split; [cbn [length]; lia|]. split.
    + replace i with (S (i - 1)) by lia. exact Hn.
    + intros y [<-|Hy]; [lia|auto].
Qed.
Lemma argmax_none l : argmax l = None -> l = [].
Proof. destruct l; [reflexivity|discriminate]. Qed.

(** ====================================================================== *)
(** * Specification layer: the unpruned recursion G is the optimum           *)
(** ====================================================================== *)
Section SpecFacts.
Variable pc : nat -> nat -> Z.
Variable pp : nat -> Z.
Variables m M : nat.
Hypothesis Hm1 : (1 <= m)%nat.

Notation G := (G pc pp m M).
Notation Gtab := (Gtab pc pp m M).
Notation Valid := (Valid m M).
Notation valid_from := (valid_from m M).
Notation value := (value pc pp).

Lemma in_coll_starts T s :
  In s (coll_starts m M T) <-> (s + m <= T /\ T <= s + M)%nat.
Proof.
  unfold coll_starts.
  rewrite filter_In, in_seq, andb_true_iff, Nat.leb_le, Nat.leb_le. lia.
Qed.

Lemma Gtab_length t : length (Gtab t) = S t.
Proof. induction t; cbn; [easy|]. rewrite app_length, IHt. cbn. lia. Qed.

Lemma Gtab_nth s t : (s <= t)%nat -> nthZ (Gtab t) s = G s.
Proof.
  induction t as [|t IH]; intros H.
  - now replace s with 0%nat by lia.
  - destruct (Nat.eq_dec s (S t)) as [->|Hn]; [reflexivity|].
    cbn [CapaSpec.Gtab]. rewrite app_nthZ_lt by (rewrite Gtab_length; lia).
    apply IH. lia.
Qed.

Lemma G_0 : G 0 = 0.
Proof. reflexivity. Qed.

Lemma G_S t :
  G (S t) = maxl (Z.max (G t) (G t + pp t))
                 (map (fun s => G s + pc s (S t)) (coll_starts m M (S t))).
Proof.
  unfold CapaSpec.G at 1. cbn [CapaSpec.Gtab].
  rewrite app_nthZ_last by apply Gtab_length.
  unfold gnext. replace (S t - 1)%nat with t by lia.
  rewrite Gtab_nth by lia. f_equal.
  apply map_ext_in. intros s Hs. apply in_coll_starts in Hs.
  rewrite Gtab_nth by lia. reflexivity.
Qed.

Lemma Gtab_S t : Gtab (S t) = Gtab t ++ [G (S t)].
Proof.
  cbn [CapaSpec.Gtab]. f_equal. f_equal. unfold CapaSpec.G. cbn [CapaSpec.Gtab].
  now rewrite app_nthZ_last by apply Gtab_length.
Qed.

Lemma G_step_id t : G t <= G (S t).
Proof. rewrite G_S. etransitivity; [|apply maxl_ge_head]. lia. Qed.
Lemma G_step_pt t : G t + pp t <= G (S t).
Proof. rewrite G_S. etransitivity; [|apply maxl_ge_head]. lia. Qed.
Lemma G_step_coll s e : (s + m <= e)%nat -> (e <= s + M)%nat -> G s + pc s e <= G e.
Proof.
  intros H1 H2. destruct e as [|e]; [lia|]. rewrite G_S. apply maxl_ge_in.
  apply (in_map (fun s => G s + pc s (S e))). apply in_coll_starts. lia.
Qed.

Lemma G_attained_step t :
  G (S t) = G t \/ G (S t) = G t + pp t \/
  exists s, (s + m <= S t)%nat /\ (S t <= s + M)%nat /\ G (S t) = G s + pc s (S t).
Proof.
  rewrite G_S.
  destruct (maxl_in (Z.max (G t) (G t + pp t))
              (map (fun s => G s + pc s (S t)) (coll_starts m M (S t)))) as [H|H].
  - rewrite H. destruct (Z.max_spec (G t) (G t + pp t)) as [[_ E]|[_ E]]; rewrite E; auto.
  - right; right. apply in_map_iff in H as (s & E & Hs). apply in_coll_starts in Hs.
    exists s. split; [lia|]. split; [lia|]. now rewrite <- E.
Qed.

(** (S3) *)
Theorem G_mono T : G T <= G (S T).
Proof. apply G_step_id. Qed.

Lemma G_mono_le s t : (s <= t)%nat -> G s <= G t.
Proof.
  induction t as [|t IH]; intros H.
  - replace s with 0%nat by lia. lia.
  - destruct (Nat.eq_dec s (S t)) as [->|Hn]; [lia|].
    etransitivity; [apply IH; lia|apply G_step_id].
Qed.

Theorem G_nonneg T : 0 <= G T.
Proof. rewrite <- G_0. apply G_mono_le. lia. Qed.

(** anomaly lists: snoc view, weakening *)
Lemma value_snoc l a : value (l ++ [a]) = value l + a_val pc pp a.
Proof using. clear Hm1. unfold CapaSpec.value. rewrite map_app, sumZ_app. cbn. lia. Qed.

Lemma valid_from_snoc lo l a T :
  valid_from lo (l ++ [a]) T <->
  valid_from lo l (a_start a) /\ a_ok m M a /\ (a_end a <= T)%nat.
Proof using.
  revert lo; induction l as [|b l IH]; intros lo; cbn [app CapaSpec.valid_from].
  - reflexivity.
  - rewrite IH. split.
    + intros (H1 & H2 & H3 & H4 & H5). repeat split; assumption.
    + intros ((H1 & H2 & H3) & H4 & H5). repeat split; assumption.
Qed.

Lemma valid_from_weaken lo l T T' :
  valid_from lo l T -> (T <= T')%nat -> valid_from lo l T'.
Proof using.
  clear Hm1. revert lo; induction l as [|b l IH]; intros lo; cbn; [lia|].
  intros (H1 & H2 & H3) HT. repeat split; auto.
Qed.

Lemma a_step a : a_ok m M a -> G (a_start a) + a_val pc pp a <= G (a_end a).
Proof.
  destruct a as [s e|t]; cbn.
  - intros [H1 H2]. now apply G_step_coll.
  - intros _. apply G_step_pt.
Qed.

Lemma G_upper_from l : forall lo T, valid_from lo l T -> G lo + value l <= G T.
Proof.
  induction l as [|a l IH]; intros lo T; cbn [CapaSpec.valid_from].
  - intros H. unfold CapaSpec.value. cbn. pose proof (G_mono_le lo T H). lia.
  - intros (H1 & H2 & H3). apply IH in H3. pose proof (a_step a H2) as Ha.
    pose proof (G_mono_le lo (a_start a) H1) as Hlo.
    unfold CapaSpec.value in *. cbn [map sumZ]. lia.
Qed.

(** (S1) no admissible anomaly set beats G *)
Theorem G_upper : forall T l, Valid l T -> value l <= G T.
Proof.
  intros T l H. apply G_upper_from in H. rewrite G_0 in H. lia.
Qed.

(** (S2) G is attained *)
Theorem G_attained : forall T, exists l, Valid l T /\ value l = G T.
Proof.
  induction T as [T IH] using lt_wf_ind.
  destruct T as [|t].
  - exists []. split; [cbn; lia|reflexivity].
  - destruct (G_attained_step t) as [E|[E|(s & H1 & H2 & E)]].
    + destruct (IH t ltac:(lia)) as (l & V & P). exists l. split.
      * apply valid_from_weaken with (T := t); [exact V|lia].
      * now rewrite E.
    + destruct (IH t ltac:(lia)) as (l & V & P). exists (l ++ [Pt t]). split.
      * apply valid_from_snoc. cbn. split; [exact V|]. split; [exact I|lia].
      * rewrite value_snoc, E, P. reflexivity.
    + destruct (IH s ltac:(lia)) as (l & V & P). exists (l ++ [Coll s (S t)]). split.
      * apply valid_from_snoc. cbn. split; [exact V|]. split; [lia|lia].
      * rewrite value_snoc, E, P. reflexivity.
Qed.
End SpecFacts.


(** ====================================================================== *)
(** * get_anomalies and the _predict post-processing (no DP invariant needed) *)
(** ====================================================================== *)

(** the back-pointer chain from [e], listed in increasing order *)
Fixpoint chain (fuel : nat) (as_ : list (option nat)) (e : nat) : list (nat * nat) :=
  match fuel with
  | O => []
  | S f =>
    match e with
    | O => []
    | S i =>
      match nth i as_ None with
      | None => chain f as_ i
      | Some a =>
          if (a <? i)%nat then chain f as_ a ++ [(a, S i)]
          else if (a =? i)%nat then chain f as_ i ++ [(i, S i)]
          else chain f as_ i
      end
    end
  end.

Lemma insert_pair_last x l :
  (forall y, In y l -> pair_ltb x y = false) -> insert_pair x l = l ++ [x].
Proof.
  induction l as [|y l IH]; intros H; cbn; [reflexivity|].
  rewrite (H y (or_introl eq_refl)). f_equal. apply IH. intros z Hz. apply H. now right.
Qed.

Lemma insert_pair_snoc y l x :
  pair_ltb y x = true -> insert_pair y (l ++ [x]) = insert_pair y l ++ [x].
Proof.
  intros H. induction l as [|z l IH]; cbn.
  - now rewrite H.
  - destruct (pair_ltb y z); [reflexivity|]. cbn. now rewrite IH.
Qed.

Lemma in_insert_pair x l y : In y (insert_pair x l) <-> y = x \/ In y l.
Proof.
  induction l as [|z l IH]; cbn; [intuition|].
  destruct (pair_ltb x z); cbn; [intuition|]. rewrite IH. intuition.
Qed.
Lemma in_sort_pairs l y : In y (sort_pairs l) <-> In y l.
Proof.
  induction l as [|z l IH]; [cbn; tauto|].
  change (sort_pairs (z :: l)) with (insert_pair z (sort_pairs l)).
  rewrite in_insert_pair, IH. cbn. intuition.
Qed.

Lemma pair_lt_bound (y x : nat * nat) :
  (fst y < snd y)%nat -> (snd y <= fst x)%nat ->
  pair_ltb y x = true /\ pair_ltb x y = false.
Proof.
  intros H1 H2. unfold pair_ltb. split.
  - apply orb_true_iff. left. apply Nat.ltb_lt. lia.
  - apply orb_false_iff. split; [apply Nat.ltb_ge; lia|].
    apply andb_false_iff. left. apply Nat.eqb_neq. lia.
Qed.

(** an element above everything else is sorted to the end *)
Lemma sort_pairs_max x l1 l2 :
  (forall y, In y (l1 ++ l2) -> (fst y < snd y)%nat /\ (snd y <= fst x)%nat) ->
  sort_pairs (l1 ++ x :: l2) = sort_pairs (l1 ++ l2) ++ [x].
Proof.
  induction l1 as [|y l1 IH]; intros H.
  - cbn [app] in *. change (sort_pairs (x :: l2)) with (insert_pair x (sort_pairs l2)).
    apply insert_pair_last. intros y Hy. apply (proj1 (in_sort_pairs _ _)) in Hy.
    destruct (H y Hy) as [H1 H2]. now apply pair_lt_bound.
  - cbn [app]. change (sort_pairs (y :: l1 ++ x :: l2)) with (insert_pair y (sort_pairs (l1 ++ x :: l2))).
    change (sort_pairs (y :: l1 ++ l2)) with (insert_pair y (sort_pairs (l1 ++ l2))).
    rewrite IH by (intros z Hz; apply H; now right).
    apply insert_pair_snoc. destruct (H y (or_introl eq_refl)) as [H1 H2].
    now apply pair_lt_bound.
Qed.

Definition nonpoint (se : nat * nat) : bool := negb (is_point se).

Lemma to_anom_pt i : to_anom (i, S i) = Pt i.
Proof. unfold to_anom. cbn [fst snd]. now rewrite Nat.eqb_refl. Qed.
Lemma to_anom_coll a e : e <> S a -> to_anom (a, e) = Coll a e.
Proof.
  intros H. unfold to_anom. cbn [fst snd].
  now replace (e =? S a)%nat with false by (symmetry; now apply Nat.eqb_neq).
Qed.

Lemma get_anoms_chain as_ : forall fuel e c p,
  get_anoms fuel as_ e = (c, p) ->
  sort_pairs (c ++ p) = chain fuel as_ e /\
  sort_pairs c = filter nonpoint (chain fuel as_ e) /\
  (forall y, In y (c ++ p) -> (fst y < snd y)%nat /\ (snd y <= e)%nat).
Proof.
  induction fuel as [|f IH]; intros e c p H.
  - cbn in H. inversion H; subst. cbn.
    split; [reflexivity|]. split; [reflexivity|]. intros y [].
  - destruct e as [|i].
    + cbn in H. inversion H; subst. cbn.
      split; [reflexivity|]. split; [reflexivity|]. intros y [].
    + cbn [get_anoms chain] in *. destruct (nth i as_ None) as [a|].
      * destruct (a <? i)%nat eqn:Elt.
        { apply Nat.ltb_lt in Elt.
          destruct (get_anoms f as_ a) as [c' p'] eqn:E. inversion H; subst c p; clear H.
          destruct (IH _ _ _ E) as (H1 & H2 & H3).
          assert (Hb : forall y, In y (c' ++ p') ->
                    (fst y < snd y)%nat /\ (snd y <= fst (a, S i))%nat) by exact H3.
          split; [|split].
          - change (((a, S i) :: c') ++ p') with ([] ++ (a, S i) :: (c' ++ p')).
            rewrite sort_pairs_max by exact Hb. cbn [app]. now rewrite H1.
          - change ((a, S i) :: c') with ([] ++ (a, S i) :: c').
            rewrite (sort_pairs_max (a, S i) [] c').
            2:{ intros y Hy. apply Hb. cbn [app] in Hy. apply in_or_app. now left. }
            assert (Hnp : nonpoint (a, S i) = true).
            { unfold nonpoint, is_point. cbn [fst snd].
              apply negb_true_iff, Nat.eqb_neq. lia. }
            cbn [app]. rewrite H2, filter_app. cbn [filter]. rewrite Hnp. reflexivity.
          - intros y [<-|Hy]; [cbn; lia|]. destruct (H3 y Hy). lia. }
        destruct (a =? i)%nat eqn:Eeq.
        { apply Nat.eqb_eq in Eeq. subst a.
          destruct (get_anoms f as_ i) as [c' p'] eqn:E. inversion H; subst c p; clear H.
          destruct (IH _ _ _ E) as (H1 & H2 & H3).
          assert (Hb : forall y, In y (c' ++ p') ->
                    (fst y < snd y)%nat /\ (snd y <= fst (i, S i))%nat) by exact H3.
          split; [|split].
          - rewrite sort_pairs_max by exact Hb. now rewrite H1.
          - assert (Hnp : nonpoint (i, S i) = false).
            { unfold nonpoint, is_point. cbn [fst snd]. now rewrite Nat.eqb_refl. }
            rewrite H2, filter_app. cbn [filter]. rewrite Hnp. now rewrite app_nil_r.
          - intros y Hy. apply in_app_or in Hy as [Hy|[<-|Hy]].
            + destruct (H3 y (in_or_app _ _ _ (or_introl Hy))). lia.
            + cbn. lia.
            + destruct (H3 y (in_or_app _ _ _ (or_intror Hy))). lia. }
        destruct (IH _ _ _ H) as (H1 & H2 & H3).
        split; [exact H1|]. split; [exact H2|].
        intros y Hy. destruct (H3 y Hy). lia.
      * destruct (IH _ _ _ H) as (H1 & H2 & H3).
        split; [exact H1|]. split; [exact H2|].
        intros y Hy. destruct (H3 y Hy). lia.
Qed.

(** (W4), for any back-pointer list *)
Lemma predict_ignore_points fuel as_ e c p :
  get_anoms fuel as_ e = (c, p) ->
  capa_predict true c p = filter (fun se => negb (is_point se)) (capa_predict false c p).
Proof.
  intros H. apply get_anoms_chain in H as (H1 & H2 & _).
  unfold capa_predict. rewrite H1, H2. reflexivity.
Qed.

(** ====================================================================== *)
(** * Model layer                                                           *)
(** ====================================================================== *)
Section Model.
Variable Sc : nat -> nat -> list Z.
Variable Sp : nat -> list Z.
Variables (ac : Z) (bc : list Z) (ap : Z) (bp : list Z).
Variables (m M delay : nat).
Hypothesis Hm2 : (2 <= m)%nat.
Hypothesis HmM : (m <= M)%nat.

Notation PC := (Pc Sc ac bc).
Notation PP := (Pp Sp ap bp).
Notation K := (ac + sumZ bc).
Notation stepM := (step Sc Sp ac bc ap bp m M delay).
Notation runM := (run Sc Sp ac bc ap bp m M delay).
Notation capaM := (capa Sc Sp ac bc ap bp m M delay).
Notation GG := (G PC PP m M).
Notation ValidM := (Valid m M).
Notation valueM := (value PC PP).

(** the pieces of one iteration *)
Definition starts1 (s : st) (t : nat) : list nat :=
  if (m <=? S t)%nat then starts s ++ [S t - m]%nat else starts s.
Definition cands (s : st) (t : nat) : list Z :=
  map (fun a => nthZ (opt s) a + PC a (S t)) (starts1 s t).
Definition choose (s : st) (t : nat) : option nat * Z :=
  let ot := nthZ (opt s) t in
  let optp := ot + PP t in
  match argmax (cands s t) with
  | None => if ot <? optp then (Some t, optp) else (None, ot)
  | Some (i, oc) =>
      if ot <? oc then (if oc <? optp then (Some t, optp) else (Some (nthN (starts1 s t) i), oc))
      else (if ot <? optp then (Some t, optp) else (None, ot))
  end.
Definition low (s : st) (t : nat) (best : Z) : list nat :=
  map fst (filter (fun ac0 => snd ac0 + K <? best) (combine (starts1 s t) (cands s t))).
Definition popped (s : st) (lw : list nat) : list nat * list (list nat) :=
  let pend := pending s ++ [lw] in
  if (delay <? length pend)%nat then (hd [] pend, tl pend) else ([], pend).
Definition keep (s : st) (t : nat) (now : list nat) : list nat :=
  filter (fun a => negb (memb a now) && negb (a + M <? S t + 1)%nat) (starts1 s t).

Lemma step_eq s t :
  stepM s t =
  let '(choice, best) := choose s t in
  let '(now, pend') := popped s (low s t best) in
  {| opt := opt s ++ [best]; astart := astart s ++ [choice];
     starts := keep s t now; pending := pend' |}.
Proof. reflexivity. Qed.

Lemma run_S n : runM (S n) = stepM (runM n) n.
Proof.
  unfold run. rewrite seq_S, fold_left_app. reflexivity.
Qed.

Lemma choose_spec s t choice best : choose s t = (choice, best) ->
  nthZ (opt s) t <= best /\ nthZ (opt s) t + PP t <= best /\
  (forall x, In x (cands s t) -> x <= best) /\
  match choice with
  | None => best = nthZ (opt s) t
  | Some a => (a = t /\ best = nthZ (opt s) t + PP t) \/
              (exists i, (i < length (starts1 s t))%nat /\ a = nthN (starts1 s t) i /\
                         best = nthZ (cands s t) i)
  end.
Proof.
  unfold choose.
  set (ot := nthZ (opt s) t). set (optp := ot + PP t).
  destruct (argmax (cands s t)) as [[i oc]|] eqn:E.
  - apply argmax_spec in E as (Hi & Hv & Hmax).
    assert (Hi' : (i < length (starts1 s t))%nat)
      by (unfold cands in Hi; now rewrite map_length in Hi).
    destruct (Z.ltb_spec ot oc) as [H1|H1].
    + destruct (Z.ltb_spec oc optp) as [H2|H2]; intros E'; inversion E'; subst choice best.
      * split; [lia|]. split; [lia|]. split; [|now left].
        intros x Hx. specialize (Hmax x Hx). lia.
      * split; [lia|]. split; [lia|]. split; [exact Hmax|].
        right. exists i. auto.
    + destruct (Z.ltb_spec ot optp) as [H2|H2]; intros E'; inversion E'; subst choice best.
      * split; [lia|]. split; [lia|]. split; [|now left].
        intros x Hx. specialize (Hmax x Hx). lia.
      * split; [lia|]. split; [lia|]. split; [|reflexivity].
        intros x Hx. specialize (Hmax x Hx). lia.
  - apply argmax_none in E. rewrite E.
    destruct (Z.ltb_spec ot optp) as [H2|H2]; intros E'; inversion E'; subst choice best.
    + split; [lia|]. split; [lia|]. split; [intros ? []|now left].
    + split; [lia|]. split; [lia|]. split; [intros ? []|reflexivity].
Qed.

(** structural invariant after T iterations *)
Definition as_ok (o : list Z) (i : nat) (ch : option nat) : Prop :=
  match ch with
  | None => nthZ o (S i) = nthZ o i
  | Some a => (a = i /\ nthZ o (S i) = nthZ o i + PP i) \/
              ((a + m <= S i)%nat /\ (S i <= a + M)%nat /\
               nthZ o (S i) = nthZ o a + PC a (S i))
  end.

Record WInv (T : nat) (s : st) : Prop := {
  w_len_opt : length (opt s) = S T;
  w_len_as : length (astart s) = T;
  w_opt0 : nthZ (opt s) 0 = 0;
  w_mono : forall i, (i < T)%nat -> nthZ (opt s) i <= nthZ (opt s) (S i);
  w_as : forall i, (i < T)%nat -> as_ok (opt s) i (nth i (astart s) None);
  w_starts : forall a, In a (starts s) -> (a + m <= T)%nat /\ (S T <= a + M)%nat }.

Lemma as_ok_ext o o' i ch :
  (forall j, (j <= S i)%nat -> nthZ o' j = nthZ o j) -> as_ok o i ch -> as_ok o' i ch.
Proof.
  intros H. unfold as_ok. destruct ch as [a|].
  - intros [[-> E]|(H1 & H2 & E)].
    + left. split; [reflexivity|]. rewrite !H by lia. exact E.
    + right. split; [exact H1|]. split; [exact H2|]. rewrite !H by lia. exact E.
  - intros E. rewrite !H by lia. exact E.
Qed.

Lemma starts1_range t s : WInv t s ->
  forall a, In a (starts1 s t) -> (a + m <= S t)%nat /\ (S t <= a + M)%nat.
Proof.
  intros W a Ha. unfold starts1 in Ha.
  destruct (m <=? S t)%nat eqn:E.
  - apply Nat.leb_le in E. apply in_app_or in Ha as [Ha|[<-|[]]].
    + destruct (w_starts _ _ W a Ha). lia.
    + lia.
  - destruct (w_starts _ _ W a Ha). lia.
Qed.

Lemma starts_sub_starts1 s t a : In a (starts s) -> In a (starts1 s t).
Proof.
  intros H. unfold starts1. destruct (m <=? S t)%nat; [apply in_or_app; now left|exact H].
Qed.

Lemma cands_nth t s i : WInv t s -> (i < length (starts1 s t))%nat ->
  nthZ (cands s t) i = nthZ (opt s) (nthN (starts1 s t) i) + PC (nthN (starts1 s t) i) (S t).
Proof. intros _ Hi. unfold cands. now rewrite nthZ_map_lt. Qed.

Lemma init_WInv : WInv 0 init.
Proof.
  constructor; cbn; try reflexivity; try (intros; lia); try tauto.
Qed.

Lemma step_WInv t s : WInv t s -> WInv (S t) (stepM s t).
Proof.
  intros W. pose proof W as [Hlo Hla H0 Hmono Has Hst].
  rewrite step_eq. destruct (choose s t) as [choice best] eqn:Ech.
  destruct (popped s (low s t best)) as [now pend'] eqn:Epop.
  apply choose_spec in Ech as (Hb1 & Hb2 & Hb3 & Hch).
  assert (Hold : forall j, (j <= t)%nat -> nthZ (opt s ++ [best]) j = nthZ (opt s) j)
    by (intros j Hj; apply app_nthZ_lt; lia).
  assert (Hnew : nthZ (opt s ++ [best]) (S t) = best) by now apply app_nthZ_last.
  constructor; cbn [opt astart starts pending].
  - rewrite app_length, Hlo. cbn. lia.
  - rewrite app_length, Hla. cbn. lia.
  - rewrite Hold by lia. exact H0.
  - intros i Hi. destruct (Nat.eq_dec i t) as [->|Hne].
    + rewrite Hnew, Hold by lia. exact Hb1.
    + rewrite !Hold by lia. apply Hmono. lia.
  - intros i Hi. destruct (Nat.eq_dec i t) as [->|Hne].
    + rewrite app_nth2 by lia. rewrite Hla, Nat.sub_diag. cbn [nth].
      unfold as_ok. destruct choice as [a|].
      * destruct Hch as [[-> E]|(i0 & Hi0 & Ea & E)].
        -- left. split; [reflexivity|]. now rewrite Hnew, Hold by lia.
        -- right. assert (Hin : In a (starts1 s t)) by (subst a; now apply nth_In).
           destruct (starts1_range t s W a Hin) as [R1 R2].
           split; [exact R1|]. split; [exact R2|].
           rewrite Hnew, Hold by lia. rewrite E, (cands_nth t s i0 W Hi0), <- Ea. reflexivity.
      * now rewrite Hnew, Hold by lia.
    + rewrite app_nth1 by lia. apply as_ok_ext with (o := opt s).
      * intros j Hj. apply Hold. lia.
      * apply Has. lia.
  - intros a Ha. unfold keep in Ha. apply filter_In in Ha as [Hin Hf].
    apply andb_true_iff in Hf as [_ Hf]. apply negb_true_iff, Nat.ltb_ge in Hf.
    destruct (starts1_range t s W a Hin). lia.
Qed.

Lemma run_WInv n : WInv n (runM n).
Proof.
  induction n as [|n IH]; [exact init_WInv|]. rewrite run_S. now apply step_WInv.
Qed.

(** the chain from any [e <= T] is a valid anomaly set for [0,e) of value opt[e] *)
Lemma chain_valid T s : WInv T s -> forall fuel e, (e <= fuel)%nat -> (e <= T)%nat ->
  valid_from m M 0 (map to_anom (chain fuel (astart s) e)) e /\
  valueM (map to_anom (chain fuel (astart s) e)) = nthZ (opt s) e.
Proof.
  intros W. induction fuel as [|f IH]; intros e Hf HT.
  - replace e with 0%nat by lia. cbn. split; [lia|]. symmetry. apply (w_opt0 _ _ W).
  - destruct e as [|i].
    + cbn. split; [lia|]. symmetry. apply (w_opt0 _ _ W).
    + cbn [chain]. pose proof (w_as _ _ W i ltac:(lia)) as Hok. unfold as_ok in Hok.
      destruct (nth i (astart s) None) as [a|].
      * destruct Hok as [[-> E]|(H1 & H2 & E)].
        -- rewrite Nat.ltb_irrefl, Nat.eqb_refl.
           destruct (IH i ltac:(lia) ltac:(lia)) as [V P].
           rewrite map_app. cbn [map]. rewrite to_anom_pt.
           split.
           ++ apply valid_from_snoc. cbn. split; [exact V|]. split; [exact I|lia].
           ++ rewrite value_snoc, P, E. reflexivity.
        -- replace (a <? i)%nat with true by (symmetry; apply Nat.ltb_lt; lia).
           destruct (IH a ltac:(lia) ltac:(lia)) as [V P].
           rewrite map_app. cbn [map]. rewrite to_anom_coll by lia.
           split.
           ++ apply valid_from_snoc. cbn. split; [exact V|]. split; [lia|lia].
           ++ rewrite value_snoc, P, E. reflexivity.
      * destruct (IH i ltac:(lia) ltac:(lia)) as [V P]. split.
        -- apply valid_from_weaken with (T := i); [exact V|lia].
        -- now rewrite P.
Qed.

Lemma capa_eq n scores c p : capaM n = (scores, c, p) ->
  scores = tl (opt (runM n)) /\ get_anoms n (astart (runM n)) n = (c, p).
Proof.
  unfold capa. destruct (get_anoms n (astart (runM n)) n) as [c' p'].
  intros H. inversion H; subst. auto.
Qed.

Lemma opt_cons T s : WInv T s -> opt s = 0 :: tl (opt s).
Proof.
  intros W. pose proof (w_len_opt _ _ W) as Hl. pose proof (w_opt0 _ _ W) as H0.
  destruct (opt s) as [|x l]; [discriminate|]. cbn in *. unfold nthZ in H0. cbn in H0. now subst.
Qed.

(** prefix version of (W2)+(W3): the back-pointer chain from any T <= n *)
Lemma capa_prefix n scores c p T c' p' : capaM n = (scores, c, p) -> (T <= n)%nat ->
  get_anoms T (astart (runM n)) T = (c', p') ->
  ValidM (map to_anom (capa_predict false c' p')) T /\
  valueM (map to_anom (capa_predict false c' p')) = nthZ (0 :: scores) T.
Proof.
  intros Hc HT Hg. apply capa_eq in Hc as [-> _].
  pose proof (run_WInv n) as W. rewrite <- (opt_cons n _ W).
  apply get_anoms_chain in Hg as (H1 & _ & _). unfold capa_predict. rewrite H1.
  apply (chain_valid n _ W); lia.
Qed.

(** (W1) *)
Theorem capa_scores_length n scores c p : capaM n = (scores, c, p) -> length scores = n.
Proof.
  intros Hc. apply capa_eq in Hc as [-> _].
  pose proof (w_len_opt _ _ (run_WInv n)) as Hl.
  destruct (opt (runM n)); cbn in *; lia.
Qed.

(** (W2) *)
Theorem capa_wellformed n scores c p : capaM n = (scores, c, p) ->
  ValidM (map to_anom (capa_predict false c p)) n.
Proof.
  intros Hc. pose proof (capa_eq _ _ _ _ Hc) as [_ Hg].
  exact (proj1 (capa_prefix n scores c p n c p Hc (le_n n) Hg)).
Qed.

(** (W3) *)
Theorem capa_value_is_final_score n scores c p : capaM n = (scores, c, p) ->
  valueM (map to_anom (capa_predict false c p)) = nthZ (0 :: scores) n.
Proof.
  intros Hc. pose proof (capa_eq _ _ _ _ Hc) as [_ Hg].
  exact (proj2 (capa_prefix n scores c p n c p Hc (le_n n) Hg)).
Qed.

(** (W4) *)
Theorem capa_ignore_points n scores c p : capaM n = (scores, c, p) ->
  capa_predict true c p = filter (fun se => negb (is_point se)) (capa_predict false c p).
Proof.
  intros Hc. apply capa_eq in Hc as [_ Hg]. now apply predict_ignore_points in Hg.
Qed.

(** (W5) *)
Lemma scores_nth n scores c p t : capaM n = (scores, c, p) ->
  nthZ scores t = nthZ (opt (runM n)) (S t).
Proof.
  intros Hc. apply capa_eq in Hc as [-> _].
  rewrite (opt_cons n _ (run_WInv n)) at 2. reflexivity.
Qed.

Theorem capa_scores_monotone n scores c p : capaM n = (scores, c, p) ->
  forall t, (S t < n)%nat -> nthZ scores t <= nthZ scores (S t).
Proof.
  intros Hc t Ht. rewrite !(scores_nth n scores c p) by exact Hc.
  apply (w_mono _ _ (run_WInv n)). lia.
Qed.

Lemma opt_nonneg T s : WInv T s -> forall i, (i <= T)%nat -> 0 <= nthZ (opt s) i.
Proof.
  intros W. induction i as [|i IH]; intros Hi.
  - rewrite (w_opt0 _ _ W). lia.
  - pose proof (w_mono _ _ W i ltac:(lia)). specialize (IH ltac:(lia)). lia.
Qed.

Theorem capa_scores_nonneg n scores c p : capaM n = (scores, c, p) ->
  forall t, (t < n)%nat -> 0 <= nthZ scores t.
Proof.
  intros Hc t Ht. rewrite (scores_nth n scores c p) by exact Hc.
  apply (opt_nonneg n _ (run_WInv n)). lia.
Qed.

(** ---------------------------------------------------------------------- *)
(** ** Optimality of the pruned programme                                    *)
(** ---------------------------------------------------------------------- *)
Hypothesis Hd : (m <= delay + 1)%nat.
Hypothesis Hsub : forall s k e, (s + m <= k)%nat -> (k + m <= e)%nat -> (e <= s + M)%nat ->
  PC s e <= PC s k + K + PC k e.

Lemma Hm1' : (1 <= m)%nat.
Proof using Hm2. clear - Hm2. lia. Qed.

(** start [a] was found too low at end [tau] *)
Definition condemned (a tau : nat) : Prop :=
  (a + m <= tau)%nat /\ GG a + PC a tau + K < GG tau.

(** a condemned start is strictly beaten at every later end it is still admissible for,
    provided the end is at least m beyond the condemning end *)
Lemma condemned_worse a tau T' :
  condemned a tau -> (tau + m <= T')%nat -> (T' <= a + M)%nat -> GG a + PC a T' < GG T'.
Proof.
  intros [H1 H2] H3 H4.
  pose proof (Hsub a tau T' H1 H3 H4) as Hs.
  assert (H5 : (T' <= tau + M)%nat) by lia.
  pose proof (G_step_coll PC PP m M Hm1' tau T' H3 H5) as Hg.
  lia.
Qed.

Record OInv (T : nat) (s : st) : Prop := {
  o_opt : forall i, (i <= T)%nat -> nthZ (opt s) i = GG i;
  o_missing : forall a, (a + m <= T)%nat -> (S T <= a + M)%nat -> ~ In a (starts s) ->
      exists tau, condemned a tau /\ (tau + m <= S T)%nat;
  o_pend_len : (length (pending s) <= delay)%nat;
  o_pend : forall i D, nth_error (pending s) i = Some D ->
      forall a, In a D -> condemned a (T + 1 + i - length (pending s))%nat }.

Lemma popped_spec s lw now pend' : popped s lw = (now, pend') ->
  (delay < length (pending s ++ [lw]) /\ now = hd [] (pending s ++ [lw]) /\
     pend' = tl (pending s ++ [lw]))%nat \/
  (length (pending s ++ [lw]) <= delay /\ now = [] /\ pend' = pending s ++ [lw])%nat.
Proof using.
  unfold popped. cbv zeta. destruct (delay <? length (pending s ++ [lw]))%nat eqn:E.
  - apply Nat.ltb_lt in E. intros H. inversion H; subst. left. auto.
  - apply Nat.ltb_ge in E. intros H. inversion H; subst. right. auto.
Qed.

Lemma init_OInv : OInv 0 init.
Proof.
  constructor; cbn [opt astart starts pending init].
  - intros i Hi. replace i with 0%nat by lia. reflexivity.
  - intros a H. lia.
  - cbn. lia.
  - intros i D H. destruct i; discriminate.
Qed.

Lemma step_OInv t s : WInv t s -> OInv t s -> OInv (S t) (stepM s t).
Proof.
  intros W O. pose proof W as [Hlo Hla H0 Hmono Has Hst].
  pose proof O as [Hopt Hmiss Hplen Hpend].
  rewrite step_eq. destruct (choose s t) as [choice best] eqn:Ech.
  apply choose_spec in Ech as (Hb1 & Hb2 & Hb3 & Hch).
  assert (Hcand : forall a, In a (starts1 s t) ->
            nthZ (opt s) a + PC a (S t) = GG a + PC a (S t)).
  { intros a Ha. destruct (starts1_range t s W a Ha). rewrite Hopt by lia. reflexivity. }
  (* admissible starts absent from the list were condemned long enough ago *)
  assert (Hmiss0 : forall a, (a + m <= S t)%nat -> (S t <= a + M)%nat ->
            ~ In a (starts1 s t) -> exists tau, condemned a tau /\ (tau + m <= S t)%nat).
  { intros a A1 A2 Hn.
    assert (Hne : a <> (S t - m)%nat).
    { intros ->. apply Hn. unfold starts1.
      replace (m <=? S t)%nat with true by (symmetry; apply Nat.leb_le; lia).
      apply in_or_app; right; now left. }
    assert (Hn' : ~ In a (starts s)) by (intros Hin; apply Hn; now apply starts_sub_starts1).
    apply Hmiss; [lia|lia|exact Hn']. }
  assert (Hmiss1 : forall a, (a + m <= S t)%nat -> (S t <= a + M)%nat ->
            ~ In a (starts1 s t) -> GG a + PC a (S t) < GG (S t)).
  { intros a A1 A2 Hn. destruct (Hmiss0 a A1 A2 Hn) as (tau & Hc & Htau).
    now apply (condemned_worse a tau). }
  (* the pruned maximum is the unpruned one *)
  assert (Hbest : best = GG (S t)).
  { apply Z.le_antisymm.
    - destruct choice as [a|].
      + destruct Hch as [[-> ->]|(i0 & Hi0 & Ea & ->)].
        * rewrite Hopt by lia. apply (G_step_pt PC PP m M Hm1').
        * assert (Hin : In a (starts1 s t)) by (subst a; now apply nth_In).
          rewrite (cands_nth t s i0 W Hi0), <- Ea, Hcand by exact Hin.
          destruct (starts1_range t s W a Hin) as [R1 R2].
          now apply (G_step_coll PC PP m M Hm1').
      + rewrite Hch, Hopt by lia. apply (G_step_id PC PP m M Hm1').
    - destruct (G_attained_step PC PP m M Hm1' t) as [E|[E|(a & A1 & A2 & E)]].
      + rewrite E, <- Hopt by lia. exact Hb1.
      + rewrite E, <- Hopt by lia. exact Hb2.
      + destruct (in_dec Nat.eq_dec a (starts1 s t)) as [Hin|Hn].
        * rewrite E, <- Hcand by exact Hin. apply Hb3. unfold cands.
          apply (in_map (fun a => nthZ (opt s) a + PC a (S t))). exact Hin.
        * pose proof (Hmiss1 a A1 A2 Hn). lia. }
  (* starts recorded as too low at this end are condemned at S t *)
  assert (Hlow : forall a, In a (low s t best) -> condemned a (S t)).
  { intros a Ha. unfold low in Ha. apply in_map_iff in Ha as ([a' c0] & Ea & Hin).
    cbn [fst] in Ea. subst a'. apply filter_In in Hin as [Hin Hc].
    unfold cands in Hin. apply in_combine_map in Hin as [Hin ->]. cbn [snd] in Hc.
    apply Z.ltb_lt in Hc. destruct (starts1_range t s W a Hin) as [R1 R2].
    split; [lia|]. rewrite Hcand in Hc by exact Hin. rewrite <- Hbest. exact Hc. }
  set (lw := low s t best) in *.
  destruct (popped s lw) as [now pend'] eqn:Epop.
  apply popped_spec in Epop.
  set (pend := pending s ++ [lw]) in *.
  assert (Hlen : length pend = S (length (pending s)))
    by (unfold pend; rewrite app_length; cbn; lia).
  assert (Hpend1 : forall i D, nth_error pend i = Some D ->
            forall a, In a D -> condemned a (S t + 1 + i - length pend)%nat).
  { intros i D Hi a Ha. rewrite Hlen.
    destruct (lt_dec i (length (pending s))) as [Hlt|Hge].
    - unfold pend in Hi. rewrite nth_error_app1 in Hi by exact Hlt.
      specialize (Hpend i D Hi a Ha).
      replace (S t + 1 + i - S (length (pending s)))%nat
        with (t + 1 + i - length (pending s))%nat by lia. exact Hpend.
    - unfold pend in Hi. rewrite nth_error_app2 in Hi by lia.
      destruct (i - length (pending s))%nat as [|j] eqn:Ej; cbn in Hi;
        [|destruct j; discriminate].
      inversion Hi; subst D.
      replace (S t + 1 + i - S (length (pending s)))%nat with (S t) by lia.
      now apply Hlow. }
  assert (Hopt' : forall i, (i <= S t)%nat -> nthZ (opt s ++ [best]) i = GG i).
  { intros i Hi. destruct (Nat.eq_dec i (S t)) as [->|Hne].
    - rewrite app_nthZ_last by exact Hlo. exact Hbest.
    - rewrite app_nthZ_lt by lia. apply Hopt. lia. }
  destruct Epop as [(Hcmp & -> & ->)|(Hcmp & -> & ->)].
  - (* the oldest pending decision is applied *)
    assert (Hk : length (pending s) = delay) by lia.
    destruct pend as [|D0 ptl] eqn:Ep; [cbn in Hlen; lia|]. cbn [hd tl].
    assert (HD0 : forall a, In a D0 -> condemned a (S t - delay)%nat).
    { intros a Ha. specialize (Hpend1 0%nat D0 eq_refl a Ha).
      replace (S t + 1 + 0 - length (D0 :: ptl))%nat with (S t - delay)%nat in Hpend1
        by (rewrite Hlen; lia). exact Hpend1. }
    constructor; cbn [opt astart starts pending].
    + exact Hopt'.
    + intros a A1 A2 Hn.
      destruct (in_dec Nat.eq_dec a (starts1 s t)) as [Hin|Hnin].
      * assert (Hnow : In a D0).
        { destruct (in_dec Nat.eq_dec a D0) as [i|ni]; [exact i|]. exfalso. apply Hn.
          unfold keep. apply filter_In. split; [exact Hin|]. apply andb_true_iff. split.
          - apply negb_true_iff. destruct (memb a D0) eqn:Em; [|reflexivity].
            apply in_memb in Em. contradiction.
          - apply negb_true_iff, Nat.ltb_ge. lia. }
        exists (S t - delay)%nat. split; [now apply HD0|].
        destruct (HD0 a Hnow) as [Hm' _]. lia.
      * destruct (Hmiss0 a A1 ltac:(lia) Hnin) as (tau & Hc & Htau).
        exists tau. split; [exact Hc|lia].
    + cbn [length] in Hlen. lia.
    + intros i D Hi a Ha. specialize (Hpend1 (S i) D Hi a Ha).
      replace (S t + 1 + i - length ptl)%nat
        with (S t + 1 + S i - length (D0 :: ptl))%nat by (cbn [length]; lia).
      exact Hpend1.
  - (* nothing is applied yet *)
    constructor; cbn [opt astart starts pending].
    + exact Hopt'.
    + intros a A1 A2 Hn.
      assert (Hnin : ~ In a (starts1 s t)).
      { intros Hin. apply Hn. unfold keep. apply filter_In. split; [exact Hin|].
        apply andb_true_iff. split; [reflexivity|]. apply negb_true_iff, Nat.ltb_ge. lia. }
      destruct (Hmiss0 a A1 ltac:(lia) Hnin) as (tau & Hc & Htau).
      exists tau. split; [exact Hc|lia].
    + exact Hcmp.
    + exact Hpend1.
Qed.

Lemma run_OInv n : OInv n (runM n).
Proof.
  induction n as [|n IH]; [exact init_OInv|]. rewrite run_S.
  apply step_OInv; [apply run_WInv|exact IH].
Qed.

(** (O1) *)
Theorem capa_scores_optimal n scores c p : capaM n = (scores, c, p) ->
  forall t, (t < n)%nat -> nthZ scores t = GG (S t).
Proof.
  intros Hc t Ht. rewrite (scores_nth n scores c p) by exact Hc.
  apply (o_opt _ _ (run_OInv n)). lia.
Qed.

(** (O2) *)
Theorem capa_optimal n scores c p : capaM n = (scores, c, p) ->
  forall l, ValidM l n -> valueM l <= valueM (map to_anom (capa_predict false c p)).
Proof.
  intros Hc l Hl. rewrite (capa_value_is_final_score n scores c p Hc).
  pose proof (capa_eq _ _ _ _ Hc) as [-> _].
  rewrite <- (opt_cons n _ (run_WInv n)).
  rewrite (o_opt _ _ (run_OInv n)) by lia.
  now apply (G_upper PC PP m M Hm1').
Qed.

(** the predicted anomaly set attains the optimum G n *)
Corollary capa_value_optimal n scores c p : capaM n = (scores, c, p) ->
  valueM (map to_anom (capa_predict false c p)) = GG n.
Proof.
  intros Hc. apply Z.le_antisymm.
  - apply (G_upper PC PP m M Hm1'). now apply (capa_wellformed n scores c p).
  - destruct (G_attained PC PP m M Hm1' n) as (l & V & <-).
    now apply (capa_optimal n scores c p).
Qed.

End Model.

(** the repaired code uses delay = m - 1 *)
Corollary capa_scores_optimal_min_delay Sc Sp ac bc ap bp m M :
  (2 <= m)%nat -> (m <= M)%nat ->
  (forall s k e, (s + m <= k)%nat -> (k + m <= e)%nat -> (e <= s + M)%nat ->
     Pc Sc ac bc s e <= Pc Sc ac bc s k + (ac + sumZ bc) + Pc Sc ac bc k e) ->
  forall n scores c p, capa Sc Sp ac bc ap bp m M (m - 1) n = (scores, c, p) ->
  forall t, (t < n)%nat -> nthZ scores t = G (Pc Sc ac bc) (Pp Sp ap bp) m M (S t).
Proof.
  intros H2 HM Hs. apply capa_scores_optimal; [exact H2|exact HM|lia|exact Hs].
Qed.

(** ====================================================================== *)
(** * (R1) immediate pruning (delay = 0) is not optimal                       *)
(** ====================================================================== *)

(** savings from a loss table: loss[i][theta], theta in 0..Q;
    saving of [s,e) = (sum of loss[.][0]) - min_theta (sum of loss[.][theta]).
    Rows beyond the table count as 0.  Sub-additive for every split. *)
Section LossSavings.
Variable loss : list (list Z).
Variable Q : nat.

Definition lossat (th i : nat) : Z := nth th (nth i loss []) 0.
Definition segsum (th s e : nat) : Z := sumZ (map (lossat th) (seq s (e - s))).
Fixpoint minover (f : nat -> Z) (q : nat) : Z :=
  match q with O => f 0%nat | S q' => Z.min (f (S q')) (minover f q') end.
Definition lsav (s e : nat) : Z := segsum 0 s e - minover (fun th => segsum th s e) Q.

Lemma segsum_split th s k e : (s <= k)%nat -> (k <= e)%nat ->
  segsum th s e = segsum th s k + segsum th k e.
Proof.
  intros H1 H2. unfold segsum.
  replace (e - s)%nat with ((k - s) + (e - k))%nat by lia.
  rewrite seq_app, map_app, sumZ_app.
  replace (s + (k - s))%nat with k by lia. reflexivity.
Qed.

Lemma minover_superadd f g q :
  minover f q + minover g q <= minover (fun th => f th + g th) q.
Proof. induction q as [|q IH]; cbn [minover]; lia. Qed.

Lemma minover_ext f g q : (forall th, f th = g th) -> minover f q = minover g q.
Proof. intros H. induction q as [|q IH]; cbn [minover]; [apply H|]. now rewrite H, IH. Qed.

Lemma lsav_subadd s k e : (s <= k)%nat -> (k <= e)%nat -> lsav s e <= lsav s k + lsav k e.
Proof.
  intros H1 H2. unfold lsav. rewrite (segsum_split 0 s k e H1 H2).
  rewrite (minover_ext (fun th => segsum th s e)
                       (fun th => segsum th s k + segsum th k e))
    by (intros th; now apply segsum_split).
  pose proof (minover_superadd (fun th => segsum th s k) (fun th => segsum th k e) Q) as Hs.
  cbv beta in Hs. lia.
Qed.
End LossSavings.

Lemma penalise_single x a : penalise [x] a [0] = x - a.
Proof. unfold penalise. cbn. lia. Qed.

(** witness: one column, two parameter values, n = 4, m = 2, M = 4,
    collective penalty 1, point penalty 4.  Start 0 is found too low at end 3
    (0 + 1 < 2) and dropped at once, but [0,4) is the unique optimum at end 4 = 3 + 1 < 3 + m:
    pruned scores [0;2;2;2], optimum G = 0,2,2,3. *)
Definition wloss : list (list Z) := [[3;0];[1;1];[0;2];[3;0]].
Definition wSc (s e : nat) : list Z := [lsav wloss 1 s e].
Definition wSp (t : nat) : list Z := [lsav wloss 1 t (S t)].

Theorem capa_immediate_pruning_refuted :
  exists Sc Sp ac bc ap bp m M n,
    (2 <= m <= M)%nat /\
    (forall s k e, (s + m <= k)%nat -> (k + m <= e)%nat -> (e <= s + M)%nat ->
       Pc Sc ac bc s e <= Pc Sc ac bc s k + (ac + sumZ bc) + Pc Sc ac bc k e) /\
    exists t scores c p,
      (t < n)%nat /\ capa Sc Sp ac bc ap bp m M 0 n = (scores, c, p) /\
      nthZ scores t <> G (Pc Sc ac bc) (Pp Sp ap bp) m M (S t).
Proof.
  exists wSc, wSp, 1, [0], 4, [0], 2%nat, 4%nat, 4%nat.
  split; [lia|]. split.
  - intros s k e H1 H2 H3. unfold Pc, wSc. rewrite !penalise_single. cbn [sumZ].
    pose proof (lsav_subadd wloss 1 s k e ltac:(lia) ltac:(lia)). lia.
  - exists 3%nat. eexists. eexists. eexists.
    split; [lia|]. split; [vm_compute; reflexivity|].
    vm_compute. discriminate.
Qed.

(** the numbers: immediate pruning returns 2 at the last index, delay m - 1 = 1 returns
    the optimum 3 *)
Example witness_scores_delay0 :
  fst (fst (capa wSc wSp 1 [0] 4 [0] 2 4 0 4)) = [0; 2; 2; 2].
Proof. vm_compute. reflexivity. Qed.
Example witness_scores_delay1 :
  fst (fst (capa wSc wSp 1 [0] 4 [0] 2 4 1 4)) = [0; 2; 2; 3].
Proof. vm_compute. reflexivity. Qed.
Example witness_G :
  map (G (Pc wSc 1 [0]) (Pp wSp 4 [0]) 2 4) [1; 2; 3; 4]%nat = [0; 2; 2; 3].
Proof. vm_compute. reflexivity. Qed.

(** the same sub-additivity holds for every split of every interval, not only the
    ones the optimality theorem asks for *)
Lemma witness_subadditive_everywhere s k e : (s <= k)%nat -> (k <= e)%nat ->
  Pc wSc 1 [0] s e <= Pc wSc 1 [0] s k + (1 + sumZ [0]) + Pc wSc 1 [0] k e.
Proof.
  intros H1 H2. unfold Pc, wSc. rewrite !penalise_single. cbn [sumZ].
  pose proof (lsav_subadd wloss 1 s k e H1 H2). lia.
Qed.

Print Assumptions G_upper.
Print Assumptions G_attained.
Print Assumptions capa_wellformed.
Print Assumptions capa_value_is_final_score.
Print Assumptions capa_ignore_points.
Print Assumptions capa_scores_optimal.
Print Assumptions capa_optimal.
Print Assumptions capa_immediate_pruning_refuted.
