(** Two more kernels in the style of Proofs/FloatError.v + Proofs/FloatRefine.v:

    A  the FIXED-MEAN squared-error cost  (S2[e] - S2[s]) - (2 mu) (S1[e] - S1[s]) + n mu^2
       in the code's operation order  [l2_cost_fixed_F]  (Check/FloatKernelCheck.v);
    B  the CUSUM score  | sqrt (na / (n nb)) (S1[k] - S1[s]) - sqrt (nb / (n na)) (S1[e] - S1[k]) |
       in the code's operation order  [cusum_F]  (Check/FloatKernelCheck2.v).

    MODEL OF FLOATING POINT: as in Proofs/FloatError.v (Flocq FLX, precision 53, round to
    nearest even, unbounded exponent range: [rnd53], [u53] = 2^-53).  Parts A1 and B2 are
    first carried out for ANY rounding function with |rnd x - x| <= u |x|, 0 <= u.

    Notation:  M1 = sum of |x_i|, M2 = sum of x_i^2 over the WHOLE prefix 0 .. e-1,  n = e - s.

    A1 [l2_fixed_float53_error]   s <= e,  e u <= 1/100  ==>
          |l2_fixed_float53 mu l s e - l2_cost_fixed_R (prefix l) (prefix (sq l)) mu s e|
             <= (2.04 e + 6) u (M2 + 2 |mu| M1 + n mu^2)
       [l2_fixed_float53_vs_sse]  the same against  sse mu (slice s e l),  s <= e <= length l
       [l2_fixed_float_error_sharp]  no smallness hypothesis, in powers of (1 + u)
    A2 [l2_fixed_trace_ok] (boolean checker), [l2_cost_fixed_F_refines]:
          l2_fixed_trace_ok mu l s e = true ->
          FR (l2_cost_fixed_F mu l s e) = l2_fixed_float53 (FR mu) (map FR l) s e
       [l2_cost_fixed_F_vs_sse]   the computed number against sse (FR mu) (slice s e (map FR l))
    B2 [cusum_float53_error]      s < k < e,  e u <= 1/100  ==>
          |cusum_float53 l s k e - cusum_score_R (prefix l) s k e|
             <= (2.04 e + 6) u (bw M1 + aw M1)        bw, aw the exact weights
    B3 [cusum_trace_ok] (boolean checker), [cusum_F_refines], [cusum_F_vs_score_R]. *)
From Coq Require Import Reals Lra Lia List Arith ZArith Bool Floats Psatz.
From Flocq Require Import Core Plus_error BinarySingleNaN.
From Flocq Require IEEE754.PrimFloat.
From SK Require Import Gen.KernelsR Proofs.RealLib Proofs.CostKernels Proofs.ScoreKernels Proofs.FloatError
  Check.FloatKernelCheck Check.FloatKernelCheck2 Proofs.FloatRefine.
Import ListNotations.

Local Open Scope R_scope.
Local Instance prec53_gt_0' : Prec_gt_0 53 := eq_refl.
(** [sqrt] is the real square root in this file; the primitive one is written [PrimFloat.sqrt] *)
Local Notation sqrt := R_sqrt.sqrt.

(* ------------------------------------------------------------------------- *)
(** * Part A1 / B2 (abstract): the standard model, any rounding function      *)
(* ------------------------------------------------------------------------- *)

Section Abstract2.
  Variable rnd : R -> R.
  Variable u : R.
  Hypothesis u_nonneg : 0 <= u.
  Hypothesis rnd_rel : forall x, Rabs (rnd x - x) <= u * Rabs x.

  (** a product of two perturbed values, relative form *)
  Lemma mul_rel_err x X y Y ex ey Mx My :
    0 <= ex -> 0 <= ey ->
    Rabs (x - X) <= ex * Mx -> Rabs X <= Mx ->
    Rabs (y - Y) <= ey * My -> Rabs Y <= My ->
    Rabs (x * y - X * Y) <= ((1 + ex) * (1 + ey) - 1) * (Mx * My) /\ Rabs (X * Y) <= Mx * My.
  Proof.
    intros Hex Hey Hx HX Hy HY.
    pose proof (Rabs_pos X) as HX0. pose proof (Rabs_pos Y) as HY0.
    pose proof (Rabs_pos (x - X)) as Hx0. pose proof (Rabs_pos (y - Y)) as Hy0.
    assert (HMx : 0 <= Mx) by lra. assert (HMy : 0 <= My) by lra.
    split.
    - replace (x * y - X * Y) with ((x - X) * (y - Y) + ((x - X) * Y + X * (y - Y))) by ring.
      pose proof (Rabs_triang ((x - X) * (y - Y)) ((x - X) * Y + X * (y - Y))) as T1.
      pose proof (Rabs_triang ((x - X) * Y) (X * (y - Y))) as T2.
      rewrite !Rabs_mult in T2. rewrite (Rabs_mult (x - X) (y - Y)) in T1.
      assert (H1 : Rabs (x - X) * Rabs (y - Y) <= (ex * Mx) * (ey * My))
        by (apply Rmult_le_compat; assumption).
      assert (H2 : Rabs (x - X) * Rabs Y <= (ex * Mx) * My)
        by (apply Rmult_le_compat; assumption).
      assert (H3 : Rabs X * Rabs (y - Y) <= Mx * (ey * My))
        by (apply Rmult_le_compat; assumption).
      replace (((1 + ex) * (1 + ey) - 1) * (Mx * My))
        with ((ex * Mx) * (ey * My) + ((ex * Mx) * My + Mx * (ey * My))) by ring.
      lra.
    - rewrite Rabs_mult. apply Rmult_le_compat; assumption.
  Qed.

  (** ... and rounded *)
  Lemma rnd_mul_err x X y Y ex ey Mx My :
    0 <= ex -> 0 <= ey ->
    Rabs (x - X) <= ex * Mx -> Rabs X <= Mx ->
    Rabs (y - Y) <= ey * My -> Rabs Y <= My ->
    Rabs (rnd (x * y) - X * Y) <= ((1 + ex) * (1 + ey) * (1 + u) - 1) * (Mx * My)
    /\ Rabs (X * Y) <= Mx * My.
  Proof.
    intros Hex Hey Hx HX Hy HY.
    destruct (mul_rel_err x X y Y ex ey Mx My Hex Hey Hx HX Hy HY) as [H1 H2].
    split; [|exact H2].
    pose proof (rnd_rel_err rnd u u_nonneg rnd_rel (x * y) (X * Y) _ _ H1 H2) as H3.
    replace ((1 + ex) * (1 + ey) * (1 + u) - 1)
      with ((1 + ((1 + ex) * (1 + ey) - 1)) * (1 + u) - 1) by ring.
    exact H3.
  Qed.

  (** one rounding of an exactly known real: relative error u *)
  Lemma rnd_exact_err X : Rabs (rnd X - X) <= u * Rabs X /\ Rabs X <= Rabs X.
  Proof. split; [apply rnd_rel|apply Rle_refl]. Qed.

  (* ----------------------------------------------------------------------- *)
  (** ** A1. The fixed-mean squared-error cost                                 *)
  (* ----------------------------------------------------------------------- *)

  (** the cost, in exactly the operation order of [l2_cost_fixed_F]:
        ((b - (2 * mu) * a) + n * (mu * mu))
      every operation rounded; [mu] is a real (in the refinement theorem: a binary64 number) *)
  Definition l2_fixed_float (mu : R) (l : list R) (s e : nat) : R :=
    let a := rnd (fprefix rnd l e - fprefix rnd l s) in
    let b := rnd (fprefix rnd (fsq rnd l) e - fprefix rnd (fsq rnd l) s) in
    rnd (rnd (b - rnd (rnd (2 * mu) * a)) + rnd (INR (e - s) * rnd (mu * mu))).

  (** A1, sharp form.  With q = 2 (1+u)^e - 1  the three relative errors are
        (1+u)^4 q - 1   on the sum of squares of the prefix,
        (1+u)^5 q - 1   on 2 |mu| (sum of |x_i| over the prefix),
        (1+u)^3 - 1     on n mu^2. *)
  Theorem l2_fixed_float_error_sharp mu l s e :
    (s <= e)%nat ->
    Rabs (l2_fixed_float mu l s e - l2_cost_fixed_R (prefix l) (prefix (sq l)) mu s e)
      <= ((1 + hh u e) * (1 + u) ^ 3 - 1) * sumR (map (fun x => x * x) (firstn e l))
         + ((1 + hh u e) * (1 + u) ^ 4 - 1) * (2 * Rabs mu * sumR (map Rabs (firstn e l)))
         + ((1 + u) ^ 3 - 1) * (INR (e - s) * mu ^ 2).
  Proof.
    intros Hse.
    pose proof (pos_INR (e - s)) as Hn.
    set (A := sumR (slice s e l)).
    set (B := sumR (map (fun x => x * x) (slice s e l))).
    assert (Hexact : l2_cost_fixed_R (prefix l) (prefix (sq l)) mu s e
                     = (B - (2 * mu) * A) + INR (e - s) * (mu * mu)).
    { unfold l2_cost_fixed_R.
      rewrite (prefix_diff l s e Hse), (prefix_diff (sq l) s e Hse).
      rewrite sq_as_mult, <- map_slice. fold A B. ring. }
    rewrite Hexact. clear Hexact.
    set (M1 := sumR (map Rabs (firstn e l))).
    set (M2 := sumR (map (fun x => x * x) (firstn e l))).
    pose proof (hh_nonneg u u_nonneg e) as Hh.
    (* a *)
    pose proof (fdiff_error_sharp rnd u u_nonneg rnd_rel l s e Hse) as Ha. fold A M1 in Ha.
    assert (HA : Rabs A <= M1).
    { pose proof (sumR_abs_le (slice s e l)) as H1.
      pose proof (sumR_slice_le_prefix Rabs s e l Rabs_pos Hse) as H2.
      unfold A, M1. lra. }
    (* b *)
    pose proof (fdiff_sq_error_sharp rnd u u_nonneg rnd_rel l s e Hse) as Hb. fold B M2 in Hb.
    assert (HB : Rabs B <= M2).
    { pose proof (sumR_map_nonneg (fun x => x * x) (slice s e l) sqr_nonneg) as H1.
      pose proof (sumR_slice_le_prefix (fun x => x * x) s e l sqr_nonneg Hse) as H2.
      fold B in H1, H2. fold M2 in H2. rewrite (Rabs_pos_eq B H1). exact H2. }
    unfold l2_fixed_float.
    set (a := rnd (fprefix rnd l e - fprefix rnd l s)) in *.
    set (b := rnd (fprefix rnd (fsq rnd l) e - fprefix rnd (fsq rnd l) s)) in *.
    (* t = fl (2 mu) *)
    destruct (rnd_exact_err (2 * mu)) as [Ht HT].
    set (t := rnd (2 * mu)) in *.
    set (T := Rabs (2 * mu)) in *.
    assert (HTval : T = 2 * Rabs mu).
    { unfold T. rewrite Rabs_mult, (Rabs_pos_eq 2) by lra. reflexivity. }
    (* c = fl (t * a) *)
    destruct (rnd_mul_err t (2 * mu) a A u (hh u e) T M1 u_nonneg Hh Ht HT Ha HA) as [Hc HC].
    set (c := rnd (t * a)) in *.
    set (ec := (1 + u) * (1 + hh u e) * (1 + u) - 1) in *.
    set (eb := (1 + hh u e) * (1 + u) - 1) in *.
    (* d = fl (b - c) *)
    assert (HE1 : Rabs ((b - c) - (B - 2 * mu * A)) <= eb * M2 + ec * (T * M1)).
    { apply Rabs_le_both in Hb. apply Rabs_le_both in Hc. apply Rabs_le_of. lra. }
    assert (HM1 : Rabs (B - 2 * mu * A) <= M2 + T * M1).
    { apply Rabs_le_both in HB. apply Rabs_le_both in HC. apply Rabs_le_of. lra. }
    pose proof (rnd_abs_err rnd u u_nonneg rnd_rel (b - c) (B - 2 * mu * A) _ _ HE1 HM1) as Hd.
    set (d := rnd (b - c)) in *.
    (* m = fl (mu * mu), w = fl (n * m) *)
    destruct (rnd_exact_err (mu * mu)) as [Hm HMM].
    set (m := rnd (mu * mu)) in *.
    assert (Hnn : Rabs (INR (e - s) - INR (e - s)) <= 0 * INR (e - s)).
    { replace (INR (e - s) - INR (e - s)) with 0 by ring. rewrite Rabs_R0. lra. }
    assert (HN : Rabs (INR (e - s)) <= INR (e - s)) by (rewrite (Rabs_pos_eq _ Hn); lra).
    destruct (rnd_mul_err (INR (e - s)) (INR (e - s)) m (mu * mu) 0 u (INR (e - s)) (Rabs (mu * mu))
                (Rle_refl 0) u_nonneg Hnn HN Hm HMM) as [Hw HW].
    set (w := rnd (INR (e - s) * m)) in *.
    assert (Hmm : Rabs (mu * mu) = mu * mu) by (apply Rabs_pos_eq; apply sqr_nonneg).
    rewrite Hmm in Hw, HW.
    set (W := INR (e - s) * (mu * mu)) in *.
    set (ew := (1 + 0) * (1 + u) * (1 + u) - 1) in *.
    (* the final addition *)
    set (E1 := (eb * M2 + ec * (T * M1)) * (1 + u) + u * (M2 + T * M1)) in *.
    assert (HE2 : Rabs ((d + w) - ((B - 2 * mu * A) + W)) <= E1 + ew * W).
    { apply Rabs_le_both in Hd. apply Rabs_le_both in Hw. apply Rabs_le_of. lra. }
    assert (HM2 : Rabs ((B - 2 * mu * A) + W) <= (M2 + T * M1) + W).
    { apply Rabs_le_both in HM1. apply Rabs_le_both in HW. apply Rabs_le_of. lra. }
    pose proof (rnd_abs_err rnd u u_nonneg rnd_rel (d + w) ((B - 2 * mu * A) + W) _ _ HE2 HM2) as Hfin.
    replace (2 * Rabs mu) with T by exact HTval.
    replace (INR (e - s) * mu ^ 2) with W by (unfold W; ring).
    replace (((1 + hh u e) * (1 + u) ^ 3 - 1) * M2 + ((1 + hh u e) * (1 + u) ^ 4 - 1) * (T * M1)
             + ((1 + u) ^ 3 - 1) * W)
      with ((E1 + ew * W) * (1 + u) + u * (M2 + T * M1 + W))
      by (unfold E1, ew, eb, ec; ring).
    exact Hfin.
  Qed.

  (** the common constant of parts A and B:  (1+u)^5 (2 (1+u)^e - 1) - 1 <= (2.04 e + 6) u *)
  Lemma consts2_small e :
    u <= 1 / 100 -> INR e * u <= 1 / 100 ->
    (1 + hh u e) * (1 + u) ^ 4 - 1 <= (204 / 100 * INR e + 6) * u.
  Proof.
    intros Hu Hsmall.
    pose proof (g_small u u_nonneg e Hsmall) as Hg. pose proof (g_nonneg u u_nonneg e) as Hg0.
    assert (H5u : INR 5 * u <= 5 / 100) by (cbn [INR]; lra).
    pose proof (g_small_gen u u_nonneg (5 / 100) 5 ltac:(lra) H5u 5 ltac:(lia)) as Hg5.
    pose proof (g_nonneg u u_nonneg 5) as Hg50.
    cbn [INR] in Hg5.
    pose proof (pos_INR e) as He0.
    assert (Ht0 : 0 <= INR e * u) by (apply Rmult_le_pos; assumption).
    replace ((1 + hh u e) * (1 + u) ^ 4) with ((1 + 2 * g u e) * (1 + g u 5))
      by (unfold hh, g; ring).
    replace ((204 / 100 * INR e + 6) * u) with (204 / 100 * (INR e * u) + 6 * u) by ring.
    set (t := INR e * u) in *. set (G := g u e) in *. set (G5 := g u 5) in *.
    assert (Htu : t * u <= 1 / 100 * u) by (apply Rmult_le_compat_r; lra).
    assert (Htu0 : 0 <= t * u) by (apply Rmult_le_pos; lra).
    assert (H1 : (1 + 2 * G) * (1 + G5) <= (1 + 204 / 100 * t) * (1 + 55 / 10 * u)).
    { apply Rmult_le_compat; lra. }
    nra.
  Qed.

  Lemma consts2_mono e (i j : nat) :
    (i <= j)%nat -> (1 + hh u e) * (1 + u) ^ i - 1 <= (1 + hh u e) * (1 + u) ^ j - 1.
  Proof.
    intros Hij. pose proof (hh_nonneg u u_nonneg e) as Hh.
    assert (H : (1 + u) ^ i <= (1 + u) ^ j) by (apply Rle_pow; [lra|exact Hij]).
    assert ((1 + hh u e) * (1 + u) ^ i <= (1 + hh u e) * (1 + u) ^ j)
      by (apply Rmult_le_compat_l; lra).
    lra.
  Qed.

  Lemma consts2_pow_small e (i : nat) :
    (i <= 4)%nat -> u <= 1 / 100 -> INR e * u <= 1 / 100 ->
    (1 + u) ^ i - 1 <= (204 / 100 * INR e + 6) * u.
  Proof.
    intros Hi Hu Hsmall.
    pose proof (consts2_small e Hu Hsmall) as H4.
    pose proof (consts2_mono e i 4 Hi) as Hm.
    pose proof (hh_nonneg u u_nonneg e) as Hh.
    assert (H1 : 1 <= (1 + u) ^ i) by (apply pow_R1_Rle; lra).
    assert (1 * (1 + u) ^ i <= (1 + hh u e) * (1 + u) ^ i) by (apply Rmult_le_compat_r; lra).
    lra.
  Qed.

  (** A1 (abstract): K = 2.04 e + 6 *)
  Theorem l2_fixed_float_error mu l s e :
    (s <= e)%nat -> u <= 1 / 100 -> INR e * u <= 1 / 100 ->
    Rabs (l2_fixed_float mu l s e - l2_cost_fixed_R (prefix l) (prefix (sq l)) mu s e)
      <= (204 / 100 * INR e + 6) * u
         * (sumR (map (fun x => x * x) (firstn e l))
            + 2 * Rabs mu * sumR (map Rabs (firstn e l))
            + INR (e - s) * mu ^ 2).
  Proof.
    intros Hse Hu Hsmall.
    pose proof (l2_fixed_float_error_sharp mu l s e Hse) as H.
    pose proof (consts2_small e Hu Hsmall) as H4.
    pose proof (consts2_mono e 3 4 ltac:(lia)) as H34.
    pose proof (consts2_pow_small e 3 ltac:(lia) Hu Hsmall) as H3.
    pose proof (sumR_map_nonneg (fun x => x * x) (firstn e l) sqr_nonneg) as HM2.
    pose proof (sumR_abs_nonneg (firstn e l)) as HM1.
    pose proof (Rabs_pos mu) as Hmu.
    assert (HT : 0 <= 2 * Rabs mu * sumR (map Rabs (firstn e l))).
    { apply Rmult_le_pos; [lra|exact HM1]. }
    assert (HW : 0 <= INR (e - s) * mu ^ 2).
    { apply Rmult_le_pos; [apply pos_INR|apply pow2_ge_0]. }
    set (M2 := sumR (map (fun x => x * x) (firstn e l))) in *.
    set (TM := 2 * Rabs mu * sumR (map Rabs (firstn e l))) in *.
    set (W := INR (e - s) * mu ^ 2) in *.
    set (K := (204 / 100 * INR e + 6) * u) in *.
    assert (Ha : ((1 + hh u e) * (1 + u) ^ 3 - 1) * M2 <= K * M2)
      by (apply Rmult_le_compat_r; lra).
    assert (Hb : ((1 + hh u e) * (1 + u) ^ 4 - 1) * TM <= K * TM)
      by (apply Rmult_le_compat_r; lra).
    assert (Hc : ((1 + u) ^ 3 - 1) * W <= K * W)
      by (apply Rmult_le_compat_r; lra).
    lra.
  Qed.

  (* ----------------------------------------------------------------------- *)
  (** ** B2. The CUSUM score                                                   *)
  (* ----------------------------------------------------------------------- *)

  (** the square root of a perturbed non-negative real *)
  Lemma sqrt_rel_err z Z :
    u <= 1 -> 0 <= Z -> Rabs (z - Z) <= u * Z -> Rabs (sqrt z - sqrt Z) <= u * sqrt Z.
  Proof.
    intros Hu HZ Hz.
    destruct (Rle_lt_or_eq_dec 0 Z HZ) as [Hpos|Hzero].
    - assert (Hz0 : 0 <= z).
      { apply Rabs_le_both in Hz. assert (u * Z <= 1 * Z) by (apply Rmult_le_compat_r; lra). lra. }
      pose proof (sqrt_sqrt z Hz0) as Hsz. pose proof (sqrt_sqrt Z HZ) as HsZ.
      pose proof (sqrt_pos z) as Hsz0. pose proof (sqrt_lt_R0 Z Hpos) as HsZ0.
      set (a := sqrt z) in *. set (b := sqrt Z) in *.
      assert (Hprod : Rabs (a - b) * (a + b) <= u * b * b).
      { rewrite <- (Rabs_pos_eq (a + b)) at 1 by lra. rewrite <- Rabs_mult.
        replace ((a - b) * (a + b)) with (z - Z) by (rewrite <- Hsz, <- HsZ; ring).
        rewrite <- HsZ in Hz at 2. lra. }
      pose proof (Rabs_pos (a - b)) as HD. set (D := Rabs (a - b)) in *.
      destruct (Rle_lt_dec D (u * b)) as [Hok|Hbad]; [exact Hok|exfalso].
      assert (H1 : u * b * b < D * b) by (apply Rmult_lt_compat_r; assumption).
      assert (H2 : 0 <= D * a) by (apply Rmult_le_pos; assumption).
      lra.
    - subst Z. rewrite Rmult_0_r in Hz.
      assert (Hz0 : z = 0).
      { apply Rabs_le_both in Hz. lra. }
      subst z. replace (sqrt 0 - sqrt 0) with 0 by ring. rewrite Rabs_R0, sqrt_0. lra.
  Qed.

  (** a weight fl (sqrt (fl Z)) against sqrt Z *)
  Lemma weight_err Z :
    u <= 1 -> 0 <= Z ->
    Rabs (rnd (sqrt (rnd Z)) - sqrt Z) <= ((1 + u) * (1 + u) - 1) * sqrt Z
    /\ Rabs (sqrt Z) <= sqrt Z.
  Proof.
    intros Hu HZ.
    pose proof (rnd_rel Z) as Hr. rewrite (Rabs_pos_eq Z HZ) in Hr.
    pose proof (sqrt_rel_err (rnd Z) Z Hu HZ Hr) as Hs.
    assert (HS : Rabs (sqrt Z) <= sqrt Z) by (rewrite (Rabs_pos_eq _ (sqrt_pos Z)); lra).
    split; [|exact HS].
    exact (rnd_rel_err rnd u u_nonneg rnd_rel (sqrt (rnd Z)) (sqrt Z) u (sqrt Z) Hs HS).
  Qed.

  Lemma hh_mono k e : (k <= e)%nat -> hh u k <= hh u e.
  Proof.
    intros Hke. pose proof (g_mono u u_nonneg k e Hke) as Hg.
    pose proof (g_nonneg u u_nonneg k) as Hk. unfold hh. nra.
  Qed.

  (** the exact weights *)
  Definition cusum_bw (s k e : nat) : R := sqrt (INR (e - k) / INR ((e - s) * (k - s))).
  Definition cusum_aw (s k e : nat) : R := sqrt (INR (k - s) / INR ((e - s) * (e - k))).

  (** through the normal form [cusum_form] of Proofs/ScoreKernels.v, which does not depend on how the generated kernel writes the total length *)
  Lemma cusum_score_R_weights S1 s k e : (s < k)%nat -> (k < e)%nat ->
    cusum_score_R S1 s k e
    = Rabs (cusum_bw s k e * (S1 k - S1 s) - cusum_aw s k e * (S1 e - S1 k)).
  Proof.
    intros Hsk Hke. rewrite (ScoreKernels.cusum_form S1 s k e Hsk Hke). unfold cusum_bw, cusum_aw.
    rewrite !mult_INR. rewrite (ScoreKernels.len_split s k e) by lia. reflexivity.
  Qed.

  (** the score, in exactly the operation order of [cusum_F]; every operation rounded
      (the integer products (e - s) * (k - s), (e - s) * (e - k) are exact; [abs] is exact) *)
  Definition cusum_float (l : list R) (s k e : nat) : R :=
    let bw := rnd (sqrt (rnd (INR (e - k) / INR ((e - s) * (k - s))))) in
    let aw := rnd (sqrt (rnd (INR (k - s) / INR ((e - s) * (e - k))))) in
    let before := rnd (fprefix rnd l k - fprefix rnd l s) in
    let after := rnd (fprefix rnd l e - fprefix rnd l k) in
    Rabs (rnd (rnd (bw * before) - rnd (aw * after))).

  Lemma ratio_nonneg (a b : nat) : (0 < b)%nat -> 0 <= INR a / INR b.
  Proof.
    intros Hb. apply Rmult_le_pos; [apply pos_INR|].
    left. apply Rinv_0_lt_compat. apply lt_0_INR. exact Hb.
  Qed.

  (** B2, sharp form: relative error (1+u)^5 (2 (1+u)^e - 1) - 1 on (bw + aw) * (sum of |x_i|
      over the prefix 0 .. e-1) *)
  Theorem cusum_float_error_sharp l s k e :
    (s < k)%nat -> (k < e)%nat -> u <= 1 ->
    Rabs (cusum_float l s k e - cusum_score_R (prefix l) s k e)
      <= ((1 + hh u e) * (1 + u) ^ 4 - 1)
         * (cusum_bw s k e * sumR (map Rabs (firstn e l))
            + cusum_aw s k e * sumR (map Rabs (firstn e l))).
  Proof.
    intros Hsk Hke Hu.
    assert (Hsk' : (s <= k)%nat) by lia. assert (Hke' : (k <= e)%nat) by lia.
    rewrite (cusum_score_R_weights _ s k e Hsk Hke).
    rewrite (prefix_diff l s k Hsk'), (prefix_diff l k e Hke').
    set (Bf := sumR (slice s k l)). set (Af := sumR (slice k e l)).
    set (M1 := sumR (map Rabs (firstn e l))).
    pose proof (hh_nonneg u u_nonneg e) as Hh.
    pose proof (sumR_abs_nonneg (firstn e l)) as HM1. fold M1 in HM1.
    (* before *)
    assert (Hbf : Rabs (rnd (fprefix rnd l k - fprefix rnd l s) - Bf) <= hh u e * M1).
    { pose proof (fdiff_error_sharp rnd u u_nonneg rnd_rel l s k Hsk') as H. fold Bf in H.
      pose proof (hh_mono k e Hke') as Hm. pose proof (hh_nonneg u u_nonneg k) as Hk0.
      pose proof (sumR_firstn_mono Rabs k e l Rabs_pos Hke') as HM. fold M1 in HM.
      pose proof (sumR_abs_nonneg (firstn k l)) as HMk.
      assert (hh u k * sumR (map Rabs (firstn k l)) <= hh u e * M1)
        by (apply Rmult_le_compat; assumption).
      lra. }
    assert (HBf : Rabs Bf <= M1).
    { pose proof (sumR_abs_le (slice s k l)) as H1.
      pose proof (sumR_slice_le_prefix Rabs s k l Rabs_pos Hsk') as H2.
      pose proof (sumR_firstn_mono Rabs k e l Rabs_pos Hke') as H3.
      unfold Bf, M1. lra. }
    (* after *)
    pose proof (fdiff_error_sharp rnd u u_nonneg rnd_rel l k e Hke') as Haf. fold Af M1 in Haf.
    assert (HAf : Rabs Af <= M1).
    { pose proof (sumR_abs_le (slice k e l)) as H1.
      pose proof (sumR_slice_le_prefix Rabs k e l Rabs_pos Hke') as H2.
      unfold Af, M1. lra. }
    (* the weights *)
    assert (HZb : 0 <= INR (e - k) / INR ((e - s) * (k - s))) by (apply ratio_nonneg; nia).
    assert (HZa : 0 <= INR (k - s) / INR ((e - s) * (e - k))) by (apply ratio_nonneg; nia).
    destruct (weight_err _ Hu HZb) as [Hbw HBW].
    destruct (weight_err _ Hu HZa) as [Haw HAW].
    unfold cusum_float. fold (cusum_bw s k e) in Hbw, HBW. fold (cusum_aw s k e) in Haw, HAW.
    set (BW := cusum_bw s k e) in *. set (AW := cusum_aw s k e) in *.
    set (bw := rnd (sqrt (rnd (INR (e - k) / INR ((e - s) * (k - s)))))) in *.
    set (aw := rnd (sqrt (rnd (INR (k - s) / INR ((e - s) * (e - k)))))) in *.
    set (bf := rnd (fprefix rnd l k - fprefix rnd l s)) in *.
    set (af := rnd (fprefix rnd l e - fprefix rnd l k)) in *.
    assert (Hew : 0 <= (1 + u) * (1 + u) - 1) by nra.
    set (ew := (1 + u) * (1 + u) - 1) in *.
    (* the two products *)
    destruct (rnd_mul_err bw BW bf Bf ew (hh u e) BW M1 Hew Hh Hbw HBW Hbf HBf) as [Hpb HPB].
    destruct (rnd_mul_err aw AW af Af ew (hh u e) AW M1 Hew Hh Haw HAW Haf HAf) as [Hpa HPA].
    set (pb := rnd (bw * bf)) in *. set (pa := rnd (aw * af)) in *.
    set (ep := (1 + ew) * (1 + hh u e) * (1 + u) - 1) in *.
    (* the subtraction *)
    assert (HE : Rabs ((pb - pa) - (BW * Bf - AW * Af)) <= ep * (BW * M1 + AW * M1)).
    { apply Rabs_le_both in Hpb. apply Rabs_le_both in Hpa. apply Rabs_le_of. lra. }
    assert (HM : Rabs (BW * Bf - AW * Af) <= BW * M1 + AW * M1).
    { apply Rabs_le_both in HPB. apply Rabs_le_both in HPA. apply Rabs_le_of. lra. }
    pose proof (rnd_rel_err rnd u u_nonneg rnd_rel (pb - pa) (BW * Bf - AW * Af) _ _ HE HM) as Hfin.
    pose proof (Rabs_triang_inv2 (rnd (pb - pa)) (BW * Bf - AW * Af)) as Habs.
    replace ((1 + hh u e) * (1 + u) ^ 4 - 1) with ((1 + ep) * (1 + u) - 1)
      by (unfold ep, ew; ring).
    lra.
  Qed.

  (** B2 (abstract): K = 2.04 e + 6 *)
  Theorem cusum_float_error l s k e :
    (s < k)%nat -> (k < e)%nat -> u <= 1 / 100 -> INR e * u <= 1 / 100 ->
    Rabs (cusum_float l s k e - cusum_score_R (prefix l) s k e)
      <= (204 / 100 * INR e + 6) * u
         * (cusum_bw s k e * sumR (map Rabs (firstn e l))
            + cusum_aw s k e * sumR (map Rabs (firstn e l))).
  Proof.
    intros Hsk Hke Hu Hsmall.
    pose proof (cusum_float_error_sharp l s k e Hsk Hke ltac:(lra)) as H.
    pose proof (consts2_small e Hu Hsmall) as H4.
    pose proof (sumR_abs_nonneg (firstn e l)) as HM1.
    assert (HS : 0 <= cusum_bw s k e * sumR (map Rabs (firstn e l))
                      + cusum_aw s k e * sumR (map Rabs (firstn e l))).
    { apply Rplus_le_le_0_compat; (apply Rmult_le_pos; [apply sqrt_pos|exact HM1]). }
    set (S := cusum_bw s k e * sumR (map Rabs (firstn e l))
              + cusum_aw s k e * sumR (map Rabs (firstn e l))) in *.
    assert (((1 + hh u e) * (1 + u) ^ 4 - 1) * S <= (204 / 100 * INR e + 6) * u * S)
      by (apply Rmult_le_compat_r; assumption).
    lra.
  Qed.

End Abstract2.

(* ------------------------------------------------------------------------- *)
(** * The Flocq instance (FLX, precision 53)                                   *)
(* ------------------------------------------------------------------------- *)

Lemma u53_le_hundredth : u53 <= 1 / 100.
Proof. rewrite u53_value. lra. Qed.

Definition l2_fixed_float53 : R -> list R -> nat -> nat -> R := l2_fixed_float rnd53.
Definition cusum_float53 : list R -> nat -> nat -> nat -> R := cusum_float rnd53.

(** the definitions, spelled out *)
Lemma l2_fixed_float53_unfold mu l s e :
  l2_fixed_float53 mu l s e =
    let S1 := fprefix53 l in
    let S2 := fprefix53 (map (fun x => rnd53 (x * x)) l) in
    let a := rnd53 (S1 e - S1 s) in
    let b := rnd53 (S2 e - S2 s) in
    rnd53 (rnd53 (b - rnd53 (rnd53 (2 * mu) * a)) + rnd53 (INR (e - s) * rnd53 (mu * mu))).
Proof. reflexivity. Qed.

Lemma cusum_float53_unfold l s k e :
  cusum_float53 l s k e =
    let S1 := fprefix53 l in
    let bw := rnd53 (sqrt (rnd53 (INR (e - k) / INR ((e - s) * (k - s))))) in
    let aw := rnd53 (sqrt (rnd53 (INR (k - s) / INR ((e - s) * (e - k))))) in
    let before := rnd53 (S1 k - S1 s) in
    let after := rnd53 (S1 e - S1 k) in
    Rabs (rnd53 (rnd53 (bw * before) - rnd53 (aw * after))).
Proof. reflexivity. Qed.

(** the scale of the tolerance of the fixed-mean cost *)
Definition l2_fixed_scale (mu : R) (l : list R) (s e : nat) : R :=
  sumR (map (fun x => x * x) (firstn e l)) + 2 * Rabs mu * sumR (map Rabs (firstn e l))
  + INR (e - s) * mu ^ 2.

(** A1: K = 2.04 e + 6 *)
Theorem l2_fixed_float53_error mu l s e :
  (s <= e)%nat -> INR e * u53 <= 1 / 100 ->
  Rabs (l2_fixed_float53 mu l s e - l2_cost_fixed_R (prefix l) (prefix (sq l)) mu s e)
    <= (204 / 100 * INR e + 6) * u53 * l2_fixed_scale mu l s e.
Proof.
  intros Hse Hsmall.
  exact (l2_fixed_float_error rnd53 u53 u53_nonneg rnd53_rel mu l s e Hse u53_le_hundredth Hsmall).
Qed.

(** A1 against the statistic itself ([l2_fixed_is_sse], Proofs/CostKernels.v) *)
Corollary l2_fixed_float53_vs_sse mu l s e :
  (s <= e <= length l)%nat -> INR e * u53 <= 1 / 100 ->
  Rabs (l2_fixed_float53 mu l s e - sse mu (slice s e l))
    <= (204 / 100 * INR e + 6) * u53 * l2_fixed_scale mu l s e.
Proof.
  intros Hse Hsmall. rewrite <- (l2_fixed_is_sse l s e Hse mu).
  apply l2_fixed_float53_error; [lia|exact Hsmall].
Qed.

(** the tests' tolerance shape: at most two million samples in the prefix *)
Corollary l2_fixed_float53_tolerance mu l s e :
  (s <= e <= length l)%nat -> INR e <= 2000000 ->
  Rabs (l2_fixed_float53 mu l s e - sse mu (slice s e l))
    <= 1 / 1000000000 * l2_fixed_scale mu l s e.
Proof.
  intros Hse HeR. pose proof (pos_INR e) as He0.
  assert (Hsmall : INR e * u53 <= 1 / 100) by (rewrite u53_value; lra).
  pose proof (l2_fixed_float53_vs_sse mu l s e Hse Hsmall) as H.
  assert (HS : 0 <= l2_fixed_scale mu l s e).
  { unfold l2_fixed_scale.
    pose proof (sumR_map_nonneg (fun x => x * x) (firstn e l) sqr_nonneg) as HM2.
    pose proof (sumR_abs_nonneg (firstn e l)) as HM1. pose proof (Rabs_pos mu) as Hmu.
    assert (0 <= 2 * Rabs mu * sumR (map Rabs (firstn e l))) by (apply Rmult_le_pos; lra).
    assert (0 <= INR (e - s) * mu ^ 2) by (apply Rmult_le_pos; [apply pos_INR|apply pow2_ge_0]).
    lra. }
  assert (HK : (204 / 100 * INR e + 6) * u53 <= 1 / 1000000000) by (rewrite u53_value; lra).
  assert ((204 / 100 * INR e + 6) * u53 * l2_fixed_scale mu l s e
          <= 1 / 1000000000 * l2_fixed_scale mu l s e)
    by (apply Rmult_le_compat_r; assumption).
  lra.
Qed.

(** B2: K = 2.04 e + 6 *)
Theorem cusum_float53_error l s k e :
  (s < k)%nat -> (k < e)%nat -> INR e * u53 <= 1 / 100 ->
  Rabs (cusum_float53 l s k e - cusum_score_R (prefix l) s k e)
    <= (204 / 100 * INR e + 6) * u53
       * (cusum_bw s k e * sumR (map Rabs (firstn e l))
          + cusum_aw s k e * sumR (map Rabs (firstn e l))).
Proof.
  intros Hsk Hke Hsmall.
  exact (cusum_float_error rnd53 u53 u53_nonneg rnd53_rel l s k e Hsk Hke u53_le_hundredth Hsmall).
Qed.

(* ------------------------------------------------------------------------- *)
(** * A2. The primitive-float program [l2_cost_fixed_F] refines the model      *)
(* ------------------------------------------------------------------------- *)

Lemma FR_two : FR 2%float = 2.
Proof.
  replace 2%float with (of_natF 2) by (vm_compute; reflexivity).
  rewrite FR_of_natF by reflexivity. cbn [INR]. ring.
Qed.

Lemma okP_fin x y r : okP x y r = true -> finF r = true.
Proof. unfold okP. intros H. apply andb_true_iff in H. exact (proj1 H). Qed.

Lemma okD_fin x r : okD x r = true -> finF r = true.
Proof. unfold okD. intros H. apply andb_true_iff in H. exact (proj1 H). Qed.

(** [l2_fixed_trace_ok mu l s e] re-runs the computation of [l2_cost_fixed_F mu l s e] and
    tests every intermediate value:
      - s <= e <= length l and e - s <= 2^30;
      - the inputs x_0 .. x_{e-1} are finite;
      - every square x_i * x_i (i < e) is finite, and x_i is zero or the square is above
        2^-1022 in magnitude;
      - every partial sum of both accumulations up to e is finite;
      - the differences a = S1[e] - S1[s], b = S2[e] - S2[s] are finite;
      - t = 2 * mu is finite and (mu is zero or |t| > 2^-1022);
      - c = t * a is finite and (t or a is zero or |c| > 2^-1022);
      - d = b - c is finite;
      - m = mu * mu is finite and (mu is zero or |m| > 2^-1022);
      - w = n * m is finite and (n or m is zero or |w| > 2^-1022);
      - the result d + w is finite.
    (A finite t forces a finite mu, so mu needs no test of its own.) *)
Definition l2_fixed_trace_ok (mu : pfloat) (l : list pfloat) (s e : nat) : bool :=
  let a := (prefixF l e - prefixF l s)%float in
  let b := (prefixF (sqF l) e - prefixF (sqF l) s)%float in
  let t := (2 * mu)%float in
  let c := (t * a)%float in
  let d := (b - c)%float in
  let m := (mu * mu)%float in
  let w := (of_natF (e - s) * m)%float in
  (s <=? e)%nat && (e <=? length l)%nat && (Z.of_nat (e - s) <=? 2 ^ 30)%Z
  && forallb finF (firstn e l)
  && forallb sq_ok (firstn e l)
  && acc_ok 0%float (firstn e l)
  && acc_ok 0%float (firstn e (sqF l))
  && finF a && finF b && okP 2%float mu t && okP t a c && finF d
  && okP mu mu m && okP (of_natF (e - s)) m w && finF (d + w).

Record l2_fixed_trace_spec (mu : pfloat) (l : list pfloat) (s e : nat) : Prop := {
  tf_le : (s <= e)%nat;
  tf_len : (e <= length l)%nat;
  tf_n : (Z.of_nat (e - s) <= 2 ^ 30)%Z;
  tf_fin : forallb finF (firstn e l) = true;
  tf_sq : forallb sq_ok (firstn e l) = true;
  tf_acc1 : acc_ok 0%float (firstn e l) = true;
  tf_acc2 : acc_ok 0%float (firstn e (sqF l)) = true;
  tf_a : finF (prefixF l e - prefixF l s) = true;
  tf_b : finF (prefixF (sqF l) e - prefixF (sqF l) s) = true;
  tf_t : okP 2%float mu (2 * mu) = true;
  tf_c : let a := (prefixF l e - prefixF l s)%float in okP (2 * mu) a ((2 * mu) * a) = true;
  tf_d : let a := (prefixF l e - prefixF l s)%float in
         let b := (prefixF (sqF l) e - prefixF (sqF l) s)%float in
         finF (b - (2 * mu) * a) = true;
  tf_m : okP mu mu (mu * mu) = true;
  tf_w : okP (of_natF (e - s)) (mu * mu) (of_natF (e - s) * (mu * mu)) = true;
  tf_r : let a := (prefixF l e - prefixF l s)%float in
         let b := (prefixF (sqF l) e - prefixF (sqF l) s)%float in
         finF ((b - (2 * mu) * a) + of_natF (e - s) * (mu * mu)) = true
}.

Lemma l2_fixed_trace_ok_spec mu l s e :
  l2_fixed_trace_ok mu l s e = true -> l2_fixed_trace_spec mu l s e.
Proof.
  unfold l2_fixed_trace_ok. cbv zeta. intros H.
  repeat (apply andb_true_iff in H; let H' := fresh "H" in destruct H as [H H']).
  constructor; cbv zeta; try assumption.
  - apply Nat.leb_le. assumption.
  - apply Nat.leb_le. assumption.
  - apply Z.leb_le. assumption.
Qed.

Theorem l2_cost_fixed_F_refines mu l s e :
  l2_fixed_trace_ok mu l s e = true ->
  FR (l2_cost_fixed_F mu l s e) = l2_fixed_float53 (FR mu) (map FR l) s e.
Proof.
  intros Hok. apply l2_fixed_trace_ok_spec in Hok.
  destruct Hok as [Hse Hlen Hn Hfin Hsq Hacc1 Hacc2 Ha Hb Ht Hc Hd Hm Hw Hr].
  cbv zeta in Hc, Hd, Hr.
  destruct (prefixF_refines l e e (le_n e) Hfin Hacc1) as [F1e R1e].
  destruct (prefixF_refines l e s Hse Hfin Hacc1) as [F1s R1s].
  destruct (prefixF_sq_refines l e e (le_n e) Hsq Hacc2) as [F2e R2e].
  destruct (prefixF_sq_refines l e s Hse Hsq Hacc2) as [F2s R2s].
  assert (Hn53 : (Z.of_nat (e - s) < 2 ^ 53)%Z).
  { apply Z.le_lt_trans with (1 := Hn). reflexivity. }
  unfold l2_cost_fixed_F. cbv zeta. fold (sqF l).
  set (a := (prefixF l e - prefixF l s)%float) in *.
  set (b := (prefixF (sqF l) e - prefixF (sqF l) s)%float) in *.
  set (t := (2 * mu)%float) in *.
  set (c := (t * a)%float) in *.
  set (d := (b - c)%float) in *.
  set (m := (mu * mu)%float) in *.
  set (w := (of_natF (e - s) * m)%float) in *.
  assert (Ra : FR a = rnd53 (fprefix53 (map FR l) e - fprefix53 (map FR l) s)).
  { unfold a. rewrite (FR_sub53 _ _ F1e F1s Ha), R1e, R1s. reflexivity. }
  assert (Rb : FR b = rnd53 (fprefix53 (fsq rnd53 (map FR l)) e - fprefix53 (fsq rnd53 (map FR l)) s)).
  { unfold b. rewrite (FR_sub53 _ _ F2e F2s Hb), R2e, R2s. reflexivity. }
  assert (Rt : FR t = rnd53 (2 * FR mu)).
  { unfold t. rewrite (FR_mul53 _ _ Ht), FR_two. reflexivity. }
  assert (Rc : FR c = rnd53 (FR t * FR a)).
  { unfold c. exact (FR_mul53 t a Hc). }
  assert (Rd : FR d = rnd53 (FR b - FR c)).
  { unfold d. exact (FR_sub53 b c Hb (okP_fin _ _ _ Hc) Hd). }
  assert (Rm : FR m = rnd53 (FR mu * FR mu)).
  { unfold m. exact (FR_mul53 mu mu Hm). }
  assert (Rw : FR w = rnd53 (INR (e - s) * FR m)).
  { unfold w. rewrite (FR_mul53 _ _ Hw), (FR_of_natF _ Hn53). reflexivity. }
  rewrite (FR_add53 d w Hd (okP_fin _ _ _ Hw) Hr), Rd, Rw, Rc, Rm, Rt, Rb, Ra.
  reflexivity.
Qed.

Lemma l2_fixed_trace_ok_bounds mu l s e :
  l2_fixed_trace_ok mu l s e = true -> (s <= e <= length l)%nat.
Proof.
  intros Hok. apply l2_fixed_trace_ok_spec in Hok. destruct Hok. lia.
Qed.

(** the computed number against the sum of squared errors around the given mean *)
Theorem l2_cost_fixed_F_vs_sse mu l s e :
  l2_fixed_trace_ok mu l s e = true -> INR e * u53 <= 1 / 100 ->
  Rabs (FR (l2_cost_fixed_F mu l s e) - sse (FR mu) (slice s e (map FR l)))
    <= (204 / 100 * INR e + 6) * u53 * l2_fixed_scale (FR mu) (map FR l) s e.
Proof.
  intros Hok Hsmall. rewrite (l2_cost_fixed_F_refines mu l s e Hok).
  apply l2_fixed_float53_vs_sse; [|exact Hsmall].
  rewrite map_length. exact (l2_fixed_trace_ok_bounds mu l s e Hok).
Qed.

(** the same against the real-number kernel on exact prefix sums *)
Theorem l2_cost_fixed_F_vs_fixed_R mu l s e :
  l2_fixed_trace_ok mu l s e = true -> INR e * u53 <= 1 / 100 ->
  Rabs (FR (l2_cost_fixed_F mu l s e)
        - l2_cost_fixed_R (prefix (map FR l)) (prefix (sq (map FR l))) (FR mu) s e)
    <= (204 / 100 * INR e + 6) * u53 * l2_fixed_scale (FR mu) (map FR l) s e.
Proof.
  intros Hok Hsmall. rewrite (l2_cost_fixed_F_refines mu l s e Hok).
  apply l2_fixed_float53_error; [|exact Hsmall].
  exact (proj1 (l2_fixed_trace_ok_bounds mu l s e Hok)).
Qed.

(** the tests' tolerance shape: at most two million samples in the prefix *)
Corollary l2_cost_fixed_F_tolerance mu l s e :
  l2_fixed_trace_ok mu l s e = true -> INR e <= 2000000 ->
  Rabs (FR (l2_cost_fixed_F mu l s e) - sse (FR mu) (slice s e (map FR l)))
    <= 1 / 1000000000 * l2_fixed_scale (FR mu) (map FR l) s e.
Proof.
  intros Hok He. rewrite (l2_cost_fixed_F_refines mu l s e Hok).
  apply l2_fixed_float53_tolerance; [|exact He].
  rewrite map_length. exact (l2_fixed_trace_ok_bounds mu l s e Hok).
Qed.

(** non-vacuity *)
Example demo_fixed_trace_ok : l2_fixed_trace_ok 2.5%float demo_xs 1 7 = true.
Proof. vm_compute. reflexivity. Qed.

Example demo_fixed_trace_ok_zero_mean : l2_fixed_trace_ok 0%float demo_xs 0 8 = true.
Proof. vm_compute. reflexivity. Qed.

Example demo_fixed_trace_ok_empty : l2_fixed_trace_ok 2.5%float demo_xs 3 3 = true.
Proof. vm_compute. reflexivity. Qed.

(** rejected: an overflowing n * mu^2 and an underflowing mu^2 *)
Example demo_fixed_trace_overflow : l2_fixed_trace_ok 0x1p600%float demo_xs 1 7 = false.
Proof. vm_compute. reflexivity. Qed.

Example demo_fixed_trace_underflow : l2_fixed_trace_ok 0x1p-600%float demo_xs 1 7 = false.
Proof. vm_compute. reflexivity. Qed.

Example demo_fixed_refines :
  FR (l2_cost_fixed_F 2.5%float demo_xs 1 7) = l2_fixed_float53 (FR 2.5%float) (map FR demo_xs) 1 7.
Proof. apply l2_cost_fixed_F_refines. exact demo_fixed_trace_ok. Qed.

(* ------------------------------------------------------------------------- *)
(** * B3. The primitive-float program [cusum_F] refines the model              *)
(* ------------------------------------------------------------------------- *)

(** square root: the first conjunct of Flocq's [Bsqrt_correct] is unconditional
    (a negative or NaN argument gives NaN, of real value 0 = sqrt of a negative real) *)
Theorem FR_sqrt x : FR (PrimFloat.sqrt x) = rnd_binary64 (sqrt (FR x)).
Proof.
  unfold FR. rewrite FP.sqrt_equiv.
  exact (proj1 (Bsqrt_correct prec emax FP.Hprec FP.Hmax mode_NE (FP.Prim2B x))).
Qed.

(** in the FLX model: the argument is zero or the computed root is finite and strictly
    above 2^-1022 (the test [okD], as for a quotient) *)
Theorem FR_sqrt53 x :
  okD x (PrimFloat.sqrt x) = true -> FR (PrimFloat.sqrt x) = rnd53 (sqrt (FR x)).
Proof.
  intros H. unfold okD in H. apply andb_true_iff in H. destruct H as [Hf Hc].
  rewrite (FR_sqrt x). apply rnd_binary64_is_rnd53.
  apply orb_true_iff in Hc. destruct Hc as [Hz|Hb].
  - left. rewrite (is_zero_FR _ Hz). apply sqrt_0.
  - right. apply rnd_binary64_big. rewrite <- (FR_sqrt x). exact (bigF_FR _ Hf Hb).
Qed.

(** absolute value: exact *)
Theorem FR_abs x : FR (PrimFloat.abs x) = Rabs (FR x).
Proof. unfold FR. rewrite FP.abs_equiv. apply B2R_Babs. Qed.

(** the converted integer product of two lengths *)
Lemma of_prodF_of_natF a b : of_prodF a b = of_natF (a * b).
Proof. unfold of_prodF, of_ZF, of_natF. rewrite Nat2Z.inj_mul. reflexivity. Qed.

Lemma FR_of_prodF a b : (Z.of_nat (a * b) < 2 ^ 53)%Z -> FR (of_prodF a b) = INR (a * b).
Proof. intros H. rewrite of_prodF_of_natF. exact (FR_of_natF _ H). Qed.

(** [cusum_trace_ok l s k e] re-runs the computation of [cusum_F l s k e] and tests every
    intermediate value:
      - s < k < e <= length l and (e - s)^2 <= 2^52 (so both integer products convert exactly);
      - the inputs x_0 .. x_{e-1} are finite and every partial sum up to e is finite;
      - the differences before = S1[k] - S1[s], after = S1[e] - S1[k] are finite;
      - the two quotients zb = na / (n nb), za = nb / (n na) are finite and above 2^-1022;
      - the two roots bw = sqrt zb, aw = sqrt za are finite and above 2^-1022;
      - the products bw * before, aw * after are finite and (a factor is zero or the product
        is above 2^-1022 in magnitude);
      - their difference is finite. *)
Definition cusum_trace_ok (l : list pfloat) (s k e : nat) : bool :=
  let nb := of_natF (k - s) in
  let na := of_natF (e - k) in
  let zb := (na / of_prodF (e - s) (k - s))%float in
  let za := (nb / of_prodF (e - s) (e - k))%float in
  let bw := PrimFloat.sqrt zb in
  let aw := PrimFloat.sqrt za in
  let bf := (prefixF l k - prefixF l s)%float in
  let af := (prefixF l e - prefixF l k)%float in
  let pb := (bw * bf)%float in
  let pa := (aw * af)%float in
  (s <? k)%nat && (k <? e)%nat && (e <=? length l)%nat
  && (Z.of_nat (e - s) * Z.of_nat (e - s) <=? 2 ^ 52)%Z
  && forallb finF (firstn e l)
  && acc_ok 0%float (firstn e l)
  && finF bf && finF af
  && okD na zb && okD nb za && okD zb bw && okD za aw
  && okP bw bf pb && okP aw af pa && finF (pb - pa).

Record cusum_trace_spec (l : list pfloat) (s k e : nat) : Prop := {
  tc_sk : (s < k)%nat;
  tc_ke : (k < e)%nat;
  tc_len : (e <= length l)%nat;
  tc_n : (Z.of_nat (e - s) * Z.of_nat (e - s) <= 2 ^ 52)%Z;
  tc_fin : forallb finF (firstn e l) = true;
  tc_acc : acc_ok 0%float (firstn e l) = true;
  tc_bf : finF (prefixF l k - prefixF l s) = true;
  tc_af : finF (prefixF l e - prefixF l k) = true;
  tc_zb : okD (of_natF (e - k)) (of_natF (e - k) / of_prodF (e - s) (k - s)) = true;
  tc_za : okD (of_natF (k - s)) (of_natF (k - s) / of_prodF (e - s) (e - k)) = true;
  tc_bw : okD (of_natF (e - k) / of_prodF (e - s) (k - s)) (cusum_bwF s k e) = true;
  tc_aw : okD (of_natF (k - s) / of_prodF (e - s) (e - k)) (cusum_awF s k e) = true;
  tc_pb : let bf := (prefixF l k - prefixF l s)%float in
          okP (cusum_bwF s k e) bf (cusum_bwF s k e * bf) = true;
  tc_pa : let af := (prefixF l e - prefixF l k)%float in
          okP (cusum_awF s k e) af (cusum_awF s k e * af) = true;
  tc_r : let bf := (prefixF l k - prefixF l s)%float in
         let af := (prefixF l e - prefixF l k)%float in
         finF (cusum_bwF s k e * bf - cusum_awF s k e * af) = true
}.

Lemma cusum_trace_ok_spec l s k e : cusum_trace_ok l s k e = true -> cusum_trace_spec l s k e.
Proof.
  unfold cusum_trace_ok. cbv zeta. intros H.
  repeat (apply andb_true_iff in H; let H' := fresh "H" in destruct H as [H H']).
  constructor; cbv zeta; unfold cusum_bwF, cusum_awF; try assumption.
  - apply Nat.ltb_lt. assumption.
  - apply Nat.ltb_lt. assumption.
  - apply Nat.leb_le. assumption.
  - apply Z.leb_le. assumption.
Qed.

Theorem cusum_F_refines l s k e :
  cusum_trace_ok l s k e = true ->
  FR (cusum_F l s k e) = cusum_float53 (map FR l) s k e.
Proof.
  intros Hok. apply cusum_trace_ok_spec in Hok.
  destruct Hok as [Hsk Hke Hlen Hn Hfin Hacc Hbf Haf Hzb Hza Hbw Haw Hpb Hpa Hr].
  cbv zeta in Hpb, Hpa, Hr.
  assert (Hsk' : (s <= k)%nat) by lia. assert (Hke' : (k <= e)%nat) by lia.
  assert (Hse' : (s <= e)%nat) by lia.
  destruct (prefixF_refines l e e (le_n e) Hfin Hacc) as [F1e R1e].
  destruct (prefixF_refines l e k Hke' Hfin Hacc) as [F1k R1k].
  destruct (prefixF_refines l e s Hse' Hfin Hacc) as [F1s R1s].
  (* the integers *)
  assert (Hnb53 : (Z.of_nat (k - s) < 2 ^ 53)%Z) by nia.
  assert (Hna53 : (Z.of_nat (e - k) < 2 ^ 53)%Z) by nia.
  assert (Hdb53 : (Z.of_nat ((e - s) * (k - s)) < 2 ^ 53)%Z) by (rewrite Nat2Z.inj_mul; nia).
  assert (Hda53 : (Z.of_nat ((e - s) * (e - k)) < 2 ^ 53)%Z) by (rewrite Nat2Z.inj_mul; nia).
  assert (Hdbnz : FR (of_prodF (e - s) (k - s)) <> 0).
  { rewrite (FR_of_prodF _ _ Hdb53). apply not_0_INR. nia. }
  assert (Hdanz : FR (of_prodF (e - s) (e - k)) <> 0).
  { rewrite (FR_of_prodF _ _ Hda53). apply not_0_INR. nia. }
  unfold cusum_F. cbv zeta.
  set (bf := (prefixF l k - prefixF l s)%float) in *.
  set (af := (prefixF l e - prefixF l k)%float) in *.
  assert (Rbf : FR bf = rnd53 (fprefix53 (map FR l) k - fprefix53 (map FR l) s)).
  { unfold bf. rewrite (FR_sub53 _ _ F1k F1s Hbf), R1k, R1s. reflexivity. }
  assert (Raf : FR af = rnd53 (fprefix53 (map FR l) e - fprefix53 (map FR l) k)).
  { unfold af. rewrite (FR_sub53 _ _ F1e F1k Haf), R1e, R1k. reflexivity. }
  assert (Rbw : FR (cusum_bwF s k e)
                = rnd53 (sqrt (rnd53 (INR (e - k) / INR ((e - s) * (k - s)))))).
  { unfold cusum_bwF in *. rewrite (FR_sqrt53 _ Hbw), (FR_div53 _ _ Hdbnz Hzb).
    rewrite (FR_of_natF _ Hna53), (FR_of_prodF _ _ Hdb53). reflexivity. }
  assert (Raw : FR (cusum_awF s k e)
                = rnd53 (sqrt (rnd53 (INR (k - s) / INR ((e - s) * (e - k)))))).
  { unfold cusum_awF in *. rewrite (FR_sqrt53 _ Haw), (FR_div53 _ _ Hdanz Hza).
    rewrite (FR_of_natF _ Hnb53), (FR_of_prodF _ _ Hda53). reflexivity. }
  set (bw := cusum_bwF s k e) in *. set (aw := cusum_awF s k e) in *.
  rewrite FR_abs.
  rewrite (FR_sub53 _ _ (okP_fin _ _ _ Hpb) (okP_fin _ _ _ Hpa) Hr).
  rewrite (FR_mul53 _ _ Hpb), (FR_mul53 _ _ Hpa), Rbw, Raw, Rbf, Raf.
  reflexivity.
Qed.

Lemma cusum_trace_ok_bounds l s k e :
  cusum_trace_ok l s k e = true -> (s < k)%nat /\ (k < e)%nat /\ (e <= length l)%nat.
Proof.
  intros Hok. apply cusum_trace_ok_spec in Hok. destruct Hok. lia.
Qed.

(** the computed score against the real-number kernel on exact prefix sums *)
Theorem cusum_F_vs_score_R l s k e :
  cusum_trace_ok l s k e = true -> INR e * u53 <= 1 / 100 ->
  Rabs (FR (cusum_F l s k e) - cusum_score_R (prefix (map FR l)) s k e)
    <= (204 / 100 * INR e + 6) * u53
       * (cusum_bw s k e * sumR (map Rabs (firstn e (map FR l)))
          + cusum_aw s k e * sumR (map Rabs (firstn e (map FR l)))).
Proof.
  intros Hok Hsmall. rewrite (cusum_F_refines l s k e Hok).
  destruct (cusum_trace_ok_bounds l s k e Hok) as [Hsk [Hke _]].
  apply cusum_float53_error; assumption.
Qed.

(** non-vacuity *)
Example demo_cusum_trace_ok : cusum_trace_ok demo_xs 1 4 7 = true.
Proof. vm_compute. reflexivity. Qed.

(** a zero segment sum is accepted (the zero clause of the product test) *)
Example demo_cusum_trace_ok_zero : cusum_trace_ok [1; -1; 2; 3]%float 0 2 4 = true.
Proof. vm_compute. reflexivity. Qed.

(** rejected: an overflowing accumulation, an underflowing product *)
Example demo_cusum_trace_overflow : cusum_trace_ok [0x1p1023; 0x1p1023; 1]%float 0 1 3 = false.
Proof. vm_compute. reflexivity. Qed.

Example demo_cusum_trace_underflow : cusum_trace_ok [0x1p-1030; 1; 2]%float 0 1 3 = false.
Proof. vm_compute. reflexivity. Qed.

Example demo_cusum_refines :
  FR (cusum_F demo_xs 1 4 7) = cusum_float53 (map FR demo_xs) 1 4 7.
Proof. apply cusum_F_refines. exact demo_cusum_trace_ok. Qed.

Print Assumptions l2_fixed_float53_error.
Print Assumptions l2_fixed_float53_vs_sse.
Print Assumptions l2_cost_fixed_F_refines.
Print Assumptions l2_cost_fixed_F_vs_sse.
Print Assumptions cusum_float53_error.
Print Assumptions FR_sqrt.
Print Assumptions cusum_F_refines.
Print Assumptions cusum_F_vs_score_R.
Print Assumptions demo_fixed_trace_ok.
Print Assumptions demo_cusum_trace_ok.
