(** Moving-window detector: properties of Model/Mw.v.
    1. the score vector,
    2. [where_runs] = exactly the maximal runs of [true], in increasing order,
    3. the changepoints: first argmax of every sufficiently long run. *)
From Coq Require Import ZArith List Lia Bool Arith Sorted.
From SK Require Import Lib.Base Model.Mw Proofs.ArgmaxLemmas.
Import ListNotations.
Open Scope Z_scope.

(** ====================================================================== *)
(** * 1. Scores *)
Theorem mw_scores_length : forall CS b n, length (mw_scores CS b n) = n.
Proof. intros. unfold mw_scores. rewrite map_length, seq_length. reflexivity. Qed.

Theorem mw_scores_nth : forall CS b n t, (t < n)%nat ->
  nthZ (mw_scores CS b n) t =
  if (b <=? t)%nat && (t + b <=? n)%nat then CS (t - b)%nat t (t + b)%nat else 0.
Proof.
  intros CS b n t H. unfold mw_scores, nthZ. rewrite nth_map_seq by exact H. reflexivity.
Qed.

(** ====================================================================== *)
(** * 2. Maximal runs *)
Section Where.
Local Open Scope nat_scope.
Variable g : nat -> bool.   (* the indicator as a function *)
Variable N : nat.           (* its length *)

Definition maxrun (a z : nat) : Prop :=
  a < z <= N /\ (forall j, a <= j < z -> g j = true) /\
  (a = 0 \/ g (a - 1) = false) /\ (z = N \/ g z = false).

Definition cur_ok (i : nat) (cur : option nat) : Prop :=
  match cur with
  | None => i = 0 \/ g (i - 1) = false
  | Some s => s < i /\ (forall j, s <= j < i -> g j = true) /\ (s = 0 \/ g (s - 1) = false)
  end.

Lemma run_start_eq : forall i s a, cur_ok i (Some s) -> maxrun a i -> s = a.
Proof.
  intros i s a (Hs & Hall & Hprev) (Hr & Hrun & Hp & Hz).
  destruct (Nat.lt_trichotomy s a) as [L | [E | L]]; [|exact E|]; exfalso.
  - destruct Hp as [Hp | Hp]; [lia|]. rewrite Hall in Hp by lia. discriminate.
  - destruct Hprev as [Hprev | Hprev]; [lia|]. rewrite Hrun in Hprev by lia. discriminate.
Qed.

Lemma run_none_absurd : forall i a, cur_ok i None -> maxrun a i -> False.
Proof.
  intros i a Hcur (Hr & Hrun & Hp & Hz). destruct Hcur as [H0 | Hf]; [lia|].
  rewrite Hrun in Hf by lia. discriminate.
Qed.

Lemma run_open_absurd : forall i a, i < N -> g i = true -> maxrun a i -> False.
Proof.
  intros i a Hi Hg (Hr & Hrun & Hp & Hz). destruct Hz as [Hz | Hz]; [lia|]. congruence.
Qed.

Lemma where_from_spec : forall l i cur,
  i + length l = N -> (forall j, j < length l -> nth j l false = g (i + j)) ->
  cur_ok i cur ->
  forall a z, In (a, z) (where_from i cur l) <-> (maxrun a z /\ i <= z).
Proof.
  induction l as [|v t IH]; intros i cur HN Hg Hcur a z.
  - simpl in HN. destruct cur as [s|]; simpl.
    + split.
      * intros [E | []]. inversion E; subst a z. destruct Hcur as (Hs & Hall & Hprev).
        split; [|lia]. split; [lia|]. split; [exact Hall|]. split; [exact Hprev | left; lia].
      * intros [Hm Hiz]. left. assert (z = i) by (destruct Hm as ((_ & Hz) & _); lia). subst z.
        f_equal. eapply run_start_eq; eassumption.
    + split; [intros []|]. intros [Hm Hiz].
      assert (z = i) by (destruct Hm as ((_ & Hz) & _); lia). subst z.
      eapply run_none_absurd; eassumption.
  - simpl in HN.
    assert (Hv : v = g i).
    { specialize (Hg 0 ltac:(simpl; lia)). simpl in Hg. rewrite Nat.add_0_r in Hg. exact Hg. }
    assert (Hg' : forall j, j < length t -> nth j t false = g (S i + j)).
    { intros j Hj. specialize (Hg (S j) ltac:(simpl; lia)). simpl in Hg.
      replace (S i + j) with (i + S j) by lia. exact Hg. }
    assert (HN' : S i + length t = N) by lia.
    assert (HiN : i < N) by lia.
    simpl where_from. destruct v; destruct cur as [s|].
    + (* true, open run continues *)
      assert (Hc' : cur_ok (S i) (Some s)).
      { destruct Hcur as (Hs & Hall & Hprev). split; [lia|]. split; [|exact Hprev].
        intros j Hj. destruct (Nat.eq_dec j i) as [-> | Hne]; [congruence | apply Hall; lia]. }
      rewrite (IH (S i) (Some s) HN' Hg' Hc' a z). split; intros [Hm Hz]; split; try exact Hm; try lia.
      destruct (Nat.eq_dec z i) as [-> | Hne]; [|lia]. exfalso.
      eapply run_open_absurd; [exact HiN | symmetry; exact Hv | exact Hm].
    + (* true, a run opens at i *)
      assert (Hc' : cur_ok (S i) (Some i)).
      { split; [lia|]. split; [|exact Hcur].
        intros j Hj. assert (j = i) by lia. subst j. congruence. }
      rewrite (IH (S i) (Some i) HN' Hg' Hc' a z). split; intros [Hm Hz]; split; try exact Hm; try lia.
      destruct (Nat.eq_dec z i) as [-> | Hne]; [|lia]. exfalso.
      eapply run_open_absurd; [exact HiN | symmetry; exact Hv | exact Hm].
    + (* false, the open run closes at i *)
      assert (Hc' : cur_ok (S i) None).
      { right. replace (S i - 1) with i by lia. congruence. }
      simpl In. rewrite (IH (S i) None HN' Hg' Hc' a z). split.
      * intros [E | [Hm Hz]].
        -- inversion E; subst a z. destruct Hcur as (Hs & Hall & Hprev).
           split; [|lia]. split; [lia|]. split; [exact Hall|]. split; [exact Hprev|].
           right. congruence.
        -- split; [exact Hm | lia].
      * intros [Hm Hz]. destruct (Nat.eq_dec z i) as [-> | Hne].
        -- left. f_equal. eapply run_start_eq; eassumption.
        -- right. split; [exact Hm | lia].
    + (* false, no open run *)
      assert (Hc' : cur_ok (S i) None).
      { right. replace (S i - 1) with i by lia. congruence. }
      rewrite (IH (S i) None HN' Hg' Hc' a z). split; intros [Hm Hz]; split; try exact Hm; try lia.
      destruct (Nat.eq_dec z i) as [-> | Hne]; [|lia]. exfalso.
      eapply run_none_absurd; [exact Hcur | exact Hm].
Qed.
End Where.

(** [where_runs l] lists exactly the maximal runs of [true] in [l] *)
Theorem where_runs_spec : forall l a z,
  In (a, z) (where_runs l) <->
  (a < z <= length l)%nat /\
  (forall i, (a <= i < z)%nat -> nth i l false = true) /\
  (a = 0%nat \/ nth (a - 1) l false = false) /\
  (z = length l \/ nth z l false = false).
Proof.
  intros l a z. unfold where_runs.
  pose proof (where_from_spec (fun j => nth j l false) (length l) l 0%nat None eq_refl
                (fun j _ => eq_refl) (or_introl eq_refl) a z) as H.
  unfold maxrun in H. rewrite H. split; [intros [X _]; exact X | intros X; split; [exact X | lia]].
Qed.

(** the runs come in increasing order, separated by at least one [false] *)
Definition run_lt (p q : nat * nat) : Prop := (snd p < fst q)%nat.

Lemma where_from_sorted : forall l i cur,
  match cur with Some s => (s < i)%nat | None => True end ->
  StronglySorted run_lt (where_from i cur l) /\
  forall a z, In (a, z) (where_from i cur l) ->
    (a < z /\ i <= z /\ match cur with Some s => s | None => i end <= a)%nat.
Proof.
  induction l as [|v t IH]; intros i cur Hc.
  - destruct cur as [s|]; simpl in *.
    + split; [constructor; constructor|]. intros a z [E | []]. inversion E; subst. lia.
    + split; [constructor|]. intros a z [].
  - simpl where_from. destruct v; destruct cur as [s|]; simpl in Hc.
    + destruct (IH (S i) (Some s) ltac:(simpl; lia)) as [S1 S2]. split; [exact S1|].
      intros a z Hin. specialize (S2 a z Hin). lia.
    + destruct (IH (S i) (Some i) ltac:(simpl; lia)) as [S1 S2]. split; [exact S1|].
      intros a z Hin. specialize (S2 a z Hin). lia.
    + destruct (IH (S i) None I) as [S1 S2]. split.
      * constructor; [exact S1|]. rewrite Forall_forall. intros [a z] Hin.
        specialize (S2 a z Hin). unfold run_lt. simpl. lia.
      * intros a z [E | Hin]; [inversion E; subst; lia|]. specialize (S2 a z Hin). lia.
    + destruct (IH (S i) None I) as [S1 S2]. split; [exact S1|].
      intros a z Hin. specialize (S2 a z Hin). lia.
Qed.

Theorem where_runs_sorted : forall l, StronglySorted run_lt (where_runs l).
Proof. intros l. exact (proj1 (where_from_sorted l 0%nat None I)). Qed.

Lemma StronglySorted_FOP : forall {A} (R : A -> A -> Prop) l,
  StronglySorted R l -> ForallOrdPairs R l.
Proof. intros A R l H. induction H; constructor; assumption. Qed.

(** position form: increasing order and pairwise disjointness *)
Corollary where_runs_ordered : forall l i j,
  (i < j < length (where_runs l))%nat ->
  (snd (nth i (where_runs l) (0, 0)%nat) < fst (nth j (where_runs l) (0, 0)%nat))%nat.
Proof.
  intros l i j Hij.
  exact (FOP_nth run_lt _ (0, 0)%nat (StronglySorted_FOP _ _ (where_runs_sorted l)) i j Hij).
Qed.

(** ====================================================================== *)
(** * 3. Changepoints *)
Definition pick_run (scores : list Z) (mdi : nat) (se : nat * nat) : list nat :=
  let '(s, e) := se in
  if (mdi <=? e - s)%nat then
    match argmax (slice s e scores) with Some (i, _) => [(s + i)%nat] | None => [] end
  else [].

Lemma mw_cpts_unfold : forall scores thr mdi,
  mw_cpts scores thr mdi =
  flat_map (pick_run scores mdi) (where_runs (map (fun v => thr <? v) scores)).
Proof. reflexivity. Qed.

Lemma slice_length : forall {A} s e (l : list A), (e <= length l)%nat ->
  length (slice s e l) = (e - s)%nat.
Proof. intros A s e l H. unfold slice. rewrite firstn_length, skipn_length. lia. Qed.

Lemma nth_slice : forall {A} s e (l : list A) j d, (j < e - s)%nat ->
  nth j (slice s e l) d = nth (s + j) l d.
Proof.
  intros A s e l j d H. unfold slice. rewrite nth_firstn_lt by exact H. apply nth_skipn_add.
Qed.

Lemma pick_run_spec : forall scores mdi a z c,
  (a < z <= length scores)%nat ->
  (In c (pick_run scores mdi (a, z)) <->
   (mdi <= z - a)%nat /\ (a <= c < z)%nat /\
   (forall i, (a <= i < z)%nat -> nthZ scores i <= nthZ scores c) /\
   (forall i, (a <= i < c)%nat -> nthZ scores i < nthZ scores c)).
Proof.
  intros scores mdi a z c Haz. unfold pick_run, nthZ.
  destruct (mdi <=? z - a)%nat eqn:E.
  - apply Nat.leb_le in E.
    destruct (argmax (slice a z scores)) as [[i v]|] eqn:A.
    + pose proof (argmax_spec _ _ _ A) as (Hi & Hv & Hle & Hlt).
      rewrite slice_length in Hi, Hle by lia. rewrite nth_slice in Hv by exact Hi.
      simpl In. split.
      * intros [<- | []]. split; [exact E|]. split; [lia|]. split.
        -- intros j Hj. assert (Hj' : (j - a < z - a)%nat) by lia.
           specialize (Hle _ Hj'). rewrite nth_slice in Hle by exact Hj'.
           replace (a + (j - a))%nat with j in Hle by lia. lia.
        -- intros j Hj. assert (Hj' : (j - a < i)%nat) by lia.
           specialize (Hlt _ Hj'). rewrite nth_slice in Hlt by lia.
           replace (a + (j - a))%nat with j in Hlt by lia. lia.
      * intros (_ & Hc & Hmax & Hfirst). left.
        assert (Hci : (c - a)%nat = i).
        { apply (argmax_unique _ _ _ (c - a)%nat A).
          - rewrite slice_length by lia. lia.
          - intros j Hj. rewrite slice_length in Hj by lia. rewrite !nth_slice by lia.
            replace (a + (c - a))%nat with c by lia. apply Hmax. lia.
          - intros j Hj. rewrite !nth_slice by lia.
            replace (a + (c - a))%nat with c by lia. apply Hfirst. lia. }
        lia.
    + apply argmax_none in A. apply (f_equal (@length Z)) in A.
      rewrite slice_length in A by lia. simpl in A. lia.
  - apply Nat.leb_gt in E. split; [intros []|]. intros (H & _). lia.
Qed.

Lemma runs_in_range : forall scores thr a z,
  In (a, z) (where_runs (map (fun v => thr <? v) scores)) ->
  (a < z <= length scores)%nat.
Proof.
  intros scores thr a z H. apply where_runs_spec in H. rewrite map_length in H. tauto.
Qed.

Theorem mw_cpts_spec : forall scores thr mdi c,
  In c (mw_cpts scores thr mdi) <->
  exists a z, In (a, z) (where_runs (map (fun v => thr <? v) scores)) /\
    (mdi <= z - a)%nat /\ (a <= c < z)%nat /\
    (forall i, (a <= i < z)%nat -> nthZ scores i <= nthZ scores c) /\
    (forall i, (a <= i < c)%nat -> nthZ scores i < nthZ scores c).
Proof.
  intros scores thr mdi c. rewrite mw_cpts_unfold, in_flat_map. split.
  - intros ([a z] & Hin & Hc). exists a, z. split; [exact Hin|].
    apply pick_run_spec; [eapply runs_in_range; exact Hin | exact Hc].
  - intros (a & z & Hin & H). exists (a, z). split; [exact Hin|].
    apply pick_run_spec; [eapply runs_in_range; exact Hin | exact H].
Qed.

Lemma pick_run_cases : forall scores mdi se,
  pick_run scores mdi se = [] \/ exists c, pick_run scores mdi se = [c].
Proof.
  intros scores mdi [s e]. unfold pick_run.
  destruct (mdi <=? e - s)%nat; [|left; reflexivity].
  destruct (argmax (slice s e scores)) as [[i v]|]; [right; eauto | left; reflexivity].
Qed.

Lemma flat_pick_sorted : forall scores mdi runs,
  StronglySorted run_lt runs ->
  (forall a z, In (a, z) runs -> (a < z <= length scores)%nat) ->
  StronglySorted lt (flat_map (pick_run scores mdi) runs).
Proof.
  intros scores mdi runs H. induction H as [|[a z] l HS IH HF]; intros Hr.
  - constructor.
  - change (flat_map (pick_run scores mdi) ((a, z) :: l))
      with (pick_run scores mdi (a, z) ++ flat_map (pick_run scores mdi) l).
    assert (IH' : StronglySorted lt (flat_map (pick_run scores mdi) l))
      by (apply IH; intros a' z' Hin; apply Hr; right; exact Hin).
    destruct (pick_run_cases scores mdi (a, z)) as [E | (c & E)].
    + rewrite E. exact IH'.
    + assert (Hc : In c (pick_run scores mdi (a, z))) by (rewrite E; left; reflexivity).
      apply pick_run_spec in Hc; [|apply Hr; left; reflexivity].
      rewrite E. simpl. constructor; [exact IH'|].
      rewrite Forall_forall. intros c' Hc'. apply in_flat_map in Hc'.
      destruct Hc' as ([a' z'] & Hin' & Hc').
      apply pick_run_spec in Hc'; [|apply Hr; right; exact Hin'].
      rewrite Forall_forall in HF. specialize (HF _ Hin'). unfold run_lt in HF. simpl in HF. lia.
Qed.

Theorem mw_cpts_sorted : forall scores thr mdi, StronglySorted lt (mw_cpts scores thr mdi).
Proof.
  intros scores thr mdi. rewrite mw_cpts_unfold. apply flat_pick_sorted.
  - apply where_runs_sorted.
  - intros a z. apply runs_in_range.
Qed.

Corollary mw_cpts_increasing : forall scores thr mdi i j,
  (i < j < length (mw_cpts scores thr mdi))%nat ->
  (nthN (mw_cpts scores thr mdi) i < nthN (mw_cpts scores thr mdi) j)%nat.
Proof.
  intros scores thr mdi i j Hij.
  exact (FOP_nth lt _ 0%nat (StronglySorted_FOP _ _ (mw_cpts_sorted scores thr mdi)) i j Hij).
Qed.

Theorem mw_cpts_above : forall scores thr mdi c,
  In c (mw_cpts scores thr mdi) -> (c < length scores)%nat /\ thr < nthZ scores c.
Proof.
  intros scores thr mdi c H. apply mw_cpts_spec in H.
  destruct H as (a & z & Hin & _ & Hc & _). apply where_runs_spec in Hin.
  destruct Hin as (Hr & Hrun & _). rewrite map_length in Hr.
  specialize (Hrun c Hc).
  rewrite (nth_map_lt (fun v => thr <? v) scores c 0 false) in Hrun by lia.
  apply Z.ltb_lt in Hrun. split; [lia | exact Hrun].
Qed.

(** scores outside [b, n-b] are 0, hence not above a non-negative threshold *)
Theorem mw_cpts_range : forall CS b n thr mdi c,
  0 <= thr -> In c (snd (mw CS b n thr mdi)) -> (b <= c /\ c + b <= n)%nat.
Proof.
  intros CS b n thr mdi c Hthr H. simpl in H. apply mw_cpts_above in H.
  destruct H as [Hc Hlt]. rewrite mw_scores_length in Hc. rewrite mw_scores_nth in Hlt by exact Hc.
  destruct ((b <=? c)%nat && (c + b <=? n)%nat) eqn:E; [|lia].
  apply andb_true_iff in E. destruct E as [E1 E2].
  apply Nat.leb_le in E1. apply Nat.leb_le in E2. lia.
Qed.

(** time reversal: the score vector of the reversed series is the reversed score vector
    (no assumption on [b] is needed for 1 <= t < n) *)
Theorem mw_reversal_scores : forall CS b n t,
  (1 <= t < n)%nat ->
  nthZ (mw_scores (fun s k e => CS (n - e) (n - k) (n - s))%nat b n) t =
  nthZ (mw_scores CS b n) (n - t).
Proof.
  intros CS b n t Ht. rewrite !mw_scores_nth by lia.
  destruct ((b <=? t)%nat && (t + b <=? n)%nat) eqn:E1;
  destruct ((b <=? n - t)%nat && (n - t + b <=? n)%nat) eqn:E2.
  - apply andb_true_iff in E1. destruct E1 as [A B].
    apply Nat.leb_le in A. apply Nat.leb_le in B. f_equal; lia.
  - exfalso. apply andb_true_iff in E1. destruct E1 as [A B].
    apply Nat.leb_le in A. apply Nat.leb_le in B.
    apply andb_false_iff in E2. destruct E2 as [C | C]; apply Nat.leb_gt in C; lia.
  - exfalso. apply andb_true_iff in E2. destruct E2 as [A B].
    apply Nat.leb_le in A. apply Nat.leb_le in B.
    apply andb_false_iff in E1. destruct E1 as [C | C]; apply Nat.leb_gt in C; lia.
  - reflexivity.
Qed.

(** position 0 maps to position n, outside the vector; both sides are 0 when b >= 1 *)
Theorem mw_reversal_scores_0 : forall CS b n,
  (1 <= b)%nat ->
  nthZ (mw_scores (fun s k e => CS (n - e) (n - k) (n - s))%nat b n) 0 = 0 /\
  nthZ (mw_scores CS b n) (n - 0) = 0.
Proof.
  intros CS b n Hb. split.
  - destruct n as [|n]; [reflexivity|]. rewrite mw_scores_nth by lia.
    replace (b <=? 0)%nat with false by (symmetry; apply Nat.leb_gt; lia). reflexivity.
  - unfold nthZ. apply nth_overflow. rewrite mw_scores_length. lia.
Qed.

Theorem mw_ext : forall CS1 CS2 b n thr mdi,
  (forall s k e, CS1 s k e = CS2 s k e) -> mw CS1 b n thr mdi = mw CS2 b n thr mdi.
Proof.
  intros CS1 CS2 b n thr mdi H. unfold mw.
  assert (E : mw_scores CS1 b n = mw_scores CS2 b n).
  { unfold mw_scores. apply map_ext. intros t. rewrite H. reflexivity. }
  rewrite E. reflexivity.
Qed.

Print Assumptions mw_scores_length.
Print Assumptions mw_scores_nth.
Print Assumptions where_runs_spec.
Print Assumptions where_runs_sorted.
Print Assumptions where_runs_ordered.
Print Assumptions mw_cpts_spec.
Print Assumptions mw_cpts_sorted.
Print Assumptions mw_cpts_increasing.
Print Assumptions mw_cpts_above.
Print Assumptions mw_cpts_range.
Print Assumptions mw_reversal_scores.
Print Assumptions mw_reversal_scores_0.
Print Assumptions mw_ext.
