From Coq Require Import ZArith List Lia Bool Arith.
Import ListNotations.
Open Scope Z_scope.

(* ---------- generic list-min facts ---------- *)
Fixpoint minl (d : Z) (l : list Z) : Z :=
  match l with [] => d | x :: t => Z.min x (minl d t) end.
(* min of a non-empty list given as head + tail *)
Definition min1 (x : Z) (l : list Z) : Z := fold_left Z.min l x.

Lemma min1_le_head x l : min1 x l <= x.
Proof. unfold min1. revert x; induction l as [|a l IH]; intros x; cbn; [lia|]. specialize (IH (Z.min x a)). lia. Qed.
Lemma min1_le_in x l y : In y l -> min1 x l <= y.
Proof. revert x; induction l as [|a l IH]; intros x []; cbn.
  - subst. pose proof (min1_le_head (Z.min x y) l). unfold min1 in *. lia.
  - now apply IH. Qed.
Lemma min1_in x l : min1 x l = x \/ In (min1 x l) l.
Proof. unfold min1. revert x; induction l as [|a l IH]; intros x; cbn; [now left|].
  destruct (IH (Z.min x a)) as [H|H]; [|now right; right].
  rewrite H. destruct (Z.min_spec x a) as [[_ E]|[_ E]]; rewrite E; [now left|now right; left]. Qed.

Section Spec.
Variable C : nat -> nat -> Z.
Variable pen : Z.
Variable m : nat.
Hypothesis m_pos : (1 <= m)%nat.

(* admissible last-segment starts other than 0 for end T : m <= s <= T-m *)
Definition adm (T : nat) : list nat := seq m (T + 1 - 2 * m).

Lemma in_adm T s : In s (adm T) <-> (m <= s /\ s + m <= T)%nat.
Proof. unfold adm. rewrite in_seq. lia. Qed.

(* table of F 0 .. F t ; entries 1..m-1 are dummies (-pen), as in the code *)
Definition cand (tab : list Z) (T s : nat) : Z := nth s tab 0 + C s T + pen.
Definition next (tab : list Z) (T : nat) : Z :=
  if (T <? m)%nat then - pen else min1 (cand tab T 0) (map (cand tab T) (adm T)).
Fixpoint Ftab (t : nat) : list Z :=
  match t with O => [- pen] | S t' => Ftab t' ++ [next (Ftab t') (S t')] end.
Definition F (t : nat) : Z := nth t (Ftab t) 0.

Lemma Ftab_length t : length (Ftab t) = S t.
Proof. induction t; cbn; [easy|]. rewrite app_length, IHt. cbn. lia. Qed.
Lemma Ftab_nth s t : (s <= t)%nat -> nth s (Ftab t) 0 = F s.
Proof. induction t as [|t IH]; intros H.
  - now replace s with 0%nat by lia.
  - destruct (Nat.eq_dec s (S t)) as [->|Hn]; [reflexivity|].
    cbn [Ftab]. rewrite app_nth1 by (rewrite Ftab_length; lia). apply IH. lia. Qed.

Definition candF (T s : nat) : Z := F s + C s T + pen.
Lemma F0 : F 0 = - pen. Proof. reflexivity. Qed.
Lemma F_unfold T : (m <= T)%nat ->
  F T = min1 (candF T 0) (map (candF T) (adm T)).
Proof.
  intros HT. destruct T as [|T]; [lia|]. unfold F at 1. cbn [Ftab].
  rewrite app_nth2 by (rewrite Ftab_length; lia). rewrite Ftab_length, Nat.sub_diag. cbn [nth].
  unfold next. replace (S T <? m)%nat with false by (symmetry; apply Nat.ltb_ge; lia).
  unfold cand, candF. rewrite (Ftab_nth 0) by lia.
  f_equal. apply map_ext_in. intros s Hs. apply in_adm in Hs. rewrite Ftab_nth by lia. reflexivity. Qed.

Lemma F_le_cand0 T : (m <= T)%nat -> F T <= candF T 0.
Proof. intros. rewrite F_unfold by auto. apply min1_le_head. Qed.
Lemma F_le_cand T s : (m <= s)%nat -> (s + m <= T)%nat -> F T <= candF T s.
Proof. intros. rewrite F_unfold by lia. apply min1_le_in. apply in_map. apply in_adm. lia. Qed.
Lemma F_attained T : (m <= T)%nat ->
  F T = candF T 0 \/ exists s, (m <= s /\ s + m <= T)%nat /\ F T = candF T s.
Proof. intros. rewrite F_unfold by auto.
  destruct (min1_in (candF T 0) (map (candF T) (adm T))) as [H1|H1]; [now left|right].
  apply in_map_iff in H1 as (s & E & Hs). apply in_adm in Hs. exists s. split; [lia|]. now rewrite <- E. Qed.

(* ---------- segmentations ---------- *)
(* cpts listed in increasing order; segs of prefix T: 0=c0<c1<..<ck<T, all gaps >= m *)
Fixpoint segcost (prev : nat) (cpts : list nat) (T : nat) : Z :=
  match cpts with [] => C prev T | c :: tl => C prev c + segcost c tl T end.
Fixpoint admseg (prev : nat) (cpts : list nat) (T : nat) : Prop :=
  match cpts with [] => (prev + m <= T)%nat | c :: tl => (prev + m <= c)%nat /\ admseg c tl T end.
Definition pencost (cpts : list nat) (T : nat) : Z := segcost 0 cpts T + pen * Z.of_nat (length cpts).
Definition Adm (cpts : list nat) (T : nat) : Prop := admseg 0 cpts T.

(* snoc view *)
Lemma segcost_snoc p cpts c T : segcost p (cpts ++ [c]) T = segcost p cpts c + C c T.
Proof. revert p; induction cpts as [|a l IH]; intros p; cbn; [lia|]. rewrite IH. lia. Qed.
Lemma admseg_snoc p cpts c T : admseg p (cpts ++ [c]) T <-> admseg p cpts c /\ (c + m <= T)%nat.
Proof. revert p; induction cpts as [|a l IH]; intros p; cbn; [tauto|]. rewrite IH. tauto. Qed.
Lemma admseg_ge p cpts T : admseg p cpts T -> (p + m <= T)%nat.
Proof. revert p; induction cpts as [|a l IH]; intros p; cbn; [auto|]. intros [H1 H2]. apply IH in H2. lia. Qed.

Theorem F_lower T cpts : Adm cpts T -> F T <= pencost cpts T.
Proof.
  revert cpts. induction T as [T IH] using lt_wf_ind. intros cpts H.
  assert (HT : (m <= T)%nat) by (apply admseg_ge in H; lia).
  destruct cpts as [|c0 l0] using rev_ind.
  - etransitivity; [apply F_le_cand0; auto|]. unfold candF, pencost. rewrite F0. cbn. lia.
  - clear IHl0. unfold Adm in H. apply admseg_snoc in H as [H1 H2].
    assert (Hc : (m <= c0)%nat) by (apply admseg_ge in H1; lia).
    etransitivity; [apply (F_le_cand T c0); lia|]. unfold candF.
    specialize (IH c0 ltac:(lia) l0 H1). unfold pencost in *. rewrite segcost_snoc, app_length. cbn [length].
    lia. Qed.

Theorem F_upper T : (m <= T)%nat -> exists cpts, Adm cpts T /\ pencost cpts T = F T.
Proof.
  induction T as [T IH] using lt_wf_ind. intros HT.
  destruct (F_attained T HT) as [E|(s & Hs & E)].
  - exists []. split; [cbn; lia|]. rewrite E. unfold candF, pencost. rewrite F0. cbn. lia.
  - destruct (IH s ltac:(lia) ltac:(lia)) as (l & A & P). exists (l ++ [s]). split.
    + apply admseg_snoc. split; [exact A|lia].
    + unfold pencost in *. rewrite segcost_snoc, app_length, E. unfold candF. cbn [length]. lia. Qed.
End Spec.
Print Assumptions F_lower.
Print Assumptions F_upper.
