(** END TO END in binary64: PELT with the squared-error cost on one column.

    Data [l : list float], penalty [penf : float], minimum segment length [m] (the code runs
    the pruning with delay = m - 1), n = length l, cost table  Cf a T = l2_cost_F l a T  (the
    operation order of skchange's L2Cost kernel on primitive floats, Check/FloatKernelCheck.v).

    Boolean, [vm_compute]-able premises:
      - [l2_all_trace_ok l]            every cost [l2_cost_F l a T], a < T <= n, passes the
                                       trace checker [l2_trace_ok] of Proofs/FloatRefine.v;
      - [pelt_trace_finite Cf penf m (m-1) n]   every float the PELT run reads is finite;
      - [pelt_mag_ok Cf penf m (m-1) n Magf]    every ROUNDED sum the run forms
                                       (opt[a] + Cf a T, (opt[a] + Cf a T) + penf, opt[T] + penf)
                                       is at most [Magf] in magnitude;
      - the error scale: either a real hypothesis  l2_scale (map FR l) a T <= Sc, or the
        boolean [l2_absmax_ok l Bf] (|x_i| <= Bf) which gives Sc = n (n+1) (FR Bf)^2.

    Conclusions ([pelt_F64_l2_end_to_end], [pelt_F64_l2_final_score], and the [_absmax]
    versions): the changepoints reported by the binary64 run are an admissible segmentation
    whose penalised RESIDUAL SUM OF SQUARES (of the real values of the data) is within
        3 n (delta + 2 u53 Mag),   delta = (4.2 n + 6) u53 Sc,   Mag = FR Magf / (1 - u53)
    of that of ANY admissible segmentation, and the reported final score is within
    n (delta + 2 u53 Mag) of the penalised RSS of the reported changepoints. *)
From Coq Require Import Reals Lra Lia List Arith ZArith Bool Floats.
From Flocq Require Import Core BinarySingleNaN.
From Flocq Require IEEE754.PrimFloat.
From SK Require Import Lib.Base Model.Pelt Model.Generic Model.GenericF Model.PeltR Model.PeltA
                       Gen.KernelsR Proofs.RealLib Proofs.CostKernels
                       Proofs.PeltSpec Proofs.PeltLemmas Proofs.PeltRefine Proofs.PeltReal
                       Proofs.PeltApprox Proofs.FloatError Proofs.FloatRefine Proofs.PeltFloat
                       Check.FloatKernelCheck.
Import ListNotations.
Local Open Scope R_scope.

Notation FR := FloatRefine.FR.
Notation float := PrimFloat.float (only parsing).

(* ------------------------------------------------------------------------- *)
(** * 1. Magnitude of a real sum from the magnitude of the rounded sum         *)
(* ------------------------------------------------------------------------- *)

Lemma u53_lt_1 : u53 < 1.
Proof. rewrite u53_value. lra. Qed.

Lemma u53_pos : 0 < u53.
Proof. rewrite u53_value. lra. Qed.

(** [abs r <= M] on finite floats is [|FR r| <= FR M] *)
Definition absleF (r M : float) : bool := PrimFloat.leb (abs r) M.

Lemma finF_abs r : finF (abs r) = finF r.
Proof. rewrite !finF_B, FP.abs_equiv. apply is_finite_Babs. Qed.

Lemma FR_abs r : FR (abs r) = Rabs (FR r).
Proof. unfold FloatRefine.FR. rewrite FP.abs_equiv. apply B2R_Babs. Qed.

Lemma absleF_FR r M : finF r = true -> finF M = true -> absleF r M = true ->
  Rabs (FR r) <= FR M.
Proof.
  intros Hr HM H. unfold absleF in H.
  rewrite (leb_FR (abs r) M) in H by (rewrite ?finF_abs; assumption).
  rewrite FR_abs in H. now apply Rleb_true.
Qed.

(** the exact sum is at most the rounded sum / (1 - u53) in magnitude *)
Lemma sum_mag_from_rounded (x y M : float) :
  finF x = true -> finF y = true -> finF (x + y)%float = true -> finF M = true ->
  absleF (x + y)%float M = true ->
  Rabs (FR x + FR y) <= FR M / (1 - u53).
Proof.
  intros Hx Hy Hs HM Hle.
  pose proof (absleF_FR _ _ Hs HM Hle) as H1.
  pose proof (FR_thr_error x y Hx Hy Hs) as H2.
  pose proof u53_lt_1 as Hu. pose proof u53_pos as Hu0.
  set (z := FR x + FR y) in *. set (r := FR (x + y)%float) in *.
  assert (Hz : Rabs z <= Rabs r + u53 * Rabs z).
  { replace z with (r - (r - z)) at 1 by ring.
    eapply Rle_trans; [apply Rabs_triang|]. rewrite Rabs_Ropp. lra. }
  apply Rmult_le_reg_r with (1 - u53); [lra|].
  unfold Rdiv. rewrite Rmult_assoc, Rinv_l by lra. lra.
Qed.

(* ------------------------------------------------------------------------- *)
(** * 2. The magnitude test on the floats of the run (any cost table)          *)
(* ------------------------------------------------------------------------- *)

(** every ROUNDED sum the run forms is at most [Magf] in magnitude *)
Definition pelt_mag_ok (Cf : nat -> nat -> float) (penf : float) (m delay n : nat)
    (Magf : float) : bool :=
  let o := optF64 Cf penf m delay n in
  finF Magf &&
  forallb (fun t =>
      absleF (nthV F64 o t + penf)%float Magf &&
      forallb (fun a =>
          absleF (nthV F64 o a + Cf a t)%float Magf &&
          absleF ((nthV F64 o a + Cf a t) + penf)%float Magf) (seq 0 t))
    (seq 0 (S n)).

Record mag_spec (Cf : nat -> nat -> float) (penf : float) (m delay n : nat) (Magf : float)
  : Prop := {
  ms_fin : finF Magf = true;
  ms_thr : forall t, (t <= n)%nat ->
      absleF (nthV F64 (optF64 Cf penf m delay n) t + penf)%float Magf = true;
  ms_sum : forall a t, (a < t <= n)%nat ->
      absleF (nthV F64 (optF64 Cf penf m delay n) a + Cf a t)%float Magf = true;
  ms_cand : forall a t, (a < t <= n)%nat ->
      absleF ((nthV F64 (optF64 Cf penf m delay n) a + Cf a t) + penf)%float Magf = true }.

Lemma pelt_mag_ok_spec Cf penf m delay n Magf :
  pelt_mag_ok Cf penf m delay n Magf = true -> mag_spec Cf penf m delay n Magf.
Proof.
  unfold pelt_mag_ok. cbv zeta. intros H.
  apply andb_prop in H as [H1 H2]. rewrite forallb_forall in H2.
  assert (Hin : forall t, (t <= n)%nat ->
     absleF (nthV F64 (optF64 Cf penf m delay n) t + penf)%float Magf = true /\
     forall a, (a < t)%nat ->
       absleF (nthV F64 (optF64 Cf penf m delay n) a + Cf a t)%float Magf = true /\
       absleF ((nthV F64 (optF64 Cf penf m delay n) a + Cf a t) + penf)%float Magf = true).
  { intros t Ht. specialize (H2 t). rewrite in_seq in H2. specialize (H2 ltac:(lia)).
    apply andb_prop in H2 as [Ha Hb]. split; [exact Ha|].
    rewrite forallb_forall in Hb. intros a Ha'. specialize (Hb a). rewrite in_seq in Hb.
    specialize (Hb ltac:(lia)). apply andb_prop in Hb as [Hb1 Hb2]. auto. }
  constructor.
  - exact H1.
  - intros t Ht. apply (Hin t Ht).
  - intros a t Hat. apply (Hin t); lia.
  - intros a t Hat. apply (Hin t); lia.
Qed.

(** the three magnitude hypotheses of [pelt_F64_near_optimal_bounds], from the test *)
Section MagBounds.
Variable Cf : nat -> nat -> float.
Variable penf Magf : float.
Variable m delay n : nat.
Hypothesis fin : pelt_trace_finite Cf penf m delay n = true.
Hypothesis mag : pelt_mag_ok Cf penf m delay n Magf = true.
Notation oF := (optF64 Cf penf m delay n).
Notation Mag := (FR Magf / (1 - u53)).

Lemma magf_sum : forall a T, (a < T <= n)%nat ->
  Rabs (FR (nthV F64 oF a) + FR (Cf a T)) <= Mag.
Proof.
  intros a T HaT. pose proof (pelt_trace_finite_spec _ _ _ _ _ fin) as F.
  pose proof (pelt_mag_ok_spec _ _ _ _ _ _ mag) as M.
  apply sum_mag_from_rounded.
  - apply (tf_opt _ _ _ _ _ F).
  - apply (tf_cost _ _ _ _ _ F); exact HaT.
  - apply (tf_sum _ _ _ _ _ F); exact HaT.
  - apply (ms_fin _ _ _ _ _ _ M).
  - apply (ms_sum _ _ _ _ _ _ M); exact HaT.
Qed.

Lemma magf_cand : forall a T, (a < T <= n)%nat ->
  Rabs (FR (nthV F64 oF a + Cf a T)%float + FR penf) <= Mag.
Proof.
  intros a T HaT. pose proof (pelt_trace_finite_spec _ _ _ _ _ fin) as F.
  pose proof (pelt_mag_ok_spec _ _ _ _ _ _ mag) as M.
  apply sum_mag_from_rounded.
  - apply (tf_sum _ _ _ _ _ F); exact HaT.
  - apply (tf_pen _ _ _ _ _ F).
  - apply (tf_cand _ _ _ _ _ F); exact HaT.
  - apply (ms_fin _ _ _ _ _ _ M).
  - apply (ms_cand _ _ _ _ _ _ M); exact HaT.
Qed.

Lemma magf_thr : forall T, (T <= n)%nat ->
  Rabs (FR (nthV F64 oF T) + FR penf) <= Mag.
Proof.
  intros T HT. pose proof (pelt_trace_finite_spec _ _ _ _ _ fin) as F.
  pose proof (pelt_mag_ok_spec _ _ _ _ _ _ mag) as M.
  apply sum_mag_from_rounded.
  - apply (tf_opt _ _ _ _ _ F).
  - apply (tf_pen _ _ _ _ _ F).
  - apply (tf_thr _ _ _ _ _ F); exact HT.
  - apply (ms_fin _ _ _ _ _ _ M).
  - apply (ms_thr _ _ _ _ _ _ M); exact HT.
Qed.
End MagBounds.

(** [pelt_F64_near_optimal_bounds] / [pelt_F64_final_close_bounds] with the magnitude
    hypotheses replaced by the boolean test: any cost table [Cf] within [delta] of a true
    cost [C] with the split inequality *)
Theorem pelt_F64_near_optimal_magf (Cf : nat -> nat -> float) (penf Magf : float)
    (C : nat -> nat -> R) (delta : R) (m delay n : nat) :
  (1 <= m)%nat -> (m <= delay + 1)%nat -> (2 * m <= n)%nat ->
  pelt_trace_finite Cf penf m delay n = true ->
  pelt_mag_ok Cf penf m delay n Magf = true ->
  (forall s k e, (s + m <= k)%nat -> (k + m <= e)%nat -> (e <= n)%nat ->
                 C s k + C k e <= C s e) ->
  (forall a T, (a < T <= n)%nat -> Rabs (FR (Cf a T) - C a T) <= delta) ->
  forall c, Adm m c n ->
    pencostR C (FR penf) (snd (gpelt F64 Cf penf m delay n)) n
    <= pencostR C (FR penf) c n + 3 * INR n * (delta + 2 * u53 * (FR Magf / (1 - u53))).
Proof.
  intros Hm Hd Hn Hfin Hmag Hs Ht c Hc.
  apply (pelt_F64_near_optimal_bounds Cf penf C delta (FR Magf / (1 - u53)) m delay n); auto.
  - apply magf_sum; assumption.
  - apply magf_cand; assumption.
  - apply magf_thr; assumption.
Qed.

Theorem pelt_F64_final_close_magf (Cf : nat -> nat -> float) (penf Magf : float)
    (C : nat -> nat -> R) (delta : R) (m delay n : nat) :
  (1 <= m)%nat -> (2 * m <= n)%nat ->
  pelt_trace_finite Cf penf m delay n = true ->
  pelt_mag_ok Cf penf m delay n Magf = true ->
  (forall a T, (a < T <= n)%nat -> Rabs (FR (Cf a T) - C a T) <= delta) ->
  Rabs (FR (nthV F64 (fst (gpelt F64 Cf penf m delay n)) (n - 1))
        - pencostR C (FR penf) (snd (gpelt F64 Cf penf m delay n)) n)
  <= INR n * (delta + 2 * u53 * (FR Magf / (1 - u53))).
Proof.
  intros Hm Hn Hfin Hmag Ht. rewrite <- pelt_F64_final_score.
  apply (pelt_F64_final_close_bounds Cf penf C delta (FR Magf / (1 - u53)) m delay n); auto.
  - apply magf_sum; assumption.
  - apply magf_cand; assumption.
  - apply magf_thr; assumption.
Qed.

(** the reported changepoints are an admissible segmentation *)
Theorem gpelt_F64_adm (Cf : nat -> nat -> float) (penf : float) (m delay n : nat) :
  (1 <= m)%nat -> (2 * m <= n)%nat ->
  pelt_trace_finite Cf penf m delay n = true ->
  Adm m (snd (gpelt F64 Cf penf m delay n)) n.
Proof.
  intros Hm Hn Hfin.
  pose proof (peltA_adm (Vt Cf penf m delay n) (Wt Cf penf m delay n) (I0t Cf) (FR penf)
                m delay n Hm Hn) as H.
  rewrite (gpelt_F64_is_peltA Cf penf m delay n Hfin Hm Hn) in H. exact H.
Qed.

(* ------------------------------------------------------------------------- *)
(** * 3. The squared-error cost table: every cut passes the trace checker      *)
(* ------------------------------------------------------------------------- *)

(** [l2_trace_ok l a T] for every a < T <= length l *)
Definition l2_all_trace_ok (l : list float) : bool :=
  forallb (fun T => forallb (fun a => l2_trace_ok l a T) (seq 0 T)) (seq 0 (S (length l))).

Lemma l2_all_trace_ok_spec l :
  l2_all_trace_ok l = true ->
  forall a T, (a < T <= length l)%nat -> l2_trace_ok l a T = true.
Proof.
  unfold l2_all_trace_ok. intros H a T HaT. rewrite forallb_forall in H.
  specialize (H T). rewrite in_seq in H. specialize (H ltac:(lia)).
  rewrite forallb_forall in H. apply H. rewrite in_seq. lia.
Qed.

(** the error of the whole table from a bound [Sc] on the error scale *)
Lemma l2_table_error (l : list float) (Sc : R) :
  INR (length l) * u53 <= 1 / 100 ->
  l2_all_trace_ok l = true ->
  (forall a T, (a < T <= length l)%nat -> l2_scale (map FR l) a T <= Sc) ->
  forall a T, (a < T <= length l)%nat ->
    Rabs (FR (l2_cost_F l a T)
          - l2_cost_optim_R (prefix (map FR l)) (prefix (sq (map FR l))) a T)
    <= (42 / 10 * INR (length l) + 6) * u53 * Sc.
Proof.
  intros Hsmall Hok HSc a T HaT.
  pose proof (l2_all_trace_ok_spec l Hok a T HaT) as Htr.
  pose proof u53_pos as Hu.
  assert (HTn : INR T <= INR (length l)) by (apply le_INR; lia).
  pose proof (pos_INR T) as HT0.
  assert (HsmallT : INR T * u53 <= 1 / 100).
  { eapply Rle_trans; [|exact Hsmall]. apply Rmult_le_compat_r; lra. }
  eapply Rle_trans; [exact (l2_cost_F_vs_optim_R l a T Htr HsmallT)|].
  pose proof (l2_scale_nonneg (map FR l) a T (proj1 HaT)) as HS0.
  pose proof (HSc a T HaT) as HS.
  apply Rmult_le_compat; [| exact HS0 | | exact HS].
  - apply Rmult_le_pos; lra.
  - apply Rmult_le_compat_r; lra.
Qed.

(* ------------------------------------------------------------------------- *)
(** * 4. MAIN THEOREM                                                          *)
(* ------------------------------------------------------------------------- *)

(** The changepoints of the binary64 PELT run on the binary64 squared-error cost table of
    the data [l] are an admissible segmentation, and their penalised residual sum of squares
    (on the real values [map FR l] of the data, penalty [FR penf]) is within
    3 n (delta + 2 u53 Mag) of that of ANY admissible segmentation.
    (No sign condition on the penalty is needed.) *)
Theorem pelt_F64_l2_end_to_end (l : list float) (penf Magf : float) (m : nat) (Sc : R) :
  let n := length l in
  let Cf := l2_cost_F l in
  (1 <= m)%nat -> (2 * m <= n)%nat -> INR n * u53 <= 1 / 100 ->
  l2_all_trace_ok l = true ->
  pelt_trace_finite Cf penf m (m - 1) n = true ->
  pelt_mag_ok Cf penf m (m - 1) n Magf = true ->
  (forall a T, (a < T <= n)%nat -> l2_scale (map FR l) a T <= Sc) ->
  let cpts := snd (gpelt F64 Cf penf m (m - 1) n) in
  let delta := (42 / 10 * INR n + 6) * u53 * Sc in
  let Mag := FR Magf / (1 - u53) in
  Adm m cpts n /\
  forall c, Adm m c n ->
    pencostR (fun s e => rss (slice s e (map FR l))) (FR penf) cpts n
    <= pencostR (fun s e => rss (slice s e (map FR l))) (FR penf) c n
       + 3 * INR n * (delta + 2 * u53 * Mag).
Proof.
  intros n Cf Hm Hn Hsmall Htr Hfin Hmag HSc cpts delta Mag.
  assert (Ha : Adm m cpts n) by (apply gpelt_F64_adm; assumption).
  split; [exact Ha|]. intros c Hc.
  assert (Hlen : length (map FR l) = n) by apply map_length.
  assert (Hext : forall s e, (s + m <= e)%nat -> (e <= n)%nat ->
     l2_cost_optim_R (prefix (map FR l)) (prefix (sq (map FR l))) s e
     = rss (slice s e (map FR l))).
  { intros s e H1 H2. apply (l2_kernel_is_rss (map FR l) m Hm s e H1). rewrite Hlen. exact H2. }
  rewrite <- (pencostR_ext _ _ (FR penf) m n Hm Hext cpts Ha).
  rewrite <- (pencostR_ext _ _ (FR penf) m n Hm Hext c Hc).
  apply (pelt_F64_near_optimal_magf Cf penf Magf
           (l2_cost_optim_R (prefix (map FR l)) (prefix (sq (map FR l)))) delta m (m - 1) n);
    try assumption; try lia.
  - intros s k e H1 H2 _. now apply (l2_kernel_split (map FR l) m Hm).
  - exact (l2_table_error l Sc Hsmall Htr HSc).
Qed.

(** COMPANION: the reported final score (the last entry of the score array, a float) is
    within n (delta + 2 u53 Mag) of the penalised RSS of the reported changepoints *)
Theorem pelt_F64_l2_final_score (l : list float) (penf Magf : float) (m : nat) (Sc : R) :
  let n := length l in
  let Cf := l2_cost_F l in
  (1 <= m)%nat -> (2 * m <= n)%nat -> INR n * u53 <= 1 / 100 ->
  l2_all_trace_ok l = true ->
  pelt_trace_finite Cf penf m (m - 1) n = true ->
  pelt_mag_ok Cf penf m (m - 1) n Magf = true ->
  (forall a T, (a < T <= n)%nat -> l2_scale (map FR l) a T <= Sc) ->
  let out := gpelt F64 Cf penf m (m - 1) n in
  let delta := (42 / 10 * INR n + 6) * u53 * Sc in
  let Mag := FR Magf / (1 - u53) in
  Rabs (FR (nthV F64 (fst out) (n - 1))
        - pencostR (fun s e => rss (slice s e (map FR l))) (FR penf) (snd out) n)
  <= INR n * (delta + 2 * u53 * Mag).
Proof.
  intros n Cf Hm Hn Hsmall Htr Hfin Hmag HSc out delta Mag.
  assert (Ha : Adm m (snd out) n) by (apply gpelt_F64_adm; assumption).
  assert (Hlen : length (map FR l) = n) by apply map_length.
  assert (Hext : forall s e, (s + m <= e)%nat -> (e <= n)%nat ->
     l2_cost_optim_R (prefix (map FR l)) (prefix (sq (map FR l))) s e
     = rss (slice s e (map FR l))).
  { intros s e H1 H2. apply (l2_kernel_is_rss (map FR l) m Hm s e H1). rewrite Hlen. exact H2. }
  rewrite <- (pencostR_ext _ _ (FR penf) m n Hm Hext (snd out) Ha).
  apply (pelt_F64_final_close_magf Cf penf Magf
           (l2_cost_optim_R (prefix (map FR l)) (prefix (sq (map FR l)))) delta m (m - 1) n);
    try assumption.
  exact (l2_table_error l Sc Hsmall Htr HSc).
Qed.

(* ------------------------------------------------------------------------- *)
(** * 5. A boolean bound on the error scale: |x_i| <= Bf                       *)
(* ------------------------------------------------------------------------- *)

(** every observation is finite and at most [Bf] in magnitude (exact float comparisons) *)
Definition l2_absmax_ok (l : list float) (Bf : float) : bool :=
  finF Bf && forallb (fun x => finF x && absleF x Bf) l.

Lemma l2_absmax_ok_spec l Bf :
  l2_absmax_ok l Bf = true -> forall x, In x (map FR l) -> Rabs x <= FR Bf.
Proof.
  unfold l2_absmax_ok. intros H x Hx. apply andb_prop in H as [HB H].
  rewrite forallb_forall in H. apply in_map_iff in Hx as (y & <- & Hy).
  specialize (H y Hy). apply andb_prop in H as [H1 H2]. now apply absleF_FR.
Qed.

Lemma sumR_map_le_const (f : R -> R) (b : R) (k : list R) :
  (forall x, In x k -> f x <= b) -> sumR (map f k) <= INR (length k) * b.
Proof.
  induction k as [|x k IH]; intros H.
  - cbn [map sumR length INR]. lra.
  - change (length (x :: k)) with (S (length k)). rewrite S_INR. cbn [map sumR].
    pose proof (H x (or_introl eq_refl)) as Hx.
    assert (IH' : sumR (map f k) <= INR (length k) * b) by (apply IH; intros y Hy; apply H; now right).
    lra.
Qed.

(** the error scale of every cut is at most n (n + 1) B^2 when |x_i| <= B *)
Lemma l2_scale_le_absmax (xs : list R) (B : R) :
  (forall x, In x xs -> Rabs x <= B) ->
  forall a T, (a < T <= length xs)%nat ->
    l2_scale xs a T <= INR (length xs) * (INR (length xs) + 1) * B ^ 2.
Proof.
  intros HB a T HaT. unfold l2_scale.
  set (n := length xs). set (k := firstn T xs).
  assert (Hk : forall x, In x k -> Rabs x <= B).
  { intros x Hx. apply HB. unfold k in Hx.
    rewrite <- (firstn_skipn T xs). apply in_or_app. now left. }
  assert (Hlen : length k = T) by (unfold k; rewrite firstn_length; lia).
  assert (HB0 : 0 <= B).
  { destruct k as [|x k'] eqn:E; [cbn [length] in Hlen; lia|].
    eapply Rle_trans; [apply Rabs_pos|apply (Hk x); now left]. }
  assert (HTn : INR T <= INR n) by (apply le_INR; unfold n; lia).
  pose proof (pos_INR T) as HT0.
  assert (H2 : sumR (map (fun x => x * x) k) <= INR n * B ^ 2).
  { eapply Rle_trans.
    - apply (sumR_map_le_const (fun x => x * x) (B ^ 2)). intros x Hx.
      pose proof (Hk x Hx) as H. pose proof (Rabs_pos x) as H0.
      replace (x * x) with (Rabs x * Rabs x)
        by (rewrite <- Rabs_mult; apply Rabs_pos_eq; apply sqr_nonneg).
      replace (B ^ 2) with (B * B) by ring. apply Rmult_le_compat; assumption.
    - rewrite Hlen. apply Rmult_le_compat_r; [apply pow2_ge_0|exact HTn]. }
  assert (H1 : 0 <= sumR (map Rabs k) <= INR n * B).
  { split; [apply sumR_abs_nonneg|]. eapply Rle_trans.
    - apply (sumR_map_le_const Rabs B). exact Hk.
    - rewrite Hlen. apply Rmult_le_compat_r; assumption. }
  assert (Hd : 1 <= INR (T - a)).
  { change 1 with (INR 1). apply le_INR. lia. }
  assert (H3 : sumR (map Rabs k) ^ 2 / INR (T - a) <= (INR n * B) ^ 2).
  { apply Rle_trans with (sumR (map Rabs k) ^ 2).
    - apply Rmult_le_reg_r with (INR (T - a)); [lra|].
      unfold Rdiv. rewrite Rmult_assoc, Rinv_l by lra.
      pose proof (pow2_ge_0 (sumR (map Rabs k))) as Hp. nra.
    - replace (sumR (map Rabs k) ^ 2) with (sumR (map Rabs k) * sumR (map Rabs k)) by ring.
      replace ((INR n * B) ^ 2) with ((INR n * B) * (INR n * B)) by ring.
      apply Rmult_le_compat; lra. }
  replace (INR n * (INR n + 1) * B ^ 2) with (INR n * B ^ 2 + (INR n * B) ^ 2) by ring.
  lra.
Qed.

Lemma l2_scale_absmax_ok (l : list float) (Bf : float) :
  l2_absmax_ok l Bf = true ->
  forall a T, (a < T <= length l)%nat ->
    l2_scale (map FR l) a T <= INR (length l) * (INR (length l) + 1) * FR Bf ^ 2.
Proof.
  intros H a T HaT.
  pose proof (l2_scale_le_absmax (map FR l) (FR Bf) (l2_absmax_ok_spec l Bf H) a T) as H'.
  rewrite map_length in H'. now apply H'.
Qed.

(** MAIN THEOREM, every premise boolean *)
Theorem pelt_F64_l2_end_to_end_absmax (l : list float) (penf Magf Bf : float) (m : nat) :
  let n := length l in
  let Cf := l2_cost_F l in
  (1 <= m)%nat -> (2 * m <= n)%nat -> INR n * u53 <= 1 / 100 ->
  l2_all_trace_ok l = true ->
  pelt_trace_finite Cf penf m (m - 1) n = true ->
  pelt_mag_ok Cf penf m (m - 1) n Magf = true ->
  l2_absmax_ok l Bf = true ->
  let cpts := snd (gpelt F64 Cf penf m (m - 1) n) in
  let Sc := INR n * (INR n + 1) * FR Bf ^ 2 in
  let delta := (42 / 10 * INR n + 6) * u53 * Sc in
  let Mag := FR Magf / (1 - u53) in
  Adm m cpts n /\
  forall c, Adm m c n ->
    pencostR (fun s e => rss (slice s e (map FR l))) (FR penf) cpts n
    <= pencostR (fun s e => rss (slice s e (map FR l))) (FR penf) c n
       + 3 * INR n * (delta + 2 * u53 * Mag).
Proof.
  intros n Cf Hm Hn Hsmall Htr Hfin Hmag Habs cpts Sc delta Mag.
  apply (pelt_F64_l2_end_to_end l penf Magf m Sc); try assumption.
  exact (l2_scale_absmax_ok l Bf Habs).
Qed.

Theorem pelt_F64_l2_final_score_absmax (l : list float) (penf Magf Bf : float) (m : nat) :
  let n := length l in
  let Cf := l2_cost_F l in
  (1 <= m)%nat -> (2 * m <= n)%nat -> INR n * u53 <= 1 / 100 ->
  l2_all_trace_ok l = true ->
  pelt_trace_finite Cf penf m (m - 1) n = true ->
  pelt_mag_ok Cf penf m (m - 1) n Magf = true ->
  l2_absmax_ok l Bf = true ->
  let out := gpelt F64 Cf penf m (m - 1) n in
  let Sc := INR n * (INR n + 1) * FR Bf ^ 2 in
  let delta := (42 / 10 * INR n + 6) * u53 * Sc in
  let Mag := FR Magf / (1 - u53) in
  Rabs (FR (nthV F64 (fst out) (n - 1))
        - pencostR (fun s e => rss (slice s e (map FR l))) (FR penf) (snd out) n)
  <= INR n * (delta + 2 * u53 * Mag).
Proof.
  intros n Cf Hm Hn Hsmall Htr Hfin Hmag Habs out Sc delta Mag.
  apply (pelt_F64_l2_final_score l penf Magf m Sc); try assumption.
  exact (l2_scale_absmax_ok l Bf Habs).
Qed.

(* ------------------------------------------------------------------------- *)
(** * 6. Non-vacuity: a concrete run                                           *)
(* ------------------------------------------------------------------------- *)

(** eight observations with a level shift after the fourth one *)
Definition e2_xs : list float := [0.125; 0.375; 0.25; 0.5; 5.125; 5.375; 5.25; 5.5]%float.
Definition e2_pen : float := 1.5%float.
Definition e2_Mag : float := 64%float.
Definition e2_B : float := 5.5%float.

Example e2_all_trace_ok : l2_all_trace_ok e2_xs = true.
Proof. vm_compute. reflexivity. Qed.
Example e2_trace_finite : pelt_trace_finite (l2_cost_F e2_xs) e2_pen 2 1 8 = true.
Proof. vm_compute. reflexivity. Qed.
Example e2_mag_ok : pelt_mag_ok (l2_cost_F e2_xs) e2_pen 2 1 8 e2_Mag = true.
Proof. vm_compute. reflexivity. Qed.
Example e2_absmax_ok : l2_absmax_ok e2_xs e2_B = true.
Proof. vm_compute. reflexivity. Qed.
Example e2_changepoints : snd (gpelt F64 (l2_cost_F e2_xs) e2_pen 2 1 8) = [4%nat].
Proof. vm_compute. reflexivity. Qed.
Example e2_final_score :
  nthV F64 (fst (gpelt F64 (l2_cost_F e2_xs) e2_pen 2 1 8)) 7 = 1.65625%float.
Proof. vm_compute. reflexivity. Qed.

(** the checkers are not trivially true: a magnitude bound that is too small, a bound on the
    data that is too small, and data whose squares underflow are rejected *)
Example e2_mag_rejected : pelt_mag_ok (l2_cost_F e2_xs) e2_pen 2 1 8 32%float = false.
Proof. vm_compute. reflexivity. Qed.
Example e2_absmax_rejected : l2_absmax_ok e2_xs 5.25%float = false.
Proof. vm_compute. reflexivity. Qed.
Example e2_all_trace_rejected :
  l2_all_trace_ok [0x1p-600; 0.375; 0.25; 0.5; 5.125; 5.375; 5.25; 5.5]%float = false.
Proof. vm_compute. reflexivity. Qed.

(** real values of concrete floats *)
Lemma FR_SF x : FR x = SF2R radix2 (Prim2SF x).
Proof. unfold FloatRefine.FR, FP.Prim2B. apply B2R_SF2B. Qed.

Lemma FR_dyadic x s mm e :
  Prim2SF x = S754_finite s mm e -> (e <= 0)%Z ->
  FR x = IZR (cond_Zopp s (Zpos mm)) / IZR (2 ^ (- e)).
Proof.
  intros H He. rewrite FR_SF, H. unfold SF2R, F2R. cbn [Fnum Fexp].
  unfold Rdiv. f_equal.
  replace e with (- - e)%Z at 1 by lia. rewrite bpow_opp. f_equal.
  rewrite <- IZR_Zpower by lia. reflexivity.
Qed.

Ltac FR_eval x H :=
  let sf := eval vm_compute in (Prim2SF x) in
  match sf with
  | S754_finite ?s ?mm ?e =>
    assert (H : FR x = IZR (cond_Zopp s (Zpos mm)) / IZR (2 ^ (- e)))
      by (apply FR_dyadic; [vm_compute; reflexivity|lia]);
    let z := eval vm_compute in (2 ^ (- e))%Z in
    change (2 ^ (- e))%Z with z in H; cbn [cond_Zopp] in H
  end.

Lemma FR_e2_pen : FR e2_pen = 3 / 2.
Proof. FR_eval e2_pen H. rewrite H. lra. Qed.
Lemma FR_e2_Mag : FR e2_Mag = 64.
Proof. FR_eval e2_Mag H. rewrite H. lra. Qed.
Lemma FR_e2_B : FR e2_B = 11 / 2.
Proof. FR_eval e2_B H. rewrite H. lra. Qed.

Definition e2_xsR : list R := [1/8; 3/8; 1/4; 1/2; 41/8; 43/8; 21/4; 11/2].

Lemma FR_e2_xs : map FR e2_xs = e2_xsR.
Proof.
  unfold e2_xs, e2_xsR. cbn [map].
  FR_eval 0.125%float H1. FR_eval 0.375%float H2. FR_eval 0.25%float H3. FR_eval 0.5%float H4.
  FR_eval 5.125%float H5. FR_eval 5.375%float H6. FR_eval 5.25%float H7. FR_eval 5.5%float H8.
  rewrite H1, H2, H3, H4, H5, H6, H7, H8.
  repeat (apply f_equal2; [lra|]). reflexivity.
Qed.

Lemma e2_small : INR 8 * u53 <= 1 / 100.
Proof. rewrite u53_value. cbn [INR]. lra. Qed.

(** the instantiated main theorem, with the concrete numbers: the binary64 run reports the
    single changepoint 4, and the penalised residual sum of squares of [4] is within
    3 * 8 * (delta + 2 u53 Mag) of that of ANY admissible segmentation, where
    delta = (4.2 * 8 + 6) u53 * (8 * 9 * 5.5^2), Mag = 64 / (1 - u53) *)
Example e2_end_to_end :
  Adm 2 [4%nat] 8 /\
  forall c, Adm 2 c 8 ->
    pencostR (fun s e => rss (slice s e e2_xsR)) (3 / 2) [4%nat] 8
    <= pencostR (fun s e => rss (slice s e e2_xsR)) (3 / 2) c 8
       + 3 * 8 * ((42 / 10 * 8 + 6) * u53 * (8 * (8 + 1) * (11 / 2) ^ 2)
                  + 2 * u53 * (64 / (1 - u53))).
Proof.
  pose proof (pelt_F64_l2_end_to_end_absmax e2_xs e2_pen e2_Mag e2_B 2) as H.
  cbv zeta in H. change (length e2_xs) with 8%nat in H. change (2 - 1)%nat with 1%nat in H.
  specialize (H ltac:(lia) ltac:(lia) e2_small e2_all_trace_ok e2_trace_finite e2_mag_ok
                e2_absmax_ok).
  rewrite e2_changepoints, FR_e2_xs, FR_e2_pen, FR_e2_Mag, FR_e2_B in H.
  replace (INR 8) with 8 in H by (cbn [INR]; lra).
  exact H.
Qed.

(** ... which is less than 1e-9 *)
Example e2_end_to_end_1e9 :
  forall c, Adm 2 c 8 ->
    pencostR (fun s e => rss (slice s e e2_xsR)) (3 / 2) [4%nat] 8
    <= pencostR (fun s e => rss (slice s e e2_xsR)) (3 / 2) c 8 + 1 / 1000000000.
Proof.
  intros c Hc. pose proof (proj2 e2_end_to_end c Hc) as H.
  eapply Rle_trans; [exact H|]. apply Rplus_le_compat_l.
  rewrite u53_value. lra.
Qed.

(** the reported final score 1.65625 against the penalised RSS of the reported changepoint *)
Example e2_final_score_close :
  Rabs (FR 1.65625%float - pencostR (fun s e => rss (slice s e e2_xsR)) (3 / 2) [4%nat] 8)
  <= 8 * ((42 / 10 * 8 + 6) * u53 * (8 * (8 + 1) * (11 / 2) ^ 2) + 2 * u53 * (64 / (1 - u53))).
Proof.
  pose proof (pelt_F64_l2_final_score_absmax e2_xs e2_pen e2_Mag e2_B 2) as H.
  cbv zeta in H. change (length e2_xs) with 8%nat in H. change (2 - 1)%nat with 1%nat in H.
  change (8 - 1)%nat with 7%nat in H.
  specialize (H ltac:(lia) ltac:(lia) e2_small e2_all_trace_ok e2_trace_finite e2_mag_ok
                e2_absmax_ok).
  rewrite e2_changepoints, e2_final_score, FR_e2_xs, FR_e2_pen, FR_e2_Mag, FR_e2_B in H.
  replace (INR 8) with 8 in H by (cbn [INR]; lra).
  exact H.
Qed.

Print Assumptions pelt_F64_l2_end_to_end.
Print Assumptions pelt_F64_l2_final_score.
Print Assumptions pelt_F64_l2_end_to_end_absmax.
Print Assumptions e2_end_to_end.
